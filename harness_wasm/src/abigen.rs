//! T3 probes: what the WAT says, what a compiled header imports, what the REAL trampoline accepts,
//! rejects and emits. Output: one JSON object on stdout.
use crate::gluegen::{api_imports, decode, guest_wat, trampoline};
use anyhow::Result;
use serde_json::json;
use wasmparser::{Parser, Payload, TypeRef, ValType};

fn vt(t: &ValType) -> &'static str { match t { ValType::I32 => "i32", ValType::I64 => "i64", ValType::F32 => "f32", ValType::F64 => "f64", _ => "other" } }
fn sig(p: &[ValType], r: &[ValType]) -> serde_json::Value { json!([p.iter().map(vt).collect::<Vec<_>>(), r.iter().map(vt).collect::<Vec<_>>()]) }

/// (module, name, sig) of every function import of a wasm binary.
pub fn func_imports(wasm: &[u8]) -> Result<Vec<(String, String, serde_json::Value)>> {
    let mut types: Vec<(Vec<ValType>, Vec<ValType>)> = vec![]; let mut out = vec![];
    for p in Parser::new(0).parse_all(wasm) {
        match p? {
            Payload::TypeSection(r) => for rg in r { for st in rg?.types() { if let wasmparser::CompositeInnerType::Func(f) = &st.composite_type.inner { types.push((f.params().to_vec(), f.results().to_vec())); } } },
            Payload::ImportSection(r) => for imp in r.into_imports() { let imp = imp?; if let TypeRef::Func(t) = imp.ty { let (p, r) = &types[t as usize]; out.push((imp.module.to_string(), imp.name.to_string(), sig(p, r))); } },
            _ => {}
        }
    }
    Ok(out)
}

fn accepts(wat_text: &str) -> bool {
    match wat::parse_str(wat_text) { Ok(b) => trampoline(&b).is_ok(), Err(_) => false }
}

pub fn run(repo: &str, header_wasm: Option<&str>) -> Result<()> {
    let (module, imps) = api_imports(repo)?;
    let provider_module = shopify_function_trampoline::PROVIDER_MODULE_NAME;
    // what the trampoline accepts: one guest per API name with the public signature
    let mut accepted = vec![]; let mut wrong_sig_rejected = vec![]; let mut wrong_sig_accepted = vec![]; let mut dup_wrong_sig_rejected: Vec<String> = vec![];
    let ty = |t: &ValType| vt(t).to_string();
    for i in &imps {
        let params: String = i.params.iter().map(|p| format!(" (param {})", ty(p))).collect(); let results: String = i.results.iter().map(|p| format!(" (result {})", ty(p))).collect();
        let g = format!("(module (import \"{}\" \"{}\" (func{}{})) (memory 1))", provider_module, i.name, params, results);
        if accepts(&g) { accepted.push(i.name.clone()); }
        // a wrong signature: one extra i64 parameter
        let g2 = format!("(module (import \"{}\" \"{}\" (func{} (param i64){})) (memory 1))", provider_module, i.name, params, results);
        if accepts(&g2) { wrong_sig_accepted.push(i.name.clone()); } else { wrong_sig_rejected.push(i.name.clone()); }
        // the same off-ABI signature hidden behind a first, canonical import of the same name
        let g3 = format!("(module (import \"{m}\" \"{n}\" (func{p}{r})) (import \"{m}\" \"{n}\" (func{p} (param i32){r})) (memory 1))", m = provider_module, n = i.name, p = params, r = results);
        if !accepts(&g3) { dup_wrong_sig_rejected.push(i.name.clone()); }
    }
    // which `_<public name>` imports does the tool let through? (each must be something the provider exports)
    let mut lowlevel_accepted = vec![];
    for i in &imps { let n = format!("_{}", i.name); if accepts(&format!("(module (import \"{}\" \"{}\" (func)) (memory 1))", provider_module, n)) { lowlevel_accepted.push(n); } }
    let unknown_rejected = !accepts(&format!("(module (import \"{}\" \"shopify_function_not_an_api_function\" (func)) (memory 1))", provider_module));
    let empty_name_rejected = !accepts(&format!("(module (import \"{}\" \"\" (func)) (memory 1))", provider_module));
    let other_version_rejected = !accepts("(module (import \"shopify_function_v1\" \"shopify_function_input_get\" (func (result i64))) (memory 1))")
        && !accepts("(module (import \"shopify_function_v999\" \"x\" (func)) (memory 1))");
    // the module name the tool treats as the API namespace is exactly the public one: every other spelling that
    // starts with the version prefix (other numbers, leading zeros, signs, suffixes, no number) must be refused
    let major: String = provider_module.trim_start_matches("shopify_function_v").to_string();
    let n: u64 = major.parse().unwrap_or(0);
    let mut module_probes = vec![provider_module.to_string()];
    for v in [format!("0{}", major), format!("+{}", major), format!("{}_beta", major), format!("{}.0", major), format!("{}0", major), format!("{} ", major), "next".to_string(), "".to_string(),
              format!("{}", n + 1), format!("{}", n.saturating_sub(1)), format!("00{}", major), format!("{}_", major), "x".to_string()] {
        module_probes.push(format!("shopify_function_v{}", v));
    }
    let module_probe_results: Vec<serde_json::Value> = module_probes.iter().map(|m|
        json!([m, accepts(&format!("(module (import \"{}\" \"shopify_function_input_get\" (func (result i64))) (memory 1))", m))])).collect();
    let two_memories_rejected = !accepts("(module (memory 1) (memory 1))");
    // what it emits for the all-imports guest
    // (when the tool refuses the guest declaring the whole public API, that disagreement is recorded by the per-function
    //  probes above; what it emits is then taken from the guest of the functions it does accept)
    let acc: Vec<_> = imps.iter().filter(|i| accepted.contains(&i.name)).cloned().collect();
    let out = match trampoline(&wat::parse_str(&guest_wat(&module, &imps)?)?) { Ok(o) => o, Err(_) => trampoline(&wat::parse_str(&guest_wat(&module, &acc)?)?)? };
    let d = decode(&out, provider_module)?;
    let emitted: Vec<serde_json::Value> = d.func_imports.iter().map(|(m, n, t)| { let (p, r) = &d.types[*t as usize]; json!([m, n, sig(p, r)]) }).collect();
    let mut j = json!({
        "wat_module": module,
        "wat": imps.iter().map(|i| json!([i.name, sig(&i.params, &i.results)])).collect::<Vec<_>>(),
        "trampoline_module": provider_module,
        "trampoline_accepts": accepted, "trampoline_rejects_wrong_sig": wrong_sig_rejected, "trampoline_rejects_wrong_sig_dup": dup_wrong_sig_rejected, "trampoline_accepts_wrong_sig": wrong_sig_accepted,
        "unknown_rejected": unknown_rejected, "empty_name_rejected": empty_name_rejected, "other_version_rejected": other_version_rejected, "two_memories_rejected": two_memories_rejected, "module_probes": module_probe_results,
        "trampoline_accepts_lowlevel": lowlevel_accepted, "trampoline_emits": emitted, "trampoline_memory_imports": d.mem_imports,
    });
    if let Some(h) = header_wasm { let b = std::fs::read(h)?; j["header"] = json!(func_imports(&b)?.into_iter().map(|(m, n, s)| json!([m, n, s])).collect::<Vec<_>>()); }
    let checked_in = format!("{}/api/src/test_data/header_test.wasm", repo);
    if let Ok(b) = std::fs::read(&checked_in) { j["header_checked_in"] = json!(func_imports(&b)?.into_iter().map(|(m, n, s)| json!([m, n, s])).collect::<Vec<_>>()); }
    println!("{}", j);
    Ok(())
}
