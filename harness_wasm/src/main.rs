//! Wasm-side tooling: T4 (regenerate the emitted glue into Coq), T3 probes, C04/C07 harnesses.
mod abigen;
mod c04;
mod c07;
mod gluegen;
mod prng;

fn main() {
    // a run that takes absurdly long (an implementation or a tool that loops for ever) ends with an error instead of stalling the check
    { let tier_thorough = std::env::args().any(|a| a == "thorough"); let limit: u64 = std::env::var("VERIF_HARNESS_DEADLINE_S").ok().and_then(|x| x.parse().ok()).unwrap_or(if tier_thorough { 3000 } else { 600 });
      std::thread::spawn(move || { std::thread::sleep(std::time::Duration::from_secs(limit)); eprintln!("harness deadline of {} s exceeded (something loops for ever?)", limit); std::process::exit(3); }); }

    let argv: Vec<String> = std::env::args().collect();
    if argv.len() < 2 { eprintln!("usage: sfv_harness_wasm <gluegen|...> ..."); std::process::exit(2); }
    let r = match argv[1].as_str() {
        "gluegen" => gluegen::run(&argv[2], &argv[3]),
        "c04" => c04::run(&argv[2..]),
        "c07" => c07::run(&argv[2..]),
        "abigen" => abigen::run(&argv[2], argv.get(3).map(|s| s.as_str())),
        x => { eprintln!("unknown component {}", x); std::process::exit(2); }
    };
    if let Err(e) = r { eprintln!("ERROR: {:#}", e); std::process::exit(1); }
}
