//! Wasm-side tooling: T4 (regenerate the emitted glue into Coq), T3 probes, C04/C07 harnesses.
mod abigen;
mod c04;
mod c07;
mod gluegen;
mod prng;

fn main() {
    let argv: Vec<String> = std::env::args().collect();
    if argv.len() < 2 { eprintln!("usage: sfv_harness_wasm <gluegen|...> ..."); std::process::exit(2); }
    let r = match argv[1].as_str() {
        "gluegen" => gluegen::run(&argv[2], &argv[3]),
        "c04" => c04::run(&argv[2..]),
        "c07" => c07::run(&argv[2..]),
        "abigen" => abigen::run(&argv[2], argv.get(3).map(|s| s.as_str())),
        x => { eprintln!("unknown component {}", x); std::process::exit(2); }
    };
    if let Err(e) = r { eprintln!("ERROR: {:#}", e); std::process::exit(1); }
}
