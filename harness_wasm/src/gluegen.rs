//! T4: run the REAL trampoline on a guest that imports the whole public API (signatures taken from
//! api/src/shopify_function.wat) and calls every import from an exported wrapper; decode the result
//! with wasmparser and emit every function (imports and bodies) as a Coq term of the mini-Wasm of
//! coq/theories/Tramp/WasmMini.v.  Anything outside the supported instruction subset is an error
//! (= a broken tie, reported by the check).
use anyhow::{anyhow, bail, Context, Result};
use std::fmt::Write as _;
use wasmparser::{Operator, Parser, Payload, TypeRef, ValType};

#[derive(Clone)]
pub struct ApiImport { pub name: String, pub params: Vec<ValType>, pub results: Vec<ValType> }

/// The API as the public WAT describes it.
pub fn api_imports(repo: &str) -> Result<(String, Vec<ApiImport>)> {
    let wat_text = std::fs::read_to_string(format!("{}/api/src/shopify_function.wat", repo))?;
    let bytes = wat::parse_str(&wat_text).context("parsing api/src/shopify_function.wat")?;
    let mut types: Vec<(Vec<ValType>, Vec<ValType>)> = vec![];
    let mut out = vec![]; let mut module_name = String::new();
    for p in Parser::new(0).parse_all(&bytes) {
        match p? {
            Payload::TypeSection(r) => for rg in r { for st in rg?.types() { if let wasmparser::CompositeInnerType::Func(f) = &st.composite_type.inner { types.push((f.params().to_vec(), f.results().to_vec())); } } },
            Payload::ImportSection(r) => for imp in r.into_imports() { let imp = imp?;
                if let TypeRef::Func(t) = imp.ty { let (p, r) = types[t as usize].clone();
                    if module_name.is_empty() { module_name = imp.module.to_string(); } else if module_name != imp.module { bail!("the public WAT imports from two modules: {} and {}", module_name, imp.module); }
                    out.push(ApiImport { name: imp.name.to_string(), params: p, results: r }); } },
            _ => {}
        }
    }
    if out.is_empty() { bail!("no function imports found in api/src/shopify_function.wat"); }
    Ok((module_name, out))
}

fn vt(t: &ValType) -> Result<&'static str> { Ok(match t { ValType::I32 => "i32", ValType::I64 => "i64", ValType::F64 => "f64", ValType::F32 => "f32", _ => bail!("unsupported value type {:?}", t) }) }
fn cvt(t: &ValType) -> Result<&'static str> { Ok(match t { ValType::I32 => "TI32", ValType::I64 => "TI64", ValType::F64 => "TF64", _ => bail!("unsupported value type {:?} in glue", t) }) }

/// A guest importing everything, with one exported wrapper per import.
pub fn guest_wat(module: &str, imps: &[ApiImport]) -> Result<String> {
    let mut s = String::from("(module\n");
    for i in imps {
        write!(s, "  (import \"{}\" \"{}\" (func ${}", module, i.name, i.name)?;
        for p in &i.params { write!(s, " (param {})", vt(p)?)?; }
        for r in &i.results { write!(s, " (result {})", vt(r)?)?; }
        s.push_str("))\n");
    }
    s.push_str("  (memory (export \"memory\") 1)\n");
    for i in imps {
        write!(s, "  (func (export \"w_{}\")", i.name)?;
        for p in &i.params { write!(s, " (param {})", vt(p)?)?; }
        for r in &i.results { write!(s, " (result {})", vt(r)?)?; }
        for k in 0..i.params.len() { write!(s, " local.get {}", k)?; }
        write!(s, " call ${})\n", i.name)?;
    }
    s.push_str(")\n");
    Ok(s)
}

pub fn trampoline(wasm: &[u8]) -> Result<Vec<u8>> {
    let module = walrus::Module::from_buffer(wasm)?;
    let mut m = shopify_function_trampoline::TrampolineCodegen::new(module)?.apply()?;
    Ok(m.emit_wasm())
}

pub struct Decoded {
    pub types: Vec<(Vec<ValType>, Vec<ValType>)>,
    pub func_imports: Vec<(String, String, u32)>,          // module, name, type
    pub mem_imports: Vec<(String, String)>,
    pub own_memories: u32,
    pub local_funcs: Vec<(u32, Vec<ValType>, String)>,     // type, extra locals, body as Coq list
    pub exports: Vec<(String, u32)>,                       // exported functions
}

fn instr(op: &Operator, prov_mem: Option<u32>, out: &mut String) -> Result<()> {
    let mem = |m: u32| -> &'static str { if Some(m) == prov_mem { "Prov" } else { "Guest" } };
    match op {
        Operator::LocalGet { local_index } => write!(out, "LocalGet {}", local_index)?,
        Operator::LocalSet { local_index } => write!(out, "LocalSet {}", local_index)?,
        Operator::LocalTee { local_index } => write!(out, "LocalTee {}", local_index)?,
        Operator::Call { function_index } => write!(out, "Call {}", function_index)?,
        Operator::I64Const { value } => write!(out, "I64Const {}", *value as u64)?,
        Operator::I32Const { value } => write!(out, "I32Const {}", *value as u32)?,
        Operator::I64ShrU => out.push_str("I64ShrU"),
        Operator::I32WrapI64 => out.push_str("I32WrapI64"),
        Operator::I32Add => out.push_str("I32Add"),
        Operator::I32Ne => out.push_str("I32Ne"),
        Operator::I32Eq => out.push_str("I32Eq"),
        Operator::I32Eqz => out.push_str("I32Eqz"),
        Operator::Drop => out.push_str("Drop"),
        Operator::I32Load { memarg } => write!(out, "I32Load {} {}", mem(memarg.memory), memarg.offset)?,
        Operator::MemoryCopy { dst_mem, src_mem } => write!(out, "MemoryCopy {} {}", mem(*dst_mem), mem(*src_mem))?,
        x => bail!("instruction outside the modelled subset in emitted glue: {:?}", x),
    }
    Ok(())
}

/// Structured body: If blocks become nested `If then else`.
fn body(ops: &[Operator], i: &mut usize, prov_mem: Option<u32>) -> Result<(String, char)> {
    let mut items: Vec<String> = vec![];
    loop {
        if *i >= ops.len() { return Ok((format!("[{}]", items.join("; ")), 'e')); }
        let op = &ops[*i]; *i += 1;
        match op {
            Operator::End => return Ok((format!("[{}]", items.join("; ")), 'e')),
            Operator::Else => return Ok((format!("[{}]", items.join("; ")), 'l')),
            Operator::If { blockty } => {
                if !matches!(blockty, wasmparser::BlockType::Empty) { bail!("typed if-block in emitted glue"); }
                let (t, term) = body(ops, i, prov_mem)?;
                let e = if term == 'l' { body(ops, i, prov_mem)?.0 } else { "[]".to_string() };
                items.push(format!("If {} {}", t, e));
            }
            op => { let mut s = String::new(); instr(op, prov_mem, &mut s)?; items.push(s); }
        }
    }
}

pub fn decode(wasm: &[u8], provider_module: &str) -> Result<Decoded> {
    let mut d = Decoded { types: vec![], func_imports: vec![], mem_imports: vec![], own_memories: 0, local_funcs: vec![], exports: vec![] };
    let mut func_types: Vec<u32> = vec![]; let mut bodies = vec![];
    let mut prov_mem: Option<u32> = None; let mut nmem = 0u32;
    for p in Parser::new(0).parse_all(wasm) {
        match p? {
            Payload::TypeSection(r) => for rg in r { for st in rg?.types() { if let wasmparser::CompositeInnerType::Func(f) = &st.composite_type.inner { d.types.push((f.params().to_vec(), f.results().to_vec())); } } },
            Payload::ImportSection(r) => for imp in r.into_imports() { let imp = imp?; match imp.ty {
                TypeRef::Func(t) => d.func_imports.push((imp.module.to_string(), imp.name.to_string(), t)),
                TypeRef::Memory(_) => { if imp.module == provider_module && imp.name == "memory" { prov_mem = Some(nmem); } d.mem_imports.push((imp.module.to_string(), imp.name.to_string())); nmem += 1; }
                _ => {} } },
            Payload::FunctionSection(r) => for t in r { func_types.push(t?); },
            Payload::MemorySection(r) => { for _ in r { d.own_memories += 1; nmem += 1; } },
            Payload::ExportSection(r) => for e in r { let e = e?; if e.kind == wasmparser::ExternalKind::Func { d.exports.push((e.name.to_string(), e.index)); } },
            Payload::CodeSectionEntry(b) => bodies.push(b),
            _ => {}
        }
    }
    for (k, b) in bodies.iter().enumerate() {
        let mut locals = vec![];
        for l in b.get_locals_reader()? { let (n, t) = l?; for _ in 0..n { locals.push(t); } }
        let ops: Vec<Operator> = b.get_operators_reader()?.into_iter().collect::<std::result::Result<_, _>>()?;
        let mut i = 0; let (text, _) = body(&ops, &mut i, prov_mem)?;
        d.local_funcs.push((func_types[k], locals, text));
    }
    Ok(d)
}

pub fn run(repo: &str, out_path: &str) -> Result<()> {
    let (module, imps) = api_imports(repo)?;
    let wat_text = guest_wat(&module, &imps)?;
    let guest = wat::parse_str(&wat_text)?;
    let out = trampoline(&guest).context("the real trampoline rejected the all-imports guest")?;
    wasmparser::validate(&out)?;
    let provider_module = shopify_function_trampoline::PROVIDER_MODULE_NAME;
    let d = decode(&out, provider_module)?;
    let nimp = d.func_imports.len();
    let mut s = String::new();
    s.push_str("(* GENERATED by harness_wasm gluegen (translator T4) from the output of the real trampoline -- do not edit *)\n");
    s.push_str("From Coq Require Import NArith List String.\nFrom SFV Require Import Tramp.WasmMini.\nImport ListNotations.\nOpen Scope string_scope.\n\n");
    writeln!(s, "Definition provider_module : string := \"{}\".", provider_module)?;
    writeln!(s, "Definition api_module : string := \"{}\".\n", module)?;
    s.push_str("(* every function of the trampolined all-imports guest, by function index *)\nDefinition funcs : list func := [\n");
    let mut rows = vec![];
    let tys = |ts: &[ValType]| -> Result<String> { Ok(format!("[{}]", ts.iter().map(cvt).collect::<Result<Vec<_>>>()?.join("; "))) };
    for (m, n, t) in &d.func_imports {
        let (p, r) = &d.types[*t as usize];
        rows.push(format!("  Import \"{}\" \"{}\" {} {}", m, n, tys(p)?, tys(r)?));
    }
    for (t, locals, text) in &d.local_funcs {
        let (p, r) = &d.types[*t as usize];
        rows.push(format!("  Local {{| fparams := {}; flocals := {}; fresults := {}; fbody := {} |}}", tys(p)?, tys(locals)?, tys(r)?, text));
    }
    s.push_str(&rows.join(";\n")); s.push_str("\n].\n\n");
    // wrapper of each API import: the exported function w_<name>, and the function it calls
    s.push_str("(* API import name -> index of its exported wrapper (a local function whose body is `local.get 0..n-1; call k`) *)\nDefinition wrappers : list (string * nat) := [\n");
    let mut w = vec![];
    for i in &imps {
        let idx = d.exports.iter().find(|(n, _)| *n == format!("w_{}", i.name)).ok_or_else(|| anyhow!("wrapper export w_{} lost", i.name))?.1;
        w.push(format!("  (\"{}\", {}%nat)", i.name, idx));
    }
    s.push_str(&w.join(";\n")); s.push_str("\n].\n\n");
    s.push_str("(* the public signature of each API import (from api/src/shopify_function.wat) *)\nDefinition api_sigs : list (string * (list vtype * list vtype)) := [\n");
    let mut g = vec![];
    for i in &imps { g.push(format!("  (\"{}\", ({}, {}))", i.name, tys(&i.params)?, tys(&i.results)?)); }
    s.push_str(&g.join(";\n")); s.push_str("\n].\n\n");
    writeln!(s, "Definition n_func_imports : nat := {}%nat.", nimp)?;
    writeln!(s, "Definition memory_imports : list (string * string) := [{}].", d.mem_imports.iter().map(|(m, n)| format!("(\"{}\", \"{}\")", m, n)).collect::<Vec<_>>().join("; "))?;
    writeln!(s, "Definition own_memories : nat := {}%nat.", d.own_memories)?;
    let old = std::fs::read_to_string(out_path).unwrap_or_default();
    if old != s { std::fs::write(out_path, &s)?; }
    println!("{}", serde_json::json!({"functions": nimp + d.local_funcs.len(), "imports": nimp, "api_imports": imps.len()}));
    Ok(())
}
