//! One PRNG (splitmix64) from which every random choice of a run derives.
#[derive(Clone)]
pub struct Rng(pub u64);
impl Rng {
    pub fn new(seed: u64) -> Self { Rng(seed ^ 0x9E3779B97F4A7C15) }
    pub fn fork(&mut self, tag: u64) -> Rng { let s = self.next_u64(); Rng(s ^ tag.wrapping_mul(0xD1342543DE82EF95)) }
    pub fn next_u64(&mut self) -> u64 {
        self.0 = self.0.wrapping_add(0x9E3779B97F4A7C15);
        let mut z = self.0;
        z = (z ^ (z >> 30)).wrapping_mul(0xBF58476D1CE4E5B9);
        z = (z ^ (z >> 27)).wrapping_mul(0x94D049BB133111EB);
        z ^ (z >> 31)
    }
    pub fn below(&mut self, n: u64) -> u64 { if n == 0 { 0 } else { self.next_u64() % n } }
    pub fn range(&mut self, lo: u64, hi: u64) -> u64 { lo + self.below(hi - lo + 1) }
    pub fn chance(&mut self, pct: u64) -> bool { self.below(100) < pct }
    pub fn pick<'a, T>(&mut self, xs: &'a [T]) -> &'a T { &xs[self.below(xs.len() as u64) as usize] }
}
pub fn hex(b: &[u8]) -> String { let mut s = String::with_capacity(b.len()*2); for x in b { s.push_str(&format!("{:02x}", x)); } if s.is_empty() { s.push('-'); } s }
pub fn unhex(s: &str) -> Vec<u8> { if s == "-" { return vec![]; } (0..s.len()/2).map(|i| u8::from_str_radix(&s[2*i..2*i+2], 16).unwrap()).collect() }
