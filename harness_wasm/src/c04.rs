//! C04: guests importing random subsets of the API are trampolined by the REAL tool and executed in
//! wasmtime against a SCRIPTED low-level provider (host functions + a host memory): every call's
//! return values, the changes to both linear memories and the provider call log are observed.
use crate::gluegen::{api_imports, trampoline, ApiImport};
use crate::prng::*;
use anyhow::{anyhow, Result};
use std::fmt::Write as _;
use wasmparser::ValType;
use wasmtime::{Caller, Engine, FuncType, Linker, Memory, MemoryType, Module, Store, Val, ValType as WT};

pub const MEM: usize = 65536;
pub fn ginit(seed: u64, a: usize) -> u8 { ((a as u64).wrapping_mul(7).wrapping_add(seed.wrapping_mul(3))) as u8 }
pub fn pinit(seed: u64, a: usize) -> u8 { ((a as u64).wrapping_mul(13).wrapping_add(seed.wrapping_mul(5)).wrapping_add(1)) as u8 }

#[derive(Default)]
pub struct State { pub resp: std::collections::VecDeque<Vec<u64>>, pub log: Vec<String>, pub pmem: Option<Memory> }

fn wt(t: &ValType) -> WT { match t { ValType::I32 => WT::I32, ValType::I64 => WT::I64, ValType::F64 => WT::F64, ValType::F32 => WT::F32, _ => WT::I32 } }
fn vt(t: &ValType) -> &'static str { match t { ValType::I32 => "i32", ValType::I64 => "i64", ValType::F64 => "f64", _ => "f32" } }
fn val_u64(v: &Val) -> u64 { match v { Val::I32(x) => *x as u32 as u64, Val::I64(x) => *x as u64, Val::F64(x) => *x, Val::F32(x) => *x as u64, _ => 0 } }
fn mk_val(t: &WT, x: u64) -> Val { match t { WT::I32 => Val::I32(x as u32 as i32), WT::I64 => Val::I64(x as i64), WT::F64 => Val::F64(x), WT::F32 => Val::F32(x as u32), _ => Val::I32(0) } }

/// A guest importing `subset` (in that order, foreign imports mixed in), with three ways to reach each import.
pub fn guest(module: &str, subset: &[&ApiImport], foreign_at: &[usize]) -> String {
    let mut s = String::from("(module\n");
    // a foreign memory import that merely happens to be called "memory" (marker: position 9999 in the foreign list)
    if foreign_at.contains(&9999) { s.push_str("  (import \"env\" \"memory\" (memory 1))\n"); }
    // an import may occur more than once: identifiers are positional, the second occurrence is exported as w2_/t2_/r2_
    let occ = |k: usize| -> &'static str { if subset[..k].iter().any(|j| j.name == subset[k].name) { "2" } else { "" } };
    for (k, i) in subset.iter().enumerate() {
        if foreign_at.contains(&k) { writeln!(s, "  (import \"env\" \"foreign{}\" (func $foreign{} (param i32) (result i32)))", k, k).unwrap(); }
        write!(s, "  (import \"{}\" \"{}\" (func $imp{}", module, i.name, k).unwrap();
        for p in &i.params { write!(s, " (param {})", vt(p)).unwrap(); } for r in &i.results { write!(s, " (result {})", vt(r)).unwrap(); }
        s.push_str("))\n");
    }
    s.push_str("  (memory (export \"memory\") 1)\n");
    writeln!(s, "  (table {} funcref)", subset.len().max(1)).unwrap();
    if !subset.is_empty() { write!(s, "  (elem (i32.const 0)").unwrap(); for k in 0..subset.len() { write!(s, " $imp{}", k).unwrap(); } s.push_str(")\n"); }
    for (k, i) in subset.iter().enumerate() {
        if subset[..k].iter().filter(|j| j.name == i.name).count() >= 2 { continue; }
        let sig: String = i.params.iter().map(|p| format!(" (param {})", vt(p))).chain(i.results.iter().map(|r| format!(" (result {})", vt(r)))).collect();
        let gets: String = (0..i.params.len()).map(|j| format!(" local.get {}", j)).collect();
        writeln!(s, "  (func (export \"w{}_{}\"){}{} call $imp{})", occ(k), i.name, sig, gets, k).unwrap();
        writeln!(s, "  (func (export \"t{}_{}\"){}{} i32.const {} call_indirect{})", occ(k), i.name, sig, gets, k, sig).unwrap();
        writeln!(s, "  (export \"r{}_{}\" (func $imp{}))", occ(k), i.name, k).unwrap();
    }
    for k in foreign_at { if *k < subset.len() { writeln!(s, "  (func (export \"f_{}\") (param i32) (result i32) local.get 0 call $foreign{})", k, k).unwrap(); } }
    s.push_str(")\n");
    s
}

pub struct Inst { pub store: Store<State>, pub inst: wasmtime::Instance, pub pmem: Memory, pub fmem: Option<Memory> }

pub fn instantiate(engine: &Engine, wasm: &[u8], seed: u64) -> Result<Inst> {
    let module = Module::new(engine, wasm)?;
    let mut store = Store::new(engine, State::default());
    let mut linker: Linker<State> = Linker::new(engine);
    let pmem = Memory::new(&mut store, MemoryType::new(1, None))?;
    for a in 0..MEM { pmem.data_mut(&mut store)[a] = pinit(seed, a); }
    store.data_mut().pmem = Some(pmem);
    let mut fmem: Option<Memory> = None;
    let imports: Vec<(String, String, wasmtime::ExternType)> = module.imports().map(|i| (i.module().to_string(), i.name().to_string(), i.ty())).collect();
    let mut defined = std::collections::BTreeSet::<(String, String)>::new();
    for (m, n, ty) in imports {
        // a module may import the same item more than once (the tool adds one low-level import per glue function)
        if !defined.insert((m.clone(), n.clone())) { continue; }
        match ty {
            wasmtime::ExternType::Memory(_) => {
                // only the provider module's memory is the provider memory; any other imported memory is a foreign scratch memory
                if m == shopify_function_trampoline::PROVIDER_MODULE_NAME { linker.define(&store, &m, &n, pmem)?; }
                else { let f = Memory::new(&mut store, MemoryType::new(1, None))?; for a in 0..MEM { f.data_mut(&mut store)[a] = 0xEE; } fmem = Some(f); linker.define(&store, &m, &n, f)?; } }
            wasmtime::ExternType::Func(ft) => {
                let name = n.clone(); let fty = ft.clone();
                if m == "env" { linker.func_new(&m, &n, ft, move |_c, args, res| { res[0] = Val::I32(args[0].unwrap_i32().wrapping_add(1)); Ok(()) })?; continue; }
                linker.func_new(&m, &n, ft, move |mut caller: Caller<'_, State>, args, res| {
                    // the scripted provider: log the call (for get_obj_prop with the bytes it sees), answer from the script
                    let mut entry = format!("{}({})", name, args.iter().map(|a| format!("{:x}", val_u64(a))).collect::<Vec<_>>().join(","));
                    let pm = caller.data().pmem.unwrap();
                    if name == "_shopify_function_input_get_obj_prop" { let (b, l) = (val_u64(&args[1]) as usize, val_u64(&args[2]) as usize);
                        if b + l <= MEM { entry.push_str(&format!("<{}>", hex(&pm.data(&caller)[b..b + l]))); } }
                    let r = caller.data_mut().resp.pop_front().ok_or_else(|| anyhow!("provider script exhausted at {}", name))?;
                    if name == "_shopify_function_log_new_utf8_str" && r.len() == 6 { // write the five plan words at the area
                        let area = r[0] as usize; if area + 20 <= MEM { for k in 0..5 { pm.data_mut(&mut caller)[area + 4 * k..area + 4 * k + 4].copy_from_slice(&(r[k + 1] as u32).to_le_bytes()); } } }
                    caller.data_mut().log.push(entry);
                    for (k, t) in fty.results().enumerate() { res[k] = mk_val(&t, r[0.min(r.len() - 1)]); let _ = k; }
                    Ok(())
                })?;
            }
            _ => {}
        }
    }
    let inst = linker.instantiate(&mut store, &module)?;
    let gmem = inst.get_memory(&mut store, "memory").ok_or_else(|| anyhow!("guest memory export lost"))?;
    for a in 0..MEM { gmem.data_mut(&mut store)[a] = ginit(seed, a); }
    Ok(Inst { store, inst, pmem, fmem })
}

fn diff(cur: &[u8], init: impl Fn(usize) -> u8) -> String {
    let mut out = vec![]; let mut a = 0;
    while a < cur.len() { if cur[a] != init(a) { let st = a; while a < cur.len() && cur[a] != init(a) { a += 1; } out.push(format!("{:x}:{}", st, hex(&cur[st..a]))); } else { a += 1; } }
    if out.is_empty() { "-".into() } else { out.join(",") }
}

/// One call: returns the observation line (after which both memories are RESET to their initial contents).
pub fn call(i: &mut Inst, seed: u64, export: &str, params: &[(WT, u64)], nres: usize, resp: Vec<Vec<u64>>) -> String {
    i.store.data_mut().resp = resp.into(); i.store.data_mut().log.clear();
    let gmem = i.inst.get_memory(&mut i.store, "memory").unwrap();
    for a in 0..MEM { gmem.data_mut(&mut i.store)[a] = ginit(seed, a); i.pmem.data_mut(&mut i.store)[a] = pinit(seed, a); }
    if let Some(f) = i.fmem { for a in 0..MEM { f.data_mut(&mut i.store)[a] = 0xEE; } }
    let f = match i.inst.get_func(&mut i.store, export) { Some(f) => f, None => return "NOEXPORT".into() };
    let args: Vec<Val> = params.iter().map(|(t, x)| mk_val(t, *x)).collect();
    let mut res = vec![Val::I32(0); nres];
    let r = f.call(&mut i.store, &args, &mut res);
    let ret = match r { Ok(()) => format!("RET {}", if res.is_empty() { "-".to_string() } else { res.iter().map(|v| format!("{:x}", val_u64(v))).collect::<Vec<_>>().join(",") }), Err(_) => "TRAP".to_string() };
    if ret == "TRAP" { return "TRAP".into(); }
    let g = diff(gmem.data(&i.store), |a| ginit(seed, a)); let p = diff(i.pmem.data(&i.store), |a| pinit(seed, a));
    // a foreign memory must never be touched: its changes are reported inside the provider column so that they differ from the spec
    let p = match i.fmem { Some(f) => { let d = diff(f.data(&i.store), |_| 0xEE); if d == "-" { p } else { format!("{}+FOREIGN[{}]", p, d) } } None => p };
    format!("{} G {} P {} LOG {}", ret, g, p, if i.store.data().log.is_empty() { "-".to_string() } else { i.store.data().log.join(";") })
}

pub fn run(args: &[String]) -> Result<()> {
    let mut seed = 1u64; let mut tier = "quick".to_string(); let mut outd = ".".to_string(); let mut replay: Option<String> = None; let mut repo = "/repo".to_string();
    let mut k = 0; while k < args.len() { match args[k].as_str() { "--seed" => { seed = args[k + 1].parse()?; k += 2 } "--tier" => { tier = args[k + 1].clone(); k += 2 } "--out" => { outd = args[k + 1].clone(); k += 2 }
        "--replay" => { replay = Some(args[k + 1].clone()); k += 2 } "--repo" => { repo = args[k + 1].clone(); k += 2 } _ => k += 1 } }
    std::fs::create_dir_all(&outd)?;
    let (module, imps) = api_imports(&repo)?;
    let engine = Engine::default();
    let mut cases = String::new(); let mut imp = String::new();
    let mut stats = serde_json::Map::new();
    let sig_of = |name: &str| imps.iter().find(|i| i.name == name).unwrap();
    // a case = one guest (CASE id seed <names in import order> | foreign positions), calls = `CALL <via> <name> <args hex,..> ; <responses: a,b,..|..>`
    let mut run_case = |id: usize, cseed: u64, names: &[String], foreign: &[usize], calls: &[String], cases: &mut String, imp: &mut String| -> Result<()> {
        let subset: Vec<&ApiImport> = names.iter().map(|n| sig_of(n)).collect();
        let wat_text = guest(&module, &subset, foreign);
        writeln!(cases, "CASE {} {} {} | {}", id, cseed, names.join(","), foreign.iter().map(|x| x.to_string()).collect::<Vec<_>>().join(","))?;
        let wasm = wat::parse_str(&wat_text)?;
        let out = match trampoline(&wasm) { Ok(o) => o, Err(e) => { for c in calls { writeln!(cases, "{}", c)?; writeln!(imp, "{} REJECTED {}", id, format!("{:#}", e).replace('\n', " "))?; } writeln!(cases, "END")?; return Ok(()); } };
        let mut inst = match instantiate(&engine, &out, cseed) { Ok(i) => i, Err(e) => {
            // the trampolined module does not link against the low-level provider: an observation, for every call
            for c in calls { writeln!(cases, "{}", c)?; writeln!(imp, "{} LINKFAIL {}", id, format!("{:#}", e).replace('\n', " ").chars().take(160).collect::<String>())?; } writeln!(cases, "END")?; return Ok(()); } };
        for c in calls {
            writeln!(cases, "{}", c)?;
            let (head, resp) = c.split_once(" ; ").unwrap_or((c, ""));
            let t: Vec<&str> = head.split_whitespace().collect();
            let (via, name) = (t[1], t[2]);
            let i = sig_of(name);
            let argv: Vec<u64> = if t.len() > 3 && t[3] != "-" { t[3].split(',').map(|x| u64::from_str_radix(x, 16).unwrap()).collect() } else { vec![] };
            let params: Vec<(WT, u64)> = i.params.iter().zip(&argv).map(|(p, a)| (wt(p), *a)).collect();
            let resp: Vec<Vec<u64>> = resp.split('|').filter(|x| !x.trim().is_empty()).map(|r| r.trim().split(',').map(|x| u64::from_str_radix(x, 16).unwrap()).collect()).collect();
            let o = call(&mut inst, cseed, &format!("{}_{}", via, name), &params, i.results.len(), resp);
            writeln!(imp, "{} {}", id, o)?;
        }
        writeln!(cases, "END")?;
        Ok(())
    };
    if let Some(f) = replay {
        let text = std::fs::read_to_string(f)?; let mut hdr: Option<(usize, u64, Vec<String>, Vec<usize>)> = None; let mut calls = vec![]; let mut n = 0u64; let mut nc = 0u64;
        for line in text.lines() {
            if line.starts_with("CASE ") { let (a, b) = line.split_once(" | ").unwrap_or((line, "")); let t: Vec<&str> = a.split_whitespace().collect();
                hdr = Some((t[1].parse()?, t[2].parse()?, t.get(3).map(|x| x.split(',').filter(|s| !s.is_empty()).map(|s| s.to_string()).collect()).unwrap_or_default(), b.split(',').filter_map(|x| x.trim().parse().ok()).collect())); calls.clear(); }
            else if line == "END" { if let Some((id, cs, names, fo)) = hdr.take() { n += calls.len() as u64; nc += 1; run_case(id, cs, &names, &fo, &calls, &mut cases, &mut imp)?; } }
            else if line.starts_with("CALL ") { calls.push(line.to_string()); }
        }
        stats.insert("evaluations".into(), n.into()); stats.insert("cases".into(), nc.into());
    } else {
        let mut rng = Rng::new(seed);
        let nguests = if tier == "thorough" { 600 } else { 40 };
        let ncalls = 25;
        let strings = ["shopify_function_input_read_utf8_str", "shopify_function_input_get_obj_prop", "shopify_function_output_new_utf8_str", "shopify_function_intern_utf8_str", "shopify_function_log_new_utf8_str"];
        let mut evals = 0u64; let mut kinds = std::collections::BTreeMap::<String, u64>::new(); let mut distinct = std::collections::BTreeSet::<String>::new(); let mut rejected_writes = 0u64;
        for id in 0..nguests {
            let mut r = rng.fork(id as u64);
            // subset: every single-import guest first (thorough), the all-imports guest, then random subsets in random order
            let mut names: Vec<String> = if id == 0 { imps.iter().map(|i| i.name.clone()).collect() } else if tier == "thorough" && id <= imps.len() { vec![imps[id - 1].name.clone()] } else {
                let mut v: Vec<String> = imps.iter().filter(|i| r.chance(if strings.contains(&i.name.as_str()) { 75 } else { 40 })).map(|i| i.name.clone()).collect(); if v.is_empty() { v.push(strings[r.below(5) as usize].to_string()); } v };
            // scalar-only guests (they still have a memory, so they must be trampolined); duplicated imports
            if id % 7 == 3 { names.retain(|n| !strings.contains(&n.as_str())); if names.is_empty() { names.push("shopify_function_output_new_i32".to_string()); } }
            if id % 4 == 1 { for _ in 0..r.range(1, 2) { let d = if r.chance(75) { let sn: Vec<String> = names.iter().filter(|n| strings.contains(&n.as_str())).cloned().collect(); if sn.is_empty() { r.pick(&names).clone() } else { r.pick(&sn).clone() } } else { r.pick(&names).clone() };
                if names.iter().filter(|n| **n == d).count() < 2 { names.push(d); } } }
            for k in (1..names.len()).rev() { let j = r.below(k as u64 + 1) as usize; names.swap(k, j); }
            let mut foreign: Vec<usize> = (0..names.len()).filter(|_| r.chance(20)).collect();
            if id % 5 == 2 { foreign.push(9999); }
            let cseed = r.next_u64() % 1000;
            let mut calls = vec![];
            for _ in 0..ncalls {
                let name = if r.chance(70) { let s: Vec<&String> = names.iter().filter(|n| strings.contains(&n.as_str())).collect(); if s.is_empty() { r.pick(&names).clone() } else { (*r.pick(&s)).clone() } } else { r.pick(&names).clone() };
                let dup = names.iter().filter(|n| **n == name).count() >= 2;
                let via = if dup && r.chance(60) { *r.pick(&["w2", "t2", "r2"]) } else { *r.pick(&["w", "w", "t", "r"]) };
                let i = sig_of(&name);
                let len = *r.pick(&[0u64, 1, 2, 5, 16, 100, 1000]); let oob = r.chance(4);
                let ptr = if oob { MEM as u64 - len / 2 } else { r.below(MEM as u64 - len - 8) };
                let pdst = r.below(MEM as u64 - len - 64) + 32;
                let (argv, resp): (Vec<u64>, String) = match name.as_str() {
                    "shopify_function_input_read_utf8_str" => { let src = r.below(1 << 20); (vec![src, ptr, len], format!("{:x}", if r.chance(5) { MEM as u64 - len / 2 } else { pdst })) }
                    "shopify_function_input_get_obj_prop" => { let scope = r.next_u64(); (vec![scope, ptr, len], format!("{:x}|{:x}", pdst, r.next_u64())) }
                    "shopify_function_output_new_utf8_str" => { let st = if r.chance(30) { *r.pick(&[2u64, 3, 4, 7]) } else { 0 }; if st != 0 && len > 0 { rejected_writes += 1; } let lo = if st != 0 { 0 } else { pdst }; (vec![ptr, len], format!("{:x}", (st << 32) | lo)) }
                    "shopify_function_intern_utf8_str" => { let idv = r.below(1000); (vec![ptr, len], format!("{:x}", (idv << 32) | pdst)) }
                    "shopify_function_log_new_utf8_str" => { let cap = 1001u64; let base = 2000 + r.below(30000); let off = r.below(cap);
                        let (so, n) = if len > cap { (len - cap, cap) } else { (0, len) }; let space = cap - off;
                        let (n1, n2) = if n <= space { (n, 0) } else { (space, n - space) }; let area = 40000 + 4 * r.below(1000);
                        (vec![ptr, len], format!("{:x},{:x},{:x},{:x},{:x},{:x}", area, so, base + off, n1, if n2 > 0 { base } else { 0 }, n2)) }
                    _ => { let argv: Vec<u64> = i.params.iter().map(|p| match p { ValType::I32 => r.next_u64() as u32 as u64, _ => r.next_u64() }).collect(); let res = if i.results.is_empty() { String::new() } else { format!("{:x}", match i.results[0] { ValType::I32 => r.next_u64() as u32 as u64, _ => r.next_u64() }) }; (argv, res) }
                };
                *kinds.entry(format!("{}:{}", via, if strings.contains(&name.as_str()) { name.trim_start_matches("shopify_function_").to_string() } else { "scalar".into() })).or_insert(0) += 1;
                distinct.insert(format!("{}:{}:{}", via, name, len));
                calls.push(format!("CALL {} {} {} ; {}", via, name, if argv.is_empty() { "-".to_string() } else { argv.iter().map(|x| format!("{:x}", x)).collect::<Vec<_>>().join(",") }, resp));
            }
            evals += calls.len() as u64;
            run_case(id, cseed, &names, &foreign, &calls, &mut cases, &mut imp)?;
        }
        stats.insert("cases".into(), nguests.into()); stats.insert("evaluations".into(), evals.into()); stats.insert("distinct_nontrivial".into(), (distinct.len() as u64).into());
        stats.insert("calls".into(), serde_json::to_value(&kinds)?); stats.insert("rejected_string_writes_with_len_gt_0".into(), rejected_writes.into());
        stats.insert("rule".into(), "guests importing the whole API (case 0), single imports (thorough) or a random subset in random order with foreign imports mixed in; each import is reachable from an exported wrapper (w_), through a table with call_indirect (t_) and as a re-export (r_); trampolined by the REAL tool, run in wasmtime against a scripted provider (host functions + host memory answering with random in-bounds destinations, any status, any ring copy plan, 4-5% out-of-bounds arguments/answers); per call: return values / trap, the changes to both 64 KiB memories and the provider call log; distinct = distinct (route, import, length)".into());
    }
    std::fs::write(format!("{}/cases.txt", outd), cases)?; std::fs::write(format!("{}/impl.txt", outd), imp)?;
    std::fs::write(format!("{}/stats.json", outd), serde_json::to_string_pretty(&serde_json::Value::Object(stats))?)?;
    Ok(())
}
