//! C07: generated guest modules (any subset/order of API imports, foreign imports, own functions,
//! globals, table, data, start, exports; with / without an own memory; with an imported memory) and
//! their single-defect variants are given to the REAL TrampolineCodegen::apply.  Observed per case:
//! the verdict (accept / which error), the import section of the result, validity, that the guest's
//! memory is still its own, the exports, idempotence (apply(out) == walrus round trip of out), and a
//! differential execution of original and result in wasmtime with deterministic stub imports
//! (results, own-memory contents, globals and the stub call log after instantiation and every call).
use crate::gluegen::{api_imports, ApiImport};
use crate::prng::*;
use anyhow::{anyhow, Result};
use std::fmt::Write as _;
use wasmparser::{Parser, Payload, TypeRef, ValType};
use wasmtime::{Engine, Global, GlobalType, Memory, MemoryType, Module, Mutability, Store, Val, ValType as WT};

const STRINGS: [&str; 5] = ["shopify_function_input_read_utf8_str", "shopify_function_input_get_obj_prop", "shopify_function_output_new_utf8_str", "shopify_function_intern_utf8_str", "shopify_function_log_new_utf8_str"];

fn vt(t: &ValType) -> &'static str { match t { ValType::I32 => "i32", ValType::I64 => "i64", ValType::F64 => "f64", ValType::F32 => "f32", _ => "other" } }
fn sig_text(p: &[ValType], r: &[ValType]) -> String { format!("{}:{}", p.iter().map(vt).collect::<Vec<_>>().join(","), r.iter().map(vt).collect::<Vec<_>>().join(",")) }
fn hexs(s: &str) -> String { hex(s.as_bytes()) }

#[derive(Clone, Debug, PartialEq)]
pub enum Kind { Func(Vec<ValType>, Vec<ValType>), Mem, Table, Global, Tag }
#[derive(Clone, Debug)]
pub struct Imp { pub module: String, pub name: String, pub kind: Kind }
pub struct Abs { pub imports: Vec<Imp>, pub own_mems: u32, pub imported_mems: u32, pub local_funcs: u32, pub exports: Vec<(String, u8, u32)> }

impl Imp { fn text(&self) -> String { format!("{}/{}/{}", hexs(&self.module), hexs(&self.name), match &self.kind { Kind::Func(p, r) => format!("F{}", sig_text(p, r)), Kind::Mem => "M".into(), Kind::Table => "T".into(), Kind::Global => "G".into(), Kind::Tag => "X".into() }) } }

pub fn abstract_module(wasm: &[u8]) -> Result<Abs> {
    let mut types: Vec<(Vec<ValType>, Vec<ValType>)> = vec![];
    let mut a = Abs { imports: vec![], own_mems: 0, imported_mems: 0, local_funcs: 0, exports: vec![] };
    for p in Parser::new(0).parse_all(wasm) {
        match p? {
            Payload::TypeSection(r) => for rg in r { for st in rg?.types() { if let wasmparser::CompositeInnerType::Func(f) = &st.composite_type.inner { types.push((f.params().to_vec(), f.results().to_vec())); } else { types.push((vec![], vec![])); } } },
            Payload::ImportSection(r) => for imp in r.into_imports() { let imp = imp?;
                let kind = match imp.ty { TypeRef::Func(t) => { let (p, r) = types[t as usize].clone(); Kind::Func(p, r) } TypeRef::Memory(_) => { a.imported_mems += 1; Kind::Mem } TypeRef::Table(_) => Kind::Table, TypeRef::Global(_) => Kind::Global, _ => Kind::Tag };
                a.imports.push(Imp { module: imp.module.to_string(), name: imp.name.to_string(), kind }); },
            Payload::FunctionSection(r) => { a.local_funcs += r.count(); }
            Payload::MemorySection(r) => { a.own_mems += r.count(); }
            Payload::ExportSection(r) => for e in r { let e = e?; let k = match e.kind { wasmparser::ExternalKind::Func => 0u8, wasmparser::ExternalKind::Memory => 1, wasmparser::ExternalKind::Global => 2, wasmparser::ExternalKind::Table => 3, _ => 4 }; a.exports.push((e.name.to_string(), k, e.index)); },
            _ => {}
        }
    }
    Ok(a)
}

/// The real tool. Ok(bytes) or the class of its error.
pub fn apply(wasm: &[u8]) -> std::result::Result<Vec<u8>, String> {
    let w = wasm.to_vec();
    match std::panic::catch_unwind(move || apply_inner(&w)) { Ok(r) => r, Err(_) => Err("other:".to_string() + &hexs("the tool panicked")) }
}
fn apply_inner(wasm: &[u8]) -> std::result::Result<Vec<u8>, String> {
    let module = match walrus::Module::from_buffer(wasm) { Ok(m) => m, Err(e) => return Err(format!("parse:{}", hexs(&format!("{:#}", e)))) };
    let cg = match shopify_function_trampoline::TrampolineCodegen::new(module) { Ok(c) => c, Err(e) => return Err(classify(&format!("{:#}", e))) };
    match cg.apply() { Ok(mut m) => Ok(m.emit_wasm()), Err(e) => Err(classify(&format!("{:#}", e))) }
}

fn between<'a>(s: &'a str, a: &str, b: &str) -> Option<&'a str> { let i = s.find(a)? + a.len(); let j = s[i..].find(b)? + i; Some(&s[i..j]) }
fn classify(msg: &str) -> String {
    if msg.contains("multiple non-imported memories") { "multimem".into() }
    else if let Some(n) = between(msg, "Found unexpected import named `", "`") { format!("unexpected:{}", hexs(n)) }
    else if let Some(m) = between(msg, "Imports from module named `", "`") { format!("unsupported:{}", hexs(m)) }
    else if let Some(n) = between(msg, "Params for ", " are incorrect") { format!("params:{}", n) }
    else if let Some(n) = between(msg, "Results for ", " are incorrect") { format!("results:{}", n) }
    else if msg.contains("expected a function import") { "notfunc".into() }
    else if msg.contains("Validating output module failed") { "invalid_output".into() }
    else { format!("other:{}", hexs(msg)) }
}

fn roundtrip(wasm: &[u8]) -> Result<Vec<u8>> { Ok(walrus::Module::from_buffer(wasm)?.emit_wasm()) }

// ------------------------------------------------------------------------------------------------ generator

pub struct Guest { pub wat: String, pub class: String, pub calls: Vec<(String, Vec<u64>)> }

fn push_arg(s: &mut String, t: &ValType, local: u32) { match t { ValType::I32 => write!(s, " local.get {}", local).unwrap(), ValType::I64 => write!(s, " local.get {} i64.extend_i32_u", local).unwrap(), ValType::F64 => write!(s, " local.get {} f64.convert_i32_u", local).unwrap(), _ => write!(s, " f32.const 0").unwrap() } }
fn to_i32(s: &mut String, r: &[ValType]) { match r.first() { None => s.push_str(" i32.const 7"), Some(ValType::I32) => {}, Some(ValType::I64) => s.push_str(" i32.wrap_i64"), Some(ValType::F64) => s.push_str(" i32.trunc_sat_f64_u"), _ => s.push_str(" drop i32.const 9") } }

pub fn gen_guest(r: &mut Rng, module: &str, api: &[ApiImport], class: &str) -> Guest {
    if class == "mem64" {
        // a guest whose own linear memory is 64-bit: the generated glue addresses memories with i32 operands, so the tool
        // cannot handle it; it may refuse, but whatever it accepts must come out as a valid module
        let mut s = String::from("(module\n");
        let pick = *r.pick(&STRINGS);
        for i in api.iter().filter(|i| i.name == pick || r.chance(15)) {
            write!(s, "  (import \"{}\" \"{}\" (func", module, i.name).unwrap();
            for p in &i.params { write!(s, " (param {})", vt(p)).unwrap(); } for q in &i.results { write!(s, " (result {})", vt(q)).unwrap(); }
            s.push_str("))\n");
        }
        s.push_str("  (memory (export \"memory\") i64 1)\n  (func (export \"f0\") (param i32 i32) (result i32) local.get 0 local.get 1 i32.add)\n)\n");
        return Guest { wat: s, class: class.to_string(), calls: vec![("f0".to_string(), vec![1, 2])] };
    }
    let mut s = String::from("(module\n  (type $t2 (func (param i32 i32) (result i32)))\n");
    // ---- imports
    let mut names: Vec<&ApiImport> = api.iter().filter(|i| r.chance(if STRINGS.contains(&i.name.as_str()) { 60 } else { 35 })).collect();
    if class == "all" { names = api.iter().collect(); }
    if class == "badsig" && !names.iter().any(|i| STRINGS.contains(&i.name.as_str())) { let pick = *r.pick(&STRINGS); names.push(api.iter().find(|i| i.name == pick).unwrap()); }
    if class == "dup" && names.is_empty() { names.push(r.pick(api)); }
    if class == "dupbad" { names.retain(|i| !STRINGS.contains(&i.name.as_str())); let pick = *r.pick(&STRINGS); names.push(api.iter().find(|i| i.name == pick).unwrap()); }
    for k in (1..names.len()).rev() { let j = r.below(k as u64 + 1) as usize; names.swap(k, j); }
    let bad_at = if class == "dupbad" { names.iter().position(|i| STRINGS.contains(&i.name.as_str())).unwrap_or(0) } else if names.is_empty() { 0 } else { r.below(names.len() as u64) as usize };
    let bad_sig_target = names.iter().position(|i| STRINGS.contains(&i.name.as_str()));
    let mut imp_lines: Vec<String> = vec![]; let mut fimports: Vec<(String, Vec<ValType>, Vec<ValType>, bool)> = vec![]; // ($id, params, results, differential-safe)
    let mut nforeign = 0;
    let decl = |id: &str, m: &str, n: &str, p: &[ValType], rs: &[ValType]| -> String { format!("  (import \"{}\" \"{}\" (func ${}{}{}))", m, n.replace('\\', "\\\\").replace('"', "\\\""), id, p.iter().map(|x| format!(" (param {})", vt(x))).collect::<String>(), rs.iter().map(|x| format!(" (result {})", vt(x))).collect::<String>()) };
    for (k, i) in names.iter().enumerate() {
        if r.chance(25) { let id = format!("foreign{}", nforeign); nforeign += 1; imp_lines.push(decl(&id, "env", &id, &[ValType::I32], &[ValType::I32])); fimports.push((id, vec![ValType::I32], vec![ValType::I32], true)); }
        let (mut p, mut rs) = (i.params.clone(), i.results.clone());
        if class == "badsig" && Some(k) == bad_sig_target {
            match r.below(6) { 0 => p.push(ValType::I32), 1 => { if p.is_empty() { p.push(ValType::I64) } else { p.pop(); } } 2 => { if p.is_empty() { p.push(ValType::I32) } else { let j = r.below(p.len() as u64) as usize; p[j] = if p[j] == ValType::I32 { ValType::I64 } else { ValType::I32 }; } }
                3 => rs.push(ValType::I32), 4 => { if rs.is_empty() { rs.push(ValType::I64) } else { rs.pop(); } } _ => { if rs.is_empty() { rs.push(ValType::I32) } else { rs[0] = if rs[0] == ValType::I32 { ValType::I64 } else { ValType::I32 }; } } }
        }
        let safe = !STRINGS.contains(&i.name.as_str());
        let id = format!("api{}", k);
        imp_lines.push(decl(&id, module, &i.name, &p, &rs)); fimports.push((id, p, rs, safe));
        if (class == "dup" || class == "dupbad") && k == bad_at { let id = format!("apidup{}", k);
            let (mut dp, mut dr) = (i.params.clone(), i.results.clone());
            if class == "dupbad" { match r.below(3) { 0 => dp.push(ValType::I32), 1 => dp.push(ValType::I64), _ => { if dr.is_empty() { dr.push(ValType::I32) } else { dp.push(ValType::I32) } } } }
            imp_lines.push(decl(&id, module, &i.name, &dp, &dr)); fimports.push((id, dp, dr, false)); }
    }
    // low-level names a guest may already use (accepted and kept), a look-alike module, foreign globals
    if r.chance(15) { imp_lines.push(decl("lowalloc", module, "_shopify_function_alloc", &[ValType::I32], &[ValType::I32])); fimports.push(("lowalloc".into(), vec![ValType::I32], vec![ValType::I32], true)); }
    if r.chance(15) { imp_lines.push(decl("lowget", module, "_shopify_function_input_get", &[], &[ValType::I64])); fimports.push(("lowget".into(), vec![], vec![ValType::I64], true)); }
    if r.chance(10) { imp_lines.push(decl("lookalike", "shopify_function", "shopify_function_input_get", &[], &[ValType::I64])); fimports.push(("lookalike".into(), vec![], vec![ValType::I64], true)); }
    let has_fglobal = r.chance(20); if has_fglobal { imp_lines.push("  (import \"env\" \"gimp\" (global $gimp i32))".into()); }
    // the single defect
    let mut defect: Option<String> = None;
    match class {
        "unknown" => { let n = match r.below(9) { 0 => "".to_string(), 1 => "shopify_function_input_get2".into(), 2 => "shopify_function_input_ge".into(), 3 => "_shopify_function_unknown".into(), 4 => "Memory".into(), 5 => "_shopify_function_input_read_utf8_str".into(), 6 => "shopify_function_output_new_u32".into(), 7 => "__shopify_function_input_get".into(), _ => format!("fn_{:x}", r.next_u64() % 0xfffff) };
            defect = Some(if r.chance(25) && n != "Memory" { format!("  (import \"{}\" \"{}\" (global i32))", module, n) } else { decl("bad", module, &n, &[], &[]) }); }
        "version" => { let m = match r.below(7) { 0 => "shopify_function_v1".to_string(), 1 => "shopify_function_v3".into(), 2 => "shopify_function_v20".into(), 3 => "shopify_function_v".into(), 4 => format!("{}_", module), 5 => format!("{}0", module), _ => "shopify_function_v02".into() };
            let n = if r.chance(50) { "shopify_function_input_get".to_string() } else { "anything".into() };
            defect = Some(if r.chance(20) { format!("  (import \"{}\" \"{}\" (global i32))", m, n) } else { decl("bad", &m, &n, &[], &[ValType::I64]) }); }
        _ => {}
    }
    if let Some(d) = defect { let at = r.below(imp_lines.len() as u64 + 1) as usize; imp_lines.insert(at, d); }
    let imported_mem = class == "importedmem" || (class != "nomem_pure" && r.chance(12));
    let own_mems = match class { "nomem" | "nomem_pure" => 0, "twomem" => 2 + r.below(2), _ => 1 };
    if imported_mem { let at = r.below(imp_lines.len() as u64 + 1) as usize; imp_lines.insert(at, format!("  (import \"env\" \"{}\" (memory $emem 1))", if r.chance(50) { "memory" } else { "emem" })); }
    if r.chance(8) && own_mems > 0 { imp_lines.push(format!("  (import \"{}\" \"memory\" (memory $pmem 1))", module)); }
    for l in &imp_lines { s.push_str(l); s.push('\n'); }
    // ---- own content
    let own = own_mems >= 1; // functions touching memory use $own (the first own memory) or, without one, the imported memory if any
    let memname = if own { Some("$own") } else if imported_mem { Some("$emem") } else { None };
    for k in 0..own_mems { if k == 0 { writeln!(s, "  (memory $own (export \"memory\") 1 4)").unwrap(); } else { writeln!(s, "  (memory $own{} 1)", k).unwrap(); } }
    let nglob = 1 + r.below(3);
    for g in 0..nglob { writeln!(s, "  (global $g{} (export \"g{}\") (mut i32) (i32.const {}))", g, g, r.below(1000)).unwrap(); }
    let nf = 3 + r.below(6) as usize;
    let mut calls = vec![]; let mut bodies = vec![]; let mut table: Vec<String> = vec![];
    for k in 0..nf {
        let mut b = String::new();
        let choice = r.below(12);
        match choice {
            0 => write!(b, " local.get 0 local.get 1 i32.add i32.const {} i32.mul", r.below(1 << 20)).unwrap(),
            1 | 2 if memname.is_some() => { let m = memname.unwrap(); write!(b, " local.get 0 i32.const 65528 i32.and local.get 1 i32.store {} local.get 1 i32.const 65520 i32.and i64.load {} offset=4 i32.wrap_i64 i32.const {} i32.load8_u {} i32.add", m, m, r.below(65536), m).unwrap() }
            3 => { let g = r.below(nglob); write!(b, " global.get $g{} local.get 0 i32.add global.set $g{} global.get $g{}{}", g, g, g, if has_fglobal { " global.get $gimp i32.add" } else { "" }).unwrap() }
            4 if k > 0 => write!(b, " local.get 1 local.get 0 call $f{} i32.const 3 i32.xor", r.below(k as u64)).unwrap(),
            5 if !table.is_empty() => write!(b, " local.get 0 local.get 1 i32.const {} call_indirect (type $t2)", r.below(table.len() as u64)).unwrap(),
            6 | 7 if fimports.iter().any(|f| f.3) => { let safe: Vec<&(String, Vec<ValType>, Vec<ValType>, bool)> = fimports.iter().filter(|f| f.3).collect(); let f = *r.pick(&safe);
                for (j, t) in f.1.iter().enumerate() { push_arg(&mut b, t, (j % 2) as u32); } write!(b, " call ${}", f.0).unwrap(); to_i32(&mut b, &f.2); b.push_str(" local.get 1 i32.add"); }
            8 if memname.is_some() => { let m = memname.unwrap(); write!(b, " memory.size {} i32.const 1 memory.grow {} i32.add memory.size {} i32.add", m, m, m).unwrap() }
            9 if memname.is_some() => { let m = memname.unwrap(); write!(b, " i32.const {} local.get 0 i32.const 64 memory.fill {} i32.const {} i32.const {} i32.const 48 memory.copy {} {} i32.const {} i32.load {}", 1000 + r.below(1000), m, 3000 + r.below(100), 1000 + r.below(1000), m, m, 3000 + r.below(100), m).unwrap() }
            10 if own => write!(b, " i32.const {} i32.const 0 i32.const 8 memory.init $own $pd i32.const {} i32.load $own local.get 0 i32.add", 5000 + r.below(100), 5000).unwrap(),
            _ => write!(b, " local.get 0 i32.const {} i32.shl local.get 1 i32.sub", r.below(31)).unwrap(),
        }
        bodies.push(format!("  (func $f{} (export \"f{}\") (type $t2){})", k, k, b));
        table.push(format!("$f{}", k));
        for _ in 0..(1 + r.below(3)) { calls.push((format!("f{}", k), vec![r.next_u64() as u32 as u64, r.below(100000)])); }
    }
    // functions that use the string-carrying (or otherwise unsafe) imports: present, referenced, exported, never run differentially
    for (k, f) in fimports.iter().enumerate().filter(|(_, f)| !f.3) {
        let mut b = String::new(); for (j, t) in f.1.iter().enumerate() { push_arg(&mut b, t, (j % 2) as u32); } write!(b, " call ${}", f.0).unwrap(); for _ in &f.2 { b.push_str(" drop"); } b.push_str(" i32.const 1");
        bodies.push(format!("  (func $s{} (export \"s{}\") (type $t2){})", k, k, b));
        if f.1.len() == 2 && f.1.iter().all(|t| *t == ValType::I32) && f.2.len() == 1 && f.2[0] == ValType::I32 { table.push(format!("${}", f.0)); }
        if r.chance(30) { bodies.push(format!("  (export \"r{}\" (func ${}))", k, f.0)); }
    }
    for b in &bodies { s.push_str(b); s.push('\n'); }
    writeln!(s, "  (table $tab (export \"tab\") {} funcref)\n  (elem (table $tab) (i32.const 0) func {})", table.len().max(1), table.join(" ")).unwrap();
    if own { writeln!(s, "  (data (memory $own) (i32.const {}) \"guest-data-{}\")\n  (data $pd \"PASSIVE!\")", 100 + r.below(60000), r.below(1000)).unwrap(); }
    if r.chance(60) { let mut b = String::new(); if let Some(m) = memname { write!(b, " i32.const {} i32.const {} i32.store {}", 8 * r.below(8000), r.next_u64() as u32, m).unwrap(); } write!(b, " i32.const {} global.set $g0", r.below(5000)).unwrap();
        if let Some(f) = fimports.iter().find(|f| f.3 && f.1 == vec![ValType::I32] && f.2 == vec![ValType::I32]) { write!(b, " i32.const 5 call ${} global.set $g0", f.0).unwrap(); }
        writeln!(s, "  (func $start{})\n  (start $start)", b).unwrap(); }
    s.push_str(")\n");
    Guest { wat: s, class: class.to_string(), calls }
}

// ------------------------------------------------------------------------------------------------ differential execution

#[derive(Default)]
struct St { log: Vec<String>, counter: u64 }
fn fnv(b: &[u8]) -> u64 { let mut h = 0xcbf29ce484222325u64; for x in b { h ^= *x as u64; h = h.wrapping_mul(0x100000001b3); } h }
fn val_u64(v: &Val) -> u64 { match v { Val::I32(x) => *x as u32 as u64, Val::I64(x) => *x as u64, Val::F64(x) => *x, Val::F32(x) => *x as u64, _ => 0 } }

/// Observations of one module: after instantiation and after each call.
fn observe(engine: &Engine, wasm: &[u8], provider_module: &str, calls: &[(String, Vec<u64>)]) -> Result<Vec<String>> {
    let module = Module::new(engine, wasm)?;
    let mut store = Store::new(engine, St::default());
    // imports are supplied positionally (a name-based linker cannot serve two imports of one name)
    let imports: Vec<(String, String, wasmtime::ExternType)> = module.imports().map(|i| (i.module().to_string(), i.name().to_string(), i.ty())).collect();
    let mut externs: Vec<wasmtime::Extern> = vec![];
    let mut mems = std::collections::BTreeMap::<(String, String), Memory>::new();
    for (m, n, ty) in imports {
        match ty {
            wasmtime::ExternType::Memory(_) => { let mem = match mems.get(&(m.clone(), n.clone())) { Some(x) => *x, None => { let x = Memory::new(&mut store, MemoryType::new(1, None))?; mems.insert((m.clone(), n.clone()), x); x } }; externs.push(mem.into()); }
            wasmtime::ExternType::Global(_) => { let g = Global::new(&mut store, GlobalType::new(WT::I32, Mutability::Const), Val::I32(5))?; externs.push(g.into()); }
            wasmtime::ExternType::Func(ft) => {
                let canon = if m == provider_module { n.strip_prefix('_').unwrap_or(&n).to_string() } else { format!("{}.{}", m, n) };
                let fty = ft.clone();
                let f = wasmtime::Func::new(&mut store, ft, move |mut caller, args, res| {
                    let st: &mut St = caller.data_mut(); st.counter += 1;
                    let e = format!("{}({})", canon, args.iter().map(|a| format!("{:x}", val_u64(a))).collect::<Vec<_>>().join(","));
                    let h = fnv(format!("{}#{}", e, st.counter).as_bytes()); st.log.push(e);
                    for (k, t) in fty.results().enumerate() { res[k] = match t { WT::I32 => Val::I32(h as u32 as i32), WT::I64 => Val::I64(h as i64), WT::F64 => Val::F64(((h % 1000) as f64).to_bits()), _ => Val::I32(0) }; }
                    Ok(())
                });
                externs.push(f.into());
            }
            wasmtime::ExternType::Table(tt) => { let t = wasmtime::Table::new(&mut store, tt, wasmtime::Ref::Func(None))?; externs.push(t.into()); }
            _ => return Err(anyhow!("import kind not supported by the stub host")),
        }
    }
    let inst = wasmtime::Instance::new(&mut store, &module, &externs)?;
    let snap = |store: &mut Store<St>| -> String {
        let mem = inst.get_memory(&mut *store, "memory").map(|m| format!("{}p/{:x}", m.size(&*store), fnv(m.data(&*store)))).unwrap_or("-".into());
        let mut gl = vec![]; for g in 0..4 { if let Some(x) = inst.get_global(&mut *store, &format!("g{}", g)) { gl.push(format!("{:x}", val_u64(&x.get(&mut *store)))); } }
        let log = std::mem::take(&mut store.data_mut().log);
        format!("mem={} g={} log={}", mem, gl.join(","), if log.is_empty() { "-".into() } else { log.join(";") })
    };
    let mut out = vec![format!("init {}", snap(&mut store))];
    for (name, args) in calls {
        let f = match inst.get_func(&mut store, name) { Some(f) => f, None => { out.push(format!("{} NOEXPORT", name)); continue; } };
        let argv: Vec<Val> = args.iter().map(|a| Val::I32(*a as u32 as i32)).collect(); let mut res = vec![Val::I32(0)];
        let r = f.call(&mut store, &argv, &mut res);
        out.push(format!("{}({:x},{:x}) {} {}", name, args[0], args[1], match r { Ok(()) => format!("{:x}", val_u64(&res[0])), Err(_) => "TRAP".into() }, snap(&mut store)));
    }
    Ok(out)
}

// ------------------------------------------------------------------------------------------------ one case

pub struct Outcome { pub cases: String, pub imp: String, pub accepted: bool, pub detail: String }

pub fn run_case(engine: &Engine, id: usize, provider_module: &str, g: &Guest) -> Result<Outcome> {
    let wasm = wat::parse_str(&g.wat).map_err(|e| anyhow!("generator produced unparsable WAT (case {}): {:#}\n{}", id, e, g.wat))?;
    let mut feats = wasmparser::WasmFeatures::default(); feats.set(wasmparser::WasmFeatures::MULTI_MEMORY, true); feats.set(wasmparser::WasmFeatures::MEMORY64, true);
    wasmparser::Validator::new_with_features(feats).validate_all(&wasm).map_err(|e| anyhow!("generator produced an invalid module (case {}): {:#}\n{}", id, e, g.wat))?;
    let a = abstract_module(&wasm)?;
    let mut cases = String::new();
    writeln!(cases, "CASE {} {}", id, g.class)?;
    for i in &a.imports { writeln!(cases, "IMP {}", i.text())?; }
    writeln!(cases, "OWNMEM {}", a.own_mems)?; writeln!(cases, "LOCALS {}", a.local_funcs)?;
    writeln!(cases, "WAT {}", hex(g.wat.as_bytes()))?; writeln!(cases, "END")?;
    let mut imp = String::new(); let mut detail = String::new(); let accepted;
    match apply(&wasm) {
        Err(class) => { accepted = false; writeln!(imp, "{} V=REJECT {}", id, class)?; }
        Ok(out) => {
            accepted = true;
            let mut flags: Vec<(&str, bool)> = vec![];
            let valid = wasmparser::Validator::new_with_features(feats).validate_all(&out).is_ok(); flags.push(("valid", valid));
            let b = abstract_module(&out)?;
            // the guest's memory is still its own: as many defined memories as before, memory exports still name a defined memory
            let mem_exports_own = b.exports.iter().filter(|e| e.1 == 1).all(|e| e.2 >= b.imported_mems);
            flags.push(("ownmem", b.own_mems == a.own_mems && mem_exports_own));
            flags.push(("exports", a.exports.iter().map(|e| (&e.0, e.1)).collect::<Vec<_>>() == b.exports.iter().map(|e| (&e.0, e.1)).collect::<Vec<_>>()));
            // idempotence: the tool applied to its own output changes nothing beyond what a plain walrus round trip does
            let idem = match (apply(&out), roundtrip(&out)) { (Ok(x), Ok(y)) => { if x != y { detail.push_str(&format!(" second-pass-imports=[{}]", abstract_module(&x).map(|m| m.imports.iter().map(|i| i.text()).collect::<Vec<_>>().join(",")).unwrap_or_default())); } x == y } (Err(e), _) => { detail.push_str(&format!(" second-pass-error={}", e)); false } _ => false };
            flags.push(("idem", idem));
            if a.own_mems == 0 { flags.push(("unchanged", roundtrip(&wasm).map(|y| y == out).unwrap_or(false))); }
            // differential execution (only meaningful when the original instantiates with the stubs)
            let behav = if valid { match (observe(engine, &wasm, provider_module, &g.calls), observe(engine, &out, provider_module, &g.calls)) {
                (Ok(x), Ok(y)) => { if x != y { let k = x.iter().zip(&y).position(|(p, q)| p != q).unwrap_or(0); detail.push_str(&format!(" first-difference: original `{}` rewritten `{}`", x.get(k).cloned().unwrap_or_default(), y.get(k).cloned().unwrap_or_default())); } x == y }
                (Err(e), _) => { return Err(anyhow!("the ORIGINAL guest of case {} does not instantiate with the stubs: {:#}\n{}", id, e, g.wat)); }
                (_, Err(e)) => { detail.push_str(&format!(" rewritten-module-does-not-instantiate: {:#}", e).replace('\n', " ")); false } } } else { false };
            flags.push(("behav", behav));
            writeln!(imp, "{} V=ACCEPT IMPORTS={} NEWLOCALS={} FLAGS={}{}", id, if b.imports.is_empty() { "-".to_string() } else { b.imports.iter().map(|i| i.text()).collect::<Vec<_>>().join(",") },
                b.local_funcs as i64 - a.local_funcs as i64, flags.iter().map(|(n, v)| format!("{}={}", n, *v as u8)).collect::<Vec<_>>().join(","), if detail.is_empty() { String::new() } else { format!(" DETAIL{}", detail) })?;
        }
    }
    Ok(Outcome { cases, imp, accepted, detail })
}

pub fn run(args: &[String]) -> Result<()> {
    let mut seed = 1u64; let mut tier = "quick".to_string(); let mut outd = ".".to_string(); let mut replay: Option<String> = None; let mut repo = "/repo".to_string();
    let mut k = 0; while k < args.len() { match args[k].as_str() { "--seed" => { seed = args[k + 1].parse()?; k += 2 } "--tier" => { tier = args[k + 1].clone(); k += 2 } "--out" => { outd = args[k + 1].clone(); k += 2 }
        "--replay" => { replay = Some(args[k + 1].clone()); k += 2 } "--repo" => { repo = args[k + 1].clone(); k += 2 } _ => k += 1 } }
    std::fs::create_dir_all(&outd)?;
    let (module, api) = api_imports(&repo)?;
    let provider_module = shopify_function_trampoline::PROVIDER_MODULE_NAME;
    let engine = Engine::default();
    let mut cases = String::new(); let mut imp = String::new(); let mut stats = serde_json::Map::new();
    if let Some(f) = replay {
        // a replay file holds CASE blocks; the guest text travels in the WAT line
        let text = std::fs::read_to_string(f)?; let mut id = 0usize; let mut class = String::new(); let mut n = 0u64;
        for line in text.lines() {
            if line.starts_with("CASE ") { let t: Vec<&str> = line.split_whitespace().collect(); id = t[1].parse()?; class = t.get(2).unwrap_or(&"replay").to_string(); }
            else if let Some(h) = line.strip_prefix("WAT ") { let wat = String::from_utf8(unhex(h))?;
                // calls are not stored: regenerate a deterministic set on the exported f<k>
                let mut r = Rng::new(id as u64); let calls: Vec<(String, Vec<u64>)> = (0..40).map(|j| (format!("f{}", j % 9), vec![r.next_u64() as u32 as u64, r.below(100000)])).collect();
                let o = run_case(&engine, id, provider_module, &Guest { wat, class: class.clone(), calls })?; cases.push_str(&o.cases); imp.push_str(&o.imp); n += 1; }
        }
        stats.insert("cases".into(), n.into()); stats.insert("evaluations".into(), n.into());
    } else {
        let mut rng = Rng::new(seed);
        let n = if tier == "thorough" { 1500 } else { 160 };
        let classes = ["valid", "valid", "valid", "valid", "all", "importedmem", "nomem", "nomem_pure", "unknown", "unknown", "version", "version", "badsig", "badsig", "twomem", "dup", "dupbad", "mem64"];
        let mut per_class = std::collections::BTreeMap::<String, u64>::new(); let mut verdicts = std::collections::BTreeMap::<String, u64>::new(); let mut ncalls = 0u64; let mut distinct = std::collections::BTreeSet::<String>::new();
        for id in 0..n {
            let mut r = rng.fork(id as u64);
            let class = if id < classes.len() { classes[id] } else { *r.pick(&classes) };
            let g = gen_guest(&mut r, &module, &api, class);
            let o = run_case(&engine, id, provider_module, &g)?;
            *per_class.entry(class.to_string()).or_insert(0) += 1;
            let v = o.imp.split_whitespace().nth(1).unwrap_or("?").to_string() + if o.accepted { "" } else { ":" } + &if o.accepted { String::new() } else { o.imp.split_whitespace().nth(2).unwrap_or("").split(':').next().unwrap_or("").to_string() };
            *verdicts.entry(v).or_insert(0) += 1;
            if o.accepted { ncalls += g.calls.len() as u64 + 1; distinct.insert(o.imp.split(" NEWLOCALS").next().unwrap_or("").splitn(3, ' ').nth(2).unwrap_or("").to_string()); }
            cases.push_str(&o.cases); imp.push_str(&o.imp);
        }
        stats.insert("cases".into(), n.into()); stats.insert("evaluations".into(), (n as u64 + ncalls).into()); stats.insert("distinct_nontrivial".into(), (distinct.len() as u64).into());
        stats.insert("classes".into(), serde_json::to_value(&per_class)?); stats.insert("verdicts".into(), serde_json::to_value(&verdicts)?); stats.insert("differential_observations".into(), ncalls.into());
        stats.insert("rule".into(), "generated guests: random subset and order of the API imports (public signatures from the WAT) mixed with foreign function/global/memory imports, low-level names a guest may already import, a look-alike module name; 3-8 own functions (arithmetic, loads/stores/fill/copy/init/grow on the own memory, globals, direct and indirect calls, calls of scalar API and foreign imports), table, active+passive data, start function, function/memory/global/table exports; classes valid / all imports / imported memory next to the own one / no own memory / unknown API name (incl. the empty name) / other-version module / wrong signature of a string-carrying import / two or three own memories / duplicated API import. Observed: verdict and error class, import section of the result, validity, own memory still defined and exported, export list, idempotence against a walrus round trip, and for accepted modules a differential execution original vs rewritten in wasmtime (result, own memory hash and size, globals, stub call log after instantiation and each call). distinct = distinct resulting import sections".into());
    }
    std::fs::write(format!("{}/cases.txt", outd), cases)?; std::fs::write(format!("{}/impl.txt", outd), imp)?;
    std::fs::write(format!("{}/stats.json", outd), serde_json::to_string_pretty(&serde_json::Value::Object(stats))?)?;
    Ok(())
}
