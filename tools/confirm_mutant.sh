#!/bin/sh
# usage: tools/confirm_mutant.sh <worktree> <n> : confirm mutant n of a seeding worktree
# (demo fails with the patch and passes without; the stable unit tests still pass with the patch)
wt="$1"; n="$2"; d="$wt/out/$n"
export RUSTUP_TOOLCHAIN=stable-x86_64-unknown-linux-gnu CARGO_NET_OFFLINE=true CARGO_TARGET_DIR="$wt/target"
cd "$wt" || exit 2
git checkout -q -- . ; git clean -fdq -e out -e target
cmd=$(python3 -c "import json;print(json.load(open('$d/meta.json'))['demo_cmd'])")
echo "demo_cmd: $cmd"
git apply "$d/patch.diff" || { echo "APPLY-FAILED"; exit 2; }
echo "--- unit tests with mutant (core, provider, api, trampoline lib snapshot)"
cargo test --offline -p shopify_function_wasm_api_core -p shopify_function_provider -p shopify_function_wasm_api --lib 2>&1 | grep -E "test result|FAILED" | head -5
cargo test --offline -p shopify_function_trampoline --lib disassemble_trampoline test_consumer 2>&1 | grep -E "test result" | head -2
echo "--- demo WITH mutant (must fail)"
( eval "$cmd" ) > /tmp/confirm_with.log 2>&1; rc1=$?
echo "rc=$rc1"; grep -E "panicked|assertion|left:|right:|FAILED" /tmp/confirm_with.log | head -4
git checkout -q -- . 
echo "--- demo WITHOUT mutant (must pass)"
( eval "$cmd" ) > /tmp/confirm_without.log 2>&1; rc2=$?
echo "rc=$rc2"; grep -E "test result" /tmp/confirm_without.log | head -2
git checkout -q -- . ; git clean -fdq -e out -e target
if [ $rc1 -ne 0 ] && [ $rc2 -eq 0 ]; then echo "CONFIRMED"; else echo "NOT-CONFIRMED"; fi
