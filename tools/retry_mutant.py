#!/usr/bin/env python3
"""usage: tools/retry_mutant.py <seeded-id> <PROP> [<PROP>...] : re-run checks against a kept mutant and update its meta.json
(the earlier result is kept under "detected_before_strengthening")."""
import json, subprocess, sys
sid, props = sys.argv[1], sys.argv[2:]
d = f"/verif/seeded/{sid}"
t = subprocess.run(["/verif/tools/try_mutant.sh", f"{d}/patch.diff"] + props, capture_output=True, text=True)
det = {}
for l in t.stdout.splitlines():
    if l.startswith("VIOLATION"):
        p = l.split("property=")[1].split()[0]
        det.setdefault(p, []).append("no-failing-input-found" if l.rstrip().endswith("no-failing-input-found") else "counterexample")
    elif l.startswith("PASS"):
        det.setdefault(l.split("property=")[1].split()[0], []).append("PASS (missed)")
m = json.load(open(f"{d}/meta.json"))
if "detected_before_strengthening" not in m and m.get("detected") != det:
    m["detected_before_strengthening"] = m.get("detected")
old = dict(m.get("detected", {}))
old.update(det)
m["detected"] = old
m["checks_run"] = sorted(set(m.get("checks_run", [])) | set(props))
json.dump(m, open(f"{d}/meta.json", "w"), indent=1)
print(sid, det)
