#!/usr/bin/env python3
"""usage: tools/keep_mutant.py <worktree> <n> <seeded-id> <PROP> [<PROP>...]
Confirm mutant n of a seeding worktree (demo fails with / passes without, unit tests still pass), run the
listed checks against it in /repo (applied, then reverted), and keep it as /verif/seeded/<seeded-id>/."""
import json, os, shutil, subprocess, sys
wt, n, sid, props = sys.argv[1], sys.argv[2], sys.argv[3], sys.argv[4:]
V = "/verif"
d = f"{wt}/out/{n}"
c = subprocess.run([f"{V}/tools/confirm_mutant.sh", wt, n], capture_output=True, text=True)
confirmed = "CONFIRMED" in c.stdout.splitlines()[-1] if c.stdout.strip() else False
print(c.stdout[-1500:])
if not confirmed:
    print("NOT CONFIRMED - not kept"); sys.exit(1)
t = subprocess.run([f"{V}/tools/try_mutant.sh", f"{d}/patch.diff"] + props, capture_output=True, text=True)
print(t.stdout[-2500:])
lines = [l for l in t.stdout.splitlines() if l.startswith(("VIOLATION", "PASS"))]
det = {}
pi = 0
for l in lines:
    if l.startswith("VIOLATION"):
        p = l.split("property=")[1].split()[0]
        det.setdefault(p, []).append("no-failing-input-found" if l.rstrip().endswith("no-failing-input-found") else "counterexample")
    elif l.startswith("PASS"):
        p = l.split("property=")[1].split()[0]
        det.setdefault(p, []).append("PASS (missed)")
out = f"{V}/seeded/{sid}"
os.makedirs(out, exist_ok=True)
shutil.copy(f"{d}/patch.diff", out)
for f in os.listdir(d):
    if f not in ("patch.diff", "meta.json"):
        if os.path.isdir(f"{d}/{f}"):
            shutil.copytree(f"{d}/{f}", f"{out}/{f}", dirs_exist_ok=True)
        elif os.path.getsize(f"{d}/{f}") < 200000:
            shutil.copy(f"{d}/{f}", out)
meta = json.load(open(f"{d}/meta.json"))
meta.update({"seeded_id": sid, "confirmed": True,
             "confirmation": "tools/confirm_mutant.sh: patch applies; core/provider/api unit tests and trampoline snapshot tests pass with it; demo_cmd fails with the patch and passes without (run in a scratch worktree)",
             "checks_run": props, "detected": det})
json.dump(meta, open(f"{out}/meta.json", "w"), indent=1)
print("kept", sid, det)
