#!/usr/bin/env python3
"""Regenerate MANIFEST.json from the table below (claimed properties) and properties.jsonl."""
import json, os, subprocess
VERIF = os.path.dirname(os.path.dirname(os.path.abspath(__file__)))

TECH = "machine-checked proof in Coq 8.16 over an executable model + model/implementation correspondence"

CLAIMS = {
 "C01": dict(
  text="Coq theorem C01 (and C01_strong): for every pointer width, both overflow modes, every well-formed NaN-free wire tree w (all integer/float/str/array/map formats incl. non-minimal headers, any nesting and size) and EVERY finite sequence of read calls whose scope is any earlier answer, the outputs of the transcribed lazy reader on enc w equal spec_run w ops, a function of the eagerly decoded tree and the position only (so history independence is part of the statement; fuel 4*|input|+4 is shown sufficient, no panic). The model is tied to the code by running provider functions and model on the same generated documents and adaptive histories and comparing every answer (tag, inline length, number bits, error code, length query, string bytes).",
  note="Trusted: Coq kernel; hand transcription Read/Lazy.v + ReadRun.v (handles = paths; pointer stability of the pre-sized arena vectors is an assumption of the model) validated by correspondence; F64.of_int models `as f64`; T1 for error codes. Not covered: allocation failure, stack depth, forged scope pointers.",
  ref="DESIGN.md §6 C01"),
 "C02": dict(
  text="Coq theorem C02: for any finite sequence of write/intern calls (under the no-overflow guard and ABI value ranges) that leaves the writer in End, there is exactly one tree t whose token sequence is the accepted calls in order, the output bytes are exactly enc_tree t, dec_tree (out) = Some (t, |out|) (one well-formed value, nothing trailing, f64 bit for bit, i32 exact, strings byte for byte, direct or by interned id) and finalize returns them; C02_accepted_only: the output is a function of the accepted tokens only (no byte of a rejected call). Correspondence compares status and the current output bytes after EVERY call and the finalised bytes, through the provider functions and api::Context::write_*.",
  note="Trusted: Coq kernel; hand transcription Write/Writer.v + Msgpack/Rmp.v (rmp 0.8.15 encoders) validated by correspondence; T2 status numbers. Buffer reallocation / returned pointer are runtime facts exercised by sizes crossing the growth points. The W=32 overflow of `length * 2` (finding F8) is repaired in /repo and in the model (C02_w32_former_witness_repaired).",
  ref="DESIGN.md §6 C02/C03"),
 "C03": dict(
  text="Coq theorems C03_status (status = the abstract document builder's, for every op in every reachable state), C03_fits (a call is accepted iff the accepted tokens extended by it are a prefix of some document's token sequence), C03_frame (a rejected or panicking call leaves state, stack, output and interner unchanged - unconditional), C03_out, C03_complete / C03_complete_tokens (End iff the accepted tokens are exactly a document; finalize accordingly), for all finite op sequences, any nesting, W and overflow mode arbitrary under the guard 2*len < 2^W (all lengths < 2^32 at W=64). Correspondence after every call (status + output bytes via hook).",
  note="Trusted: as C02. The guard 2*len < 2^W is still needed for the unbounded statement (the item counter would overflow after 2^W - 1 accepted items); the defect that lay outside it at W=32 (`length * 2` wrapping, finding F8) is repaired in /repo and the model transcribes the repaired test (C03_w32_former_witness_repaired).",
  ref="DESIGN.md §6 C02/C03"),
 "C05": dict(
  text="Coq theorems C05_read / C05_plan / C05_plan_tail over a transcribed model of Logs::append, Logs::read_ptrs and the glue's copies: for every capacity > 0, every byte type and every sequence of messages of any lengths (hence at every prefix = every point where the host may read), the reported segments concatenated are the last min(total,capacity) bytes logged, and every plan is inside the buffer and covers exactly the retained tail. The capacity is regenerated from log.rs; the model is tied to the code by running both on generated message sequences (plans and host views compared after every message).",
  note="Trusted: Coq kernel; hand transcription of log.rs validated by correspondence (differential testing, bounded by generator quality); translator T6; hook verif_log_view calling the real read_ptrs. Not covered: a guest trapping between plan and copy; wasm-only finalize().",
  ref="DESIGN.md §6 C05"),
 "C06": dict(
  text="38 Coq theorems over the NaN-box model whose every mask/size/discriminant is REGENERATED from core/src/read.rs as a function of the pointer width: layout at W=32 (payload 0-31, length 32-45, tag 46-49, prefix 50-62, sign 0) and W=64; (pointer,length) round trips with exact lengths up to 2^14-1 and saturation at MAX_VALUE_LENGTH W; booleans, null, every error code, every non-NaN double bit for bit; boxed values are NaNs as doubles and numbers are never boxed; try_decode is total (never panics) on all 2^(2W) patterns with an exact characterisation of the decode-error set; exhaustive prefix x tag sweep. All for W in {32,64}. Correspondence runs the real NanBox on the host width over sign x prefix x tag x payload patterns, boundary lengths/pointers, doubles at every exponent boundary.",
  note="Trusted: Coq kernel; translator T1; hand-transcribed bodies of encode/number/try_decode validated by correspondence at W=64 (host); the W=32 instance is proved but executed against the code only under Miri (thorough, when available).",
  ref="DESIGN.md §6 C06"),
 "C08": dict(
  text="Coq theorems C08_nopanic, C08_strings, C08_no_fuel, C08_deterministic over the transcribed lazy reader: for EVERY byte list that fits the pointer width, every width, both overflow modes and every sequence of read calls with any scope arguments, no call panics, runs out of fuel (4*|input|+4) or reports a string outside the input, and each reported string extent lies inside the input; answers are a function of (input, calls). The value-or-error half is decided by the model correspondence (the model is the sequential reference on malformed input) plus C01 on complete documents. Correspondence: truncations, bit flips, length tampering, splices, unsupported markers, non-string keys, NaN floats, deep nesting, random bytes, each input in a crash-isolating child process.",
  note="Trusted: as C01. Heap exhaustion from eager pre-allocation (F3) and stack exhaustion of the recursive skip (F11) are runtime facts outside the model and are recorded known findings observed by the harness.",
  ref="DESIGN.md §6 C08"),
 "C10": dict(
  text="Coq theorem C10: for all ten integer targets, both pointer widths and EVERY 64-bit pattern outside the recorded class Known, the transcribed macro body (trunc/==/range guards/saturating cast over a bit-level model of binary64) returns Some x only if the double is exactly the integer x within the type's range, and None only if no in-range integer equals it; Known_iff characterises the excluded class exactly (2^63 for i64/isize64, 2^64 for u64/usize64) and Known_wrong / C10_refuted show the code is wrong there (finding F4). F64 facts (of_int exact below 2^53, nearest otherwise; of_f32 exact) are proved. Correspondence runs <int>::deserialize on every power of two +-3 ulp, type bounds and neighbours, halves, infinities and random patterns.",
  note="Trusted: Coq kernel; bit-level double model Base/F64.v and Api/IntDeser.v validated against the hardware/Rust by correspondence. usize/isize at W=32 are proved but only run at the host width.",
  ref="DESIGN.md §6 C10"),
 "C09": dict(
  text="Coq theorems over a typed universe (unit, bool, i32, f64, string, Option, Vec, string-keyed map, tuples, fixed arrays, the ten integer targets): C09_ser (serialising a well-typed value runs through the writer model without error and outputs exactly enc_tree (tree_of v), for every iteration order of every map), C09_json (tree_of = serde's JSON tree for finite doubles), C09_roundtrip (deserialising that document at the same type returns the value, every size incl. empty, every nesting, W in {32,64}) under the exclusion opt_ok (no Option of a nullable type: C09_refuted shows Some(()) / Some(None) read back as None - recorded finding F9), C09_mismatch / C09_reject / C09_match (a document is accepted iff it has the JSON shape of the type; no coercion), C09_via_spec / C09_via_lazy / C09_end_to_end (the deserialiser inspects the document only through Value-level calls, which by C01 the lazy reader answers as the eager tree). Correspondence runs the REAL trait impls on 28 concrete Rust types: serialise, compare bytes and serde_json's value, hand the output back, deserialise; plus thousands of (document, target type) pairs.",
  note="Trusted: Coq kernel; hand transcription Api/Typed.v of the trait impls validated by correspondence on a finite family of concrete types (the Rust type family is sampled, the theorems quantify over the whole universe); serde_json as JSON oracle.",
  ref="DESIGN.md §6 C09"),
 "C12": dict(
  text="Coq theorems over a transcription of string_interner.rs and the per-thread context: ids are 0,1,2,... in call order (fresh), iget id returns the interned bytes for every id ever returned whatever is interned afterwards (buffer growth is harmless: offsets, not pointers), the writer's abstract `interned` list refines it, OIStr id behaves exactly like OStr bytes and an interned property lookup exactly like the lookup by name (C12_context: in any history incl. any number of re-initialisations on the thread), SLoad of a cached key returns the same id on every load within a thread and a valid id on every thread under every schedule. Correspondence: real interning / write-by-id / lookup-by-id / CachedInternedStringId::load histories over several invocations and threads, compared with the model and with the same script using the original bytes.",
  note="Trusted: Coq kernel; hand-written Ctx/Interner.v, Ctx/Context.v validated by correspondence. An id never returned panics (spans[id]) and is outside the quantifier.",
  ref="DESIGN.md §6 C12"),
 "C13": dict(
  text="Coq theorem C13: for EVERY earlier history of raw provider-level steps on a thread (reads, finished/abandoned/rejected writes, logs, interning, earlier re-initialisations) and every script that starts a new invocation and uses only ids it obtains itself, the observations equal those of the same script on a fresh thread up to the values of interned ids (C13_shift: exactly shifted by the number of strings interned before, when no cached key is involved); structural obligations decided on the REGENERATED table: every field of struct Context is covered by the model record and initialize_from_msgpack_bytes keeps exactly string_interner. The theorem is shallow (it follows from the model's init); the substance is the correspondence: multi-invocation histories on one real thread compared step by step with the model and with the same invocation on a fresh thread (reads, statuses, output bytes via hook, log view via hook).",
  note="Trusted: Coq kernel; translator T5 (struct Context fields, what init keeps); hand-written Ctx/Context.v validated by correspondence. The api-level id cache survives by design.",
  ref="DESIGN.md §6 C13"),
 "C14": dict(
  text="Coq theorem C14 (C14_any_world, C14_for_the_code): for any number of threads, any scripts of provider-level steps (split exactly where a call hands back a destination or copy plan and the glue copies afterwards) and EVERY schedule, each thread's observations equal those of its script running alone - by induction on the schedule, no bound - for the model instantiated with the placement the REGENERATED statics table gives to the log return area, under the hypothesis that every mutable static is thread-local, which is decided by vm_compute on that table (Ctx/StaticsOk.v; C14_refuted_global shows the three-step interference when the area is global, which was the code's state before the repair of finding F7). Correspondence: 2-3 real OS threads under a baton scheduler, all interleavings of short scripts enumerated (sampled above the tier's limit), per-thread observations compared with the model and with solo runs.",
  note="Trusted: Coq kernel; translator T5; hand-written Ctx/Threads.v (sequentially consistent; no weak memory, true data races are not exhibited by a baton scheduler).",
  ref="DESIGN.md §6 C14"),
 "C04": dict(
  text="22 Coq theorems about the glue code the REAL trampoline emits today (regenerated on every run into Gen/GlueGen.v from the tool's output on a guest importing the whole API; nothing transcribed), under a hand-written big-step semantics of the 16-instruction Wasm subset it uses, two linear memories and the provider as an oracle constrained only by the low-level convention of the one call each glue makes: for ALL in-bounds arguments, ALL memories and ALL conforming provider responses, read_utf8_str copies exactly [addr,addr+len) of the provider to [out,out+len) of the guest; get_obj_prop allocates, copies exactly the name bytes and passes (scope, block, len) on, returning the provider's value; output_new_utf8_str / intern_utf8_str make one provider call with len, return the HIGH word and copy guest [ptr,ptr+len) to the LOW word's address; log_new_utf8_str loads the five plan words at offsets 0/4/8/12/16 and performs the one or two copies of the retained part; *_effect / *_calls: nothing else in either memory changes and exactly the listed provider calls happen; scalar imports are renamed to the underscore name with the same type (C04_scalar_names / _passthrough on the regenerated tables). The clause `a rejected string write writes nothing` is FALSE of the emitted code and is kept visible: C04_out_str_accepted (status 0), C04_out_str_rejected_writes (witness) - recorded finding F6. Correspondence: generated guests (any subset/order of imports, foreign imports mixed in, each import reached through a wrapper, a table and a re-export) are trampolined by the real tool and executed in wasmtime against a scripted low-level provider; return values, both memories and the provider call log are compared with the extracted interpreter running GlueGen and with the ABI spec.",
  note="Trusted: Coq kernel; translator T4 (harness_wasm gluegen: wasmparser decode of the trampoline's output); the 16-instruction semantics Tramp/WasmMini.v validated against wasmtime 38 on every run; walrus id stability (every call site reaches the replaced function) is exercised, not proved. Out-of-bounds arguments trap and are outside the quantifier.",
  ref="DESIGN.md §6 C04"),
 "C15": dict(
  text="Coq theorem C15 : abi_consistent = true (with the five clauses pinned separately: C15_names_and_signatures, C15_module_names, C15_emitted_imports_exist, C15_trampoline_guards, C15_code_tables) over tables REGENERATED on every run from the artefacts themselves: the public WAT (parsed with wat+wasmparser), the C header compiled NOW with clang --target=wasm32 (import section of the fresh object, not the checked-in header_test.wasm), the Rust extern block of api/src/lib.rs, what the real TrampolineCodegen::apply accepts, rejects and emits (probed per name and per wrong signature), the provider's decorate_for_target!/#[export_name] items, the module-name constants, and the README / header / core-enum code tables. The domain is finite (19 functions x 5 artefacts, the emitted low-level imports, 4 code tables), so the vm_compute proof is exhaustive; a disagreement is named clause by clause (pins/C15_diag.v) and reported as the failing table row.",
  note="Trusted: Coq kernel; translator T3 (translators/gen_abi.py + harness_wasm abigen) IS the trusted part, including the Rust->Wasm type mapping (usize/pointers/u32/i32/WriteResult -> i32, Val/DoubleUsize -> i64, f64 -> f64); T1/T2 for the enums.",
  ref="DESIGN.md §6 C15"),
 "C11": dict(
  text="Coq corollaries of C01 and C06 plus the transcribed accessor logic (Api/ApiLen.v): C11_inline (the inline field of a string/array/object handle of true length n is min(n, MAX_VALUE_LENGTH W), for W in {32,64}; C11_limit_32: the limit is exactly 2^14-1 on the Wasm width), C11_api_len (for every true length below usize::MAX, below, at or above the limit, Value::array_len/obj_len/as_string select the true length), C11_answer_true_length / C11_len_query / C11_no_length (the eager spec's answers carry true lengths, the length query returns them, values without a length answer usize::MAX = -1), C11_reader (= C01: the lazy reader returns exactly those answers for every document, path and history). Correspondence: documents with strings/arrays/maps of 0..40, 255/256, 2^14-3..2^14+2, 65535/65536/70000 elements reached by every access path, read through the api::Value accessors and the raw calls.",
  note="Trusted: as C01/C06. On the 64-bit host the sentinel branch of the accessors is unreachable (limit 2^46-1): it is covered by the theorems at W=32 and, against the real crates, only by the Miri/i686 run of the thorough tier when available.",
  ref="DESIGN.md §6 C11"),
}


def main():
    props = [json.loads(l) for l in open(os.path.join(VERIF, "properties.jsonl"))]
    ids = [p["id"] for p in props]
    hooks = subprocess.check_output(["git", "-C", "/repo", "log", "--format=%h", "--grep", "verif hooks"], text=True).split()
    checks, na = [], []
    for i in ids:
        if i in CLAIMS and os.path.exists(os.path.join(VERIF, "props", i.lower() + ".py")):
            c = CLAIMS[i]
            checks.append({
                "property_id": i, "quick_cmd": f"./check {i} --tier quick", "thorough_cmd": f"./check {i} --tier thorough",
                "evidence_file": f"evidence/{i}.json", "replay_cmd_template": f"./check {i} --replay {{path}}", "engine": "coq",
                "level_claimed": {"category": "proof", "text": c["text"], "design_ref": c["ref"]},
                "level_note": c["note"], "technique": TECH})
        else:
            na.append({"property_id": i, "reason": "not yet claimed: machinery for this property is still being built in this round (planned as a Coq proof over an executable model + correspondence, see DESIGN.md §6)"})
    m = {
        "version": 1,
        "setup_cmd": "./setup.sh",
        "hooks": {
            "guard": "--cfg shopify_function_verif",
            "enable": "RUSTFLAGS=\"--cfg shopify_function_verif\" (set by ./check when it builds /verif/harness against /repo's crates by path)",
            "baseline_off_cmd": "cd /repo && RUSTUP_TOOLCHAIN=stable-x86_64-unknown-linux-gnu cargo test --workspace --no-fail-fast --offline",
            "source_commits": sorted(hooks),
            "add_only": False,
        },
        "engines": [
            {"name": "coq", "path": "coq/", "serves_properties": [c["property_id"] for c in checks], "kind_free_text": "Coq 8.16.1 development: executable Gallina models, theorems pinned in coq/theories/Properties and coq/pins (+ golden statements), translators/ regenerate coq/theories/Gen"},
            {"name": "harness", "path": "harness/", "serves_properties": [c["property_id"] for c in checks], "kind_free_text": "Rust correspondence harness running the real crates (hooks on) + OCaml driver (ocaml/driver.ml) running the extracted models and specs"},
        ],
        "checks": checks,
        "not_applicable": na,
        "notes": "See DESIGN.md. known_findings.json lists recorded findings (known / fixed); statements.lock pins the property statements; ./check relock rewrites pins' golden statements.",
    }
    json.dump(m, open(os.path.join(VERIF, "MANIFEST.json"), "w"), indent=1)
    print("claimed:", [c["property_id"] for c in checks], "not yet:", [n["property_id"] for n in na])


if __name__ == "__main__":
    main()
