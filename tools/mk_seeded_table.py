#!/usr/bin/env python3
"""Print the markdown table of DESIGN.md §13 from seeded/*/meta.json."""
import json, glob, os, re
V = os.path.dirname(os.path.dirname(os.path.abspath(__file__)))
rows = []
for d in sorted(glob.glob(os.path.join(V, "seeded", "*"))):
    m = json.load(open(os.path.join(d, "meta.json")))
    sid = os.path.basename(d)
    files = sorted(set(re.findall(r"^\+\+\+ b/(\S+)", open(os.path.join(d, "patch.diff")).read(), re.M)))
    det = m.get("detected", {})
    def fmt(p, v):
        kinds = set(v)
        if kinds == {"PASS (missed)"}:
            return f"{p}: missed"
        if "counterexample" in kinds:
            return f"**{p}: counterexample**"
        return f"{p}: obligation (no input)"
    needs = " ".join((m.get("needs") or "").split())
    if len(needs) > 230:
        needs = needs[:227] + "..."
    rows.append(f"| {sid} | {', '.join(os.path.basename(f) for f in files)} | {needs} | {'; '.join(fmt(p, v) for p, v in det.items())} |")
print("| id | files touched | what it needs to manifest | result of the checks run against it |")
print("|---|---|---|---|")
print("\n".join(rows))
