#!/bin/sh
# usage: tools/try_mutant.sh <patch.diff> <PROP> [<PROP>...] : apply to /repo, run the checks, always revert.
# The evidence files and generated model parts are those of the UNCHANGED tree again afterwards.
patch="$1"; shift
cd /repo || exit 2
git diff --quiet || { echo "/repo is dirty"; exit 2; }
git apply "$patch" || { echo "patch does not apply"; exit 2; }
rm -rf /verif/.cache/evidence.keep && cp -r /verif/evidence /verif/.cache/evidence.keep
for p in "$@"; do
  (cd /verif && ./check "$p" 2>&1 | grep -E "^(VIOLATION|PASS|KNOWN|FAIL)" | cut -c1-400)
done
git -C /repo checkout -- . ; git -C /repo status --short | head -3
rm -rf /verif/evidence && mv /verif/.cache/evidence.keep /verif/evidence
(cd /verif && python3 -c "
import sys; sys.path.insert(0,'lib'); sys.path.insert(0,'props'); sys.path.insert(0,'translators')
import vf; vf.regen_all()" >/dev/null 2>&1)
