#!/bin/sh
# usage: tools/try_mutant.sh <patch.diff> <PROP> [<PROP>...] : apply to /repo, run the checks, always revert
patch="$1"; shift
cd /repo || exit 2
git diff --quiet || { echo "/repo is dirty"; exit 2; }
git apply "$patch" || { echo "patch does not apply"; exit 2; }
for p in "$@"; do
  (cd /verif && ./check "$p" 2>&1 | grep -E "^(VIOLATION|PASS|KNOWN|FAIL)" | cut -c1-400)
done
git -C /repo checkout -- . ; git -C /repo status --short | head -3
