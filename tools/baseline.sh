#!/bin/sh
# usage: tools/baseline.sh [dir] : run the repository's own suite (hooks OFF) and print "PASS|FAIL <binary> <test>" sorted
d="${1:-/repo}"; cd "$d" || exit 2
export RUSTUP_TOOLCHAIN=stable-x86_64-unknown-linux-gnu CARGO_NET_OFFLINE=true
unset RUSTFLAGS
cargo nextest run --workspace --no-fail-fast --offline --test-threads 8 2>&1 | grep -E "^\s+(PASS|FAIL) \[" | sed -E 's/\[[^]]*\] *\([^)]*\)//' | awk '{print $1, $2, $3}' | sort -u
