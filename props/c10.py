import os, vf
from pbase import Base
import gen_rs2v


class Property(Base):
    prop = "C10"
    comp = "c10"
    coq_targets = ["theories/Properties/C10.vo"]
    theorems = []
    trusted_base = Base.COMMON_TB + [
        "translator T8 (translators/rs2v + the textual macro instantiation in translators/gen_rs2v.py): the body of impl_deserialize_for_int! is REGENERATED into Gen/IntDeserGen.v for the ten types it is invoked with; C10_code_number / C10_code_not_a_number prove deser_int (Api/IntDeser.v) equal to it for all patterns",
        "hand-written bit-level model of binary64 (coq/theories/Base/F64.v: decode, exact comparison f_eq/f_le, f_trunc, the saturating cast f_cast, integer->double rounding of_int) - the meaning of the f64 operations the translated code uses; tied to the hardware by the correspondence on ~10^5 patterns x 10 types per run",
    ]
    assumptions = ["doubles are supplied to <int>::deserialize as MessagePack f64 input through the real reader", "usize/isize are exercised at the host width (64); the 32-bit instances of the theorem are validated only through the u32/i32 cases"]

    def regen(self):
        return {"T8": gen_rs2v.generate(vf.REPO, "IntDeserGen")}

    def property_failure(self, block, I, S, M):
        ops = [l for l in block[1:] if l != "END"]
        for op, i, s in zip(ops, I, S):
            bi, bs = i.split(" ", 1)[1], s.split(" ", 1)[1]
            if bi != bs:
                return f"{op}: implementation answered `{bi}`, exact-or-fail demands `{bs}`"
        if len(I) != len(ops):
            return "observation count mismatch"
        return None

    def compare(self, d, stats):
        r = super().compare(d, stats)
        acc = set()
        for l, c in zip(vf.read_lines(os.path.join(d, "impl.txt")), [x for x in vf.read_lines(os.path.join(d, "cases.txt")) if x.startswith("DES ")]):
            if " OK " in l:
                acc.add(c)
        stats["distinct_nontrivial"] = len(acc)
        return r

    def signature(self, d):
        return d["why"].split(":")[0]

    def minimise(self, d):
        block = d["case"]
        ops = [l for l in block[1:] if l != "END"]
        for op, i, s in zip(ops, d["impl"], d["spec"]):
            if i.split(" ", 1)[1] != s.split(" ", 1)[1]:
                r = self.run_cases([block[0], op, "END"], "-shrink")
                if r["property_failures"]:
                    return r["property_failures"][0]
        return d

    KNOWN_F4 = {("i64", "43e0000000000000"), ("isize", "43e0000000000000"), ("u64", "43f0000000000000"), ("usize", "43f0000000000000")}

    def match_known(self, d, known):
        for k in known:
            if k["id"] == "F4":
                ops = [l for l in d["case"][1:] if l != "END"]
                bad = [op for op, i, s in zip(ops, d["impl"], d["spec"]) if i.split(" ", 1)[1] != s.split(" ", 1)[1]]
                if bad and all((op.split()[1], op.split()[2]) in self.KNOWN_F4 for op in bad):
                    return k
        return None
