import os, vf
from pbase import Base
import gen_nanbox, gen_rs2v


class Property(Base):
    prop = "C06"
    comp = "c06"
    coq_targets = ["theories/Properties/C06.vo"]
    theorems = []
    shrink_ops = True
    trusted_base = Base.COMMON_TB + [
        "translator T1 (translators/gen_nanbox.py): every const of impl NanBox and the Tag/ErrorCode discriminants are regenerated from core/src/read.rs as functions of the pointer width",
        "translator T8 (translators/rs2v): encode, the seven constructors and try_decode of core/src/read.rs are REGENERATED into Gen/NanBoxFnGen.v on every run; theorems C06_code_* prove the model's functions (NanBox/NanBox.v) equal to them at W=32 AND W=64 for all arguments in range (trusted: the translation scheme of rs2v and Base/RsPrelude.v: width of each integer type, checked shifts, truncating casts; NanBox::tag + Tag::from_val and the two strum::FromRepr derives are hand-written in NanBox/NanBoxExt.v over the regenerated tables)",
        "correspondence of the model with the real NanBox on the host width (W=64, Val=u128)",
    ]
    assumptions = ["Rust's `as` casts and shifts on u64/u128 behave as modelled (truncation / bits shifted out are lost)"]

    def regen(self):
        changed, info = gen_nanbox.generate(vf.REPO, os.path.join(vf.COQ, "theories/Gen/NanBoxGen.v"))
        t8 = [gen_rs2v.generate(vf.REPO, n) for n in ("NanBoxFnGen", "ApiLenGen")]
        return {"consts": info["consts"], "tags": info["Tag"], "error_codes": info["ErrorCode"], "T8": t8}

    def property_failure(self, block, I, S, M):
        ops = [l for l in block[1:] if l != "END"]
        if len(I) != len(ops) or len(S) != len(ops):
            return f"observation count mismatch: {len(ops)} ops, {len(I)} impl lines, {len(S)} spec lines"
        for op, i, s in zip(ops, I, S):
            body = i.split(" ", 1)[1]
            want = s.split(" ", 2)[2]          # after "<id> RT "
            if want == "ANY":
                if body == "PANIC":
                    return f"try_decode crashed on {op}"
                continue
            got = body.split(" ", 2)[2] if body.startswith("BITS ") else body
            if got != want:
                return f"round trip of `{op}` gave `{got}`, expected `{want}`"
        return None

    def signature(self, d):
        w = d["why"]
        return "try_decode crashed" if "crashed" in w else w.split("`")[1].split()[0] + " round trip"

    def minimise(self, d):
        # keep only the first failing op
        block = d["case"]
        ops = [l for l in block[1:] if l != "END"]
        for k, op in enumerate(ops):
            cand = [block[0], op, "END"]
            r = self.run_cases(cand, "-shrink")
            if r["property_failures"]:
                return r["property_failures"][0]
            if k > 400:
                break
        return d

    def match_known(self, d, known):
        for k in known:
            if k["id"] == "F10" and "crashed" in d["why"]:
                # every crashing RAW op of the case must be in the known class: NaN prefix and tag 2
                W = int(d["case"][0].split()[2])
                ok = True
                for op, i in zip([l for l in d["case"][1:] if l != "END"], d["impl"]):
                    if i.endswith(" PANIC"):
                        v = int(op.split()[1], 16)
                        pre = (v >> (2 * W - 14)) & 0x1fff
                        tag = (v >> (2 * W - 18)) & 0xf
                        ok = ok and pre == 0x1fff and tag == 2
                if ok:
                    return k
        return None
