import os, vf
import c01


class Property(c01.Property):
    prop = "C08"
    comp = "c08"
    coq_targets = ["theories/Properties/C08.vo", "theories/Properties/C08v.vo", "theories/Read/LoopsEq.vo"]   # the reader model is tied to the regenerated loops by Read/LoopsEq.v
    theorems = []
    assumptions = [
        "heap exhaustion from eagerly pre-allocating a declared container length and stack exhaustion from the recursion of finish_processing are runtime facts the model cannot exhibit (recorded findings F3, F11); the harness observes them as aborts of a child process",
        "forged scope values are outside the quantifier",
        "the functional half is theorem C08_value: on EVERY byte string the model's outputs equal seq_run, a stateless sequential decoder (Read/SeqSpec.v: skip the preceding siblings, decode the header at the position; its one-value header decoder is the model's lz_new, which C01/C08_value_wellformed tie to the wire encoding on well-formed documents); the extracted seq_run is also run against the implementation on every malformed input of up to 3000 bytes",
        "the reader decodes a map pair as a unit (key, then the header of its value): the key of pair i is a ReadError when value i's header is damaged (C08_key_needs_value_header) - an error, never a fabricated value (C08_never_fabricates against the natural decoder)",
    ]

    def property_failure(self, block, I, S, M):
        why = super().property_failure(block, I, S, M)
        if why:
            return why
        # determinism / repeatability: the same call on the same scope gives the same answer
        ops = [l for l in block[2:] if l != "END"]
        seen = {}
        for op, i in zip(ops, I):
            if op == "ROOT":
                continue
            body = i.split(" ", 1)[1]
            if op in seen and seen[op] != body:
                return f"repeating `{op}` gave `{body}` after `{seen[op]}`"
            seen[op] = body
        return None

    def signature(self, d):
        w = d["why"]
        cls = d["case"][0].split()[3]
        if "crashed" in w:
            return f"crash ({cls})"
        if "not lie inside" in w:
            return f"stray string ({cls})"
        return super().signature(d)

    def match_known(self, d, known):
        doc = bytes.fromhex(d["case"][1].split()[1]) if d["case"][1].split()[1] != "-" else b""
        cls = d["case"][0].split()[3]
        w = d["why"]
        for k in known:
            if k["id"] == "F3" and "crashed" in w:
                # a container header with a 32-bit declared length >= 2^25 is in the input
                for i in range(len(doc) - 4):
                    if doc[i] in (0xdd, 0xdf) and int.from_bytes(doc[i + 1:i + 5], "big") >= 1 << 25:
                        return k
            if k["id"] == "F11" and "ABORT" in w:
                # nesting depth >= 3000 (a 1 MiB stack overflows near 3500 levels)
                if doc.count(0x91) + doc.count(0x81) >= 3000:
                    return k
        return None
