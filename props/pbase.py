"""Generic property runner: harness + extracted driver + three-way comparison."""
import json, os, shutil
import vf


class Base:
    prop = "C00"
    comp = "c00"
    crate = "harness"
    coq_targets = []
    theorems = []
    trusted_base = []
    assumptions = []
    panic_is_failure = True     # a PANIC observation is a failure of the property itself
    shrink_ops = True           # op lines of a case can be dropped independently

    COMMON_TB = [
        "Coq 8.16.1 kernel (coqc, vm_compute used for concrete Examples/finite tables; no native_compute)",
        "no axioms: every pinned theorem must print 'Closed under the global context'",
        "extraction: ExtrOcamlBasic only (Extract Inductive bool/option/unit/list/prod/sumbool/sumor), no Extract Constant; OCaml 4.13.1; ocaml/driver.ml (parsing/printing)",
        "correspondence harness (Rust, /verif/harness) + ./check (python) comparing observations",
    ]

    def regen(self):
        return {}

    # ---- running
    def tools(self):
        return vf.build_harness(self.crate), vf.build_driver()

    def correspond(self, tier, seed):
        binary, driver = self.tools()
        d = vf.run_dir(self.prop)
        stats = vf.run_harness(binary, self.comp, seed, tier, d, extra=self.harness_extra(tier))
        vf.run_driver(driver, self.comp, d)
        r = self.compare(d, stats)
        # the corpus (witnesses of recorded findings, minimised earlier failures) runs on every check
        corpus = os.path.join(vf.VERIF, "corpus", self.prop + ".txt")
        if os.path.exists(corpus):
            rc = self.run_cases(vf.read_lines(corpus), "-corpus")
            r["property_failures"] = rc["property_failures"] + r["property_failures"]
            r["model_mismatches"] = rc["model_mismatches"] + r["model_mismatches"]
            r["stats"]["corpus_cases"] = rc["stats"].get("cases", 0)
            r["stats"]["evaluations"] = r["stats"].get("evaluations", 0) + rc["stats"].get("evaluations", 0)
        return r

    def harness_extra(self, tier):
        return []

    def run_cases(self, case_lines, tag="-replay"):
        """Run given case blocks through implementation and model; return compare() result."""
        binary, driver = self.tools()
        d = vf.run_dir(self.prop, tag)
        f = os.path.join(d, "replay_cases.txt")
        open(f, "w").write("\n".join(case_lines) + "\n")
        stats = vf.run_harness(binary, self.comp, 0, "quick", d, extra=["--replay", f])
        vf.run_driver(driver, self.comp, d)
        return self.compare(d, stats)

    # ---- comparing
    def compare(self, d, stats):
        impl = vf.group_by_case(vf.read_lines(os.path.join(d, "impl.txt")))
        mlines, slines = vf.split_model(vf.read_lines(os.path.join(d, "model.txt")))
        model = vf.group_by_case(mlines)
        spec = vf.group_by_case(slines)
        cases = vf.case_blocks(os.path.join(d, "cases.txt"))
        prop_fail, model_only, samples = [], [], []
        for cid, block in cases.items():
            I, M, S = impl.get(cid, []), model.get(cid, []), spec.get(cid, [])
            why = self.property_failure(block, I, S, M)
            if why:
                prop_fail.append({"case": block, "impl": I, "model": M, "spec": S, "why": why})
            elif I != M and not (len(M) == 1 and M[0].endswith("NOMODEL")):
                k = next((i for i in range(min(len(I), len(M))) if I[i] != M[i]), min(len(I), len(M)))
                model_only.append({"case": block, "impl": I, "model": M, "spec": S,
                                   "why": f"first difference at observation {k}: impl={I[k] if k < len(I) else None!r:.200} model={M[k] if k < len(M) else None!r:.200}"})
            if len(samples) < 3 and len(block) < 40:
                samples.append({"case": block, "impl": [x[:160] for x in I[:12]]})
        return {"stats": stats, "property_failures": prop_fail, "model_mismatches": model_only, "samples": samples}

    def property_failure(self, block, I, S, M):
        """Return a description when the implementation's observations contradict the spec."""
        if self.panic_is_failure:
            for l in I:
                if " PANIC" in l:
                    return "implementation panicked: " + l[:200]
        tags = {s.split()[1] for s in S if len(s.split()) > 1}
        Ip = [l for l in I if len(l.split()) > 1 and l.split()[1] in tags]
        if Ip != S:
            k = next((i for i in range(min(len(Ip), len(S))) if Ip[i] != S[i]), min(len(Ip), len(S)))
            return f"observation {k} differs from the spec: impl={Ip[k] if k < len(Ip) else None!r:.300} spec={S[k] if k < len(S) else None!r:.300}"
        return None

    # ---- findings
    def match_known(self, d, known):
        return None

    def signature(self, d):
        return d["why"].split(":")[0][:80]

    def minimise(self, d):
        if not self.shrink_ops:
            return d
        block = list(d["case"])
        best = d
        changed, budget = True, 60
        while changed and budget > 0:
            changed = False
            i = len(block) - 2
            while i >= 1 and budget > 0:
                cand = block[:i] + block[i + 1:]
                budget -= 1
                try:
                    r = self.run_cases(cand, "-shrink")
                except vf.Failure:
                    r = None
                if r and r["property_failures"]:
                    block = cand; best = r["property_failures"][0]; changed = True
                i -= 1
        return best

    def search(self, tier, seed, broken, model_only):
        """Wider search for IMPL != SPEC when an obligation/correspondence broke without a concrete input."""
        for s in range(1, 4):
            try:
                r = self.correspond_seed(tier, seed + 7919 * s)
            except vf.Failure:
                return None
            if r["property_failures"]:
                return self.minimise(r["property_failures"][0])
        return None

    def correspond_seed(self, tier, seed):
        binary, driver = self.tools()
        d = vf.run_dir(self.prop, "-search")
        stats = vf.run_harness(binary, self.comp, seed, tier, d, extra=self.harness_extra(tier))
        vf.run_driver(driver, self.comp, d)
        return self.compare(d, stats)

    def replay(self, body):
        r = self.run_cases(body["case"])
        for d in r["property_failures"]:
            print("still fails:", d["why"])
        return bool(r["property_failures"])
