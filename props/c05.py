import os, vf
from pbase import Base
import gen_log, gen_rs2v


class Property(Base):
    prop = "C05"
    comp = "c05"
    coq_targets = ["theories/Properties/C05.vo"]
    theorems = ["C05_read", "C05_plan", "C05_plan_tail", "C05_capacity_positive", "C05_code_append", "C05_code_read_ptrs", "C05_code_widths"]
    trusted_base = Base.COMMON_TB + [
        "translator T6 (translators/gen_log.py): CAPACITY and the return-area size are read from provider/src/log.rs",
        "translator T8 (translators/rs2v): Logs::append and Logs::read_ptrs of provider/src/log.rs are REGENERATED into Gen/LogFnGen.v on every run; C05_code_append / C05_code_read_ptrs prove the model's functions equal to them in every reachable state (trusted: the translation scheme of rs2v, Base/RsPrelude.v; pointers into the ring modelled as offsets)",
        "hand-written model coq/theories/Log/Ring.v of the glue's two copies (apply_plan), tied to the code by the correspondence (native glue) and by C04 (trampoline glue)",
        "hook verif_log_view (cfg shopify_function_verif) calls the real Logs::read_ptrs, otherwise wasm-only",
    ]
    assumptions = [
        "a guest whose copy traps between plan and copy is outside the quantifier (message sequences, not faulting guests)",
        "wasm-only finalize() (six stores publishing read_ptrs' result) is modelled by reading, never executed",
    ]

    def regen(self):
        changed, info = gen_log.generate(vf.REPO, os.path.join(vf.COQ, "theories/Gen/LogGen.v"))
        info["T8"] = gen_rs2v.generate(vf.REPO, "LogFnGen")
        return info

    def property_failure(self, block, I, S, M):
        why = super().property_failure(block, I, S, M)
        if why:
            return why
        # plan clauses of the property, checked directly on what the implementation handed out
        cap = int(block[0].split()[2])
        msgs = [int(l.split()[1]) for l in block if l.startswith("MSG ")]
        plans = [l.split() for l in I if len(l.split()) > 1 and l.split()[1] == "PLAN"]
        if plans and len(plans) == len(msgs):
            for n, p in zip(msgs, plans):
                so, d1, n1, d2, n2 = p[2], p[3], p[4], p[5], p[6]
                so, n1, n2 = int(so), int(n1), int(n2)
                ok = so + n1 + n2 == n and n1 + n2 == min(n, cap)
                ok = ok and (n1 == 0 or (d1 != "null" and 0 <= int(d1) and int(d1) + n1 <= cap))
                ok = ok and (n2 == 0 or (d2 != "null" and 0 <= int(d2) and int(d2) + n2 <= cap))
                if not ok:
                    return f"copy plan for a {n}-byte message does not cover the retained tail inside the buffer: {' '.join(p[1:])}"
        return None
