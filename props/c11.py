import c01


class Property(c01.Property):
    prop = "C11"
    comp = "c11"
    coq_targets = ["theories/Properties/C11.vo"]
    theorems = []
    assumptions = [
        "on the 64-bit host the inline limit is 2^46-1, so the sentinel branch (inline == limit -> ask the length query) of Value::as_string/array_len/obj_len is exercised by the model at W=32 (theorems C11_api_len, C11_inline) and against the real crates only under Miri/i686 (thorough tier, when its sysroot is available)",
        "api::Value values are built from raw NaN-boxed answers by a same-size transmute in the harness",
    ]

    def property_failure(self, block, I, S, M):
        why = super().property_failure(block, I, S, M)
        if why:
            return why
        # accessor-level: the API must report the TRUE length / bytes; the model carries the truth (C01) and the
        # accessor logic (ApiLen); for accessor calls the model line is the oracle
        ops = [l for l in block[2:] if l != "END"]
        for k, (op, i, m) in enumerate(zip(ops, I, M)):
            if op.split()[0] in ("ALEN", "ASTR", "AKEY") and i != m:
                return f"call {k} `{op}` answered `{i.split(' ', 1)[1][:120]}`, the true length/bytes are `{m.split(' ', 1)[1][:120]}`"
        return None
