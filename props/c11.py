import os, time
import c01, vf, w32, gen_rs2v


class Property(c01.Property):
    prop = "C11"
    comp = "c11"
    coq_targets = ["theories/Properties/C11.vo", "theories/Read/LoopsEq.vo"]   # the reader model is tied to the regenerated loops by Read/LoopsEq.v
    theorems = []
    assumptions = [
        "on the 64-bit host the inline limit is 2^46-1, so the sentinel branch (inline == limit -> ask the length query) of Value::as_string/array_len/obj_len is exercised by the model at W=32 (theorems C11_api_len, C11_inline) and against the REAL crates built for a 32-bit target under Miri/i686 on every run (lib/w32.py: 15 documents with sizes 2^14-2 .. 2^14+1 through every access path, compared with an independent eager decode and, where the list-based model is fast enough, with the model at W=32)",
        "api::Value values are built from raw NaN-boxed answers by a same-size transmute in the harness",
    ]

    def regen(self):
        info = super().regen()
        info["T8"] = list(info.get("T8", [])) + [gen_rs2v.generate(vf.REPO, "ApiLenGen")]
        return info

    def correspond(self, tier, seed):
        r = super().correspond(tier, seed)
        t0 = time.time()
        cases = w32.c11_cases(tier == "thorough")
        jobs = [(w32.enc(tree), ops) for _, tree, ops, _ in cases]
        obs = w32.run_reader(jobs)
        n, sentinel = 0, 0
        for k, ((name, tree, ops, small), o) in enumerate(zip(cases, obs)):
            want = w32.oracle(tree, ops)
            n += len(ops)
            sentinel += sum(1 for x in o if x.startswith("ALEN ") and x != "ALEN NONE")
            block = [f"CASE {900000 + k} 32 c11-w32 {name}", "DOC " + jobs[k][0].hex()] + ops + ["END"]
            if o != want:
                j = next((i for i in range(min(len(o), len(want))) if o[i] != want[i]), min(len(o), len(want)))
                got = o[j] if j < len(o) else (obs[-1][0] if obs and obs[-1] and obs[-1][0].startswith("STDERR") else "(no answer: the 32-bit run stopped)")
                r["property_failures"].append({"case": block, "impl": o, "model": [], "spec": want, "w32": True,
                    "why": f"32-bit build (Miri/i686), document {name}: call {j} `{ops[j] if j < len(ops) else '?'}` answered `{got[:160]}`, the true answer is `{want[j][:160] if j < len(want) else '?'}`"})
        # the model at W=32 on the documents it can run in reasonable time (strings, long keys)
        d = vf.run_dir(self.prop, "-w32")
        small_idx = [k for k, c in enumerate(cases) if c[3]]
        with open(os.path.join(d, "cases.txt"), "w") as f:
            for k in small_idx:
                f.write(f"CASE {k} 32 c11\nDOC {jobs[k][0].hex()}\n" + "\n".join(cases[k][2]) + "\nEND\n")
        vf.run_driver(vf.build_driver(), "c11", d)
        mlines, _ = vf.split_model(vf.read_lines(os.path.join(d, "model.txt")))
        model = vf.group_by_case(mlines)
        for k in small_idx:
            M = [l.split(" ", 1)[1] for l in model.get(str(k), [])]
            if M != obs[k]:
                j = next((i for i in range(min(len(M), len(obs[k]))) if M[i] != obs[k][i]), min(len(M), len(obs[k])))
                r["model_mismatches"].append({"case": [f"CASE {k} 32 c11", "DOC " + jobs[k][0].hex()] + cases[k][2] + ["END"], "impl": obs[k], "model": M, "spec": [],
                    "why": f"W=32 model vs 32-bit build: first difference at observation {j}"})
        st = r["stats"]
        st["evaluations"] = st.get("evaluations", 0) + n
        st["w32_cases"] = len(cases); st["w32_observations"] = n; st["w32_accessor_lengths_at_or_above_limit"] = sentinel
        st["w32_wall_s"] = round(time.time() - t0, 1)
        st["w32_rule"] = "the real api+provider+core crates built for i686 (pointer width 32, inline limit 2^14-1) under Miri: strings, object keys, arrays and objects of 2^14-2 .. 2^14+1 bytes/elements/entries at the root and nested, by name, by index and key-at-index, through the raw provider calls and the api::Value accessors; every answer compared with an independent eager decode (true lengths; inline = min(n, 2^14-1)) and, for the string/key documents, with the Coq model at W=32"
        return r

    def replay(self, body):
        if body.get("w32"):
            ops = [l for l in body["case"][2:] if l != "END"]
            doc = bytes.fromhex(body["case"][1].split()[1])
            o = w32.run_reader([(doc, ops)])[0]
            if o != body["spec"]:
                print("still fails (32-bit build):", o[:6], "expected", body["spec"][:6]); return True
            return False
        return super().replay(body)

    def minimise(self, d):
        return d if d.get("w32") else super().minimise(d)

    def property_failure(self, block, I, S, M):
        why = super().property_failure(block, I, S, M)
        if why:
            return why
        # accessor-level: the API must report the TRUE length / bytes; the model carries the truth (C01) and the
        # accessor logic (ApiLen); for accessor calls the model line is the oracle
        ops = [l for l in block[2:] if l != "END"]
        for k, (op, i, m) in enumerate(zip(ops, I, M)):
            if op.split()[0] in ("ALEN", "ASTR", "AKEY") and i != m:
                return f"call {k} `{op}` answered `{i.split(' ', 1)[1][:120]}`, the true length/bytes are `{m.split(' ', 1)[1][:120]}`"
        return None
