import os, vf
from pbase import Base
import gen_tramp, gen_abi, gen_nanbox, gen_codes


def core(line):
    """impl line without the id: verdict + import section (+ number of generated functions), flags dropped"""
    b = line.split(" ", 1)[1]
    return b.split(" FLAGS=")[0]


class Property(Base):
    prop = "C07"
    comp = "c07"
    crate = "harness_wasm"
    coq_targets = ["theories/Properties/C07.vo"]
    theorems = []
    shrink_ops = False
    trusted_base = Base.COMMON_TB + [
        "translator T7 (translators/gen_tramp.py): the tables the rewrite model is parametric in (IMPORTS in order, module name and version prefix, tolerated extra names, per emit_* function the looked-up name, the validated signature, the added low-level import and the helpers in source order, whether apply()/rename loop over every import of a name) are regenerated from trampoline/src/lib.rs on every run by regular expressions; a source shape it does not recognise is a broken tie",
        "translator T3 (gen_abi.py): the specification's view of the namespace (public WAT table, provider exports) is regenerated too",
        "hand transcription of TrampolineCodegen::new/apply and of the walrus calls it makes (imports.find / get_func = first match, add_import_* appends with a fresh arena id, replace_imported_func keeps the function id and deletes its import) in coq/theories/Tramp/Rewrite.v, validated on every run against the real tool (verdict, error class, whole import section of the result, number of generated functions)",
        "walrus 0.24.4 re-encodes function bodies, tables, data, globals and exports faithfully and renumbers memory/function indices after the insertion of the provider memory at index 0: NOT modelled (`rest` is opaque); observed by differential execution of original and rewritten module in wasmtime 38 (results, own-memory hash and size, globals, stub call log after instantiation = start behaviour and after every call)",
        "wasmparser::validate at the end of apply() is not modelled (the model returns Ok where the tool could still answer `Validating output module failed`; the harness reports that verdict as a difference); guests whose own memory is 64-bit (class mem64, which the i32-addressed glue cannot serve) are decided at the property level only: refused, or accepted with a valid result",
    ]
    assumptions = [
        "an API function name imported as a table/global/memory: the property does not say whether that must be refused; the specification accepts either verdict (class EITHER)",
        "idempotence is observed as apply(out) == walrus round trip of out, byte for byte (a plain re-encoding by walrus is not a change made by the tool)",
    ]

    def regen(self):
        vf.build_harness(self.crate)
        gen_nanbox.generate(vf.REPO, os.path.join(vf.COQ, "theories/Gen/NanBoxGen.v"))
        gen_codes.generate(vf.REPO, os.path.join(vf.COQ, "theories/Gen/CodesGen.v"))
        _, a = gen_abi.generate(vf.REPO, os.path.join(vf.COQ, "theories/Gen/AbiGen.v"))
        _, t = gen_tramp.generate(vf.REPO, os.path.join(vf.COQ, "theories/Gen/TrampGen.v"))
        return {"T7": t, "T3": {k: a[k] for k in ("wat", "provider_exports") if k in a}}

    def tools(self):
        return vf.build_harness(self.crate), vf.build_driver()

    def compare(self, d, stats):
        r = super().compare(d, stats)
        # model comparison is on the core of the line (flags are observations of the real artefact only)
        mo = []
        for x in r["model_mismatches"]:
            I = [core(l) for l in x["impl"]]
            M = [l.split(" ", 1)[1] for l in x["model"]]
            if I != M:
                x = dict(x, why=f"the rewrite model answers differently: impl=`{(I[0] if I else '')[-400:]}` model=`{(M[0] if M else '')[-400:]}`")
                x["case"] = [l if not l.startswith("WAT ") else "WAT " + l[4:] for l in x["case"]]
                mo.append(x)
        r["model_mismatches"] = mo
        return r

    def property_failure(self, block, I, S, M):
        if len(I) != 1 or len(S) != 1:
            return f"observation count mismatch ({len(I)} impl, {len(S)} spec)"
        cls = block[0].split()[2] if len(block[0].split()) > 2 else "?"
        b = I[0].split(" ", 1)[1]
        s = S[0].split(" ", 1)[1]
        sv, prefix = s.split(" PREFIX=")
        accepted = b.startswith("V=ACCEPT")
        if not accepted and cls != "mem64" and b.split()[1].startswith(("parse:", "other:", "invalid_output")):
            return f"[{cls}] the tool failed on a valid guest with an error outside its documented refusals: {b[:300]}"
        if sv == "REJECT" and accepted:
            return f"[{cls}] the tool accepted (and rewrote) a module the property says must be refused"
        if sv in ("ACCEPT", "UNCHANGED") and not accepted:
            return f"[{cls}] the tool refused a valid guest: {b[:200]}"
        if accepted:
            flags = dict(f.split("=") for f in b.split(" FLAGS=")[1].split()[0].split(","))
            detail = b.split(" DETAIL", 1)[1][:600] if " DETAIL" in b else ""
            names = {"valid": "the result is not a valid module", "ownmem": "the guest's linear memory is no longer its own defined memory",
                     "exports": "the export list changed", "idem": "applying the tool again changes the module",
                     "unchanged": "a module without a memory of its own was not returned unchanged",
                     "behav": "the guest's own behaviour changed (differential execution original vs rewritten)"}
            for k, v in flags.items():
                if v != "1":
                    return f"[{cls}] {names.get(k, k)}:{detail}"
            if sv == "ACCEPT":
                got = b.split("IMPORTS=")[1].split(" NEWLOCALS")[0]
                if prefix != "-" and not (got + ",").startswith(prefix + ","):
                    return f"[{cls}] the rewritten import section does not start with the original imports renamed/removed as the ABI prescribes (an API import was left under its public name, dropped or reordered)"
        return None

    def match_known(self, d, known):
        for k in known:
            if k["id"] != "F13":
                continue
            # class: the specification's verdict is EITHER (an API function name imported as a non-function) and the only
            # deviation is that the second pass refuses the first pass's output with `expected a function import`
            s = d["spec"][0].split(" ", 1)[1] if d.get("spec") else ""
            b = d["impl"][0].split(" ", 1)[1] if d.get("impl") else ""
            if s.startswith("EITHER ") and b.startswith("V=ACCEPT") and " FLAGS=" in b:
                flags = dict(f.split("=") for f in b.split(" FLAGS=")[1].split()[0].split(","))
                bad = [x for x, v in flags.items() if v != "1"]
                if bad == ["idem"] and "second-pass-error=notfunc" in b:
                    return k
        return None

    def signature(self, d):
        return d["why"].split(":")[0][:90]

    def minimise(self, d):
        return d
