import os, vf
from pbase import Base


class Property(Base):
    prop = "C09"
    comp = "c09"
    coq_targets = ["theories/Properties/C09.vo"]
    theorems = []
    shrink_ops = True
    trusted_base = Base.COMMON_TB + [
        "hand-written model of the Serialize / Deserialize impls (coq/theories/Api/Typed.v: ser over the writer model, deser over the eager wire tree through the Value-level calls; TypedApi.v shows deser inspects the document only through ReadSpec calls, C01 links those to the lazy reader)",
        "the family of concrete Rust types exercised by the harness (harness/src/c09.rs `family`) is a sample of the type universe the theorems quantify over",
        "serde_json::to_value as the oracle for `the JSON value serde would produce` (computed by the harness on the same Rust value)",
    ]
    assumptions = [
        "collections below 2^31 entries, strings below 2^32 bytes; HashMap iteration order is whatever the instance yields (theorems hold for every permutation)",
        "Option<U> with U nullable (unit, Option<_>) is excluded from the round trip (finding F9)",
    ]

    def property_failure(self, block, I, S, M):
        ops = [l for l in block[1:] if l != "END"]
        if len(I) != len(ops) or len(S) != len(ops):
            return f"observation count mismatch ({len(ops)} ops, {len(I)} impl, {len(S)} spec)"
        for op, i, s in zip(ops, I, S):
            bi, bs = i.split(" ", 1)[1], s.split(" ", 1)[1]
            if bi == "PANIC":
                return f"`{op[:100]}` crashed"
            if bi != bs:
                kind = op.split()[0]
                what = {"SER": "serialised output differs from the encoding of the value's JSON tree (or from serde's JSON)", "RT": "round trip did not return the original value", "DE": "deserialisation differs from the typed reading of the document"}[kind]
                return f"`{op[:160]}`: {what}: got `{bi[:160]}`, expected `{bs[:160]}`"
        return None

    def signature(self, d):
        op = d["why"].split("`")[1].split() if "`" in d["why"] else ["?", "?"]
        return f"{op[0]} {op[1] if len(op) > 1 else ''}"

    def minimise(self, d):
        block = d["case"]
        ops = [l for l in block[1:] if l != "END"]
        for op, i, s in zip(ops, d["impl"], d["spec"]):
            if i.split(" ", 1)[1] != s.split(" ", 1)[1]:
                r = self.run_cases([block[0], op, "END"], "-shrink")
                if r["property_failures"]:
                    return r["property_failures"][0]
        return d

    def match_known(self, d, known):
        for k in known:
            if k["id"] == "F9":
                ops = [l for l in d["case"][1:] if l != "END"]
                bad = [(op, i) for op, i, s in zip(ops, d["impl"], d["spec"]) if i.split(" ", 1)[1] != s.split(" ", 1)[1]]
                def in_class(op, i):
                    p = op.split(" ", 2)
                    # a round trip through Option<nullable>: Some(()) / Some(None) somewhere in the value came back as None
                    return p[0] == "RT" and ("opt(unit)" in p[1] or "opt(opt(" in p[1]) and ("S(u)" in p[2] or "S(n)" in p[2]) and " OK " in i
                if bad and all(in_class(op, i) for op, i in bad):
                    return k
        return None
