import os, vf
from pbase import Base


class Property(Base):
    prop = "C04"
    comp = "c04"
    crate = "harness_wasm"
    coq_targets = ["theories/Properties/C04.vo"]
    theorems = []
    shrink_ops = True
    trusted_base = Base.COMMON_TB + [
        "translator T4 (harness_wasm gluegen): the glue code the theorems are about is NOT transcribed - it is regenerated on every run from the output of the real trampoline on a guest importing the whole public API (signatures from api/src/shopify_function.wat), decoded with wasmparser",
        "hand-written semantics of the 16-instruction Wasm subset the trampoline emits (coq/theories/Tramp/WasmMini.v), validated against wasmtime 38 on every run (not against a mechanised Wasm spec: none is installed)",
        "the provider is an oracle about which each theorem assumes only the low-level convention of the one call the glue makes (recorded per theorem in Tramp/GlueSpec.v); C05/C02/C12 show the real provider's model meets them",
        "walrus 0.24.4 keeps function ids stable (replace_imported_func): every call site, table element and re-export of a replaced import reaches the glue - exercised by the w_/t_/r_ routes of the correspondence, not proved",
    ]
    assumptions = [
        "out-of-bounds arguments trap and are outside the theorems' quantifier (the correspondence checks that both sides trap)",
        "log glue: the first copy's destination must not overlap plan words 3 and 4 (they are loaded after the first copy) - C04_log_plan_clobbered_witness shows the convention is necessary; the real provider's return area is not inside the log buffer",
    ]

    def regen(self):
        binary = vf.build_harness(self.crate)
        rc, out = vf.sh([binary, "gluegen", vf.REPO, os.path.join(vf.COQ, "theories/Gen/GlueGen.v")], timeout=300)
        if rc != 0:
            raise vf.Failure("broken_obligation", "T4 could not regenerate the glue from the trampoline's output: " + out.strip().splitlines()[-1][:300], out[-2000:])
        import json
        return json.loads(out.strip().splitlines()[-1])

    def tools(self):
        return vf.build_harness(self.crate), vf.build_driver()

    def property_failure(self, block, I, S, M):
        calls = [l for l in block[1:] if l != "END"]
        if len(I) != len(calls) or len(S) != len(calls):
            return f"observation count mismatch ({len(calls)} calls, {len(I)} observations)"
        for k, (c, i, s) in enumerate(zip(calls, I, S)):
            bi, bs = i.split(" ", 1)[1], s.split(" ", 1)[1]
            if bi.startswith("REJECTED"):
                return f"the trampoline rejected a valid guest: {bi[:200]}"
            if bi != bs:
                return f"call {k} `{c[:140]}`: observed `{bi[:260]}`, the public ABI prescribes `{bs[:260]}`"
        return None

    def signature(self, d):
        w = d["why"]
        if "`" in w:
            c = w.split("`")[1].split()
            return f"{c[2] if len(c) > 2 else '?'} via {c[1] if len(c) > 1 else '?'}"
        return w[:50]

    def match_known(self, d, known):
        for k in known:
            if k["id"] != "F6":
                continue
            calls = [l for l in d["case"][1:] if l != "END"]
            bad = [(c, i, s) for c, i, s in zip(calls, d["impl"], d["spec"]) if i.split(" ", 1)[1] != s.split(" ", 1)[1]]
            def in_class(c, i, s):
                # a REJECTED output string write (status != 0, len > 0) whose only deviation is the copy to the returned low word (0)
                p = c.split()
                if p[2] != "shopify_function_output_new_utf8_str":
                    return False
                length = int(p[3].split(",")[1], 16)
                packed = int(c.split(" ; ")[1].strip(), 16)
                hi, lo = packed >> 32, packed & 0xffffffff
                bi, bs = i.split(" ", 1)[1], s.split(" ", 1)[1]
                if bi == "TRAP" and not bs.startswith("TRAP"):
                    # the same unconditional copy of a REJECTED write, out of range: the source [ptr,ptr+len) reaches past the guest's
                    # 64 KiB memory (or the destination past the provider's), so the copy the ABI says must not happen traps
                    ptr = int(p[3].split(",")[0], 16)
                    return hi != 0 and length > 0 and (ptr + length > 65536 or lo + length > 65536)
                if not (hi != 0 and length > 0 and bi.startswith("RET") and bi.split(" P ")[0] == bs.split(" P ")[0]
                        and bi.split(" LOG ")[1] == bs.split(" LOG ")[1]):
                    return False
                pdiff = bi.split(" P ")[1].split(" LOG ")[0]
                if "FOREIGN" in pdiff:     # a foreign memory was written: never part of the recorded class
                    return False
                for reg in pdiff.split(","):
                    a, hx = reg.split(":")
                    a = int(a, 16)
                    if not (lo <= a and a + len(hx) // 2 <= lo + length):
                        return False
                return True
            if bad and all(in_class(*x) for x in bad):
                return k
        return None
