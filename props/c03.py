import os, subprocess, vf
from pbase import Base
import gen_codes, gen_rs2v


class Property(Base):
    prop = "C03"
    comp = "c03"
    coq_targets = ["theories/Properties/C03.vo"]
    theorems = []
    shrink_ops = True
    trusted_base = Base.COMMON_TB + [
        "translator T2 (translators/gen_codes.py): WriteResult numbering regenerated from core/src/write.rs",
        "translator T8 (translators/rs2v, syn-based Rust-subset -> Gallina): provider/src/write/state.rs is REGENERATED into Gen/StateGen.v on every run; theorems C03_code_* prove the state-machine functions of Write/Writer.v equal to it for all inputs (trusted: the translation scheme of rs2v and Base/RsPrelude.v: usize arithmetic wraps or panics, Vec = list in push order)",
        "translator T8 also regenerates every method of `impl Context` in provider/src/write.rs (Gen/WriteCtxGen.v: which transition each call makes, which bytes it appends, the destination pointer of a string write, the provider's own copy of an interned string); theorems C03_code_ctx_* prove Writer.step equal to it on related contexts",
        "also regenerated and proved equal (C03_code_abi_*): the exported functions shopify_function_output_* of provider/src/write.rs (`bool != 0`, packing of status and pointer into the double-width word) and the native finalize",
        "hand-written: the glue's copy into the returned destination (apply_copy = vec_write at the pointer handed back), the api-side Context::write_* methods and map_result, (coq/theories/Write/Writer.v) and of the rmp 0.8.15 encoders (coq/theories/Msgpack/Rmp.v), tied to the code by the correspondence after EVERY call (status + current output bytes through hook verif_output_bytes)",
        "abstract document builder coq/theories/Write/WSpec.v and token grammar Write/Grammar.v are the specification",
    ]
    assumptions = [
        "theorems hold under the guard 2*len < 2^W for declared object lengths (all lengths < 2^32 at W=64; < 2^31 at W=32): at W=32 `length * 2` overflows in State::finish_object (finding F8, see known_findings.json)",
        "an invalid interned id panics before any state check (string_interner.rs spans[id]); ids are required valid",
        "the host runs the W=64 instance; the W=32 instance of the state machine is exercised under Miri/i686 in the thorough tier when its sysroot is available",
    ]

    def regen(self):
        changed, info = gen_codes.generate(vf.REPO, os.path.join(vf.COQ, "theories/Gen/CodesGen.v"))
        t8 = [gen_rs2v.generate(vf.REPO, n) for n in ("StateGen", "InternGen", "WriteCtxGen")]
        return {"WriteResult": info["WriteResult"], "T8": t8}

    def decode(self, digests):
        """hex outputs -> tree texts through the extracted decoder."""
        driver = vf.build_driver()
        p = subprocess.run([driver, "dectree"], input="\n".join(digests) + "\n", capture_output=True, text=True, timeout=120)
        return p.stdout.splitlines()

    def property_failure(self, block, I, S, M):
        ops = [l for l in block[1:] if l != "END"]
        for l in I:
            if l.endswith(" PANIC") or l.endswith(" ABORT") or l.endswith(" SKIPPED"):
                return "implementation crashed: " + l
        if len(I) != len(ops) or len(S) != len(ops):
            return f"observation count mismatch ({len(ops)} calls, {len(I)} observations)"
        prev_out = "0 -"
        for k, (op, i, s) in enumerate(zip(ops, I, S)):
            pi, ps = i.split(" "), s.split(" ")
            kind = pi[1]
            if kind == "REINIT":
                prev_out = "0 -"
                continue
            if kind == "ID":
                if pi[2] != ps[2]:
                    return f"call {k} `{op[:40]}`: interned id {pi[2]}, expected fresh id {ps[2]}"
                continue
            if pi[2] != ps[2]:
                return f"call {k} `{op[:40]}`: status {pi[2]}, the document grammar demands {ps[2]}"
            out_i = " ".join(pi[3:])
            if kind == "ST":
                if pi[2] != "0" and out_i != prev_out:
                    return f"call {k} `{op[:40]}` was rejected (status {pi[2]}) but changed the output"
                prev_out = out_i
            if kind == "FIN" and pi[2] == "0":
                out_s = " ".join(ps[3:])
                if out_i != out_s:
                    # same tree in a different encoding is a model-level difference only
                    hi, hs = pi[4] if len(pi) > 4 else "", ps[4] if len(ps) > 4 else ""
                    if hi.startswith("#") or hs.startswith("#"):
                        return f"call {k} FIN: completed output differs from the encoding of the written tree (large output, digests {out_i[:60]} vs {out_s[:60]})"
                    ti, ts = self.decode([hi, hs])
                    if ti != ts:
                        return f"call {k} FIN: completed output decodes to {ti[:150]}, the accepted calls describe {ts[:150]}"
            if kind == "FIN" and pi[2] != "0" and len(pi) > 3 and pi[3] != "0":
                return f"call {k} FIN: refused (status {pi[2]}) but returned bytes"
        return None

    def signature(self, d):
        w = d["why"]
        for key in ("status", "rejected", "FIN", "crashed", "interned"):
            if key in w:
                return key + ":" + (w.split("`")[1].split()[0] if "`" in w else "")
        return w[:40]

    def match_known(self, d, known):
        return None
