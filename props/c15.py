import os, vf
from pbase import Base
import gen_abi, gen_nanbox, gen_codes


class Property(Base):
    prop = "C15"
    comp = "c15"
    crate = "harness_wasm"
    coq_targets = ["theories/Properties/C15.vo"]
    theorems = ["C15"]
    trusted_base = Base.COMMON_TB[:2] + [
        "translator T3 (translators/gen_abi.py + harness_wasm abigen) IS the trusted part: it parses the public WAT (wat/wasmparser), compiles the C header now with clang --target=wasm32 and reads the import section, parses the Rust extern block and the provider's decorate_for_target!/#[export_name] items with regular expressions and maps Rust types to Wasm value types, probes the REAL TrampolineCodegen::apply for what it accepts/rejects/emits, and reads the README/header code tables; T1/T2 supply the core enums",
        "the theorem is a finite computation (vm_compute) over the regenerated tables: exhaustive over 19 functions x 5 artefacts, the emitted low-level imports and 4 code tables",
    ]
    assumptions = ["Rust->Wasm type mapping: usize/pointers/u32/i32/WriteResult/InternedStringId -> i32, Val/DoubleUsize -> i64 (wasm32), f64 -> f64"]

    def tools(self):
        return vf.build_harness(self.crate), None

    def regen(self):
        vf.build_harness(self.crate)
        gen_nanbox.generate(vf.REPO, os.path.join(vf.COQ, "theories/Gen/NanBoxGen.v"))
        gen_codes.generate(vf.REPO, os.path.join(vf.COQ, "theories/Gen/CodesGen.v"))
        changed, info = gen_abi.generate(vf.REPO, os.path.join(vf.COQ, "theories/Gen/AbiGen.v"))
        self.info = info
        return info

    def correspond(self, tier, seed):
        # the whole domain is finite and is decided inside Coq on the regenerated tables; the "cases" are the table rows
        info = getattr(self, "info", None) or self.regen()
        n = info["wat"] + info["header"] + info["rust"] + info["trampoline_accepts"] + info["provider_exports"]
        stats = {"evaluations": n, "distinct_nontrivial": info["wat"], "cases": 5, "exhaustive": True,
                 "rule": "every function of the ABI in each of the five artefacts (WAT, header compiled now, Rust extern block, trampoline probes, provider exports), the emitted low-level imports and the code tables; the comparison itself is the Coq computation abi_consistent = true",
                 "tables": info}
        return {"stats": stats, "property_failures": [], "model_mismatches": [], "samples": [{"modules": info["modules"]}]}

    def search(self, tier, seed, broken, model_only):
        """A broken C15 obligation is a finite disagreement: name it by evaluating each clause."""
        out = []
        rc, txt = vf.sh(["coqc", "-Q", "theories", "SFV", os.path.join(vf.COQ, "pins", "C15_diag.v")], cwd=vf.COQ, timeout=300)
        for line in txt.splitlines():
            if "= false" in line or "false" in line:
                out.append(line.strip())
        if "false" in txt:
            return {"case": ["(the regenerated tables of coq/theories/Gen/AbiGen.v)"], "impl": [], "model": [], "spec": [],
                    "why": "the ABI descriptions disagree: " + " | ".join(l for l in txt.split("\n") if l.strip())[:1500]}
        return None

    def replay(self, body):
        self.regen()
        try:
            vf.coq_build(self.coq_targets)
            return False
        except vf.Failure:
            return True
