import c03


class Property(c03.Property):
    prop = "C02"
    comp = "c02"
    coq_targets = ["theories/Properties/C02.vo"]
    assumptions = c03.Property.assumptions + [
        "buffer reallocation and the pointer handed out for the string copy are runtime facts; the harness drives output sizes across the 1 KiB .. 1 MiB growth points and copies through the returned pointer",
        "`no byte from an earlier invocation` is C13's reset plus C02_accepted_only (the output is a function of the accepted tokens)",
    ]
