import vf
import c14, gen_rs2v


class Property(c14.Property):
    prop = "C12"
    comp = "c12"
    coq_targets = ["theories/Properties/C12.vo"]
    what = "the same script with the original bytes instead of interned ids"
    assumptions = [
        "an id that was never returned panics in string_interner.rs (spans[id]); scripts only use ids they obtained",
    ]

    trusted_base = c14.Property.trusted_base + [
        "translator T8 (translators/rs2v): StringInterner::preallocate and ::get of provider/src/string_interner.rs are REGENERATED into Gen/InternGen.v on every run; C12_code_preallocate / C12_code_get / C12_code_get_reachable prove the interner model (Ctx/Interner.v) equal to them (trusted: the translation scheme of rs2v, Base/RsPrelude.v: Vec = list in push order, index/slice bounds as panics, buf[offset..].as_ptr() = the offset)",
    ]

    def regen(self):
        info = super().regen()
        info["T8"] = gen_rs2v.generate(vf.REPO, "InternGen")
        return info
