import c14


class Property(c14.Property):
    prop = "C12"
    comp = "c12"
    coq_targets = ["theories/Properties/C12.vo"]
    what = "the same script with the original bytes instead of interned ids"
    assumptions = [
        "an id that was never returned panics in string_interner.rs (spans[id]); scripts only use ids they obtained",
    ]
