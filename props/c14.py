import os, vf
from pbase import Base
import gen_statics, gen_log


class Property(Base):
    prop = "C14"
    comp = "c14"
    kind = "c14"
    coq_targets = ["theories/Properties/C14.vo", "theories/Ctx/StaticsOk.vo"]
    theorems = []
    shrink_ops = True
    trusted_base = Base.COMMON_TB + [
        "translator T5 (translators/gen_statics.py): every static / static mut / thread_local! item of provider/src and api/src with its placement and mutability, the fields of struct Context and what initialize_from_msgpack_bytes keeps, regenerated from the source; the C14 theorem is instantiated with the placement the table gives to LOG_RET_AREA and its hypothesis all_mutable_thread_local is decided by vm_compute on the table (Ctx/StaticsOk.v)",
        "hand-written per-thread context and thread-world models (coq/theories/Ctx/Context.v, Threads.v) over the reader, writer, ring and interner models; tied to the code by running real OS threads under a baton scheduler",
    ]
    assumptions = [
        "true data races / weak memory are not exhibited by a baton scheduler (one thread runs at a time); the model is sequentially consistent",
        "steps are provider-level calls; the glue's copy is a separate step from the call that hands back the destination or plan",
    ]

    def regen(self):
        c1, i1 = gen_statics.generate(vf.REPO, os.path.join(vf.COQ, "theories/Gen/StaticsGen.v"))
        c2, i2 = gen_log.generate(vf.REPO, os.path.join(vf.COQ, "theories/Gen/LogGen.v"))
        return {"statics": i1["statics"], "context_fields": i1["context_fields"], "kept_on_init": i1["kept_on_init"]}

    def erase(self, line):
        return line

    def property_failure(self, block, I, S, M):
        for l in I:
            if l.endswith(" PANIC") or l.endswith(" ABORT") or l.endswith(" SKIPPED"):
                return "implementation crashed: " + l
        steps = [l for l in block[1:] if l != "END"]
        if len(I) != len(steps) or len(S) != len(steps):
            return f"observation count mismatch ({len(steps)} steps, {len(I)} observations)"
        for k, (st, i, s) in enumerate(zip(steps, I, S)):
            if self.erase(i) != s:
                return f"step {k} `{st[:60]}`: observed `{i.split(' ', 2)[2][:120]}`, {self.what} gives `{s.split(' ', 2)[2][:120]}`"
        return None

    what = "the same thread running alone"

    def signature(self, d):
        w = d["why"]
        return (w.split("`")[1].split()[2] if "`" in w and len(w.split("`")[1].split()) > 2 else w[:30]) + " differs"
