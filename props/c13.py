import re
import c14


class Property(c14.Property):
    prop = "C13"
    comp = "c13"
    coq_targets = ["theories/Properties/C13.vo"]
    what = "the same invocation on a fresh thread"
    assumptions = [
        "ids of strings interned in earlier invocations deliberately survive: observations are compared up to id values (theorem C13) – the exact shift is theorem C13_shift",
        "the api-level id cache (INTERNED_STRING_CACHE) is per thread and also survives, by design",
    ]

    def erase(self, line):
        return re.sub(r" ID \d+$", " ID *", line)
