"""Shared machinery of ./check: regeneration, Coq build + pins, harness/driver build, correspondence
diff, known findings, evidence and replay files."""
import fcntl, hashlib, json, os, re, subprocess, sys, time, glob, shutil

VERIF = os.path.dirname(os.path.dirname(os.path.abspath(__file__)))
REPO = os.environ.get("VERIF_REPO", "/repo")
CACHE = os.path.join(VERIF, ".cache")
COQ = os.path.join(VERIF, "coq")
GUARD = "shopify_function_verif"
TOOLCHAIN = "stable-x86_64-unknown-linux-gnu"

sys.path.insert(0, os.path.join(VERIF, "translators"))

ALLOWED_AXIOMS = set()  # none: every property theorem must be closed under the global context

FORBIDDEN = re.compile(
    r"\b(Admitted|admit|Axiom|Axioms|Parameter|Parameters|Conjecture|Conjectures|Admit\s+Obligations|"
    r"Unset\s+Guard\s+Checking|Unset\s+Positivity\s+Checking|Unset\s+Universe\s+Checking|bypass_check|"
    r"type-in-type|impredicative-set|native_compute)\b")


def env():
    e = dict(os.environ)
    e["RUSTUP_TOOLCHAIN"] = TOOLCHAIN
    e["CARGO_NET_OFFLINE"] = "true"
    e["CARGO_TARGET_DIR"] = os.path.join(CACHE, "target")
    e["RUSTFLAGS"] = f"--cfg {GUARD}"
    e.pop("RUST_BACKTRACE", None)
    return e


class Lock:
    def __init__(self, name="build"):
        os.makedirs(CACHE, exist_ok=True)
        self.path = os.path.join(CACHE, name + ".lock")
    def __enter__(self):
        self.f = open(self.path, "w")
        fcntl.flock(self.f, fcntl.LOCK_EX)
        return self
    def __exit__(self, *a):
        fcntl.flock(self.f, fcntl.LOCK_UN)
        self.f.close()


def sh(cmd, cwd=None, timeout=1800, env_=None, stdin=None):
    """Run a command; return (rc, stdout+stderr)."""
    try:
        p = subprocess.run(cmd, cwd=cwd, env=env_ or env(), timeout=timeout, input=stdin,
                           stdout=subprocess.PIPE, stderr=subprocess.STDOUT, text=True,
                           shell=isinstance(cmd, str))
        return p.returncode, p.stdout
    except subprocess.TimeoutExpired as e:
        return 124, (e.stdout or "") + "\nTIMEOUT after %ds" % timeout


class Failure(Exception):
    """A broken obligation / tie (not yet a concrete failing input)."""
    def __init__(self, kind, what, detail=""):
        super().__init__(what)
        self.kind, self.what, self.detail = kind, what, detail


# ----------------------------------------------------------------------------- Coq

def strip_comments(src):
    out, depth, i = [], 0, 0
    while i < len(src):
        if src.startswith("(*", i):
            depth += 1; i += 2
        elif src.startswith("*)", i) and depth > 0:
            depth -= 1; i += 2
        else:
            if depth == 0:
                out.append(src[i])
            i += 1
    return "".join(out)


def scan_forbidden():
    """Obligation: no Admitted/admit/Axiom/Parameter/... anywhere in the development."""
    bad = []
    for f in sorted(glob.glob(os.path.join(COQ, "**", "*.v"), recursive=True)):
        code = strip_comments(open(f).read())
        code = re.sub(r'"[^"]*"', '""', code)
        for m in FORBIDDEN.finditer(code):
            bad.append(f"{os.path.relpath(f, VERIF)}: {m.group(0)}")
    if os.path.exists(os.path.join(COQ, "_CoqProject")):
        proj = open(os.path.join(COQ, "_CoqProject")).read()
        for w in ("type-in-type", "impredicative-set", "-vos", "-vok"):
            if w in proj:
                bad.append(f"_CoqProject: {w}")
    return bad


def coq_makefile():
    mk = os.path.join(COQ, "Makefile")
    cp = os.path.join(COQ, "_CoqProject")
    if not os.path.exists(mk) or os.path.getmtime(mk) < os.path.getmtime(cp):
        rc, out = sh(["coq_makefile", "-f", "_CoqProject", "-o", "Makefile"], cwd=COQ, timeout=120)
        if rc != 0:
            raise Failure("broken_obligation", "coq_makefile failed", out)


def coq_build(targets, timeout=2400):
    """Full .vo build of the given targets (relative to coq/), never -vos."""
    with Lock("coq"):
        coq_makefile()
        t0 = time.time()
        rc, out = sh(["make", "-j16"] + targets, cwd=COQ, timeout=timeout)
        if rc != 0:
            tail = "\n".join(out.splitlines()[-40:])
            m = re.search(r'File "\./([^"]+)", line (\d+)', out)
            where = f"{m.group(1)}:{m.group(2)}" if m else "?"
            raise Failure("broken_obligation", f"Coq build failed at {where}", tail)
        return time.time() - t0


def coqchk_all(timeout=4 * 3600):
    """coqchk -o over every Properties module (hence the whole development); cached by the content hash of all .v files."""
    h = hashlib.sha256()
    for f in sorted(glob.glob(os.path.join(COQ, "theories", "**", "*.v"), recursive=True)):
        h.update(f.encode()); h.update(open(f, "rb").read())
    key = h.hexdigest()
    stamp = os.path.join(CACHE, "coqchk.json")
    if os.path.exists(stamp):
        st = json.load(open(stamp))
        if st.get("hash") == key and st.get("ok"):
            return f"coqchk -o on this exact development (cached verdict, the run took {st.get('seconds')} s): Axioms: <none>; no type-in-type, unsafe fixpoints or assumed positivity"
    with Lock("coqchk"):
        if os.path.exists(stamp):
            st = json.load(open(stamp))
            if st.get("hash") == key and st.get("ok"):
                return f"coqchk -o on this exact development (cached verdict, the run took {st.get('seconds')} s): Axioms: <none>; no type-in-type, unsafe fixpoints or assumed positivity"
        coq_build([])
        mods = ["SFV.Properties." + os.path.basename(f)[:-2] for f in sorted(glob.glob(os.path.join(COQ, "theories", "Properties", "*.v")))]
        t0 = time.time()
        rc, out = sh(["coqchk", "-o", "-silent", "-Q", "theories", "SFV"] + mods, cwd=COQ, timeout=timeout)
        if rc != 0:
            raise Failure("broken_obligation", "coqchk rejects the compiled development (or did not finish)", out[-3000:])
        m = re.search(r"\* Axioms:(.*?)\n\s*\n", out + "\n\n", re.S)
        ax = " ".join((m.group(1) if m else "?").split())
        flat = " ".join(out.split())
        bad = [k for k in ("type-in-type: <none>", "unsafe (co)fixpoints: <none>", "positivity is assumed: <none>") if k not in flat]
        if ax != "<none>" or bad:
            raise Failure("broken_obligation", f"coqchk reports axioms or disabled checks: axioms={ax} {bad}", out[-3000:])
        secs = round(time.time() - t0)
        json.dump({"hash": key, "ok": True, "seconds": secs, "modules": mods}, open(stamp, "w"))
        return f"coqchk -o on the whole development ({len(mods)} property modules and everything they depend on, {secs} s): Axioms: <none>; no type-in-type, unsafe fixpoints or assumed positivity"


def pins_output(prop):
    pin = os.path.join(COQ, "pins", prop + ".v")
    outdir = os.path.join(CACHE, "pins")
    os.makedirs(outdir, exist_ok=True)
    rc, out = sh(["coqc", "-Q", "theories", "SFV", "-o", os.path.join(outdir, prop + ".vo"), pin], cwd=COQ, timeout=900)
    if rc != 0:
        raise Failure("broken_obligation", f"pinned theorems of {prop} no longer check (coq/pins/{prop}.v)",
                      "\n".join(out.splitlines()[-30:]))
    stmts, assum = {}, {}
    cur, kind, buf = None, None, []
    def flush():
        if cur is not None:
            (stmts if kind == "T" else assum)[cur] = " ".join(" ".join(buf).split())
    for line in out.splitlines():
        m = re.match(r"@@(THEOREM|ASSUMPTIONS|END)\s*(\S*)", line)
        if m:
            flush(); buf = []
            cur, kind = (m.group(2), "T" if m.group(1) == "THEOREM" else "A") if m.group(1) != "END" else (None, None)
        else:
            buf.append(line)
    return stmts, assum


def run_pins(prop):
    """Compile coq/pins/<prop>.v. For every pinned theorem: the printed statement must equal the golden
    one (coq/pins/<prop>.golden) and Print Assumptions must report closure (or allowed axioms only).
    Returns list of (theorem, ok, detail)."""
    stmts, assum = pins_output(prop)
    gpath = os.path.join(COQ, "pins", prop + ".golden")
    golden = json.load(open(gpath)) if os.path.exists(gpath) else {}
    res = []
    for th in sorted(set(golden) | set(stmts)):
        if th not in stmts:
            res.append((th, False, "pinned theorem no longer exists")); continue
        if th not in golden:
            res.append((th, False, "theorem is not in the golden file (run ./check relock)")); continue
        if golden[th] != stmts[th]:
            res.append((th, False, "statement differs from the pinned one")); continue
        a = assum.get(th, "")
        if a.startswith("Closed under the global context"):
            res.append((th, True, "statement as pinned; closed under the global context"))
        else:
            names = re.findall(r"([A-Za-z0-9_'.]+)\s*:", a)
            extra = [n for n in names if n not in ALLOWED_AXIOMS]
            res.append((th, not extra and bool(a), "axioms: " + (", ".join(names) or a[:100])))
    return res


def statements_lock_check(prop):
    lock = os.path.join(VERIF, "statements.lock")
    want = {}
    if os.path.exists(lock):
        for line in open(lock):
            if line.strip():
                h, f = line.split()
                want[f] = h
    bad = []
    files = [f"coq/theories/Properties/{prop}.v", f"coq/pins/{prop}.v", f"coq/pins/{prop}.golden"]
    if os.path.exists(os.path.join(VERIF, f"coq/theories/Properties/{prop}v.v")):
        files.append(f"coq/theories/Properties/{prop}v.v")
    for f in files:
        p = os.path.join(VERIF, f)
        h = hashlib.sha256(open(p, "rb").read()).hexdigest()
        if want.get(f) != h:
            bad.append(f)
    return bad


def regen_all():
    """Regenerate every generated model part from /repo (a mutant run may have left stale Gen/*.v behind)."""
    import importlib
    sys.path.insert(0, os.path.join(VERIF, "props"))
    for f in sorted(glob.glob(os.path.join(VERIF, "props", "c[0-9][0-9].py"))):
        importlib.import_module(os.path.basename(f)[:-3]).Property().regen()


def relock():
    regen_all()
    coq_build([])
    lines = []
    for pin in sorted(glob.glob(os.path.join(COQ, "pins/*.v"))):
        prop = os.path.basename(pin)[:-2]
        stmts, _ = pins_output(prop)
        json.dump(stmts, open(os.path.join(COQ, "pins", prop + ".golden"), "w"), indent=1, sort_keys=True)
    for f in sorted(glob.glob(os.path.join(COQ, "theories/Properties/*.v")) + glob.glob(os.path.join(COQ, "pins/*.v")) + glob.glob(os.path.join(COQ, "pins/*.golden"))):
        lines.append(hashlib.sha256(open(f, "rb").read()).hexdigest() + " " + os.path.relpath(f, VERIF))
    open(os.path.join(VERIF, "statements.lock"), "w").write("\n".join(lines) + "\n")


# ----------------------------------------------------------------------------- driver / harness

def build_driver():
    """Extract the models (ExtrOcamlBasic only) and build the OCaml driver. Cached on input hashes."""
    # the .vo files of every module named in Extract.v must be current (a regenerated Gen/*.v makes dependants stale)
    ex = open(os.path.join(COQ, "Extract.v")).read()
    mods = re.search(r"From SFV Require Import (.*?)\.\n", ex, re.S).group(1).split()
    coq_build(["theories/" + m.replace(".", "/") + ".vo" for m in mods])
    with Lock("ocaml"):
        d = os.path.join(CACHE, "ocaml")
        os.makedirs(d, exist_ok=True)
        h = hashlib.sha256()
        for f in sorted(glob.glob(os.path.join(COQ, "theories", "**", "*.v"), recursive=True)) + \
                [os.path.join(COQ, "Extract.v"), os.path.join(VERIF, "ocaml", "driver.ml")]:
            h.update(f.encode()); h.update(open(f, "rb").read())
        stamp = os.path.join(d, "stamp")
        if os.path.exists(stamp) and open(stamp).read() == h.hexdigest() and os.path.exists(os.path.join(d, "driver")):
            return os.path.join(d, "driver")
        for f in glob.glob(os.path.join(d, "*")):
            os.remove(f)
        rc, out = sh(["coqc", "-Q", os.path.join(COQ, "theories"), "SFV", "-o", os.path.join(d, "Extract.vo"),
                      os.path.join(COQ, "Extract.v")], cwd=d, timeout=600)
        if rc != 0:
            raise Failure("broken_correspondence", "extraction failed", out[-3000:])
        shutil.copy(os.path.join(VERIF, "ocaml", "driver.ml"), d)
        rc, out = sh("ocamlfind ocamlopt -O2 -w -a $(ocamlfind ocamldep -sort *.mli *.ml) -o driver", cwd=d, timeout=600)
        if rc != 0:
            raise Failure("broken_correspondence", "OCaml driver build failed", out[-3000:])
        open(stamp, "w").write(h.hexdigest())
        return os.path.join(d, "driver")


def build_harness(crate="harness", profile="release"):
    """Build the Rust harness against /repo's current working tree with hooks enabled."""
    with Lock("cargo"):
        cdir = os.path.join(VERIF, crate)
        shutil.copy(os.path.join(REPO, "Cargo.lock"), os.path.join(cdir, "Cargo.lock")) if not os.path.exists(os.path.join(cdir, "Cargo.lock")) else None
        cmd = ["cargo", "build", "--offline", "-q"] + (["--release"] if profile == "release" else [])
        rc, out = sh(cmd, cwd=cdir, timeout=1800)
        if rc != 0:
            errs = [l for l in out.splitlines() if l.startswith("error")]
            raise Failure("broken_correspondence", f"{crate} no longer builds against /repo ({errs[:1]})",
                          "\n".join(out.splitlines()[-60:]))
        name = "sfv_harness" if crate == "harness" else "sfv_" + crate
        return os.path.join(CACHE, "target", profile if profile == "release" else "debug", name)


def run_dir(prop, tag=""):
    d = os.path.join(CACHE, "run", prop + tag)
    shutil.rmtree(d, ignore_errors=True)
    os.makedirs(d)
    return d


def run_harness(binary, comp, seed, tier, outdir, extra=(), timeout=1800):
    rc, out = sh([binary, comp, "--seed", str(seed), "--tier", tier, "--out", outdir] + list(extra), timeout=timeout)
    if rc != 0:
        raise Failure("broken_correspondence", f"harness {comp} exited with {rc}", out[-3000:])
    return json.load(open(os.path.join(outdir, "stats.json")))


def _big_stack():
    import resource
    try:
        resource.setrlimit(resource.RLIMIT_STACK, (resource.RLIM_INFINITY, resource.RLIM_INFINITY))
    except Exception:
        pass


def run_driver(driver, comp, outdir, timeout=1800, cases="cases.txt", model="model.txt", shards=16):
    """Run the extracted model on the case file; the file is split into shards of whole CASE blocks
    (balanced by size) that run in parallel, outputs are concatenated in case order."""
    path = os.path.join(outdir, cases)
    blocks, cur = [], []
    with open(path) as f:
        for l in f:
            cur.append(l)
            if l.strip() == "END":
                blocks.append(cur); cur = []
    if cur:
        blocks.append(cur)
    nsh = max(1, min(shards, len(blocks)))
    # greedy balance by squared block size (the list-based model is superlinear in document size)
    order = sorted(range(len(blocks)), key=lambda i: -sum(len(x) for x in blocks[i]))
    loads, assign = [0] * nsh, [[] for _ in range(nsh)]
    for i in order:
        k = loads.index(min(loads))
        w = sum(len(x) for x in blocks[i])
        # documents the model is not run on (class `huge`) only cost their size
        nomodel = blocks[i][0].split()[-1:] == ["huge"]
        loads[k] += w if nomodel else w * w // 1000 + w
        assign[k].append(i)
    procs = []
    for k in range(nsh):
        sp = os.path.join(outdir, f"shard{k}.txt")
        with open(sp, "w") as f:
            for i in sorted(assign[k]):
                f.writelines(blocks[i])
        so = open(os.path.join(outdir, f"shard{k}.out"), "w")
        procs.append((subprocess.Popen([driver, comp, sp], stdout=so, stderr=subprocess.PIPE, text=True, preexec_fn=_big_stack), so, k))
    t0 = time.time()
    outs = {}
    for p, so, k in procs:
        try:
            _, err = p.communicate(timeout=max(1, timeout - (time.time() - t0)))
        except subprocess.TimeoutExpired:
            for q, _, _ in procs:
                q.kill()
            raise Failure("broken_correspondence", f"model driver {comp} timed out after {timeout}s")
        so.close()
        if p.returncode != 0:
            raise Failure("broken_correspondence", f"model driver {comp} exited with {p.returncode}", (err or "")[-3000:])
    # merge in case order: every output line is "<M|S> <case id> ..."
    per_case = {}
    for k in range(nsh):
        with open(os.path.join(outdir, f"shard{k}.out")) as f:
            for l in f:
                cid = l.split(" ", 2)[1]
                per_case.setdefault(cid, []).append(l)
    with open(os.path.join(outdir, model), "w") as f:
        for b in blocks:
            cid = b[0].split()[1]
            f.writelines(per_case.get(cid, []))


def read_lines(path):
    with open(path) as f:
        return [l.rstrip("\n") for l in f]


def split_model(lines):
    m = [l[2:] for l in lines if l.startswith("M ")]
    s = [l[2:] for l in lines if l.startswith("S ")]
    return m, s


def case_blocks(path):
    """cases.txt -> {case id: [lines]} ; a block starts with `CASE <id> ...` and ends with END."""
    blocks, cur, cid = {}, None, None
    for l in read_lines(path):
        if l.startswith("CASE "):
            cid = l.split()[1]; cur = [l]
        elif cur is not None:
            cur.append(l)
            if l == "END":
                blocks[cid] = cur; cur = None
    return blocks


def group_by_case(lines):
    g = {}
    for l in lines:
        k = l.split(" ", 1)[0]
        g.setdefault(k, []).append(l)
    return g


# ----------------------------------------------------------------------------- findings / evidence / replay

def known_findings(prop):
    p = os.path.join(VERIF, "known_findings.json")
    if not os.path.exists(p):
        return []
    return [k for k in json.load(open(p)) if k["property"] == prop]


def write_replay(prop, kind, body):
    os.makedirs(os.path.join(VERIF, "replays"), exist_ok=True)
    h = hashlib.sha256(json.dumps(body, sort_keys=True).encode()).hexdigest()[:10]
    path = os.path.join(VERIF, "replays", f"{prop}-{kind}-{h}.json")
    body = dict(body)
    body.update({"property": prop, "kind": kind, "replay_cmd": f"./check {prop} --replay {os.path.relpath(path, VERIF)}"})
    json.dump(body, open(path, "w"), indent=1)
    return path


def write_evidence(prop, tier, seed, coverage, assumptions, wall, violations):
    os.makedirs(os.path.join(VERIF, "evidence"), exist_ok=True)
    ev = {"property_id": prop, "tier": tier, "seed": seed, "level": "proof", "coverage": coverage,
          "assumptions": assumptions, "wall_s": round(wall, 2), "violations": violations}
    json.dump(ev, open(os.path.join(VERIF, "evidence", prop + ".json"), "w"), indent=1)
