"""The REAL crates at pointer width 32: the reader harness (`sfv_harness reader-child`, REPLAY protocol) is
run under Miri for i686-unknown-linux-gnu (target_pointer_width = "32": Val = u64, inline length limit
2^14-1, i.e. the layout that ships as Wasm).  Used by C11 (and available to C06/C01) for the branches that
cannot be reached on the 64-bit host.  Also a small independent oracle (eager decode in Python) for the
fixed documents of that stage, because the list-based Coq model is too slow on 16384-element containers."""
import os, struct, subprocess
import vf

SYSROOT = os.path.join(vf.CACHE, "miri-sysroot")
TARGET = "i686-unknown-linux-gnu"
LIMIT = (1 << 14) - 1


def miri_env():
    e = dict(os.environ)
    e.update({"MIRI_SYSROOT": SYSROOT, "CARGO_NET_OFFLINE": "true", "CARGO_TARGET_DIR": os.path.join(vf.CACHE, "target-miri"),
              "RUSTFLAGS": f"--cfg {vf.GUARD}", "MIRIFLAGS": "-Zmiri-permissive-provenance -Zmiri-ignore-leaks -Zmiri-disable-isolation -Zmiri-disable-stacked-borrows"})
    e.pop("RUSTUP_TOOLCHAIN", None)
    e.pop("RUST_BACKTRACE", None)
    return e


def ensure_sysroot():
    with vf.Lock("miri"):
        if os.path.isdir(os.path.join(SYSROOT, "lib")):
            return
        rc, out = vf.sh(["cargo", "+nightly", "miri", "setup", "--target", TARGET], cwd=os.path.join(vf.VERIF, "harness"), env_=miri_env(), timeout=900)
        if rc != 0:
            raise vf.Failure("broken_correspondence", "the Miri sysroot for i686 (32-bit execution of the real code) could not be built", out[-2000:])


def _parse(stdout, stderr, njobs, ops_out=None):
    res, cur, nops, ops = [], [], 0, []
    for l in stdout.splitlines():
        if l.startswith("OP "):
            nops += 1; ops.append(l[3:])
        elif l.startswith("OB "):
            cur.append(l[3:])
        elif l == "DONE":
            if nops > len(cur):
                cur.append("PANIC")
            res.append(cur); cur = []; nops = 0
            if ops_out is not None:
                ops_out.append(ops)
            ops = []
    if len(res) != njobs:
        # Miri stops at the first undefined behaviour / abort: that is an observation about the code too
        if nops > len(cur):
            cur.append("ABORT: " + " ".join((stderr or "").split())[-300:])
        res.append(cur)
        while len(res) < njobs:
            res.append([])
    return res


def run_reader(jobs, timeout=1500, procs=12):
    """jobs: list of (doc bytes, [op text]) -> list of observation lists (one per job).  The jobs are spread
    over several Miri processes (Miri is an interpreter: ~10^4 times slower than native, single-threaded)."""
    ensure_sysroot()
    ddir = os.path.join(vf.CACHE, "run", "w32-docs")
    os.makedirs(ddir, exist_ok=True)
    cmd = ["cargo", "+nightly", "miri", "run", "--offline", "-q", "--target", TARGET, "--", "reader-child"]
    cwd = os.path.join(vf.VERIF, "harness")
    with vf.Lock("miri"):
        # build once (an empty job list), then run the shards in parallel
        p = subprocess.run(cmd, cwd=cwd, env=miri_env(), input="", capture_output=True, text=True, timeout=timeout)
        if p.returncode != 0:
            raise vf.Failure("broken_correspondence", "the reader harness does not build/run for the 32-bit target under Miri", (p.stderr or "")[-2500:])
        nsh = max(1, min(procs, len(jobs)))
        shards = [[] for _ in range(nsh)]
        order = sorted(range(len(jobs)), key=lambda k: -len(jobs[k][0]) * len(jobs[k][1]))
        for n, k in enumerate(order):
            shards[n % nsh].append(k)
        running = []
        for sh in shards:
            text = ""
            for k in sh:
                path = os.path.join(ddir, f"doc{k}.bin")
                open(path, "wb").write(jobs[k][0])
                text += "REPLAYF 8192 %s %s\n" % (path, ";".join(jobs[k][1]))
            q = subprocess.Popen(cmd, cwd=cwd, env=miri_env(), stdin=subprocess.PIPE, stdout=subprocess.PIPE, stderr=subprocess.PIPE, text=True)
            running.append((q, sh, text))
        import threading
        outs = {}
        def wait(q, sh, text):
            try:
                o, e = q.communicate(text, timeout=timeout)
            except subprocess.TimeoutExpired:
                q.kill(); o, e = q.communicate(); e = (e or "") + " TIMEOUT"
            for k, r in zip(sh, _parse(o, e, len(sh))):
                outs[k] = r
        ths = [threading.Thread(target=wait, args=x) for x in running]
        [t.start() for t in ths]; [t.join() for t in ths]
    return [outs.get(k, []) for k in range(len(jobs))]


# ---------------------------------------------------------------------------- documents and the eager oracle

def enc(v):
    k = v[0]
    if k == "nil":
        return b"\xc0"
    if k == "int":
        assert 0 <= v[1] < 128
        return bytes([v[1]])
    if k == "str":
        s = v[1]; n = len(s)
        h = bytes([0xa0 + n]) if n < 32 and not v[2:] else (bytes([0xd9, n]) if n < 256 and not v[2:] else (b"\xda" + struct.pack(">H", n) if n < 65536 else b"\xdb" + struct.pack(">I", n)))
        return h + s
    if k == "arr":
        n = len(v[1])
        h = bytes([0x90 + n]) if n < 16 else (b"\xdc" + struct.pack(">H", n) if n < 65536 else b"\xdd" + struct.pack(">I", n))
        return h + b"".join(enc(x) for x in v[1])
    if k == "map":
        n = len(v[1])
        h = bytes([0x80 + n]) if n < 16 else (b"\xde" + struct.pack(">H", n) if n < 65536 else b"\xdf" + struct.pack(">I", n))
        return h + b"".join(enc(a) + enc(b) for a, b in v[1])
    raise ValueError(k)


def digest(b):
    if len(b) <= 600:
        return "%d %s" % (len(b), b.hex() if b else "-")
    s, x = 0, 0
    for c in b:
        s = (s * 31 + c) & 0xffffffff
        x = ((((x << 1) | (x >> 7)) & 0xff) ^ c)
    return "%d #%08x.%02x.%s.%s" % (len(b), s, x, b[:24].hex(), b[-24:].hex())


def show(v):
    k = v[0]
    if k == "nil":
        return "VAL NULL"
    if k == "int":
        return "VAL NUM %x" % struct.unpack(">Q", struct.pack(">d", float(v[1])))[0]
    n = len(v[1])
    return "VAL %s %d" % ({"str": "STR", "arr": "ARR", "map": "OBJ"}[k], min(n, LIMIT))


E_NOTOBJ, E_READ, E_OOB, E_NOTIDX = 1, 3, 5, 6


def oracle(tree, ops):
    """What property C11 (and C01) demand: answers of an eager decode, true lengths, inline = min(n, 2^14-1)."""
    ans, out = [], []
    def sc(s):
        if s == "g":
            return None
        k = int(s)
        return ans[k] if k < len(ans) else None
    for op in ops:
        t = op.split()
        node, line = None, None
        if t[0] == "ROOT":
            node = tree; line = show(tree)
        elif t[0] in ("IDX", "AIDX"):
            s, i = sc(t[1]), int(t[2])
            if s is None:
                line = "VAL ERR %d" % (E_READ if t[1] == "g" else E_NOTIDX)
            elif s[0] == "arr":
                if i < len(s[1]): node = s[1][i]; line = show(node)
                else: line = "VAL ERR %d" % E_OOB
            elif s[0] == "map":
                if i < len(s[1]): node = s[1][i][1]; line = show(node)
                else: line = "VAL ERR %d" % E_OOB
            else:
                line = "VAL ERR %d" % E_NOTIDX
        elif t[0] == "KEY":
            s, i = sc(t[1]), int(t[2])
            if s is not None and s[0] == "map":
                if i < len(s[1]): node = s[1][i][0]; line = show(node)
                else: line = "VAL ERR %d" % E_OOB
            else:
                line = "VAL ERR %d" % (E_READ if t[1] == "g" else E_NOTOBJ)
        elif t[0] in ("PROP", "APROP"):
            s, name = sc(t[1]), bytes.fromhex(t[2])
            if s is not None and s[0] == "map":
                hit = [v for k, v in s[1] if k[1] == name]
                if hit: node = hit[0]; line = show(node)
                else: line = "VAL NULL"
            else:
                line = "VAL ERR %d" % E_NOTOBJ
        elif t[0] == "LEN":
            s = sc(t[1])
            line = "LEN %d" % len(s[1]) if s is not None and s[0] in ("str", "arr", "map") else "LEN MAX"
        elif t[0] == "ALEN":
            s = sc(t[1])
            line = "ALEN %d" % len(s[1]) if s is not None and s[0] in ("str", "arr", "map") else "ALEN NONE"
        elif t[0] == "STR":
            s = sc(t[1])
            line = "BYTES " + (s[1].hex() if s[1] else "-") if s is not None and s[0] == "str" else "BYTES NONE"
        elif t[0] == "ASTR":
            s = sc(t[1])
            line = "ABYTES " + digest(s[1]) if s is not None and s[0] == "str" else "ABYTES NONE"
        elif t[0] == "AKEY":
            s, i = sc(t[1]), int(t[2])
            line = "ABYTES " + digest(s[1][i][0][1]) if s is not None and s[0] == "map" and i < len(s[1]) else "ABYTES NONE"
        else:
            raise ValueError(op)
        # only container/string answers are handles; scalars and errors are kept as values too (scope of the wrong kind)
        ans.append(node if line.startswith("VAL") else None)
        out.append(line)
    return out


def run_jobs(lines, timeout=1500, procs=12):
    """Adaptive histories (`JOB seed nops stack dochex pool treeflag -` lines of the reader child) on the 32-bit build:
    returns [(ops, observations)] per line."""
    ensure_sysroot()
    cmd = ["cargo", "+nightly", "miri", "run", "--offline", "-q", "--target", TARGET, "--", "reader-child"]
    cwd = os.path.join(vf.VERIF, "harness")
    with vf.Lock("miri"):
        p = subprocess.run(cmd, cwd=cwd, env=miri_env(), input="", capture_output=True, text=True, timeout=timeout)
        if p.returncode != 0:
            raise vf.Failure("broken_correspondence", "the reader harness does not build/run for the 32-bit target under Miri", (p.stderr or "")[-2500:])
        nsh = max(1, min(procs, len(lines)))
        shards = [[k for k in range(len(lines)) if k % nsh == j] for j in range(nsh)]
        import threading
        outs = {}
        def work(sh):
            q = subprocess.Popen(cmd, cwd=cwd, env=miri_env(), stdin=subprocess.PIPE, stdout=subprocess.PIPE, stderr=subprocess.PIPE, text=True)
            try:
                o, e = q.communicate("".join(lines[k] + "\n" for k in sh), timeout=timeout)
            except subprocess.TimeoutExpired:
                q.kill(); o, e = q.communicate()
            ops = []
            obs = _parse(o, e, len(sh), ops)
            while len(ops) < len(obs):
                ops.append([])
            for k, ob, op in zip(sh, obs, ops):
                outs[k] = (op, ob)
        ths = [threading.Thread(target=work, args=(sh,)) for sh in shards]
        [t.start() for t in ths]; [t.join() for t in ths]
    return [outs.get(k, ([], [])) for k in range(len(lines))]


def c11_cases(thorough=False):
    """(name, tree, ops, model_feasible): sizes just below, at and above the inline limit 2^14-1, through every path.
    Every document is one Miri process (they run in parallel); the quick tier keeps each to a few calls because the
    interpreter needs ~1 minute per 16 KiB string copied through the API."""
    S = lambda n, c=b"s": ("str", bytes((c[0] + k % 7) for k in range(n)))
    nil = ("nil",)
    big = lambda n: ("arr", [("int", k % 100) for k in range(n)])
    bigmap = lambda n: ("map", [(("str", b"k%d" % k), nil) for k in range(n)])
    cases = []
    for n in (LIMIT - 1, LIMIT, LIMIT + 1) + ((LIMIT + 2, 65535, 65536) if thorough else ()):
        cases.append((f"str{n}", S(n), ["ROOT", "LEN 0", "ALEN 0"] + ["ASTR 0"], True))
    for n in (LIMIT, LIMIT + 1):
        key = S(n, b"k")
        ops = ["ROOT", "KEY 0 1", "LEN 1", "AKEY 0 1", "ALEN 1", "ASTR 1"] + (["AKEY 0 0", "IDX 0 1"] if n == LIMIT + 1 else [])
        if thorough:
            ops += ["ALEN 0", "PROP 0 " + key[1].hex(), "APROP 0 " + key[1].hex()]
        cases.append((f"key{n}", ("map", [(("str", b"a"), nil), (key, ("int", 7))]), ops, True))
    n = LIMIT + 1
    cases.append((f"nested-str{n}", ("arr", [("map", [(("str", b"v"), S(n))]), S(n, b"t")]),
                  ["ROOT", "IDX 0 0", "PROP 1 76", "ALEN 2", "AIDX 0 1", "ALEN 4"] + (["ASTR 2", "LEN 2", "ASTR 4"] if thorough else []), True))
    for n in (LIMIT - 1, LIMIT, LIMIT + 1):
        cases.append((f"arr{n}", big(n), ["ROOT", "LEN 0", "ALEN 0", f"IDX 0 {n - 1}", f"AIDX 0 {n - 1}", f"IDX 0 {n}", f"AIDX 0 {n}", f"AIDX 0 {LIMIT - 1}", "LEN 3", "ALEN 3"], False))
    n = LIMIT + 1
    cases.append((f"map{n}a", ("arr", [bigmap(n), nil]), ["ROOT", "IDX 0 0", "LEN 1", "ALEN 1", f"AKEY 1 {n - 1}"], False))
    cases.append((f"map{n}b", ("arr", [bigmap(n), nil]), ["ROOT", "IDX 0 0", f"AIDX 1 {n - 1}", f"KEY 1 {n}", f"IDX 1 {LIMIT}", "IDX 0 1"], False))
    if thorough:
        cases.append((f"map{LIMIT}", ("arr", [bigmap(LIMIT), nil]), ["ROOT", "IDX 0 0", "LEN 1", "ALEN 1", f"AKEY 1 {LIMIT - 1}", f"AIDX 1 {LIMIT - 1}", f"KEY 1 {LIMIT}",
                      "PROP 1 " + (b"k%d" % (LIMIT - 1)).hex(), "APROP 1 " + (b"k%d" % (LIMIT - 1)).hex()], False))
    return cases
