(* Correspondence driver: reads the case file written by the Rust harness, runs the
   Coq-extracted model (and spec) on it, prints one answer per observation.
   Lines starting with "M " are model answers (compared with the implementation verbatim);
   lines starting with "S " are spec answers (the property-level oracle). *)
open Datatypes
module L = Stdlib.List
module St = Stdlib.String

let rec nat_of_int n = if n <= 0 then O else S (nat_of_int (n - 1))
let nat_of_int n = (* tail-recursive *)
  let rec go acc k = if k <= 0 then acc else go (S acc) (k - 1) in ignore nat_of_int; go O n
let int_of_nat n = let rec go acc = function O -> acc | S m -> go (acc + 1) m in go 0 n

let hex_of_list (l : int list) =
  if l = [] then "-" else St.concat "" (L.map (Printf.sprintf "%02x") l)
let bytes_of_hex s =
  if s = "-" then [] else L.init (St.length s / 2) (fun i -> int_of_string ("0x" ^ St.sub s (2*i) 2))

let split s = L.filter (fun x -> x <> "") (St.split_on_char ' ' s)

(* ---------------- C05 ---------------- *)
let msg_bytes len start = L.init len (fun k -> ((start + k) mod 127) + 1)
let rec take n l = if n <= 0 then [] else match l with [] -> [] | x :: r -> x :: take (n-1) r

let c05 ic =
  let cap = ref O and id = ref 0 and st = ref (Ring.init 0 O) and hist = ref [] and api = ref false in
  (try while true do
    let line = input_line ic in
    match split line with
    | ["CASE"; k; c; mode] ->
        id := int_of_string k; cap := nat_of_int (int_of_string c); api := (mode = "api");
        st := Ring.init 0 !cap; hist := []
    | ["MSG"; l; s] ->
        let m = msg_bytes (int_of_string l) (int_of_string s) in
        let (_, p) = Ring.append !cap !st (nat_of_int (L.length m)) in
        st := Ring.log_msg !cap !st m;
        hist := L.rev_append m !hist;
        if !api then Printf.printf "M %d LOGGED\n" !id
        else
          Printf.printf "M %d PLAN %d %d %d %s %d\n" !id (int_of_nat p.Ring.p_so) (int_of_nat p.Ring.p_d1) (int_of_nat p.Ring.p_n1)
            (match p.Ring.p_d2 with None -> "null" | Some d -> string_of_int (int_of_nat d)) (int_of_nat p.Ring.p_n2)
    | ["VIEW"] ->
        Printf.printf "M %d VIEW %s\n" !id (hex_of_list (Ring.host_view !cap !st));
        (* spec: last min(total,cap) bytes of everything logged, computed directly *)
        let total = L.length !hist in
        let k = min total (int_of_nat !cap) in
        Printf.printf "S %d VIEW %s\n" !id (hex_of_list (L.rev (take k !hist)))
    | ["END"] -> ()
    | [] -> ()
    | _ -> failwith ("c05: bad line " ^ line)
  done with End_of_file -> ())

let () =
  let comp = Sys.argv.(1) in
  let ic = if Array.length Sys.argv > 2 then open_in Sys.argv.(2) else stdin in
  match comp with
  | "c05" -> c05 ic
  | _ -> prerr_endline ("unknown component " ^ comp); exit 2
