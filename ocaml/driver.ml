(* Correspondence driver: reads the case file written by the Rust harness, runs the
   Coq-extracted model (and spec) on it, prints one answer per observation.
   Lines starting with "M " are model answers (compared with the implementation verbatim);
   lines starting with "S " are spec answers (the property-level oracle). *)
open Datatypes
module L = Stdlib.List
module St = Stdlib.String

let rec nat_of_int n = if n <= 0 then O else S (nat_of_int (n - 1))
let nat_of_int n = (* tail-recursive *)
  let rec go acc k = if k <= 0 then acc else go (S acc) (k - 1) in ignore nat_of_int; go O n
let int_of_nat n = let rec go acc = function O -> acc | S m -> go (acc + 1) m in go 0 n

let hex_of_list (l : int list) =
  if l = [] then "-" else St.concat "" (L.map (Printf.sprintf "%02x") l)
let bytes_of_hex s =
  if s = "-" then [] else L.init (St.length s / 2) (fun i -> int_of_string ("0x" ^ St.sub s (2*i) 2))

let split s = L.filter (fun x -> x <> "") (St.split_on_char ' ' s)

(* ---------------- C05 ---------------- *)
let msg_bytes len start =
  if start >= 1000 then begin
    let ch = (match start - 1000 with 0 -> [0xc3; 0xa9] | 1 -> [0xe2; 0x82; 0xac] | _ -> [0xf0; 0x9f; 0x98; 0x80]) in
    let k = L.length ch in
    let pad = len mod k in
    L.init len (fun i -> if i < pad then 0x78 else L.nth ch ((i - pad) mod k))
  end else L.init len (fun k -> ((start + k) mod 127) + 1)
let rec take n l = if n <= 0 then [] else match l with [] -> [] | x :: r -> x :: take (n-1) r

let c05 ic =
  let cap = ref O and id = ref 0 and st = ref (Ring.init 0 O) and hist = ref [] and api = ref false in
  (try while true do
    let line = input_line ic in
    match split line with
    | ["CASE"; k; c; mode] ->
        id := int_of_string k; cap := nat_of_int (int_of_string c); api := (mode = "api");
        st := Ring.init 0 !cap; hist := []
    | ["MSG"; l; s] ->
        let m = msg_bytes (int_of_string l) (int_of_string s) in
        let (_, p) = Ring.append !cap !st (nat_of_int (L.length m)) in
        st := Ring.log_msg !cap !st m;
        hist := L.rev_append m !hist;
        if !api then Printf.printf "M %d LOGGED\n" !id
        else
          Printf.printf "M %d PLAN %d %d %d %s %d\n" !id (int_of_nat p.Ring.p_so) (int_of_nat p.Ring.p_d1) (int_of_nat p.Ring.p_n1)
            (match p.Ring.p_d2 with None -> "null" | Some d -> string_of_int (int_of_nat d)) (int_of_nat p.Ring.p_n2)
    | ["VIEW"] ->
        Printf.printf "M %d VIEW %s\n" !id (hex_of_list (Ring.host_view !cap !st));
        (* spec: last min(total,cap) bytes of everything logged, computed directly *)
        let total = L.length !hist in
        let k = min total (int_of_nat !cap) in
        Printf.printf "S %d VIEW %s\n" !id (hex_of_list (L.rev (take k !hist)))
    | ["END"] -> ()
    | [] -> ()
    | _ -> failwith ("c05: bad line " ^ line)
  done with End_of_file -> ())


(* ---------------- N / Z <-> text ---------------- *)
open BinNums
let rec pos_bits p = match p with Coq_xH -> [true] | Coq_xO q -> false :: pos_bits q | Coq_xI q -> true :: pos_bits q
let n_bits = function N0 -> [] | Npos p -> pos_bits p                 (* LSB first *)
let n_of_bits (bits : bool list) : coq_N =                            (* LSB first *)
  let rec strip = function [] -> [] | l -> (match L.rev l with false :: r -> strip (L.rev r) | _ -> l) in
  let rec go = function [] -> assert false | [true] -> Coq_xH | b :: r -> if b then Coq_xI (go r) else Coq_xO (go r) in
  match strip bits with [] -> N0 | l -> Npos (go l)
let hex_of_n (n : coq_N) : string =
  let bits = Array.of_list (n_bits n) in
  let len = Array.length bits in
  if len = 0 then "0" else begin
    let nn = (len + 3) / 4 in
    let b = Buffer.create nn in
    for i = nn - 1 downto 0 do
      let v = ref 0 in
      for j = 3 downto 0 do let k = 4 * i + j in v := !v * 2 + (if k < len && bits.(k) then 1 else 0) done;
      Buffer.add_char b (St.get "0123456789abcdef" !v)
    done; Buffer.contents b end
let n_of_hex (s : string) : coq_N =
  let bits = ref [] in
  St.iter (fun c ->
    let v = int_of_string ("0x" ^ St.make 1 c) in
    bits := (v land 1 = 1) :: (v land 2 = 2) :: (v land 4 = 4) :: (v land 8 = 8) :: !bits) s;
  n_of_bits !bits
let rec pos_of_int (i : int) : positive = if i = 1 then Coq_xH else if i land 1 = 0 then Coq_xO (pos_of_int (i lsr 1)) else Coq_xI (pos_of_int (i lsr 1))
let n_of_int (i : int) : coq_N = if i <= 0 then N0 else Npos (pos_of_int i)
let rec int_of_pos (p : positive) : int = match p with Coq_xH -> 1 | Coq_xO q -> 2 * int_of_pos q | Coq_xI q -> 2 * int_of_pos q + 1
let int_of_n (n : coq_N) : int = match n with N0 -> 0 | Npos p -> int_of_pos p
let big s = n_of_hex (Printf.sprintf "%x" (int_of_string s))
let hex_of_z = function Z0 -> "0" | Zpos p -> hex_of_n (Npos p) | Zneg p -> "-" ^ hex_of_n (Npos p)

let digest (l : coq_N list) : string =
  let a = Array.of_list (L.map int_of_n l) in
  let n = Array.length a in
  let hexr i j = let b = Buffer.create 64 in for k = i to j - 1 do Buffer.add_string b (Printf.sprintf "%02x" a.(k)) done; Buffer.contents b in
  if n <= 600 then Printf.sprintf "%d %s" n (if n = 0 then "-" else hexr 0 n)
  else begin
    let sum = ref 0 and xr = ref 0 in
    Array.iter (fun x -> sum := (!sum * 31 + x) land 0xffffffff; xr := ((((!xr lsl 1) lor (!xr lsr 7)) land 0xff) lxor x)) a;
    Printf.sprintf "%d #%08x.%02x.%s.%s" n !sum !xr (hexr 0 24) (hexr (n - 24) n)
  end


(* ---------------- C06 ---------------- *)
let c06 ic =
  let id = ref 0 and w = ref (n_of_int 64) in
  let show_dec d = match d with
    | NanBox.DPanic -> "PANIC" | NanBox.DErr -> "DECERR"
    | NanBox.DOk v -> (match v with
      | NanBox.VNull -> "NULL" | NanBox.VBool b -> if b then "BOOL 1" else "BOOL 0"
      | NanBox.VNumber b -> "NUM " ^ hex_of_n b
      | NanBox.VString (p, l) -> Printf.sprintf "STR %s %s" (hex_of_n p) (hex_of_n l)
      | NanBox.VObject (p, l) -> Printf.sprintf "OBJ %s %s" (hex_of_n p) (hex_of_n l)
      | NanBox.VArray (p, l) -> Printf.sprintf "ARR %s %s" (hex_of_n p) (hex_of_n l)
      | NanBox.VError c -> "ERROR " ^ hex_of_n c) in
  let both v = Printf.sprintf "BITS %s %s" (hex_of_n v) (show_dec (NanBox.try_decode !w v)) in
  let nmin a b = if BinNat.N.leb a b then a else b in
  (try while true do
    let line = input_line ic in
    match split line with
    | ["CASE"; k; ww] -> id := int_of_string k; w := n_of_int (int_of_string ww)
    | ["ENC"; kind; p; l] ->
        let p = n_of_hex p and l = n_of_hex l in
        let v = (match kind with "STR" -> NanBox.nb_string | "OBJ" -> NanBox.nb_obj | _ -> NanBox.nb_array) !w p l in
        Printf.printf "M %d %s\n" !id (both v);
        (* spec: (kind, pointer, min(len, limit)) comes back *)
        Printf.printf "S %d RT %s %s %s\n" !id kind (hex_of_n p) (hex_of_n (nmin l (NanBoxGen.coq_MAX_VALUE_LENGTH !w)))
    | ["BOOL"; b] -> Printf.printf "M %d %s\n" !id (both (NanBox.nb_bool !w (b = "1"))); Printf.printf "S %d RT BOOL %s\n" !id b
    | ["NULL"] -> Printf.printf "M %d %s\n" !id (both (NanBox.nb_null !w)); Printf.printf "S %d RT NULL\n" !id
    | ["ERR"; c] ->
        let c = n_of_hex c in
        if L.exists (fun (_, v) -> v = c) (NanBoxGen.coq_ErrorCode_variants !w)
        then (Printf.printf "M %d %s\n" !id (both (NanBox.nb_error !w c)); Printf.printf "S %d RT ERROR %s\n" !id (hex_of_n c))
        else (Printf.printf "M %d NOCODE\n" !id; Printf.printf "S %d RT NOCODE\n" !id)
    | ["NUM"; b] ->
        let b = n_of_hex b in
        (match NanBox.nb_number !w b with
         | None -> Printf.printf "M %d NUM-ASSERT\n" !id; Printf.printf "S %d RT NUM-ASSERT\n" !id
         | Some v -> Printf.printf "M %d %s\n" !id (both v); Printf.printf "S %d RT NUM %s\n" !id (hex_of_n b))
    | ["RAW"; v] -> Printf.printf "M %d %s\n" !id (show_dec (NanBox.try_decode !w (n_of_hex v))); Printf.printf "S %d RT ANY\n" !id
    | ["END"] | [] -> ()
    | _ -> failwith ("c06: bad line " ^ line)
  done with End_of_file -> ())

(* ---------------- C10 ---------------- *)
let c10 ic =
  let id = ref 0 and w = ref (n_of_int 64) in
  let ty s = IntDeser.(match s with "i8" -> I8 | "i16" -> I16 | "i32" -> I32 | "i64" -> I64 | "u8" -> U8 | "u16" -> U16
                      | "u32" -> U32 | "u64" -> U64 | "usize" -> Usize | "isize" -> Isize | "echo" -> I32 | _ -> failwith "type") in
  (try while true do
    let line = input_line ic in
    match split line with
    | ["CASE"; k; ww] -> id := int_of_string k; w := n_of_int (int_of_string ww)
    | ["DES"; t; b] ->
        let t = ty t and b = n_of_hex b in
        (match IntDeser.deser_int !w t b with
         | Some z -> Printf.printf "M %d OK %s\n" !id (hex_of_z z)
         | None -> Printf.printf "M %d ERR\n" !id);
        (* spec: exact integer value in range, or rejected *)
        (match F64.exact_int b with
         | Some z when not (BinInt.Z.ltb z (IntDeser.int_min !w t)) && not (BinInt.Z.ltb (IntDeser.int_max !w t) z) -> Printf.printf "S %d OK %s\n" !id (hex_of_z z)
         | _ -> Printf.printf "S %d ERR\n" !id)
    | ["END"] | [] -> ()
    | _ -> failwith ("c10: bad line " ^ line)
  done with End_of_file -> ())


(* ---------------- C01 / C08 / C11: lazy reader ---------------- *)
let nlist_of_hex s = L.map n_of_int (bytes_of_hex s)
let hex_of_nlist l = hex_of_list (L.map int_of_n l)
let z_of_int (i : int) : coq_Z = if i = 0 then Z0 else if i > 0 then (match n_of_int i with Npos p -> Zpos p | N0 -> Z0) else (match n_of_int (-i) with Npos p -> Zneg p | N0 -> Z0)
let z_of_hexmag neg h = match n_of_hex h with N0 -> Z0 | Npos p -> if neg then Zneg p else Zpos p

exception Malformed
(* bytes -> wire tree with formats (OCaml-side decoder used only to hand the spec its argument;
   checked below by re-encoding with the extracted [Wire.enc]) *)
let wire_of_bytes (b : int array) : Wire.wire =
  let n = Array.length b in
  let pos = ref 0 in
  let byte () = if !pos >= n then raise Malformed else (let v = b.(!pos) in incr pos; v) in
  let be k = let v = ref 0 in for _ = 1 to k do v := !v * 256 + byte () done; !v in
  let hexk k = let s = Buffer.create 16 in for _ = 1 to k do Buffer.add_string s (Printf.sprintf "%02x" (byte ())) done; Buffer.contents s in
  let signed k v = if v >= 1 lsl (8 * k - 1) then v - (1 lsl (8 * k)) else v in
  let take k = if !pos + k > n then raise Malformed else (let l = L.init k (fun i -> n_of_int b.(!pos + i)) in pos := !pos + k; l) in
  let rec value () : Wire.wire =
    let m = byte () in
    if m < 0x80 then Wire.WInt (Wire.PFix, z_of_int m)
    else if m < 0x90 then map Wire.LFix (m - 0x80)
    else if m < 0xa0 then arr Wire.LFix (m - 0x90)
    else if m < 0xc0 then Wire.WStr (Wire.FixStr, take (m - 0xa0))
    else if m >= 0xe0 then Wire.WInt (Wire.NFix, z_of_int (m - 256))
    else match m with
      | 0xc0 -> Wire.WNil | 0xc2 -> Wire.WBool false | 0xc3 -> Wire.WBool true
      | 0xca -> Wire.WF32 (n_of_hex (hexk 4)) | 0xcb -> Wire.WF64 (n_of_hex (hexk 8))
      | 0xcc -> Wire.WInt (Wire.U8, z_of_int (be 1)) | 0xcd -> Wire.WInt (Wire.U16, z_of_int (be 2)) | 0xce -> Wire.WInt (Wire.U32, z_of_int (be 4))
      | 0xcf -> Wire.WInt (Wire.U64, z_of_hexmag false (hexk 8))
      | 0xd0 -> Wire.WInt (Wire.I8, z_of_int (signed 1 (be 1))) | 0xd1 -> Wire.WInt (Wire.I16, z_of_int (signed 2 (be 2))) | 0xd2 -> Wire.WInt (Wire.I32, z_of_int (signed 4 (be 4)))
      | 0xd3 -> let h = hexk 8 in let v = Int64.of_string ("0x" ^ h) in
                if Int64.compare v 0L >= 0 then Wire.WInt (Wire.I64, z_of_hexmag false h) else Wire.WInt (Wire.I64, z_of_hexmag true (Printf.sprintf "%Lx" (Int64.neg v)))
      | 0xd9 -> let l = be 1 in Wire.WStr (Wire.Str8, take l) | 0xda -> let l = be 2 in Wire.WStr (Wire.Str16, take l) | 0xdb -> let l = be 4 in Wire.WStr (Wire.Str32, take l)
      | 0xdc -> let l = be 2 in arr Wire.L16 l | 0xdd -> let l = be 4 in arr Wire.L32 l
      | 0xde -> let l = be 2 in map Wire.L16 l | 0xdf -> let l = be 4 in map Wire.L32 l
      | _ -> raise Malformed
  and arr f l = if l > n then raise Malformed else
    let acc = ref [] in for _ = 1 to l do acc := value () :: !acc done; Wire.WArr (f, L.rev !acc)
  and map f l = if l > n then raise Malformed else
    let acc = ref [] in for _ = 1 to l do let k = value () in let v = value () in acc := (k, v) :: !acc done; Wire.WMap (f, L.rev !acc)
  in
  let w = value () in if !pos <> n then raise Malformed else w

let show_out w (o : Lazy.out) : string =
  let inl l = let m = NanBoxGen.coq_MAX_VALUE_LENGTH w in if BinNat.N.leb l m then l else m in
  match o with
  | Lazy.OVal a -> (match a with
      | Lazy.ANull -> "VAL NULL" | Lazy.ABool b -> if b then "VAL BOOL 1" else "VAL BOOL 0"
      | Lazy.ANum b -> "VAL NUM " ^ hex_of_n b
      | Lazy.AStr (_, l) -> Printf.sprintf "VAL STR %d" (int_of_n (inl l))
      | Lazy.AArr (_, l) -> Printf.sprintf "VAL ARR %d" (int_of_n (inl l))
      | Lazy.AObj (_, l) -> Printf.sprintf "VAL OBJ %d" (int_of_n (inl l))
      | Lazy.AErr c -> Printf.sprintf "VAL ERR %d" (int_of_n c))
  | Lazy.OLen (Some l) -> Printf.sprintf "LEN %d" (int_of_n l)
  | Lazy.OLen None -> "LEN MAX"
  | Lazy.OBytes (Some s) -> "BYTES " ^ hex_of_nlist s
  | Lazy.OBytes None -> "BYTES NONE"
  | Lazy.OStray -> "STRAY"
  | Lazy.OPanic _ -> "PANIC"
  | Lazy.OFuel -> "FUEL"

let rop_of_line line : ReadRun.rop option =
  let sc s = if s = "g" then None else Some (n_of_int (int_of_string s)) in
  let big s = n_of_hex (Printf.sprintf "%x" (int_of_string s)) in
  match split line with
  | ["ROOT"] -> Some ReadRun.RRoot
  | ["APROP"; s; n] | ["PROP"; s; n] | ["IPROP"; s; n] -> Some (ReadRun.RProp (sc s, nlist_of_hex n))
  | ["AIDX"; s; i] | ["IDX"; s; i] -> Some (ReadRun.RIdx (sc s, (try big i with _ -> n_of_hex "ffffffffffffffff")))
  | ["KEY"; s; i] -> Some (ReadRun.RKey (sc s, (try big i with _ -> n_of_hex "ffffffffffffffff")))
  | ["LEN"; s] -> Some (ReadRun.RLen (sc s))
  | ["STR"; s] -> Some (ReadRun.RStr (sc s))
  | _ -> None

(* API-level accessors (api/src/lib.rs Value::array_len / obj_len / as_string / get_obj_key_at_index) on top of
   the provider-level model: inline length = min(true, limit); the length query is consulted at the limit *)
type n_opt = coq_N option
type aop = ALen of n_opt | AStr of n_opt | AKey of n_opt * coq_N

let aop_of_line line : aop option =
  let sc s = if s = "g" then None else Some (n_of_int (int_of_string s)) in
  match split line with
  | ["ALEN"; s] -> Some (ALen (sc s)) | ["ASTR"; s] -> Some (AStr (sc s))
  | ["AKEY"; s; i] -> Some (AKey (sc s, (try big i with _ -> n_of_hex "ffffffffffffffff")))
  | _ -> None

let c01 ic =
  let id = ref 0 and w = ref (n_of_int 64) and doc = ref [] and ops = ref [] and cls = ref "" in
  let inl wd l = let m = NanBoxGen.coq_MAX_VALUE_LENGTH wd in if BinNat.N.leb l m then l else m in
  let vlen_of roots sc = match Lazy.get_val_len roots sc with Lazy.OLen x -> x | _ -> None in
  let astr wd bs roots sc : string =
    (match sc with
     | Lazy.SAns (Lazy.AStr (_, l)) ->
         let n = ApiLen.api_str_len wd (inl wd l) (vlen_of roots sc) in
         (match Lazy.read_str bs roots sc n with
          | Lazy.OBytes (Some s) -> "ABYTES " ^ digest s | Lazy.OBytes None -> "ABYTES NONE" | Lazy.OStray -> "STRAY" | _ -> "PANIC")
     | _ -> "ABYTES NONE") in
  let flush_case () =
    let bs = !doc in
    let opl = L.rev !ops in
    let fuel = nat_of_int (4 * L.length bs + 64) in
    let has_api = L.exists (function `A _ -> true | `R _ -> false) opl in
    (* model: step by step (not on the `huge` class: the list-based model is quadratic; those cases are decided against the spec) *)
    let st = ref ReadRun.rinit in
    if !cls = "huge" then Printf.printf "M %d NOMODEL\n" !id else
    L.iter (fun op ->
      match op with
      | `R rop ->
          st := ReadRun.exec !w true fuel bs !st rop;
          let o = L.nth (L.rev !st.ReadRun.outs) 0 in
          Printf.printf "M %d %s\n" !id (show_out !w o)
      | `A a ->
          let roots = !st.ReadRun.roots in
          let scope s = ReadRun.scope_of !st s in
          let line = (match a with
            | ALen s -> (match scope s with
                | Lazy.SAns (Lazy.AStr (_, l)) | Lazy.SAns (Lazy.AArr (_, l)) | Lazy.SAns (Lazy.AObj (_, l)) ->
                    let sc = scope s in
                    (match sc with
                     | Lazy.SAns (Lazy.AStr _) -> Printf.sprintf "ALEN %d" (int_of_n (ApiLen.api_str_len !w (inl !w l) (vlen_of roots sc)))
                     | _ -> (match ApiLen.api_len !w (inl !w l) (vlen_of roots sc) with Some n -> Printf.sprintf "ALEN %d" (int_of_n n) | None -> "ALEN NONE"))
                | _ -> "ALEN NONE")
            | AStr s -> astr !w bs roots (scope s)
            | AKey (s, i) -> (match scope s with
                | Lazy.SAns (Lazy.AObj _) ->
                    let (roots', o) = Lazy.get_obj_key_at_index !w true fuel bs roots (scope s) i in
                    st := { ReadRun.roots = roots'; ReadRun.outs = !st.ReadRun.outs };
                    (match o with Lazy.OVal a -> astr !w bs roots' (Lazy.SAns a) | Lazy.OPanic _ -> "PANIC" | _ -> "ABYTES NONE")
                | _ -> "ABYTES NONE")) in
          (* an accessor answer is not a handle: keep the answer numbering aligned with the harness *)
          st := { ReadRun.roots = !st.ReadRun.roots; ReadRun.outs = !st.ReadRun.outs @ [Lazy.OBytes None] };
          Printf.printf "M %d %s\n" !id line) opl;
    (* spec: only for well-formed documents and provider-level histories; computed from the decoded tree alone *)
    (match (try Some (wire_of_bytes (Array.of_list (L.map int_of_n bs))) with Malformed -> None) with
     | Some wt when (not has_api) && Wire.wf wt && Wire.no_nan wt && Wire.enc wt = bs ->
         L.iter (fun o -> Printf.printf "S %d %s\n" !id (show_out !w o)) (ReadSpec.spec_run wt (L.filter_map (function `R r -> Some r | _ -> None) opl))
     | _ when (not has_api) && L.length bs <= 3000 ->
         (* malformed / arbitrary bytes: the stateless sequential decoder of Read/SeqSpec.v (theorem C08_value) *)
         L.iter (fun o -> Printf.printf "S %d %s\n" !id (show_out !w o)) (SeqSpec.seq_run !w true bs (L.filter_map (function `R r -> Some r | _ -> None) opl))
     | _ -> Printf.printf "S %d NOSPEC\n" !id) in
  (try while true do
    let line = input_line ic in
    match split line with
    | ["CASE"; k; ww; c] -> id := int_of_string k; w := n_of_int (int_of_string ww); cls := c; doc := []; ops := []
    | ["DOC"; h] -> doc := nlist_of_hex h
    | ["END"] -> flush_case ()
    | [] -> ()
    | _ -> (match rop_of_line line with
            | Some op -> ops := `R op :: !ops
            | None -> (match aop_of_line line with Some a -> ops := `A a :: !ops | None -> failwith ("c01: bad line " ^ line)))
  done with End_of_file -> ())

(* ---------------- C02 / C03: output writer ---------------- *)
let z_of_string (s : string) : coq_Z = z_of_int (int_of_string s)

let rec show_tree (t : Tree.tree) : string =
  match t with
  | Tree.TNull -> "null" | Tree.TBool b -> if b then "true" else "false"
  | Tree.TInt z -> "i" ^ hex_of_z z | Tree.TF64 b -> "f" ^ hex_of_n b
  | Tree.TStr s -> "s" ^ hex_of_nlist s
  | Tree.TArr l -> "[" ^ St.concat "," (L.map show_tree l) ^ "]"
  | Tree.TObj l -> "{" ^ St.concat "," (L.map (fun (k, v) -> hex_of_nlist k ^ ":" ^ show_tree v) l) ^ "}"

let dectree ic =
  (try while true do
    let line = St.trim (input_line ic) in
    if line <> "" then
      (match Tree.dec_doc (nlist_of_hex line) with
       | Some t -> print_endline ("TREE " ^ show_tree t)
       | None -> print_endline "MALFORMED")
  done with End_of_file -> ())

let big s = n_of_hex (Printf.sprintf "%x" (int_of_string s))
let wop_of = function
    | ["BOOL"; v] -> Some (Writer.OBool (big v)) | ["NULL"] -> Some Writer.ONull
    | ["I32"; z] -> Some (Writer.OI32 (z_of_string z)) | ["F64"; b] -> Some (Writer.OF64 (n_of_hex b))
    | ["STR"; h] -> Some (Writer.OStr (nlist_of_hex h)) | ["ISTR"; i] -> Some (Writer.OIStr (big i))
    | ["SOBJ"; n] -> Some (Writer.OStartObj (big n)) | ["FOBJ"] -> Some Writer.OFinObj
    | ["SARR"; n] -> Some (Writer.OStartArr (big n)) | ["FARR"] -> Some Writer.OFinArr
    | _ -> None

let c03 ic =
  let id = ref 0 and w = ref (n_of_int 64) in
  let ctx = ref Writer.init and sp = ref WSpec.sinit in
  let trap = false in   (* the harness is a release build without overflow checks *)
  (try while true do
    let line = input_line ic in
    match split line with
    | ["CASE"; k; ww; _] -> id := int_of_string k; w := n_of_int (int_of_string ww); ctx := Writer.init; sp := WSpec.sinit
    | ["END"] | [] -> ()
    | ["FIN"] ->
        let (st, bytes) = Writer.finalize !ctx in
        Printf.printf "M %d FIN %d %s\n" !id (int_of_n st) (digest bytes);
        let (st', bytes') = WSpec.spec_finalize !sp in
        Printf.printf "S %d FIN %d %s\n" !id (int_of_n st') (digest bytes')
    | ["REINIT"] ->
        (* initialize_from_msgpack_bytes: everything default, the interner kept *)
        ctx := { Writer.init with Writer.interned = !ctx.Writer.interned }; sp := WSpec.sinit;
        Printf.printf "M %d REINIT\n" !id; Printf.printf "S %d REINIT\n" !id
    | ["INTERN"; h] ->
        let (c', i) = Writer.intern !ctx (nlist_of_hex h) in
        ctx := c'; Printf.printf "M %d ID %d\n" !id (int_of_n i); Printf.printf "S %d ID %d\n" !id (int_of_n i)
    | toks ->
        (match wop_of toks with
         | None -> failwith ("c03: bad line " ^ line)
         | Some op ->
             let interned = !ctx.Writer.interned in
             let (c', r) = Writer.step !w trap !ctx op in
             ctx := c';
             (match r with
              | Writer.WOk -> Printf.printf "M %d ST 0 %s\n" !id (digest c'.Writer.out)
              | Writer.WErr c -> Printf.printf "M %d ST %d %s\n" !id (int_of_n c) (digest c'.Writer.out)
              | Writer.WPanic _ -> Printf.printf "M %d PANIC\n" !id);
             let (s', st) = WSpec.spec_step interned !sp op in
             sp := s';
             Printf.printf "S %d ST %d %s\n" !id (int_of_n st) (digest (WSpec.flatten s')))
  done with End_of_file -> ())


(* ---------------- C12 / C13 / C14: per-thread context, threads ---------------- *)
let keys = [| "foo"; "bar"; "k0"; "k1"; "a"; "title"; "fo"; "ti" |]
let nlist_of_string s = L.init (St.length s) (fun i -> n_of_int (Char.code (St.get s i)))

let step_of toks : Context.step =
  let sc s = if s = "g" then None else Some (n_of_int (int_of_string s)) in
  match toks with
  | ["INIT"; h] -> Context.SInit (nlist_of_hex h)
  | "R" :: rest -> (match rop_of_line (St.concat " " rest) with Some op -> Context.SRead op | None -> failwith "ctx: bad read")
  | ["RIPROP"; s; i] -> Context.SReadIProp (sc s, big i)
  | "W" :: rest -> (match wop_of rest with Some op -> Context.SWrite op | None -> failwith "ctx: bad write")
  | ["STRDEST"; n] -> Context.SStrDest (big n) | ["STRCOPY"; h] -> Context.SStrCopy (nlist_of_hex h)
  | ["ISTR"; i] -> Context.SIStr (big i)
  | ["INTERNDEST"; n] -> Context.SInternDest (big n) | ["INTERNCOPY"; h] -> Context.SInternCopy (nlist_of_hex h)
  | ["LOGPLAN"; n] -> Context.SLogPlan (big n) | ["LOGCOPY"; h] -> Context.SLogCopy (nlist_of_hex h)
  | ["LOAD"; k] | ["SLOAD"; k] -> Context.SLoad (nlist_of_string keys.(int_of_string k))
  | ["FIN"] -> Context.SFinalize | ["VIEW"] -> Context.SView | ["OUT"] -> Context.SOut
  | _ -> failwith ("ctx: bad step " ^ St.concat " " toks)

let show_obs w erase (o : Context.obs) : string =
  let st r = match r with Writer.WOk -> "0" | Writer.WErr c -> string_of_int (int_of_n c) | Writer.WPanic _ -> "PANIC" in
  match o with
  | Context.ObUnit -> "UNIT"
  | Context.ObRead r -> show_out w r
  | Context.ObW r -> (match r with Writer.WPanic _ -> "PANIC" | _ -> "ST " ^ st r)
  | Context.ObDest (r, _) -> (match r with Writer.WPanic _ -> "PANIC" | _ -> "DEST " ^ st r)
  | Context.ObIntern (i, _) -> if erase then "ID *" else Printf.sprintf "ID %d" (int_of_n i)
  | Context.ObId i -> if erase then "ID *" else Printf.sprintf "ID %d" (int_of_n i)
  | Context.ObPlan p -> Printf.sprintf "PLAN %d %d %d %s %d" (int_of_nat p.Ring.p_so) (int_of_nat p.Ring.p_d1) (int_of_nat p.Ring.p_n1)
      (match p.Ring.p_d2 with None -> "null" | Some d -> string_of_int (int_of_nat d)) (int_of_nat p.Ring.p_n2)
  | Context.ObFin (s, b) -> Printf.sprintf "FIN %d %s" (int_of_n s) (digest b)
  | Context.ObBytes b -> "BYTES " ^ digest b
  | Context.ObBadRef -> "BADREF"

let ctxrun ic =
  let id = ref 0 and w = ref (n_of_int 64) and kind = ref "c14" and cap = ref (nat_of_int 1001) in
  let trap = false in
  let g = Threads.ret_area_global_of StaticsGen.statics in
  let world = ref (Threads.w0 (nat_of_int 1001)) in
  let solo : (int, Threads.world) Hashtbl.t = Hashtbl.create 8 in
  let base : (int, int) Hashtbl.t = Hashtbl.create 8 in
  (try while true do
    let line = input_line ic in
    match split line with
    | ["CASE"; k; ww; kd; c] ->
        id := int_of_string k; w := n_of_int (int_of_string ww); kind := kd; cap := nat_of_int (int_of_string c);
        world := Threads.w0 !cap; Hashtbl.reset solo; Hashtbl.reset base
    | ["END"] | [] -> ()
    | "T" :: tid :: toks0 ->
        let t = int_of_string tid in
        (* one provider-level step on the shared world (model) and on the solo / fresh-thread world (spec): the two observations *)
        let do_step toks : string * string =
          let tn = n_of_int t in
          let stp = step_of toks in
          (* model: the shared world, the return area placed as the generated table says *)
          let c_before = !world.Threads.th tn in
          let (w', o) = Threads.wstep !w trap !cap g !world tn stp in
          world := w';
          let mo = show_obs !w false o in
          (* spec: this thread alone (c14), restarted on a fresh thread at every INIT (c13),
             ids replaced by the bytes they stand for (c12) *)
          let sw = match Hashtbl.find_opt solo t with Some x -> x | None -> Threads.w0 !cap in
          let sw = if !kind = "c13" && (match stp with Context.SInit _ -> true | _ -> false) then Threads.w0 !cap else sw in
          (match stp with Context.SInit _ -> Hashtbl.replace base t (L.length c_before.Context.cint.Interner.spans) | _ -> ());
          let shift i = let b = (try Hashtbl.find base t with Not_found -> 0) in let v = int_of_n i - b in n_of_int (if v < 0 then 1000000 else v) in
          let stp' = if !kind = "c13" then
            (match stp with
             | Context.SIStr i -> Context.SIStr (shift i)
             | Context.SReadIProp (sc, i) -> Context.SReadIProp (sc, shift i)
             | _ -> stp)
          else if !kind <> "c12" then stp else
            (match stp with
             | Context.SIStr i -> (match Interner.iget c_before.Context.cint i with Some b -> Context.SWrite (Writer.OStr b) | None -> stp)
             | Context.SReadIProp (sc, i) -> (match Interner.iget c_before.Context.cint i with Some b -> Context.SRead (ReadRun.RProp (sc, b)) | None -> stp)
             | _ -> stp) in
          let (sw', so) = Threads.wstep !w trap !cap false sw tn stp' in
          Hashtbl.replace solo t sw';
          (mo, show_obs !w (!kind = "c13") so) in
        let emit (mo, so) = Printf.printf "M %d %d %s\n" !id t mo; Printf.printf "S %d %d %s\n" !id t so in
        (match toks0 with
         | ["AINTERN"; h] ->
             (* API-level interning = destination request + copy at once: two model steps, one observation *)
             let r = do_step ["INTERNDEST"; string_of_int (St.length h / 2)] in
             ignore (do_step ["INTERNCOPY"; h]); emit r
         | ["ANEST"; d; bad] ->
             (* api::Context::write_array closures nested d deep around one i32 (bad: a second i32 into the full innermost
                container): each provider call in order, stopping at the first rejection (the closures return early) *)
             let d = int_of_string d in
             let steps = L.init d (fun _ -> ["W"; "SARR"; "1"]) @ [["W"; "I32"; "7"]] @ (if bad = "1" then [["W"; "I32"; "8"]] else []) @ L.init d (fun _ -> ["W"; "FARR"]) in
             let rec go l last = (match l with
               | [] -> last
               | st :: rest -> let (mo, so) = do_step st in
                   (* a rejected call ends the model's AND the spec's sequence at the model's verdict (they agree unless the property fails) *)
                   if mo <> "ST 0" then (mo, so) else go rest (mo, so)) in
             emit (go steps ("ST 0", "ST 0"))
         | _ -> emit (do_step toks0))
    | _ -> failwith ("ctx: bad line " ^ line)
  done with End_of_file -> ())


(* ---------------- C09: typed serialisation ---------------- *)
let split_top (s : string) : string list =   (* split at top-level commas *)
  let out = ref [] and cur = Buffer.create 16 and d = ref 0 in
  St.iter (fun c -> match c with
    | '(' | '[' | '{' -> incr d; Buffer.add_char cur c
    | ')' | ']' | '}' -> decr d; Buffer.add_char cur c
    | ',' when !d = 0 -> out := Buffer.contents cur :: !out; Buffer.clear cur
    | _ -> Buffer.add_char cur c) s;
  if Buffer.length cur > 0 then out := Buffer.contents cur :: !out;
  L.rev !out

let rec ty_of (s : string) : Typed.ty =
  let args () = let i = St.index s '(' in split_top (St.sub s (i + 1) (St.length s - i - 2)) in
  let head = try St.sub s 0 (St.index s '(') with Not_found -> s in
  match head with
  | "unit" -> Typed.TUnit | "bool" -> Typed.TBool | "i32" -> Typed.TI32 | "f64" -> Typed.TF64 | "str" -> Typed.TStr
  | "opt" -> Typed.TOpt (ty_of (L.hd (args ()))) | "vec" -> Typed.TVec (ty_of (L.hd (args ()))) | "map" -> Typed.TMap (ty_of (L.hd (args ())))
  | "tuple" -> Typed.TTuple (L.map ty_of (args ()))
  | "arr" -> (match args () with [n; t] -> Typed.TArr (n_of_int (int_of_string n), ty_of t) | _ -> failwith "arr")
  | "int" -> Typed.TInt IntDeser.(match L.hd (args ()) with "i8" -> I8 | "i16" -> I16 | "i32" -> I32 | "i64" -> I64 | "u8" -> U8 | "u16" -> U16
                                   | "u32" -> U32 | "u64" -> U64 | "usize" -> Usize | "isize" -> Isize | _ -> failwith "int type")
  | _ -> failwith ("ty_of " ^ s)

let rec value_of (s : string) : Typed.value =
  let n = St.length s in
  let rest = St.sub s 1 (n - 1) in
  match St.get s 0 with
  | 'u' -> Typed.VUnit | 'n' -> Typed.VNone
  | 'b' -> Typed.VBool (rest = "1") | 'i' -> Typed.VI32 (z_of_int (int_of_string rest))
  | 'f' -> Typed.VF64 (n_of_hex rest) | 's' -> Typed.VStr (nlist_of_hex rest)
  | 'I' -> if St.get rest 0 = '-' then Typed.VInt (z_of_hexmag true (St.sub rest 1 (St.length rest - 1))) else Typed.VInt (z_of_hexmag false rest)
  | 'S' -> Typed.VSome (value_of (St.sub s 2 (n - 3)))
  | 'V' -> Typed.VVec (L.map value_of (split_top (St.sub s 2 (n - 3))))
  | 'T' -> Typed.VTuple (L.map value_of (split_top (St.sub s 2 (n - 3))))
  | 'M' -> Typed.VMap (L.map (fun e -> let i = St.index e ':' in (nlist_of_hex (St.sub e 0 i), value_of (St.sub e (i + 1) (St.length e - i - 1)))) (split_top (St.sub s 2 (n - 3))))
  | _ -> failwith ("value_of " ^ s)

let rec show_value (v : Typed.value) : string =
  match v with
  | Typed.VUnit -> "u" | Typed.VNone -> "n" | Typed.VBool b -> if b then "b1" else "b0"
  | Typed.VI32 z -> (match z with Z0 -> "i0" | Zpos p -> "i" ^ string_of_int (int_of_n (Npos p)) | Zneg p -> "i-" ^ string_of_int (int_of_n (Npos p)))
  | Typed.VF64 b -> "f" ^ hex_of_n b | Typed.VStr s -> "s" ^ hex_of_nlist s
  | Typed.VSome x -> "S(" ^ show_value x ^ ")"
  | Typed.VVec l -> "V[" ^ St.concat "," (L.map show_value l) ^ "]"
  | Typed.VTuple l -> "T[" ^ St.concat "," (L.map show_value l) ^ "]"
  | Typed.VMap l -> "M{" ^ St.concat "," (L.sort compare (L.map (fun (k, x) -> hex_of_nlist k ^ ":" ^ show_value x) l)) ^ "}"
  | Typed.VInt z -> "I" ^ hex_of_z z

let c09 ic =
  let id = ref 0 and w = ref (n_of_int 64) in
  let trap = false in
  let de t wt = match Typed.deser !w t wt with Some v -> "OK " ^ show_value v | None -> "ERR" in
  (try while true do
    let line = input_line ic in
    match St.split_on_char ' ' line with
    | ["CASE"; k; ww] -> id := int_of_string k; w := n_of_int (int_of_string ww)
    | ["END"] | [""] | [] -> ()
    | ["SER"; t; v] ->
        let v = value_of v in ignore (ty_of t);
        let (r, (_, bytes)) = Typed.serialize !w trap v in
        Printf.printf "M %d SER %s %s JSON 1\n" !id (match r with Writer.WOk -> "0" | _ -> "1") (digest bytes);
        Printf.printf "S %d SER 0 %s JSON 1\n" !id (digest (Tree.enc_tree (Typed.tree_of v)))
    | ["RT"; t; v] ->
        let v = value_of v and t = ty_of t in
        Printf.printf "M %d %s\n" !id (de t (Typed.canon (Typed.tree_of v)));
        Printf.printf "S %d OK %s\n" !id (show_value v)
    | ["DE"; t; doc] ->
        let t = ty_of t in
        let r = (match (try Some (wire_of_bytes (Array.of_list (bytes_of_hex doc))) with Malformed -> None) with
                 | Some wt -> de t wt | None -> "MALFORMED") in
        Printf.printf "M %d %s\n" !id r; Printf.printf "S %d %s\n" !id r
    | _ -> failwith ("c09: bad line " ^ line)
  done with End_of_file -> ())


(* ---------------- C04: emitted glue under the mini-Wasm semantics vs wasmtime ---------------- *)
let char_of_ascii (Ascii.Ascii (b0, b1, b2, b3, b4, b5, b6, b7)) : char =
  let v b k = if b then 1 lsl k else 0 in Char.chr (v b0 0 + v b1 1 + v b2 2 + v b3 3 + v b4 4 + v b5 5 + v b6 6 + v b7 7)
let string_of_coq (s : String.string) : string =
  let b = Buffer.create 32 in
  let rec go = function String.EmptyString -> () | String.String (c, r) -> Buffer.add_char b (char_of_ascii c); go r in
  go s; Buffer.contents b

type pstate = { resp : string list list; plog : string list }

let c04 ic =
  let memsz = 65536 in
  let id = ref 0 and seed = ref 0 in
  let ginit a = ((a * 7 + !seed * 3) land 0xff) and pinit a = ((a * 13 + !seed * 5 + 1) land 0xff) in
  let mk f = { WasmMini.msize = n_of_int memsz; WasmMini.mget = (fun a -> n_of_int (f (int_of_n a))) } in
  let funcs = GlueGen.funcs in
  let name_of_import k = (match L.nth funcs k with WasmMini.Import (_, n, _, _) -> string_of_coq n | _ -> "?") in
  ignore name_of_import;
  let results_of name = (let rec go = function [] -> [] | WasmMini.Import (_, n, _, r) :: t -> if string_of_coq n = name then r else go t | _ :: t -> go t in go funcs) in
  let hexv v = match v with WasmMini.I32 n | WasmMini.I64 n | WasmMini.F64 n -> hex_of_n n in
  let mkval t h = let n = n_of_hex h in match t with WasmMini.TI32 -> WasmMini.I32 n | WasmMini.TI64 -> WasmMini.I64 n | WasmMini.TF64 -> WasmMini.F64 n in
  let oracle (name : String.string) (args : WasmMini.coq_val list) (pm : WasmMini.mem) (ps : pstate) =
    let nm = string_of_coq name in
    match ps.resp with
    | [] -> None
    | r :: rest ->
        let entry = Printf.sprintf "%s(%s)" nm (St.concat "," (L.map hexv args)) in
        let entry = if nm = "_shopify_function_input_get_obj_prop" then
            (match args with [_; b; l] -> let b = int_of_n (match b with WasmMini.I32 n -> n | _ -> N0) and l = int_of_n (match l with WasmMini.I32 n -> n | _ -> N0) in
               if b + l <= memsz then entry ^ "<" ^ hex_of_list (L.init l (fun i -> int_of_n (pm.WasmMini.mget (n_of_int (b + i))))) ^ ">" else entry
             | _ -> entry) else entry in
        let pm' = if nm = "_shopify_function_log_new_utf8_str" && L.length r = 6 then begin
            let area = int_of_string ("0x" ^ L.hd r) in
            let words = Array.of_list (L.map (fun h -> int_of_string ("0x" ^ h)) (L.tl r)) in
            if area + 20 <= memsz then
              { WasmMini.msize = pm.WasmMini.msize; WasmMini.mget = (fun a -> let ai = int_of_n a in
                  if ai >= area && ai < area + 20 then n_of_int ((words.((ai - area) / 4) lsr (8 * ((ai - area) mod 4))) land 0xff) else pm.WasmMini.mget a) }
            else pm end else pm in
        let res = (match results_of nm with [] -> [] | t :: _ -> [mkval t (L.hd r)]) in
        Some ((res, pm'), { resp = rest; plog = ps.plog @ [entry] }) in
  let diff (m : WasmMini.mem) init =
    let out = ref [] and a = ref 0 in
    let get i = int_of_n (m.WasmMini.mget (n_of_int i)) in
    while !a < memsz do
      if get !a <> init !a then begin
        let st = !a in let b = Buffer.create 16 in
        while !a < memsz && get !a <> init !a do Buffer.add_string b (Printf.sprintf "%02x" (get !a)); incr a done;
        out := Printf.sprintf "%x:%s" st (Buffer.contents b) :: !out end
      else incr a done;
    if !out = [] then "-" else St.concat "," (L.rev !out) in
  let widx name = (let rec go = function [] -> None | (n, k) :: t -> if string_of_coq n = name then Some k else go t in go GlueGen.wrappers) in
  let psig name = (let rec go = function [] -> ([], []) | (n, s) :: t -> if string_of_coq n = name then s else go t in go GlueGen.api_sigs) in
  let bytes_g a n = L.init n (fun i -> ginit (a + i)) in
  let region a bs = if bs = [] then [] else [(a, bs)] in
  (* expected changes as a sorted list of (addr, bytes), dropping bytes equal to the initial contents, as the harness's diff does *)
  let render init (regs : (int * int list) list) =
    let tbl = Hashtbl.create 64 in
    L.iter (fun (a, bs) -> L.iteri (fun i b -> Hashtbl.replace tbl (a + i) b) bs) regs;
    let addrs = L.sort compare (Hashtbl.fold (fun k v acc -> if v <> init k then k :: acc else acc) tbl []) in
    let rec grp acc cur = function
      | [] -> L.rev (match cur with None -> acc | Some (st, bs) -> (st, L.rev bs) :: acc)
      | a :: t -> (match cur with
          | Some (st, bs) when st + L.length bs = a -> grp acc (Some (st, Hashtbl.find tbl a :: bs)) t
          | Some (st, bs) -> grp ((st, L.rev bs) :: acc) (Some (a, [Hashtbl.find tbl a])) t
          | None -> grp acc (Some (a, [Hashtbl.find tbl a])) t) in
    let gs = grp [] None addrs in
    if gs = [] then "-" else St.concat "," (L.map (fun (a, bs) -> Printf.sprintf "%x:%s" a (hex_of_list bs)) gs) in
  (try while true do
    let line = input_line ic in
    match split line with
    | "CASE" :: k :: sd :: _ -> id := int_of_string k; seed := int_of_string sd
    | ["END"] | [] -> ()
    | "CALL" :: _via :: name :: rest ->
        let (argstr, resp) = (match rest with a :: ";" :: r -> (a, St.concat " " r) | a :: [] -> (a, "") | a :: _ -> (a, "") | [] -> ("-", "")) in
        let args = if argstr = "-" then [] else St.split_on_char ',' argstr in
        let resps = L.filter (fun x -> x <> []) (L.map (fun r -> L.filter (fun x -> x <> "") (St.split_on_char ',' (St.trim r))) (St.split_on_char '|' resp)) in
        let (ptys, rtys) = psig name in
        let vals = L.map2 mkval ptys args in
        (* ---- model: the regenerated glue under the mini-Wasm semantics *)
        (match widx name with
         | None -> Printf.printf "M %d NOWRAPPER\n" !id
         | Some k ->
            (match WasmMini.invoke oracle funcs (nat_of_int 200) k vals (mk ginit) (mk pinit) { resp = resps; plog = [] } with
             | None -> Printf.printf "M %d TRAP\n" !id
             | Some s ->
                 let ret = (match L.rev s.WasmMini.stack with [] -> "-" | l -> St.concat "," (L.map hexv l)) in
                 Printf.printf "M %d RET %s G %s P %s LOG %s\n" !id ret (diff s.WasmMini.g ginit) (diff s.WasmMini.p pinit)
                   (if s.WasmMini.pstate.plog = [] then "-" else St.concat ";" s.WasmMini.pstate.plog)));
        (* ---- spec: what the public ABI says the call does *)
        let ai i = int_of_string ("0x" ^ L.nth args i) in
        let r1 i j = int_of_string ("0x" ^ L.nth (L.nth resps i) j) in
        let low = "_" ^ name in
        let inb a n = a + n <= memsz in
        let sline = (match name with
          | "shopify_function_input_read_utf8_str" ->
              let out = ai 1 and len = ai 2 and addr = r1 0 0 in
              if not (inb out len && inb addr len) then "TRAP" else
              Printf.sprintf "RET - G %s P - LOG _shopify_function_input_get_utf8_str_addr(%s)" (render ginit (region out (L.init len (fun i -> pinit (addr + i))))) (L.nth args 0)
          | "shopify_function_input_get_obj_prop" ->
              let ptr = ai 1 and len = ai 2 and blk = r1 0 0 in
              if not (inb ptr len && inb blk len) then "TRAP" else
              Printf.sprintf "RET %s G - P %s LOG _shopify_function_alloc(%s);%s(%s,%x,%s)<%s>" (L.nth (L.nth resps 1) 0) (render pinit (region blk (bytes_g ptr len)))
                (L.nth args 2) low (L.nth args 0) blk (L.nth args 2) (hex_of_list (bytes_g ptr len))
          | "shopify_function_output_new_utf8_str" | "shopify_function_intern_utf8_str" ->
              let ptr = ai 0 and len = ai 1 in let packed = r1 0 0 in let hi = packed lsr 32 and lo = packed land 0xffffffff in
              let writes = name = "shopify_function_intern_utf8_str" || hi = 0 in   (* a rejected string write writes nothing *)
              if writes && not (inb ptr len && inb lo len) then "TRAP" else
              Printf.sprintf "RET %x G - P %s LOG %s(%s)" hi (if writes then render pinit (region lo (bytes_g ptr len)) else "-") low (L.nth args 1)
          | "shopify_function_log_new_utf8_str" ->
              let ptr = ai 0 and _len = ai 1 in
              let area = r1 0 0 and so = r1 0 1 and d1 = r1 0 2 and n1 = r1 0 3 and d2 = r1 0 4 and n2 = r1 0 5 in
              if not (inb (ptr + so) (n1 + n2) && inb d1 n1 && (n2 = 0 || inb d2 n2) && inb area 20) then "TRAP" else
              let words = L.concat (L.map (fun w -> [w land 0xff; (w lsr 8) land 0xff; (w lsr 16) land 0xff; (w lsr 24) land 0xff]) [so; d1; n1; d2; n2]) in
              Printf.sprintf "RET - G - P %s LOG %s(%s)" (render pinit (region area words @ region d1 (bytes_g (ptr + so) n1) @ (if n2 > 0 then region d2 (bytes_g (ptr + so + n1) n2) else []))) low (L.nth args 1)
          | _ ->
              Printf.sprintf "RET %s G - P - LOG %s(%s)" (if rtys = [] then "-" else L.nth (L.nth resps 0) 0) low (St.concat "," args)) in
        Printf.printf "S %d %s\n" !id sline
    | _ -> failwith ("c04: bad line " ^ line)
  done with End_of_file -> ())

(* ---------------- C07: the rewrite model on abstracted guest modules ---------------- *)
let ascii_of_char (c : char) : Ascii.ascii =
  let v = Char.code c in let b k = (v lsr k) land 1 = 1 in Ascii.Ascii (b 0, b 1, b 2, b 3, b 4, b 5, b 6, b 7)
let coq_of_string (s : string) : String.string =
  let r = ref String.EmptyString in
  for i = St.length s - 1 downto 0 do r := String.String (ascii_of_char (St.get s i), !r) done; !r
let str_of_hex h = let l = bytes_of_hex h in let b = Buffer.create 16 in L.iter (fun c -> Buffer.add_char b (Char.chr c)) l; Buffer.contents b
let hex_of_str s = if s = "" then "-" else St.concat "" (L.init (St.length s) (fun i -> Printf.sprintf "%02x" (Char.code (St.get s i))))

let c07 ic =
  let open RewriteTypes in
  let vt = function "i32" -> AbiTypes.TI32 | "i64" -> AbiTypes.TI64 | "f32" -> AbiTypes.TF32 | "f64" -> AbiTypes.TF64 | x -> failwith ("c07: type " ^ x) in
  let tv = function AbiTypes.TI32 -> "i32" | AbiTypes.TI64 -> "i64" | AbiTypes.TF32 -> "f32" | AbiTypes.TF64 -> "f64" in
  let tys s = if s = "" then [] else L.map vt (St.split_on_char ',' s) in
  let id = ref 0 and imps = ref [] and own = ref 0 and locals = ref 0 and cls = ref "" in
  let flush () =
    (* a 64-bit own memory is outside the abstract module of the model: the tool may refuse such a guest or accept it with a valid result *)
    if !cls = "mem64" then (Printf.printf "M %d NOMODEL\n" !id; Printf.printf "S %d EITHER PREFIX=-\n" !id) else
    (* ids as walrus assigns them: imported functions / memories in import order, then the defined ones *)
    let nf = ref 0 and nm = ref 0 in
    let funcs = ref [] and mems = ref [] in
    let imports = L.map (fun (md, nm_, k) ->
      let kind = (match k with
        | `F (p, r) -> let fid = n_of_int !nf in incr nf; funcs := { f_id = fid; f_sig = (p, r); f_kind = FImported } :: !funcs; KFunc fid
        | `M -> let mid = n_of_int !nm in incr nm; mems := { m_id = mid; m_imported = true } :: !mems; KMem mid
        | `O t -> KOther (n_of_int t)) in
      { i_mod = coq_of_string md; i_name = coq_of_string nm_; i_kind = kind }) (L.rev !imps) in
    for _ = 1 to !locals do funcs := { f_id = n_of_int !nf; f_sig = ([], []); f_kind = FOwn } :: !funcs; incr nf done;
    for _ = 1 to !own do mems := { m_id = n_of_int !nm; m_imported = false } :: !mems; incr nm done;
    let m = { imports = imports; funcs = L.rev !funcs; mems = L.rev !mems; next_func = n_of_int !nf; next_mem = n_of_int !nm; rest = N0 } in
    let sig_of_fid (m' : coq_module) fid = (match L.find_opt (fun f -> f.f_id = fid) m'.funcs with Some f -> f.f_sig | None -> ([], [])) in
    let show_imp m' (i : import) =
      Printf.sprintf "%s/%s/%s" (hex_of_str (string_of_coq i.i_mod)) (hex_of_str (string_of_coq i.i_name))
        (match i.i_kind with
         | KFunc fid -> let (p, r) = sig_of_fid m' fid in "F" ^ St.concat "," (L.map tv p) ^ ":" ^ St.concat "," (L.map tv r)
         | KMem _ -> "M" | KOther t -> (match int_of_n t with 0 -> "T" | 1 -> "G" | _ -> "X")) in
    let show_imports m' l = if l = [] then "-" else St.concat "," (L.map (show_imp m') l) in
    (match RewriteInst.tool m with
     | Ok m' ->
         let gens = L.length (L.filter (fun f -> match f.f_kind with FGen _ -> true | _ -> false) m'.funcs) in
         Printf.printf "M %d V=ACCEPT IMPORTS=%s NEWLOCALS=%d\n" !id (show_imports m' m'.imports) gens
     | Err e ->
         Printf.printf "M %d V=REJECT %s\n" !id (match e with
           | EMultiMem -> "multimem" | EUnexpected n -> "unexpected:" ^ hex_of_str (string_of_coq n) | EUnsupported n -> "unsupported:" ^ hex_of_str (string_of_coq n)
           | EParams n -> "params:" ^ string_of_coq n | EResults n -> "results:" ^ string_of_coq n | ENotFunc -> "notfunc" | EInternal -> "internal" | EFuel -> "fuel"));
    Printf.printf "S %d %s PREFIX=%s\n" !id (match RewriteInst.spec m with
      | RewriteSpec.VUnchanged -> "UNCHANGED" | RewriteSpec.VAccept -> "ACCEPT" | RewriteSpec.VReject -> "REJECT" | RewriteSpec.VEither -> "EITHER")
      (show_imports m (RewriteInst.spec_imports m)) in
  (try while true do
    let line = input_line ic in
    match split line with
    | "CASE" :: k :: rest -> id := int_of_string k; imps := []; own := 0; locals := 0; cls := (match rest with c :: _ -> c | [] -> "")
    | ["IMP"; t] ->
        (match St.split_on_char '/' t with
         | [m; n; k] ->
             let kind = (match St.get k 0 with
               | 'F' -> (match St.split_on_char ':' (St.sub k 1 (St.length k - 1)) with [p; r] -> `F (tys p, tys r) | _ -> failwith "c07: sig")
               | 'M' -> `M | 'T' -> `O 0 | 'G' -> `O 1 | _ -> `O 2) in
             imps := (str_of_hex m, str_of_hex n, kind) :: !imps
         | _ -> failwith ("c07: bad import " ^ t))
    | ["OWNMEM"; n] -> own := int_of_string n
    | ["LOCALS"; n] -> locals := int_of_string n
    | "WAT" :: _ -> ()
    | ["END"] -> flush ()
    | [] -> ()
    | _ -> failwith ("c07: bad line " ^ line)
  done with End_of_file -> ())

let () =
  let comp = Sys.argv.(1) in
  let ic = if Array.length Sys.argv > 2 then open_in Sys.argv.(2) else stdin in
  match comp with
  | "c01" | "c08" | "c11" -> c01 ic
  | "c02" | "c03" -> c03 ic
  | "dectree" -> dectree ic
  | "c12" | "c13" | "c14" -> ctxrun ic
  | "c09" -> c09 ic
  | "c04" -> c04 ic
  | "c07" -> c07 ic
  | "c05" -> c05 ic
  | "c06" -> c06 ic
  | "c10" -> c10 ic
  | _ -> prerr_endline ("unknown component " ^ comp); exit 2
