(** Extraction of the executable models and specs for the correspondence driver.
    Only ExtrOcamlBasic (bool, option, unit, list, prod, sumbool mapped to OCaml's);
    no Extract Constant; nat/N/Z/positive stay the extracted inductives. *)
From Coq Require Import ExtrOcamlBasic.
From SFV Require Import Log.Ring Base.F64 Api.IntDeser NanBox.NanBox Gen.NanBoxGen Base.Bytes Read.Lazy Read.ReadRun Msgpack.Wire Read.ReadSpec Msgpack.Rmp Write.Writer Msgpack.Tree Write.WSpec Write.Grammar Read.ReadSafe Read.SeqSpec Ctx.Interner Ctx.Context Ctx.Threads Gen.StaticsGen Gen.LogGen Api.Typed Api.ApiLen Tramp.WasmMini Gen.GlueGen Tramp.RewriteTypes Tramp.Rewrite Tramp.RewriteSpec Tramp.RewriteInst.
Extraction Language OCaml.
Set Extraction KeepSingleton.
Separate Extraction
  Ring.init Ring.append Ring.apply_plan Ring.log_msg Ring.read_ptrs Ring.host_view Ring.lastn Ring.run
  NanBox.encode NanBox.nb_bool NanBox.nb_null NanBox.nb_string NanBox.nb_obj NanBox.nb_array NanBox.nb_error NanBox.nb_number NanBox.try_decode
  NanBoxGen.MAX_VALUE_LENGTH NanBoxGen.ErrorCode_variants
  F64.exact_int F64.of_int F64.of_f32 F64.is_nan IntDeser.deser_int IntDeser.int_min IntDeser.int_max
  ReadRun.exec ReadRun.rinit ReadRun.run ReadSpec.spec_run ReadSpec.refs_ok Wire.enc Wire.wf Wire.no_nan ReadSafe.fuel_bs SeqSpec.seq_run SeqSpec.nat_exec
  Writer.init Writer.step Writer.finalize Writer.intern WSpec.sinit WSpec.spec_step WSpec.spec_finalize WSpec.flatten Tree.dec_doc Tree.enc_tree Tree.wf_tree
  Context.lstep Context.c0 Context.erase_id Threads.wstep Threads.w0 Threads.ret_area_global_of Threads.all_mutable_thread_local StaticsGen.statics LogGen.CAPACITY Interner.iget
  Typed.serialize Typed.deser Typed.tree_of Typed.canon Typed.has_type_w Typed.opt_ok Typed.ser_ok ApiLen.api_len ApiLen.api_str_len Lazy.get_val_len Lazy.read_str Lazy.get_obj_key_at_index
  WasmMini.invoke WasmMini.mcopy GlueGen.funcs GlueGen.wrappers GlueGen.api_sigs
  RewriteInst.tool RewriteInst.spec RewriteInst.spec_imports.
