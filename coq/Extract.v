(** Extraction of the executable models and specs for the correspondence driver.
    Only ExtrOcamlBasic (bool, option, unit, list, prod, sumbool mapped to OCaml's);
    no Extract Constant; nat/N/Z/positive stay the extracted inductives. *)
From Coq Require Import ExtrOcamlBasic.
From SFV Require Import Log.Ring.
Extraction Language OCaml.
Set Extraction KeepSingleton.
Separate Extraction
  Ring.init Ring.append Ring.apply_plan Ring.log_msg Ring.read_ptrs Ring.host_view Ring.lastn Ring.run.
