(** Pinned statements of C05: compiled on every run. [Check (thm : statement)] fails if the
    theorem in SFV.Properties.C05 no longer has exactly this statement. *)
From Coq Require Import Arith List.
From SFV Require Import Gen.LogGen Log.Ring Log.RingProofs Properties.C05.

Check (C05_read :
  forall (byte : Type) (zero : byte) (CAP : nat), 0 < CAP ->
  forall msgs : list (list byte),
    host_view CAP (run zero CAP msgs)
    = lastn (Nat.min (length (concat msgs)) CAP) (concat msgs)).
Print Assumptions C05_read.

Check (C05_plan :
  forall (byte : Type) (zero : byte) (CAP : nat), 0 < CAP ->
  forall (msgs : list (list byte)) (n : nat),
    plan_ok byte CAP (run zero CAP msgs) n (snd (append CAP (run zero CAP msgs) n))).
Print Assumptions C05_plan.

Check (C05_plan_tail :
  forall (byte : Type) (zero : byte) (CAP : nat), 0 < CAP ->
  forall (msgs : list (list byte)) (m : list byte),
    let p := snd (append CAP (run zero CAP msgs) (length m)) in
    firstn (p_n1 p) (skipn (p_so p) m) ++ firstn (p_n2 p) (skipn (p_so p + p_n1 p) m)
    = lastn (Nat.min (length m) CAP) m).
Print Assumptions C05_plan_tail.

Check (C05_capacity_positive : 0 < LogGen.CAPACITY).
Print Assumptions C05_capacity_positive.
