(* diagnosis of a failing C15: which clause is false, and the offending rows *)
From Coq Require Import List String Bool.
From SFV Require Import Abi.AbiTypes Gen.AbiGen Abi.Abi.
Import ListNotations.
Eval vm_compute in ("names_and_signatures", names_and_signatures, "module_names", module_names, "emitted_imports_exist", emitted_imports_exist,
                    "trampoline_guards", trampoline_guards, "code_tables", code_tables).
Eval vm_compute in ("wat names missing from header/rust/trampoline",
  filter (fun n => negb (mem n (names header_table) && mem n (names rust_table) && mem n trampoline_accepts)) (names wat_table),
  "extra names", filter (fun n => negb (mem n (names wat_table))) (names header_table ++ names rust_table ++ trampoline_accepts)).
Eval vm_compute in ("signature differs from the WAT",
  filter (fun '(n, s) => match lookup n wat_table with Some s' => negb (sig_eqb s s') | None => false end) (header_table ++ header_checked_in_table ++ rust_table)).
Eval vm_compute in ("emitted imports missing from / differing in the provider",
  filter (fun '(n, s) => match lookup n provider_exports with Some s' => negb (sig_eqb s s') | None => true end) trampoline_emits).
