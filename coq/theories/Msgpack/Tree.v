(** MessagePack documents as trees (MODEL / SPEC, executable).
    [enc_tree]  : the canonical encoding the provider's writer produces (the rmp encoders of Rmp.v,
                  lengths passed [as u32]).
    [dec_tree]  : a general eager decoder accepting EVERY format of the supported families
                  (nil, bool, all integer formats, f32/f64, str, array, map with string keys);
                  bin, ext and 0xc1 are rejected.  Fuel-recursive; fuel exhaustion is the explicit
                  [OutOfFuel] result of [dec_core], which [dec_tree] maps to [None].
    [wf_tree]   : the value fits MessagePack (integer range, lengths below 2^32, bytes below 256). *)
From Coq Require Import NArith ZArith List Bool.
From SFV Require Import Base.Bytes Base.F64 Msgpack.Rmp.
Import ListNotations.
Open Scope N_scope.

Inductive tree :=
| TNull
| TBool (b : bool)
| TInt (z : Z)
| TF64 (bits : N)
| TStr (s : list N)
| TArr (l : list tree)
| TObj (l : list (list N * tree)).

(** * Encoding *)

(** A string: header ([len as u32]) followed by the bytes. *)
Definition enc_str (s : list N) : list N := write_str_len (lenN s mod 2 ^ 32) ++ s.

Fixpoint enc_tree (t : tree) : list N :=
  match t with
  | TNull => write_nil
  | TBool b => write_bool b
  | TInt z => write_sint z
  | TF64 b => write_f64 b
  | TStr s => enc_str s
  | TArr l => write_array_len (lenN l mod 2 ^ 32) ++ flat_map enc_tree l
  | TObj l =>
      write_map_len (lenN l mod 2 ^ 32)
      ++ flat_map (fun kv => let '(k, v) := kv in enc_str k ++ enc_tree v) l
  end.

Definition enc_pair (kv : list N * tree) : list N := enc_str (fst kv) ++ enc_tree (snd kv).

(** * Well-formedness *)

Definition wf_str (s : list N) : bool :=
  (lenN s <? 2 ^ 32) && forallb (fun b => b <? 256) s.

Fixpoint wf_tree (t : tree) : bool :=
  match t with
  | TNull | TBool _ => true
  | TInt z => ((- 2 ^ 63 <=? z) && (z <? 2 ^ 64))%Z
  | TF64 b => b <? 2 ^ 64
  | TStr s => wf_str s
  | TArr l => (lenN l <? 2 ^ 32) && forallb wf_tree l
  | TObj l =>
      (lenN l <? 2 ^ 32)
      && forallb (fun kv => let '(k, v) := kv in wf_str k && wf_tree v) l
  end.

(** * Decoding *)

(** Result of a decoding step: the value and the remaining bytes. *)
Inductive res (A : Type) := Ok (a : A) (rest : list N) | Err | OutOfFuel.
Arguments Ok {A}. Arguments Err {A}. Arguments OutOfFuel {A}.

Inductive marker :=
| MPfix (v : N)            (* 0x00..0x7f *)
| MFixMap (n : N)          (* 0x80..0x8f *)
| MFixArr (n : N)          (* 0x90..0x9f *)
| MFixStr (n : N)          (* 0xa0..0xbf *)
| MNil | MFalse | MTrue    (* 0xc0 0xc2 0xc3 *)
| MF32 | MF64              (* 0xca 0xcb *)
| MUint (k : nat)          (* 0xcc..0xcf : k = 1,2,4,8 bytes *)
| MSint (k : nat)          (* 0xd0..0xd3 *)
| MStr (k : nat)           (* 0xd9..0xdb : k = 1,2,4 length bytes *)
| MArr (k : nat)           (* 0xdc 0xdd  : k = 2,4 *)
| MMap (k : nat)           (* 0xde 0xdf  : k = 2,4 *)
| MNfix (v : N)            (* 0xe0..0xff, the raw byte *)
| MBad.                    (* 0xc1, bin, ext, not a byte *)

Definition classify (m : N) : marker :=
  if m <? 0x80 then MPfix m
  else if m <? 0x90 then MFixMap (m - 0x80)
  else if m <? 0xa0 then MFixArr (m - 0x90)
  else if m <? 0xc0 then MFixStr (m - 0xa0)
  else if m =? 0xc0 then MNil
  else if m =? 0xc2 then MFalse
  else if m =? 0xc3 then MTrue
  else if m =? 0xca then MF32
  else if m =? 0xcb then MF64
  else if m =? 0xcc then MUint 1
  else if m =? 0xcd then MUint 2
  else if m =? 0xce then MUint 4
  else if m =? 0xcf then MUint 8
  else if m =? 0xd0 then MSint 1
  else if m =? 0xd1 then MSint 2
  else if m =? 0xd2 then MSint 4
  else if m =? 0xd3 then MSint 8
  else if m =? 0xd9 then MStr 1
  else if m =? 0xda then MStr 2
  else if m =? 0xdb then MStr 4
  else if m =? 0xdc then MArr 2
  else if m =? 0xdd then MArr 4
  else if m =? 0xde then MMap 2
  else if m =? 0xdf then MMap 4
  else if m <? 0xe0 then MBad
  else if m <? 0x100 then MNfix m
  else MBad.

(** Read a [k]-byte big-endian field ([acc] = value so far); [None] on truncation. *)
Fixpoint read_be (k : nat) (bs : list N) (acc : N) : option (N * list N) :=
  match k with
  | O => Some (acc, bs)
  | S k' => match bs with [] => None | b :: r => read_be k' r (acc * 256 + b) end
  end.

(** Split off exactly [n] bytes ([acc] = the bytes so far, reversed); [None] on truncation. *)
Fixpoint split_at (n : N) (bs acc : list N) : option (list N * list N) :=
  match bs with
  | [] => if n =? 0 then Some (rev_append acc [], []) else None
  | b :: r => if n =? 0 then Some (rev_append acc [], bs) else split_at (n - 1) r (b :: acc)
  end.

Definition dec_str_body (n : N) (bs : list N) : res (list N) :=
  match split_at n bs [] with Some (s, r) => Ok s r | None => Err end.

(** A string in any of its four formats (used for map keys). *)
Definition dec_key (bs : list N) : res (list N) :=
  match bs with
  | [] => Err
  | m :: r =>
      match classify m with
      | MFixStr n => dec_str_body n r
      | MStr k => match read_be k r 0 with Some (n, r') => dec_str_body n r' | None => Err end
      | _ => Err
      end
  end.

Section Seq.
  Variable dec : list N -> res tree.

  (** [n] consecutive values; [g] bounds the count ([OutOfFuel] when it runs out). *)
  Fixpoint dec_items (g : nat) (n : N) (bs : list N) (acc : list tree) : res (list tree) :=
    if n =? 0 then Ok (rev_append acc []) bs
    else match g with
         | O => OutOfFuel
         | S g' =>
             match dec bs with
             | Ok t r => dec_items g' (n - 1) r (t :: acc)
             | Err => Err
             | OutOfFuel => OutOfFuel
             end
         end.

  (** [n] consecutive (string key, value) pairs. *)
  Fixpoint dec_pairs (g : nat) (n : N) (bs : list N) (acc : list (list N * tree))
    : res (list (list N * tree)) :=
    if n =? 0 then Ok (rev_append acc []) bs
    else match g with
         | O => OutOfFuel
         | S g' =>
             match dec_key bs with
             | Ok k r =>
                 match dec r with
                 | Ok t r' => dec_pairs g' (n - 1) r' ((k, t) :: acc)
                 | Err => Err
                 | OutOfFuel => OutOfFuel
                 end
             | Err => Err
             | OutOfFuel => OutOfFuel
             end
         end.
End Seq.

Definition with_be {A} (k : nat) (bs : list N) (f : N -> list N -> res A) : res A :=
  match read_be k bs 0 with Some (v, r) => f v r | None => Err end.

Definition res_map {A B} (f : A -> B) (r : res A) : res B :=
  match r with Ok a rest => Ok (f a) rest | Err => Err | OutOfFuel => OutOfFuel end.

(** One value at the head of [bs].  [fuel] bounds the nesting depth and (per container) the
    number of children; [length bs] always suffices since every value takes at least one byte. *)
Fixpoint dec_core (fuel : nat) (bs : list N) : res tree :=
  match fuel with
  | O => OutOfFuel
  | S f =>
      match bs with
      | [] => Err
      | m :: r =>
          match classify m with
          | MPfix v => Ok (TInt (Z.of_N v)) r
          | MNfix v => Ok (TInt (Z.of_N v - 256)) r
          | MNil => Ok TNull r
          | MFalse => Ok (TBool false) r
          | MTrue => Ok (TBool true) r
          | MUint k => with_be k r (fun v r' => Ok (TInt (Z.of_N v)) r')
          | MSint k => with_be k r (fun v r' => Ok (TInt (to_signed k v)) r')
          | MF32 => with_be 4 r (fun v r' => Ok (TF64 (of_f32 v)) r')
          | MF64 => with_be 8 r (fun v r' => Ok (TF64 v) r')
          | MFixStr n => res_map TStr (dec_str_body n r)
          | MStr k => with_be k r (fun n r' => res_map TStr (dec_str_body n r'))
          | MFixArr n => res_map TArr (dec_items (dec_core f) f n r [])
          | MArr k => with_be k r (fun n r' => res_map TArr (dec_items (dec_core f) f n r' []))
          | MFixMap n => res_map TObj (dec_pairs (dec_core f) f n r [])
          | MMap k => with_be k r (fun n r' => res_map TObj (dec_pairs (dec_core f) f n r' []))
          | MBad => Err
          end
      end
  end.

(** [acc + length l], tail recursive. *)
Fixpoint count {A} (l : list A) (acc : N) : N :=
  match l with [] => acc | _ :: t => count t (acc + 1) end.

(** Decode one value starting at position [p] of [bs]; returns the tree and the end position.
    [None]: malformed / unsupported / truncated input, or fuel exhausted. *)
Definition dec_tree (fuel : nat) (bs : list N) (p : N) : option (tree * N) :=
  match dec_core fuel (dropN bs p) with
  | Ok t rest => Some (t, count bs 0 - count rest 0)
  | _ => None
  end.

(** [acc + length l] as a [nat], tail recursive (the stdlib [length] is not: OCaml stack). *)
Fixpoint len_acc {A} (l : list A) (acc : nat) : nat :=
  match l with [] => acc | _ :: t => len_acc t (S acc) end.

(** Fuel that always suffices for [bs]: [S (length bs)]. *)
Definition fuel_for (bs : list N) : nat := S (len_acc bs O).

(** The whole buffer is exactly one value. *)
Definition dec_doc (bs : list N) : option tree :=
  match dec_core (fuel_for bs) bs with
  | Ok t [] => Some t
  | _ => None
  end.
