(** Transcription of the rmp 0.8.15 encoders the provider calls (thresholds as in the crate source):
    write_nil, write_bool, write_sint, write_f64, write_str_len, write_array_len, write_map_len. *)
From Coq Require Import NArith ZArith List.
From SFV Require Import Base.Bytes.
Import ListNotations.
Open Scope N_scope.

Definition write_nil : list N := [0xc0].
Definition write_bool (b : bool) : list N := [if b then 0xc3 else 0xc2].
Definition write_f64 (bits : N) : list N := 0xcb :: be 8 bits.

(** [write_sint(val: i64)]: the most compact integer representation (unsigned markers for val >= 0). *)
Definition write_sint (z : Z) : list N :=
  if ((-32 <=? z) && (z <? 0))%Z%bool then [of_signed 1 z]                        (* nfix: 0xe0..0xff *)
  else if ((-128 <=? z) && (z <? -32))%Z%bool then 0xd0 :: be 1 (of_signed 1 z)
  else if ((-32768 <=? z) && (z <? -128))%Z%bool then 0xd1 :: be 2 (of_signed 2 z)
  else if ((-2147483648 <=? z) && (z <? -32768))%Z%bool then 0xd2 :: be 4 (of_signed 4 z)
  else if (z <? -2147483648)%Z then 0xd3 :: be 8 (of_signed 8 z)
  else if ((0 <=? z) && (z <? 128))%Z%bool then [Z.to_N z]                        (* pfix *)
  else if (z <? 256)%Z then 0xcc :: be 1 (Z.to_N z)
  else if (z <? 65536)%Z then 0xcd :: be 2 (Z.to_N z)
  else if (z <? 4294967296)%Z then 0xce :: be 4 (Z.to_N z)
  else 0xcf :: be 8 (Z.to_N z).

(** [len] is the u32 actually passed (already truncated by the caller's [as u32]). *)
Definition write_str_len (len : N) : list N :=
  if len <? 32 then [0xa0 + len]
  else if len <? 256 then 0xd9 :: be 1 len
  else if len <? 65536 then 0xda :: be 2 len
  else 0xdb :: be 4 len.

Definition write_array_len (len : N) : list N :=
  if len <? 16 then [0x90 + len]
  else if len <? 65536 then 0xdc :: be 2 len
  else 0xdd :: be 4 len.

Definition write_map_len (len : N) : list N :=
  if len <? 16 then [0x80 + len]
  else if len <? 65536 then 0xde :: be 2 len
  else 0xdf :: be 4 len.
