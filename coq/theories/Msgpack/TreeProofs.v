(** PROOFS about Msgpack/Tree.v: the decoder inverts the canonical encoder on well-formed trees. *)
From Coq Require Import NArith ZArith Lia List Bool Arith ZifyNat ZifyN ZifyBool.
From SFV Require Import Base.Bytes Base.F64 Msgpack.Rmp Msgpack.Tree.
Import ListNotations.
Open Scope N_scope.

(** * Lists and lengths *)

Lemma lenN_nil {A} : lenN (@nil A) = 0.
Proof. reflexivity. Qed.

Lemma lenN_cons {A} (x : A) l : lenN (x :: l) = lenN l + 1.
Proof. unfold lenN. cbn [length]. lia. Qed.

Lemma lenN_app {A} (a b : list A) : lenN (a ++ b) = lenN a + lenN b.
Proof. unfold lenN. rewrite app_length. lia. Qed.

Lemma count_lenN {A} (l : list A) acc : count l acc = acc + lenN l.
Proof.
  revert acc. induction l as [|x l IH]; intro acc; cbn [count].
  - rewrite lenN_nil. lia.
  - rewrite IH, lenN_cons. lia.
Qed.

Lemma dropN_app {A} (a b : list A) : dropN (a ++ b) (lenN a) = b.
Proof.
  induction a as [|x a IH].
  - cbn [app]. rewrite lenN_nil. destruct b; reflexivity.
  - cbn [app dropN]. rewrite lenN_cons.
    destruct (N.eqb_spec (lenN a + 1) 0); [lia|].
    replace (lenN a + 1 - 1) with (lenN a) by lia. exact IH.
Qed.

(** * A nested induction principle for trees *)

Section TreeInd.
  Variable P : tree -> Prop.
  Hypothesis HNull : P TNull.
  Hypothesis HBool : forall b, P (TBool b).
  Hypothesis HInt : forall z, P (TInt z).
  Hypothesis HF64 : forall b, P (TF64 b).
  Hypothesis HStr : forall s, P (TStr s).
  Hypothesis HArr : forall l, Forall P l -> P (TArr l).
  Hypothesis HObj : forall l, Forall (fun kv => P (snd kv)) l -> P (TObj l).

  Fixpoint tree_ind' (t : tree) : P t :=
    match t with
    | TNull => HNull
    | TBool b => HBool b
    | TInt z => HInt z
    | TF64 b => HF64 b
    | TStr s => HStr s
    | TArr l =>
        HArr l ((fix go (l : list tree) : Forall P l :=
                   match l with
                   | [] => Forall_nil _
                   | x :: r => Forall_cons x (tree_ind' x) (go r)
                   end) l)
    | TObj l =>
        HObj l ((fix go (l : list (list N * tree)) : Forall (fun kv => P (snd kv)) l :=
                   match l with
                   | [] => Forall_nil _
                   | x :: r => Forall_cons x (tree_ind' (snd x)) (go r)
                   end) l)
    end.
End TreeInd.

Lemma enc_tree_obj l :
  enc_tree (TObj l) = write_map_len (lenN l mod 2 ^ 32) ++ flat_map enc_pair l.
Proof.
  cbn [enc_tree]. f_equal. apply flat_map_ext. intros [k v]. reflexivity.
Qed.

Lemma enc_tree_arr l :
  enc_tree (TArr l) = write_array_len (lenN l mod 2 ^ 32) ++ flat_map enc_tree l.
Proof. reflexivity. Qed.

(** * Big-endian fields *)

Lemma pow8S (k : nat) : 2 ^ (8 * N.of_nat (S k)) = 2 ^ (8 * N.of_nat k) * 256.
Proof.
  replace (8 * N.of_nat (S k)) with (8 * N.of_nat k + 8) by lia.
  rewrite N.pow_add_r. reflexivity.
Qed.

Lemma read_be_be k : forall v post acc,
  read_be k (be k v ++ post) acc = Some (acc * 2 ^ (8 * N.of_nat k) + v mod 2 ^ (8 * N.of_nat k), post).
Proof.
  induction k as [|k IH]; intros v post acc.
  - cbn [read_be be app]. change (2 ^ (8 * N.of_nat 0)) with 1. rewrite N.mod_1_r. f_equal. f_equal. lia.
  - cbn [read_be be app]. rewrite IH. f_equal. f_equal.
    rewrite pow8S.
    set (B := 2 ^ (8 * N.of_nat k)).
    assert (HB : B <> 0) by (apply N.pow_nonzero; lia).
    rewrite (N.mod_mul_r v B 256) by lia. lia.
Qed.

Lemma read_be_exact k v post :
  v < 2 ^ (8 * N.of_nat k) -> read_be k (be k v ++ post) 0 = Some (v, post).
Proof.
  intro H. rewrite read_be_be. rewrite N.mod_small by exact H. reflexivity.
Qed.

Lemma be_val_be k v : v < 2 ^ (8 * N.of_nat k) -> be_val (be k v) = v.
Proof.
  intro H. unfold be_val.
  assert (G : forall k v acc, fold_left (fun a b => a * 256 + b) (be k v) acc
                               = acc * 2 ^ (8 * N.of_nat k) + v mod 2 ^ (8 * N.of_nat k)).
  { clear. induction k as [|k IH]; intros v acc.
    - cbn [be fold_left]. change (2 ^ (8 * N.of_nat 0)) with 1. rewrite N.mod_1_r. lia.
    - cbn [be fold_left]. rewrite IH. rewrite pow8S.
      set (B := 2 ^ (8 * N.of_nat k)).
      assert (HB : B <> 0) by (apply N.pow_nonzero; lia).
      rewrite (N.mod_mul_r v B 256) by lia. lia. }
  rewrite G. rewrite N.mod_small by exact H. lia.
Qed.

Lemma length_be k v : length (be k v) = k.
Proof. induction k; cbn [be length]; congruence. Qed.

(** * Strings *)

Lemma split_at_app s : forall post acc,
  split_at (lenN s) (s ++ post) acc = Some (rev acc ++ s, post).
Proof.
  induction s as [|b s IH]; intros post acc.
  - cbn [app]. rewrite lenN_nil. rewrite app_nil_r.
    destruct post; cbn [split_at]; rewrite rev_append_rev, app_nil_r; reflexivity.
  - cbn [app split_at]. rewrite lenN_cons.
    destruct (N.eqb_spec (lenN s + 1) 0); [lia|].
    replace (lenN s + 1 - 1) with (lenN s) by lia.
    rewrite IH. cbn [rev]. rewrite <- app_assoc. reflexivity.
Qed.

Lemma dec_str_body_app s post : dec_str_body (lenN s) (s ++ post) = Ok s post.
Proof. unfold dec_str_body. rewrite split_at_app. reflexivity. Qed.

(** * Headers *)

Ltac ltb_cases :=
  repeat match goal with
         | |- context [if ?a <? ?b then _ else _] => destruct (N.ltb_spec a b); try lia
         | |- context [if ?a =? ?b then _ else _] => destruct (N.eqb_spec a b); try lia
         end.

Lemma classify_fixstr n : n < 32 -> classify (0xa0 + n) = MFixStr n.
Proof. intro H. unfold classify. ltb_cases. f_equal. lia. Qed.
Lemma classify_fixarr n : n < 16 -> classify (0x90 + n) = MFixArr n.
Proof. intro H. unfold classify. ltb_cases. f_equal. lia. Qed.
Lemma classify_fixmap n : n < 16 -> classify (0x80 + n) = MFixMap n.
Proof. intro H. unfold classify. ltb_cases. f_equal. lia. Qed.
Lemma classify_pfix n : n < 128 -> classify n = MPfix n.
Proof. intro H. unfold classify. ltb_cases. reflexivity. Qed.
Lemma classify_nfix n : 224 <= n < 256 -> classify n = MNfix n.
Proof. intro H. unfold classify. ltb_cases. reflexivity. Qed.

Lemma write_str_len_spec n : n < 2 ^ 32 ->
  (n < 32 /\ write_str_len n = [0xa0 + n]) \/
  (exists k m, write_str_len n = m :: be k n /\ classify m = MStr k /\ n < 2 ^ (8 * N.of_nat k)).
Proof.
  intro H. unfold write_str_len.
  destruct (N.ltb_spec n 32); [left; split; [assumption|reflexivity]|right].
  destruct (N.ltb_spec n 256); [exists 1%nat, 0xd9; repeat split; assumption|].
  destruct (N.ltb_spec n 65536); [exists 2%nat, 0xda; repeat split; assumption|].
  exists 4%nat, 0xdb; repeat split; assumption.
Qed.

Lemma write_array_len_spec n : n < 2 ^ 32 ->
  (n < 16 /\ write_array_len n = [0x90 + n]) \/
  (exists k m, write_array_len n = m :: be k n /\ classify m = MArr k /\ n < 2 ^ (8 * N.of_nat k)).
Proof.
  intro H. unfold write_array_len.
  destruct (N.ltb_spec n 16); [left; split; [assumption|reflexivity]|right].
  destruct (N.ltb_spec n 65536); [exists 2%nat, 0xdc; repeat split; assumption|].
  exists 4%nat, 0xdd; repeat split; assumption.
Qed.

Lemma write_map_len_spec n : n < 2 ^ 32 ->
  (n < 16 /\ write_map_len n = [0x80 + n]) \/
  (exists k m, write_map_len n = m :: be k n /\ classify m = MMap k /\ n < 2 ^ (8 * N.of_nat k)).
Proof.
  intro H. unfold write_map_len.
  destruct (N.ltb_spec n 16); [left; split; [assumption|reflexivity]|right].
  destruct (N.ltb_spec n 65536); [exists 2%nat, 0xde; repeat split; assumption|].
  exists 4%nat, 0xdf; repeat split; assumption.
Qed.

Lemma with_be_exact {A} k v post (f : N -> list N -> res A) :
  v < 2 ^ (8 * N.of_nat k) -> with_be k (be k v ++ post) f = f v post.
Proof. intro H. unfold with_be. rewrite read_be_exact by exact H. reflexivity. Qed.

Lemma wf_str_len s : wf_str s = true -> lenN s < 2 ^ 32.
Proof. unfold wf_str. intro H. apply andb_prop in H. destruct H as [H _]. apply N.ltb_lt. exact H. Qed.

Lemma dec_key_enc s post : lenN s < 2 ^ 32 -> dec_key (enc_str s ++ post) = Ok s post.
Proof.
  intro H. unfold enc_str. rewrite N.mod_small by exact H.
  destruct (write_str_len_spec (lenN s) H) as [[Hs E]|(k & m & E & C & B)]; rewrite E.
  - cbn [app dec_key]. rewrite classify_fixstr by exact Hs. apply dec_str_body_app.
  - cbn [app dec_key]. rewrite C. rewrite <- app_assoc, read_be_exact by exact B.
    apply dec_str_body_app.
Qed.

Lemma dec_core_str f s post :
  lenN s < 2 ^ 32 -> dec_core (S f) (enc_str s ++ post) = Ok (TStr s) post.
Proof.
  intro H. unfold enc_str. rewrite N.mod_small by exact H.
  destruct (write_str_len_spec (lenN s) H) as [[Hs E]|(k & m & E & C & B)]; rewrite E.
  - cbn [app dec_core]. rewrite classify_fixstr by exact Hs. rewrite dec_str_body_app. reflexivity.
  - cbn [app dec_core]. rewrite C. rewrite <- app_assoc, with_be_exact by exact B.
    rewrite dec_str_body_app. reflexivity.
Qed.

(** * Integers *)

Lemma to_signed_1 v : to_signed 1 v = if v <? 128 then Z.of_N v else (Z.of_N v - 256)%Z.
Proof. reflexivity. Qed.
Lemma to_signed_2 v : to_signed 2 v = if v <? 32768 then Z.of_N v else (Z.of_N v - 65536)%Z.
Proof. reflexivity. Qed.
Lemma to_signed_4 v : to_signed 4 v = if v <? 2147483648 then Z.of_N v else (Z.of_N v - 4294967296)%Z.
Proof. reflexivity. Qed.
Lemma to_signed_8 v : to_signed 8 v = if v <? 2 ^ 63 then Z.of_N v else (Z.of_N v - 2 ^ 64)%Z.
Proof. reflexivity. Qed.

Lemma of_signed_1 z : of_signed 1 z = if (z <? 0)%Z then Z.to_N (z + 256) else Z.to_N z.
Proof. reflexivity. Qed.
Lemma of_signed_2 z : of_signed 2 z = if (z <? 0)%Z then Z.to_N (z + 65536) else Z.to_N z.
Proof. reflexivity. Qed.
Lemma of_signed_4 z : of_signed 4 z = if (z <? 0)%Z then Z.to_N (z + 4294967296) else Z.to_N z.
Proof. reflexivity. Qed.
Lemma of_signed_8 z : of_signed 8 z = if (z <? 0)%Z then Z.to_N (z + 2 ^ 64) else Z.to_N z.
Proof. reflexivity. Qed.

Lemma pow8_1 : 2 ^ (8 * N.of_nat 1) = 256. Proof. reflexivity. Qed.
Lemma pow8_2 : 2 ^ (8 * N.of_nat 2) = 65536. Proof. reflexivity. Qed.
Lemma pow8_4 : 2 ^ (8 * N.of_nat 4) = 4294967296. Proof. reflexivity. Qed.
Lemma pow8_8 : 2 ^ (8 * N.of_nat 8) = 2 ^ 64. Proof. reflexivity. Qed.

Lemma dec_core_int f z post :
  (- 2 ^ 63 <= z < 2 ^ 64)%Z -> dec_core (S f) (write_sint z ++ post) = Ok (TInt z) post.
Proof.
  intro R.
  assert (P63 : (2 ^ 63 = 9223372036854775808)%Z) by reflexivity.
  assert (P64 : (2 ^ 64 = 18446744073709551616)%Z) by reflexivity.
  assert (N63 : 2 ^ 63 = 9223372036854775808) by reflexivity.
  assert (N64 : 2 ^ 64 = 18446744073709551616) by reflexivity.
  rewrite P63, P64 in R.
  unfold write_sint.
  destruct ((-32 <=? z) && (z <? 0))%Z eqn:E1.
  { cbn [app dec_core]. rewrite of_signed_1. destruct (Z.ltb_spec z 0); [|lia].
    rewrite classify_nfix by lia. f_equal. f_equal. lia. }
  destruct ((-128 <=? z) && (z <? -32))%Z eqn:E2.
  { cbn [app dec_core]. change (classify 208) with (MSint 1); cbv beta iota.
    rewrite of_signed_1. destruct (Z.ltb_spec z 0); [|lia].
    rewrite with_be_exact by (rewrite pow8_1; lia).
    f_equal. f_equal. rewrite to_signed_1.
    destruct (N.ltb_spec (Z.to_N (z + 256)) 128); lia. }
  destruct ((-32768 <=? z) && (z <? -128))%Z eqn:E3.
  { cbn [app dec_core]. change (classify 209) with (MSint 2); cbv beta iota.
    rewrite of_signed_2. destruct (Z.ltb_spec z 0); [|lia].
    rewrite with_be_exact by (rewrite pow8_2; lia).
    f_equal. f_equal. rewrite to_signed_2.
    destruct (N.ltb_spec (Z.to_N (z + 65536)) 32768); lia. }
  destruct ((-2147483648 <=? z) && (z <? -32768))%Z eqn:E4.
  { cbn [app dec_core]. change (classify 210) with (MSint 4); cbv beta iota.
    rewrite of_signed_4. destruct (Z.ltb_spec z 0); [|lia].
    rewrite with_be_exact by (rewrite pow8_4; lia).
    f_equal. f_equal. rewrite to_signed_4.
    destruct (N.ltb_spec (Z.to_N (z + 4294967296)) 2147483648); lia. }
  destruct (z <? -2147483648)%Z eqn:E5.
  { cbn [app dec_core]. change (classify 211) with (MSint 8); cbv beta iota.
    rewrite of_signed_8, P64. destruct (Z.ltb_spec z 0); [|lia].
    rewrite with_be_exact by (rewrite pow8_8, N64; lia).
    f_equal. f_equal. rewrite to_signed_8, N63, P64.
    destruct (N.ltb_spec (Z.to_N (z + 18446744073709551616)) 9223372036854775808); lia. }
  destruct ((0 <=? z) && (z <? 128))%Z eqn:E6.
  { cbn [app dec_core]. rewrite classify_pfix by lia. f_equal. f_equal. lia. }
  destruct (z <? 256)%Z eqn:E7.
  { cbn [app dec_core]. change (classify 204) with (MUint 1); cbv beta iota.
    rewrite with_be_exact by (rewrite pow8_1; lia). f_equal. f_equal. lia. }
  destruct (z <? 65536)%Z eqn:E8.
  { cbn [app dec_core]. change (classify 205) with (MUint 2); cbv beta iota.
    rewrite with_be_exact by (rewrite pow8_2; lia). f_equal. f_equal. lia. }
  destruct (z <? 4294967296)%Z eqn:E9.
  { cbn [app dec_core]. change (classify 206) with (MUint 4); cbv beta iota.
    rewrite with_be_exact by (rewrite pow8_4; lia). f_equal. f_equal. lia. }
  cbn [app dec_core]. change (classify 207) with (MUint 8); cbv beta iota.
  rewrite with_be_exact by (rewrite pow8_8, N64; lia). f_equal. f_equal. lia.
Qed.

(** * Sequences *)

Section SeqProofs.
  Variable dec : list N -> res tree.

  Lemma dec_items_enc l :
    Forall (fun t => forall post, dec (enc_tree t ++ post) = Ok t post) l ->
    forall g acc post, (length l <= g)%nat ->
      dec_items dec g (lenN l) (flat_map enc_tree l ++ post) acc = Ok (rev acc ++ l) post.
  Proof.
    induction 1 as [|t l Ht Hl IH]; intros g acc post Hg.
    - destruct g; cbn [dec_items flat_map app]; rewrite lenN_nil; cbn [N.eqb];
        rewrite rev_append_rev, !app_nil_r; reflexivity.
    - destruct g as [|g]; [cbn [length] in Hg; lia|].
      cbn [dec_items flat_map]. rewrite lenN_cons.
      destruct (N.eqb_spec (lenN l + 1) 0); [lia|].
      rewrite <- app_assoc, Ht.
      replace (lenN l + 1 - 1) with (lenN l) by lia.
      rewrite IH by (cbn [length] in Hg; lia).
      cbn [rev]. rewrite <- app_assoc. reflexivity.
  Qed.

  Lemma dec_pairs_enc l :
    Forall (fun kv => lenN (fst kv) < 2 ^ 32 /\
                      forall post, dec (enc_tree (snd kv) ++ post) = Ok (snd kv) post) l ->
    forall g acc post, (length l <= g)%nat ->
      dec_pairs dec g (lenN l) (flat_map enc_pair l ++ post) acc = Ok (rev acc ++ l) post.
  Proof.
    induction 1 as [|[k v] l [Hk Hv] Hl IH]; intros g acc post Hg.
    - destruct g; cbn [dec_pairs flat_map app]; rewrite lenN_nil; cbn [N.eqb];
        rewrite rev_append_rev, !app_nil_r; reflexivity.
    - destruct g as [|g]; [cbn [length] in Hg; lia|].
      cbn [dec_pairs flat_map]. rewrite lenN_cons.
      destruct (N.eqb_spec (lenN l + 1) 0); [lia|].
      unfold enc_pair at 1. cbn [fst snd] in *.
      rewrite <- !app_assoc, dec_key_enc by exact Hk. rewrite Hv.
      replace (lenN l + 1 - 1) with (lenN l) by lia.
      rewrite IH by (cbn [length] in Hg; lia).
      cbn [rev]. rewrite <- app_assoc. reflexivity.
  Qed.
End SeqProofs.

(** * Sizes *)

Lemma write_array_len_pos n : (1 <= length (write_array_len n))%nat.
Proof. unfold write_array_len. ltb_cases; cbn [length]; lia. Qed.
Lemma write_map_len_pos n : (1 <= length (write_map_len n))%nat.
Proof. unfold write_map_len. ltb_cases; cbn [length]; lia. Qed.
Lemma write_str_len_pos n : (1 <= length (write_str_len n))%nat.
Proof. unfold write_str_len. ltb_cases; cbn [length]; lia. Qed.
Lemma write_sint_pos z : (1 <= length (write_sint z))%nat.
Proof.
  unfold write_sint.
  repeat match goal with |- context [if ?c then _ else _] => destruct c end; cbn [length]; lia.
Qed.

Lemma enc_tree_pos t : (1 <= length (enc_tree t))%nat.
Proof.
  destruct t; cbn [enc_tree].
  - cbn; lia.
  - cbn; lia.
  - apply write_sint_pos.
  - cbn; lia.
  - unfold enc_str. rewrite app_length. pose proof (write_str_len_pos (lenN s mod 2 ^ 32)). lia.
  - rewrite app_length. pose proof (write_array_len_pos (lenN l mod 2 ^ 32)). lia.
  - rewrite app_length. pose proof (write_map_len_pos (lenN l mod 2 ^ 32)). lia.
Qed.

Lemma flat_enc_bound l :
  (length l <= length (flat_map enc_tree l))%nat /\
  Forall (fun t => (length (enc_tree t) <= length (flat_map enc_tree l))%nat) l.
Proof.
  induction l as [|t l [IH1 IH2]]; cbn [flat_map length].
  - split; [lia|constructor].
  - rewrite app_length. pose proof (enc_tree_pos t). split; [lia|].
    constructor; [lia|]. eapply Forall_impl; [|exact IH2]. cbn beta. intros; lia.
Qed.

Lemma flat_pair_bound l :
  (length l <= length (flat_map enc_pair l))%nat /\
  Forall (fun kv => (length (enc_tree (snd kv)) <= length (flat_map enc_pair l))%nat) l.
Proof.
  induction l as [|[k t] l [IH1 IH2]]; cbn [flat_map length].
  - split; [lia|constructor].
  - unfold enc_pair at 1 3. cbn [fst snd]. rewrite !app_length. pose proof (enc_tree_pos t).
    split; [lia|].
    constructor; [cbn [snd]; lia|]. eapply Forall_impl; [|exact IH2]. cbn beta. intros; lia.
Qed.

(** * The round trip *)

Theorem dec_core_enc t :
  wf_tree t = true ->
  forall fuel post, (length (enc_tree t) <= fuel)%nat ->
    dec_core fuel (enc_tree t ++ post) = Ok t post.
Proof.
  induction t using tree_ind'; intros WF fuel post Hf;
    (destruct fuel as [|f];
     [exfalso; match goal with H : (length (enc_tree ?t) <= 0)%nat |- _ =>
                 pose proof (enc_tree_pos t); lia end|]).
  - reflexivity.
  - destruct b; reflexivity.
  - cbn [enc_tree]. apply dec_core_int. cbn [wf_tree] in WF. lia.
  - cbn [enc_tree wf_tree] in *. unfold write_f64. cbn [app dec_core].
    change (classify 203) with MF64; cbv beta iota.
    rewrite with_be_exact; [reflexivity|]. rewrite pow8_8. apply N.ltb_lt. exact WF.
  - cbn [enc_tree wf_tree] in *. apply dec_core_str. apply wf_str_len. exact WF.
  - (* arrays *)
    cbn [wf_tree] in WF. apply andb_prop in WF. destruct WF as [WL WC].
    apply N.ltb_lt in WL. rewrite forallb_forall in WC.
    rewrite enc_tree_arr in *. rewrite N.mod_small in * by exact WL.
    pose proof (write_array_len_pos (lenN l)) as HH. rewrite app_length in Hf.
    destruct (flat_enc_bound l) as [B1 B2].
    assert (IT : forall post0, dec_items (dec_core f) f (lenN l) (flat_map enc_tree l ++ post0) []
                               = Ok l post0).
    { intro post0. rewrite dec_items_enc; [reflexivity| |lia].
      rewrite Forall_forall in *. intros t Ht post1. apply H; [exact Ht|apply WC; exact Ht|].
      specialize (B2 t Ht). cbn beta in B2. lia. }
    destruct (write_array_len_spec (lenN l) WL) as [[Hs E]|(k & m & E & C & B)]; rewrite E.
    + cbn [app dec_core]. rewrite classify_fixarr by exact Hs. rewrite IT. reflexivity.
    + cbn [app dec_core]. rewrite C. rewrite <- app_assoc, with_be_exact by exact B.
      rewrite IT. reflexivity.
  - (* objects *)
    cbn [wf_tree] in WF. apply andb_prop in WF. destruct WF as [WL WC].
    apply N.ltb_lt in WL. rewrite forallb_forall in WC.
    rewrite enc_tree_obj in *. rewrite N.mod_small in * by exact WL.
    pose proof (write_map_len_pos (lenN l)) as HH. rewrite app_length in Hf.
    destruct (flat_pair_bound l) as [B1 B2].
    assert (IT : forall post0, dec_pairs (dec_core f) f (lenN l) (flat_map enc_pair l ++ post0) []
                               = Ok l post0).
    { intro post0. rewrite dec_pairs_enc; [reflexivity| |lia].
      rewrite Forall_forall in *. intros [k t] Ht. cbn [fst snd].
      specialize (WC _ Ht). cbn beta iota in WC. apply andb_prop in WC. destruct WC as [WK WT].
      split; [apply wf_str_len; exact WK|].
      intro post1. apply (H _ Ht); [exact WT|].
      specialize (B2 _ Ht). cbn beta in B2. cbn [snd] in *. lia. }
    destruct (write_map_len_spec (lenN l) WL) as [[Hs E]|(k & m & E & C & B)]; rewrite E.
    + cbn [app dec_core]. rewrite classify_fixmap by exact Hs. rewrite IT. reflexivity.
    + cbn [app dec_core]. rewrite C. rewrite <- app_assoc, with_be_exact by exact B.
      rewrite IT. reflexivity.
Qed.

Theorem dec_enc t pre post fuel :
  wf_tree t = true -> (length (enc_tree t) <= fuel)%nat ->
  dec_tree fuel (pre ++ enc_tree t ++ post) (lenN pre)
  = Some (t, lenN pre + lenN (enc_tree t)).
Proof.
  intros WF Hf. unfold dec_tree. rewrite dropN_app, dec_core_enc by assumption.
  rewrite !count_lenN, !lenN_app. f_equal. f_equal. lia.
Qed.

Corollary dec_enc_whole t :
  wf_tree t = true ->
  dec_tree (S (length (enc_tree t))) (enc_tree t) 0 = Some (t, lenN (enc_tree t)).
Proof.
  intro WF. pose proof (dec_enc t [] [] (S (length (enc_tree t))) WF) as H.
  cbn [app] in H. rewrite app_nil_r, lenN_nil in H. rewrite H by lia. f_equal.
Qed.

Lemma len_acc_length {A} (l : list A) acc : len_acc l acc = (length l + acc)%nat.
Proof.
  revert acc. induction l as [|x l IH]; intro acc; cbn [len_acc length]; [reflexivity|].
  rewrite IH. lia.
Qed.

Lemma fuel_for_length bs : fuel_for bs = S (length bs).
Proof. unfold fuel_for. rewrite len_acc_length. lia. Qed.

Corollary dec_doc_enc t : wf_tree t = true -> dec_doc (enc_tree t) = Some t.
Proof.
  intro WF. unfold dec_doc. rewrite fuel_for_length. rewrite <- (app_nil_r (enc_tree t)) at 2.
  rewrite dec_core_enc by (assumption || lia). reflexivity.
Qed.

(** The canonical encoding is injective on well-formed trees. *)
Corollary enc_tree_inj t1 t2 :
  wf_tree t1 = true -> wf_tree t2 = true -> enc_tree t1 = enc_tree t2 -> t1 = t2.
Proof.
  intros W1 W2 E. pose proof (dec_doc_enc t1 W1) as H1. pose proof (dec_doc_enc t2 W2) as H2.
  rewrite E in H1. congruence.
Qed.

(** * Fuel: [S (length bs)] always suffices, on arbitrary input *)

Lemma read_be_len k : forall bs acc v r, read_be k bs acc = Some (v, r) -> (length r <= length bs)%nat.
Proof.
  induction k as [|k IH]; intros bs acc v r H; cbn [read_be] in H.
  - injection H as _ <-. lia.
  - destruct bs as [|b bs]; [discriminate|]. apply IH in H. cbn [length]. lia.
Qed.

Lemma split_at_len bs : forall n acc s r, split_at n bs acc = Some (s, r) -> (length r <= length bs)%nat.
Proof.
  induction bs as [|b bs IH]; intros n acc s r H; cbn [split_at] in H.
  - destruct (n =? 0); [injection H as _ <-; lia|discriminate].
  - destruct (n =? 0); [injection H as _ <-; lia|]. apply IH in H. cbn [length]. lia.
Qed.

Lemma dec_str_body_len n bs s r : dec_str_body n bs = Ok s r -> (length r <= length bs)%nat.
Proof.
  unfold dec_str_body. destruct (split_at n bs []) as [[s0 r0]|] eqn:E; [|discriminate].
  intros [= _ <-]. eapply split_at_len. exact E.
Qed.

Lemma dec_str_body_fuel n bs : dec_str_body n bs <> OutOfFuel.
Proof. unfold dec_str_body. destruct (split_at n bs []) as [[s0 r0]|]; discriminate. Qed.

Lemma dec_key_len bs k r : dec_key bs = Ok k r -> (length r < length bs)%nat.
Proof.
  unfold dec_key. destruct bs as [|m bs]; [discriminate|]. cbn [length].
  destruct (classify m); try discriminate.
  - intro H. apply dec_str_body_len in H. lia.
  - destruct (read_be k0 bs 0) as [[n r']|] eqn:E; [|discriminate].
    intro H. apply dec_str_body_len in H. apply read_be_len in E. lia.
Qed.

Lemma dec_key_fuel bs : dec_key bs <> OutOfFuel.
Proof.
  unfold dec_key. destruct bs as [|m bs]; [discriminate|].
  destruct (classify m); try discriminate.
  - apply dec_str_body_fuel.
  - destruct (read_be k bs 0) as [[n r']|]; [apply dec_str_body_fuel|discriminate].
Qed.

Lemma res_map_ok {A B} (f : A -> B) x b r : res_map f x = Ok b r -> exists a, x = Ok a r.
Proof. destruct x; cbn [res_map]; intro H; try discriminate. injection H as _ <-. eauto. Qed.

Lemma res_map_fuel {A B} (f : A -> B) x : res_map f x = OutOfFuel -> x = OutOfFuel.
Proof. destruct x; cbn [res_map]; intro H; try discriminate. reflexivity. Qed.

Section SeqLen.
  Variable dec : list N -> res tree.
  Hypothesis dec_prog : forall bs t r, dec bs = Ok t r -> (length r < length bs)%nat.

  Lemma dec_items_len g : forall n bs acc l r,
    dec_items dec g n bs acc = Ok l r -> (length r <= length bs)%nat.
  Proof.
    induction g as [|g IH]; intros n bs acc l r H; cbn [dec_items] in H.
    - destruct (n =? 0); [injection H as _ <-; lia|discriminate].
    - destruct (n =? 0); [injection H as _ <-; lia|].
      destruct (dec bs) as [t r0| |] eqn:E; try discriminate.
      apply IH in H. apply dec_prog in E. lia.
  Qed.

  Lemma dec_pairs_len g : forall n bs acc l r,
    dec_pairs dec g n bs acc = Ok l r -> (length r <= length bs)%nat.
  Proof.
    induction g as [|g IH]; intros n bs acc l r H; cbn [dec_pairs] in H.
    - destruct (n =? 0); [injection H as _ <-; lia|discriminate].
    - destruct (n =? 0); [injection H as _ <-; lia|].
      destruct (dec_key bs) as [k r0| |] eqn:Ek; try discriminate.
      destruct (dec r0) as [t r1| |] eqn:E; try discriminate.
      apply IH in H. apply dec_prog in E. apply dec_key_len in Ek. lia.
  Qed.
End SeqLen.

Section SeqFuel.
  Variable dec : list N -> res tree.
  Variable F : nat.
  Hypothesis dec_prog : forall bs t r, dec bs = Ok t r -> (length r < length bs)%nat.
  Hypothesis dec_fuel : forall bs, (length bs < F)%nat -> dec bs <> OutOfFuel.

  Lemma dec_items_fuel g : forall n bs acc,
    (length bs < g)%nat -> (length bs < F)%nat -> dec_items dec g n bs acc <> OutOfFuel.
  Proof.
    induction g as [|g IH]; intros n bs acc Hg HF; [lia|]. cbn [dec_items].
    destruct (n =? 0); [discriminate|].
    destruct (dec bs) as [t r0| |] eqn:E; try discriminate.
    - apply dec_prog in E. apply IH; lia.
    - exfalso. exact (dec_fuel bs HF E).
  Qed.

  Lemma dec_pairs_fuel g : forall n bs acc,
    (length bs < g)%nat -> (length bs < F)%nat -> dec_pairs dec g n bs acc <> OutOfFuel.
  Proof.
    induction g as [|g IH]; intros n bs acc Hg HF; [lia|]. cbn [dec_pairs].
    destruct (n =? 0); [discriminate|].
    destruct (dec_key bs) as [k r0| |] eqn:Ek; try discriminate.
    - apply dec_key_len in Ek.
      destruct (dec r0) as [t r1| |] eqn:E; try discriminate.
      + apply dec_prog in E. apply IH; lia.
      + exfalso. apply (dec_fuel r0); [lia|exact E].
    - exfalso. exact (dec_key_fuel bs Ek).
  Qed.
End SeqFuel.

Lemma dec_core_progress_fuel fuel :
  (forall bs t r, dec_core fuel bs = Ok t r -> (length r < length bs)%nat) /\
  (forall bs, (length bs < fuel)%nat -> dec_core fuel bs <> OutOfFuel).
Proof.
  induction fuel as [|f [IHp IHf]].
  - split; [intros bs t r H; discriminate|intros bs H; lia].
  - split.
    + intros bs t r H. destruct bs as [|m bs]; [discriminate|]. cbn [dec_core length] in *.
      destruct (classify m); unfold with_be in H;
        try (destruct (read_be _ bs 0) as [[v r']|] eqn:E; [apply read_be_len in E|discriminate]);
        try (injection H as _ <-; lia); try discriminate;
        apply res_map_ok in H; destruct H as [a H].
      * apply (dec_pairs_len _ IHp) in H. lia.
      * apply (dec_items_len _ IHp) in H. lia.
      * apply dec_str_body_len in H. lia.
      * apply dec_str_body_len in H. lia.
      * apply (dec_items_len _ IHp) in H. lia.
      * apply (dec_pairs_len _ IHp) in H. lia.
    + intros bs Hl H. destruct bs as [|m bs]; [discriminate|]. cbn [dec_core length] in *.
      destruct (classify m); unfold with_be in H;
        try (destruct (read_be _ bs 0) as [[v r']|] eqn:E; [apply read_be_len in E|discriminate]);
        try discriminate; apply res_map_fuel in H.
      * revert H. apply (dec_pairs_fuel _ f IHp IHf); lia.
      * revert H. apply (dec_items_fuel _ f IHp IHf); lia.
      * exact (dec_str_body_fuel _ _ H).
      * exact (dec_str_body_fuel _ _ H).
      * revert H. apply (dec_items_fuel _ f IHp IHf); lia.
      * revert H. apply (dec_pairs_fuel _ f IHp IHf); lia.
Qed.

(** With fuel [S (length bs)] (or more) the decoder never runs out of fuel: [None] from
    [dec_tree] then means the input is malformed, unsupported or truncated. *)
Theorem dec_core_enough_fuel fuel bs : (length bs < fuel)%nat -> dec_core fuel bs <> OutOfFuel.
Proof. apply dec_core_progress_fuel. Qed.

Lemma length_dropN {A} (l : list A) : forall p, (length (dropN l p) <= length l)%nat.
Proof.
  induction l as [|x l IH]; intro p; cbn [dropN length]; [lia|].
  destruct (p =? 0); cbn [length]; [lia|]. specialize (IH (p - 1)). lia.
Qed.

Corollary dec_tree_enough_fuel bs p :
  dec_core (S (length bs)) (dropN bs p) <> OutOfFuel.
Proof. apply dec_core_enough_fuel. pose proof (length_dropN bs p). lia. Qed.

Corollary dec_doc_enough_fuel bs : dec_core (fuel_for bs) bs <> OutOfFuel.
Proof. apply dec_core_enough_fuel. rewrite fuel_for_length. lia. Qed.
