(** SPEC (executable): the MessagePack tree that is literally in the bytes, header widths included.
    [wf] says every value FITS the format it is written in (not that the format is minimal):
    [WInt U64 5], a 3-element array behind array32, a short string behind str16 are all well formed.
    Covers nil / bool / every integer and float encoding / str / array / map (no bin, no ext). *)
From Coq Require Import NArith ZArith List Bool.
From SFV Require Import Base.Bytes Base.F64.
Import ListNotations.
Open Scope N_scope.

Inductive intfmt := PFix | NFix | U8 | U16 | U32 | U64 | I8 | I16 | I32 | I64.
Inductive strfmt := FixStr | Str8 | Str16 | Str32.
Inductive lenfmt := LFix | L16 | L32.

Inductive wire :=
| WNil
| WBool (b : bool)
| WInt (f : intfmt) (z : Z)
| WF32 (bits : N)
| WF64 (bits : N)
| WStr (f : strfmt) (s : list N)
| WArr (f : lenfmt) (l : list wire)
| WMap (f : lenfmt) (l : list (wire * wire)).

(** * Encoding *)
Definition enc_int (f : intfmt) (z : Z) : list N :=
  match f with
  | PFix => [Z.to_N z]
  | NFix => [Z.to_N (z + 256)]
  | U8 => 0xcc :: be 1 (Z.to_N z)
  | U16 => 0xcd :: be 2 (Z.to_N z)
  | U32 => 0xce :: be 4 (Z.to_N z)
  | U64 => 0xcf :: be 8 (Z.to_N z)
  | I8 => 0xd0 :: be 1 (of_signed 1 z)
  | I16 => 0xd1 :: be 2 (of_signed 2 z)
  | I32 => 0xd2 :: be 4 (of_signed 4 z)
  | I64 => 0xd3 :: be 8 (of_signed 8 z)
  end.

Definition str_hdr (f : strfmt) (len : N) : list N :=
  match f with
  | FixStr => [0xa0 + len]
  | Str8 => 0xd9 :: be 1 len
  | Str16 => 0xda :: be 2 len
  | Str32 => 0xdb :: be 4 len
  end.

Definition arr_hdr (f : lenfmt) (len : N) : list N :=
  match f with
  | LFix => [0x90 + len]
  | L16 => 0xdc :: be 2 len
  | L32 => 0xdd :: be 4 len
  end.

Definition map_hdr (f : lenfmt) (len : N) : list N :=
  match f with
  | LFix => [0x80 + len]
  | L16 => 0xde :: be 2 len
  | L32 => 0xdf :: be 4 len
  end.

Fixpoint enc (w : wire) : list N :=
  match w with
  | WNil => [0xc0]
  | WBool b => [if b then 0xc3 else 0xc2]
  | WInt f z => enc_int f z
  | WF32 bits => 0xca :: be 4 bits
  | WF64 bits => 0xcb :: be 8 bits
  | WStr f s => str_hdr f (lenN s) ++ s
  | WArr f l => arr_hdr f (lenN l) ++ flat_map enc l
  | WMap f l => map_hdr f (lenN l) ++ flat_map (fun kv => enc (fst kv) ++ enc (snd kv)) l
  end.

(** * Well-formedness: the value fits its format *)
Definition wf_int (f : intfmt) (z : Z) : bool :=
  match f with
  | PFix => (0 <=? z)%Z && (z <? 128)%Z
  | NFix => (-32 <=? z)%Z && (z <? 0)%Z
  | U8 => (0 <=? z)%Z && (z <? 2 ^ 8)%Z
  | U16 => (0 <=? z)%Z && (z <? 2 ^ 16)%Z
  | U32 => (0 <=? z)%Z && (z <? 2 ^ 32)%Z
  | U64 => (0 <=? z)%Z && (z <? 2 ^ 64)%Z
  | I8 => (- 2 ^ 7 <=? z)%Z && (z <? 2 ^ 7)%Z
  | I16 => (- 2 ^ 15 <=? z)%Z && (z <? 2 ^ 15)%Z
  | I32 => (- 2 ^ 31 <=? z)%Z && (z <? 2 ^ 31)%Z
  | I64 => (- 2 ^ 63 <=? z)%Z && (z <? 2 ^ 63)%Z
  end.

Definition str_max (f : strfmt) : N :=
  match f with FixStr => 32 | Str8 => 2 ^ 8 | Str16 => 2 ^ 16 | Str32 => 2 ^ 32 end.
Definition len_max (f : lenfmt) : N :=
  match f with LFix => 16 | L16 => 2 ^ 16 | L32 => 2 ^ 32 end.

Definition is_wstr (w : wire) : bool := match w with WStr _ _ => true | _ => false end.

Fixpoint wf (w : wire) : bool :=
  match w with
  | WNil | WBool _ => true
  | WInt f z => wf_int f z
  | WF32 bits => bits <? 2 ^ 32
  | WF64 bits => bits <? 2 ^ 64
  | WStr f s => (lenN s <? str_max f) && forallb (fun b => b <? 256) s
  | WArr f l => (lenN l <? len_max f) && forallb wf l
  | WMap f l => (lenN l <? len_max f) &&
                forallb (fun kv => is_wstr (fst kv) && wf (fst kv) && wf (snd kv)) l
  end.

(** No float that is a NaN (a NaN in the input is a separate, known defect of the Rust code). *)
Fixpoint no_nan (w : wire) : bool :=
  match w with
  | WF32 bits => negb (is_nan (of_f32 bits))
  | WF64 bits => negb (is_nan bits)
  | WArr _ l => forallb no_nan l
  | WMap _ l => forallb (fun kv => no_nan (fst kv) && no_nan (snd kv)) l
  | _ => true
  end.
