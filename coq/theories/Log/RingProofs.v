(** Proofs about the ring model: the host view is the last min(total,CAP) bytes logged,
    for every sequence of messages; every plan is in bounds and covers the retained tail. *)
From Coq Require Import Arith Lia List Bool PeanoNat.
From SFV Require Import Log.Ring.
Import ListNotations.

Section RingProofs.
Variable byte : Type.
Variable zero : byte.
Variable CAP : nat.
Hypothesis CAPpos : 0 < CAP.

Notation logs := (logs byte).
Notation init := (init zero CAP).
Notation append := (append CAP).
Notation log_msg := (log_msg CAP).
Notation host_view := (host_view CAP).
Notation read_ptrs := (read_ptrs CAP).

Lemma nth_skipn' {A} (l : list A) a j d : nth j (skipn a l) d = nth (a + j) l d.
Proof. revert l; induction a as [|a IH]; intros l; [reflexivity|]. destruct l; cbn; [destruct j; reflexivity|apply IH]. Qed.
Lemma nth_firstn' {A} (l : list A) n j d : j < n -> nth j (firstn n l) d = nth j l d.
Proof. revert l j; induction n as [|n IH]; intros l j H; [lia|]. destruct l; cbn; [destruct j; reflexivity|]. destruct j; [reflexivity|apply IH; lia]. Qed.

Lemma nth_write_at (b : list byte) pos d j : pos + length d <= length b ->
  nth j (write_at b pos d) zero = if (pos <=? j) && (j <? pos + length d) then nth (j - pos) d zero else nth j b zero.
Proof.
  intros Hb. unfold write_at.
  destruct (Nat.leb_spec pos j); destruct (Nat.ltb_spec j (pos + length d)); cbn [andb].
  - rewrite app_nth2; rewrite firstn_length_le by lia; [|lia]. rewrite app_nth1 by lia. reflexivity.
  - rewrite app_nth2; rewrite firstn_length_le by lia; [|lia]. rewrite app_nth2 by lia.
    rewrite nth_skipn'. f_equal. lia.
  - rewrite app_nth1 by (rewrite firstn_length_le; lia). apply nth_firstn'. lia.
  - rewrite app_nth1 by (rewrite firstn_length_le; lia). apply nth_firstn'. lia.
Qed.

Lemma length_write_at (b : list byte) pos d : pos + length d <= length b -> length (write_at b pos d) = length b.
Proof. intros. unfold write_at. rewrite !app_length, firstn_length_le, skipn_length by lia. lia. Qed.

Lemma mod_wrap a : a < 2 * CAP -> a mod CAP = if a <? CAP then a else a - CAP.
Proof.
  intros H. destruct (Nat.ltb_spec a CAP).
  - apply Nat.mod_small; auto.
  - replace a with ((a - CAP) + 1 * CAP) at 1 by lia. rewrite Nat.mod_add by lia. apply Nat.mod_small. lia.
Qed.

Lemma firstn_skipn_nth {A} (m : list A) a n j d : j < n ->
  nth j (firstn n (skipn a m)) d = nth (a + j) m d.
Proof. intros. rewrite nth_firstn' by lia. rewrite nth_skipn'. reflexivity. Qed.

(** ** The plan: in bounds, covers exactly the retained tail *)

Definition plan_ok (l : logs) (n : nat) (p : plan) : Prop :=
  p_so p + p_n1 p + p_n2 p = n /\
  p_n1 p + p_n2 p = Nat.min n CAP /\
  p_d1 p = off l /\
  p_d1 p + p_n1 p <= CAP /\
  (p_n2 p = 0 \/ (p_d2 p = Some 0 /\ p_n2 p <= p_d1 p /\ p_d1 p + p_n1 p = CAP)) /\
  (p_d2 p = None -> p_n2 p = 0) /\
  (p_n1 p = n -> p_n2 p = 0).

Lemma append_plan_ok (l : logs) n : off l < CAP -> plan_ok l n (snd (append l n)).
Proof.
  intros Ho. unfold plan_ok, Ring.append.
  destruct (Nat.ltb_spec CAP n); match goal with |- context [?a <=? ?b] => destruct (Nat.leb_spec a b) end; cbn [snd p_so p_d1 p_n1 p_d2 p_n2];
    repeat split; try lia; try (intros; discriminate); try (right; repeat split; lia).
Qed.

(** ** Pointwise invariant: the i-th most recent byte sits i+1 slots before [off], cyclically *)

Definition slot (o i : nat) : nat := if i <? o then o - 1 - i else o + CAP - 1 - i.

Definition Inv (l : logs) (hist : list byte) : Prop :=
  length (buf l) = CAP /\ off l < CAP /\ len l = Nat.min (length hist) CAP /\
  (length hist < CAP -> off l = length hist) /\
  forall i, i < Nat.min (length hist) CAP ->
    nth (slot (off l) i) (buf l) zero = nth (length hist - 1 - i) hist zero.

Lemma inv_init : Inv init [].
Proof. unfold Inv, Ring.init; cbn. rewrite repeat_length. repeat split; auto; try lia. Qed.

Ltac bool_true := symmetry; apply andb_true_iff; split; [apply Nat.leb_le|apply Nat.ltb_lt]; lia.

Lemma inv_step l hist m : Inv l hist -> Inv (log_msg l m) (hist ++ m).
Proof.
  intros (Hb & Ho & Hl & Hlt & Hpt).
  unfold Ring.log_msg, Ring.append.
  set (n := length m). set (so := if CAP <? n then n - CAP else 0). set (n' := if CAP <? n then CAP else n).
  assert (Hdef : (n <= CAP /\ n' = n /\ so = 0) \/ (CAP < n /\ n' = CAP /\ so = n - CAP))
    by (subst so n'; destruct (Nat.ltb_spec CAP n); lia).
  clearbody so n'.
  assert (Hn' : n' <= CAP) by lia.
  assert (Hson : so + n' = n) by lia.
  set (space := CAP - off l).
  assert (Hmod : (off l + n') mod CAP = if off l + n' <? CAP then off l + n' else off l + n' - CAP)
    by (apply mod_wrap; lia).
  set (o' := (off l + n') mod CAP) in *.
  assert (Ho' : (off l + n' < CAP /\ o' = off l + n') \/ (CAP <= off l + n' /\ o' = off l + n' - CAP))
    by (destruct (Nat.ltb_spec (off l + n') CAP); lia).
  clearbody o'. clear Hmod.
  destruct (Nat.leb_spec n' space) as [Hfit|Hwrap]; unfold apply_plan;
    cbn [buf off len fst snd p_so p_d1 p_n1 p_d2 p_n2].
  - (* one segment *)
    set (m1 := firstn n' (skipn so m)).
    assert (Lm1 : length m1 = n') by (subst m1; rewrite firstn_length_le; [lia| rewrite skipn_length; fold n; lia]).
    unfold Inv; cbn [buf off len].
    repeat split.
    + rewrite length_write_at; lia.
    + lia.
    + rewrite app_length. fold n. lia.
    + rewrite app_length. fold n. intros Hh. lia.
    + intros i Hi. rewrite app_length in Hi. fold n in Hi.
      rewrite nth_write_at by lia. rewrite Lm1.
      rewrite app_length. fold n.
      destruct (Nat.ltb_spec i n') as [Hin|Hout].
      * assert (Es : slot o' i = off l + n' - 1 - i) by (unfold slot; destruct (Nat.ltb_spec i o'); lia).
        rewrite Es.
        replace ((off l <=? off l + n' - 1 - i) && (off l + n' - 1 - i <? off l + n')) with true by bool_true.
        subst m1. rewrite firstn_skipn_nth by lia.
        rewrite app_nth2 by lia. f_equal. lia.
      * assert (Hi' : i - n' < Nat.min (length hist) CAP) by lia.
        specialize (Hpt (i - n') Hi').
        assert (Es : slot o' i = slot (off l) (i - n')).
        { unfold slot. destruct (Nat.ltb_spec i o'); destruct (Nat.ltb_spec (i - n') (off l)); try lia. }
        rewrite Es.
        replace ((off l <=? slot (off l) (i - n')) && (slot (off l) (i - n') <? off l + n')) with false.
        2:{ symmetry; apply andb_false_iff. rewrite Nat.leb_gt, Nat.ltb_ge. unfold slot.
            destruct (Nat.ltb_spec (i - n') (off l)); lia. }
        rewrite Hpt. rewrite app_nth1 by lia. f_equal. lia.
  - (* two segments: [off, CAP) then [0, n' - space) *)
    set (m1 := firstn space (skipn so m)).
    set (m2 := firstn (n' - space) (skipn (so + space) m)).
    assert (Lm1 : length m1 = space) by (subst m1; rewrite firstn_length_le; [lia| rewrite skipn_length; fold n; lia]).
    assert (Lm2 : length m2 = n' - space) by (subst m2; rewrite firstn_length_le; [lia| rewrite skipn_length; fold n; lia]).
    assert (Lw1 : length (write_at (buf l) (off l) m1) = CAP) by (rewrite length_write_at; lia).
    assert (Eo' : o' = n' - space) by lia.
    unfold Inv; cbn [buf off len].
    repeat split.
    + rewrite length_write_at; lia.
    + lia.
    + rewrite app_length. fold n. lia.
    + rewrite app_length. fold n. intros Hh. lia.
    + intros i Hi. rewrite app_length in Hi. fold n in Hi.
      rewrite nth_write_at by lia. rewrite Lm2.
      rewrite nth_write_at by lia. rewrite Lm1.
      rewrite app_length. fold n.
      destruct (Nat.ltb_spec i o') as [Hin2|Hout2].
      * (* in the second segment *)
        assert (Es : slot o' i = o' - 1 - i) by (unfold slot; destruct (Nat.ltb_spec i o'); lia).
        rewrite Es.
        replace ((0 <=? o' - 1 - i) && (o' - 1 - i <? 0 + (n' - space))) with true by bool_true.
        subst m2. rewrite firstn_skipn_nth by lia.
        rewrite app_nth2 by lia. f_equal. lia.
      * destruct (Nat.ltb_spec i n') as [Hin|Hout].
        -- (* in the first segment *)
          assert (Es : slot o' i = o' + CAP - 1 - i) by (unfold slot; destruct (Nat.ltb_spec i o'); lia).
          rewrite Es.
          replace ((0 <=? o' + CAP - 1 - i) && (o' + CAP - 1 - i <? 0 + (n' - space))) with false
            by (symmetry; apply andb_false_iff; right; apply Nat.ltb_ge; lia).
          replace ((off l <=? o' + CAP - 1 - i) && (o' + CAP - 1 - i <? off l + space)) with true by bool_true.
          subst m1. rewrite firstn_skipn_nth by lia.
          rewrite app_nth2 by lia. f_equal. lia.
        -- (* older byte, untouched *)
          assert (Hi' : i - n' < Nat.min (length hist) CAP) by lia.
          specialize (Hpt (i - n') Hi').
          assert (Es : slot o' i = slot (off l) (i - n')).
          { unfold slot. destruct (Nat.ltb_spec i o'); destruct (Nat.ltb_spec (i - n') (off l)); try lia. }
          rewrite Es.
          assert (Hs : o' <= slot (off l) (i - n') < off l).
          { unfold slot. destruct (Nat.ltb_spec (i - n') (off l)); lia. }
          replace ((0 <=? slot (off l) (i - n')) && (slot (off l) (i - n') <? 0 + (n' - space))) with false
            by (symmetry; apply andb_false_iff; right; apply Nat.ltb_ge; lia).
          replace ((off l <=? slot (off l) (i - n')) && (slot (off l) (i - n') <? off l + space)) with false
            by (symmetry; apply andb_false_iff; left; apply Nat.leb_gt; lia).
          rewrite Hpt. rewrite app_nth1 by lia. f_equal. lia.
Qed.

Lemma inv_run msgs : Inv (run zero CAP msgs) (concat msgs).
Proof.
  unfold run.
  assert (G : forall l h, Inv l h -> Inv (fold_left log_msg msgs l) (h ++ concat msgs)).
  { induction msgs as [|m ms IH]; intros l h H; cbn [fold_left concat].
    - rewrite app_nil_r. exact H.
    - rewrite app_assoc. apply IH. apply inv_step. exact H. }
  apply (G _ [] inv_init).
Qed.

(** ** From the pointwise invariant to the list-level statement *)

Lemma host_view_inv l hist : Inv l hist ->
  host_view l = lastn (Nat.min (length hist) CAP) hist.
Proof.
  intros (Hb & Ho & Hl & Hlt & Hpt).
  unfold Ring.host_view, Ring.read_ptrs, seg, lastn.
  destruct (Nat.ltb_spec (len l) CAP) as [Hsmall|Hfull].
  - (* not yet wrapped: buffer prefix *)
    cbn [Nat.eqb]. rewrite app_nil_r. cbn [skipn].
    assert (Hh : length hist < CAP) by lia.
    specialize (Hlt Hh).
    replace (length hist - Nat.min (length hist) CAP) with 0 by lia. cbn [skipn].
    apply nth_ext with (d := zero) (d' := zero).
    + rewrite firstn_length_le; lia.
    + intros j Hj. rewrite firstn_length_le in Hj by lia.
      rewrite nth_firstn' by lia.
      assert (Hi : length hist - 1 - j < Nat.min (length hist) CAP) by lia.
      specialize (Hpt _ Hi).
      replace (slot (off l) (length hist - 1 - j)) with j in Hpt
        by (unfold slot; destruct (Nat.ltb_spec (length hist - 1 - j) (off l)); lia).
      rewrite Hpt. f_equal. lia.
  - assert (Hh : CAP <= length hist) by lia.
    destruct (Nat.eqb_spec (off l) 0) as [Hz|Hnz].
    + cbn [skipn]. rewrite app_nil_r.
      apply nth_ext with (d := zero) (d' := zero).
      * rewrite firstn_length_le, skipn_length; lia.
      * intros j Hj. rewrite firstn_length_le in Hj by lia.
        rewrite nth_firstn' by lia. rewrite nth_skipn'.
        assert (Hi : CAP - 1 - j < Nat.min (length hist) CAP) by lia.
        specialize (Hpt _ Hi).
        replace (slot (off l) (CAP - 1 - j)) with j in Hpt
          by (unfold slot; destruct (Nat.ltb_spec (CAP - 1 - j) (off l)); lia).
        rewrite Hpt. f_equal. lia.
    + cbn [skipn].
      apply nth_ext with (d := zero) (d' := zero).
      * rewrite app_length, !firstn_length_le, skipn_length; try rewrite skipn_length; lia.
      * intros j Hj.
        rewrite app_length, !firstn_length_le in Hj; try rewrite skipn_length; try lia.
        rewrite nth_skipn'.
        destruct (Nat.ltb_spec j (CAP - off l)) as [H1|H2].
        -- rewrite app_nth1 by (rewrite firstn_length_le; [lia|rewrite skipn_length; lia]).
           rewrite nth_firstn' by lia. rewrite nth_skipn'.
           assert (Hi : CAP - 1 - j < Nat.min (length hist) CAP) by lia.
           specialize (Hpt _ Hi).
           replace (slot (off l) (CAP - 1 - j)) with (off l + j) in Hpt
             by (unfold slot; destruct (Nat.ltb_spec (CAP - 1 - j) (off l)); lia).
           rewrite Hpt. f_equal. lia.
        -- rewrite app_nth2; rewrite firstn_length_le; try rewrite skipn_length; try lia.
           rewrite nth_firstn' by lia.
           assert (Hi : CAP - 1 - j < Nat.min (length hist) CAP) by lia.
           specialize (Hpt _ Hi).
           replace (slot (off l) (CAP - 1 - j)) with (j - (CAP - off l)) in Hpt
             by (unfold slot; destruct (Nat.ltb_spec (CAP - 1 - j) (off l)); lia).
           rewrite Hpt. f_equal. lia.
Qed.

Theorem host_view_run msgs :
  host_view (run zero CAP msgs) = lastn (Nat.min (length (concat msgs)) CAP) (concat msgs).
Proof. apply host_view_inv, inv_run. Qed.

(** Every plan handed out in a reachable state is in bounds and covers the retained tail. *)
Theorem plan_run msgs n :
  plan_ok (run zero CAP msgs) n (snd (append (run zero CAP msgs) n)).
Proof. apply append_plan_ok. destruct (inv_run msgs) as (_ & Ho & _). exact Ho. Qed.

(** The bytes written by a plan are exactly the last min(n,CAP) bytes of the message, in order
    (destination-independent statement of "covers exactly the retained tail"). *)
Lemma skipn_add {A} (m : list A) a b : skipn (a + b) m = skipn b (skipn a m).
Proof. revert m; induction a as [|a IH]; intros m; [reflexivity|]. destruct m; cbn [skipn Nat.add]; [destruct b; reflexivity|apply IH]. Qed.

Lemma plan_covers_tail (l : logs) n (m : list byte) : off l < CAP -> length m = n ->
  let p := snd (append l n) in
  firstn (p_n1 p) (skipn (p_so p) m) ++ firstn (p_n2 p) (skipn (p_so p + p_n1 p) m)
  = lastn (Nat.min n CAP) m.
Proof.
  intros Ho Hm p. destruct (append_plan_ok l n Ho) as (H1 & H2 & _). fold p in H1, H2.
  unfold lastn. rewrite Hm.
  replace (n - Nat.min n CAP) with (p_so p) by lia.
  rewrite skipn_add.
  set (t := skipn (p_so p) m).
  assert (Lt : length t = p_n1 p + p_n2 p) by (subst t; rewrite skipn_length; lia).
  rewrite (firstn_all2 (n := p_n2 p)) by (rewrite skipn_length; lia).
  apply firstn_skipn.
Qed.

End RingProofs.
