(** Model of provider/src/log.rs: [Logs::append], [Logs::read_ptrs] and the copy that
    both the native glue (api/src/lib.rs provider_fallback) and the trampoline glue perform.
    Transcribed by hand; tied to the source by the C05 correspondence check and by the
    regenerated constant [SFV.Gen.LogGen.CAPACITY].

    This component indexes lists by [nat] (capacity is small); bytes are an abstract type. *)
From Coq Require Import Arith List PeanoNat.
Import ListNotations.

Section Ring.
Variable byte : Type.
Variable zero : byte.
Variable CAP : nat.

Record logs := { buf : list byte; off : nat; len : nat }.

Definition init : logs := {| buf := repeat zero CAP; off := 0; len := 0 |}.

(** The copy plan returned through LOG_RET_AREA:
    (source_offset, dst_offset1, len1, dst_offset2, len2); destinations are offsets into the
    ring buffer, [None] is the null pointer. *)
Record plan := { p_so : nat; p_d1 : nat; p_n1 : nat; p_d2 : option nat; p_n2 : nat }.

(** Transcription of [Logs::append]. *)
Definition append (l : logs) (n : nat) : logs * plan :=
  let so := if CAP <? n then n - CAP else 0 in
  let n' := if CAP <? n then CAP else n in
  let space := CAP - off l in
  if n' <=? space then
    ({| buf := buf l; off := (off l + n') mod CAP; len := Nat.min (len l + n') CAP |},
     {| p_so := so; p_d1 := off l; p_n1 := n'; p_d2 := None; p_n2 := 0 |})
  else
    ({| buf := buf l; off := (off l + n') mod CAP; len := CAP |},
     {| p_so := so; p_d1 := off l; p_n1 := space; p_d2 := Some 0; p_n2 := n' - space |}).

Definition write_at (b : list byte) (pos : nat) (d : list byte) : list byte :=
  firstn pos b ++ d ++ skipn (pos + length d) b.

(** What the glue does with a plan: copy [n1] bytes of the message from [so] to [d1], and the
    next [n2] bytes to [d2]. *)
Definition apply_plan (b : list byte) (p : plan) (m : list byte) : list byte :=
  let m1 := firstn (p_n1 p) (skipn (p_so p) m) in
  let m2 := firstn (p_n2 p) (skipn (p_so p + p_n1 p) m) in
  let b1 := write_at b (p_d1 p) m1 in
  match p_d2 p with
  | Some d2 => write_at b1 d2 m2
  | None => b1
  end.

Definition log_msg (l : logs) (m : list byte) : logs :=
  let '(l', p) := append l (length m) in
  {| buf := apply_plan (buf l') p m; off := off l'; len := len l' |}.

(** Transcription of [Logs::read_ptrs]: (offset1, len1, offset2 or null, len2). *)
Definition read_ptrs (l : logs) : nat * nat * option nat * nat :=
  let ro := if len l <? CAP then 0 else off l in
  if ro =? 0 then (0, len l, None, 0)
  else let dte := CAP - ro in (off l, dte, Some 0, len l - dte).

Definition seg (b : list byte) (o n : nat) : list byte := firstn n (skipn o b).

Definition host_view (l : logs) : list byte :=
  let '(o1, n1, o2, n2) := read_ptrs l in
  seg (buf l) o1 n1 ++ match o2 with Some o => seg (buf l) o n2 | None => [] end.

Definition lastn {A} (k : nat) (l : list A) : list A := skipn (length l - k) l.

Definition run (msgs : list (list byte)) : logs := fold_left log_msg msgs init.

End Ring.

Arguments buf {byte}. Arguments off {byte}. Arguments len {byte}.
Arguments append {byte}. Arguments apply_plan {byte}. Arguments log_msg {byte}.
Arguments read_ptrs {byte}. Arguments host_view {byte}. Arguments run {byte}.
Arguments init {byte}. Arguments write_at {byte}. Arguments seg {byte}.
