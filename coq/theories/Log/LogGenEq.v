(** The ring-buffer model over which C05 is proved (Log/Ring.v) IS the Rust code: [Logs::append] and
    [Logs::read_ptrs] of provider/src/log.rs, regenerated from the source by translator T8 into
    Gen/LogFnGen.v, compute exactly the model's plan / new bookkeeping / read segments, for every
    ring state satisfying the invariant ([off < CAP], [len <= CAP]) and every message length that
    fits the pointer width.  No arithmetic of the translated code overflows under those bounds (so the
    overflow mode is irrelevant).  Pointers are offsets into the ring buffer, [None] is null. *)
From Coq Require Import NArith ZArith List Bool Arith Lia ZifyNat ZifyN ZifyBool.
From SFV Require Import Base.Bytes Base.RsPrelude Gen.LogGen Gen.LogFnGen Log.Ring.
Import ListNotations.
Ltac Zify.zify_post_hook ::= Z.div_mod_to_equations.
Open Scope nat_scope.

Definition CAPn : nat := LogGen.CAPACITY.

Lemma cap_same : N.of_nat CAPn = LogFnGen.CAPACITY.
Proof. vm_compute. reflexivity. Qed.

Definition conv (l : Ring.logs N) : Logs :=
  mkLogs (Ring.buf l) (N.of_nat (Ring.off l)) (N.of_nat (Ring.len l)).

Definition conv_plan (p : Ring.plan) : N * option N * N * option N * N :=
  (N.of_nat (p_so p), Some (N.of_nat (p_d1 p)), N.of_nat (p_n1 p), option_map N.of_nat (p_d2 p), N.of_nat (p_n2 p)).

Definition conv_read (r : nat * nat * option nat * nat) : option N * N * option N * N :=
  let '(o1, n1, o2, n2) := r in (Some (N.of_nat o1), N.of_nat n1, option_map N.of_nat o2, N.of_nat n2).

Lemma u_sub_ok W trap a b : (b <= a)%N -> u_sub W trap a b = GOk (a - b)%N.
Proof. intros H. unfold u_sub. destruct (N.leb_spec b a); [reflexivity|lia]. Qed.
Lemma u_add_ok W trap a b : (a + b < 2 ^ W)%N -> u_add W trap a b = GOk (a + b)%N.
Proof. intros H. unfold u_add. cbv zeta. destruct (N.ltb_spec (a + b) (2 ^ W)); [reflexivity|lia]. Qed.
Lemma u_rem_ok W trap a b : (b <> 0)%N -> u_rem W trap a b = GOk (a mod b)%N.
Proof. intros H. unfold u_rem. destruct (N.eqb_spec b 0); [contradiction|reflexivity]. Qed.

Ltac fin :=
  unfold Logs_set_offset, Logs_set_len, conv_plan, conv_read, ptr_add;
  cbn [Logs_buffer Logs_offset Logs_len p_so p_d1 p_n1 p_d2 p_n2 option_map fst snd Ring.off Ring.len Ring.buf];
  repeat (f_equal; try lia);
  try (match goal with HC : N.of_nat CAPn = _ |- _ => rewrite <- HC end; rewrite Nat2N.inj_mod; f_equal; lia).

Section W.
Variable W : N.
Variable trap : bool.
(* the capacity (and twice it plus a message tail) fits the pointer width: true of 1001 at W >= 12 *)
Hypothesis HW : (3 * LogFnGen.CAPACITY < 2 ^ W)%N.

Theorem gen_append_eq : forall (l : Ring.logs N) (n : nat),
  Ring.off l < CAPn -> Ring.len l <= CAPn -> (N.of_nat n < 2 ^ W)%N ->
  Logs_append W trap (conv l) (N.of_nat n) =
  GOk (conv (fst (Ring.append CAPn l n)), conv_plan (snd (Ring.append CAPn l n))).
Proof.
  intros l n Hoff Hlen Hn. pose proof cap_same as HC.
  assert (Hc0 : CAPn > 0) by (vm_compute; lia).
  unfold Logs_append, Ring.append, conv. cbn [Logs_offset Logs_len Logs_buffer Logs_set_len Logs_set_offset Ring.off Ring.len Ring.buf].
  set (C := LogFnGen.CAPACITY) in *. set (o := Ring.off l) in *. set (ln := Ring.len l) in *.
  destruct (N.ltb_spec C (N.of_nat n)) as [Hbig|Hsmall]; destruct (Nat.ltb_spec CAPn n) as [Hbig'|Hsmall']; try lia.
  - (* message longer than the capacity: strip *)
    rewrite (u_sub_ok W trap (N.of_nat n) C) by lia. cbn [gbind].
    rewrite (u_sub_ok W trap C (N.of_nat o)) by lia. cbn [gbind].
    destruct (N.leb_spec C (C - N.of_nat o)) as [Hfit|Hwrap]; destruct (Nat.leb_spec CAPn (CAPn - o)) as [Hfit'|Hwrap']; try lia.
    + rewrite (u_add_ok W trap (N.of_nat ln) C) by lia. cbn [gbind Logs_offset Logs_len Logs_buffer].
      rewrite (u_add_ok W trap (N.of_nat o) C) by lia. cbn [gbind].
      rewrite (u_rem_ok W trap) by lia. cbn [gbind fst snd conv_plan p_so p_d1 p_n1 p_d2 p_n2 option_map ptr_add Ring.off Ring.len Ring.buf].
      fin.
    + rewrite (u_sub_ok W trap C (C - N.of_nat o)) by lia. cbn [gbind Logs_offset Logs_len Logs_buffer].
      rewrite (u_add_ok W trap (N.of_nat o) C) by lia. cbn [gbind].
      rewrite (u_rem_ok W trap) by lia. cbn [gbind fst snd conv_plan p_so p_d1 p_n1 p_d2 p_n2 option_map ptr_add Ring.off Ring.len Ring.buf].
      fin.
  - rewrite (u_sub_ok W trap C (N.of_nat o)) by lia. cbn [gbind].
    destruct (N.leb_spec (N.of_nat n) (C - N.of_nat o)) as [Hfit|Hwrap]; destruct (Nat.leb_spec n (CAPn - o)) as [Hfit'|Hwrap']; try lia.
    + rewrite (u_add_ok W trap (N.of_nat ln) (N.of_nat n)) by lia. cbn [gbind Logs_offset Logs_len Logs_buffer].
      rewrite (u_add_ok W trap (N.of_nat o) (N.of_nat n)) by lia. cbn [gbind].
      rewrite (u_rem_ok W trap) by lia. cbn [gbind fst snd conv_plan p_so p_d1 p_n1 p_d2 p_n2 option_map ptr_add Ring.off Ring.len Ring.buf].
      fin.
    + rewrite (u_sub_ok W trap (N.of_nat n) (C - N.of_nat o)) by lia. cbn [gbind Logs_offset Logs_len Logs_buffer].
      rewrite (u_add_ok W trap (N.of_nat o) (N.of_nat n)) by lia. cbn [gbind].
      rewrite (u_rem_ok W trap) by lia. cbn [gbind fst snd conv_plan p_so p_d1 p_n1 p_d2 p_n2 option_map ptr_add Ring.off Ring.len Ring.buf].
      fin.
Qed.

Theorem gen_read_ptrs_eq : forall (l : Ring.logs N),
  Ring.off l < CAPn -> Ring.len l <= CAPn ->
  (Ring.len l < CAPn -> Ring.off l = Ring.len l) ->
  Logs_read_ptrs W trap (conv l) = GOk (conv_read (Ring.read_ptrs CAPn l)).
Proof.
  intros l Hoff Hlen Hrel. pose proof cap_same as HC.
  unfold Logs_read_ptrs, Ring.read_ptrs, conv. cbn [Logs_offset Logs_len Logs_buffer Ring.off Ring.len Ring.buf].
  set (C := LogFnGen.CAPACITY) in *. set (o := Ring.off l) in *. set (ln := Ring.len l) in *.
  destruct (N.ltb_spec (N.of_nat ln) C) as [Hs|Hf]; destruct (Nat.ltb_spec ln CAPn) as [Hs'|Hf']; try lia.
  - cbn [N.eqb Nat.eqb conv_read option_map]. reflexivity.
  - destruct (N.eqb_spec (N.of_nat o) 0) as [Hz|Hnz]; destruct (Nat.eqb_spec o 0) as [Hz'|Hnz']; try lia.
    + cbn [conv_read option_map]. reflexivity.
    + rewrite (u_sub_ok W trap C (N.of_nat o)) by lia. cbn [gbind].
      rewrite (u_sub_ok W trap (N.of_nat ln) (C - N.of_nat o)) by lia. cbn [gbind conv_read option_map ptr_add].
      fin.
Qed.

End W.

(** The width hypothesis holds on both targets. *)
Lemma width_ok_32 : (3 * LogFnGen.CAPACITY < 2 ^ 32)%N. Proof. vm_compute. reflexivity. Qed.
Lemma width_ok_64 : (3 * LogFnGen.CAPACITY < 2 ^ 64)%N. Proof. vm_compute. reflexivity. Qed.

Example gen_append_example :
  Logs_append 32 true (mkLogs [] 990 1001) 1500
  = GOk (mkLogs [] 990 1001, (499, Some 990, 11, Some 0, 990))%N.
Proof. vm_compute. reflexivity. Qed.
