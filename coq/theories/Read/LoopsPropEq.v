(** The GENERATED [ObjectRef::get_property] and the [LazyValueRef] dispatch methods (Gen/LazyLoopsGen.v) against the
    hand-written reader model (Read/Lazy.v): proofs of the statements of Read/LazyLoopsStmt.v.

    Fuel.  Every generated layer consumes one unit of fuel that the hand model does not consume (the dispatcher, the
    function around the loop), so the statements are proved for an explicit slack [k]: [X_stmt_kP k] is [X_stmt] with
    [(2 * f + k <= g)%nat] in place of [enough f g] ([X_stmt] = [X_stmt_kP 2]).
      finish @ k (k >= 1)  ==>  get_property @ k            ([obj_prop_eq_k])
      X @ k                ==>  dispatcher of X @ (k + 1)   ([get_object_property_eq_k], [get_at_index_eq_k], ...)
    The statements of LazyLoopsStmt.v follow from the premises at k = 1. *)
From Coq Require Import NArith ZArith Lia List Bool Arith ZifyNat ZifyN ZifyBool.
From SFV Require Import Base.Bytes Base.BytesProofs Base.RsPrelude Gen.NanBoxGen Read.Lazy Read.LazyTypes
  Gen.LazyNewGen Gen.LazyLoopsGen Read.LazyNewGenEq Read.ReadRobust Read.LazyLoopsStmt.
Import ListNotations.
Open Scope N_scope.

(** * The statements with an explicit slack *)
Section StmtK.
Variable W : N.
Variable trap : bool.
Variable bs : list N.
Notation L := (lenN bs).

Definition finish_eq_stmt_kP (k : nat) : Prop := forall f v p,
  sane L p (conv v) -> snd (finish W trap f bs (conv v)) <> OutOfFuel ->
  forall g, (2 * f + k <= g)%nat ->
  sim conv (fun _ (a b : option N) => a = b)
      (LazyValueRef_finish_processing W trap g v bs) (finish W trap f bs (conv v)).

Definition arr_get_eq_stmt_kP (k : nat) : Prop := forall f len es e idx p,
  sane L p (LArr len (map conv es) e) -> len < 2 ^ W ->
  snd (arr_get W trap f bs len (map conv es) e idx) <> OutOfFuel ->
  forall g, (2 * f + k <= g)%nat ->
  sim conv_arr (fun a' x (_ : unit) => nthN (ArrayRef_processed_elements a') idx = Some x)
      (ArrayRef_get_at_index W trap g (mkArrayRef len es e) idx bs)
      (arr_get W trap f bs len (map conv es) e idx).

Definition obj_get_eq_stmt_kP (k : nat) : Prop := forall f len es e idx p,
  sane L p (LObj len (map convp es) e) -> len < 2 ^ W ->
  snd (obj_get W trap f bs len (map convp es) e idx) <> OutOfFuel ->
  forall g, (2 * f + k <= g)%nat ->
  sim conv_obj (fun o' x (_ : unit) => nthN (ObjectRef_processed_elements o') idx = Some x)
      (ObjectRef_get_at_index W trap g (mkObjectRef len es e) idx bs)
      (obj_get W trap f bs len (map convp es) e idx).

Definition obj_prop_eq_stmt_kP (k : nat) : Prop := forall f key len es e p,
  sane L p (LObj len (map convp es) e) -> len < 2 ^ W ->
  snd (obj_prop W trap f bs key len (map convp es) e) <> OutOfFuel ->
  forall g, (2 * f + k <= g)%nat ->
  sim conv_obj prop_rel
      (ObjectRef_get_property W trap g (mkObjectRef len es e) key bs)
      (obj_prop W trap f bs key len (map convp es) e).

Definition get_at_index_eq_stmt_kP (k : nat) : Prop := forall f v idx p,
  sane L p (conv v) -> node_len (conv v) < 2 ^ W ->
  snd (node_get_at_index W trap bs f (conv v) idx) <> OutOfFuel ->
  forall g, (2 * f + k <= g)%nat ->
  sim conv (fun v' x (_ : unit) => get_node (conv v') [idx_step (conv v') idx] = Some (conv x))
      (LazyValueRef_get_at_index W trap g v idx bs) (node_get_at_index W trap bs f (conv v) idx).

Definition get_key_at_index_eq_stmt_kP (k : nat) : Prop := forall f v idx p,
  sane L p (conv v) -> node_len (conv v) < 2 ^ W ->
  snd (node_get_key_at_index W trap bs f (conv v) idx) <> OutOfFuel ->
  forall g, (2 * f + k <= g)%nat ->
  sim conv (fun v' x (_ : unit) => get_node (conv v') [SKey idx] = Some (conv x))
      (LazyValueRef_get_key_at_index W trap g v idx bs) (node_get_key_at_index W trap bs f (conv v) idx).

Definition get_object_property_eq_stmt_kP (k : nat) : Prop := forall f v key p,
  sane L p (conv v) -> node_len (conv v) < 2 ^ W ->
  snd (node_get_prop W trap bs f (conv v) key) <> OutOfFuel ->
  forall g, (2 * f + k <= g)%nat ->
  sim conv (fun v' (ov : option LazyValueRef) (oi : option N) =>
              match ov, oi with
              | Some x, Some i => get_node (conv v') [SVal i] = Some (conv x)
              | None, None => True
              | _, _ => False
              end)
      (LazyValueRef_get_object_property W trap g v key bs) (node_get_prop W trap bs f (conv v) key).

(** the statements of LazyLoopsStmt.v are the instances k = 2 *)
Lemma finish_stmt_2 : finish_eq_stmt W trap bs <-> finish_eq_stmt_kP 2.
Proof. split; intros H f v p Hs Ho g Hg; apply (H f v p Hs Ho g); exact Hg. Qed.
Lemma arr_get_stmt_2 : arr_get_eq_stmt W trap bs <-> arr_get_eq_stmt_kP 2.
Proof. split; intros H f len es e idx p Hs Hl Ho g Hg; apply (H f len es e idx p Hs Hl Ho g); exact Hg. Qed.
Lemma obj_get_stmt_2 : obj_get_eq_stmt W trap bs <-> obj_get_eq_stmt_kP 2.
Proof. split; intros H f len es e idx p Hs Hl Ho g Hg; apply (H f len es e idx p Hs Hl Ho g); exact Hg. Qed.
Lemma obj_prop_stmt_2 : obj_prop_eq_stmt W trap bs <-> obj_prop_eq_stmt_kP 2.
Proof. split; intros H f key len es e p Hs Hl Ho g Hg; apply (H f key len es e p Hs Hl Ho g); exact Hg. Qed.
Lemma get_at_index_stmt_2 : get_at_index_eq_stmt W trap bs <-> get_at_index_eq_stmt_kP 2.
Proof. split; intros H f v idx p Hs Hl Ho g Hg; apply (H f v idx p Hs Hl Ho g); exact Hg. Qed.
Lemma get_key_at_index_stmt_2 : get_key_at_index_eq_stmt W trap bs <-> get_key_at_index_eq_stmt_kP 2.
Proof. split; intros H f v idx p Hs Hl Ho g Hg; apply (H f v idx p Hs Hl Ho g); exact Hg. Qed.
Lemma get_object_property_stmt_2 : get_object_property_eq_stmt W trap bs <-> get_object_property_eq_stmt_kP 2.
Proof. split; intros H f v key p Hs Hl Ho g Hg; apply (H f v key p Hs Hl Ho g); exact Hg. Qed.

(** more slack is a weaker statement *)
Lemma finish_stmt_mono k k' : (k <= k')%nat -> finish_eq_stmt_kP k -> finish_eq_stmt_kP k'.
Proof. intros Hk H f v p Hs Ho g Hg. apply (H f v p Hs Ho g). lia. Qed.
Lemma arr_get_stmt_mono k k' : (k <= k')%nat -> arr_get_eq_stmt_kP k -> arr_get_eq_stmt_kP k'.
Proof. intros Hk H f len es e idx p Hs Hl Ho g Hg. apply (H f len es e idx p Hs Hl Ho g). lia. Qed.
Lemma obj_get_stmt_mono k k' : (k <= k')%nat -> obj_get_eq_stmt_kP k -> obj_get_eq_stmt_kP k'.
Proof. intros Hk H f len es e idx p Hs Hl Ho g Hg. apply (H f len es e idx p Hs Hl Ho g). lia. Qed.
Lemma obj_prop_stmt_mono k k' : (k <= k')%nat -> obj_prop_eq_stmt_kP k -> obj_prop_eq_stmt_kP k'.
Proof. intros Hk H f key len es e p Hs Hl Ho g Hg. apply (H f key len es e p Hs Hl Ho g). lia. Qed.
Lemma get_at_index_stmt_mono k k' : (k <= k')%nat -> get_at_index_eq_stmt_kP k -> get_at_index_eq_stmt_kP k'.
Proof. intros Hk H f v idx p Hs Hl Ho g Hg. apply (H f v idx p Hs Hl Ho g). lia. Qed.
Lemma get_key_at_index_stmt_mono k k' : (k <= k')%nat -> get_key_at_index_eq_stmt_kP k -> get_key_at_index_eq_stmt_kP k'.
Proof. intros Hk H f v idx p Hs Hl Ho g Hg. apply (H f v idx p Hs Hl Ho g). lia. Qed.
Lemma get_object_property_stmt_mono k k' : (k <= k')%nat ->
  get_object_property_eq_stmt_kP k -> get_object_property_eq_stmt_kP k'.
Proof. intros Hk H f v key p Hs Hl Ho g Hg. apply (H f v key p Hs Hl Ho g). lia. Qed.

End StmtK.

(** * Small list facts *)
Lemma lp_lenN_map {A B} (f : A -> B) l : lenN (map f l) = lenN l.
Proof. unfold lenN. rewrite map_length. reflexivity. Qed.

Lemma lp_nthN_map {A B} (f : A -> B) l : forall i, nthN (map f l) i = option_map f (nthN l i).
Proof.
  induction l as [|a l IH]; intros i; [reflexivity|].
  cbn [map nthN]. destruct (i =? 0); [reflexivity|apply IH].
Qed.

Lemma lp_vec_last_nil {A} : vec_last (@nil A) = None.
Proof. reflexivity. Qed.
Lemma lp_vec_last_snoc {A} (l : list A) x : vec_last (l ++ [x]) = Some x.
Proof. unfold vec_last. rewrite rev_app_distr. reflexivity. Qed.
Lemma lp_vec_upd_last_snoc {A} (l : list A) x y : vec_upd_last (l ++ [x]) y = l ++ [y].
Proof. unfold vec_upd_last. rewrite removelast_last. reflexivity. Qed.

(** * Unfolding equations of the generated functions (all by conversion) *)
Lemma lp_get_value_length_S W trap g v : LazyValueRef_get_value_length W trap (S g) v =
  match v with
  | LazyValueRef_String (mkStringRef _ len) => GOk len
  | LazyValueRef_Array (mkArrayRef len _ _) => GOk len
  | LazyValueRef_Object (mkObjectRef len _ _) => GOk len
  | _ => GOk 0
  end.
Proof. reflexivity. Qed.

Lemma lp_get_at_index_S W trap g v index bytes : LazyValueRef_get_at_index W trap (S g) v index bytes =
  match v with
  | LazyValueRef_Array array_ref =>
      gbind (ArrayRef_get_at_index W trap g array_ref index bytes) (fun '(o_1, r_2) =>
        GOk (LazyValueRef_Array o_1, r_2))
  | LazyValueRef_Object obj_ref =>
      gbind (ObjectRef_get_at_index W trap g obj_ref index bytes) (fun '(o_3, r_4) =>
        gbind (match r_4 with ROk v => (GOk (ROk (snd v))) | RErr ec_6 => GOk (RErr ec_6) end) (fun m_5 =>
          GOk (LazyValueRef_Object o_3, m_5)))
  | _ => GOk (v, (RErr (EC_NotIndexable W)))
  end.
Proof. destruct v; reflexivity. Qed.

Lemma lp_get_key_at_index_S W trap g v index bytes : LazyValueRef_get_key_at_index W trap (S g) v index bytes =
  match v with
  | LazyValueRef_Object obj_ref =>
      gbind (ObjectRef_get_at_index W trap g obj_ref index bytes) (fun '(o_1, r_2) =>
        gbind (match r_2 with ROk v => (GOk (ROk (fst v))) | RErr ec_4 => GOk (RErr ec_4) end) (fun m_3 =>
          GOk (LazyValueRef_Object o_1, m_3)))
  | _ => GOk (v, (RErr (EC_NotAnObject W)))
  end.
Proof. destruct v; reflexivity. Qed.

Lemma lp_get_object_property_S W trap g v key bytes : LazyValueRef_get_object_property W trap (S g) v key bytes =
  match v with
  | LazyValueRef_Object obj_ref =>
      gbind (ObjectRef_get_property W trap g obj_ref key bytes) (fun '(o_1, r_2) =>
        GOk (LazyValueRef_Object o_1, r_2))
  | _ => GOk (v, (RErr (EC_NotAnObject W)))
  end.
Proof. destruct v; reflexivity. Qed.

(** the closure of [iter().position(..)] in [ObjectRef::get_property] *)
Definition key_pred (W : N) (trap : bool) (bytes key : list N) : LazyValueRef * LazyValueRef -> gres bool :=
  fun '(key_value, _) => (gbind (match key_value with LazyValueRef_String (mkStringRef ptr len) => (gbind (u_add W trap ptr len) (fun a_2 =>
              gbind (vec_slice bytes ptr a_2) (fun sl_1 =>
                let key_bytes := sl_1 in
                GOk (vec_eqb key_bytes key)))) | _ => GOk false end) (fun mt_3 =>
          GOk mt_3)).

Lemma lp_get_property_S W trap fuel' self key bytes : ObjectRef_get_property W trap (S fuel') self key bytes =
  gbind (vec_position (key_pred W trap bytes key) (ObjectRef_processed_elements self)) (fun pos_4 =>
    match pos_4 with
    | Some (index) => (
      gbind (gbind (vec_index (ObjectRef_processed_elements self) index) (fun el_5 =>
            GOk (Some (snd el_5)))) (fun m_6 =>
        GOk (self, (ROk m_6))))
    | None => (
      gbind (u_sub W trap (ObjectRef_len self) (lenN (ObjectRef_processed_elements self))) (fun a_7 =>
        match ObjectRef_get_property_loop1 W trap fuel' a_7 bytes key self false with
        | GPanic s_ => GPanic s_
        | GOk (LRet r_) => GOk r_
        | GOk (LNext (self, matched)) => (
          gbind (if matched then (gbind (u_sub W trap (lenN (ObjectRef_processed_elements self)) 1) (fun a_37 =>
                GOk (Some a_37))) else GOk None) (fun th_38 =>
            gbind (match th_38 with Some i => (gbind (vec_index (ObjectRef_processed_elements self) i) (fun el_39 =>
                  GOk (Some (snd el_39)))) | None => GOk None end) (fun m_40 =>
              GOk (self, (ROk m_40)))))
        end))
    end).
Proof. reflexivity. Qed.

(** one iteration of the loop after [last.finish_processing()]: parse the key, compare, parse the value header, push;
    [K] is the rest of the loop *)
Definition prop_body (W : N) (trap : bool) (bytes key : list N)
  (K : ObjectRef -> bool -> gres (lctl (ObjectRef * (rres (option LazyValueRef))) (ObjectRef * bool)))
  (self : ObjectRef) : gres (lctl (ObjectRef * (rres (option LazyValueRef))) (ObjectRef * bool)) :=
    gbind (LazyValueRef_new W trap bytes (ObjectRef_end_position_of_last_processed_element self)) (fun r_29 =>
      match r_29 with RErr ec_31 => GOk (LRet (self, (RErr ec_31))) | ROk q_30 =>
      match q_30 with
      | (key_ref, Some key_end_position) => (
        match key_ref with
        | LazyValueRef_String key_string_ref => (
          gbind (u_add W trap (StringRef_ptr key_string_ref) (StringRef_len key_string_ref)) (fun a_33 =>
            gbind (vec_slice bytes (StringRef_ptr key_string_ref) a_33) (fun sl_32 =>
              let matched := (vec_eqb sl_32 key) in
              gbind (LazyValueRef_new W trap bytes key_end_position) (fun r_34 =>
                match r_34 with RErr ec_36 => GOk (LRet (self, (RErr ec_36))) | ROk q_35 =>
                let '(lazy_value, value_end_position) := q_35 in
                let self := (ObjectRef_set_end_position_of_last_processed_element self (match value_end_position with Some v_ => v_ | None => key_end_position end)) in
                let self := (ObjectRef_set_processed_elements self ((ObjectRef_processed_elements self) ++ [(key_ref, lazy_value)])) in
                if matched then (
                  GOk (LNext (self, matched))) else (
                  K self matched) end))))
        | _ => (
          GOk (LRet (self, (RErr (EC_ReadError W)))))
        end)
      | _ => (
        GOk (LRet (self, (RErr (EC_ReadError W)))))
      end end).

Lemma lp_prop_loop_S W trap fuel' cnt_7 bytes key self matched :
  ObjectRef_get_property_loop1 W trap (S fuel') cnt_7 bytes key self matched =
  if cnt_7 =? 0 then GOk (LNext (self, matched)) else (
  match vec_last (ObjectRef_processed_elements self) with
  | Some (lm_8, last) => (
    gbind (LazyValueRef_finish_processing W trap fuel' last bytes) (fun '(o_9, r_10) =>
      let last := o_9 in
      let self := (ObjectRef_set_processed_elements self (vec_upd_last (ObjectRef_processed_elements self) (lm_8, last))) in
      match r_10 with RErr ec_12 => GOk (LRet (self, (RErr ec_12))) | ROk q_11 =>
      match q_11 with
      | Some end_position =>
          prop_body W trap bytes key (ObjectRef_get_property_loop1 W trap fuel' (cnt_7 - 1) bytes key)
            (ObjectRef_set_end_position_of_last_processed_element self end_position)
      | None =>
          prop_body W trap bytes key (ObjectRef_get_property_loop1 W trap fuel' (cnt_7 - 1) bytes key) self
      end end))
  | None =>
      prop_body W trap bytes key (ObjectRef_get_property_loop1 W trap fuel' (cnt_7 - 1) bytes key) self
  end).
Proof. reflexivity. Qed.

(** the same split of the hand model's [prop_scan] *)
Definition scan_body (W : N) (trap : bool) (bs key : list N)
  (rec : list (lz * lz) -> N -> list (lz * lz) * N * res (option N))
  (elems1 : list (lz * lz)) (endp1 : N) : list (lz * lz) * N * res (option N) :=
          match new_key W trap bs endp1 with
          | Ok (LStr kp kl as k, ke) =>
              match key_matches bs kp kl key with
              | Ok matched =>
                  match lz_new W trap bs ke with
                  | Ok (v, e0) =>
                      let endp2 := match e0 with Some e => e | None => ke end in
                      let elems2 := elems1 ++ [(k, v)] in
                      if matched then (elems2, endp2, Ok (Some (lenN elems2 - 1)))
                      else rec elems2 endp2
                  | Err c => (elems1, endp1, Err c)
                  | Panic s => (elems1, endp1, Panic s)
                  | OutOfFuel => (elems1, endp1, OutOfFuel)
                  end
              | Err c => (elems1, endp1, Err c)
              | Panic s => (elems1, endp1, Panic s)
              | OutOfFuel => (elems1, endp1, OutOfFuel)
              end
          | Ok (_, _) => (elems1, endp1, Err E_Read)
          | Err c => (elems1, endp1, Err c)
          | Panic s => (elems1, endp1, Panic s)
          | OutOfFuel => (elems1, endp1, OutOfFuel)
          end.

Lemma lp_prop_scan_S W trap f bs key len elems endp : prop_scan W trap (S f) bs key len elems endp =
    if len <=? lenN elems then (elems, endp, Ok None)
    else
      let '(elems1, endp1, r) := finish_last_obj (finish W trap f bs) elems endp in
      match r with
      | Ok _ => scan_body W trap bs key (prop_scan W trap f bs key len) elems1 endp1
      | Err c => (elems1, endp1, Err c)
      | Panic s => (elems1, endp1, Panic s)
      | OutOfFuel => (elems1, endp1, OutOfFuel)
      end.
Proof. reflexivity. Qed.

(** * [LazyValueRef::get_value_length] *)
Theorem get_value_length_eq : forall W trap, get_value_length_eq_stmt W trap.
Proof.
  intros W trap g v. rewrite lp_get_value_length_S.
  destruct v as [| | |[ptr len]|[len es e]|[len es e]]; reflexivity.
Qed.

(** * The dispatchers *)
Section Dispatch.
Variable W : N.
Variable trap : bool.
Variable bs : list N.
Notation L := (lenN bs).

Lemma conv_obj_eq o : conv (LazyValueRef_Object o) = conv_obj o.
Proof. reflexivity. Qed.
Lemma conv_arr_eq a : conv (LazyValueRef_Array a) = conv_arr a.
Proof. reflexivity. Qed.

Theorem get_object_property_eq_k : forall k,
  obj_prop_eq_stmt_kP W trap bs k -> get_object_property_eq_stmt_kP W trap bs (S k).
Proof.
  intros k H f v key p Hs Hl Ho g Hg.
  destruct g as [|g]; [lia|]. rewrite lp_get_object_property_S.
  destruct v as [| | |[sp sl]|[len es e]|[len es e]];
    try (cbn [conv node_get_prop sim fst snd rel_res]; split; reflexivity).
  change (conv (LazyValueRef_Object (mkObjectRef len es e))) with (LObj len (map convp es) e) in *.
  cbn [node_get_prop node_len] in *.
  assert (Hg' : (2 * f + k <= g)%nat) by lia.
  generalize (H f key len es e p Hs Hl Ho g Hg').
  destruct (ObjectRef_get_property W trap g (mkObjectRef len es e) key bs) as [[o' r]|s]; cbn [gbind sim]; [|tauto].
  intros [H1 H2]. rewrite conv_obj_eq. split; [exact H1|].
  destruct r as [ov|c]; destruct (snd (obj_prop W trap f bs key len (map convp es) e)) as [oi|c'| |];
    cbn [rel_res] in H2 |- *; try contradiction; try exact H2.
  unfold prop_rel in H2. destruct ov as [x|]; destruct oi as [i|]; try contradiction; try exact I.
  destruct H2 as [kx Hk]. destruct o' as [len' es' e']. cbn [ObjectRef_processed_elements] in Hk.
  unfold conv_obj. cbn [conv get_node]. rewrite lp_nthN_map, Hk. reflexivity.
Qed.

Theorem get_key_at_index_eq_k : forall k,
  obj_get_eq_stmt_kP W trap bs k -> get_key_at_index_eq_stmt_kP W trap bs (S k).
Proof.
  intros k H f v idx p Hs Hl Ho g Hg.
  destruct g as [|g]; [lia|]. rewrite lp_get_key_at_index_S.
  destruct v as [| | |[sp sl]|[len es e]|[len es e]];
    try (cbn [conv node_get_key_at_index sim fst snd rel_res]; split; reflexivity).
  change (conv (LazyValueRef_Object (mkObjectRef len es e))) with (LObj len (map convp es) e) in *.
  cbn [node_get_key_at_index node_len] in *.
  assert (Hg' : (2 * f + k <= g)%nat) by lia.
  generalize (H f len es e idx p Hs Hl Ho g Hg').
  destruct (obj_get W trap f bs len (map convp es) e idx) as [n' hr].
  destruct (ObjectRef_get_at_index W trap g (mkObjectRef len es e) idx bs) as [[o' r]|s]; cbn [gbind sim fst snd]; [|tauto].
  intros [H1 H2].
  destruct r as [x|c]; destruct hr as [u|c'| |];
    cbn [rel_res] in H2; try contradiction; cbn [gbind sim rel_res fst snd]; rewrite conv_obj_eq; (split; [exact H1|]); try exact H2.
  destruct o' as [len' es' e']. cbn [ObjectRef_processed_elements] in H2.
  unfold conv_obj. cbn [conv get_node]. rewrite lp_nthN_map, H2. destruct x as [xk xv]. reflexivity.
Qed.

Theorem get_at_index_eq_k : forall k,
  arr_get_eq_stmt_kP W trap bs k -> obj_get_eq_stmt_kP W trap bs k -> get_at_index_eq_stmt_kP W trap bs (S k).
Proof.
  intros k Ha H f v idx p Hs Hl Ho g Hg.
  destruct g as [|g]; [lia|]. rewrite lp_get_at_index_S.
  assert (Hg' : (2 * f + k <= g)%nat) by lia.
  destruct v as [| | |[sp sl]|[len es e]|[len es e]];
    try (cbn [conv node_get_at_index sim fst snd rel_res]; split; reflexivity).
  - change (conv (LazyValueRef_Array (mkArrayRef len es e))) with (LArr len (map conv es) e) in *.
    cbn [node_get_at_index node_len] in *.
    generalize (Ha f len es e idx p Hs Hl Ho g Hg').
    destruct (ArrayRef_get_at_index W trap g (mkArrayRef len es e) idx bs) as [[a' r]|s]; cbn [gbind sim]; [|tauto].
    intros [H1 H2]. rewrite conv_arr_eq. split; [exact H1|].
    destruct r as [x|c]; destruct (snd (arr_get W trap f bs len (map conv es) e idx)) as [u|c'| |];
      cbn [rel_res] in H2 |- *; try contradiction; try exact H2.
    destruct a' as [len' es' e']. cbn [ArrayRef_processed_elements] in H2.
    unfold conv_arr. cbn [conv idx_step get_node]. rewrite lp_nthN_map, H2. reflexivity.
  - change (conv (LazyValueRef_Object (mkObjectRef len es e))) with (LObj len (map convp es) e) in *.
    cbn [node_get_at_index node_len] in *.
    generalize (H f len es e idx p Hs Hl Ho g Hg').
    destruct (obj_get W trap f bs len (map convp es) e idx) as [n' hr].
    destruct (ObjectRef_get_at_index W trap g (mkObjectRef len es e) idx bs) as [[o' r]|s]; cbn [gbind sim fst snd]; [|tauto].
    intros [H1 H2].
    destruct r as [x|c]; destruct hr as [u|c'| |];
      cbn [rel_res] in H2; try contradiction; cbn [gbind sim rel_res fst snd]; rewrite conv_obj_eq; (split; [exact H1|]); try exact H2.
    destruct o' as [len' es' e']. cbn [ObjectRef_processed_elements] in H2.
    unfold conv_obj. cbn [conv idx_step get_node]. rewrite lp_nthN_map, H2. destruct x as [xk xv]. reflexivity.
Qed.

End Dispatch.

(** * [ObjectRef::get_property] *)
Ltac oref_simpl :=
  unfold ObjectRef_set_end_position_of_last_processed_element, ObjectRef_set_processed_elements;
  cbn [ObjectRef_len ObjectRef_processed_elements ObjectRef_end_position_of_last_processed_element].

Section PropEq.
Variable W : N.
Variable trap : bool.
Variable bs : list N.
Notation L := (lenN bs).
Hypothesis Hin : input_ok W bs.

Lemma lp_L_lt : L < 2 ^ W.
Proof. destruct Hin as (_ & H & _). lia. Qed.

(** the two header decoders agree, and what they return is sane *)
Lemma lp_new_cases pos :
  (exists c, LazyValueRef_new W trap bs pos = GOk (RErr c) /\ lz_new W trap bs pos = Err c) \/
  (exists v e, LazyValueRef_new W trap bs pos = GOk (ROk (v, e)) /\ lz_new W trap bs pos = Ok (conv v, e) /\
               sane L pos (conv v)).
Proof.
  destruct Hin as (Hb & HW & H32).
  pose proof (lazy_new_eq W trap bs pos Hb HW H32) as He.
  pose proof (lz_new_sane W trap bs lp_L_lt Hb pos) as Hn.
  destruct (LazyValueRef_new W trap bs pos) as [[[v e]|c]|s]; destruct (lz_new W trap bs pos) as [[l e']|c'|s'|];
    cbn [same_res] in He; try contradiction.
  - right. destruct He as [<- <-]. exists v, e. split; [reflexivity|]. split; [reflexivity|].
    cbn [new_sane] in Hn. exact (proj1 Hn).
  - left. subst c'. exists c. split; reflexivity.
Qed.

(** ** the processed prefix: [iter().position(..)] is [find_processed] *)
Lemma lp_key_cmp ptr len key : ptr + len <= L ->
  u_add W trap ptr len = GOk (ptr + len) /\
  vec_slice bs ptr (ptr + len) = GOk (sub bs ptr len) /\
  key_matches bs ptr len key = Ok (bytes_eqb (sub bs ptr len) key).
Proof.
  intros H. pose proof lp_L_lt as HL. unfold u_add, key_matches, vec_slice. cbv zeta.
  replace (ptr + len <? 2 ^ W) with true by (symmetry; apply N.ltb_lt; lia).
  replace (ptr + len <? ptr) with false by (symmetry; apply N.ltb_ge; lia).
  replace (L <? ptr + len) with false by (symmetry; apply N.ltb_ge; lia).
  cbn [orb]. replace (ptr + len - ptr) with len by lia. repeat split; reflexivity.
Qed.

Lemma lp_position key p : forall es i,
  Forall (fun kv => sane L p (fst kv) /\ sane L p (snd kv)) (map convp es) ->
  exists r, vec_position_from (key_pred W trap bs key) es i = GOk r /\
            find_processed bs key (map convp es) i = Ok r /\
            (forall j, r = Some j -> i <= j /\ j < i + lenN es).
Proof.
  induction es as [|[kx vx] es IH]; intros i Hall.
  - exists None. repeat split; discriminate.
  - cbn [map] in Hall. inversion Hall as [|? ? [Hk _] Hr]; subst. cbn [convp fst snd] in Hk.
    destruct (IH (i + 1) Hr) as (r & Hp & Hf & Hj). rewrite lenN_cons.
    cbn [vec_position_from map]. unfold convp at 1. cbn [fst snd].
    assert (Hskip : forall j, r = Some j -> i <= j /\ j < i + (1 + lenN es))
      by (intros j E; specialize (Hj j E); lia).
    destruct kx as [| | |[kp kl]|[? ? ?]|[? ? ?]]; cbn [key_pred conv find_processed gbind];
      try (exists r; split; [exact Hp|split; [exact Hf|exact Hskip]]).
    cbn [conv] in Hk. inversion Hk as [| | |? ? ? Hkb| |]; subst.
    destruct (lp_key_cmp kp kl key Hkb) as (E1 & E2 & E3).
    rewrite E1, E3. cbn [gbind]. rewrite E2. cbn [gbind]. cbv zeta. change (@vec_eqb) with (@bytes_eqb).
    destruct (bytes_eqb (sub bs kp kl) key).
    + exists (Some i). repeat split; try reflexivity; inversion H; subst; lia.
    + exists r. split; [exact Hp|split; [exact Hf|exact Hskip]].
Qed.

(** ** the loop *)
Definition last_sane (es : list (LazyValueRef * LazyValueRef)) : Prop :=
  forall es0 k0 x, es = es0 ++ [(k0, x)] -> exists p, sane L p (conv x).

Definition loop_post (len : N) (ps : list (lz * lz) * N * res (option N))
  (out : gres (lctl (ObjectRef * rres (option LazyValueRef)) (ObjectRef * bool))) : Prop :=
  match out with
  | GPanic s => s <> P_fuel /\ is_panic (snd ps)
  | GOk (LRet (o', r)) =>
      conv_obj o' = LObj len (fst (fst ps)) (snd (fst ps)) /\ exists c, r = RErr c /\ snd ps = Err c
  | GOk (LNext (o', m)) =>
      conv_obj o' = LObj len (fst (fst ps)) (snd (fst ps)) /\
      (if m then snd ps = Ok (Some (lenN (ObjectRef_processed_elements o') - 1)) /\
                 1 <= lenN (ObjectRef_processed_elements o')
       else snd ps = Ok None)
  end.

Definition loop_P (k : nat) (f : nat) : Prop := forall g len key es e,
  lenN es <= len -> last_sane es ->
  snd (prop_scan W trap f bs key len (map convp es) e) <> OutOfFuel ->
  (2 * f + k <= S g)%nat ->
  loop_post len (prop_scan W trap f bs key len (map convp es) e)
    (ObjectRef_get_property_loop1 W trap g (len - lenN es) bs key (mkObjectRef len es e) false).

Lemma lp_map_snoc (es : list (LazyValueRef * LazyValueRef)) kx vx :
  map convp (es ++ [(kx, vx)]) = map convp es ++ [(conv kx, conv vx)].
Proof. rewrite map_app. reflexivity. Qed.

(** one iteration after the last processed value has been finished *)
Lemma lp_body k f g len key es1 e1 cnt :
  loop_P k f -> (2 * f + k <= S g)%nat ->
  lenN es1 < len -> cnt = len - lenN es1 ->
  snd (scan_body W trap bs key (prop_scan W trap f bs key len) (map convp es1) e1) <> OutOfFuel ->
  loop_post len (scan_body W trap bs key (prop_scan W trap f bs key len) (map convp es1) e1)
    (prop_body W trap bs key (ObjectRef_get_property_loop1 W trap g (cnt - 1) bs key) (mkObjectRef len es1 e1)).
Proof.
  intros IH Hg Hlt Hcnt Ho. unfold scan_body, prop_body, new_key in *.
  cbn [ObjectRef_end_position_of_last_processed_element].
  destruct (lp_new_cases e1) as [(c & E1 & E2)|(kr & eo & E1 & E2 & Hsk)]; rewrite E1, E2 in *; cbn [gbind].
  { cbn [loop_post fst snd]. split; [reflexivity|]. exists c. split; reflexivity. }
  destruct eo as [ke|].
  2:{ cbn [loop_post fst snd]. split; [reflexivity|]. exists (EC_ReadError W). split; reflexivity. }
  destruct kr as [| | |[kp kl]|[? ? ?]|[? ? ?]]; cbn [conv is_str];
    try (cbn [loop_post fst snd]; split; [reflexivity|]; exists (EC_ReadError W); split; reflexivity).
  cbn [conv is_str] in Ho, Hsk. cbn [StringRef_ptr StringRef_len].
  inversion Hsk as [| | |? ? ? Hkb| |]; subst.
  destruct (lp_key_cmp kp kl key Hkb) as (K1 & K2 & K3).
  rewrite K1. cbn [gbind]. rewrite K2. cbn [gbind]. change (@vec_eqb) with (@bytes_eqb). rewrite K3 in Ho |- *.
  clear K1 K2 K3.
  {
    destruct (lp_new_cases ke) as [(c & F1 & F2)|(vr & e0 & F1 & F2 & Hsv)]; rewrite F1, F2 in *; cbn [gbind].
    { cbn [loop_post fst snd]. split; [reflexivity|]. exists c. split; reflexivity. }
    cbv zeta in Ho |- *.
    oref_simpl.
    set (endp2 := match e0 with Some v_ => v_ | None => ke end) in *.
    set (kref := LazyValueRef_String (mkStringRef kp kl)) in *.
    change (map convp es1 ++ [(LStr kp kl, conv vr)]) with (map convp es1 ++ [(conv kref, conv vr)]) in *.
    rewrite <- lp_map_snoc in *.
    destruct (bytes_eqb (sub bs kp kl) key); oref_simpl.
    + cbn [loop_post fst snd ObjectRef_processed_elements]. split; [reflexivity|].
      rewrite lp_lenN_map. split; [reflexivity|]. rewrite lenN_app, lenN_one. lia.
    + replace (len - lenN es1 - 1) with (len - lenN (es1 ++ [(kref, vr)])) by (rewrite lenN_app, lenN_one; lia).
      apply IH.
      * rewrite lenN_app, lenN_one. lia.
      * intros es0 k0 x E. apply app_inj_tail in E. destruct E as [_ Etl]. inversion Etl; subst x. eauto.
      * exact Ho.
      * exact Hg.
  }
Qed.

Section WithFinish.
Variable k : nat.
Hypothesis Hfin : finish_eq_stmt_kP W trap bs k.

Lemma lp_loop : forall f, loop_P k f.
Proof.
  induction f as [|f IH]; intros g len key es e Hle Hls Ho Hg.
  - exfalso. apply Ho. reflexivity.
  - destruct g as [|g]; [lia|].
    assert (Hg' : (2 * f + k <= g)%nat) by lia. assert (Hg'' : (2 * f + k <= S g)%nat) by lia.
    rewrite lp_prop_loop_S. rewrite lp_prop_scan_S in Ho |- *. rewrite lp_lenN_map in *.
    destruct (N.leb_spec len (lenN es)) as [Hge|Hlt].
    + replace (len - lenN es =? 0) with true by (symmetry; apply N.eqb_eq; lia).
      cbn [loop_post fst snd]. split; reflexivity.
    + replace (len - lenN es =? 0) with false by (symmetry; apply N.eqb_neq; lia).
      cbn [ObjectRef_processed_elements].
      destruct (r_snoc_cases es) as [->|(es0 & [k0 x] & ->)].
      * rewrite lp_vec_last_nil.
        change (finish_last_obj (finish W trap f bs) (map convp []) e) with (@nil (lz * lz), e, @Ok unit tt) in *.
        cbv iota beta in Ho |- *.
        apply (lp_body k f g len key [] e (len - lenN (@nil (LazyValueRef * LazyValueRef))) IH Hg'' Hlt eq_refl Ho).
      * rewrite lp_vec_last_snoc. rewrite lp_map_snoc in *. unfold finish_last_obj in *.
        rewrite r_last_opt_snoc in *.
        destruct (Hls es0 k0 x eq_refl) as [p Hsx].
        pose proof (Hfin f x p Hsx) as Hsim.
        destruct (finish W trap f bs (conv x)) as [x' r]. cbn [snd] in Hsim.
        rewrite r_upd_last_snoc in *.
        assert (Hr : r <> OutOfFuel) by (intros ->; apply Ho; reflexivity).
        specialize (Hsim Hr g Hg').
        destruct (LazyValueRef_finish_processing W trap g x bs) as [[o rr]|s]; cbn [gbind sim fst snd] in Hsim |- *.
        2:{ destruct Hsim as [Hs1 Hs2]. destruct r as [?|?|?|]; cbn [is_panic] in Hs2; try contradiction.
            cbn [loop_post snd]. split; [exact Hs1|exact I]. }
        destruct Hsim as [Hc Hrel]. subst x'.
        cbv zeta. rewrite lp_vec_upd_last_snoc. oref_simpl.
        assert (Hlt' : lenN (es0 ++ [(k0, o)]) < len) by (rewrite lenN_app, lenN_one in *; lia).
        assert (Hcnt : len - lenN (es0 ++ [(k0, x)]) = len - lenN (es0 ++ [(k0, o)]))
          by (rewrite !lenN_app, !lenN_one; reflexivity).
        rewrite <- lp_map_snoc in *.
        destruct rr as [q|c]; destruct r as [q'|c'|s'|]; cbn [rel_res] in Hrel; try contradiction.
        -- subst q'. destruct q as [e1|].
           ++ apply (lp_body k f g len key (es0 ++ [(k0, o)]) e1 _ IH Hg'' Hlt' Hcnt Ho).
           ++ apply (lp_body k f g len key (es0 ++ [(k0, o)]) e _ IH Hg'' Hlt' Hcnt Ho).
        -- subst c'. cbn [loop_post fst snd]. split; [reflexivity|]. exists c. split; reflexivity.
Qed.

Theorem obj_prop_eq_k : (1 <= k)%nat -> obj_prop_eq_stmt_kP W trap bs k.
Proof.
  intros Hk f key len es e p Hs Hlen Ho g Hg.
  destruct g as [|g]; [lia|]. rewrite lp_get_property_S. cbn [ObjectRef_processed_elements ObjectRef_len].
  destruct (sane_obj_inv _ _ _ _ _ Hs) as (H1 & H2 & H3 & H4). rewrite lp_lenN_map in H1.
  destruct (lp_position key (p + 1) es 0 H4) as (r & Hp & Hf & Hj).
  unfold vec_position. rewrite Hp. cbn [gbind]. unfold obj_prop in *. rewrite Hf in *.
  destruct r as [i|].
  - destruct (Hj i eq_refl) as [_ Hi]. destruct (nthN_lt_Some es i) as [[xk xv] Hx]; [lia|].
    unfold vec_index. rewrite Hx. cbn [gbind sim fst snd rel_res]. split; [reflexivity|].
    unfold prop_rel. cbn [ObjectRef_processed_elements]. exists xk. exact Hx.
  - rewrite lp_lenN_map in *.
    replace (len <? lenN es) with false in * by (symmetry; apply N.ltb_ge; lia).
    unfold u_sub at 1. replace (lenN es <=? len) with true by (symmetry; apply N.leb_le; lia). cbn [gbind].
    assert (Hls : last_sane es).
    { intros es0 k0 x ->. rewrite lp_map_snoc in H4. apply Forall_app in H4. destruct H4 as [_ H4].
      inversion H4 as [|? ? [_ Hv] _]; subst. cbn [snd] in Hv. eauto. }
    pose proof (lp_loop f g len key es e H1 Hls) as HL.
    destruct (prop_scan W trap f bs key len (map convp es) e) as [[e' p'] r]. cbn [snd] in Ho.
    specialize (HL Ho ltac:(lia)).
    destruct (ObjectRef_get_property_loop1 W trap g (len - lenN es) bs key (mkObjectRef len es e) false)
      as [[[o' rr]|[o' m]]|s]; cbn [loop_post fst snd] in HL; cbn [sim fst snd].
    + destruct HL as [Hc (c & -> & ->)]. split; [exact Hc|reflexivity].
    + destruct HL as [Hc Hm]. destruct m.
      * destruct Hm as [-> Hne]. unfold u_sub.
        replace (1 <=? lenN (ObjectRef_processed_elements o')) with true by (symmetry; apply N.leb_le; exact Hne).
        cbn [gbind].
        destruct (nthN_lt_Some (ObjectRef_processed_elements o') (lenN (ObjectRef_processed_elements o') - 1))
          as [[xk xv] Hx]; [lia|].
        unfold vec_index. rewrite Hx. cbn [gbind sim fst snd rel_res]. split; [exact Hc|].
        unfold prop_rel. exists xk. exact Hx.
      * subst r. cbn [gbind sim rel_res fst snd prop_rel]. split; [exact Hc|exact I].
    + exact HL.
Qed.

End WithFinish.
End PropEq.

(** * The statements of Read/LazyLoopsStmt.v *)
(** [ObjectRef::get_property], exactly as stated (premise and conclusion with [enough], i.e. k = 2) ... *)
Theorem obj_prop_eq : forall W trap bs,
  input_ok W bs -> finish_eq_stmt W trap bs -> obj_prop_eq_stmt W trap bs.
Proof.
  intros W trap bs Hin Hf. apply obj_prop_stmt_2. apply obj_prop_eq_k; [exact Hin| |lia].
  apply finish_stmt_2. exact Hf.
Qed.

(** ... and with one unit of slack less, which is what the dispatcher needs *)
Theorem obj_prop_eq_1 : forall W trap bs,
  input_ok W bs -> finish_eq_stmt_kP W trap bs 1 -> obj_prop_eq_stmt_kP W trap bs 1.
Proof. intros W trap bs Hin Hf. apply obj_prop_eq_k; [exact Hin|exact Hf|lia]. Qed.

(** The dispatchers, with the conclusion exactly as stated ([enough]); the premises are the statements about
    [ArrayRef] / [ObjectRef] with slack 1 (the dispatcher itself consumes one unit of fuel, so the premises with
    [enough] only give the conclusions with [2 f + 3 <= g]: the [_3] variants below). *)
Theorem get_object_property_eq : forall W trap bs,
  input_ok W bs -> obj_prop_eq_stmt_kP W trap bs 1 -> get_object_property_eq_stmt W trap bs.
Proof. intros W trap bs _ H. apply get_object_property_stmt_2. apply get_object_property_eq_k. exact H. Qed.

Theorem get_at_index_eq : forall W trap bs,
  input_ok W bs -> arr_get_eq_stmt_kP W trap bs 1 -> obj_get_eq_stmt_kP W trap bs 1 -> get_at_index_eq_stmt W trap bs.
Proof. intros W trap bs _ Ha Ho. apply get_at_index_stmt_2. apply get_at_index_eq_k; assumption. Qed.

Theorem get_key_at_index_eq : forall W trap bs,
  input_ok W bs -> obj_get_eq_stmt_kP W trap bs 1 -> get_key_at_index_eq_stmt W trap bs.
Proof. intros W trap bs _ Ho. apply get_key_at_index_stmt_2. apply get_key_at_index_eq_k. exact Ho. Qed.

(** from the reader's [finish_processing] with slack 1 directly *)
Theorem get_object_property_eq_fin : forall W trap bs,
  input_ok W bs -> finish_eq_stmt_kP W trap bs 1 -> get_object_property_eq_stmt W trap bs.
Proof.
  intros W trap bs Hin Hf. apply (get_object_property_eq W trap bs Hin). apply obj_prop_eq_1; assumption.
Qed.

(** from the premises as stated in the task ([enough] = slack 2): slack 3 *)
Theorem get_object_property_eq_3 : forall W trap bs,
  input_ok W bs -> obj_prop_eq_stmt W trap bs -> get_object_property_eq_stmt_kP W trap bs 3.
Proof. intros W trap bs _ H. apply get_object_property_eq_k. apply obj_prop_stmt_2. exact H. Qed.

Theorem get_at_index_eq_3 : forall W trap bs,
  input_ok W bs -> arr_get_eq_stmt W trap bs -> obj_get_eq_stmt W trap bs -> get_at_index_eq_stmt_kP W trap bs 3.
Proof.
  intros W trap bs _ Ha Ho. apply get_at_index_eq_k; [apply arr_get_stmt_2; exact Ha|apply obj_get_stmt_2; exact Ho].
Qed.

Theorem get_key_at_index_eq_3 : forall W trap bs,
  input_ok W bs -> obj_get_eq_stmt W trap bs -> get_key_at_index_eq_stmt_kP W trap bs 3.
Proof. intros W trap bs _ Ho. apply get_key_at_index_eq_k. apply obj_get_stmt_2. exact Ho. Qed.

(** * Examples (non-vacuity) *)
(** { "a": [1, 2], "b": 7 } *)
Definition pdoc : list N := [0x82; 0xa1; 0x61; 0x92; 1; 2; 0xa1; 0x62; 7].

Example pdoc_input_ok : input_ok 32 pdoc.
Proof.
  split; [|split].
  - unfold pdoc. repeat (constructor; [reflexivity|]). constructor.
  - vm_compute. reflexivity.
  - discriminate.
Qed.

(** the root object as [LazyValueRef::new] returns it, and after a lookup of "a" (the last processed value is the
    unfinished array: the lookup of "b" has to finish it first) *)
Definition pdoc_o0 : ObjectRef := mkObjectRef 2 [] 1.
Definition pdoc_o1 : ObjectRef :=
  mkObjectRef 2 [(LazyValueRef_String (mkStringRef 2 1), LazyValueRef_Array (mkArrayRef 2 [] 4))] 3.

Example pdoc_new : LazyValueRef_new 32 true pdoc 0 = GOk (ROk (LazyValueRef_Object pdoc_o0, None)).
Proof. vm_compute. reflexivity. Qed.

Example pdoc_o0_sane : sane (lenN pdoc) 0 (conv_obj pdoc_o0).
Proof. constructor; [discriminate|reflexivity|discriminate|constructor]. Qed.

Example pdoc_o1_sane : sane (lenN pdoc) 0 (conv_obj pdoc_o1).
Proof.
  constructor; [discriminate|reflexivity|discriminate|].
  constructor; [|constructor]. cbn [fst snd conv map]. split.
  - constructor. discriminate.
  - constructor; [discriminate|reflexivity|discriminate|constructor].
Qed.

(** "a" from scratch: hand fuel 4, generated fuel 2 * 4 + 1 *)
Example pdoc_prop_a :
  snd (obj_prop 32 true 4 pdoc [0x61] 2 [] 1) = Ok (Some 0) /\
  ObjectRef_get_property 32 true 9 pdoc_o0 [0x61] pdoc = GOk (pdoc_o1, ROk (Some (LazyValueRef_Array (mkArrayRef 2 [] 4)))) /\
  sim conv_obj prop_rel (ObjectRef_get_property 32 true 9 pdoc_o0 [0x61] pdoc) (obj_prop 32 true 4 pdoc [0x61] 2 [] 1).
Proof.
  split; [vm_compute; reflexivity|]. split; [vm_compute; reflexivity|].
  vm_compute. split; [reflexivity|]. eexists. reflexivity.
Qed.

(** then "b" (found by the loop, after finishing the array), "a" again (found among the processed pairs) and a key
    that is not there: hand fuel 5, generated fuel 2 * 5 + 1; the dispatcher with 2 * 5 + 2 *)
Example pdoc_prop_b :
  snd (obj_prop 32 true 5 pdoc [0x62] 2 (map convp (ObjectRef_processed_elements pdoc_o1)) 3) = Ok (Some 1) /\
  sim conv_obj prop_rel (ObjectRef_get_property 32 true 11 pdoc_o1 [0x62] pdoc)
      (obj_prop 32 true 5 pdoc [0x62] 2 (map convp (ObjectRef_processed_elements pdoc_o1)) 3) /\
  sim conv_obj prop_rel (ObjectRef_get_property 32 true 11 pdoc_o1 [0x61] pdoc)
      (obj_prop 32 true 5 pdoc [0x61] 2 (map convp (ObjectRef_processed_elements pdoc_o1)) 3) /\
  snd (obj_prop 32 true 5 pdoc [0x63] 2 (map convp (ObjectRef_processed_elements pdoc_o1)) 3) = Ok None /\
  sim conv_obj prop_rel (ObjectRef_get_property 32 true 11 pdoc_o1 [0x63] pdoc)
      (obj_prop 32 true 5 pdoc [0x63] 2 (map convp (ObjectRef_processed_elements pdoc_o1)) 3).
Proof.
  split; [vm_compute; reflexivity|].
  split; [vm_compute; split; [reflexivity|eexists; reflexivity]|].
  split; [vm_compute; split; [reflexivity|eexists; reflexivity]|].
  split; [vm_compute; reflexivity|].
  vm_compute. split; [reflexivity|exact I].
Qed.

Example pdoc_dispatch :
  sim conv (fun v' (ov : option LazyValueRef) (oi : option N) =>
              match ov, oi with
              | Some x, Some i => get_node (conv v') [SVal i] = Some (conv x)
              | None, None => True
              | _, _ => False
              end)
      (LazyValueRef_get_object_property 32 true 12 (LazyValueRef_Object pdoc_o1) [0x62] pdoc)
      (node_get_prop 32 true pdoc 5 (conv (LazyValueRef_Object pdoc_o1)) [0x62]) /\
  sim conv (fun v' x (_ : unit) => get_node (conv v') [idx_step (conv v') 1] = Some (conv x))
      (LazyValueRef_get_at_index 32 true 12 (LazyValueRef_Object pdoc_o1) 1 pdoc)
      (node_get_at_index 32 true pdoc 5 (conv (LazyValueRef_Object pdoc_o1)) 1) /\
  sim conv (fun v' x (_ : unit) => get_node (conv v') [SKey 1] = Some (conv x))
      (LazyValueRef_get_key_at_index 32 true 12 (LazyValueRef_Object pdoc_o1) 1 pdoc)
      (node_get_key_at_index 32 true pdoc 5 (conv (LazyValueRef_Object pdoc_o1)) 1) /\
  LazyValueRef_get_value_length 32 true 1 (LazyValueRef_Object pdoc_o1) = GOk 2.
Proof. vm_compute. repeat split; reflexivity. Qed.

(** a scalar is not an object: the dispatcher answers by itself *)
Example pdoc_dispatch_scalar :
  LazyValueRef_get_object_property 32 true 1 (LazyValueRef_Number 0) [0x62] pdoc
    = GOk (LazyValueRef_Number 0, RErr E_NotAnObject) /\
  node_get_prop 32 true pdoc 0 (conv (LazyValueRef_Number 0)) [0x62] = (LNum 0, Err E_NotAnObject).
Proof. split; reflexivity. Qed.

(** the generated side does need its own fuel: with too little it reports [P_fuel] (which [sim] excludes) *)
Example pdoc_fuel_needed : ObjectRef_get_property 32 true 6 pdoc_o1 [0x62] pdoc = GPanic P_fuel.
Proof. vm_compute. reflexivity. Qed.

Print Assumptions get_value_length_eq.
Print Assumptions obj_prop_eq_k.
Print Assumptions obj_prop_eq.
Print Assumptions obj_prop_eq_1.
Print Assumptions get_object_property_eq_k.
Print Assumptions get_at_index_eq_k.
Print Assumptions get_key_at_index_eq_k.
Print Assumptions get_object_property_eq.
Print Assumptions get_at_index_eq.
Print Assumptions get_key_at_index_eq.
Print Assumptions get_object_property_eq_fin.
Print Assumptions get_object_property_eq_3.
Print Assumptions get_at_index_eq_3.
Print Assumptions get_key_at_index_eq_3.
Print Assumptions pdoc_prop_b.
Print Assumptions pdoc_dispatch.

(** the statements of this file ([X_stmt_kP W trap bs k], slack last) are those of Read/LazyLoopsStmt.v ([X_stmt_k k W trap bs]) *)
Lemma kP_finish W trap bs k : finish_eq_stmt_kP W trap bs k <-> finish_eq_stmt_k k W trap bs. Proof. reflexivity. Qed.
Lemma kP_arr_get W trap bs k : arr_get_eq_stmt_kP W trap bs k <-> arr_get_eq_stmt_k k W trap bs. Proof. reflexivity. Qed.
Lemma kP_obj_get W trap bs k : obj_get_eq_stmt_kP W trap bs k <-> obj_get_eq_stmt_k k W trap bs. Proof. reflexivity. Qed.
Lemma kP_obj_prop W trap bs k : obj_prop_eq_stmt_kP W trap bs k <-> obj_prop_eq_stmt_k k W trap bs. Proof. reflexivity. Qed.
Lemma kP_get_at_index W trap bs k : get_at_index_eq_stmt_kP W trap bs k <-> get_at_index_eq_stmt_k k W trap bs. Proof. reflexivity. Qed.
Lemma kP_get_key_at_index W trap bs k : get_key_at_index_eq_stmt_kP W trap bs k <-> get_key_at_index_eq_stmt_k k W trap bs. Proof. reflexivity. Qed.
Lemma kP_get_object_property W trap bs k : get_object_property_eq_stmt_kP W trap bs k <-> get_object_property_eq_stmt_k k W trap bs. Proof. reflexivity. Qed.
