(** SPEC (executable) of the input read API on ARBITRARY bytes: a SEQUENTIAL MessagePack decoder.
    No lazy state, no history: every answer is computed from the input bytes and the position
    asked for (a path from the root at offset 0) alone.

    - [hdr pos]            decode ONE value header at [pos].  This is [lz_new] of the model reused
                           (it is exactly the header decoder of the Rust code, [LazyValueRef::new]):
                           [Ok (v, Some e)]   scalar [v] = LNull / LBool / LNum bits / LStr ptr len, ends at [e];
                           [Ok (LArr n [] p, None)] / [Ok (LObj n [] p, None)]
                                               container of declared length [n], first child at [p];
                           [Err c]            truncated / unknown marker / NaN float / string outside the input.
    - [skip]               fully skip one value (header, then all children; map keys must be strings).
    - [step_pos], [seq_pos] walk a path, skipping the preceding siblings sequentially.
    - [seq_find]           by-name lookup: the FIRST pair whose key bytes equal the name.
    - [seq_exec], [seq_run] the answers of a call sequence (scopes are earlier outputs).

    The parameter [strict] is the one place where the reader deviates from the most natural
    sequential decoder: the reader always decodes a map pair as a unit (key header, which must be a
    string, THEN the header of its value) before it answers anything about the pair.
      [strict = true]  ([seq_run], [seq_exec_strict]) mirrors this: the key of pair [i] is an error
                       when the header of value [i] is malformed;
      [strict = false] ([nat_exec]) is the natural decoder: the key of pair [i] only needs the key.
    Theorems (Properties/C08v.v): the model EQUALS [seq_run] on every input; whenever the strict
    answer is not an error value it is the natural decoder's answer. *)
From Coq Require Import NArith ZArith List Bool.
From SFV Require Import Base.Bytes Base.F64 Read.Lazy Read.ReadRun Read.ReadSpec Read.ReadSafe.
Import ListNotations.
Open Scope N_scope.

Section Seq.
Variable W : N.
Variable trap : bool.
Variable bs : list N.

(** one value header at [pos] *)
Definition hdr (pos : N) : res (lz * option N) := lz_new W trap bs pos.
(** a map key at [pos]: a header that is a string; returns it and the position after it *)
Definition key_at (pos : N) : res (lz * N) := new_key W trap bs pos.

(** * Skipping one value / [n] consecutive values / [n] consecutive key-value pairs *)
Fixpoint skip (fuel : nat) (pos : N) {struct fuel} : res N :=
  match fuel with
  | O => OutOfFuel
  | S f =>
      match hdr pos with
      | Ok (LArr len _ first, _) => skip_elems f len first
      | Ok (LObj len _ first, _) => skip_pairs f len first
      | Ok (_, Some e) => Ok e
      | Ok (_, None) => Err E_Read
      | Err c => Err c | Panic s => Panic s | OutOfFuel => OutOfFuel
      end
  end
with skip_elems (fuel : nat) (n : N) (pos : N) {struct fuel} : res N :=
  match fuel with
  | O => OutOfFuel
  | S f =>
      if n =? 0 then Ok pos
      else match skip f pos with
           | Ok e => skip_elems f (n - 1) e
           | Err c => Err c | Panic s => Panic s | OutOfFuel => OutOfFuel
           end
  end
with skip_pairs (fuel : nat) (n : N) (pos : N) {struct fuel} : res N :=
  match fuel with
  | O => OutOfFuel
  | S f =>
      if n =? 0 then Ok pos
      else match key_at pos with
           | Ok (_, ke) =>
               match skip f ke with
               | Ok e => skip_pairs f (n - 1) e
               | Err c => Err c | Panic s => Panic s | OutOfFuel => OutOfFuel
               end
           | Err c => Err c | Panic s => Panic s | OutOfFuel => OutOfFuel
           end
  end.

Variable strict : bool.

(** the pair at [pos]: its key (a string header) and the position of its value;
    [strict]: the header of the value must decode too *)
Definition pair_at (pos : N) : res (lz * N) :=
  match key_at pos with
  | Ok (k, ke) =>
      if strict then
        match hdr ke with
        | Ok _ => Ok (k, ke)
        | Err c => Err c | Panic s => Panic s | OutOfFuel => OutOfFuel
        end
      else Ok (k, ke)
  | Err c => Err c | Panic s => Panic s | OutOfFuel => OutOfFuel
  end.

(** * Walking a path *)
(** position of child [s] of the container at [pos]: the index must be below the declared length,
    the preceding siblings are skipped one after the other *)
Definition step_pos (fuel : nat) (pos : N) (s : pstep) : res N :=
  match hdr pos with
  | Ok (v, _) =>
      match s, v with
      | SIdx i, LArr len _ first =>
          if len <=? i then Err E_IndexOOB else skip_elems fuel i first
      | SKey i, LObj len _ first =>
          if len <=? i then Err E_IndexOOB
          else match skip_pairs fuel i first with
               | Ok q => match pair_at q with
                         | Ok _ => Ok q
                         | Err c => Err c | Panic s => Panic s | OutOfFuel => OutOfFuel
                         end
               | Err c => Err c | Panic s => Panic s | OutOfFuel => OutOfFuel
               end
      | SVal i, LObj len _ first =>
          if len <=? i then Err E_IndexOOB
          else match skip_pairs fuel i first with
               | Ok q => match pair_at q with
                         | Ok (_, ke) => Ok ke
                         | Err c => Err c | Panic s => Panic s | OutOfFuel => OutOfFuel
                         end
               | Err c => Err c | Panic s => Panic s | OutOfFuel => OutOfFuel
               end
      | _, _ => Err E_Read
      end
  | Err c => Err c | Panic s => Panic s | OutOfFuel => OutOfFuel
  end.

Fixpoint seq_pos (fuel : nat) (pos : N) (p : list pstep) : res N :=
  match p with
  | [] => Ok pos
  | s :: p' =>
      match step_pos fuel pos s with
      | Ok q => seq_pos fuel q p'
      | Err c => Err c | Panic s => Panic s | OutOfFuel => OutOfFuel
      end
  end.

(** the header found at the end of path [p] from the value at [pos] *)
Definition seq_at (fuel : nat) (pos : N) (p : list pstep) : res lz :=
  match seq_pos fuel pos p with
  | Ok q => match hdr q with
            | Ok (v, _) => Ok v
            | Err c => Err c | Panic s => Panic s | OutOfFuel => OutOfFuel
            end
  | Err c => Err c | Panic s => Panic s | OutOfFuel => OutOfFuel
  end.

(** * Lookup by name: index of the FIRST of the [n] pairs from [pos] (numbered from [i]) whose key
    bytes equal [name]; [None] when all pairs were walked without a match.  The value of the last
    pair is not skipped (nothing follows it). *)
Fixpoint seq_find (fuel : nat) (name : list N) (n i pos : N) {struct fuel} : res (option N) :=
  match fuel with
  | O => OutOfFuel
  | S f =>
      if n =? 0 then Ok None
      else match pair_at pos with
           | Ok (LStr kp kl, ke) =>
               if beq (sub bs kp kl) name then Ok (Some i)
               else if n =? 1 then Ok None
               else match skip f ke with
                    | Ok e => seq_find f name (n - 1) (i + 1) e
                    | Err c => Err c | Panic s => Panic s | OutOfFuel => OutOfFuel
                    end
           | Ok (_, _) => Err E_Read
           | Err c => Err c | Panic s => Panic s | OutOfFuel => OutOfFuel
           end
  end.

(** * Answers *)
(** the answer for a header reached through handle [h] *)
Definition hans (h : handle) (v : lz) : answer :=
  match v with
  | LNull => ANull
  | LBool b => ABool b
  | LNum bits => ANum bits
  | LStr _ len => AStr h len
  | LArr len _ _ => AArr h len
  | LObj len _ _ => AObj h len
  end.

(** the answer for child [s] of the container at [q] (whose handle is [h]) *)
Definition child_ans (fuel : nat) (h : handle) (q : N) (s : pstep) : res answer :=
  match step_pos fuel q s with
  | Ok q' => match hdr q' with
             | Ok (v, _) => Ok (hans (child h s) v)
             | Err c => Err c | Panic s => Panic s | OutOfFuel => OutOfFuel
             end
  | Err c => Err c | Panic s => Panic s | OutOfFuel => OutOfFuel
  end.

(** One call: [prev] = the earlier outputs, [k] = number of roots fetched so far; the document
    root is at offset 0; a scope is an earlier output, its handle = (root number, path). *)
Definition seq_exec (fuel : nat) (prev : list out) (k : N) (op : rop) : out :=
  match op with
  | RRoot =>
      match hdr 0 with
      | Ok (v, _) => OVal (hans (k, []) v)
      | Err c => OVal (AErr c) | Panic s => OPanic s | OutOfFuel => OFuel
      end
  | RProp sc name =>
      match sscope prev sc with
      | SAns (AObj h _) =>
          match seq_pos fuel 0 (snd h) with
          | Ok q =>
              match hdr q with
              | Ok (LObj len _ first, _) =>
                  match seq_find fuel name len 0 first with
                  | Ok (Some i) => out_of_res (child_ans fuel h q (SVal i))
                  | Ok None => OVal ANull
                  | Err c => OVal (AErr c) | Panic s => OPanic s | OutOfFuel => OFuel
                  end
              | _ => OVal (AErr E_NotAnObject)
              end
          | _ => OVal (AErr E_NotAnObject)
          end
      | SAns _ => OVal (AErr E_NotAnObject)
      | SGarbage => OVal (AErr E_Decode)
      end
  | RIdx sc i =>
      match sscope prev sc with
      | SAns (AArr h _) | SAns (AObj h _) =>
          match seq_pos fuel 0 (snd h) with
          | Ok q =>
              match hdr q with
              | Ok (LArr _ _ _, _) => out_of_res (child_ans fuel h q (SIdx i))
              | Ok (LObj _ _ _, _) => out_of_res (child_ans fuel h q (SVal i))
              | _ => OVal (AErr E_NotIndexable)
              end
          | _ => OVal (AErr E_NotIndexable)
          end
      | SAns _ => OVal (AErr E_NotIndexable)
      | SGarbage => OVal (AErr E_Read)
      end
  | RKey sc i =>
      match sscope prev sc with
      | SAns (AObj h _) =>
          match seq_pos fuel 0 (snd h) with
          | Ok q =>
              match hdr q with
              | Ok (LObj _ _ _, _) => out_of_res (child_ans fuel h q (SKey i))
              | _ => OVal (AErr E_NotAnObject)
              end
          | _ => OVal (AErr E_NotAnObject)
          end
      | SAns _ => OVal (AErr E_NotAnObject)
      | SGarbage => OVal (AErr E_Read)
      end
  | RLen sc =>
      match sscope prev sc with
      | SAns (AStr h _) | SAns (AArr h _) | SAns (AObj h _) =>
          match seq_at fuel 0 (snd h) with
          | Ok (LStr _ len) | Ok (LArr len _ _) | Ok (LObj len _ _) => OLen (Some len)
          | Ok _ => OLen (Some 0)
          | _ => OLen None
          end
      | _ => OLen None
      end
  | RStr sc =>
      match sscope prev sc with
      | SAns (AStr h _) =>
          match seq_at fuel 0 (snd h) with
          | Ok (LStr ptr len) => OBytes (Some (sub bs ptr len))
          | _ => OBytes None
          end
      | _ => OBytes None
      end
  end.

Definition seq_step (fuel : nat) (st : list out * N) (op : rop) : list out * N :=
  (fst st ++ [seq_exec fuel (fst st) (snd st) op], if is_root op then snd st + 1 else snd st).

End Seq.

(** The spec's own fuel: a function of the input length only (proved sufficient). *)
Definition seq_fuel (bs : list N) : nat := fuel_bs bs.

(** the sequential decoder's answers for a call sequence (mirrors the reader: [strict]) *)
Definition seq_run (W : N) (trap : bool) (bs : list N) (ops : list rop) : list out :=
  fst (fold_left (seq_step W trap bs true (seq_fuel bs)) ops ([], 0)).

(** one call of the NATURAL sequential decoder ([strict = false]) *)
Definition nat_exec (W : N) (trap : bool) (bs : list N) (prev : list out) (k : N) (op : rop) : out :=
  seq_exec W trap bs false (seq_fuel bs) prev k op.

Definition is_err (a : answer) : bool := match a with AErr _ => true | _ => false end.

(** an output that carries information (not an error value, not "no length", not "no string") *)
Definition informative (o : out) : bool :=
  match o with
  | OVal a => negb (is_err a)
  | OLen (Some _) | OBytes (Some _) => true
  | _ => false
  end.

(** number of root fetches in a call sequence *)
Fixpoint nroots (ops : list rop) : N :=
  match ops with
  | [] => 0
  | op :: t => (if is_root op then 1 else 0) + nroots t
  end.
