(** The hand-written header decoder [lz_new] (Read/Lazy.v) IS the translated Rust [LazyValueRef::new]
    (Gen/LazyNewGen.v, generated from provider/src/read/lazy_value_ref.rs): for every input made of bytes
    that does not fill the address space, at every position (also beyond the input) and in both overflow
    modes, the two return the same value / the same error code, and the translated Rust never panics. *)
From Coq Require Import NArith ZArith Lia List Bool Arith ZifyNat ZifyN ZifyBool.
From SFV Require Import Base.Bytes Base.RsPrelude Base.F64 Gen.NanBoxGen NanBox.NanBoxGenEq
  Read.Lazy Read.LazyTypes Gen.LazyNewGen.
Import ListNotations.
Open Scope N_scope.

(** * The Rust value as the model's lazy node *)
Fixpoint conv (v : LazyValueRef) : lz :=
  match v with
  | LazyValueRef_Null => LNull
  | LazyValueRef_Bool b => LBool b
  | LazyValueRef_Number n => LNum n
  | LazyValueRef_String (mkStringRef p l) => LStr p l
  | LazyValueRef_Array (mkArrayRef len es e) => LArr len (map conv es) e
  | LazyValueRef_Object (mkObjectRef len es e) =>
      LObj len (map (fun kv => (conv (fst kv), conv (snd kv))) es) e
  end.

Definition same_res (g : gres (rres (LazyValueRef * option N))) (h : res (lz * option N)) : Prop :=
  match g, h with
  | GOk (ROk (v, e)), Ok (l, e') => conv v = l /\ e = e'
  | GOk (RErr c), Err c' => c = c'
  | _, _ => False
  end.

(** * Lists *)
Lemma lenN_cons' {A} (x : A) l : lenN (x :: l) = 1 + lenN l.
Proof. unfold lenN. cbn [length]. lia. Qed.

Lemma nthN_ge_None' {A} (l : list A) : forall n, lenN l <= n -> nthN l n = None.
Proof.
  induction l as [|a l IH]; intros n H; [reflexivity|].
  rewrite lenN_cons' in H. cbn [nthN].
  destruct (N.eqb_spec n 0) as [E|E]; [lia|]. apply IH. lia.
Qed.

Lemma dropN_0' {A} (l : list A) : dropN l 0 = l.
Proof. destruct l; reflexivity. Qed.

Lemma dropN_step {A} (l : list A) : forall p, p < lenN l ->
  exists x, nthN l p = Some x /\ dropN l p = x :: dropN l (p + 1).
Proof.
  induction l as [|a l IH]; intros p H.
  - unfold lenN in H. cbn [length] in H. lia.
  - rewrite lenN_cons' in H. cbn [nthN dropN].
    destruct (N.eqb_spec p 0) as [E|E].
    + subst p. exists a. split; [reflexivity|]. f_equal. symmetry. apply dropN_0'.
    + destruct (IH (p - 1)) as (x & H1 & H2); [lia|].
      exists x. split; [exact H1|]. rewrite H2. f_equal.
      destruct (N.eqb_spec (p + 1) 0) as [E'|E']; [lia|].
      f_equal; lia.
Qed.

Lemma takeN_app' {A} (a b : list A) : takeN (a ++ b) (lenN a) = a.
Proof.
  induction a as [|x a IH]; [destruct b; reflexivity|].
  rewrite lenN_cons'. cbn [app takeN].
  destruct (N.eqb_spec (1 + lenN a) 0) as [E|E]; [lia|].
  f_equal. replace (1 + lenN a - 1) with (lenN a) by lia. exact IH.
Qed.

Lemma dropN_split {A} (l : list A) : forall k p, p + N.of_nat k <= lenN l ->
  exists pre, length pre = k /\ dropN l p = pre ++ dropN l (p + N.of_nat k).
Proof.
  induction k as [|k IH]; intros p H.
  - exists []. split; [reflexivity|]. cbn [app]. change (N.of_nat 0) with 0. rewrite N.add_0_r. reflexivity.
  - destruct (dropN_step l p) as (x & _ & Hx); [lia|].
    destruct (IH (p + 1)) as (pre & HL & HD); [lia|].
    exists (x :: pre). split; [cbn [length]; lia|].
    rewrite Hx, HD. cbn [app]. replace (p + N.of_nat (S k)) with (p + 1 + N.of_nat k) by lia. reflexivity.
Qed.

Lemma sub_split {A} (l : list A) k p : p + N.of_nat k <= lenN l ->
  exists pre, length pre = k /\ dropN l p = pre ++ dropN l (p + N.of_nat k) /\ sub l p (N.of_nat k) = pre.
Proof.
  intros H. destruct (dropN_split l k p H) as (pre & HL & HD).
  exists pre. split; [exact HL|]. split; [exact HD|].
  unfold sub. rewrite HD. rewrite <- HL. apply takeN_app'.
Qed.

Lemma Forall_nthN {A} (P : A -> Prop) (l : list A) : Forall P l -> forall n x, nthN l n = Some x -> P x.
Proof.
  induction 1 as [|a l Ha _ IH]; intros n x H; [discriminate H|].
  cbn [nthN] in H. destruct (n =? 0).
  - injection H as <-. exact Ha.
  - eapply IH; exact H.
Qed.

Lemma Forall_dropN {A} (P : A -> Prop) (l : list A) : Forall P l -> forall n, Forall P (dropN l n).
Proof.
  induction 1 as [|a l Ha Hl IH]; intros n; [constructor|].
  cbn [dropN]. destruct (n =? 0); [constructor; assumption|apply IH].
Qed.

Lemma Forall_takeN {A} (P : A -> Prop) (l : list A) : Forall P l -> forall n, Forall P (takeN l n).
Proof.
  induction 1 as [|a l Ha Hl IH]; intros n; [constructor|].
  cbn [takeN]. destruct (n =? 0); [constructor|constructor; [assumption|apply IH]].
Qed.

Lemma lenN_takeN_le {A} (l : list A) : forall n, lenN (takeN l n) <= n.
Proof.
  induction l as [|a l IH]; intros n.
  - cbn [takeN]. unfold lenN. cbn [length]. lia.
  - cbn [takeN]. destruct (N.eqb_spec n 0) as [E|E].
    + unfold lenN. cbn [length]. lia.
    + rewrite lenN_cons'. specialize (IH (n - 1)). lia.
Qed.

(** big-endian value of [k] bytes is below [256^k] *)
Lemma be_val_fold_lt (l : list N) : Forall (fun b => b < 256) l ->
  forall acc, fold_left (fun a b => a * 256 + b) l acc < (acc + 1) * 256 ^ lenN l.
Proof.
  induction 1 as [|b l Hb _ IH]; intros acc.
  - cbn [fold_left]. unfold lenN. cbn [length]. change (256 ^ N.of_nat 0) with 1. lia.
  - cbn [fold_left]. rewrite lenN_cons'. rewrite N.pow_add_r. change (256 ^ 1) with 256.
    eapply N.lt_le_trans; [apply IH|].
    rewrite N.mul_assoc. apply N.mul_le_mono_r. lia.
Qed.

Lemma be_val_lt (l : list N) k : Forall (fun b => b < 256) l -> lenN l <= k -> be_val l < 256 ^ k.
Proof.
  intros H Hk. unfold be_val.
  eapply N.lt_le_trans; [apply be_val_fold_lt; exact H|].
  rewrite N.add_0_l, N.mul_1_l. apply N.pow_le_mono_r; [discriminate|exact Hk].
Qed.

(** * The model's cursor read: [Err E_Read] or a value below [256^k] *)
Lemma read_be_cases bs p k : Forall (fun b => b < 256) bs ->
  read_be bs p k = Err E_Read \/
  exists v, read_be bs p k = Ok v /\ v < 256 ^ N.of_nat k /\ p + N.of_nat k <= lenN bs.
Proof.
  intros Hb. unfold read_be. destruct (N.ltb_spec (lenN bs) (p + N.of_nat k)) as [H|H]; [left; reflexivity|].
  right. eexists. split; [reflexivity|]. split; [|exact H].
  apply be_val_lt.
  - unfold sub. apply Forall_takeN, Forall_dropN, Hb.
  - unfold sub. apply lenN_takeN_le.
Qed.

(** * The translated cursor reads are [read_be] *)
Definition cur (bs : list N) (p : N) : Cursor := mkCursor bs p (lenN bs).

Ltac rd_start k :=
  intros Hp HW;
  unfold cur, read_be, u_add;
  cbn [Cursor_position Cursor_length Cursor_bytes Cursor_set_position];
  cbv zeta;
  match goal with |- context [N.of_nat ?n] => change (N.of_nat n) with k end;
  match goal with |- context [?a <? 2 ^ ?W] =>
    replace (a <? 2 ^ W) with true by (symmetry; apply N.ltb_lt; lia) end;
  cbn [gbind];
  match goal with |- context [lenN ?bs <? ?q] =>
    destruct (N.ltb_spec (lenN bs) q) as [Hlt|Hge]; [reflexivity|] end.

Ltac rd_slice bs p k kn :=
  let pre := fresh "pre" in let HL := fresh "HL" in let HD := fresh "HD" in let HS := fresh "HS" in
  destruct (sub_split bs kn p) as (pre & HL & HD & HS); [change (N.of_nat kn) with k; lia|];
  change (N.of_nat kn) with k in HD, HS;
  unfold vec_slice_from;
  replace (lenN bs <? p) with false by (symmetry; apply N.ltb_ge; lia);
  rewrite HD, HS; clear HD HS;
  repeat (destruct pre as [|? pre]; [cbn [length] in HL; lia|]);
  destruct pre as [|? pre]; [|cbn [length] in HL; lia];
  reflexivity.

Lemma rd_u16 W trap bs p : p <= lenN bs -> lenN bs + 8 < 2 ^ W ->
  Cursor_read_u16 W trap (cur bs p) =
  match read_be bs p 2 with
  | Ok v => GOk (cur bs (p + 2), ROk v)
  | _ => GOk (cur bs p, RErr (EC_ReadError W))
  end.
Proof.
  unfold Cursor_read_u16. rd_start 2. rd_slice bs p 2 2%nat.
Qed.

Lemma nthN_dropN0 {A} (l : list A) : forall p, nthN l p = nthN (dropN l p) 0.
Proof.
  induction l as [|a l IH]; intros p; [reflexivity|].
  cbn [nthN dropN]. destruct (p =? 0); [reflexivity|apply IH].
Qed.

Ltac rd_index bs p :=
  let pre := fresh "pre" in let HL := fresh "HL" in let HD := fresh "HD" in let HS := fresh "HS" in
  destruct (sub_split bs 1%nat p) as (pre & HL & HD & HS); [change (N.of_nat 1%nat) with 1; lia|];
  change (N.of_nat 1%nat) with 1 in HD, HS;
  unfold vec_index; rewrite (nthN_dropN0 bs p);
  rewrite HD, HS; clear HD HS;
  repeat (destruct pre as [|? pre]; [cbn [length] in HL; lia|]);
  destruct pre as [|? pre]; [|cbn [length] in HL; lia];
  reflexivity.

Lemma rd_u8 W trap bs p : p <= lenN bs -> lenN bs + 8 < 2 ^ W ->
  Cursor_read_u8 W trap (cur bs p) =
  match read_be bs p 1 with
  | Ok v => GOk (cur bs (p + 1), ROk v)
  | _ => GOk (cur bs p, RErr (EC_ReadError W))
  end.
Proof. unfold Cursor_read_u8. rd_start 1. rd_index bs p. Qed.

Lemma rd_i8 W trap bs p : p <= lenN bs -> lenN bs + 8 < 2 ^ W ->
  Cursor_read_i8 W trap (cur bs p) =
  match read_be bs p 1 with
  | Ok v => GOk (cur bs (p + 1), ROk (to_signed 1 v))
  | _ => GOk (cur bs p, RErr (EC_ReadError W))
  end.
Proof. unfold Cursor_read_i8. rd_start 1. rd_index bs p. Qed.

Lemma rd_i16 W trap bs p : p <= lenN bs -> lenN bs + 8 < 2 ^ W ->
  Cursor_read_i16 W trap (cur bs p) =
  match read_be bs p 2 with
  | Ok v => GOk (cur bs (p + 2), ROk (to_signed 2 v))
  | _ => GOk (cur bs p, RErr (EC_ReadError W))
  end.
Proof. unfold Cursor_read_i16. rd_start 2. rd_slice bs p 2 2%nat. Qed.

Lemma rd_u32 W trap bs p : p <= lenN bs -> lenN bs + 8 < 2 ^ W ->
  Cursor_read_u32 W trap (cur bs p) =
  match read_be bs p 4 with
  | Ok v => GOk (cur bs (p + 4), ROk v)
  | _ => GOk (cur bs p, RErr (EC_ReadError W))
  end.
Proof. unfold Cursor_read_u32. rd_start 4. rd_slice bs p 4 4%nat. Qed.

Lemma rd_i32 W trap bs p : p <= lenN bs -> lenN bs + 8 < 2 ^ W ->
  Cursor_read_i32 W trap (cur bs p) =
  match read_be bs p 4 with
  | Ok v => GOk (cur bs (p + 4), ROk (to_signed 4 v))
  | _ => GOk (cur bs p, RErr (EC_ReadError W))
  end.
Proof. unfold Cursor_read_i32. rd_start 4. rd_slice bs p 4 4%nat. Qed.

Lemma rd_f32 W trap bs p : p <= lenN bs -> lenN bs + 8 < 2 ^ W ->
  Cursor_read_f32 W trap (cur bs p) =
  match read_be bs p 4 with
  | Ok v => GOk (cur bs (p + 4), ROk v)
  | _ => GOk (cur bs p, RErr (EC_ReadError W))
  end.
Proof. unfold Cursor_read_f32. rd_start 4. rd_slice bs p 4 4%nat. Qed.

Lemma rd_u64 W trap bs p : p <= lenN bs -> lenN bs + 8 < 2 ^ W ->
  Cursor_read_u64 W trap (cur bs p) =
  match read_be bs p 8 with
  | Ok v => GOk (cur bs (p + 8), ROk v)
  | _ => GOk (cur bs p, RErr (EC_ReadError W))
  end.
Proof. unfold Cursor_read_u64. rd_start 8. rd_slice bs p 8 8%nat. Qed.

Lemma rd_i64 W trap bs p : p <= lenN bs -> lenN bs + 8 < 2 ^ W ->
  Cursor_read_i64 W trap (cur bs p) =
  match read_be bs p 8 with
  | Ok v => GOk (cur bs (p + 8), ROk (to_signed 8 v))
  | _ => GOk (cur bs p, RErr (EC_ReadError W))
  end.
Proof. unfold Cursor_read_i64. rd_start 8. rd_slice bs p 8 8%nat. Qed.

Lemma rd_f64 W trap bs p : p <= lenN bs -> lenN bs + 8 < 2 ^ W ->
  Cursor_read_f64 W trap (cur bs p) =
  match read_be bs p 8 with
  | Ok v => GOk (cur bs (p + 8), ROk v)
  | _ => GOk (cur bs p, RErr (EC_ReadError W))
  end.
Proof. unfold Cursor_read_f64. rd_start 8. rd_slice bs p 8 8%nat. Qed.

(** * [new_string] is [str_at] *)
Lemma new_string_eq W trap bs p len : p <= lenN bs -> lenN bs < 2 ^ W ->
  same_res (LazyValueRef_new_string W trap (cur bs p) len) (str_at W trap bs p len).
Proof.
  intros Hp HW. unfold LazyValueRef_new_string, str_at, add_w, cur, u_sub, u_add.
  cbn [Cursor_position Cursor_length Cursor_bytes]. cbv zeta.
  replace (p <=? lenN bs) with true by (symmetry; apply N.leb_le; exact Hp).
  cbn [gbind].
  replace (lenN bs - p <? len) with (lenN bs <? p + len)
    by (destruct (N.ltb_spec (lenN bs) (p + len)); destruct (N.ltb_spec (lenN bs - p) len); try reflexivity; lia).
  destruct (N.ltb_spec (lenN bs) (p + len)) as [H|H]; [reflexivity|].
  replace (p + len <? 2 ^ W) with true by (symmetry; apply N.ltb_lt; lia).
  cbn [gbind same_res conv]. split; reflexivity.
Qed.

(** * Main theorem *)
Lemma EC_Read_const W : EC_ReadError W = E_Read.
Proof. reflexivity. Qed.

Lemma gbind_ret {A} (m : gres A) : gbind m (fun r => GOk r) = m.
Proof. destruct m; reflexivity. Qed.

Lemma cur_pos bs p : Cursor_position (cur bs p) = p.
Proof. reflexivity. Qed.

Ltac fin :=
  cbn [gbind]; rewrite ?cur_pos; cbn [same_res conv map]; unfold num;
  try exact I; try reflexivity; try (split; reflexivity).

(* v < 256^k <= 2^32 <= 2^W : the [as usize] cast is the identity *)
Ltac cast_small Hv Hpow :=
  unfold u_cast;
  match goal with |- context [?v mod 2 ^ ?W] =>
    rewrite (N.mod_small v (2 ^ W))
      by (eapply N.lt_le_trans; [exact Hv|];
          etransitivity; [|exact Hpow]; apply N.leb_le; vm_compute; reflexivity)
  end.

Ltac rd_cases lem bs p kn k Hb :=
  rewrite (lem _ _ bs p) by lia;
  let v := fresh "v" in let Hv := fresh "Hv" in let Hk := fresh "Hk" in
  destruct (read_be_cases bs p kn Hb) as [-> | (v & -> & Hv & Hk)]; [fin|];
  change (N.of_nat kn) with k in Hk; cbn [gbind]; rewrite ?cur_pos.

Ltac str_case Hv Hpow :=
  cast_small Hv Hpow; rewrite gbind_ret; apply new_string_eq; lia.

Ltac nan_case :=
  unfold LazyValueRef_new_number; rewrite <- is_nan_same;
  match goal with |- context [is_nan ?x] => destruct (is_nan x) end; fin.

Theorem lazy_new_eq_8 : forall W trap bs pos,
  Forall (fun b => b < 256) bs ->
  lenN bs + 8 < 2 ^ W ->
  32 <= W ->
  same_res (LazyValueRef_new W trap bs pos) (lz_new W trap bs pos).
Proof.
  intros W trap bs pos Hb HW H32.
  assert (Hpow : 2 ^ 32 <= 2 ^ W) by (apply N.pow_le_mono_r; [discriminate|exact H32]).
  unfold LazyValueRef_new, Cursor_new, Cursor_read_marker, lz_new.
  cbn [gbind Cursor_position Cursor_length Cursor_bytes].
  destruct (N.leb_spec (lenN bs) pos) as [Hge|Hlt].
  { rewrite nthN_ge_None' by exact Hge. fin. }
  destruct (dropN_step bs pos Hlt) as (m & Hm & _).
  unfold vec_index, u_add, Cursor_set_position. rewrite Hm. cbv zeta.
  replace (pos + 1 <? 2 ^ W) with true by (symmetry; apply N.ltb_lt; lia).
  cbn [gbind Cursor_set_position Cursor_position Cursor_length Cursor_bytes].
  assert (Hm256 : m < 256) by (exact (Forall_nthN _ bs Hb pos m Hm)).
  fold (cur bs (pos + 1)).
  assert (Hp : pos + 1 <= lenN bs) by lia.
  set (p := pos + 1) in *. clearbody p. clear Hm Hlt.
  unfold marker_of_u8.
  destruct (m <? 0x80) eqn:E1; [fin|].
  destruct (m <? 0x90) eqn:E2.
  { assert (Hv : m - 0x80 < 256 ^ N.of_nat 1) by (change (256 ^ N.of_nat 1) with 256; lia).
    cast_small Hv Hpow. fin. }
  destruct (m <? 0xa0) eqn:E3.
  { assert (Hv : m - 0x90 < 256 ^ N.of_nat 1) by (change (256 ^ N.of_nat 1) with 256; lia).
    cast_small Hv Hpow. fin. }
  destruct (m <? 0xc0) eqn:E4.
  { assert (Hv : m - 0xa0 < 256 ^ N.of_nat 1) by (change (256 ^ N.of_nat 1) with 256; lia).
    cast_small Hv Hpow.
    rewrite gbind_ret. apply new_string_eq; lia. }
  destruct (m =? 0xc0) eqn:E5; [fin|].
  destruct (m =? 0xc2) eqn:E6; [fin|].
  destruct (m =? 0xc3) eqn:E7; [fin|].
  destruct (m =? 0xca) eqn:E8. { rd_cases rd_f32 bs p 4%nat 4 Hb. nan_case. }
  destruct (m =? 0xcb) eqn:E9. { rd_cases rd_f64 bs p 8%nat 8 Hb. nan_case. }
  destruct (m =? 0xcc) eqn:E10. { rd_cases rd_u8 bs p 1%nat 1 Hb. fin. }
  destruct (m =? 0xcd) eqn:E11. { rd_cases rd_u16 bs p 2%nat 2 Hb. fin. }
  destruct (m =? 0xce) eqn:E12. { rd_cases rd_u32 bs p 4%nat 4 Hb. fin. }
  destruct (m =? 0xcf) eqn:E13. { rd_cases rd_u64 bs p 8%nat 8 Hb. fin. }
  destruct (m =? 0xd0) eqn:E14. { rd_cases rd_i8 bs p 1%nat 1 Hb. fin. }
  destruct (m =? 0xd1) eqn:E15. { rd_cases rd_i16 bs p 2%nat 2 Hb. fin. }
  destruct (m =? 0xd2) eqn:E16. { rd_cases rd_i32 bs p 4%nat 4 Hb. fin. }
  destruct (m =? 0xd3) eqn:E17. { rd_cases rd_i64 bs p 8%nat 8 Hb. fin. }
  destruct (m =? 0xd9) eqn:E18. { rd_cases rd_u8 bs p 1%nat 1 Hb. str_case Hv Hpow. }
  destruct (m =? 0xda) eqn:E19. { rd_cases rd_u16 bs p 2%nat 2 Hb. str_case Hv Hpow. }
  destruct (m =? 0xdb) eqn:E20. { rd_cases rd_u32 bs p 4%nat 4 Hb. str_case Hv Hpow. }
  destruct (m =? 0xdc) eqn:E21. { rd_cases rd_u16 bs p 2%nat 2 Hb. cast_small Hv Hpow. fin. }
  destruct (m =? 0xdd) eqn:E22. { rd_cases rd_u32 bs p 4%nat 4 Hb. cast_small Hv Hpow. fin. }
  destruct (m =? 0xde) eqn:E23. { rd_cases rd_u16 bs p 2%nat 2 Hb. cast_small Hv Hpow. fin. }
  destruct (m =? 0xdf) eqn:E24. { rd_cases rd_u32 bs p 4%nat 4 Hb. cast_small Hv Hpow. fin. }
  destruct (0xe0 <=? m) eqn:E25; fin.
Qed.

(** The statement asked for ([lenN bs + 9 < 2^W]) is an instance. *)
Theorem lazy_new_eq : forall W trap bs pos,
  Forall (fun b => b < 256) bs ->      (* the input consists of bytes *)
  lenN bs + 9 < 2 ^ W ->               (* the input does not fill the address space: pos+1+8 cannot overflow *)
  32 <= W ->                           (* u32 lengths fit usize *)
  same_res (LazyValueRef_new W trap bs pos) (lz_new W trap bs pos).
Proof. intros W trap bs pos Hb HW H32. apply lazy_new_eq_8; [exact Hb|lia|exact H32]. Qed.

(** * Corollaries *)
Corollary lazy_new_never_panics : forall W trap bs pos,
  Forall (fun b => b < 256) bs -> lenN bs + 9 < 2 ^ W -> 32 <= W ->
  exists r, LazyValueRef_new W trap bs pos = GOk r.
Proof.
  intros W trap bs pos Hb HW H32. generalize (lazy_new_eq W trap bs pos Hb HW H32).
  destruct (LazyValueRef_new W trap bs pos) as [r|s]; [intros _; exists r; reflexivity|].
  cbn [same_res]. intros [].
Qed.

(** the model side: [lz_new] returns a value or an error code, never [Panic]/[OutOfFuel] *)
Corollary lz_new_ok_or_err : forall W trap bs pos,
  Forall (fun b => b < 256) bs -> lenN bs + 9 < 2 ^ W -> 32 <= W ->
  (exists r, lz_new W trap bs pos = Ok r) \/ (exists c, lz_new W trap bs pos = Err c).
Proof.
  intros W trap bs pos Hb HW H32. generalize (lazy_new_eq W trap bs pos Hb HW H32).
  destruct (lz_new W trap bs pos) as [r|c|s|]; [left; exists r; reflexivity|right; exists c; reflexivity| |];
    destruct (LazyValueRef_new W trap bs pos) as [[[? ?]|?]|?]; cbn [same_res]; intros [].
Qed.

(** * Examples *)
(** [ "a", 1.0 ] followed by nothing: fixarray(2), fixstr(1) 'a', f64 1.0 *)
Definition doc : list N := [0x92; 0xa1; 0x61; 0xcb; 0x3f; 0xf0; 0; 0; 0; 0; 0; 0].

Lemma doc_bytes : Forall (fun b => b < 256) doc.
Proof. unfold doc. repeat (constructor; [reflexivity|]). constructor. Qed.
Lemma doc_small : lenN doc + 9 < 2 ^ 32.
Proof. vm_compute. reflexivity. Qed.
Lemma w32 : 32 <= 32.
Proof. discriminate. Qed.

Example lazy_new_eq_doc : forall trap pos,
  same_res (LazyValueRef_new 32 trap doc pos) (lz_new 32 trap doc pos).
Proof. intros trap pos. exact (lazy_new_eq 32 trap doc pos doc_bytes doc_small w32). Qed.

Example doc_0 : LazyValueRef_new 32 true doc 0 = GOk (ROk (LazyValueRef_Array (mkArrayRef 2 [] 1), None))
             /\ lz_new 32 true doc 0 = Ok (LArr 2 [] 1, None).
Proof. split; vm_compute; reflexivity. Qed.
Example doc_1 : LazyValueRef_new 32 true doc 1 = GOk (ROk (LazyValueRef_String (mkStringRef 2 1), Some 3))
             /\ lz_new 32 true doc 1 = Ok (LStr 2 1, Some 3).
Proof. split; vm_compute; reflexivity. Qed.
Example doc_3 : LazyValueRef_new 32 false doc 3 = GOk (ROk (LazyValueRef_Number 0x3ff0000000000000, Some 12))
             /\ lz_new 32 false doc 3 = Ok (LNum 0x3ff0000000000000, Some 12).
Proof. split; vm_compute; reflexivity. Qed.
(** a truncated f64 (marker at 12, only two of its eight bytes present) and a position beyond the input:
    ReadError on both sides *)
Example doc_trunc : LazyValueRef_new 32 true (doc ++ [0xcb; 0; 0]) 12 = GOk (RErr 3)
             /\ lz_new 32 true (doc ++ [0xcb; 0; 0]) 12 = Err 3.
Proof. split; vm_compute; reflexivity. Qed.
Example doc_beyond : LazyValueRef_new 32 true doc 1000 = GOk (RErr 3) /\ lz_new 32 true doc 1000 = Err 3.
Proof. split; vm_compute; reflexivity. Qed.

(** * The address-space hypothesis is needed, and [lenN bs + 8 < 2^W] is the exact bound
    (illustrated at the toy width W = 4, i.e. with [32 <= W] dropped as well: an input of 8 = 2^4 - 8 bytes whose last
    byte is an f64 marker makes [position + 8] overflow in the translated Rust -- a panic when overflow checks are on,
    an out-of-range index after wrapping when they are off -- while the model, which does not wrap, reports ReadError.
    At real widths such an input cannot exist: it would leave fewer than 8 bytes of address space for everything else.) *)
Example address_space_hyp_needed :
  let bs := [0; 0; 0; 0; 0; 0; 0; 0xcb] in
  lenN bs + 8 = 2 ^ 4 /\
  LazyValueRef_new 4 true bs 7 = GPanic P_add /\
  LazyValueRef_new 4 false bs 7 = GPanic P_index /\
  lz_new 4 true bs 7 = Err E_Read /\ lz_new 4 false bs 7 = Err E_Read.
Proof. vm_compute. repeat split; reflexivity. Qed.

Print Assumptions lazy_new_eq_8.
Print Assumptions lazy_new_eq.
Print Assumptions lazy_new_never_panics.
Print Assumptions lz_new_ok_or_err.
Print Assumptions lazy_new_eq_doc.
Print Assumptions address_space_hyp_needed.
