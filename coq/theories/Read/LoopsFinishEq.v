(** The GENERATED translation of [LazyValueRef::finish_processing] / [ArrayRef::finish_processing] /
    [ObjectRef::finish_processing] and their two `for` loops (Gen/LazyLoopsGen.v) against the hand-written model
    [finish] / [fin_arr] / [fin_obj] (Read/Lazy.v): proof of [finish_eq_stmt] of Read/LazyLoopsStmt.v.

    Only one consequence of [sane] is needed: [lenN elems <= len] at every array / object node whose value
    can be finished ([lenok]); it excludes the subtraction overflow of [len - processed_elements.len()].
    It is preserved by the hand model with ANY fuel (no lower bound on the fuel is needed, unlike [finish_P]). *)
From Coq Require Import NArith ZArith Lia List Bool Arith ZifyNat ZifyN ZifyBool.
From SFV Require Import Base.Bytes Base.BytesProofs Base.RsPrelude Gen.NanBoxGen Read.Lazy Read.LazyTypes Gen.LazyNewGen
  Gen.LazyLoopsGen Read.LazyNewGenEq Read.ReadRobust Read.LazyLoopsStmt.
Import ListNotations.
Open Scope N_scope.

(** * The part of [sane] that matters: the processed prefix is not longer than the declared length *)
Inductive lenok : lz -> Prop :=
| lo_leaf n : is_comp n = false -> lenok n
| lo_arr len es e : lenN es <= len -> Forall lenok es -> lenok (LArr len es e)
| lo_obj len es e : lenN es <= len -> Forall (fun kv => lenok (snd kv)) es -> lenok (LObj len es e).

Lemma lenok_arr_inv len es e : lenok (LArr len es e) -> lenN es <= len /\ Forall lenok es.
Proof. inversion 1; subst; [discriminate|auto]. Qed.
Lemma lenok_obj_inv len es e : lenok (LObj len es e) -> lenN es <= len /\ Forall (fun kv => lenok (snd kv)) es.
Proof. inversion 1; subst; [discriminate|auto]. Qed.

Lemma sane_lenok L : forall n p, sane L p n -> lenok n.
Proof.
  induction n as [n Hn|len l e IH|len l e IH] using lz_ind'; intros p Hs.
  - apply lo_leaf. exact Hn.
  - destruct (sane_arr_inv _ _ _ _ _ Hs) as (H1 & _ & _ & H4). apply lo_arr; [exact H1|].
    rewrite Forall_forall in *. intros x Hin. eapply IH; [exact Hin|]. apply H4. exact Hin.
  - destruct (sane_obj_inv _ _ _ _ _ Hs) as (H1 & _ & _ & H4). apply lo_obj; [exact H1|].
    rewrite Forall_forall in *. intros x Hin. destruct (IH x Hin) as [_ IHv]. eapply IHv.
    apply (H4 x Hin).
Qed.

(** * Small facts about the vocabulary *)
Lemma vec_last_nil {A} : vec_last (@nil A) = None.
Proof. reflexivity. Qed.
Lemma vec_last_snoc {A} (l : list A) x : vec_last (l ++ [x]) = Some x.
Proof. unfold vec_last. rewrite rev_app_distr. reflexivity. Qed.
Lemma vec_upd_last_snoc {A} (l : list A) x y : vec_upd_last (l ++ [x]) y = l ++ [y].
Proof. unfold vec_upd_last. rewrite removelast_last. reflexivity. Qed.
Lemma u_sub_ok W trap a b : b <= a -> u_sub W trap a b = GOk (a - b).
Proof. intros H. unfold u_sub. destruct (N.leb_spec b a); [reflexivity|lia]. Qed.
Lemma lenN_map {A B} (f : A -> B) l : lenN (map f l) = lenN l.
Proof. unfold lenN. rewrite map_length. reflexivity. Qed.
Lemma P_unwrap_not_fuel : P_unwrap <> P_fuel.
Proof. unfold P_unwrap, P_fuel. discriminate. Qed.

Definition eqo (a b : option N) : Prop := a = b.

(** a lifted loop against the model's loop function: [LRet] = the function returned (an error), [LNext] = the loop
    ended, and then the function returns [Ok (Some end_position_of_last_processed_element)] *)
Definition lsim {S} (cv : S -> lz) (endp : S -> N)
    (g : gres (lctl (S * rres (option N)) S)) (h : lz * res (option N)) : Prop :=
  match g with
  | GOk (LRet (s', r)) => cv s' = fst h /\ rel_res eqo r (snd h)
  | GOk (LNext s') => cv s' = fst h /\ snd h = Ok (Some (endp s'))
  | GPanic site => site <> P_fuel /\ is_panic (snd h)
  end.

Definition arr_after (r : gres (lctl (ArrayRef * rres (option N)) ArrayRef)) : gres (ArrayRef * rres (option N)) :=
  match r with
  | GPanic s_ => GPanic s_
  | GOk (LRet r_) => GOk r_
  | GOk (LNext self) => GOk (self, ROk (Some (ArrayRef_end_position_of_last_processed_element self)))
  end.
Definition obj_after (r : gres (lctl (ObjectRef * rres (option N)) ObjectRef)) : gres (ObjectRef * rres (option N)) :=
  match r with
  | GPanic s_ => GPanic s_
  | GOk (LRet r_) => GOk r_
  | GOk (LNext self) => GOk (self, ROk (Some (ObjectRef_end_position_of_last_processed_element self)))
  end.

Lemma arr_after_sim r h : lsim conv_arr ArrayRef_end_position_of_last_processed_element r h ->
  sim conv_arr (fun _ (a b : option N) => a = b) (arr_after r) h.
Proof.
  destruct r as [[[s' r]|s']|site]; cbn [lsim arr_after sim]; auto.
  intros [A B]. split; [exact A|]. rewrite B. reflexivity.
Qed.
Lemma obj_after_sim r h : lsim conv_obj ObjectRef_end_position_of_last_processed_element r h ->
  sim conv_obj (fun _ (a b : option N) => a = b) (obj_after r) h.
Proof.
  destruct r as [[[s' r]|s']|site]; cbn [lsim obj_after sim]; auto.
  intros [A B]. split; [exact A|]. rewrite B. reflexivity.
Qed.

Section Fin.
Variable W : N.
Variable trap : bool.
Variable bs : list N.
Hypothesis Hin : input_ok W bs.

Lemma new_eq pos : same_res (LazyValueRef_new W trap bs pos) (lz_new W trap bs pos).
Proof. destruct Hin as (Hb & HW & H32). apply lazy_new_eq; assumption. Qed.

Lemma new_lenok pos : match lz_new W trap bs pos with Ok (v, _) => lenok v | _ => True end.
Proof.
  destruct Hin as (Hb & HW & H32).
  assert (HW' : lenN bs < 2 ^ W) by lia.
  pose proof (lz_new_sane W trap bs HW' Hb pos) as H.
  destruct (lz_new W trap bs pos) as [[v e]| | |]; auto.
  cbn [new_sane] in H. destruct H as [H _]. eapply sane_lenok; exact H.
Qed.

(** * [lenok] is preserved by the hand model, with any fuel *)
Lemma fla_lenok fin elems endp : (forall x, lenok x -> lenok (fst (fin x))) -> Forall lenok elems ->
  Forall lenok (fst (fst (finish_last_arr fin elems endp))) /\
  lenN (fst (fst (finish_last_arr fin elems endp))) = lenN elems.
Proof.
  intros Hf Hall. unfold finish_last_arr. destruct (r_snoc_cases elems) as [->|(es0 & x & ->)].
  - rewrite r_last_opt_nil. cbn [fst]. auto.
  - rewrite r_last_opt_snoc. apply Forall_app in Hall. destruct Hall as [H0 Hx].
    inversion Hx as [|? ? Hx1 _]; subst. specialize (Hf x Hx1).
    destruct (fin x) as [x' r]. cbn [fst] in Hf. rewrite r_upd_last_snoc.
    assert (A : Forall lenok (es0 ++ [x'])) by (apply Forall_app; split; [exact H0|constructor; [exact Hf|constructor]]).
    assert (B : lenN (es0 ++ [x']) = lenN (es0 ++ [x])) by (rewrite !lenN_app, !lenN_one; reflexivity).
    destruct r as [[e|]|c|s|]; cbn [fst]; auto.
Qed.

Lemma flo_lenok fin (elems : list (lz * lz)) endp : (forall x, lenok x -> lenok (fst (fin x))) ->
  Forall (fun kv => lenok (snd kv)) elems ->
  Forall (fun kv => lenok (snd kv)) (fst (fst (finish_last_obj fin elems endp))) /\
  lenN (fst (fst (finish_last_obj fin elems endp))) = lenN elems.
Proof.
  intros Hf Hall. unfold finish_last_obj. destruct (r_snoc_cases elems) as [->|(es0 & [k x] & ->)].
  - rewrite r_last_opt_nil. cbn [fst]. auto.
  - rewrite r_last_opt_snoc. apply Forall_app in Hall. destruct Hall as [H0 Hx].
    inversion Hx as [|? ? Hx1 _]; subst. cbn [snd] in Hx1. specialize (Hf x Hx1).
    destruct (fin x) as [x' r]. cbn [fst] in Hf. rewrite r_upd_last_snoc.
    assert (A : Forall (fun kv => lenok (snd kv)) (es0 ++ [(k, x')])).
    { apply Forall_app; split; [exact H0|constructor; [exact Hf|constructor]]. }
    assert (B : lenN (es0 ++ [(k, x')]) = lenN (es0 ++ [(k, x)])) by (rewrite !lenN_app, !lenN_one; reflexivity).
    destruct r as [[e|]|c|s|]; cbn [fst]; auto.
Qed.

Lemma new_key_lenok endp : match new_key W trap bs endp with Ok (k, _) => is_str k = true | _ => True end.
Proof.
  unfold new_key. destruct (lz_new W trap bs endp) as [[k [ke|]]| | |]; auto.
  destruct (is_str k) eqn:E; auto.
Qed.

Lemma lenok_all : forall f,
  (forall n, lenok n -> lenok (fst (finish W trap f bs n))) /\
  (forall len es e, lenok (LArr len es e) -> lenok (fst (fin_arr W trap f bs len es e))) /\
  (forall len es e, lenok (LObj len es e) -> lenok (fst (fin_obj W trap f bs len es e))).
Proof.
  induction f as [|f (IHf & IHa & IHo)].
  - split; [|split]; intros; cbn [finish fin_arr fin_obj fst]; assumption.
  - split; [|split].
    + intros n Hn. rewrite r_finish_S.
      destruct n as [| | | |len elems endp|len elems endp]; cbn [fst]; try assumption.
      * destruct (lenok_arr_inv _ _ _ Hn) as [H1 H2].
        destruct (fla_lenok (finish W trap f bs) elems endp IHf H2) as [A B].
        destruct (finish_last_arr (finish W trap f bs) elems endp) as [[es1 e1] r]. cbn [fst] in A, B.
        assert (Hl : lenok (LArr len es1 e1)) by (apply lo_arr; [lia|exact A]).
        destruct r as [[]|c|s|]; cbn [fst]; auto.
        destruct (len <? lenN es1); cbn [fst]; auto.
      * destruct (lenok_obj_inv _ _ _ Hn) as [H1 H2].
        destruct (flo_lenok (finish W trap f bs) elems endp IHf H2) as [A B].
        destruct (finish_last_obj (finish W trap f bs) elems endp) as [[es1 e1] r]. cbn [fst] in A, B.
        assert (Hl : lenok (LObj len es1 e1)) by (apply lo_obj; [lia|exact A]).
        destruct r as [[]|c|s|]; cbn [fst]; auto.
        destruct (len <? lenN es1); cbn [fst]; auto.
    + intros len es e Hn. rewrite r_fin_arr_S.
      destruct (lenok_arr_inv _ _ _ Hn) as [H1 H2].
      destruct (N.leb_spec len (lenN es)) as [Hle|Hgt]; cbn [fst]; auto.
      pose proof (new_lenok e) as Hv.
      destruct (lz_new W trap bs e) as [[v e0]|c|s|]; cbn [fst]; auto.
      specialize (IHf v Hv). destruct (finish W trap f bs v) as [v' r]. cbn [fst] in IHf.
      assert (Hnext : forall e', lenok (fst (fin_arr W trap f bs len (es ++ [v']) e'))).
      { intros e'. apply IHa. apply lo_arr; [rewrite lenN_app, lenN_one; lia|].
        apply Forall_app; split; [exact H2|constructor; [exact IHf|constructor]]. }
      destruct r as [[e1|]|c|s|]; cbn [fst]; auto.
      destruct e0 as [e0|]; cbn [fst]; auto.
    + intros len es e Hn. rewrite r_fin_obj_S.
      destruct (lenok_obj_inv _ _ _ Hn) as [H1 H2].
      destruct (N.leb_spec len (lenN es)) as [Hle|Hgt]; cbn [fst]; auto.
      destruct (new_key W trap bs e) as [[k ke]|c|s|]; cbn [fst]; auto.
      pose proof (new_lenok ke) as Hv.
      destruct (lz_new W trap bs ke) as [[v e0]|c|s|]; cbn [fst]; auto.
      specialize (IHf v Hv). destruct (finish W trap f bs v) as [v' r]. cbn [fst] in IHf.
      assert (Hnext : forall e', lenok (fst (fin_obj W trap f bs len (es ++ [(k, v')]) e'))).
      { intros e'. apply IHo. apply lo_obj; [rewrite lenN_app, lenN_one; lia|].
        apply Forall_app; split; [exact H2|constructor; [exact IHf|constructor]]. }
      destruct r as [[e1|]|c|s|]; cbn [fst]; auto.
      destruct e0 as [e0|]; cbn [fst]; auto.
Qed.

Lemma finish_lenok f n : lenok n -> lenok (fst (finish W trap f bs n)).
Proof. apply lenok_all. Qed.

(** * Unfolding equations of the generated functions (all by conversion) *)
Definition arr_tail (g : nat) (self : ArrayRef) : gres (ArrayRef * rres (option N)) :=
  gbind (u_sub W trap (ArrayRef_len self) (lenN (ArrayRef_processed_elements self)))
    (fun a => arr_after (ArrayRef_finish_processing_loop1 W trap g a bs self)).
Definition obj_tail (g : nat) (self : ObjectRef) : gres (ObjectRef * rres (option N)) :=
  gbind (u_sub W trap (ObjectRef_len self) (lenN (ObjectRef_processed_elements self)))
    (fun a => obj_after (ObjectRef_finish_processing_loop1 W trap g a bs self)).

Lemma g_arr_fin_S g self : ArrayRef_finish_processing W trap (S g) self bs =
  match vec_last (ArrayRef_processed_elements self) with
  | Some last =>
    gbind (LazyValueRef_finish_processing W trap g last bs) (fun '(o, r) =>
      let self := ArrayRef_set_processed_elements self (vec_upd_last (ArrayRef_processed_elements self) o) in
      match r with
      | RErr ec => GOk (self, RErr ec)
      | ROk q => match q with
                 | Some ep => arr_tail g (ArrayRef_set_end_position_of_last_processed_element self ep)
                 | None => arr_tail g self
                 end
      end)
  | None => arr_tail g self
  end.
Proof. reflexivity. Qed.

Lemma g_obj_fin_S g self : ObjectRef_finish_processing W trap (S g) self bs =
  match vec_last (ObjectRef_processed_elements self) with
  | Some (lm, last) =>
    gbind (LazyValueRef_finish_processing W trap g last bs) (fun '(o, r) =>
      let self := ObjectRef_set_processed_elements self (vec_upd_last (ObjectRef_processed_elements self) (lm, o)) in
      match r with
      | RErr ec => GOk (self, RErr ec)
      | ROk q => match q with
                 | Some ep => obj_tail g (ObjectRef_set_end_position_of_last_processed_element self ep)
                 | None => obj_tail g self
                 end
      end)
  | None => obj_tail g self
  end.
Proof. reflexivity. Qed.

Lemma g_arr_loop_S g cnt self : ArrayRef_finish_processing_loop1 W trap (S g) cnt bs self =
  if cnt =? 0 then GOk (LNext self) else
  gbind (LazyValueRef_new W trap bs (ArrayRef_end_position_of_last_processed_element self)) (fun r6 =>
    match r6 with
    | RErr ec => GOk (LRet (self, RErr ec))
    | ROk q7 =>
      let '(lazy_value, end_position) := q7 in
      gbind (LazyValueRef_finish_processing W trap g lazy_value bs) (fun '(o9, r10) =>
        match r10 with
        | RErr ec => GOk (LRet (self, RErr ec))
        | ROk q11 =>
          gbind (opt_unwrap (match q11 with Some v_ => Some v_ | None => end_position end)) (fun uw =>
            let self1 := ArrayRef_set_end_position_of_last_processed_element self uw in
            ArrayRef_finish_processing_loop1 W trap g (cnt - 1) bs
              (ArrayRef_set_processed_elements self1 (ArrayRef_processed_elements self1 ++ [o9])))
        end)
    end).
Proof. reflexivity. Qed.

Lemma g_obj_loop_S g cnt self : ObjectRef_finish_processing_loop1 W trap (S g) cnt bs self =
  if cnt =? 0 then GOk (LNext self) else
  gbind (LazyValueRef_new W trap bs (ObjectRef_end_position_of_last_processed_element self)) (fun r7 =>
    match r7 with
    | RErr ec => GOk (LRet (self, RErr ec))
    | ROk q8 =>
      match q8 with
      | (key, Some end_position) =>
        if negb (match key with LazyValueRef_String _ => true | _ => false end)
        then GOk (LRet (self, RErr (EC_ReadError W)))
        else
          gbind (LazyValueRef_new W trap bs end_position) (fun r10 =>
            match r10 with
            | RErr ec => GOk (LRet (self, RErr ec))
            | ROk q11 =>
              let '(lazy_value, end_position) := q11 in
              gbind (LazyValueRef_finish_processing W trap g lazy_value bs) (fun '(o13, r14) =>
                match r14 with
                | RErr ec => GOk (LRet (self, RErr ec))
                | ROk q15 =>
                  gbind (opt_unwrap (match q15 with Some v_ => Some v_ | None => end_position end)) (fun uw =>
                    let self1 := ObjectRef_set_end_position_of_last_processed_element self uw in
                    ObjectRef_finish_processing_loop1 W trap g (cnt - 1) bs
                      (ObjectRef_set_processed_elements self1 (ObjectRef_processed_elements self1 ++ [(key, o13)])))
                end)
            end)
      | _ => GOk (LRet (self, RErr (EC_ReadError W)))
      end
    end).
Proof. reflexivity. Qed.

Lemma g_fin_S g self : LazyValueRef_finish_processing W trap (S g) self bs =
  match self with
  | LazyValueRef_Array a =>
      gbind (ArrayRef_finish_processing W trap g a bs) (fun '(o, r) => GOk (LazyValueRef_Array o, r))
  | LazyValueRef_Object ob =>
      gbind (ObjectRef_finish_processing W trap g ob bs) (fun '(o, r) => GOk (LazyValueRef_Object o, r))
  | _ => GOk (self, ROk None)
  end.
Proof. destruct self; reflexivity. Qed.


(** * The simulation, by induction on the hand fuel [f]; generated fuel [2 f] is enough *)
Definition PF (f : nat) : Prop := forall v,
  lenok (conv v) -> snd (finish W trap f bs (conv v)) <> OutOfFuel ->
  forall g, (2 * f <= g)%nat ->
  sim conv (fun _ (a b : option N) => a = b)
    (LazyValueRef_finish_processing W trap g v bs) (finish W trap f bs (conv v)).

Definition PA (f : nat) : Prop := forall len es e,
  lenok (LArr len (map conv es) e) -> snd (fin_arr W trap f bs len (map conv es) e) <> OutOfFuel ->
  forall g, (2 * f <= g)%nat ->
  lsim conv_arr ArrayRef_end_position_of_last_processed_element
    (ArrayRef_finish_processing_loop1 W trap g (len - lenN es) bs (mkArrayRef len es e))
    (fin_arr W trap f bs len (map conv es) e).

Definition PO (f : nat) : Prop := forall len es e,
  lenok (LObj len (map convp es) e) -> snd (fin_obj W trap f bs len (map convp es) e) <> OutOfFuel ->
  forall g, (2 * f <= g)%nat ->
  lsim conv_obj ObjectRef_end_position_of_last_processed_element
    (ObjectRef_finish_processing_loop1 W trap g (len - lenN es) bs (mkObjectRef len es e))
    (fin_obj W trap f bs len (map convp es) e).

Lemma conv_arr_mk len es e : conv_arr (mkArrayRef len es e) = LArr len (map conv es) e.
Proof. reflexivity. Qed.
Lemma conv_obj_mk len es e : conv_obj (mkObjectRef len es e) = LObj len (map convp es) e.
Proof. reflexivity. Qed.

Lemma arr_tail_sim f g len es e : PA f -> (2 * f <= g)%nat ->
  lenok (LArr len (map conv es) e) ->
  snd (if len <? lenN (map conv es) then (LArr len (map conv es) e, Panic P_sub_overflow)
       else fin_arr W trap f bs len (map conv es) e) <> OutOfFuel ->
  sim conv_arr (fun _ (a b : option N) => a = b) (arr_tail g (mkArrayRef len es e))
    (if len <? lenN (map conv es) then (LArr len (map conv es) e, Panic P_sub_overflow)
     else fin_arr W trap f bs len (map conv es) e).
Proof.
  intros HA Hg Hl. destruct (lenok_arr_inv _ _ _ Hl) as [H1 _]. rewrite lenN_map in *.
  destruct (N.ltb_spec len (lenN es)) as [Hlt|Hge]; [lia|]. intros Hnf.
  unfold arr_tail. cbn [ArrayRef_len ArrayRef_processed_elements]. rewrite u_sub_ok by lia. cbn [gbind].
  apply arr_after_sim. apply HA; assumption.
Qed.

Lemma obj_tail_sim f g len es e : PO f -> (2 * f <= g)%nat ->
  lenok (LObj len (map convp es) e) ->
  snd (if len <? lenN (map convp es) then (LObj len (map convp es) e, Panic P_sub_overflow)
       else fin_obj W trap f bs len (map convp es) e) <> OutOfFuel ->
  sim conv_obj (fun _ (a b : option N) => a = b) (obj_tail g (mkObjectRef len es e))
    (if len <? lenN (map convp es) then (LObj len (map convp es) e, Panic P_sub_overflow)
     else fin_obj W trap f bs len (map convp es) e).
Proof.
  intros HO Hg Hl. destruct (lenok_obj_inv _ _ _ Hl) as [H1 _]. rewrite lenN_map in *.
  destruct (N.ltb_spec len (lenN es)) as [Hlt|Hge]; [lia|]. intros Hnf.
  unfold obj_tail. cbn [ObjectRef_len ObjectRef_processed_elements]. rewrite u_sub_ok by lia. cbn [gbind].
  apply obj_after_sim. apply HO; assumption.
Qed.

(** [ArrayRef::finish_processing] against [finish] on an array node *)
Lemma arr_fin_step f : PF f -> PA f -> forall len es e,
  lenok (LArr len (map conv es) e) ->
  snd (finish W trap (S f) bs (LArr len (map conv es) e)) <> OutOfFuel ->
  forall g, (2 * f + 1 <= g)%nat ->
  sim conv_arr (fun _ (a b : option N) => a = b)
    (ArrayRef_finish_processing W trap g (mkArrayRef len es e) bs)
    (finish W trap (S f) bs (LArr len (map conv es) e)).
Proof.
  intros HF HA len es e Hl Hnf g Hg. destruct g as [|g]; [lia|].
  assert (Hg' : (2 * f <= g)%nat) by lia.
  rewrite g_arr_fin_S. rewrite r_finish_S in *. cbn [ArrayRef_processed_elements].
  destruct (lenok_arr_inv _ _ _ Hl) as [H1 H2].
  destruct (r_snoc_cases es) as [->|(es0 & x & ->)].
  - rewrite vec_last_nil. unfold finish_last_arr in *. cbn [map] in *. rewrite r_last_opt_nil in *.
    cbv beta iota zeta in Hnf |- *.
    apply (arr_tail_sim f g len [] e HA Hg' Hl). exact Hnf.
  - rewrite vec_last_snoc. rewrite map_app in *. cbn [map] in *.
    unfold finish_last_arr in *. rewrite r_last_opt_snoc in *.
    apply Forall_app in H2. destruct H2 as [H20 H2x]. inversion H2x as [|? ? Hx _]; subst.
    pose proof (HF x Hx) as Hsim. pose proof (finish_lenok f (conv x) Hx) as Hlx.
    destruct (finish W trap f bs (conv x)) as [hx hr] eqn:Ef. cbn [fst snd] in Hsim, Hlx.
    rewrite r_upd_last_snoc in *.
    assert (Hne : hr <> OutOfFuel). { intros ->. apply Hnf. reflexivity. }
    specialize (Hsim Hne g Hg').
    destruct (LazyValueRef_finish_processing W trap g x bs) as [[x' r]|site]; cbn [sim gbind] in Hsim |- *.
    + destruct Hsim as [Hc Hr]. cbn [fst snd] in Hc, Hr. subst hx.
      rewrite vec_upd_last_snoc. cbv beta iota zeta.
      unfold ArrayRef_set_processed_elements, ArrayRef_set_end_position_of_last_processed_element.
      cbn [ArrayRef_set_processed_elements ArrayRef_len ArrayRef_end_position_of_last_processed_element
           ArrayRef_set_end_position_of_last_processed_element ArrayRef_processed_elements].
      assert (Hl' : forall e', lenok (LArr len (map conv (es0 ++ [x'])) e')).
      { intros e'. apply lo_arr.
        - rewrite lenN_map, lenN_app, lenN_one. rewrite lenN_app, lenN_map, lenN_one in H1. exact H1.
        - rewrite map_app. apply Forall_app. split; [exact H20|constructor; [exact Hlx|constructor]]. }
      assert (Em : map conv es0 ++ [conv x'] = map conv (es0 ++ [x'])) by (rewrite map_app; reflexivity).
      destruct r as [a|c], hr as [b|c'|s|]; cbn [rel_res] in Hr; try contradiction.
      * subst b. cbv beta iota zeta in Hnf |- *. rewrite Em in *.
        destruct a as [ep|]; apply arr_tail_sim; auto.
      * subst c'. cbv beta iota zeta. cbn [sim fst snd rel_res]. rewrite conv_arr_mk, Em. split; reflexivity.
    + destruct Hsim as [Hs Hp]. destruct hr; cbn [is_panic] in Hp; try contradiction.
      cbv beta iota zeta. cbn [sim snd is_panic]. split; auto.
Qed.

(** [ObjectRef::finish_processing] against [finish] on an object node *)
Lemma obj_fin_step f : PF f -> PO f -> forall len es e,
  lenok (LObj len (map convp es) e) ->
  snd (finish W trap (S f) bs (LObj len (map convp es) e)) <> OutOfFuel ->
  forall g, (2 * f + 1 <= g)%nat ->
  sim conv_obj (fun _ (a b : option N) => a = b)
    (ObjectRef_finish_processing W trap g (mkObjectRef len es e) bs)
    (finish W trap (S f) bs (LObj len (map convp es) e)).
Proof.
  intros HF HO len es e Hl Hnf g Hg. destruct g as [|g]; [lia|].
  assert (Hg' : (2 * f <= g)%nat) by lia.
  rewrite g_obj_fin_S. rewrite r_finish_S in *. cbn [ObjectRef_processed_elements].
  destruct (lenok_obj_inv _ _ _ Hl) as [H1 H2].
  destruct (r_snoc_cases es) as [->|(es0 & [k x] & ->)].
  - rewrite vec_last_nil. unfold finish_last_obj in *. cbn [map] in *. rewrite r_last_opt_nil in *.
    cbv beta iota zeta in Hnf |- *.
    apply (obj_tail_sim f g len [] e HO Hg' Hl). exact Hnf.
  - rewrite vec_last_snoc. rewrite map_app in *. cbn [map] in *.
    unfold convp at 2 in Hnf. unfold convp at 2. cbn [fst snd] in Hnf |- *.
    unfold finish_last_obj in *. rewrite r_last_opt_snoc in *.
    apply Forall_app in H2. destruct H2 as [H20 H2x]. inversion H2x as [|? ? Hx _]; subst.
    cbn [convp fst snd] in Hx.
    pose proof (HF x Hx) as Hsim. pose proof (finish_lenok f (conv x) Hx) as Hlx.
    destruct (finish W trap f bs (conv x)) as [hx hr] eqn:Ef. cbn [fst snd] in Hsim, Hlx.
    rewrite r_upd_last_snoc in *.
    assert (Hne : hr <> OutOfFuel). { intros ->. apply Hnf. reflexivity. }
    specialize (Hsim Hne g Hg').
    destruct (LazyValueRef_finish_processing W trap g x bs) as [[x' r]|site]; cbn [sim gbind] in Hsim |- *.
    + destruct Hsim as [Hc Hr]. cbn [fst snd] in Hc, Hr. subst hx.
      rewrite vec_upd_last_snoc. cbv beta iota zeta.
      unfold ObjectRef_set_processed_elements, ObjectRef_set_end_position_of_last_processed_element.
      cbn [ObjectRef_set_processed_elements ObjectRef_len ObjectRef_end_position_of_last_processed_element
           ObjectRef_set_end_position_of_last_processed_element ObjectRef_processed_elements].
      assert (Em : map convp es0 ++ [(conv k, conv x')] = map convp (es0 ++ [(k, x')])) by (rewrite map_app; reflexivity).
      assert (Hl' : forall e', lenok (LObj len (map convp (es0 ++ [(k, x')])) e')).
      { intros e'. apply lo_obj.
        - rewrite lenN_map, lenN_app, lenN_one. rewrite lenN_app, lenN_map, lenN_one in H1. exact H1.
        - rewrite <- Em. apply Forall_app. split; [exact H20|constructor; [exact Hlx|constructor]]. }
      destruct r as [a|c], hr as [b|c'|s|]; cbn [rel_res] in Hr; try contradiction.
      * subst b. cbv beta iota zeta in Hnf |- *. rewrite Em in *.
        destruct a as [ep|]; apply obj_tail_sim; auto.
      * subst c'. cbv beta iota zeta. cbn [sim fst snd rel_res]. rewrite conv_obj_mk, Em. split; reflexivity.
    + destruct Hsim as [Hs Hp]. destruct hr; cbn [is_panic] in Hp; try contradiction.
      cbv beta iota zeta. cbn [sim snd is_panic]. split; auto.
Qed.


(** the `for` loop of [ArrayRef::finish_processing] against [fin_arr] *)
Lemma arr_loop_step f : PF f -> PA f -> PA (S f).
Proof.
  intros HF HA len es e Hl Hnf g Hg. destruct g as [|g]; [lia|].
  assert (Hg' : (2 * f <= g)%nat) by lia.
  rewrite g_arr_loop_S. rewrite r_fin_arr_S in *.
  destruct (lenok_arr_inv _ _ _ Hl) as [H1 H2]. rewrite lenN_map in H1.
  revert Hnf. rewrite lenN_map.
  destruct (N.leb_spec len (lenN es)) as [Hle|Hgt];
    destruct (N.eqb_spec (len - lenN es) 0) as [Hz|Hnz]; try lia; intros Hnf.
  - cbn [lsim fst snd]. split; reflexivity.
  - cbn [ArrayRef_end_position_of_last_processed_element].
    pose proof (new_eq e) as Hn. pose proof (new_lenok e) as Hv.
    destruct (LazyValueRef_new W trap bs e) as [[[v e0]|c]|s];
      destruct (lz_new W trap bs e) as [[l e0']|c'|s'|]; cbn [same_res] in Hn; try contradiction.
    + destruct Hn as [<- <-]. cbn [gbind]. cbv beta iota zeta.
      pose proof (HF v Hv) as Hsim. pose proof (finish_lenok f (conv v) Hv) as Hlv.
      destruct (finish W trap f bs (conv v)) as [hv hr] eqn:Ef. cbn [fst snd] in Hsim, Hlv.
      assert (Hne : hr <> OutOfFuel). { intros ->. apply Hnf. reflexivity. }
      specialize (Hsim Hne g Hg').
      destruct (LazyValueRef_finish_processing W trap g v bs) as [[v' r]|site]; cbn [sim gbind] in Hsim |- *.
      * destruct Hsim as [Hc Hr]. cbn [fst snd] in Hc, Hr. subst hv.
        destruct r as [a|c], hr as [b|c'|s|]; cbn [rel_res] in Hr; try contradiction.
        -- subst b. cbv beta iota zeta in Hnf |- *.
           destruct (match a with Some v_ => Some v_ | None => e0 end) as [ep|] eqn:Eep.
           ++ cbn [opt_unwrap gbind]. cbv beta iota zeta.
              unfold ArrayRef_set_processed_elements, ArrayRef_set_end_position_of_last_processed_element.
              cbn [ArrayRef_len ArrayRef_end_position_of_last_processed_element ArrayRef_processed_elements].
              replace (len - lenN es - 1) with (len - lenN (es ++ [v'])) by (rewrite lenN_app, lenN_one; lia).
              replace (map conv es ++ [conv v']) with (map conv (es ++ [v'])) in * by (rewrite map_app; reflexivity).
              apply HA; [|exact Hnf|exact Hg'].
              apply lo_arr; [rewrite lenN_map, lenN_app, lenN_one; lia|].
              rewrite map_app. apply Forall_app. split; [exact H2|constructor; [exact Hlv|constructor]].
           ++ cbn [opt_unwrap gbind lsim snd is_panic]. split; [exact P_unwrap_not_fuel|exact I].
        -- subst c'. cbv beta iota zeta. cbn [lsim fst snd rel_res]. split; reflexivity.
      * destruct Hsim as [Hs Hp]. destruct hr; cbn [is_panic] in Hp; try contradiction.
        cbv beta iota zeta. cbn [lsim snd is_panic]. split; auto.
    + subst c'. cbn [gbind]. cbv beta iota zeta. cbn [lsim fst snd rel_res]. split; reflexivity.
Qed.

Lemma is_str_conv key : is_str (conv key) = match key with LazyValueRef_String _ => true | _ => false end.
Proof. destruct key as [| | |[p l]|[? ? ?]|[? ? ?]]; reflexivity. Qed.

(** the `for` loop of [ObjectRef::finish_processing] against [fin_obj] *)
Lemma obj_loop_step f : PF f -> PO f -> PO (S f).
Proof.
  intros HF HO len es e Hl Hnf g Hg. destruct g as [|g]; [lia|].
  assert (Hg' : (2 * f <= g)%nat) by lia.
  rewrite g_obj_loop_S. rewrite r_fin_obj_S in *.
  destruct (lenok_obj_inv _ _ _ Hl) as [H1 H2]. rewrite lenN_map in H1.
  revert Hnf. rewrite lenN_map.
  destruct (N.leb_spec len (lenN es)) as [Hle|Hgt];
    destruct (N.eqb_spec (len - lenN es) 0) as [Hz|Hnz]; try lia; intros Hnf.
  - cbn [lsim fst snd]. split; reflexivity.
  - cbn [ObjectRef_end_position_of_last_processed_element].
    unfold new_key in *.
    pose proof (new_eq e) as Hn.
    destruct (LazyValueRef_new W trap bs e) as [[[key ke]|c]|s];
      destruct (lz_new W trap bs e) as [[l ke']|c'|s'|]; cbn [same_res] in Hn; try contradiction.
    2:{ subst c'. cbn [gbind]. cbv beta iota zeta. cbn [lsim fst snd rel_res]. split; reflexivity. }
    destruct Hn as [<- <-]. cbn [gbind]. cbv beta iota zeta in Hnf |- *.
    destruct ke as [ke|].
    2:{ cbn [lsim fst snd rel_res]. split; reflexivity. }
    rewrite is_str_conv in *.
    destruct (match key with LazyValueRef_String _ => true | _ => false end) eqn:Ek; cbn [negb].
    2:{ cbn [lsim fst snd rel_res]. split; reflexivity. }
    pose proof (new_eq ke) as Hn. pose proof (new_lenok ke) as Hv.
    destruct (LazyValueRef_new W trap bs ke) as [[[v e0]|c]|s];
      destruct (lz_new W trap bs ke) as [[l e0']|c'|s'|]; cbn [same_res] in Hn; try contradiction.
    + destruct Hn as [<- <-]. cbn [gbind]. cbv beta iota zeta.
      pose proof (HF v Hv) as Hsim. pose proof (finish_lenok f (conv v) Hv) as Hlv.
      destruct (finish W trap f bs (conv v)) as [hv hr] eqn:Ef. cbn [fst snd] in Hsim, Hlv.
      assert (Hne : hr <> OutOfFuel). { intros ->. apply Hnf. reflexivity. }
      specialize (Hsim Hne g Hg').
      destruct (LazyValueRef_finish_processing W trap g v bs) as [[v' r]|site]; cbn [sim gbind] in Hsim |- *.
      * destruct Hsim as [Hc Hr]. cbn [fst snd] in Hc, Hr. subst hv.
        destruct r as [a|c], hr as [b|c'|s|]; cbn [rel_res] in Hr; try contradiction.
        -- subst b. cbv beta iota zeta in Hnf |- *.
           destruct (match a with Some v_ => Some v_ | None => e0 end) as [ep|] eqn:Eep.
           ++ cbn [opt_unwrap gbind]. cbv beta iota zeta.
              unfold ObjectRef_set_processed_elements, ObjectRef_set_end_position_of_last_processed_element.
              cbn [ObjectRef_len ObjectRef_end_position_of_last_processed_element ObjectRef_processed_elements].
              replace (len - lenN es - 1) with (len - lenN (es ++ [(key, v')])) by (rewrite lenN_app, lenN_one; lia).
              replace (map convp es ++ [(conv key, conv v')]) with (map convp (es ++ [(key, v')])) in *
                by (rewrite map_app; reflexivity).
              apply HO; [|exact Hnf|exact Hg'].
              apply lo_obj; [rewrite lenN_map, lenN_app, lenN_one; lia|].
              rewrite map_app. apply Forall_app. split; [exact H2|constructor; [exact Hlv|constructor]].
           ++ cbn [opt_unwrap gbind lsim snd is_panic]. split; [exact P_unwrap_not_fuel|exact I].
        -- subst c'. cbv beta iota zeta. cbn [lsim fst snd rel_res]. split; reflexivity.
      * destruct Hsim as [Hs Hp]. destruct hr; cbn [is_panic] in Hp; try contradiction.
        cbv beta iota zeta. cbn [lsim snd is_panic]. split; auto.
    + subst c'. cbn [gbind]. cbv beta iota zeta. cbn [lsim fst snd rel_res]. split; reflexivity.
Qed.

(** [LazyValueRef::finish_processing] against [finish] *)
Lemma fin_step f : PF f -> PA f -> PO f -> PF (S f).
Proof.
  intros HF HA HO v Hl Hnf g Hg. destruct g as [|g]; [lia|]. rewrite g_fin_S.
  destruct v as [| b | n | [p l] | [len es e] | [len es e]].
  1-4: rewrite r_finish_S; cbn [conv sim fst snd rel_res]; split; reflexivity.
  - change (conv (LazyValueRef_Array (mkArrayRef len es e))) with (LArr len (map conv es) e) in *.
    pose proof (arr_fin_step f HF HA len es e Hl Hnf g ltac:(lia)) as Hs.
    destruct (ArrayRef_finish_processing W trap g (mkArrayRef len es e) bs) as [[o r]|site];
      cbn [gbind sim] in Hs |- *; exact Hs.
  - change (conv (LazyValueRef_Object (mkObjectRef len es e))) with (LObj len (map convp es) e) in *.
    pose proof (obj_fin_step f HF HO len es e Hl Hnf g ltac:(lia)) as Hs.
    destruct (ObjectRef_finish_processing W trap g (mkObjectRef len es e) bs) as [[o r]|site];
      cbn [gbind sim] in Hs |- *; exact Hs.
Qed.

Lemma sim_all : forall f, PF f /\ PA f /\ PO f.
Proof.
  induction f as [|f (IHF & IHA & IHO)].
  - split; [|split].
    + intros v _ Hnf. exfalso. apply Hnf. reflexivity.
    + intros len es e _ Hnf. exfalso. apply Hnf. reflexivity.
    + intros len es e _ Hnf. exfalso. apply Hnf. reflexivity.
  - split; [|split].
    + apply fin_step; assumption.
    + apply arr_loop_step; assumption.
    + apply obj_loop_step; assumption.
Qed.

End Fin.

(** * The theorems *)
(** [finish_eq_stmt] with the fuel bound [2 f + k <= g] in place of [enough f g] (= [2 f + 2 <= g]) *)
(** the bound the induction gives: generated fuel [2 f] *)
Theorem finish_eq_k0 : forall W trap bs, input_ok W bs -> finish_eq_stmt_k 0 W trap bs.
Proof.
  intros W trap bs Hin f v p Hs Hnf g Hg.
  destruct (sim_all W trap bs Hin f) as (HF & _ & _).
  apply HF; [eapply sane_lenok; exact Hs|exact Hnf|lia].
Qed.

Theorem finish_eq_k1 : forall W trap bs, input_ok W bs -> finish_eq_stmt_k 1 W trap bs.
Proof. intros W trap bs Hin f v p Hs Hnf g Hg. eapply (finish_eq_k0 W trap bs Hin); eauto. lia. Qed.

Theorem finish_eq : forall W trap bs, input_ok W bs -> finish_eq_stmt W trap bs.
Proof.
  intros W trap bs Hin f v p Hs Hnf g Hg. unfold enough in Hg.
  eapply (finish_eq_k0 W trap bs Hin); eauto. lia.
Qed.

(** [ArrayRef::finish_processing] / [ObjectRef::finish_processing] = [finish] on an array / object node.
    ([finish 0] is [OutOfFuel], so [f >= 1]; the generated function needs fuel [2 f - 1].) *)
Lemma arr_finish_eq_k : forall W trap bs, input_ok W bs -> forall f len es e p,
  sane (lenN bs) p (LArr len (map conv es) e) ->
  snd (finish W trap f bs (LArr len (map conv es) e)) <> OutOfFuel ->
  forall g, (2 * f <= g + 1)%nat ->
  sim conv_arr (fun _ (a b : option N) => a = b)
      (ArrayRef_finish_processing W trap g (mkArrayRef len es e) bs)
      (finish W trap f bs (LArr len (map conv es) e)).
Proof.
  intros W trap bs Hin f len es e p Hs Hnf g Hg.
  destruct f as [|f]; [exfalso; apply Hnf; reflexivity|].
  destruct (sim_all W trap bs Hin f) as (HF & HA & _).
  apply (arr_fin_step W trap bs Hin f HF HA); [eapply sane_lenok; exact Hs|exact Hnf|lia].
Qed.

Lemma obj_finish_eq_k : forall W trap bs, input_ok W bs -> forall f len es e p,
  sane (lenN bs) p (LObj len (map convp es) e) ->
  snd (finish W trap f bs (LObj len (map convp es) e)) <> OutOfFuel ->
  forall g, (2 * f <= g + 1)%nat ->
  sim conv_obj (fun _ (a b : option N) => a = b)
      (ObjectRef_finish_processing W trap g (mkObjectRef len es e) bs)
      (finish W trap f bs (LObj len (map convp es) e)).
Proof.
  intros W trap bs Hin f len es e p Hs Hnf g Hg.
  destruct f as [|f]; [exfalso; apply Hnf; reflexivity|].
  destruct (sim_all W trap bs Hin f) as (HF & _ & HO).
  apply (obj_fin_step W trap bs Hin f HF HO); [eapply sane_lenok; exact Hs|exact Hnf|lia].
Qed.

Lemma arr_finish_eq : forall W trap bs, input_ok W bs -> forall f len es e p,
  sane (lenN bs) p (LArr len (map conv es) e) ->
  snd (finish W trap f bs (LArr len (map conv es) e)) <> OutOfFuel ->
  forall g, enough f g ->
  sim conv_arr (fun _ (a b : option N) => a = b)
      (ArrayRef_finish_processing W trap g (mkArrayRef len es e) bs)
      (finish W trap f bs (LArr len (map conv es) e)).
Proof.
  intros W trap bs Hin f len es e p Hs Hnf g Hg. unfold enough in Hg.
  eapply arr_finish_eq_k; eauto. lia.
Qed.

Lemma obj_finish_eq : forall W trap bs, input_ok W bs -> forall f len es e p,
  sane (lenN bs) p (LObj len (map convp es) e) ->
  snd (finish W trap f bs (LObj len (map convp es) e)) <> OutOfFuel ->
  forall g, enough f g ->
  sim conv_obj (fun _ (a b : option N) => a = b)
      (ObjectRef_finish_processing W trap g (mkObjectRef len es e) bs)
      (finish W trap f bs (LObj len (map convp es) e)).
Proof.
  intros W trap bs Hin f len es e p Hs Hnf g Hg. unfold enough in Hg.
  eapply obj_finish_eq_k; eauto. lia.
Qed.

(** the two `for` loops against [fin_arr] / [fin_obj]: the Rust loop runs [len - |elems|] times, the model loops
    until [len <= |elems|] *)
Lemma arr_loop_eq : forall W trap bs, input_ok W bs -> forall f len es e p,
  sane (lenN bs) p (LArr len (map conv es) e) ->
  snd (fin_arr W trap f bs len (map conv es) e) <> OutOfFuel ->
  forall g, (2 * f <= g)%nat ->
  lsim conv_arr ArrayRef_end_position_of_last_processed_element
    (ArrayRef_finish_processing_loop1 W trap g (len - lenN es) bs (mkArrayRef len es e))
    (fin_arr W trap f bs len (map conv es) e).
Proof.
  intros W trap bs Hin f len es e p Hs Hnf g Hg.
  destruct (sim_all W trap bs Hin f) as (_ & HA & _).
  apply HA; [eapply sane_lenok; exact Hs|exact Hnf|exact Hg].
Qed.

Lemma obj_loop_eq : forall W trap bs, input_ok W bs -> forall f len es e p,
  sane (lenN bs) p (LObj len (map convp es) e) ->
  snd (fin_obj W trap f bs len (map convp es) e) <> OutOfFuel ->
  forall g, (2 * f <= g)%nat ->
  lsim conv_obj ObjectRef_end_position_of_last_processed_element
    (ObjectRef_finish_processing_loop1 W trap g (len - lenN es) bs (mkObjectRef len es e))
    (fin_obj W trap f bs len (map convp es) e).
Proof.
  intros W trap bs Hin f len es e p Hs Hnf g Hg.
  destruct (sim_all W trap bs Hin f) as (_ & _ & HO).
  apply HO; [eapply sane_lenok; exact Hs|exact Hnf|exact Hg].
Qed.

(** * Example: [ {"a": [1, 2, 3]}, null ] finished from the root *)
Definition fdoc : list N := [0x92; 0x81; 0xa1; 0x61; 0x93; 1; 2; 3; 0xc0].
Definition froot : LazyValueRef := LazyValueRef_Array (mkArrayRef 2 [] 1).

Example fdoc_root : LazyValueRef_new 32 true fdoc 0 = GOk (ROk (froot, None)).
Proof. vm_compute. reflexivity. Qed.

Example fdoc_input_ok : input_ok 32 fdoc.
Proof.
  split; [|split].
  - unfold fdoc. repeat (constructor; [reflexivity|]). constructor.
  - vm_compute. reflexivity.
  - discriminate.
Qed.

Example froot_sane : sane (lenN fdoc) 0 (conv froot).
Proof.
  change (conv froot) with (LArr 2 [] 1). constructor.
  - vm_compute. discriminate.
  - reflexivity.
  - vm_compute. discriminate.
  - constructor.
Qed.

Example fdoc_hand_fuel : snd (finish 32 true 12%nat fdoc (conv froot)) <> OutOfFuel.
Proof. vm_compute. discriminate. Qed.

Example finish_eq_fdoc :
  sim conv (fun _ (a b : option N) => a = b)
      (LazyValueRef_finish_processing 32 true 26%nat froot fdoc) (finish 32 true 12%nat fdoc (conv froot)).
Proof.
  apply (finish_eq 32 true fdoc fdoc_input_ok 12%nat froot 0 froot_sane fdoc_hand_fuel).
  unfold enough. lia.
Qed.

(** what the two sides compute on this document: the whole tree is materialised, the end position is 9 *)
Definition fdone : LazyValueRef :=
  LazyValueRef_Array (mkArrayRef 2
    [LazyValueRef_Object (mkObjectRef 1
       [(LazyValueRef_String (mkStringRef 3 1),
         LazyValueRef_Array (mkArrayRef 3
           [LazyValueRef_Number 4607182418800017408; LazyValueRef_Number 4611686018427387904;
            LazyValueRef_Number 4613937818241073152] 8))] 8);
     LazyValueRef_Null] 9).
Example finish_fdoc_values :
  LazyValueRef_finish_processing 32 true 26%nat froot fdoc = GOk (fdone, ROk (Some 9)) /\
  finish 32 true 12%nat fdoc (conv froot) = (conv fdone, Ok (Some 9)).
Proof. split; vm_compute; reflexivity. Qed.

(** the smallest fuels for this document: 9 for the hand model, 12 for the generated code *)
Example fdoc_min_fuel :
  snd (finish 32 true 8%nat fdoc (conv froot)) = OutOfFuel /\
  snd (finish 32 true 9%nat fdoc (conv froot)) = Ok (Some 9) /\
  LazyValueRef_finish_processing 32 true 11%nat froot fdoc = GPanic P_fuel /\
  LazyValueRef_finish_processing 32 true 12%nat froot fdoc = GOk (fdone, ROk (Some 9)).
Proof. vm_compute. repeat split; reflexivity. Qed.

Print Assumptions finish_eq_k0.
Print Assumptions finish_eq_k1.
Print Assumptions finish_eq.
Print Assumptions arr_finish_eq.
Print Assumptions obj_finish_eq.
Print Assumptions arr_finish_eq_k.
Print Assumptions obj_finish_eq_k.
Print Assumptions arr_loop_eq.
Print Assumptions obj_loop_eq.
Print Assumptions finish_eq_fdoc.
