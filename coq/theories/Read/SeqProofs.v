(** C08 (functional half): on ARBITRARY input bytes every sequence of read calls returns exactly
    what the sequential decoder [seq_run] computes from the bytes. *)
From Coq Require Import NArith ZArith Lia List Bool Arith ZifyNat ZifyN ZifyBool.
From SFV Require Import Base.Bytes Base.F64 Base.BytesProofs Read.Lazy Read.ReadRun Read.ReadSpec Read.ReadSafe
  Read.ReadInv Read.ReadRobust Read.SeqSpec Read.SeqFacts Read.SeqInv Read.SeqFinish Read.SeqOps.
Import ListNotations.
Open Scope N_scope.

Definition handle_of (a : answer) : option handle :=
  match a with AStr h _ | AArr h _ | AObj h _ => Some h | _ => None end.

Lemma encode_handle h v a h' : encode_node h v = Ok a -> handle_of a = Some h' -> h' = h.
Proof.
  destruct v; cbn [encode_node]; try (intros H; inversion H; subst; cbn; congruence).
  destruct (F64.is_nan bits); intros H; inversion H; subst; cbn; congruence.
Qed.

Section Top.
Set Default Proof Using "All".
Variable W : N.
Variable trap : bool.
Variable bs : list N.
Hypothesis Hnew : forall pos, new_sane bs pos (lz_new W trap bs pos).
Variable F : nat.
Hypothesis HF : (3 * length bs + 4 <= F)%nat.
Variable fuel : nat.
Hypothesis Hfuel : (ga bs 0 <= fuel)%nat.

Notation L := (lenN bs).
Notation hdr := (SeqSpec.hdr W trap bs).
Notation seq_pos := (SeqSpec.seq_pos W trap bs true F).
Notation seq_at := (SeqSpec.seq_at W trap bs true F).
Notation seq_find := (SeqSpec.seq_find W trap bs true F).
Notation child_ans := (SeqSpec.child_ans W trap bs true F).
Notation seq_exec := (SeqSpec.seq_exec W trap bs true F).
Notation Inv := (SeqInv.Inv W trap bs F).

Definition hok (rs : roots_t) (o : out) : Prop :=
  match o with
  | OVal a => match handle_of a with
              | Some h => exists m, node_of rs h = Some m /\ encode_node h m = Ok a
              | None => True
              end
  | _ => True
  end.
Definition FI (rs : roots_t) : Prop := Forall (Inv 0) rs.
Definition rext (rs rs' : roots_t) : Prop := forall h, node_of rs h <> None -> node_of rs' h <> None.
Definition GI (rs : roots_t) (os : list out) : Prop := FI rs /\ Forall (hok rs) os /\ RInv bs rs os.

Lemma focus rs h m : FI rs -> node_of rs h = Some m -> exists q, seq_pos 0 (snd h) = Ok q /\ Inv q m.
Proof.
  intros Hrs Hn. unfold node_of, root_of in Hn. destruct (nthN rs (fst h)) as [r|] eqn:Er; [|discriminate].
  pose proof (proj1 (Forall_forall _ _) Hrs r (r_nthN_In _ _ _ Er)) as Hr.
  eapply (Inv_get W trap bs Hnew F HF); eassumption.
Qed.

Lemma Inv_encode q m h : Inv q m ->
  exists v e, hdr q = Ok (v, e) /\ same_head m v /\ sane L q v /\ encode_node h m = Ok (hans h v).
Proof.
  intros H. destruct (Inv_head W trap bs Hnew F HF _ _ H) as (v & e & Hh & Hs & Hsn).
  exists v, e. split; [exact Hh|]. split; [exact Hs|]. split; [exact Hsn|].
  eapply (same_head_encode W trap bs Hnew F HF); eassumption.
Qed.

Lemma hok_keep rs rs' o : FI rs -> FI rs' -> rext rs rs' -> hok rs o -> hok rs' o.
Proof.
  intros H1 H2 Hr. destruct o as [a| | | | |]; try (intros; exact I). cbn [hok].
  destruct (handle_of a) as [h|]; [|intros; exact I]. intros (m & Hm & He).
  destruct (node_of rs' h) as [m'|] eqn:E; [|exfalso; apply (Hr h); congruence].
  exists m'. split; [reflexivity|].
  destruct (focus _ _ _ H1 Hm) as (q & Hq & Hi). destruct (focus _ _ _ H2 E) as (q' & Hq' & Hi').
  rewrite Hq in Hq'. inversion Hq'; subst q'.
  destruct (Inv_encode _ _ h Hi) as (v & e & Hh & _ & _ & Hen). destruct (Inv_encode _ _ h Hi') as (v' & e' & Hh' & _ & _ & Hen').
  rewrite Hh in Hh'. inversion Hh'; subst. rewrite Hen'. rewrite <- Hen. exact He.
Qed.

Lemma hok_all rs rs' os : FI rs -> FI rs' -> rext rs rs' -> Forall (hok rs) os -> Forall (hok rs') os.
Proof. intros H1 H2 Hr H. eapply Forall_impl; [|exact H]. intros o. apply hok_keep; assumption. Qed.

Lemma put_ok rs h m q m' : FI rs -> node_of rs h = Some m -> is_comp m = true -> seq_pos 0 (snd h) = Ok q ->
  Inv q m' -> ext m m' ->
  FI (put_node rs h m') /\ rext rs (put_node rs h m') /\
  (forall pth, node_of (put_node rs h m') (fst h, snd h ++ pth) = get_node m' pth) /\
  lenN (put_node rs h m') = lenN rs.
Proof.
  intros Hrs Hn Hc Hq Hm' He. unfold node_of, root_of in Hn. unfold put_node, root_of.
  destruct (nthN rs (fst h)) as [r|] eqn:Er; [|discriminate].
  pose proof (proj1 (Forall_forall _ _) Hrs r (r_nthN_In _ _ _ Er)) as Hr.
  split; [|split; [|split]].
  - apply r_Forall_set_nth; [exact Hrs|]. eapply (Inv_set W trap bs Hnew F HF); eassumption.
  - intros h' Hh'. unfold node_of, root_of in *.
    destruct (N.eq_dec (fst h) (fst h')) as [E|E].
    + rewrite <- E in *. rewrite Er in Hh'. erewrite nthN_set_nth_eq by exact Er.
      eapply ext_set; [exact Hn|exact He|exact Hh'].
    + rewrite nthN_set_nth_neq by exact E. exact Hh'.
  - intros pth. unfold node_of, root_of. cbn [fst snd]. erewrite nthN_set_nth_eq by exact Er.
    eapply get_set_app; exact Hn.
  - apply lenN_set_nth.
Qed.

(** ** what a scope (an earlier answer) stands for *)
Lemma scope_node rs os k a h : FI rs -> Forall (hok rs) os -> nthN os k = Some (OVal a) -> handle_of a = Some h ->
  exists m q v e, node_of rs h = Some m /\ seq_pos 0 (snd h) = Ok q /\ Inv q m /\
                  hdr q = Ok (v, e) /\ same_head m v /\ sane L q v /\ a = hans h v.
Proof.
  intros H1 H2 Hk Hh. pose proof (proj1 (Forall_forall _ _) H2 _ (r_nthN_In _ _ _ Hk)) as Ho.
  cbn [hok] in Ho. rewrite Hh in Ho. destruct Ho as (m & Hm & He).
  destruct (focus _ _ _ H1 Hm) as (q & Hq & Hi). destruct (Inv_encode _ _ h Hi) as (v & e & Hv & Hs & Hsn & Hen).
  exists m, q, v, e. repeat (split; [assumption|]). rewrite He in Hen. inversion Hen. reflexivity.
Qed.

Lemma scope_arr rs os k h n : FI rs -> Forall (hok rs) os -> nthN os k = Some (OVal (AArr h n)) ->
  exists elems endp q p0, node_of rs h = Some (LArr n elems endp) /\ seq_pos 0 (snd h) = Ok q /\
    Inv q (LArr n elems endp) /\ hdr q = Ok (LArr n [] p0, None).
Proof.
  intros H1 H2 Hk. destruct (scope_node _ _ _ _ h H1 H2 Hk eq_refl) as (m & q & v & e & Hm & Hq & Hi & Hv & Hs & _ & Ha).
  destruct v; try discriminate Ha. cbn [hans] in Ha. inversion Ha; subst len.
  destruct m; cbn [same_head] in Hs; try discriminate Hs; [|destruct Hs as [? Hs]; discriminate Hs].
  destruct Hs as [p0 Hs]. inversion Hs; subst.
  destruct (Inv_arr_inv W trap bs Hnew F HF _ _ _ _ Hi) as (p0' & Hh' & _).
  exists elems0, endp0, q, p0'. auto.
Qed.

Lemma scope_obj rs os k h n : FI rs -> Forall (hok rs) os -> nthN os k = Some (OVal (AObj h n)) ->
  exists elems endp q p0, node_of rs h = Some (LObj n elems endp) /\ seq_pos 0 (snd h) = Ok q /\
    Inv q (LObj n elems endp) /\ hdr q = Ok (LObj n [] p0, None).
Proof.
  intros H1 H2 Hk. destruct (scope_node _ _ _ _ h H1 H2 Hk eq_refl) as (m & q & v & e & Hm & Hq & Hi & Hv & Hs & _ & Ha).
  destruct v; try discriminate Ha. cbn [hans] in Ha. inversion Ha; subst len.
  destruct m; cbn [same_head] in Hs; try discriminate Hs; [destruct Hs as [? Hs]; discriminate Hs|].
  destruct Hs as [p0 Hs]. inversion Hs; subst.
  destruct (Inv_obj_inv W trap bs Hnew F HF _ _ _ _ Hi) as (p0' & Hh' & _).
  exists elems0, endp0, q, p0'. auto.
Qed.

Lemma sscope_ans os sc a : sscope os sc = SAns a -> exists k, nthN os k = Some (OVal a).
Proof.
  unfold sscope. destruct sc as [k|]; [|discriminate]. destruct (nthN os k) as [[a'| | | | |]|] eqn:E; try discriminate.
  intros H. inversion H; subst. eauto.
Qed.

Lemma hok_nohandle rs a : handle_of a = None -> hok rs (OVal a).
Proof. intros H. cbn [hok]. rewrite H. exact I. Qed.

Lemma GI_plain rs os o : FI rs -> Forall (hok rs) os -> hok rs o -> Forall (hok rs) (os ++ [o]).
Proof. intros _ H Ho. apply Forall_app. split; [exact H|constructor; [exact Ho|constructor]]. Qed.

(** ** the common tail of the three calls that return a child *)
Lemma tail_ok rs os h m q n' (r : res unit) st rs' o :
  FI rs -> Forall (hok rs) os -> node_of rs h = Some m -> is_comp m = true -> seq_pos 0 (snd h) = Ok q ->
  Inv q n' -> ext m n' ->
  match r with Ok _ => get_node n' [st] <> None | Err c => child_ans h q st = Err c | _ => True end ->
  (let roots' := put_node rs h n' in
   match r with
   | Ok _ =>
       match node_of roots' (child h st) with
       | Some v => (roots', out_of_res (encode_node (child h st) v))
       | None => (roots', OPanic 0)
       end
   | Err c => (roots', OVal (AErr c))
   | Panic s => (roots', OPanic s)
   | OutOfFuel => (roots', OFuel)
   end) = (rs', o) ->
  o_fine o ->
  o = out_of_res (child_ans h q st) /\ FI rs' /\ Forall (hok rs') (os ++ [o]) /\ lenN rs' = lenN rs.
Proof.
  intros H1 H2 Hn Hc Hq Hn' He Hr Heq Hfine. cbv zeta in Heq.
  destruct (put_ok rs h m q n' H1 Hn Hc Hq Hn' He) as (P1 & P2 & P3 & P4).
  pose proof (hok_all _ _ _ H1 P1 P2 H2) as H2'.
  destruct r as [u|c|s|].
  - destruct (get_node n' [st]) as [v|] eqn:Ev; [|congruence].
    assert (Hnode : node_of (put_node rs h n') (child h st) = Some v) by (unfold child; rewrite P3; exact Ev).
    rewrite Hnode in Heq. inversion Heq; subst.
    split; [rewrite (child_ans_node W trap bs Hnew F HF h q n' st v Hn' Ev); reflexivity|].
    split; [exact P1|]. split; [|exact P4]. apply GI_plain; [exact P1|exact H2'|].
    destruct (encode_node (child h st) v) as [a|c|s|] eqn:Een; cbn [out_of_res hok]; try exact I.
    destruct (handle_of a) as [h'|] eqn:Eh; [|exact I]. pose proof (encode_handle _ _ _ _ Een Eh); subst h'.
    exists v. auto.
  - inversion Heq; subst. split; [rewrite Hr; reflexivity|]. split; [exact P1|]. split; [|exact P4].
    apply GI_plain; [exact P1|exact H2'|exact I].
  - inversion Heq; subst. contradiction.
  - inversion Heq; subst. contradiction.
Qed.


Ltac plain_case HI HR :=
  match goal with H : (_, _) = (_, _) |- _ => inversion H; subst end;
  split; [reflexivity|]; split; [|reflexivity];
  destruct HI as (HI1 & HI2 & _); split; [exact HI1|]; split; [|exact HR];
  apply GI_plain; [exact HI1|exact HI2|exact I].

(** ** shopify_function_input_get_at_index *)
Lemma get_at_index_ok rs os sc i k rs' o : GI rs os ->
  get_at_index W trap fuel bs rs (sscope os sc) i = (rs', o) ->
  o = seq_exec os k (RIdx sc i) /\ GI rs' (os ++ [o]) /\ lenN rs' = lenN rs.
Proof.
  intros HI Heq.
  destruct (get_at_index_safe W trap bs Hnew fuel Hfuel _ _ _ _ _ _ (proj2 (proj2 HI)) Heq) as [HR Hfine].
  cbn [SeqSpec.seq_exec]. unfold get_at_index in Heq.
  destruct (sscope os sc) as [a|] eqn:Esc; [|plain_case HI HR].
  destruct a as [| | |h n|h n|h n|e]; try (plain_case HI HR); destruct (sscope_ans _ _ _ Esc) as [k0 Hk0];
    destruct HI as (HI1 & HI2 & HI3).
  - destruct (scope_arr _ _ _ _ _ HI1 HI2 Hk0) as (elems & endp & q & p0 & Hn & Hq & Hi & Hh).
    rewrite Hn in Heq. rewrite Hq, Hh.
    destruct (arr_get W trap fuel bs n elems endp i) as [n' r] eqn:Ea.
    destruct (arr_get_inv W trap bs Hnew F HF _ _ _ _ _ _ _ _ Hi Ea) as (B1 & B2 & B3).
    destruct (tail_ok rs os h _ q n' r (SIdx i) rs' o HI1 HI2 Hn eq_refl Hq B1 B2) as (C1 & C2 & C3 & C4);
      [destruct r; auto|exact Heq|exact Hfine|].
    split; [exact C1|]. split; [|exact C4]. split; [exact C2|]. split; [exact C3|exact HR].
  - destruct (scope_obj _ _ _ _ _ HI1 HI2 Hk0) as (elems & endp & q & p0 & Hn & Hq & Hi & Hh).
    rewrite Hn in Heq. rewrite Hq, Hh.
    destruct (obj_get W trap fuel bs n elems endp i) as [n' r] eqn:Ea.
    destruct (obj_get_inv W trap bs Hnew F HF _ _ _ _ _ _ _ _ Hi Ea) as (B1 & B2 & B3).
    destruct (tail_ok rs os h _ q n' r (SVal i) rs' o HI1 HI2 Hn eq_refl Hq B1 B2) as (C1 & C2 & C3 & C4);
      [destruct r; auto; [exact (proj2 B3)|exact (proj2 (B3 h))]|exact Heq|exact Hfine|].
    split; [exact C1|]. split; [|exact C4]. split; [exact C2|]. split; [exact C3|exact HR].
Qed.

(** ** shopify_function_input_get_obj_key_at_index *)
Lemma get_obj_key_at_index_ok rs os sc i k rs' o : GI rs os ->
  get_obj_key_at_index W trap fuel bs rs (sscope os sc) i = (rs', o) ->
  o = seq_exec os k (RKey sc i) /\ GI rs' (os ++ [o]) /\ lenN rs' = lenN rs.
Proof.
  intros HI Heq.
  destruct (get_obj_key_at_index_safe W trap bs Hnew fuel Hfuel _ _ _ _ _ _ (proj2 (proj2 HI)) Heq) as [HR Hfine].
  cbn [SeqSpec.seq_exec]. unfold get_obj_key_at_index in Heq.
  destruct (sscope os sc) as [a|] eqn:Esc; [|plain_case HI HR].
  destruct a as [| | |h n|h n|h n|e]; try (plain_case HI HR); destruct (sscope_ans _ _ _ Esc) as [k0 Hk0];
    destruct HI as (HI1 & HI2 & HI3).
  destruct (scope_obj _ _ _ _ _ HI1 HI2 Hk0) as (elems & endp & q & p0 & Hn & Hq & Hi & Hh).
  rewrite Hn in Heq. rewrite Hq, Hh.
  destruct (obj_get W trap fuel bs n elems endp i) as [n' r] eqn:Ea.
  destruct (obj_get_inv W trap bs Hnew F HF _ _ _ _ _ _ _ _ Hi Ea) as (B1 & B2 & B3).
  destruct (tail_ok rs os h _ q n' r (SKey i) rs' o HI1 HI2 Hn eq_refl Hq B1 B2) as (C1 & C2 & C3 & C4);
    [destruct r; auto; [exact (proj1 B3)|exact (proj1 (B3 h))]|exact Heq|exact Hfine|].
  split; [exact C1|]. split; [|exact C4]. split; [exact C2|]. split; [exact C3|exact HR].
Qed.

(** ** shopify_function_input_get_obj_prop *)
Lemma get_obj_prop_ok rs os sc name k rs' o : GI rs os ->
  get_obj_prop W trap fuel bs rs (sscope os sc) name = (rs', o) ->
  o = seq_exec os k (RProp sc name) /\ GI rs' (os ++ [o]) /\ lenN rs' = lenN rs.
Proof.
  intros HI Heq.
  destruct (get_obj_prop_safe W trap bs Hnew fuel Hfuel _ _ _ _ _ _ (proj2 (proj2 HI)) Heq) as [HR Hfine].
  cbn [SeqSpec.seq_exec]. unfold get_obj_prop in Heq.
  destruct (sscope os sc) as [a|] eqn:Esc; [|plain_case HI HR].
  destruct a as [| | |h n|h n|h n|e]; try (plain_case HI HR); destruct (sscope_ans _ _ _ Esc) as [k0 Hk0];
    destruct HI as (HI1 & HI2 & HI3).
  destruct (scope_obj _ _ _ _ _ HI1 HI2 Hk0) as (elems & endp & q & p0 & Hn & Hq & Hi & Hh).
  rewrite Hn in Heq. rewrite Hq, Hh.
  destruct (obj_prop W trap fuel bs name n elems endp) as [n' r] eqn:Ea.
  destruct (obj_prop_inv W trap bs Hnew F HF name _ _ _ _ _ _ _ Hi Ea) as (B1 & B2 & B3).
  specialize (B3 _ _ _ Hh). cbv zeta in Heq.
  destruct r as [[i|]|c|s|].
  - destruct B3 as [B3 B4]. rewrite B3.
    destruct (tail_ok rs os h _ q n' (Ok tt) (SVal i) rs' o HI1 HI2 Hn eq_refl Hq B1 B2 B4 Heq Hfine) as (C1 & C2 & C3 & C4).
    split; [exact C1|]. split; [|exact C4]. split; [exact C2|]. split; [exact C3|exact HR].
  - rewrite B3. destruct (put_ok rs h _ q n' HI1 Hn eq_refl Hq B1 B2) as (P1 & P2 & P3 & P4).
    inversion Heq; subst. split; [reflexivity|]. split; [|exact P4]. split; [exact P1|]. split; [|exact HR].
    apply GI_plain; [exact P1|eapply hok_all; [exact HI1|exact P1|exact P2|exact HI2]|exact I].
  - rewrite B3. destruct (put_ok rs h _ q n' HI1 Hn eq_refl Hq B1 B2) as (P1 & P2 & P3 & P4).
    inversion Heq; subst. split; [reflexivity|]. split; [|exact P4]. split; [exact P1|]. split; [|exact HR].
    apply GI_plain; [exact P1|eapply hok_all; [exact HI1|exact P1|exact P2|exact HI2]|exact I].
  - inversion Heq; subst. contradiction.
  - inversion Heq; subst. contradiction.
Qed.

(** ** shopify_function_input_get *)
Lemma input_get_ok rs os rs' o : GI rs os -> input_get W trap bs rs = (rs', o) ->
  o = seq_exec os (lenN rs) RRoot /\ GI rs' (os ++ [o]) /\
  ((exists v e, hdr 0 = Ok (v, e)) -> lenN rs' = lenN rs + 1).
Proof.
  intros HI Heq.
  destruct (input_get_safe W trap bs Hnew _ _ _ _ (proj2 (proj2 HI)) Heq) as [HR Hfine].
  destruct HI as (HI1 & HI2 & HI3). cbn [SeqSpec.seq_exec]. unfold input_get in Heq.
  change (lz_new W trap bs 0) with (hdr 0) in Heq.
  destruct (hdr 0) as [[v e]|c|s|] eqn:Eh.
  - pose proof (Inv_fresh W trap bs Hnew F HF _ _ _ Eh) as Hv.
    destruct (Inv_encode _ _ (lenN rs, []) Hv) as (v0 & e0 & Hh0 & _ & _ & Hen).
    rewrite Eh in Hh0. inversion Hh0; subst v0 e0. rewrite Hen in Heq. inversion Heq; subst. cbn [out_of_res].
    assert (P1 : FI (rs ++ [v])) by (apply Forall_app; split; [exact HI1|constructor; [exact Hv|constructor]]).
    assert (P2 : rext rs (rs ++ [v])).
    { intros h Hh. unfold node_of, root_of in *. destruct (nthN rs (fst h)) eqn:E; [|congruence].
      rewrite nthN_app_l by (eapply nthN_Some_lt; exact E). rewrite E. exact Hh. }
    split; [reflexivity|]. split; [|intros _; rewrite lenN_app, lenN_one; reflexivity].
    split; [exact P1|]. split; [|exact HR].
    apply GI_plain; [exact P1|eapply hok_all; [exact HI1|exact P1|exact P2|exact HI2]|].
    cbn [hok]. destruct (handle_of (hans (lenN rs, []) v)) as [h'|] eqn:Ehd; [|exact I].
    pose proof (encode_handle _ _ _ _ Hen Ehd); subst h'. exists v. split; [|exact Hen].
    unfold node_of, root_of. cbn [fst snd]. rewrite nthN_snoc. reflexivity.
  - inversion Heq; subst. split; [reflexivity|]. split; [|intros (v & e & H); discriminate].
    split; [exact HI1|]. split; [|exact HR]. apply GI_plain; [exact HI1|exact HI2|exact I].
  - inversion Heq; subst. contradiction.
  - inversion Heq; subst. contradiction.
Qed.

(** ** shopify_function_input_get_val_len *)
Lemma seq_at_ok q p v e : seq_pos 0 p = Ok q -> hdr q = Ok (v, e) -> seq_at 0 p = Ok v.
Proof. intros H1 H2. unfold SeqSpec.seq_at. rewrite H1, H2. reflexivity. Qed.

Lemma get_val_len_ok rs os sc k : FI rs -> Forall (hok rs) os ->
  get_val_len rs (sscope os sc) = seq_exec os k (RLen sc).
Proof.
  intros H1 H2. cbn [SeqSpec.seq_exec]. destruct (sscope os sc) as [a|] eqn:Esc; [|reflexivity].
  destruct a as [| | |h n|h n|h n|e]; try reflexivity; destruct (sscope_ans _ _ _ Esc) as [k0 Hk0];
    destruct (scope_node _ _ _ _ h H1 H2 Hk0 eq_refl) as (m & q & v & e & Hm & Hq & Hi & Hv & Hs & _ & Ha);
    cbn [get_val_len]; rewrite Hm, (seq_at_ok _ _ _ _ Hq Hv);
    destruct m; cbn [same_head] in Hs; try (subst v; reflexivity); destruct Hs as [p0 ->]; reflexivity.
Qed.

(** ** get_utf8_str_addr + reading the bytes *)
Lemma read_str_ok rs os sc k : FI rs -> Forall (hok rs) os ->
  read_str bs rs (sscope os sc) (answer_len (sscope os sc)) = seq_exec os k (RStr sc).
Proof.
  intros H1 H2. cbn [SeqSpec.seq_exec]. destruct (sscope os sc) as [a|] eqn:Esc; [|reflexivity].
  destruct a as [| | |h n|h n|h n|e]; try reflexivity; destruct (sscope_ans _ _ _ Esc) as [k0 Hk0].
  destruct (scope_node _ _ _ _ h H1 H2 Hk0 eq_refl) as (m & q & v & e & Hm & Hq & Hi & Hv & Hs & Hsn & Ha).
  destruct v as [| | |vp vl| |]; try discriminate Ha. cbn [hans] in Ha. inversion Ha as [Hvl]. clear Ha.
  destruct m as [| | |mp ml|ml mes mend|ml mes mend]; cbn [same_head] in Hs; try discriminate Hs.
  2,3: destruct Hs as [p0 Hs]; discriminate Hs.
  inversion Hs; subst mp ml. cbn [read_str answer_len]. rewrite Hm, (seq_at_ok _ _ _ _ Hq Hv).
  inversion Hsn as [| | |? ? ? Hb| |]; subst.
  destruct (N.ltb_spec L vp); [lia|]. destruct (N.ltb_spec L (vp + vl)); [lia|]. reflexivity.
Qed.

(** * Sequences *)
Lemma exec_ok st op k : GI (roots st) (outs st) ->
  ((exists v e, hdr 0 = Ok (v, e)) -> lenN (roots st) = k) ->
  let st' := exec W trap fuel bs st op in
  GI (roots st') (outs st') /\
  outs st' = outs st ++ [seq_exec (outs st) k op] /\
  ((exists v e, hdr 0 = Ok (v, e)) -> lenN (roots st') = if is_root op then k + 1 else k).
Proof.
  intros HI Hk. unfold exec. destruct op as [|sc name|sc i|sc i|sc|sc]; cbn [is_root];
    [|change (scope_of st sc) with (sscope (outs st) sc)..].
  - destruct (input_get W trap bs (roots st)) as [r' o] eqn:E.
    destruct (input_get_ok _ _ _ _ HI E) as (A1 & A2 & A3). cbn [roots outs].
    split; [exact A2|]. split.
    + rewrite A1. cbn [SeqSpec.seq_exec]. destruct (hdr 0) as [[v e]|c|s|] eqn:Eh; try reflexivity.
      rewrite (Hk (ex_intro _ v (ex_intro _ e eq_refl))). reflexivity.
    + intros Hex. rewrite (A3 Hex), (Hk Hex). reflexivity.
  - destruct (get_obj_prop W trap fuel bs (roots st) (sscope (outs st) sc) name) as [r' o] eqn:E.
    destruct (get_obj_prop_ok _ _ sc name k _ _ HI E) as (A1 & A2 & A3). cbn [roots outs].
    split; [exact A2|]. split; [rewrite A1; reflexivity|]. intros Hex. rewrite A3. exact (Hk Hex).
  - destruct (get_at_index W trap fuel bs (roots st) (sscope (outs st) sc) i) as [r' o] eqn:E.
    destruct (get_at_index_ok _ _ sc i k _ _ HI E) as (A1 & A2 & A3). cbn [roots outs].
    split; [exact A2|]. split; [rewrite A1; reflexivity|]. intros Hex. rewrite A3. exact (Hk Hex).
  - destruct (get_obj_key_at_index W trap fuel bs (roots st) (sscope (outs st) sc) i) as [r' o] eqn:E.
    destruct (get_obj_key_at_index_ok _ _ sc i k _ _ HI E) as (A1 & A2 & A3). cbn [roots outs].
    split; [exact A2|]. split; [rewrite A1; reflexivity|]. intros Hex. rewrite A3. exact (Hk Hex).
  - cbn [roots outs]. destruct HI as (HI1 & HI2 & HI3).
    pose proof (exec_safe W trap bs Hnew fuel Hfuel st (RLen sc) HI3) as [HR _]. cbn [exec roots outs] in HR.
    change (scope_of st sc) with (sscope (outs st) sc) in HR.
    rewrite (get_val_len_ok _ _ sc k HI1 HI2) in *.
    split; [|split; [reflexivity|exact Hk]]. split; [exact HI1|]. split; [|exact HR].
    apply GI_plain; [exact HI1|exact HI2|].
    cbn [SeqSpec.seq_exec]. destruct (sscope (outs st) sc) as [[| | |h n|h n|h n|e]|]; try exact I;
      destruct (seq_at 0 (snd h)) as [[| | | | |]| | |]; exact I.
  - cbn [roots outs]. destruct HI as (HI1 & HI2 & HI3).
    pose proof (exec_safe W trap bs Hnew fuel Hfuel st (RStr sc) HI3) as [HR _]. cbn [exec roots outs] in HR.
    change (scope_of st sc) with (sscope (outs st) sc) in HR.
    rewrite (read_str_ok _ _ sc k HI1 HI2) in *.
    split; [|split; [reflexivity|exact Hk]]. split; [exact HI1|]. split; [|exact HR].
    apply GI_plain; [exact HI1|exact HI2|].
    cbn [SeqSpec.seq_exec]. destruct (sscope (outs st) sc) as [[| | |h n|h n|h n|e]|]; try exact I;
      destruct (seq_at 0 (snd h)) as [[| | | | |]| | |]; exact I.
Qed.

Lemma run_ok : forall ops st k, GI (roots st) (outs st) ->
  ((exists v e, hdr 0 = Ok (v, e)) -> lenN (roots st) = k) ->
  outs (fold_left (exec W trap fuel bs) ops st) =
  fst (fold_left (seq_step W trap bs true F) ops (outs st, k)).
Proof.
  induction ops as [|op ops IH]; intros st k HI Hk; [reflexivity|].
  cbn [fold_left]. destruct (exec_ok st op k HI Hk) as (HI' & Ho & Hl).
  rewrite (IH _ (if is_root op then k + 1 else k) HI' Hl). unfold seq_step at 2. cbn [fst snd]. rewrite Ho. reflexivity.
Qed.

Theorem run_seq ops : outs (run W trap fuel bs ops) = fst (fold_left (seq_step W trap bs true F) ops ([], 0)).
Proof.
  unfold run. rewrite (run_ok ops rinit 0); [reflexivity| |intros _; reflexivity].
  split; [constructor|]. split; [constructor|]. split; constructor.
Qed.

End Top.

(** * The main theorem *)
Lemma seq_fuel_ok bs : (3 * length bs + 4 <= seq_fuel bs)%nat.
Proof. unfold seq_fuel, fuel_bs. lia. Qed.
Lemma fuel_bs_ga bs : (ga bs 0 <= fuel_bs bs)%nat.
Proof. unfold ga, fb, fuel_bs, lenN. lia. Qed.

Theorem C08_value : forall W trap bs ops, lenN bs < 2 ^ W -> Forall (fun b => b < 256) bs ->
  outs (run W trap (fuel_bs bs) bs ops) = seq_run W trap bs ops.
Proof.
  intros W trap bs ops HW Hb. unfold seq_run.
  apply (run_seq W trap bs (lz_new_sane W trap bs HW Hb) (seq_fuel bs) (seq_fuel_ok bs) (fuel_bs bs) (fuel_bs_ga bs)).
Qed.
Print Assumptions C08_value.
