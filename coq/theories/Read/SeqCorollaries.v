(** Corollaries of [C08_value]: the property-level statements (never a fabricated value, the same
    question gets the same answer whatever the history), the well-formed special case (= C01), and
    examples on damaged documents. *)
From Coq Require Import NArith ZArith Lia List Bool Arith ZifyNat ZifyN ZifyBool.
From SFV Require Import Base.Bytes Base.F64 Base.BytesProofs Msgpack.Wire Read.Lazy Read.ReadRun Read.ReadSpec Read.ReadSafe
  Read.ReadFuel Read.ReadInv Read.ReadProofs Read.ReadRobust Read.SeqSpec Read.SeqNat Read.SeqProofs.
Import ListNotations.
Open Scope N_scope.

(** * Unrolling [seq_run] *)
Section Unroll.
Variable W : N.
Variable trap : bool.
Variable bs : list N.
Variable strict : bool.
Variable F : nat.
Notation step := (seq_step W trap bs strict F).

Lemma seq_fold_snd : forall ops os k, snd (fold_left step ops (os, k)) = k + nroots ops.
Proof.
  induction ops as [|op ops IH]; intros os k; cbn [fold_left nroots]; [cbn; lia|].
  unfold seq_step at 2. cbn [fst snd]. rewrite IH. destruct (is_root op); lia.
Qed.

Lemma seq_fold_fst : forall ops os k, exists t, fst (fold_left step ops (os, k)) = os ++ t /\ length t = length ops.
Proof.
  induction ops as [|op ops IH]; intros os k; cbn [fold_left].
  - exists []. rewrite app_nil_r. auto.
  - unfold seq_step at 2. cbn [fst snd].
    destruct (IH (os ++ [seq_exec W trap bs strict F os k op]) (if is_root op then k + 1 else k)) as (t & Ht & Hl).
    exists (seq_exec W trap bs strict F os k op :: t). rewrite Ht, <- app_assoc. cbn [app length]. auto.
Qed.

Lemma seq_fold_snoc ops op : fst (fold_left step (ops ++ [op]) ([], 0)) =
  fst (fold_left step ops ([], 0)) ++
  [seq_exec W trap bs strict F (fst (fold_left step ops ([], 0))) (nroots ops) op].
Proof.
  rewrite fold_left_app. cbn [fold_left]. unfold seq_step at 1. cbn [fst].
  pose proof (seq_fold_snd ops [] 0) as H. rewrite N.add_0_l in H. rewrite H. reflexivity.
Qed.

Lemma seq_fold_nth ops k op : nth_error ops k = Some op ->
  nth_error (fst (fold_left step ops ([], 0))) k =
  Some (seq_exec W trap bs strict F (firstn k (fst (fold_left step ops ([], 0)))) (nroots (firstn k ops)) op).
Proof.
  intros Hk. pose proof (nth_error_split ops k Hk) as (a & b & Hops & Hlen).
  assert (Ha : firstn k ops = a) by (subst ops k; rewrite firstn_app, Nat.sub_diag, firstn_O, app_nil_r, firstn_all; reflexivity).
  rewrite Ha. rewrite Hops. replace (a ++ op :: b) with ((a ++ [op]) ++ b) by (rewrite <- app_assoc; reflexivity).
  rewrite fold_left_app.
  destruct (fold_left step (a ++ [op]) ([], 0)) as [os1 k1] eqn:E1.
  destruct (seq_fold_fst b os1 k1) as (t & Ht & _). rewrite Ht.
  pose proof (seq_fold_snoc a op) as Hs. rewrite E1 in Hs. cbn [fst] in Hs.
  destruct (seq_fold_fst a [] 0) as (ta & Hta & Hla). cbn [app] in Hta.
  set (osa := fst (fold_left step a ([], 0))) in *.
  assert (Hlen_a : length osa = k) by (rewrite Hta, Hla; exact Hlen).
  rewrite Hs, <- app_assoc. cbn [app].
  rewrite nth_error_app2 by lia. rewrite Hlen_a, Nat.sub_diag. cbn [nth_error].
  rewrite firstn_app, Hlen_a, Nat.sub_diag, firstn_O, app_nil_r. rewrite <- Hlen_a, firstn_all. reflexivity.
Qed.

End Unroll.

Lemma seq_run_snoc W trap bs ops op : seq_run W trap bs (ops ++ [op]) =
  seq_run W trap bs ops ++ [seq_exec W trap bs true (seq_fuel bs) (seq_run W trap bs ops) (nroots ops) op].
Proof. apply seq_fold_snoc. Qed.

Lemma seq_run_length W trap bs ops : length (seq_run W trap bs ops) = length ops.
Proof. unfold seq_run. destruct (seq_fold_fst W trap bs true (seq_fuel bs) ops [] 0) as (t & -> & H). exact H. Qed.

(** the answer of call [op] made after the history [ops] *)
Definition answer_after (W : N) (trap : bool) (bs : list N) (ops : list rop) (op : rop) : out :=
  last (outs (run W trap (fuel_bs bs) bs (ops ++ [op]))) OFuel.

Section Cor.
Variable W : N.
Variable trap : bool.
Variable bs : list N.
Hypothesis HW : lenN bs < 2 ^ W.
Hypothesis Hbytes : Forall (fun b => b < 256) bs.

Lemma answer_after_seq ops op : answer_after W trap bs ops op =
  seq_exec W trap bs true (seq_fuel bs) (outs (run W trap (fuel_bs bs) bs ops)) (nroots ops) op.
Proof.
  unfold answer_after. rewrite !(C08_value W trap bs _ HW Hbytes), seq_run_snoc, last_last. reflexivity.
Qed.

Lemma outs_snoc ops op : outs (run W trap (fuel_bs bs) bs (ops ++ [op])) =
  outs (run W trap (fuel_bs bs) bs ops) ++ [answer_after W trap bs ops op].
Proof.
  rewrite answer_after_seq. rewrite !(C08_value W trap bs _ HW Hbytes). apply seq_run_snoc.
Qed.

(** ** never a fabricated value: an informative answer is the natural sequential decoder's *)
Theorem C08_value_sound ops op : informative (answer_after W trap bs ops op) = true ->
  answer_after W trap bs ops op = nat_exec W trap bs (outs (run W trap (fuel_bs bs) bs ops)) (nroots ops) op.
Proof.
  rewrite answer_after_seq. intros H. unfold nat_exec. symmetry. apply seq_exec_nat. exact H.
Qed.

Theorem C08_value_sound_nth ops k op o : nth_error ops k = Some op ->
  nth_error (outs (run W trap (fuel_bs bs) bs ops)) k = Some o -> informative o = true ->
  o = nat_exec W trap bs (firstn k (outs (run W trap (fuel_bs bs) bs ops))) (nroots (firstn k ops)) op.
Proof.
  intros Hk Ho Hi. rewrite (C08_value W trap bs _ HW Hbytes) in *. unfold seq_run in *.
  rewrite (seq_fold_nth W trap bs true (seq_fuel bs) ops k op Hk) in Ho. injection Ho as Ho'. subst o.
  unfold nat_exec. symmetry. apply seq_exec_nat. exact Hi.
Qed.

Theorem C08_never_fabricates ops op : let o := answer_after W trap bs ops op in
  o = nat_exec W trap bs (outs (run W trap (fuel_bs bs) bs ops)) (nroots ops) op \/
  (exists c, o = OVal (AErr c)) \/ o = OLen None \/ o = OBytes None.
Proof.
  cbv zeta. destruct (informative (answer_after W trap bs ops op)) eqn:Ei.
  - left. apply C08_value_sound. exact Ei.
  - right. pose proof (ReadRobust.C08_nopanic W trap bs (ops ++ [op]) HW Hbytes) as Hnb.
    rewrite outs_snoc, forallb_app in Hnb. apply andb_true_iff in Hnb. destruct Hnb as [_ Hnb].
    cbn [forallb] in Hnb. rewrite andb_true_r in Hnb.
    destruct (answer_after W trap bs ops op) as [a|[n|]|[s|]| | |]; try discriminate.
    + destruct a; try discriminate. left. eauto.
    + right. left. reflexivity.
    + right. right. reflexivity.
Qed.

(** ** the same question gets the same answer, whatever happened before *)
Theorem C08_repeat ops1 ops2 op :
  sscope (outs (run W trap (fuel_bs bs) bs ops1)) (op_scope op) =
  sscope (outs (run W trap (fuel_bs bs) bs ops2)) (op_scope op) ->
  (is_root op = true -> nroots ops1 = nroots ops2) ->
  answer_after W trap bs ops1 op = answer_after W trap bs ops2 op.
Proof. intros Hs Hk. rewrite !answer_after_seq. apply seq_exec_scope; assumption. Qed.

Lemma outs_length ops : length (outs (run W trap (fuel_bs bs) bs ops)) = length ops.
Proof. rewrite (C08_value W trap bs _ HW Hbytes). apply seq_run_length. Qed.

(** repeating a call (whose scope is an earlier output) gives the same answer *)
Theorem C08_repeat_twice ops op : is_root op = false ->
  (forall j, op_scope op = Some j -> j < lenN ops) ->
  answer_after W trap bs (ops ++ [op]) op = answer_after W trap bs ops op.
Proof.
  intros Hr Hj. apply C08_repeat; [|rewrite Hr; discriminate].
  rewrite outs_snoc. unfold sscope. destruct (op_scope op) as [j|]; [|reflexivity].
  rewrite nthN_app_l; [reflexivity|]. specialize (Hj j eq_refl). unfold lenN in *. rewrite outs_length. exact Hj.
Qed.

End Cor.

(** * The well-formed special case *)
Lemma forallb_Forall_lt l : forallb (fun b => b <? 256) l = true -> Forall (fun b => b < 256) l.
Proof. intros H. apply Forall_forall. intros b Hb. rewrite forallb_forall in H. specialize (H b Hb). lia. Qed.

Lemma Forall_flat_map {A B} (P : B -> Prop) (f : A -> list B) l : Forall (fun x => Forall P (f x)) l -> Forall P (flat_map f l).
Proof. induction 1; cbn [flat_map]; [constructor|]. apply Forall_app. split; assumption. Qed.

Lemma enc_bytes : forall w, wf w = true -> Forall (fun b => b < 256) (enc w).
Proof.
  induction w as [w Hsc|f l IH|f l IH] using wire_ind'; intros Hw.
  - destruct w as [| b|f z|bits|bits|f s| |]; try discriminate Hsc; cbn [enc wf] in *.
    + repeat constructor.
    + destruct b; repeat constructor.
    + destruct f; cbn [enc_int wf_int] in *.
      1,2: constructor; [lia|apply Forall_nil].
      all: constructor; [lia|apply be_bytes].
    + constructor; [lia|apply be_bytes].
    + constructor; [lia|apply be_bytes].
    + apply andb_true_iff in Hw. destruct Hw as [Hl Hs]. apply Forall_app. split; [|apply forallb_Forall_lt; exact Hs].
      destruct f; cbn [str_hdr str_max] in *; [constructor; [lia|apply Forall_nil]|constructor; [lia|apply be_bytes]..].
  - cbn [enc wf] in *. apply andb_true_iff in Hw. destruct Hw as [Hl Hs]. apply Forall_app. split.
    + destruct f; cbn [arr_hdr len_max] in *; [constructor; [lia|apply Forall_nil]|constructor; [lia|apply be_bytes]..].
    + apply Forall_flat_map. rewrite forallb_forall in Hs. rewrite Forall_forall in *. intros x Hx. apply IH; auto.
  - cbn [enc wf] in *. apply andb_true_iff in Hw. destruct Hw as [Hl Hs]. apply Forall_app. split.
    + destruct f; cbn [map_hdr len_max] in *; [constructor; [lia|apply Forall_nil]|constructor; [lia|apply be_bytes]..].
    + apply Forall_flat_map. rewrite forallb_forall in Hs. rewrite Forall_forall in *. intros x Hx.
      specialize (Hs x Hx). apply andb_true_iff in Hs. destruct Hs as [Hs Hv]. apply andb_true_iff in Hs. destruct Hs as [_ Hk].
      destruct (IH x Hx) as [IHk IHv]. apply Forall_app. split; auto.
Qed.

(** on a well-formed document the sequential decoder on the bytes IS the eager spec on the tree
    (C01 is the special case of C08_value) *)
Theorem C08_value_wellformed : forall W trap w ops, wf w = true -> no_nan w = true -> lenN (enc w) < 2 ^ W ->
  refs_ok ops = true -> seq_run W trap (enc w) ops = spec_run w ops.
Proof.
  intros W trap w ops Hwf Hnn HW Hrefs.
  rewrite <- (C08_value W trap (enc w) ops HW (enc_bytes w Hwf)).
  exact (ReadProofs.C01 W trap w Hwf Hnn HW ops Hrefs).
Qed.
