(** The indexing / lookup loops of the lazy reader on a node that agrees with the bytes ([Inv]),
    for ANY fuel and ANY bytes: the node still agrees afterwards, handles stay valid, and the
    result (found child / error code / null) is the one the sequential decoder computes. *)
From Coq Require Import NArith ZArith Lia List Bool Arith ZifyNat ZifyN ZifyBool.
From SFV Require Import Base.Bytes Base.F64 Base.BytesProofs Read.Lazy Read.ReadRun Read.ReadSpec Read.ReadSafe
  Read.ReadInv Read.ReadRobust Read.SeqSpec Read.SeqFacts Read.SeqInv Read.SeqFinish.
Import ListNotations.
Open Scope N_scope.

Lemma bytes_eqb_beq' : forall a b, bytes_eqb a b = beq a b.
Proof.
  unfold bytes_eqb. induction a as [|x a IH]; intros [|y b]; try reflexivity.
  cbn [combine forallb beq]. rewrite <- IH. rewrite !lenN_cons.
  replace (1 + lenN a =? 1 + lenN b) with (lenN a =? lenN b).
  2:{ destruct (N.eqb_spec (lenN a) (lenN b)), (N.eqb_spec (1 + lenN a) (1 + lenN b)); try reflexivity; lia. }
  destruct (lenN a =? lenN b), (x =? y); reflexivity.
Qed.

Section Ops.
Set Default Proof Using "All".
Variable W : N.
Variable trap : bool.
Variable bs : list N.
Hypothesis Hnew : forall pos, new_sane bs pos (lz_new W trap bs pos).
Variable F : nat.
Hypothesis HF : (3 * length bs + 4 <= F)%nat.

Notation L := (lenN bs).
Notation hdr := (SeqSpec.hdr W trap bs).
Notation key_at := (SeqSpec.key_at W trap bs).
Notation skip := (SeqSpec.skip W trap bs).
Notation skip_elems := (SeqSpec.skip_elems W trap bs).
Notation skip_pairs := (SeqSpec.skip_pairs W trap bs).
Notation pair_at := (SeqSpec.pair_at W trap bs true).
Notation step_pos := (SeqSpec.step_pos W trap bs true F).
Notation seq_pos := (SeqSpec.seq_pos W trap bs true F).
Notation seq_find := (SeqSpec.seq_find W trap bs true F).
Notation child_ans := (SeqSpec.child_ans W trap bs true F).
Notation Inv := (SeqInv.Inv W trap bs F).
Notation Chain := (SeqInv.Chain W trap bs F).
Notation ChainP := (SeqInv.ChainP W trap bs F).
Notation InvL := (SeqInv.InvL W trap bs F).
Notation InvP := (SeqInv.InvP W trap bs F).

(** * What the sequential decoder finds at element [idx] / pair [idx] *)
Definition elem_hdr (idx p0 : N) : res (lz * option N) :=
  match skip_elems F idx p0 with
  | Ok q => hdr q
  | Err c => Err c | Panic s => Panic s | OutOfFuel => OutOfFuel
  end.
Definition pair_res (idx p0 : N) : res (lz * N) :=
  match skip_pairs F idx p0 with
  | Ok q => pair_at q
  | Err c => Err c | Panic s => Panic s | OutOfFuel => OutOfFuel
  end.

(** extending the processed prefix by a freshly decoded child *)
Lemma InvL_push p0 elems endp v e0 : Chain p0 elems endp -> hdr endp = Ok (v, e0) ->
  InvL p0 (elems ++ [v]) (match e0 with Some e => e | None => endp end).
Proof.
  intros Hc Hh. pose proof (Inv_fresh W trap bs Hnew F HF _ _ _ Hh) as Hv.
  destruct (hdr_cases W trap bs Hnew _ _ _ Hh) as [_ Hcs].
  destruct v as [| | | |len es p|len es p].
  5:{ destruct Hcs as (_ & -> & _). right. exists elems, (LArr len es p), endp. auto. }
  5:{ destruct Hcs as (_ & -> & _). right. exists elems, (LObj len es p), endp. auto. }
  all: destruct Hcs as (e' & -> & _); left;
    eapply (Chain_snoc W trap bs Hnew F HF); [exact Hc|exact Hv|eapply (skip_scalar W trap bs Hnew F HF); exact Hh].
Qed.

Lemma InvP_push p0 elems endp k ke v e0 : ChainP p0 elems endp -> key_at endp = Ok (k, ke) -> hdr ke = Ok (v, e0) ->
  InvP p0 (elems ++ [(k, v)]) (match e0 with Some e => e | None => ke end).
Proof.
  intros Hc Hk Hh. pose proof (Inv_fresh W trap bs Hnew F HF _ _ _ Hh) as Hv.
  destruct (hdr_cases W trap bs Hnew _ _ _ Hh) as [_ Hcs].
  destruct v as [| | | |len es p|len es p].
  5:{ destruct Hcs as (_ & -> & _). right. exists elems, k, (LArr len es p), endp, ke. auto 8. }
  5:{ destruct Hcs as (_ & -> & _). right. exists elems, k, (LObj len es p), endp, ke. auto 8. }
  all: destruct Hcs as (e' & -> & _); left;
    eapply (ChainP_snoc W trap bs Hnew F HF); [exact Hc|exact Hk|exact Hv|eapply (skip_scalar W trap bs Hnew F HF); exact Hh].
Qed.

(** * [ArrayRef::get_at_index] *)
Lemma arr_get_loop_inv p0 len idx : idx < len -> forall f elems endp elems' endp' r,
  InvL p0 elems endp -> lenN elems <= len ->
  arr_get_loop W trap f bs elems endp idx = (elems', endp', r) ->
  InvL p0 elems' endp' /\ lenN elems' <= len /\ exts elems elems' /\
  match r with
  | Ok _ => idx < lenN elems'
  | Err c => elem_hdr idx p0 = Err c
  | _ => True
  end.
Proof.
  intros Hidx. induction f as [|f IH]; intros elems endp elems' endp' r HI Hl Heq.
  - cbn [arr_get_loop] in Heq. inversion Heq; subst. split; [exact HI|]. split; [exact Hl|]. split; [apply exts_refl|exact I].
  - rewrite r_arr_get_loop_S in Heq.
    destruct (N.ltb_spec idx (lenN elems)) as [Hlt|Hge].
    { inversion Heq; subst. split; [exact HI|]. split; [exact Hl|]. split; [apply exts_refl|exact Hlt]. }
    destruct (finish_last_arr (finish W trap f bs) elems endp) as [[elems1 endp1] r1] eqn:Efl.
    destruct (finish_last_arr_inv W trap bs Hnew F HF f _ _ _ _ _ _ (finish_inv W trap bs Hnew F HF f) HI Efl) as (A1 & A2 & A3).
    destruct r1 as [u|c|s|].
    + change (lz_new W trap bs endp1) with (hdr endp1) in Heq.
      assert (Hsk : skip_elems F idx p0 = skip_elems F (idx - lenN elems1) endp1).
      { apply (Chain_skip W trap bs Hnew F HF _ _ _ A3). lia. }
      destruct (hdr endp1) as [[v e0]|c|s|] eqn:Eh.
      * cbv zeta in Heq.
        destruct (IH _ _ _ _ _ (InvL_push _ _ _ _ _ A3 Eh) ltac:(rewrite lenN_app, lenN_one; lia) Heq) as (B1 & B2 & B3 & B4).
        split; [exact B1|]. split; [exact B2|]. split; [|exact B4].
        eapply exts_trans; [exact A2|]. eapply exts_trans; [apply exts_app|exact B3].
      * inversion Heq; subst. split; [left; exact A3|]. split; [lia|]. split; [exact A2|].
        unfold elem_hdr. rewrite Hsk. destruct (N.eq_dec (idx - lenN elems') 0) as [E0|E0].
        -- rewrite E0, (skip_elems_0 W trap bs Hnew F HF). exact Eh.
        -- rewrite (skip_elems_step W trap bs Hnew F HF) by exact E0.
           rewrite (skip_hdr_err W trap bs Hnew F HF _ _ Eh). reflexivity.
      * inversion Heq; subst. split; [left; exact A3|]. split; [lia|]. split; [exact A2|exact I].
      * inversion Heq; subst. split; [left; exact A3|]. split; [lia|]. split; [exact A2|exact I].
    + inversion Heq; subst. destruct A3 as [A3 (es0 & x & q & -> & Hc0 & Hs)].
      split; [exact A3|]. split; [lia|]. split; [exact A2|].
      unfold elem_hdr. rewrite (Chain_err W trap bs Hnew F HF _ _ _ _ idx Hc0 Hs); [reflexivity|].
      rewrite lenN_app, lenN_one in Hge. lia.
    + inversion Heq; subst. split; [exact A3|]. split; [lia|]. split; [exact A2|exact I].
    + inversion Heq; subst. split; [exact A3|]. split; [lia|]. split; [exact A2|exact I].
Qed.


(** * [ObjectRef::get_at_index] *)
Lemma pair_at_key_err q c : key_at q = Err c -> pair_at q = Err c.
Proof. intros H. unfold SeqSpec.pair_at. rewrite H. reflexivity. Qed.
Lemma pair_at_hdr_err q k ke c : key_at q = Ok (k, ke) -> hdr ke = Err c -> pair_at q = Err c.
Proof. intros H1 H2. unfold SeqSpec.pair_at. rewrite H1, H2. reflexivity. Qed.

Lemma obj_get_loop_inv p0 len idx : idx < len -> forall f elems endp elems' endp' r,
  InvP p0 elems endp -> lenN elems <= len ->
  obj_get_loop W trap f bs elems endp idx = (elems', endp', r) ->
  InvP p0 elems' endp' /\ lenN elems' <= len /\ pexts elems elems' /\
  match r with
  | Ok _ => idx < lenN elems'
  | Err c => pair_res idx p0 = Err c
  | _ => True
  end.
Proof.
  intros Hidx. induction f as [|f IH]; intros elems endp elems' endp' r HI Hl Heq.
  - cbn [obj_get_loop] in Heq. inversion Heq; subst. split; [exact HI|]. split; [exact Hl|]. split; [apply pexts_refl|exact I].
  - rewrite r_obj_get_loop_S in Heq.
    destruct (N.ltb_spec idx (lenN elems)) as [Hlt|Hge].
    { inversion Heq; subst. split; [exact HI|]. split; [exact Hl|]. split; [apply pexts_refl|exact Hlt]. }
    destruct (finish_last_obj (finish W trap f bs) elems endp) as [[elems1 endp1] r1] eqn:Efl.
    destruct (finish_last_obj_inv W trap bs Hnew F HF f _ _ _ _ _ _ (finish_inv W trap bs Hnew F HF f) HI Efl) as (A1 & A2 & A3).
    destruct r1 as [u|c|s|].
    + change (new_key W trap bs endp1) with (key_at endp1) in Heq.
      assert (Hsk : skip_pairs F idx p0 = skip_pairs F (idx - lenN elems1) endp1).
      { apply (ChainP_skip W trap bs Hnew F HF _ _ _ A3). lia. }
      destruct (key_at endp1) as [[k ke]|c|s|] eqn:Ek.
      2:{ inversion Heq; subst. split; [left; exact A3|]. split; [lia|]. split; [exact A2|].
          unfold pair_res. rewrite Hsk. destruct (N.eq_dec (idx - lenN elems') 0) as [E0|E0].
          - rewrite E0, (skip_pairs_0 W trap bs Hnew F HF). apply pair_at_key_err. exact Ek.
          - rewrite (skip_pairs_step W trap bs Hnew F HF) by exact E0. rewrite Ek. reflexivity. }
      2,3: inversion Heq; subst; (split; [left; exact A3|]); (split; [lia|]); (split; [exact A2|exact I]).
      change (lz_new W trap bs ke) with (hdr ke) in Heq.
      destruct (hdr ke) as [[v e0]|c|s|] eqn:Eh.
      * cbv zeta in Heq.
        destruct (IH _ _ _ _ _ (InvP_push _ _ _ _ _ _ _ A3 Ek Eh) ltac:(rewrite lenN_app, lenN_one; lia) Heq) as (B1 & B2 & B3 & B4).
        split; [exact B1|]. split; [exact B2|]. split; [|exact B4].
        eapply pexts_trans; [exact A2|]. eapply pexts_trans; [apply pexts_app|exact B3].
      * inversion Heq; subst. split; [left; exact A3|]. split; [lia|]. split; [exact A2|].
        unfold pair_res. rewrite Hsk. destruct (N.eq_dec (idx - lenN elems') 0) as [E0|E0].
        -- rewrite E0, (skip_pairs_0 W trap bs Hnew F HF). eapply pair_at_hdr_err; [exact Ek|exact Eh].
        -- rewrite (skip_pairs_step W trap bs Hnew F HF) by exact E0. rewrite Ek.
           rewrite (skip_hdr_err W trap bs Hnew F HF _ _ Eh). reflexivity.
      * inversion Heq; subst. split; [left; exact A3|]. split; [lia|]. split; [exact A2|exact I].
      * inversion Heq; subst. split; [left; exact A3|]. split; [lia|]. split; [exact A2|exact I].
    + inversion Heq; subst. destruct A3 as [A3 (es0 & k & x & q & ke & -> & Hc0 & Hk & _ & _ & _ & Hs)].
      split; [exact A3|]. split; [lia|]. split; [exact A2|].
      unfold pair_res. rewrite (ChainP_err W trap bs Hnew F HF _ _ _ _ _ _ idx Hc0 Hk Hs); [reflexivity|].
      rewrite lenN_app, lenN_one in Hge. lia.
    + inversion Heq; subst. split; [exact A3|]. split; [lia|]. split; [exact A2|exact I].
    + inversion Heq; subst. split; [exact A3|]. split; [lia|]. split; [exact A2|exact I].
Qed.

(** * The answer for a child *)
Lemma child_ans_node h q n s v : Inv q n -> get_node n [s] = Some v ->
  child_ans h q s = encode_node (child h s) v.
Proof.
  intros Hn Hg. destruct (Inv_get W trap bs Hnew F HF _ _ _ _ Hn Hg) as (q' & Hq & Hv).
  cbn [SeqSpec.seq_pos] in Hq. unfold SeqSpec.child_ans.
  destruct (step_pos q s) as [q1|c|s0|]; try discriminate. inversion Hq; subst q1.
  destruct (Inv_head W trap bs Hnew F HF _ _ Hv) as (v0 & e & Hh & Hsh & Hsn). rewrite Hh.
  symmetry. eapply same_head_encode; eassumption.
Qed.

Lemma child_ans_idx h pos len es p0 e idx : hdr pos = Ok (LArr len es p0, e) ->
  child_ans h pos (SIdx idx) =
  if len <=? idx then Err E_IndexOOB
  else match elem_hdr idx p0 with
       | Ok (v, _) => Ok (hans (child h (SIdx idx)) v)
       | Err c => Err c | Panic s => Panic s | OutOfFuel => OutOfFuel
       end.
Proof.
  intros Hh. unfold SeqSpec.child_ans, SeqSpec.step_pos, elem_hdr. rewrite Hh.
  destruct (len <=? idx); [reflexivity|]. destruct (skip_elems F idx p0); reflexivity.
Qed.

Lemma child_ans_key h pos len es p0 e idx : hdr pos = Ok (LObj len es p0, e) ->
  child_ans h pos (SKey idx) =
  if len <=? idx then Err E_IndexOOB
  else match skip_pairs F idx p0 with
       | Ok q => match pair_at q with
                 | Ok _ => match hdr q with
                           | Ok (v, _) => Ok (hans (child h (SKey idx)) v)
                           | Err c => Err c | Panic s => Panic s | OutOfFuel => OutOfFuel
                           end
                 | Err c => Err c | Panic s => Panic s | OutOfFuel => OutOfFuel
                 end
       | Err c => Err c | Panic s => Panic s | OutOfFuel => OutOfFuel
       end.
Proof.
  intros Hh. unfold SeqSpec.child_ans, SeqSpec.step_pos. rewrite Hh.
  destruct (len <=? idx); [reflexivity|]. destruct (skip_pairs F idx p0) as [q|c|s|]; try reflexivity.
  destruct (pair_at q) as [[k ke]|c|s|]; reflexivity.
Qed.
Lemma child_ans_val h pos len es p0 e idx : hdr pos = Ok (LObj len es p0, e) ->
  child_ans h pos (SVal idx) =
  if len <=? idx then Err E_IndexOOB
  else match skip_pairs F idx p0 with
       | Ok q => match pair_at q with
                 | Ok (_, ke) => match hdr ke with
                           | Ok (v, _) => Ok (hans (child h (SVal idx)) v)
                           | Err c => Err c | Panic s => Panic s | OutOfFuel => OutOfFuel
                           end
                 | Err c => Err c | Panic s => Panic s | OutOfFuel => OutOfFuel
                 end
       | Err c => Err c | Panic s => Panic s | OutOfFuel => OutOfFuel
       end.
Proof.
  intros Hh. unfold SeqSpec.child_ans, SeqSpec.step_pos. rewrite Hh.
  destruct (len <=? idx); [reflexivity|]. destruct (skip_pairs F idx p0) as [q|c|s|]; try reflexivity.
  destruct (pair_at q) as [[k ke]|c|s|]; reflexivity.
Qed.

Lemma child_ans_pair_err h pos len es p0 e idx c : hdr pos = Ok (LObj len es p0, e) -> idx < len ->
  pair_res idx p0 = Err c -> child_ans h pos (SKey idx) = Err c /\ child_ans h pos (SVal idx) = Err c.
Proof.
  intros Hh Hi Hp. rewrite (child_ans_key _ _ _ _ _ _ _ Hh), (child_ans_val _ _ _ _ _ _ _ Hh).
  destruct (N.leb_spec len idx); [lia|]. unfold pair_res in Hp.
  destruct (skip_pairs F idx p0) as [q|c'|s|]; try discriminate.
  - rewrite Hp. split; reflexivity.
  - inversion Hp; subst. split; reflexivity.
Qed.

(** * Node level: [arr_get], [obj_get] *)
Lemma arr_get_inv f pos len elems endp idx n' r : Inv pos (LArr len elems endp) ->
  arr_get W trap f bs len elems endp idx = (n', r) ->
  Inv pos n' /\ ext (LArr len elems endp) n' /\
  match r with
  | Ok _ => get_node n' [SIdx idx] <> None
  | Err c => forall h, child_ans h pos (SIdx idx) = Err c
  | _ => True
  end.
Proof.
  intros Hn Heq. destruct (Inv_arr_inv W trap bs Hnew F HF _ _ _ _ Hn) as (p0 & Hh & Hl & HI).
  unfold arr_get in Heq. destruct (N.leb_spec len idx) as [Hoob|Hidx].
  { inversion Heq; subst. split; [exact Hn|]. split; [apply ext_refl|].
    intros h. rewrite (child_ans_idx _ _ _ _ _ _ _ Hh). destruct (N.leb_spec len idx); [reflexivity|lia]. }
  destruct (arr_get_loop W trap f bs elems endp idx) as [[e' p'] r'] eqn:El. inversion Heq; subst.
  destruct (arr_get_loop_inv p0 len idx Hidx f _ _ _ _ _ HI Hl El) as (B1 & B2 & B3 & B4).
  split; [eapply Inv_arr; [exact Hh|exact B2|exact B1]|]. split; [apply ext_arr_intro; exact B3|].
  destruct r as [u|c|s|]; try exact I.
  - cbn [get_node]. destruct (nthN_lt_Some e' idx B4) as [x ->]. discriminate.
  - intros h. rewrite (child_ans_idx _ _ _ _ _ _ _ Hh). destruct (N.leb_spec len idx); [lia|]. rewrite B4. reflexivity.
Qed.

Lemma obj_get_inv f pos len elems endp idx n' r : Inv pos (LObj len elems endp) ->
  obj_get W trap f bs len elems endp idx = (n', r) ->
  Inv pos n' /\ ext (LObj len elems endp) n' /\
  match r with
  | Ok _ => get_node n' [SKey idx] <> None /\ get_node n' [SVal idx] <> None
  | Err c => forall h, child_ans h pos (SKey idx) = Err c /\ child_ans h pos (SVal idx) = Err c
  | _ => True
  end.
Proof.
  intros Hn Heq. destruct (Inv_obj_inv W trap bs Hnew F HF _ _ _ _ Hn) as (p0 & Hh & Hl & HI).
  unfold obj_get in Heq. destruct (N.leb_spec len idx) as [Hoob|Hidx].
  { inversion Heq; subst. split; [exact Hn|]. split; [apply ext_refl|].
    intros h. rewrite (child_ans_key _ _ _ _ _ _ _ Hh), (child_ans_val _ _ _ _ _ _ _ Hh).
    destruct (N.leb_spec len idx); [split; reflexivity|lia]. }
  destruct (obj_get_loop W trap f bs elems endp idx) as [[e' p'] r'] eqn:El. inversion Heq; subst.
  destruct (obj_get_loop_inv p0 len idx Hidx f _ _ _ _ _ HI Hl El) as (B1 & B2 & B3 & B4).
  split; [eapply Inv_obj; [exact Hh|exact B2|exact B1]|]. split; [apply ext_obj_intro; exact B3|].
  destruct r as [u|c|s|]; try exact I.
  - cbn [get_node]. destruct (nthN_lt_Some e' idx B4) as [[xk xv] ->]. split; discriminate.
  - intros h. eapply child_ans_pair_err; [exact Hh|exact Hidx|exact B4].
Qed.


(** * [ObjectRef::get_property] *)
Variable name : list N.

Definition kmiss (k : lz) : Prop :=
  match k with LStr kp kl => beq (sub bs kp kl) name = false | _ => True end.
Definition nomatch (es : list (lz * lz)) : Prop := Forall kmiss (map fst es).

Lemma nomatch_app a b : nomatch (a ++ b) <-> nomatch a /\ nomatch b.
Proof. unfold nomatch. rewrite map_app. apply Forall_app. Qed.
Lemma nomatch_one k x : nomatch [(k, x)] <-> kmiss k.
Proof.
  unfold nomatch. cbn [map fst]. split; [intros H; inversion H; assumption|intros H; constructor; [exact H|constructor]].
Qed.

Lemma key_matches_beq kp kl : kp + kl <= L -> key_matches bs kp kl name = Ok (beq (sub bs kp kl) name).
Proof.
  intros H. unfold key_matches. destruct (N.ltb_spec L (kp + kl)); [lia|]. rewrite bytes_eqb_beq'. reflexivity.
Qed.

Lemma finish_last_obj_keys fin elems endp elems1 endp1 r1 :
  finish_last_obj fin elems endp = (elems1, endp1, r1) -> map fst elems1 = map fst elems.
Proof.
  unfold finish_last_obj. destruct (snoc_cases elems) as [->|(es0 & [k x] & ->)].
  - rewrite last_opt_nil. intros H; inversion H; reflexivity.
  - rewrite last_opt_snoc. destruct (fin x) as [x' r]. rewrite upd_last_snoc.
    destruct r as [[e|]|c|s|]; intros H; inversion H; subst; rewrite !map_app; reflexivity.
Qed.

Lemma find_processed_app a : forall b i, find_processed bs name (a ++ b) i =
  match find_processed bs name a i with
  | Ok None => find_processed bs name b (i + lenN a)
  | r => r
  end.
Proof.
  induction a as [|[k x] a IH]; intros b i.
  - cbn [app find_processed]. rewrite lenN_nil, N.add_0_r. reflexivity.
  - rewrite lenN_cons. replace (i + (1 + lenN a)) with (i + 1 + lenN a) by lia.
    cbn [app find_processed]. destruct k; try apply IH.
    destruct (key_matches bs ptr len name) as [[|]|c|s|]; try reflexivity. apply IH.
Qed.

Lemma seq_find_0 i pos : seq_find name 0 i pos = Ok None.
Proof. rewrite (seq_find_eq W trap bs Hnew F HF). reflexivity. Qed.

(** walking the processed, non-matching prefix *)
Lemma seq_find_chain p es q : ChainP p es q -> forall n i, nomatch es -> lenN es <= n ->
  seq_find name n i p = seq_find name (n - lenN es) (i + lenN es) q.
Proof.
  induction 1 as [p|p k ke x e es q Hk Hx Hs Hc IH]; intros n i Hnm Hn.
  - rewrite lenN_nil, N.sub_0_r, N.add_0_r. reflexivity.
  - rewrite lenN_cons in *. rewrite (seq_find_eq W trap bs Hnew F HF true name n i p).
    destruct (N.eqb_spec n 0); [lia|]. rewrite (pair_strict W trap bs Hnew F HF _ _ _ _ Hk Hx).
    destruct (key_at_str W trap bs Hnew _ _ _ Hk) as (kp & kl & -> & _).
    apply (nomatch_app [(LStr kp kl, x)] es) in Hnm. destruct Hnm as [Hm Hnm]. apply nomatch_one in Hm. cbn [kmiss] in Hm.
    rewrite Hm. destruct (N.eqb_spec n 1) as [->|Hn1].
    + replace (1 - (1 + lenN es)) with 0 by lia. rewrite seq_find_0. reflexivity.
    + rewrite Hs, IH by (assumption || lia).
      replace (n - 1 - lenN es) with (n - (1 + lenN es)) by lia.
      replace (i + 1 + lenN es) with (i + (1 + lenN es)) by lia. reflexivity.
Qed.

(** the search among the processed pairs is the sequential search *)
Lemma find_processed_chain p es q : ChainP p es q -> forall n i, lenN es <= n ->
  match find_processed bs name es i with
  | Ok (Some j) => seq_find name n i p = Ok (Some j) /\ j < i + lenN es
  | Ok None => nomatch es
  | _ => False
  end.
Proof.
  induction 1 as [p|p k ke x e es q Hk Hx Hs Hc IH]; intros n i Hn.
  - cbn [find_processed]. constructor.
  - rewrite lenN_cons in *. destruct (key_at_str W trap bs Hnew _ _ _ Hk) as (kp & kl & -> & Hb).
    cbn [find_processed]. rewrite (key_matches_beq _ _ Hb).
    rewrite (seq_find_eq W trap bs Hnew F HF true name n i p).
    destruct (N.eqb_spec n 0); [lia|]. rewrite (pair_strict W trap bs Hnew F HF _ _ _ _ Hk Hx).
    destruct (beq (sub bs kp kl) name) eqn:Eb.
    + split; [reflexivity|lia].
    + destruct (N.eqb_spec n 1) as [->|Hn1].
      { destruct es as [|y es]; [|rewrite lenN_cons in Hn; lia]. cbn [find_processed]. apply nomatch_one. exact Eb. }
      specialize (IH (n - 1) (i + 1) ltac:(lia)).
      destruct (find_processed bs name es (i + 1)) as [[j|]|c|s|]; try contradiction.
      * destruct IH as [IH1 IH2]. rewrite Hs. split; [exact IH1|lia].
      * apply (nomatch_app [(LStr kp kl, x)] es). split; [apply nomatch_one; exact Eb|exact IH].
Qed.

Notation S0 p0 len := (seq_find name len 0 p0).

(** everything processed, nothing matches: null *)
Lemma seq_find_none p0 len elems endp : InvP p0 elems endp -> nomatch elems -> lenN elems = len ->
  S0 p0 len = Ok None.
Proof.
  intros [Hc|(es0 & k & x & q & ke & -> & Hc & Hk & Hx & Hcomp & ->)] Hnm Hl.
  - rewrite (seq_find_chain _ _ _ Hc) by (assumption || lia). rewrite <- Hl, N.sub_diag. apply seq_find_0.
  - apply nomatch_app in Hnm. destruct Hnm as [Hnm0 Hm]. apply nomatch_one in Hm.
    rewrite lenN_app, lenN_one in Hl.
    rewrite (seq_find_chain _ _ _ Hc) by (assumption || lia).
    rewrite (seq_find_eq W trap bs Hnew F HF). destruct (N.eqb_spec (len - lenN es0) 0); [lia|].
    rewrite (pair_strict W trap bs Hnew F HF _ _ _ _ Hk Hx).
    destruct (key_at_str W trap bs Hnew _ _ _ Hk) as (kp & kl & -> & _). cbn [kmiss] in Hm. rewrite Hm.
    destruct (N.eqb_spec (len - lenN es0) 1); [reflexivity|lia].
Qed.

Lemma prop_scan_inv p0 len : forall f elems endp elems' endp' r,
  InvP p0 elems endp -> lenN elems <= len -> nomatch elems ->
  prop_scan W trap f bs name len elems endp = (elems', endp', r) ->
  InvP p0 elems' endp' /\ lenN elems' <= len /\ pexts elems elems' /\
  match r with
  | Ok (Some i) => S0 p0 len = Ok (Some i) /\ i < lenN elems'
  | Ok None => S0 p0 len = Ok None
  | Err c => S0 p0 len = Err c
  | _ => True
  end.
Proof.
  induction f as [|f IH]; intros elems endp elems' endp' r HI Hl Hnm Heq.
  - cbn [prop_scan] in Heq. inversion Heq; subst. split; [exact HI|]. split; [exact Hl|]. split; [apply pexts_refl|exact I].
  - rewrite r_prop_scan_S in Heq.
    destruct (N.leb_spec len (lenN elems)) as [Hle|Hgt].
    { inversion Heq; subst. split; [exact HI|]. split; [exact Hl|]. split; [apply pexts_refl|].
      eapply seq_find_none; [exact HI|exact Hnm|lia]. }
    destruct (finish_last_obj (finish W trap f bs) elems endp) as [[elems1 endp1] r1] eqn:Efl.
    destruct (finish_last_obj_inv W trap bs Hnew F HF f _ _ _ _ _ _ (finish_inv W trap bs Hnew F HF f) HI Efl) as (A1 & A2 & A3).
    pose proof (finish_last_obj_keys _ _ _ _ _ _ Efl) as Hkeys.
    assert (Hnm1 : nomatch elems1) by (unfold nomatch; rewrite Hkeys; exact Hnm).
    destruct r1 as [u|c|s|].
    + change (new_key W trap bs endp1) with (key_at endp1) in Heq.
      assert (HS : S0 p0 len = seq_find name (len - lenN elems1) (lenN elems1) endp1).
      { rewrite (seq_find_chain _ _ _ A3) by (assumption || lia). reflexivity. }
      rewrite (seq_find_eq W trap bs Hnew F HF true name (len - lenN elems1) (lenN elems1) endp1) in HS.
      destruct (N.eqb_spec (len - lenN elems1) 0); [lia|].
      destruct (key_at endp1) as [[k ke]|c|s|] eqn:Ek.
      2:{ inversion Heq; subst. split; [left; exact A3|]. split; [lia|]. split; [exact A2|].
          rewrite HS, (pair_at_key_err _ _ Ek). reflexivity. }
      2,3: inversion Heq; subst; (split; [left; exact A3|]); (split; [lia|]); (split; [exact A2|exact I]).
      destruct (key_at_str W trap bs Hnew _ _ _ Ek) as (kp & kl & -> & Hb).
      rewrite (key_matches_beq _ _ Hb) in Heq.
      change (lz_new W trap bs ke) with (hdr ke) in Heq.
      destruct (hdr ke) as [[v e0]|c|s|] eqn:Eh.
      2:{ inversion Heq; subst. split; [left; exact A3|]. split; [lia|]. split; [exact A2|].
          rewrite HS, (pair_at_hdr_err _ _ _ _ Ek Eh). reflexivity. }
      2,3: inversion Heq; subst; (split; [left; exact A3|]); (split; [lia|]); (split; [exact A2|exact I]).
      rewrite (pair_at_intro W trap bs true _ _ _ _ _ Ek Eh) in HS.
      cbv zeta in Heq.
      pose proof (InvP_push _ _ _ _ _ _ _ A3 Ek Eh) as HI2.
      assert (Hl2 : lenN (elems1 ++ [(LStr kp kl, v)]) <= len) by (rewrite lenN_app, lenN_one; lia).
      assert (Hx2 : pexts elems (elems1 ++ [(LStr kp kl, v)])) by (eapply pexts_trans; [exact A2|apply pexts_app]).
      destruct (beq (sub bs kp kl) name) eqn:Eb.
      * inversion Heq; subst. split; [exact HI2|]. split; [exact Hl2|]. split; [exact Hx2|].
        rewrite lenN_app, lenN_one. rewrite HS. split; [f_equal; f_equal; lia|lia].
      * assert (Hnm2 : nomatch (elems1 ++ [(LStr kp kl, v)])).
        { apply nomatch_app. split; [exact Hnm1|apply nomatch_one; exact Eb]. }
        destruct (IH _ _ _ _ _ HI2 Hl2 Hnm2 Heq) as (B1 & B2 & B3 & B4).
        split; [exact B1|]. split; [exact B2|]. split; [eapply pexts_trans; [exact Hx2|exact B3]|exact B4].
    + inversion Heq; subst. destruct A3 as [A3 (es0 & k & x & q & ke & -> & Hc0 & Hk & Hx & Hcomp & _ & Hs)].
      split; [exact A3|]. split; [lia|]. split; [exact A2|].
      apply nomatch_app in Hnm. destruct Hnm as [Hnm0 Hm]. apply nomatch_one in Hm.
      rewrite lenN_app, lenN_one in Hgt.
      rewrite (seq_find_chain _ _ _ Hc0) by (assumption || lia).
      rewrite (seq_find_eq W trap bs Hnew F HF). destruct (N.eqb_spec (len - lenN es0) 0); [lia|].
      rewrite (pair_strict W trap bs Hnew F HF _ _ _ _ Hk Hx).
      destruct (key_at_str W trap bs Hnew _ _ _ Hk) as (kp & kl & -> & _). cbn [kmiss] in Hm. rewrite Hm.
      destruct (N.eqb_spec (len - lenN es0) 1); [lia|]. rewrite Hs. reflexivity.
    + inversion Heq; subst. split; [exact A3|]. split; [lia|]. split; [exact A2|exact I].
    + inversion Heq; subst. split; [exact A3|]. split; [lia|]. split; [exact A2|exact I].
Qed.

(** the search among the processed pairs of a node *)
Lemma find_processed_inv p0 len elems endp : InvP p0 elems endp -> lenN elems <= len ->
  match find_processed bs name elems 0 with
  | Ok (Some j) => S0 p0 len = Ok (Some j) /\ j < lenN elems
  | Ok None => nomatch elems
  | _ => False
  end.
Proof.
  intros [Hc|(es0 & k & x & q & ke & -> & Hc & Hk & Hx & Hcomp & ->)] Hl.
  - pose proof (find_processed_chain _ _ _ Hc len 0 Hl) as H.
    destruct (find_processed bs name elems 0) as [[j|]|c|s|]; exact H.
  - rewrite lenN_app, lenN_one in Hl. rewrite find_processed_app.
    pose proof (find_processed_chain _ _ _ Hc len 0 ltac:(lia)) as H.
    destruct (find_processed bs name es0 0) as [[j|]|c|s|]; try contradiction.
    + destruct H. rewrite lenN_app, lenN_one. split; [assumption|lia].
    + destruct (key_at_str W trap bs Hnew _ _ _ Hk) as (kp & kl & -> & Hb).
      cbn [find_processed]. rewrite (key_matches_beq _ _ Hb).
      destruct (beq (sub bs kp kl) name) eqn:Eb.
      * rewrite lenN_app, lenN_one. split; [|lia].
        rewrite (seq_find_chain _ _ _ Hc) by (assumption || lia).
        rewrite (seq_find_eq W trap bs Hnew F HF). destruct (N.eqb_spec (len - lenN es0) 0); [lia|].
        rewrite (pair_strict W trap bs Hnew F HF _ _ _ _ Hk Hx), Eb. reflexivity.
      * apply nomatch_app. split; [exact H|apply nomatch_one; exact Eb].
Qed.

Lemma obj_prop_inv f pos len elems endp n' r : Inv pos (LObj len elems endp) ->
  obj_prop W trap f bs name len elems endp = (n', r) ->
  Inv pos n' /\ ext (LObj len elems endp) n' /\
  forall p0 es e, hdr pos = Ok (LObj len es p0, e) ->
  match r with
  | Ok (Some i) => S0 p0 len = Ok (Some i) /\ get_node n' [SVal i] <> None
  | Ok None => S0 p0 len = Ok None
  | Err c => S0 p0 len = Err c
  | _ => True
  end.
Proof.
  intros Hn Heq. destruct (Inv_obj_inv W trap bs Hnew F HF _ _ _ _ Hn) as (p0 & Hh & Hl & HI).
  unfold obj_prop in Heq. pose proof (find_processed_inv _ _ _ _ HI Hl) as Hfp.
  destruct (find_processed bs name elems 0) as [[j|]|c|s|]; try contradiction.
  - inversion Heq; subst. split; [exact Hn|]. split; [apply ext_refl|].
    intros p0' es e Hh'. rewrite Hh in Hh'. inversion Hh'; subst. destruct Hfp as [H1 H2]. split; [exact H1|].
    cbn [get_node]. destruct (nthN_lt_Some elems j H2) as [[xk xv] ->]. discriminate.
  - destruct (N.ltb_spec len (lenN elems)); [lia|].
    destruct (prop_scan W trap f bs name len elems endp) as [[e' p'] r'] eqn:El. inversion Heq; subst.
    destruct (prop_scan_inv p0 len f _ _ _ _ _ HI Hl Hfp El) as (B1 & B2 & B3 & B4).
    split; [eapply Inv_obj; [exact Hh|exact B2|exact B1]|]. split; [apply ext_obj_intro; exact B3|].
    intros p0' es e Hh'. rewrite Hh in Hh'. inversion Hh'; subst.
    destruct r as [[i|]|c|s|]; try exact B4; try exact I.
    destruct B4 as [H1 H2]. split; [exact H1|].
    cbn [get_node]. destruct (nthN_lt_Some e' i H2) as [[xk xv] ->]. discriminate.
Qed.

End Ops.
