(** SPEC (executable) of the input read API, defined on the wire tree only: what a full eager
    decode of the document gives at a position.  No lazy state, no byte positions, no fuel.
    (The types [pstep], [handle], [answer], [out] and the error codes are shared with the model.) *)
From Coq Require Import NArith ZArith List Bool.
From SFV Require Import Base.Bytes Base.F64 Msgpack.Wire Read.Lazy Read.ReadRun.
Import ListNotations.
Open Scope N_scope.

(** The value at a path. *)
Fixpoint sel (w : wire) (p : list pstep) : option wire :=
  match p with
  | [] => Some w
  | s :: p' =>
      match s, w with
      | SIdx i, WArr _ l => match nthN l i with Some c => sel c p' | None => None end
      | SKey i, WMap _ l => match nthN l i with Some kv => sel (fst kv) p' | None => None end
      | SVal i, WMap _ l => match nthN l i with Some kv => sel (snd kv) p' | None => None end
      | _, _ => None
      end
  end.

(** The double a number is read as. *)
Definition num_of (w : wire) : N :=
  match w with
  | WInt _ z => of_int z
  | WF32 bits => of_f32 bits
  | WF64 bits => bits
  | _ => 0
  end.

(** The answer for value [w] reached through handle [h] (true lengths). *)
Definition ans_of (h : handle) (w : wire) : answer :=
  match w with
  | WNil => ANull
  | WBool b => ABool b
  | WInt _ _ | WF32 _ | WF64 _ => ANum (num_of w)
  | WStr _ s => AStr h (lenN s)
  | WArr _ l => AArr h (lenN l)
  | WMap _ l => AObj h (lenN l)
  end.

Fixpoint beq (a b : list N) : bool :=
  match a, b with
  | [], [] => true
  | x :: a', y :: b' => (x =? y) && beq a' b'
  | _, _ => false
  end.

Definition key_bytes (k : wire) : list N := match k with WStr _ s => s | _ => [] end.

(** Index of the FIRST pair whose key bytes equal [name] (counting from [i]). *)
Fixpoint find_key (name : list N) (l : list (wire * wire)) (i : N) : option N :=
  match l with
  | [] => None
  | kv :: t => if beq (key_bytes (fst kv)) name then Some i else find_key name t (i + 1)
  end.

(** The scope argument: an earlier output that is a value, else garbage. *)
Definition sscope (prev : list out) (sc : option N) : scope :=
  match sc with
  | None => SGarbage
  | Some k => match nthN prev k with Some (OVal a) => SAns a | _ => SGarbage end
  end.

Definition at_child (w : wire) (h : handle) (s : pstep) : answer :=
  match sel w (snd h ++ [s]) with
  | Some c => ans_of (child h s) c
  | None => AErr E_IndexOOB
  end.

(** The spec's answer for one call: [prev] = earlier outputs, [k] = roots fetched so far. *)
Definition spec_exec (w : wire) (prev : list out) (k : N) (op : rop) : out :=
  match op with
  | RRoot => OVal (ans_of (k, []) w)
  | RProp sc name =>
      match sscope prev sc with
      | SAns (AObj h _) =>
          match sel w (snd h) with
          | Some (WMap _ l) =>
              match find_key name l 0 with
              | Some i => OVal (at_child w h (SVal i))
              | None => OVal ANull
              end
          | _ => OVal (AErr E_NotAnObject)
          end
      | SAns _ => OVal (AErr E_NotAnObject)
      | SGarbage => OVal (AErr E_Decode)
      end
  | RIdx sc i =>
      match sscope prev sc with
      | SAns (AArr h _) => OVal (at_child w h (SIdx i))
      | SAns (AObj h _) => OVal (at_child w h (SVal i))
      | SAns _ => OVal (AErr E_NotIndexable)
      | SGarbage => OVal (AErr E_Read)
      end
  | RKey sc i =>
      match sscope prev sc with
      | SAns (AObj h _) => OVal (at_child w h (SKey i))
      | SAns _ => OVal (AErr E_NotAnObject)
      | SGarbage => OVal (AErr E_Read)
      end
  | RLen sc =>
      match sscope prev sc with
      | SAns (AStr h _) | SAns (AArr h _) | SAns (AObj h _) =>
          match sel w (snd h) with
          | Some (WStr _ s) => OLen (Some (lenN s))
          | Some (WArr _ l) => OLen (Some (lenN l))
          | Some (WMap _ l) => OLen (Some (lenN l))
          | _ => OLen None
          end
      | _ => OLen None
      end
  | RStr sc =>
      match sscope prev sc with
      | SAns (AStr h _) =>
          match sel w (snd h) with
          | Some (WStr _ s) => OBytes (Some s)
          | _ => OBytes None
          end
      | _ => OBytes None
      end
  end.

Definition is_root (op : rop) : bool := match op with RRoot => true | _ => false end.

Definition spec_step (w : wire) (st : list out * N) (op : rop) : list out * N :=
  (fst st ++ [spec_exec w (fst st) (snd st) op], if is_root op then snd st + 1 else snd st).

Definition spec_run (w : wire) (ops : list rop) : list out :=
  fst (fold_left (spec_step w) ops ([], 0)).

(** Every [Some k] scope refers to an earlier call. *)
Definition op_scope (op : rop) : option N :=
  match op with
  | RRoot => None
  | RProp sc _ | RIdx sc _ | RKey sc _ | RLen sc | RStr sc => sc
  end.

Fixpoint refs_ok_from (n : N) (ops : list rop) : bool :=
  match ops with
  | [] => true
  | op :: t =>
      (match op_scope op with Some k => k <? n | None => true end) && refs_ok_from (n + 1) t
  end.
Definition refs_ok (ops : list rop) : bool := refs_ok_from 0 ops.
