(** The exported read functions at the level of the ABI (Read/AbiCall.v: the generated dispatch of provider/src/read.rs with the
    TRANSLATED node operations plugged in as oracles): applied to the NaN box of an earlier answer of a run of Read/GenRun.v, each
    function returns the NaN box of what the corresponding call of Read/GenRun.v returns.  The address map [addr] is abstract:
    any map from handles to non-null [usize] values with a left inverse. *)
From Coq Require Import NArith ZArith Lia List Bool Arith ZifyNat ZifyN ZifyBool.
From SFV Require Import Base.Bytes Base.BytesProofs Base.RsPrelude Base.F64 Gen.NanBoxGen NanBox.NanBox NanBox.NanBoxExt
  NanBox.NanBoxProofs Gen.NanBoxFnGen NanBox.NanBoxGenEq Read.Lazy Read.LazyTypes Gen.LazyNewGen Gen.LazyLoopsGen
  Read.LazyNewGenEq Read.ReadRun Read.ReadSafe Read.ReadRobust Read.LazyLoopsStmt Read.LoopsEq Read.GenRun Read.GenRunSmall
  Read.GenRunEq Read.NodeRefTy Gen.InternGen Gen.ReadAbiGen Read.ReadAbiEq Read.AbiCall.
Import ListNotations.
Open Scope N_scope.

(** * The closed forms of Read/ReadAbiEq.v again, with the bound on the oracle's error code asked only where the call is made *)
Section Closed.
Variable trap : bool.
Variable W : N.
Hypothesis HW : W = 32 \/ W = 64.
Variable node_at : N -> rres NodeRef.
Variable guest_bytes : N -> N -> list N.
Variable node_get_prop : N -> NodeRef -> list N -> list N -> unit -> rres (option NodeRef).
Variable node_get_at_index : N -> NodeRef -> N -> list N -> unit -> rres NodeRef.
Variable node_get_key_at_index : N -> NodeRef -> N -> list N -> unit -> rres NodeRef.
Variable node_encode : N -> NodeRef -> N.
Variable node_value_length : N -> NodeRef -> N.
Variable node_str_addr : N -> NodeRef -> list N -> N.

Lemma cf_err code : code < 2 ^ W -> NanBox_error W trap code = GOk (nb_error W code).
Proof. exact (proj2 (proj2 (scalar_ctor_eq_w trap W HW)) code). Qed.
Lemma cf_null : NanBox_null W trap = GOk (nb_null W).
Proof. exact (proj1 (proj2 (scalar_ctor_eq_w trap W HW))). Qed.

Definition not_indexable (d : value_ref) : Prop := match d with VArray _ _ | VObject _ _ => False | _ => True end.
Definition not_object (d : value_ref) : Prop := match d with VObject _ _ => False | _ => True end.

Notation F_idx := (Context_shopify_function_input_get_at_index W trap node_at guest_bytes node_get_prop node_get_at_index
  node_get_key_at_index node_encode node_value_length node_str_addr).
Notation F_key := (Context_shopify_function_input_get_obj_key_at_index W trap node_at guest_bytes node_get_prop node_get_at_index
  node_get_key_at_index node_encode node_value_length node_str_addr).
Notation F_prop := (Context_shopify_function_input_get_obj_prop W trap node_at guest_bytes node_get_prop node_get_at_index
  node_get_key_at_index node_encode node_value_length node_str_addr).

Lemma cf_idx_node ctx scope index p v : scope < 2 ^ (2 * W) ->
  (exists l, try_decode W scope = DOk (VArray p l) \/ try_decode W scope = DOk (VObject p l)) ->
  node_at p = ROk v ->
  (forall e, node_get_at_index W v index (Context_input_bytes ctx) (Context_bump_allocator ctx) = RErr e -> e < 2 ^ W) ->
  F_idx ctx scope index =
  GOk (match node_get_at_index W v index (Context_input_bytes ctx) (Context_bump_allocator ctx) with
       | ROk x => node_encode W x
       | RErr e => nb_error W e
       end).
Proof.
  intros Hs [l Hd] Hn Hc.
  unfold Context_shopify_function_input_get_at_index, NanBox_from_bits; cbn [gbind]; cbv zeta.
  rewrite (try_decode_eq_w trap W HW _ Hs).
  destruct Hd as [Hd|Hd]; rewrite Hd; cbn [conv_dec conv_val gbind]; rewrite Hn; cbv beta iota;
    (destruct (node_get_at_index W v index (Context_input_bytes ctx) (Context_bump_allocator ctx)) as [x|e] eqn:Eg;
     [reflexivity|rewrite (cf_err e (Hc e eq_refl)); reflexivity]).
Qed.

Lemma cf_idx_other ctx scope index d : scope < 2 ^ (2 * W) -> try_decode W scope = DOk d -> not_indexable d ->
  F_idx ctx scope index = GOk (nb_error W (EC_NotIndexable W)).
Proof.
  intros Hs Hd Hk.
  unfold Context_shopify_function_input_get_at_index, NanBox_from_bits; cbn [gbind]; cbv zeta.
  rewrite (try_decode_eq_w trap W HW _ Hs), Hd.
  destruct d; cbn [not_indexable] in Hk; try contradiction; cbn [conv_dec conv_val gbind];
    rewrite (cf_err (EC_NotIndexable W)) by (apply (ec_small W HW)); reflexivity.
Qed.

Lemma cf_idx_garbage ctx scope index : scope < 2 ^ (2 * W) -> try_decode W scope = DErr ->
  F_idx ctx scope index = GOk (nb_error W (EC_ReadError W)).
Proof.
  intros Hs Hd.
  unfold Context_shopify_function_input_get_at_index, NanBox_from_bits; cbn [gbind]; cbv zeta.
  rewrite (try_decode_eq_w trap W HW _ Hs), Hd. cbn [conv_dec conv_val gbind].
  rewrite (cf_err (EC_ReadError W)) by (apply (ec_small W HW)); reflexivity.
Qed.

Lemma cf_key_node ctx scope index p l v : scope < 2 ^ (2 * W) ->
  try_decode W scope = DOk (VObject p l) ->
  node_at p = ROk v ->
  (forall e, node_get_key_at_index W v index (Context_input_bytes ctx) (Context_bump_allocator ctx) = RErr e -> e < 2 ^ W) ->
  F_key ctx scope index =
  GOk (match node_get_key_at_index W v index (Context_input_bytes ctx) (Context_bump_allocator ctx) with
       | ROk x => node_encode W x
       | RErr e => nb_error W e
       end).
Proof.
  intros Hs Hd Hn Hc.
  unfold Context_shopify_function_input_get_obj_key_at_index, NanBox_from_bits; cbn [gbind]; cbv zeta.
  rewrite (try_decode_eq_w trap W HW _ Hs).
  rewrite Hd; cbn [conv_dec conv_val gbind]; rewrite Hn; cbv beta iota.
  destruct (node_get_key_at_index W v index (Context_input_bytes ctx) (Context_bump_allocator ctx)) as [x|e] eqn:Eg;
    [reflexivity|rewrite (cf_err e (Hc e eq_refl)); reflexivity].
Qed.

Lemma cf_key_other ctx scope index d : scope < 2 ^ (2 * W) -> try_decode W scope = DOk d -> not_object d ->
  F_key ctx scope index = GOk (nb_error W (EC_NotAnObject W)).
Proof.
  intros Hs Hd Hk.
  unfold Context_shopify_function_input_get_obj_key_at_index, NanBox_from_bits; cbn [gbind]; cbv zeta.
  rewrite (try_decode_eq_w trap W HW _ Hs), Hd.
  destruct d; cbn [not_object] in Hk; try contradiction; cbn [conv_dec conv_val gbind];
    rewrite (cf_err (EC_NotAnObject W)) by (apply (ec_small W HW)); reflexivity.
Qed.

Lemma cf_key_garbage ctx scope index : scope < 2 ^ (2 * W) -> try_decode W scope = DErr ->
  F_key ctx scope index = GOk (nb_error W (EC_ReadError W)).
Proof.
  intros Hs Hd.
  unfold Context_shopify_function_input_get_obj_key_at_index, NanBox_from_bits; cbn [gbind]; cbv zeta.
  rewrite (try_decode_eq_w trap W HW _ Hs), Hd. cbn [conv_dec conv_val gbind].
  rewrite (cf_err (EC_ReadError W)) by (apply (ec_small W HW)); reflexivity.
Qed.

Lemma cf_prop_node ctx scope ptr len p l v : scope < 2 ^ (2 * W) ->
  try_decode W scope = DOk (VObject p l) ->
  node_at p = ROk v ->
  (forall e, node_get_prop W v (guest_bytes (u_cast W ptr) len) (Context_input_bytes ctx) (Context_bump_allocator ctx) = RErr e ->
             e < 2 ^ W) ->
  F_prop ctx scope ptr len =
  GOk (match node_get_prop W v (guest_bytes (u_cast W ptr) len) (Context_input_bytes ctx) (Context_bump_allocator ctx) with
       | ROk (Some x) => node_encode W x
       | ROk None => nb_null W
       | RErr e => nb_error W e
       end).
Proof.
  intros Hs Hd Hn Hc.
  unfold Context_shopify_function_input_get_obj_prop, NanBox_from_bits; cbn [gbind]; cbv zeta.
  rewrite (try_decode_eq_w trap W HW _ Hs).
  rewrite Hd; cbn [conv_dec conv_val gbind]; rewrite Hn; cbv beta iota.
  destruct (node_get_prop W v (guest_bytes (u_cast W ptr) len) (Context_input_bytes ctx) (Context_bump_allocator ctx))
    as [[x|]|e] eqn:Eg.
  - reflexivity.
  - rewrite cf_null. reflexivity.
  - rewrite (cf_err e (Hc e eq_refl)). reflexivity.
Qed.

Lemma cf_prop_other ctx scope ptr len d : scope < 2 ^ (2 * W) -> try_decode W scope = DOk d -> not_object d ->
  F_prop ctx scope ptr len = GOk (nb_error W (EC_NotAnObject W)).
Proof.
  intros Hs Hd Hk.
  unfold Context_shopify_function_input_get_obj_prop, NanBox_from_bits; cbn [gbind]; cbv zeta.
  rewrite (try_decode_eq_w trap W HW _ Hs), Hd.
  destruct d; cbn [not_object] in Hk; try contradiction; cbn [conv_dec conv_val gbind];
    rewrite (cf_err (EC_NotAnObject W)) by (apply (ec_small W HW)); reflexivity.
Qed.

Lemma cf_prop_garbage ctx scope ptr len : scope < 2 ^ (2 * W) -> try_decode W scope = DErr ->
  F_prop ctx scope ptr len = GOk (nb_error W (EC_DecodeError W)).
Proof.
  intros Hs Hd.
  unfold Context_shopify_function_input_get_obj_prop, NanBox_from_bits; cbn [gbind]; cbv zeta.
  rewrite (try_decode_eq_w trap W HW _ Hs), Hd. cbn [conv_dec conv_val gbind].
  rewrite (cf_err (EC_DecodeError W)) by (apply (ec_small W HW)); reflexivity.
Qed.

End Closed.

(** * Whole runs keep the forest sane and small *)
Lemma run_small W trap bs (Hin : input_ok W bs) : forall ops g h, rel_state g h -> RInv bs (roots h) (outs h) -> Forall small (roots h) ->
  Forall small (roots (fold_left (exec W trap (fuel_bs bs) bs) ops h)).
Proof.
  induction ops as [|op ops IH]; intros g h HR HI Hsm; [exact Hsm|].
  cbn [fold_left]. destruct (exec_rel W trap bs Hin g h op HR HI Hsm) as [HR' Hsm'].
  apply (IH _ _ HR'); [|exact Hsm'].
  exact (proj1 (exec_safe W trap bs (in_new W trap bs Hin) _ (in_fuel bs) h op HI)).
Qed.

Lemma run_forest W trap bs ops : Forall (fun b => b < 256) bs -> lenN bs + 9 < 2 ^ W -> 32 <= W ->
  Forall (sane (lenN bs) 0) (map conv (groots (g_run W trap bs ops))) /\
  Forall small (map conv (groots (g_run W trap bs ops))) /\
  Forall (str_ok (map conv (groots (g_run W trap bs ops)))) (gouts (g_run W trap bs ops)).
Proof.
  intros Hb Hlen H32. pose proof (conj Hb (conj Hlen H32)) as Hin. change (input_ok W bs) in Hin.
  destruct (gen_run_eq W trap bs ops Hb Hlen H32) as [Eo Er]. rewrite Er, Eo.
  destruct (run_RInv W trap bs ops (in_new W trap bs Hin)) as [[H1 H2] _].
  split; [exact H1|]. split; [|exact H2].
  unfold run. apply (run_small W trap bs Hin ops ginit rinit).
  - split; reflexivity.
  - split; constructor.
  - constructor.
Qed.

(** * What one translated node operation does on a live node of a sane, small forest *)
Section NodeCalls.
Variable W : N.
Variable trap : bool.
Variable bs : list N.
Hypothesis Hin : input_ok W bs.
Variable grs : groots_t.
Hypothesis Hsane : Forall (sane (lenN bs) 0) (map conv grs).
Hypothesis Hsm : Forall small (map conv grs).

Lemma encode_fine h n : o_fine (out_of_res (encode_node h n)) -> exists a, encode_node h n = Ok a.
Proof.
  destruct n as [| |b| | |]; cbn [encode_node]; eauto.
  destruct (is_nan b); cbn [out_of_res o_fine]; [contradiction|eauto].
Qed.

Lemma idx_call h v idx : g_node_of grs h = Some v ->
  match LazyValueRef_get_at_index W trap (gfuel bs) v idx bs with
  | GOk (v', ROk x) => get_node (conv v') [g_idx_step v' idx] = Some (conv x) /\
                       exists a, encode_node (child h (g_idx_step v' idx)) (conv x) = Ok a
  | GOk (_, RErr _) => True
  | GPanic _ => False
  end.
Proof.
  intros Eg.
  assert (En : node_of (map conv grs) h = Some (conv v)) by (rewrite conv_node_of, Eg; reflexivity).
  destruct (node_sane bs _ _ _ Hsane En) as [p Hp]. pose proof (small_node_of _ _ _ Hsm En) as Hv.
  pose proof (idx_step_kept W trap bs (fuel_bs bs) (conv v) idx) as Hk.
  pose proof (loops_get_at_index W trap bs Hin) as HL. unfold get_at_index_eq_stmt, get_at_index_eq_stmt_k in HL.
  specialize (HL (fuel_bs bs) v idx p Hp (small_node_len W bs Hin _ Hv)).
  assert (Hfine : o_fine (snd (get_at_index W trap (fuel_bs bs) bs (map conv grs) (SAns (AObj h 0)) idx))).
  { destruct (get_at_index W trap (fuel_bs bs) bs (map conv grs) (SAns (AObj h 0)) idx) as [rs' o] eqn:E.
    exact (proj2 (get_at_index_safe W trap bs (in_new W trap bs Hin) _ (in_fuel bs) _ [] _ _ _ _
                    (conj Hsane (Forall_nil _)) E)). }
  rewrite get_at_index_node in Hfine. cbn [idx_handle] in Hfine. rewrite En in Hfine. cbv zeta in Hfine.
  destruct (node_get_at_index W trap bs (fuel_bs bs) (conv v) idx) as [n' r]. cbn [fst snd] in *.
  pose proof (after_fine _ _ _ _ _ Hfine) as Hr.
  specialize (HL (res_fine_not_fuel _ Hr) (gfuel bs) (in_enough bs)).
  destruct (LazyValueRef_get_at_index W trap (gfuel bs) v idx bs) as [[v' [x|c]]|s]; cbn [sim rel_res fst snd] in HL.
  - destruct HL as [Hc HR]. destruct r as [[]|c|s|]; try contradiction. subst n'.
    rewrite g_idx_step_conv. split; [exact HR|].
    rewrite Hk in HR. rewrite (after_ok _ _ _ _ _ _ En HR) in Hfine. cbn [snd] in Hfine.
    rewrite Hk. apply encode_fine. exact Hfine.
  - exact I.
  - destruct HL as [_ HP]. destruct r as [[]|c'|s'|]; cbn [is_panic res_fine] in *; contradiction.
Qed.

Lemma key_call h v idx : g_node_of grs h = Some v ->
  match LazyValueRef_get_key_at_index W trap (gfuel bs) v idx bs with
  | GOk (v', ROk x) => get_node (conv v') [SKey idx] = Some (conv x) /\
                       exists a, encode_node (child h (SKey idx)) (conv x) = Ok a
  | GOk (_, RErr _) => True
  | GPanic _ => False
  end.
Proof.
  intros Eg.
  assert (En : node_of (map conv grs) h = Some (conv v)) by (rewrite conv_node_of, Eg; reflexivity).
  destruct (node_sane bs _ _ _ Hsane En) as [p Hp]. pose proof (small_node_of _ _ _ Hsm En) as Hv.
  pose proof (loops_get_key_at_index W trap bs Hin) as HL. unfold get_key_at_index_eq_stmt, get_key_at_index_eq_stmt_k in HL.
  specialize (HL (fuel_bs bs) v idx p Hp (small_node_len W bs Hin _ Hv)).
  assert (Hfine : o_fine (snd (get_obj_key_at_index W trap (fuel_bs bs) bs (map conv grs) (SAns (AObj h 0)) idx))).
  { destruct (get_obj_key_at_index W trap (fuel_bs bs) bs (map conv grs) (SAns (AObj h 0)) idx) as [rs' o] eqn:E.
    exact (proj2 (get_obj_key_at_index_safe W trap bs (in_new W trap bs Hin) _ (in_fuel bs) _ [] _ _ _ _
                    (conj Hsane (Forall_nil _)) E)). }
  rewrite get_key_at_index_node in Hfine. cbn [obj_handle] in Hfine. rewrite En in Hfine. cbv zeta in Hfine.
  destruct (node_get_key_at_index W trap bs (fuel_bs bs) (conv v) idx) as [n' r]. cbn [fst snd] in *.
  pose proof (after_fine _ _ _ _ _ Hfine) as Hr.
  specialize (HL (res_fine_not_fuel _ Hr) (gfuel bs) (in_enough bs)).
  destruct (LazyValueRef_get_key_at_index W trap (gfuel bs) v idx bs) as [[v' [x|c]]|s]; cbn [sim rel_res fst snd] in HL.
  - destruct HL as [Hc HR]. destruct r as [[]|c|s|]; try contradiction. subst n'.
    split; [exact HR|].
    rewrite (after_ok _ _ _ _ _ _ En HR) in Hfine. cbn [snd] in Hfine.
    apply encode_fine. exact Hfine.
  - exact I.
  - destruct HL as [_ HP]. destruct r as [[]|c'|s'|]; cbn [is_panic res_fine] in *; contradiction.
Qed.

Lemma prop_call h v name : g_node_of grs h = Some v ->
  match LazyValueRef_get_object_property W trap (gfuel bs) v name bs with
  | GOk (v', ROk (Some x)) => exists i, g_prop_index bs name v' = Some i /\
                       get_node (conv v') [SVal i] = Some (conv x) /\
                       exists a, encode_node (child h (SVal i)) (conv x) = Ok a
  | GOk (_, ROk None) => True
  | GOk (_, RErr _) => True
  | GPanic _ => False
  end.
Proof.
  intros Eg.
  assert (En : node_of (map conv grs) h = Some (conv v)) by (rewrite conv_node_of, Eg; reflexivity).
  destruct (node_sane bs _ _ _ Hsane En) as [p Hp]. pose proof (small_node_of _ _ _ Hsm En) as Hv.
  pose proof (loops_get_object_property W trap bs Hin) as HL.
  unfold get_object_property_eq_stmt, get_object_property_eq_stmt_k in HL.
  specialize (HL (fuel_bs bs) v name p Hp (small_node_len W bs Hin _ Hv)).
  assert (Hfine : o_fine (snd (get_obj_prop W trap (fuel_bs bs) bs (map conv grs) (SAns (AObj h 0)) name))).
  { destruct (get_obj_prop W trap (fuel_bs bs) bs (map conv grs) (SAns (AObj h 0)) name) as [rs' o] eqn:E.
    exact (proj2 (get_obj_prop_safe W trap bs (in_new W trap bs Hin) _ (in_fuel bs) _ [] _ _ _ _
                    (conj Hsane (Forall_nil _)) E)). }
  rewrite get_obj_prop_node in Hfine. cbn [obj_handle] in Hfine. rewrite En in Hfine. cbv zeta in Hfine.
  destruct (node_get_prop W trap bs (fuel_bs bs) (conv v) name) as [n' r] eqn:EX. cbn [fst snd] in *.
  pose proof (afterp_fine _ _ _ _ Hfine) as Hr.
  specialize (HL (res_fine_not_fuel _ Hr) (gfuel bs) (in_enough bs)).
  destruct (LazyValueRef_get_object_property W trap (gfuel bs) v name bs) as [[v' [[x|]|c]]|s]; cbn [sim rel_res fst snd] in HL.
  - destruct HL as [Hc HR]. destruct r as [[i|]|c|s|]; try contradiction. subst n'.
    exists i. split.
    { unfold g_prop_index. destruct (conv v) as [| | | | |len es e]; cbn [node_get_prop] in EX; try discriminate.
      destruct (obj_prop_index W trap bs _ _ _ _ _ _ _ EX) as (es' & e' & -> & Hf). rewrite Hf. reflexivity. }
    split; [exact HR|].
    rewrite (afterp_ok _ _ _ _ _ _ En HR) in Hfine. cbn [snd] in Hfine.
    apply encode_fine. exact Hfine.
  - exact I.
  - exact I.
  - destruct HL as [_ HP]. destruct r as [[i|]|c'|s'|]; cbn [is_panic res_fine] in *; contradiction.
Qed.

End NodeCalls.

(** * The exported functions on the NaN box of an earlier answer *)
Section AbiCallEq.
Variable trap : bool.
Variable W : N.
Hypothesis HW : W = 32 \/ W = 64.
Variable addr : handle -> N.
Variable inv : N -> option handle.
Hypothesis inv_addr : forall h, inv (addr h) = Some h.
(** NOTE: [forall h, 0 < addr h < 2 ^ W] cannot be asked of every handle together with [inv_addr] (handles are infinitely many,
    [usize] values are not): the range is asked of the handle of the answer used as the scope ([answer_wf]). *)

(** what is asked of the answer used as the scope, beyond being an answer of the run: a number is the bit pattern of an [f64]
    that is not NaN (what [NanBox::number] accepts), an error code is a [usize], the address of the node is a non-null [usize] *)
Definition answer_wf (a : answer) : Prop :=
  match a with
  | ANum bits => bits < 2 ^ 64 /\ is_nan bits = false
  | AErr c => c < 2 ^ W
  | AStr h _ | AArr h _ | AObj h _ => 0 < addr h < 2 ^ W
  | _ => True
  end.
(** what is asked of the result of the call: an error code is a [usize] *)
Definition out_wf (o : out) : Prop := match o with OVal (AErr c) => c < 2 ^ W | _ => True end.
Definition answer_handle (a : answer) : option handle :=
  match a with AStr h _ | AArr h _ | AObj h _ => Some h | _ => None end.
(** the node behind the answer's handle is (still) in the forest *)
Definition answer_live (roots : groots_t) (a : answer) : Prop :=
  match answer_handle a with Some h => g_node_of roots h <> None | None => True end.

Lemma W32 : 32 <= W. Proof. destruct HW as [-> | ->]; discriminate. Qed.
Lemma pow64_le : 2 ^ 64 <= 2 ^ (2 * W).
Proof. destruct HW as [-> | ->]; vm_compute; discriminate. Qed.

Lemma encode_bound p l t : t < 16 -> encode W p l t < 2 ^ (2 * W).
Proof.
  intros Ht. destruct HW as [-> | ->].
  - eapply N.lt_trans; [apply encode_sign_32; exact Ht|reflexivity].
  - eapply N.lt_trans; [apply encode_sign_64; exact Ht|reflexivity].
Qed.
Lemma tag_small : TAG_Null W < 16 /\ TAG_Bool W < 16 /\ TAG_String W < 16 /\ TAG_Array W < 16 /\ TAG_Object W < 16 /\ TAG_Error W < 16.
Proof. destruct HW as [-> | ->]; repeat split. Qed.

Lemma bits_bound a : answer_wf a -> bits_of_answer W addr a < 2 ^ (2 * W).
Proof.
  destruct tag_small as (T0 & T1 & T2 & T3 & T4 & T5).
  destruct a as [|b|bits|h l|h l|h l|c]; cbn [bits_of_answer answer_wf]; intros Hwf;
    try (unfold nb_null, nb_bool, nb_string, nb_array, nb_obj, nb_error; apply encode_bound; assumption).
  destruct Hwf as [Hb Hn]. destruct (number_roundtrip W HW bits Hb Hn) as (v & Hv & Hlt & _). rewrite Hv. exact Hlt.
Qed.

Lemma num_not_boxed bits : bits < 2 ^ 64 -> is_nan bits = false -> is_boxed W bits = false.
Proof.
  intros Hb Hn. destruct HW as [-> | ->].
  - destruct (number_roundtrip 32 (or_introl eq_refl) bits Hb Hn) as (v & Hv & _ & Hbx & _).
    unfold nb_number in Hv. rewrite Hn in Hv. injection Hv as <-.
    change (F64_OFFSET 32) with 0 in Hbx. rewrite N.shiftl_0_r in Hbx.
    unfold wrap_val, val_bits in Hbx. change (2 * 32) with 64 in Hbx. rewrite N.mod_small in Hbx by exact Hb. exact Hbx.
  - unfold is_boxed.
    assert (E : N.land bits (NAN_MASK 64) = 0).
    { rewrite <- (N.mod_small bits (2 ^ 64) Hb) at 1. rewrite <- N.land_ones, <- N.land_assoc.
      replace (N.land (N.ones 64) (NAN_MASK 64)) with 0 by (vm_compute; reflexivity). apply N.land_0_r. }
    rewrite E. vm_compute. reflexivity.
Qed.

(** a scalar answer decodes to a value that is neither a string nor a container *)
Definition scalar_dec (d : value_ref) : Prop :=
  match d with VString _ _ | VArray _ _ | VObject _ _ => False | _ => True end.
Lemma scalar_decode a : answer_wf a -> answer_handle a = None ->
  exists d, try_decode W (bits_of_answer W addr a) = DOk d /\ scalar_dec d.
Proof.
  destruct a as [|b|bits|h l|h l|h l|c]; cbn [bits_of_answer answer_wf answer_handle]; intros Hwf Hh; try discriminate.
  - exists VNull. split; [apply decode_null; exact HW|exact I].
  - exists (VBool b). split; [apply decode_bool; exact HW|exact I].
  - destruct Hwf as [Hb Hn]. destruct (number_roundtrip W HW bits Hb Hn) as (v & Hv & _ & _ & Hd). rewrite Hv.
    exists (VNumber bits). split; [exact Hd|exact I].
  - destruct (in_dec N.eq_dec c (map snd (ErrorCode_variants W))) as [Hi|Hi].
    + exists (VError c). split; [apply decode_error_known; assumption|exact I].
    + exists (VError (EC_Unknown W)). split; [apply decode_error_other; assumption|exact I].
Qed.

Lemma wf_handle a h : answer_wf a -> answer_handle a = Some h -> 0 < addr h < 2 ^ W.
Proof. destruct a; cbn [answer_wf answer_handle]; intros Hw E; try discriminate; injection E as <-; exact Hw. Qed.
Lemma node_at_live h : 0 < addr h < 2 ^ W -> o_node_at W (addr h) = ROk (addr h).
Proof. intros Hr. unfold o_node_at. destruct (N.eqb_spec (addr h) 0); [lia|reflexivity]. Qed.
Lemma node_at_code p e : o_node_at W p = RErr e -> e < 2 ^ W.
Proof. unfold o_node_at. destruct (p =? 0); [|discriminate]. intros H. injection H as <-. apply (ec_small W HW). Qed.
Lemma o_node_live roots h v : g_node_of roots h = Some v -> o_node inv roots (addr h) = Some (h, v).
Proof. intros E. unfold o_node. rewrite inv_addr, E. reflexivity. Qed.

(** the child the oracle designates is a node of the new forest, and its [encode] is the answer of the call *)
Lemma child_encode grs h v v' st x a : g_node_of grs h = Some v ->
  get_node (conv v') [st] = Some (conv x) -> encode_node (child h st) (conv x) = Ok a ->
  o_encode W addr inv (g_put_node grs h v') W (addr (child h st)) = bits_of_answer W addr a.
Proof.
  intros Eg HR Ha.
  assert (En : node_of (map conv grs) h = Some (conv v)) by (rewrite conv_node_of, Eg; reflexivity).
  assert (E : option_map conv (g_node_of (g_put_node grs h v') (child h st)) = Some (conv x)).
  { rewrite <- conv_node_of, conv_put. rewrite (node_of_put_child _ _ _ _ _ En). exact HR. }
  unfold o_encode, o_node. rewrite inv_addr.
  destruct (g_node_of (g_put_node grs h v') (child h st)) as [x'|]; cbn [option_map] in E; [|discriminate].
  injection E as E. rewrite E, Ha. reflexivity.
Qed.

(** ** get_val_len *)
Theorem abi_call_get_val_len : forall bs ops k a, Forall (fun b => b < 256) bs -> lenN bs + 9 < 2 ^ W ->
  let st := g_run W trap bs ops in
  nthN (gouts st) k = Some (OVal a) -> answer_wf a -> answer_live (groots st) a ->
  exists n, abi_get_val_len W trap addr inv bs (groots st) (bits_of_answer W addr a) = GOk n /\
            len_of_out W (g_get_val_len W trap (groots st) (SAns a)) = Some n.
Proof.
  intros bs ops k a Hb Hlen st _ Hwf Hlive. unfold abi_get_val_len.
  rewrite (abi_get_val_len_eq trap W HW) by (apply bits_bound; exact Hwf).
  eexists. split; [reflexivity|].
  destruct (answer_handle a) as [h|] eqn:Eh.
  - pose proof (wf_handle a h Hwf Eh) as Hr. assert (Hp : addr h < 2 ^ W) by lia.
    unfold answer_live in Hlive. rewrite Eh in Hlive.
    destruct (g_node_of (groots st) h) as [v|] eqn:Eg; [|contradiction].
    assert (Hv : o_value_length W trap inv (groots st) W (addr h) =
                 match conv v with LStr _ len | LArr len _ _ | LObj len _ _ => len | _ => 0 end).
    { unfold o_value_length. rewrite (o_node_live _ _ _ Eg). rewrite (loops_get_value_length W trap 0%nat v). reflexivity. }
    destruct a as [|b|bits|h' l|h' l|h' l|c]; cbn [answer_handle] in Eh; try discriminate; injection Eh as ->;
      cbn [bits_of_answer g_get_val_len]; rewrite Eg, (loops_get_value_length W trap 0%nat v); cbn [len_of_out].
    + rewrite (decode_string W HW _ l Hp), (node_at_live h Hr), Hv. reflexivity.
    + rewrite (decode_array W HW _ l Hp), (node_at_live h Hr), Hv. reflexivity.
    + rewrite (decode_obj W HW _ l Hp), (node_at_live h Hr), Hv. reflexivity.
  - destruct (scalar_decode a Hwf Eh) as (d & -> & Hd).
    destruct a as [|b|bits|h' l|h' l|h' l|c]; cbn [answer_handle] in Eh; try discriminate;
      cbn [g_get_val_len len_of_out]; destruct d; cbn [scalar_dec] in Hd; try contradiction; reflexivity.
Qed.

Theorem abi_call_get_val_len_garbage : forall bs roots g, g < 2 ^ (2 * W) -> try_decode W g = DErr ->
  abi_get_val_len W trap addr inv bs roots g = GOk (2 ^ W - 1) /\
  len_of_out W (g_get_val_len W trap roots SGarbage) = Some (2 ^ W - 1).
Proof.
  intros bs roots g Hg Hd. unfold abi_get_val_len. rewrite (abi_get_val_len_eq trap W HW) by exact Hg.
  rewrite Hd. split; reflexivity.
Qed.

Lemma scalar_not_indexable d : scalar_dec d -> not_indexable d.
Proof. destruct d; cbn; auto. Qed.
Lemma scalar_not_object d : scalar_dec d -> not_object d.
Proof. destruct d; cbn; auto. Qed.

(** ** get_at_index *)
Section Core.
Variable bs : list N.
Variable si : StringInterner.
Hypothesis Hin : input_ok W bs.
Variable grs : groots_t.
Hypothesis Hsane : Forall (sane (lenN bs) 0) (map conv grs).
Hypothesis Hsm : Forall small (map conv grs).

Lemma idx_core h v a sc idx (Hr : 0 < addr h < 2 ^ W) : g_node_of grs h = Some v -> idx_handle a = Some h -> sc < 2 ^ (2 * W) ->
  (exists l, try_decode W sc = DOk (VArray (addr h) l) \/ try_decode W sc = DOk (VObject (addr h) l)) ->
  out_wf (snd (g_get_at_index W trap bs grs (SAns a) idx)) ->
  exists b, abi_get_at_index W trap addr inv bs si grs (fst (g_get_at_index W trap bs grs (SAns a) idx)) sc idx = GOk b /\
            bits_of_out W addr (snd (g_get_at_index W trap bs grs (SAns a) idx)) = Some b.
Proof.
  intros Eg Hh Hsc Hdec. rewrite g_get_at_index_node, Hh, Eg.
  pose proof (idx_call W trap bs Hin grs Hsane Hsm h v idx Eg) as HC.
  assert (Ho : o_get_at_index W trap addr inv bs grs W (addr h) idx bs tt =
               match LazyValueRef_get_at_index W trap (gfuel bs) v idx bs with
               | GOk (v', ROk _) => ROk (addr (child h (g_idx_step v' idx)))
               | GOk (_, RErr c) => RErr c
               | GPanic _ => RErr 0
               end).
  { unfold o_get_at_index. rewrite (o_node_live _ _ _ Eg). reflexivity. }
  revert HC Ho. destruct (LazyValueRef_get_at_index W trap (gfuel bs) v idx bs) as [[v' [x|c]]|s]; intros HC Ho; cbn [fst snd].
  - destruct HC as (HR & a' & Ha). intros _. unfold g_encode. rewrite Ha. cbn [out_of_res bits_of_out].
    exists (bits_of_answer W addr a'). split; [|reflexivity]. unfold abi_get_at_index.
    rewrite (cf_idx_node trap W HW _ _ _ _ _ _ _ _ _ _ _ (addr h) (addr h) Hsc Hdec (node_at_live h Hr)).
    + change (Context_input_bytes (abi_ctx bs si)) with bs. change (Context_bump_allocator (abi_ctx bs si)) with tt.
      rewrite Ho. rewrite (child_encode _ _ _ _ _ _ _ Eg HR Ha). reflexivity.
    + intros e. change (Context_input_bytes (abi_ctx bs si)) with bs. change (Context_bump_allocator (abi_ctx bs si)) with tt.
      rewrite Ho. discriminate.
  - cbn [out_wf answer_wf]. intros Hc. cbn [bits_of_out bits_of_answer].
    exists (nb_error W c). split; [|reflexivity]. unfold abi_get_at_index.
    rewrite (cf_idx_node trap W HW _ _ _ _ _ _ _ _ _ _ _ (addr h) (addr h) Hsc Hdec (node_at_live h Hr)).
    + change (Context_input_bytes (abi_ctx bs si)) with bs. change (Context_bump_allocator (abi_ctx bs si)) with tt.
      rewrite Ho. reflexivity.
    + intros e. change (Context_input_bytes (abi_ctx bs si)) with bs. change (Context_bump_allocator (abi_ctx bs si)) with tt.
      rewrite Ho. intros He. injection He as <-. exact Hc.
  - contradiction.
Qed.

Lemma key_core h v a sc idx l (Hr : 0 < addr h < 2 ^ W) : g_node_of grs h = Some v -> obj_handle a = Some h -> sc < 2 ^ (2 * W) ->
  try_decode W sc = DOk (VObject (addr h) l) ->
  out_wf (snd (g_get_obj_key_at_index W trap bs grs (SAns a) idx)) ->
  exists b, abi_get_obj_key_at_index W trap addr inv bs si grs (fst (g_get_obj_key_at_index W trap bs grs (SAns a) idx)) sc idx = GOk b /\
            bits_of_out W addr (snd (g_get_obj_key_at_index W trap bs grs (SAns a) idx)) = Some b.
Proof.
  intros Eg Hh Hsc Hdec. rewrite g_get_key_at_index_node, Hh, Eg.
  pose proof (key_call W trap bs Hin grs Hsane Hsm h v idx Eg) as HC.
  assert (Ho : o_get_key_at_index W trap addr inv bs grs W (addr h) idx bs tt =
               match LazyValueRef_get_key_at_index W trap (gfuel bs) v idx bs with
               | GOk (_, ROk _) => ROk (addr (child h (SKey idx)))
               | GOk (_, RErr c) => RErr c
               | GPanic _ => RErr 0
               end).
  { unfold o_get_key_at_index. rewrite (o_node_live _ _ _ Eg). reflexivity. }
  revert HC Ho. destruct (LazyValueRef_get_key_at_index W trap (gfuel bs) v idx bs) as [[v' [x|c]]|s]; intros HC Ho; cbn [fst snd].
  - destruct HC as (HR & a' & Ha). intros _. unfold g_encode. rewrite Ha. cbn [out_of_res bits_of_out].
    exists (bits_of_answer W addr a'). split; [|reflexivity]. unfold abi_get_obj_key_at_index.
    rewrite (cf_key_node trap W HW _ _ _ _ _ _ _ _ _ _ _ (addr h) l (addr h) Hsc Hdec (node_at_live h Hr)).
    + change (Context_input_bytes (abi_ctx bs si)) with bs. change (Context_bump_allocator (abi_ctx bs si)) with tt.
      rewrite Ho. rewrite (child_encode _ _ _ _ _ _ _ Eg HR Ha). reflexivity.
    + intros e. change (Context_input_bytes (abi_ctx bs si)) with bs. change (Context_bump_allocator (abi_ctx bs si)) with tt.
      rewrite Ho. discriminate.
  - cbn [out_wf answer_wf]. intros Hc. cbn [bits_of_out bits_of_answer].
    exists (nb_error W c). split; [|reflexivity]. unfold abi_get_obj_key_at_index.
    rewrite (cf_key_node trap W HW _ _ _ _ _ _ _ _ _ _ _ (addr h) l (addr h) Hsc Hdec (node_at_live h Hr)).
    + change (Context_input_bytes (abi_ctx bs si)) with bs. change (Context_bump_allocator (abi_ctx bs si)) with tt.
      rewrite Ho. reflexivity.
    + intros e. change (Context_input_bytes (abi_ctx bs si)) with bs. change (Context_bump_allocator (abi_ctx bs si)) with tt.
      rewrite Ho. intros He. injection He as <-. exact Hc.
  - contradiction.
Qed.

Lemma prop_core h v a sc name ptr len l (Hr : 0 < addr h < 2 ^ W) : g_node_of grs h = Some v -> obj_handle a = Some h -> sc < 2 ^ (2 * W) ->
  try_decode W sc = DOk (VObject (addr h) l) ->
  out_wf (snd (g_get_obj_prop W trap bs grs (SAns a) name)) ->
  exists b, abi_get_obj_prop W trap addr inv bs si grs (fst (g_get_obj_prop W trap bs grs (SAns a) name)) sc name ptr len = GOk b /\
            bits_of_out W addr (snd (g_get_obj_prop W trap bs grs (SAns a) name)) = Some b.
Proof.
  intros Eg Hh Hsc Hdec. rewrite g_get_obj_prop_node, Hh, Eg.
  pose proof (prop_call W trap bs Hin grs Hsane Hsm h v name Eg) as HC.
  assert (Ho : o_get_prop W trap addr inv bs grs W (addr h) name bs tt =
               match LazyValueRef_get_object_property W trap (gfuel bs) v name bs with
               | GOk (v', ROk (Some _)) =>
                   match g_prop_index bs name v' with
                   | Some i => ROk (Some (addr (child h (SVal i))))
                   | None => RErr 0
                   end
               | GOk (_, ROk None) => ROk None
               | GOk (_, RErr c) => RErr c
               | GPanic _ => RErr 0
               end).
  { unfold o_get_prop. rewrite (o_node_live _ _ _ Eg). reflexivity. }
  revert HC Ho. destruct (LazyValueRef_get_object_property W trap (gfuel bs) v name bs) as [[v' [[x|]|c]]|s]; intros HC Ho; cbn [fst snd].
  - destruct HC as (i & Hi & HR & a' & Ha). rewrite Hi in *. cbn [fst snd]. intros _. unfold g_encode. rewrite Ha. cbn [out_of_res bits_of_out].
    exists (bits_of_answer W addr a'). split; [|reflexivity]. unfold abi_get_obj_prop.
    rewrite (cf_prop_node trap W HW _ _ _ _ _ _ _ _ _ _ _ _ (addr h) l (addr h) Hsc Hdec (node_at_live h Hr)).
    + change (Context_input_bytes (abi_ctx bs si)) with bs. change (Context_bump_allocator (abi_ctx bs si)) with tt. cbv beta.
      rewrite Ho. rewrite (child_encode _ _ _ _ _ _ _ Eg HR Ha). reflexivity.
    + intros e. change (Context_input_bytes (abi_ctx bs si)) with bs. change (Context_bump_allocator (abi_ctx bs si)) with tt. cbv beta.
      rewrite Ho. discriminate.
  - intros _. cbn [bits_of_out bits_of_answer].
    exists (nb_null W). split; [|reflexivity]. unfold abi_get_obj_prop.
    rewrite (cf_prop_node trap W HW _ _ _ _ _ _ _ _ _ _ _ _ (addr h) l (addr h) Hsc Hdec (node_at_live h Hr)).
    + change (Context_input_bytes (abi_ctx bs si)) with bs. change (Context_bump_allocator (abi_ctx bs si)) with tt. cbv beta.
      rewrite Ho. reflexivity.
    + intros e. change (Context_input_bytes (abi_ctx bs si)) with bs. change (Context_bump_allocator (abi_ctx bs si)) with tt. cbv beta.
      rewrite Ho. discriminate.
  - cbn [out_wf answer_wf]. intros Hc. cbn [bits_of_out bits_of_answer].
    exists (nb_error W c). split; [|reflexivity]. unfold abi_get_obj_prop.
    rewrite (cf_prop_node trap W HW _ _ _ _ _ _ _ _ _ _ _ _ (addr h) l (addr h) Hsc Hdec (node_at_live h Hr)).
    + change (Context_input_bytes (abi_ctx bs si)) with bs. change (Context_bump_allocator (abi_ctx bs si)) with tt. cbv beta.
      rewrite Ho. reflexivity.
    + intros e. change (Context_input_bytes (abi_ctx bs si)) with bs. change (Context_bump_allocator (abi_ctx bs si)) with tt. cbv beta.
      rewrite Ho. intros He. injection He as <-. exact Hc.
  - contradiction.
Qed.

End Core.

Lemma run_in bs : Forall (fun b => b < 256) bs -> lenN bs + 9 < 2 ^ W -> input_ok W bs.
Proof. intros Hb Hl. exact (conj Hb (conj Hl W32)). Qed.

Theorem abi_call_get_at_index : forall bs ops si k a idx, Forall (fun b => b < 256) bs -> lenN bs + 9 < 2 ^ W ->
  let st := g_run W trap bs ops in
  nthN (gouts st) k = Some (OVal a) -> answer_wf a -> answer_live (groots st) a ->
  let ro := g_get_at_index W trap bs (groots st) (SAns a) idx in
  out_wf (snd ro) ->
  exists b, abi_get_at_index W trap addr inv bs si (groots st) (fst ro) (bits_of_answer W addr a) idx = GOk b /\
            bits_of_out W addr (snd ro) = Some b.
Proof.
  intros bs ops si k a idx Hb Hlen st _ Hwf Hlive ro. subst ro.
  destruct (run_forest W trap bs ops Hb Hlen W32) as (Hsane & Hsm & _). fold st in Hsane, Hsm.
  pose proof (run_in bs Hb Hlen) as Hin. pose proof (bits_bound a Hwf) as Hsc.
  assert (Hother : forall d, try_decode W (bits_of_answer W addr a) = DOk d -> not_indexable d -> idx_handle a = None ->
            exists b, abi_get_at_index W trap addr inv bs si (groots st) (fst (g_get_at_index W trap bs (groots st) (SAns a) idx))
                        (bits_of_answer W addr a) idx = GOk b /\
                      bits_of_out W addr (snd (g_get_at_index W trap bs (groots st) (SAns a) idx)) = Some b).
  { intros d Hd Hn Hh. rewrite g_get_at_index_node, Hh. cbn [fst snd bits_of_out bits_of_answer].
    eexists. split; [|reflexivity]. unfold abi_get_at_index. exact (cf_idx_other trap W HW _ _ _ _ _ _ _ _ _ _ _ d Hsc Hd Hn). }
  destruct (answer_handle a) as [h|] eqn:Eh.
  - pose proof (wf_handle a h Hwf Eh) as Hr. assert (Hp : addr h < 2 ^ W) by lia.
    unfold answer_live in Hlive. rewrite Eh in Hlive.
    destruct (g_node_of (groots st) h) as [v|] eqn:Eg; [|contradiction].
    destruct a as [|b|bits|h' l|h' l|h' l|c]; cbn [answer_handle] in Eh; try discriminate; injection Eh as ->.
    + intros _. apply (Hother (VString (addr h) (N.min l (MAX_VALUE_LENGTH W)))); [apply decode_string; assumption|exact I|reflexivity].
    + apply (idx_core bs si Hin (groots st) Hsane Hsm h v _ _ idx Hr); [exact Eg|reflexivity|exact Hsc|].
      eexists. left. apply decode_array; assumption.
    + apply (idx_core bs si Hin (groots st) Hsane Hsm h v _ _ idx Hr); [exact Eg|reflexivity|exact Hsc|].
      eexists. right. apply decode_obj; assumption.
  - intros _. destruct (scalar_decode a Hwf Eh) as (d & Hd & Hs).
    apply (Hother d Hd (scalar_not_indexable d Hs)). destruct a; cbn [answer_handle] in Eh; try discriminate; reflexivity.
Qed.

Theorem abi_call_get_at_index_garbage : forall bs si roots g idx, g < 2 ^ (2 * W) -> try_decode W g = DErr ->
  let ro := g_get_at_index W trap bs roots SGarbage idx in
  abi_get_at_index W trap addr inv bs si roots (fst ro) g idx = GOk (nb_error W E_Read) /\
  bits_of_out W addr (snd ro) = Some (nb_error W E_Read).
Proof.
  intros bs si roots g idx Hg Hd ro. subst ro. split; [|reflexivity].
  unfold abi_get_at_index. exact (cf_idx_garbage trap W HW _ _ _ _ _ _ _ _ _ _ _ Hg Hd).
Qed.

(** ** get_obj_key_at_index *)
Theorem abi_call_get_obj_key_at_index : forall bs ops si k a idx, Forall (fun b => b < 256) bs -> lenN bs + 9 < 2 ^ W ->
  let st := g_run W trap bs ops in
  nthN (gouts st) k = Some (OVal a) -> answer_wf a -> answer_live (groots st) a ->
  let ro := g_get_obj_key_at_index W trap bs (groots st) (SAns a) idx in
  out_wf (snd ro) ->
  exists b, abi_get_obj_key_at_index W trap addr inv bs si (groots st) (fst ro) (bits_of_answer W addr a) idx = GOk b /\
            bits_of_out W addr (snd ro) = Some b.
Proof.
  intros bs ops si k a idx Hb Hlen st _ Hwf Hlive ro. subst ro.
  destruct (run_forest W trap bs ops Hb Hlen W32) as (Hsane & Hsm & _). fold st in Hsane, Hsm.
  pose proof (run_in bs Hb Hlen) as Hin. pose proof (bits_bound a Hwf) as Hsc.
  assert (Hother : forall d, try_decode W (bits_of_answer W addr a) = DOk d -> not_object d -> obj_handle a = None ->
            exists b, abi_get_obj_key_at_index W trap addr inv bs si (groots st)
                        (fst (g_get_obj_key_at_index W trap bs (groots st) (SAns a) idx)) (bits_of_answer W addr a) idx = GOk b /\
                      bits_of_out W addr (snd (g_get_obj_key_at_index W trap bs (groots st) (SAns a) idx)) = Some b).
  { intros d Hd Hn Hh. rewrite g_get_key_at_index_node, Hh. cbn [fst snd bits_of_out bits_of_answer].
    eexists. split; [|reflexivity]. unfold abi_get_obj_key_at_index. exact (cf_key_other trap W HW _ _ _ _ _ _ _ _ _ _ _ d Hsc Hd Hn). }
  destruct (answer_handle a) as [h|] eqn:Eh.
  - pose proof (wf_handle a h Hwf Eh) as Hr. assert (Hp : addr h < 2 ^ W) by lia.
    unfold answer_live in Hlive. rewrite Eh in Hlive.
    destruct (g_node_of (groots st) h) as [v|] eqn:Eg; [|contradiction].
    destruct a as [|b|bits|h' l|h' l|h' l|c]; cbn [answer_handle] in Eh; try discriminate; injection Eh as ->.
    + intros _. apply (Hother (VString (addr h) (N.min l (MAX_VALUE_LENGTH W)))); [apply decode_string; assumption|exact I|reflexivity].
    + intros _. apply (Hother (VArray (addr h) (N.min l (MAX_VALUE_LENGTH W)))); [apply decode_array; assumption|exact I|reflexivity].
    + apply (key_core bs si Hin (groots st) Hsane Hsm h v _ _ idx (N.min l (MAX_VALUE_LENGTH W)) Hr); [exact Eg|reflexivity|exact Hsc|].
      apply decode_obj; assumption.
  - intros _. destruct (scalar_decode a Hwf Eh) as (d & Hd & Hs).
    apply (Hother d Hd (scalar_not_object d Hs)). destruct a; cbn [answer_handle] in Eh; try discriminate; reflexivity.
Qed.

Theorem abi_call_get_obj_key_at_index_garbage : forall bs si roots g idx, g < 2 ^ (2 * W) -> try_decode W g = DErr ->
  let ro := g_get_obj_key_at_index W trap bs roots SGarbage idx in
  abi_get_obj_key_at_index W trap addr inv bs si roots (fst ro) g idx = GOk (nb_error W E_Read) /\
  bits_of_out W addr (snd ro) = Some (nb_error W E_Read).
Proof.
  intros bs si roots g idx Hg Hd ro. subst ro. split; [|reflexivity].
  unfold abi_get_obj_key_at_index. exact (cf_key_garbage trap W HW _ _ _ _ _ _ _ _ _ _ _ Hg Hd).
Qed.

(** ** get_obj_prop: [name] is what the guest memory holds at [ptr .. ptr + len] *)
Theorem abi_call_get_obj_prop : forall bs ops si k a name ptr len, Forall (fun b => b < 256) bs -> lenN bs + 9 < 2 ^ W ->
  let st := g_run W trap bs ops in
  nthN (gouts st) k = Some (OVal a) -> answer_wf a -> answer_live (groots st) a ->
  let ro := g_get_obj_prop W trap bs (groots st) (SAns a) name in
  out_wf (snd ro) ->
  exists b, abi_get_obj_prop W trap addr inv bs si (groots st) (fst ro) (bits_of_answer W addr a) name ptr len = GOk b /\
            bits_of_out W addr (snd ro) = Some b.
Proof.
  intros bs ops si k a name ptr len Hb Hlen st _ Hwf Hlive ro. subst ro.
  destruct (run_forest W trap bs ops Hb Hlen W32) as (Hsane & Hsm & _). fold st in Hsane, Hsm.
  pose proof (run_in bs Hb Hlen) as Hin. pose proof (bits_bound a Hwf) as Hsc.
  assert (Hother : forall d, try_decode W (bits_of_answer W addr a) = DOk d -> not_object d -> obj_handle a = None ->
            exists b, abi_get_obj_prop W trap addr inv bs si (groots st)
                        (fst (g_get_obj_prop W trap bs (groots st) (SAns a) name)) (bits_of_answer W addr a) name ptr len = GOk b /\
                      bits_of_out W addr (snd (g_get_obj_prop W trap bs (groots st) (SAns a) name)) = Some b).
  { intros d Hd Hn Hh. rewrite g_get_obj_prop_node, Hh. cbn [fst snd bits_of_out bits_of_answer].
    eexists. split; [|reflexivity]. unfold abi_get_obj_prop. exact (cf_prop_other trap W HW _ _ _ _ _ _ _ _ _ _ _ _ d Hsc Hd Hn). }
  destruct (answer_handle a) as [h|] eqn:Eh.
  - pose proof (wf_handle a h Hwf Eh) as Hr. assert (Hp : addr h < 2 ^ W) by lia.
    unfold answer_live in Hlive. rewrite Eh in Hlive.
    destruct (g_node_of (groots st) h) as [v|] eqn:Eg; [|contradiction].
    destruct a as [|b|bits|h' l|h' l|h' l|c]; cbn [answer_handle] in Eh; try discriminate; injection Eh as ->.
    + intros _. apply (Hother (VString (addr h) (N.min l (MAX_VALUE_LENGTH W)))); [apply decode_string; assumption|exact I|reflexivity].
    + intros _. apply (Hother (VArray (addr h) (N.min l (MAX_VALUE_LENGTH W)))); [apply decode_array; assumption|exact I|reflexivity].
    + apply (prop_core bs si Hin (groots st) Hsane Hsm h v _ _ name ptr len (N.min l (MAX_VALUE_LENGTH W)) Hr); [exact Eg|reflexivity|exact Hsc|].
      apply decode_obj; assumption.
  - intros _. destruct (scalar_decode a Hwf Eh) as (d & Hd & Hs).
    apply (Hother d Hd (scalar_not_object d Hs)). destruct a; cbn [answer_handle] in Eh; try discriminate; reflexivity.
Qed.

Theorem abi_call_get_obj_prop_garbage : forall bs si roots g name ptr len, g < 2 ^ (2 * W) -> try_decode W g = DErr ->
  let ro := g_get_obj_prop W trap bs roots SGarbage name in
  abi_get_obj_prop W trap addr inv bs si roots (fst ro) g name ptr len = GOk (nb_error W E_Decode) /\
  bits_of_out W addr (snd ro) = Some (nb_error W E_Decode).
Proof.
  intros bs si roots g name ptr len Hg Hd ro. subst ro. split; [|reflexivity].
  unfold abi_get_obj_prop. exact (cf_prop_garbage trap W HW _ _ _ _ _ _ _ _ _ _ _ _ Hg Hd).
Qed.

End AbiCallEq.

(** * Liveness of a STRING answer follows from reachability (the invariant [RInv] of Read/ReadRobust.v keeps string nodes) *)
Theorem answer_live_str : forall W trap bs ops k h n, W = 32 \/ W = 64 -> Forall (fun b => b < 256) bs -> lenN bs + 9 < 2 ^ W ->
  let st := g_run W trap bs ops in
  nthN (gouts st) k = Some (OVal (AStr h n)) -> answer_live (groots st) (AStr h n).
Proof.
  intros W trap bs ops k h n HW Hb Hlen st Hk.
  assert (H32 : 32 <= W) by (destruct HW as [-> | ->]; discriminate).
  destruct (run_forest W trap bs ops Hb Hlen H32) as (_ & _ & Hstr). fold st in Hstr.
  pose proof (proj1 (Forall_forall _ _) Hstr _ (r_nthN_In _ _ _ Hk)) as Hs. cbn [str_ok] in Hs.
  destruct Hs as [ptr Hp]. unfold answer_live. cbn [answer_handle]. rewrite conv_node_of in Hp.
  destruct (g_node_of (groots st) h); [discriminate|discriminate].
Qed.

(** * Non-vacuity: a toy address map (an injective numbering of paths with a computable inverse) on a concrete document *)
Module ToyAddr.
  Definition put (n : N) (p : positive) : positive := N.iter n xO (xI p).
  Fixpoint enc_list (l : list N) : positive := match l with [] => xH | n :: t => put n (enc_list t) end.
  Fixpoint dec_aux (acc : N) (p : positive) : list N :=
    match p with xO q => dec_aux (acc + 1) q | xI q => acc :: dec_aux 0 q | xH => [] end.
  Definition step_code (s : pstep) : list N := match s with SIdx i => [0; i] | SKey i => [1; i] | SVal i => [2; i] end.
  Definition flat (h : handle) : list N := fst h :: flat_map step_code (snd h).
  Fixpoint unsteps (l : list N) : option (list pstep) :=
    match l with
    | [] => Some []
    | k :: i :: t =>
        match unsteps t with
        | Some p => Some ((if k =? 0 then SIdx i else if k =? 1 then SKey i else SVal i) :: p)
        | None => None
        end
    | _ => None
    end.
  Definition addr (h : handle) : N := Npos (enc_list (flat h)).
  Definition inv (n : N) : option handle :=
    match n with
    | N0 => None
    | Npos p => match dec_aux 0 p with r :: t => option_map (pair r) (unsteps t) | [] => None end
    end.

  Lemma dec_put n : forall acc p, dec_aux acc (put n p) = (acc + n) :: dec_aux 0 p.
  Proof.
    unfold put. induction n as [|n IH] using N.peano_ind; intros acc p.
    - cbn [N.iter dec_aux]. rewrite N.add_0_r. reflexivity.
    - rewrite N.iter_succ. cbn [dec_aux]. rewrite IH. f_equal. lia.
  Qed.
  Lemma dec_enc l : dec_aux 0 (enc_list l) = l.
  Proof. induction l as [|n l IH]; cbn [enc_list]; [reflexivity|]. rewrite dec_put, IH, N.add_0_l. reflexivity. Qed.
  Lemma unsteps_flat p : unsteps (flat_map step_code p) = Some p.
  Proof. induction p as [|[i|i|i] p IH]; [reflexivity| | |]; cbn [flat_map step_code app unsteps]; rewrite IH; reflexivity. Qed.
  Lemma inv_addr h : inv (addr h) = Some h.
  Proof. unfold inv, addr, flat. rewrite dec_enc, unsteps_flat. destruct h; reflexivity. Qed.
End ToyAddr.

(** { "a": [5, "b"], "b": true } ([rdoc], [rops] of Read/GenRunEq.v): answer 0 is the root object, answer 2 the array under "a",
    answer 3 the string "b" in it *)
Definition toy_st := g_run 32 true rdoc rops.
Definition toy_si : StringInterner := mkStringInterner [] [].

Example abi_call_toy_values :
  nthN (gouts toy_st) 0 = Some (OVal (AObj (0, []) 2)) /\
  nthN (gouts toy_st) 2 = Some (OVal (AArr (0, [SVal 0]) 2)) /\
  (* the addresses of the toy map *)
  ToyAddr.addr (0, []) = 3 /\ ToyAddr.addr (0, [SVal 0]) = 57 /\ ToyAddr.addr (0, [SVal 0; SIdx 1]) = 441 /\
  (* index 0 of the root object: the array, boxed with the address of the child *)
  (let ro := g_get_at_index 32 true rdoc (groots toy_st) (SAns (AObj (0, []) 2)) 0 in
   abi_get_at_index 32 true ToyAddr.addr ToyAddr.inv rdoc toy_si (groots toy_st) (fst ro) (nb_obj 32 3 2) 0 = GOk (nb_array 32 57 2)) /\
  (* element 1 of that array: the string *)
  (let ro := g_get_at_index 32 true rdoc (groots toy_st) (SAns (AArr (0, [SVal 0]) 2)) 1 in
   abi_get_at_index 32 true ToyAddr.addr ToyAddr.inv rdoc toy_si (groots toy_st) (fst ro) (nb_array 32 57 2) 1 = GOk (nb_string 32 441 1)) /\
  (* out of bounds, key at index, property by name (found / absent), length *)
  (let ro := g_get_at_index 32 true rdoc (groots toy_st) (SAns (AArr (0, [SVal 0]) 2)) 7 in
   abi_get_at_index 32 true ToyAddr.addr ToyAddr.inv rdoc toy_si (groots toy_st) (fst ro) (nb_array 32 57 2) 7 = GOk (nb_error 32 E_IndexOOB)) /\
  (let ro := g_get_obj_key_at_index 32 true rdoc (groots toy_st) (SAns (AObj (0, []) 2)) 1 in
   abi_get_obj_key_at_index 32 true ToyAddr.addr ToyAddr.inv rdoc toy_si (groots toy_st) (fst ro) (nb_obj 32 3 2) 1 =
   GOk (nb_string 32 (ToyAddr.addr (0, [SKey 1])) 1)) /\
  (let ro := g_get_obj_prop 32 true rdoc (groots toy_st) (SAns (AObj (0, []) 2)) [0x62] in
   abi_get_obj_prop 32 true ToyAddr.addr ToyAddr.inv rdoc toy_si (groots toy_st) (fst ro) (nb_obj 32 3 2) [0x62] 4096 1 = GOk (nb_bool 32 true)) /\
  (let ro := g_get_obj_prop 32 true rdoc (groots toy_st) (SAns (AObj (0, []) 2)) [0x63] in
   abi_get_obj_prop 32 true ToyAddr.addr ToyAddr.inv rdoc toy_si (groots toy_st) (fst ro) (nb_obj 32 3 2) [0x63] 4096 1 = GOk (nb_null 32)) /\
  abi_get_val_len 32 true ToyAddr.addr ToyAddr.inv rdoc (groots toy_st) (nb_array 32 57 2) = GOk 2.
Proof. vm_compute. repeat split; reflexivity. Qed.

(** the hypotheses of the theorems hold there, and the theorem instantiates *)
Example abi_call_get_at_index_toy :
  let ro := g_get_at_index 32 true rdoc (groots toy_st) (SAns (AObj (0, []) 2)) 0 in
  exists b, abi_get_at_index 32 true ToyAddr.addr ToyAddr.inv rdoc toy_si (groots toy_st) (fst ro)
              (bits_of_answer 32 ToyAddr.addr (AObj (0, []) 2)) 0 = GOk b /\
            bits_of_out 32 ToyAddr.addr (snd ro) = Some b.
Proof.
  destruct rdoc_ok as (A & B & _).
  apply (abi_call_get_at_index true 32 (or_introl eq_refl) ToyAddr.addr ToyAddr.inv ToyAddr.inv_addr rdoc rops toy_si 0 (AObj (0, []) 2) 0 A B).
  - vm_compute. reflexivity.
  - vm_compute. split; reflexivity.
  - vm_compute. discriminate.
  - vm_compute. exact I.
Qed.

Example abi_call_get_obj_prop_toy :
  let ro := g_get_obj_prop 32 true rdoc (groots toy_st) (SAns (AObj (0, []) 2)) [0x61] in
  exists b, abi_get_obj_prop 32 true ToyAddr.addr ToyAddr.inv rdoc toy_si (groots toy_st) (fst ro)
              (bits_of_answer 32 ToyAddr.addr (AObj (0, []) 2)) [0x61] 4096 1 = GOk b /\
            bits_of_out 32 ToyAddr.addr (snd ro) = Some b.
Proof.
  destruct rdoc_ok as (A & B & _).
  apply (abi_call_get_obj_prop true 32 (or_introl eq_refl) ToyAddr.addr ToyAddr.inv ToyAddr.inv_addr rdoc rops toy_si 0 (AObj (0, []) 2) [0x61] 4096 1 A B).
  - vm_compute. reflexivity.
  - vm_compute. split; reflexivity.
  - vm_compute. discriminate.
  - vm_compute. exact I.
Qed.

Print Assumptions abi_call_get_val_len.
Print Assumptions abi_call_get_val_len_garbage.
Print Assumptions abi_call_get_at_index.
Print Assumptions abi_call_get_at_index_garbage.
Print Assumptions abi_call_get_obj_key_at_index.
Print Assumptions abi_call_get_obj_key_at_index_garbage.
Print Assumptions abi_call_get_obj_prop.
Print Assumptions abi_call_get_obj_prop_garbage.
Print Assumptions answer_live_str.
Print Assumptions ToyAddr.inv_addr.
Print Assumptions abi_call_toy_values.
Print Assumptions abi_call_get_at_index_toy.
Print Assumptions abi_call_get_obj_prop_toy.
