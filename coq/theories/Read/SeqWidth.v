(** The pointer width [W] and the overflow mode [trap] are irrelevant to the sequential decoder
    (hence, by C08_value, to the reader) as soon as the input fits the pointer width: they only
    occur in the end-of-string addition of the header decoder, which cannot overflow then. *)
From Coq Require Import NArith ZArith Lia List Bool.
From SFV Require Import Base.Bytes Base.F64 Read.Lazy Read.ReadRun Read.ReadSpec Read.ReadSafe Read.SeqSpec Read.SeqFacts Read.SeqProofs.
Import ListNotations.
Open Scope N_scope.

Lemma skip_O W trap bs pos : skip W trap bs 0 pos = OutOfFuel. Proof. reflexivity. Qed.
Lemma skip_elems_O W trap bs n pos : skip_elems W trap bs 0 n pos = OutOfFuel. Proof. reflexivity. Qed.
Lemma skip_pairs_O W trap bs n pos : skip_pairs W trap bs 0 n pos = OutOfFuel. Proof. reflexivity. Qed.
Lemma seq_find_O W trap bs strict name n i pos : seq_find W trap bs strict 0 name n i pos = OutOfFuel. Proof. reflexivity. Qed.

Ltac same := match goal with |- ?x = ?x => reflexivity end.

Section Width.
Variables (W W' : N) (trap trap' : bool) (bs : list N).
Hypothesis HW : lenN bs < 2 ^ W.
Hypothesis HW' : lenN bs < 2 ^ W'.

Lemma str_at_width ptr len : str_at W trap bs ptr len = str_at W' trap' bs ptr len.
Proof.
  unfold str_at, add_w. destruct (N.ltb_spec (lenN bs) (ptr + len)); [reflexivity|].
  destruct (N.ltb_spec (ptr + len) (2 ^ W)); [|lia]. destruct (N.ltb_spec (ptr + len) (2 ^ W')); [|lia]. reflexivity.
Qed.

Lemma hdr_width pos : hdr W trap bs pos = hdr W' trap' bs pos.
Proof.
  unfold hdr, lz_new. destruct (nthN bs pos) as [m|]; [|reflexivity].
  repeat match goal with |- context [if ?c then _ else _] => destruct c end;
    try reflexivity; try apply str_at_width;
    match goal with |- context [read_be ?a ?b ?c] => destruct (read_be a b c) end; try reflexivity; apply str_at_width.
Qed.

Lemma key_at_width pos : key_at W trap bs pos = key_at W' trap' bs pos.
Proof. unfold key_at, new_key. change (lz_new W trap bs pos) with (hdr W trap bs pos). rewrite hdr_width. reflexivity. Qed.

Local Opaque SeqSpec.skip SeqSpec.skip_elems SeqSpec.skip_pairs SeqSpec.seq_find SeqSpec.hdr SeqSpec.key_at lz_new new_key.

Lemma skip_width_all f :
  (forall pos, skip W trap bs f pos = skip W' trap' bs f pos) /\
  (forall n pos, skip_elems W trap bs f n pos = skip_elems W' trap' bs f n pos) /\
  (forall n pos, skip_pairs W trap bs f n pos = skip_pairs W' trap' bs f n pos).
Proof.
  induction f as [|f (IHs & IHe & IHp)]; [repeat split; intros; rewrite ?skip_O, ?skip_elems_O, ?skip_pairs_O; reflexivity|].
  split; [|split].
  - intros pos. rewrite !skip_S, hdr_width. destruct (hdr W' trap' bs pos) as [[v e]|c|s|].
    2,3,4: reflexivity.
    destruct v as [| | | |len es p|len es p].
    1,2,3,4: reflexivity.
    + apply IHe.
    + apply IHp.
  - intros n pos. rewrite !skip_elems_S, IHs. destruct (n =? 0); [reflexivity|].
    destruct (skip W' trap' bs f pos); try same. apply IHe.
  - intros n pos. rewrite !skip_pairs_S, key_at_width. destruct (n =? 0); [reflexivity|].
    destruct (key_at W' trap' bs pos) as [[k ke]|c|s|]; try same. rewrite IHs.
    destruct (skip W' trap' bs f ke); try same. apply IHp.
Qed.

Variable strict : bool.

Lemma pair_at_width pos : pair_at W trap bs strict pos = pair_at W' trap' bs strict pos.
Proof.
  unfold pair_at. rewrite key_at_width. destruct (key_at W' trap' bs pos) as [[k ke]|c|s|]; try same.
  rewrite hdr_width. reflexivity.
Qed.

Lemma step_pos_width f pos s : step_pos W trap bs strict f pos s = step_pos W' trap' bs strict f pos s.
Proof.
  unfold step_pos. rewrite hdr_width. destruct (hdr W' trap' bs pos) as [[v e]|c|s0|]; try same.
  destruct s, v; try same; destruct (len <=? i); try same.
  - apply skip_width_all.
  - rewrite (proj2 (proj2 (skip_width_all f))). destruct (skip_pairs W' trap' bs f i endp); try same.
    rewrite pair_at_width. reflexivity.
  - rewrite (proj2 (proj2 (skip_width_all f))). destruct (skip_pairs W' trap' bs f i endp); try same.
    rewrite pair_at_width. reflexivity.
Qed.

Lemma seq_pos_width f : forall p pos, seq_pos W trap bs strict f pos p = seq_pos W' trap' bs strict f pos p.
Proof.
  induction p as [|s p IH]; intros pos; [reflexivity|]. cbn [seq_pos]. rewrite step_pos_width.
  destruct (step_pos W' trap' bs strict f pos s); try same. apply IH.
Qed.

Lemma seq_at_width f pos p : seq_at W trap bs strict f pos p = seq_at W' trap' bs strict f pos p.
Proof.
  unfold seq_at. rewrite seq_pos_width. destruct (seq_pos W' trap' bs strict f pos p); try same.
  rewrite hdr_width. reflexivity.
Qed.

Lemma seq_find_width name : forall f n i pos,
  seq_find W trap bs strict f name n i pos = seq_find W' trap' bs strict f name n i pos.
Proof.
  induction f as [|f IH]; intros n i pos; [rewrite !seq_find_O; reflexivity|]. rewrite !seq_find_S, pair_at_width.
  destruct (n =? 0); [reflexivity|]. destruct (pair_at W' trap' bs strict pos) as [[k ke]|c|s|]; try same.
  destruct k; try same. destruct (beq (sub bs ptr len) name); [reflexivity|]. destruct (n =? 1); [reflexivity|].
  rewrite (proj1 (skip_width_all f)). destruct (skip W' trap' bs f ke); try same. apply IH.
Qed.

Lemma child_ans_width f h q s : child_ans W trap bs strict f h q s = child_ans W' trap' bs strict f h q s.
Proof.
  unfold child_ans. rewrite step_pos_width. destruct (step_pos W' trap' bs strict f q s); try same.
  rewrite hdr_width. reflexivity.
Qed.

Lemma seq_exec_width f prev k op : seq_exec W trap bs strict f prev k op = seq_exec W' trap' bs strict f prev k op.
Proof.
  destruct op as [|sc name|sc i|sc i|sc|sc]; cbn [seq_exec].
  - rewrite hdr_width. reflexivity.
  - destruct (sscope prev sc) as [[| | |h n|h n|h n|e]|]; try same. rewrite seq_pos_width.
    destruct (seq_pos W' trap' bs strict f 0 (snd h)); try same. rewrite hdr_width.
    destruct (hdr W' trap' bs a) as [[[| | | |len es p|len es p] e]|c|s|]; try same.
    rewrite seq_find_width. destruct (seq_find W' trap' bs strict f name len 0 p) as [[i|]|c|s|]; try same.
    rewrite child_ans_width. reflexivity.
  - destruct (sscope prev sc) as [[| | |h n|h n|h n|e]|]; try same; rewrite seq_pos_width;
      (destruct (seq_pos W' trap' bs strict f 0 (snd h)); try same); rewrite hdr_width;
      (destruct (hdr W' trap' bs a) as [[[| | | |len es p|len es p] e]|c|s|]; try same);
      rewrite child_ans_width; reflexivity.
  - destruct (sscope prev sc) as [[| | |h n|h n|h n|e]|]; try same. rewrite seq_pos_width.
    destruct (seq_pos W' trap' bs strict f 0 (snd h)); try same. rewrite hdr_width.
    destruct (hdr W' trap' bs a) as [[[| | | |len es p|len es p] e]|c|s|]; try same.
    rewrite child_ans_width. reflexivity.
  - destruct (sscope prev sc) as [[| | |h n|h n|h n|e]|]; try same; rewrite seq_at_width; reflexivity.
  - destruct (sscope prev sc) as [[| | |h n|h n|h n|e]|]; try same. rewrite seq_at_width. reflexivity.
Qed.

End Width.

Theorem seq_run_width W W' trap trap' bs ops : lenN bs < 2 ^ W -> lenN bs < 2 ^ W' ->
  seq_run W trap bs ops = seq_run W' trap' bs ops.
Proof.
  intros HW HW'. unfold seq_run.
  assert (H : forall ops st, fold_left (seq_step W trap bs true (seq_fuel bs)) ops st =
                             fold_left (seq_step W' trap' bs true (seq_fuel bs)) ops st).
  { clear ops. induction ops as [|op ops IH]; intros st; cbn [fold_left]; [same|].
    replace (seq_step W trap bs true (seq_fuel bs) st op) with (seq_step W' trap' bs true (seq_fuel bs) st op); [apply IH|].
    unfold seq_step. rewrite (seq_exec_width W W' trap trap' bs HW HW'). same. }
  rewrite H. same.
Qed.

(** ... hence the reader's answers do not depend on the pointer width / overflow mode either *)
Theorem run_width W W' trap trap' bs ops : lenN bs < 2 ^ W -> lenN bs < 2 ^ W' -> Forall (fun b => b < 256) bs ->
  outs (run W trap (fuel_bs bs) bs ops) = outs (run W' trap' (fuel_bs bs) bs ops).
Proof.
  intros HW HW' Hb. rewrite (SeqProofs.C08_value W trap bs ops HW Hb), (SeqProofs.C08_value W' trap' bs ops HW' Hb).
  apply seq_run_width; assumption.
Qed.
