(** Model of the lazy MessagePack reader: provider/src/read/lazy_value_ref.rs and the exported
    functions of provider/src/read.rs, transcribed by hand (same order of checks, mutations kept on
    the error path, every panic site explicit).  Handles (raw addresses of arena nodes in the
    Rust code) are modelled as PATHS into a forest of lazy nodes: the model assumes what the code
    arranges by pre-sizing the children vectors in a never-freeing arena (addresses never move).

    Not modelled: allocation failure of [Vec::with_capacity_in(len)] and stack depth of the
    recursion (runtime facts, see DESIGN.md); forged scope values whose pointer field is not a
    handle previously returned (undefined behaviour in the Rust code, outside every property). *)
From Coq Require Import NArith ZArith List Bool.
From SFV Require Import Base.Bytes Base.F64 Gen.NanBoxGen.
Import ListNotations.
Open Scope N_scope.

(** * Results *)
Inductive res (A : Type) :=
| Ok (a : A)
| Err (code : N)          (* ErrorCode discriminant *)
| Panic (site : N)
| OutOfFuel.
Arguments Ok {A}. Arguments Err {A}. Arguments Panic {A}. Arguments OutOfFuel {A}.

(** ErrorCode discriminants (regenerated; constant in W) *)
Definition E_Decode : N := EC_DecodeError 0.
Definition E_NotAnObject : N := EC_NotAnObject 0.
Definition E_Read : N := EC_ReadError 0.
Definition E_IndexOOB : N := EC_IndexOutOfBounds 0.
Definition E_NotIndexable : N := EC_NotIndexable 0.

(** Panic sites *)
Definition P_nan_number : N := 10.     (* core read.rs NanBox::number: assert!(!val.is_nan()) *)
Definition P_key_slice : N := 11.      (* lazy_value_ref.rs get_property: &bytes[ptr..ptr+len] *)
Definition P_expect_end : N := 12.     (* finish_processing: .expect("`new` or `finish_processing` must return ...") *)
Definition P_str_addr_slice : N := 13. (* get_utf8_str_addr: bytes[*ptr..] *)
Definition P_add_overflow : N := 14.   (* cursor.position + len *)
Definition P_sub_overflow : N := 15.   (* self.len - self.processed_elements.len() *)

(** * Lazy nodes *)
Inductive lz :=
| LNull
| LBool (b : bool)
| LNum (bits : N)
| LStr (ptr len : N)
| LArr (len : N) (elems : list lz) (endp : N)
| LObj (len : N) (elems : list (lz * lz)) (endp : N).

Section W.
Variable W : N.        (* usize::BITS *)
Variable trap : bool.  (* overflow checks on *)

Definition add_w (a b : N) : res N :=
  let r := a + b in if r <? 2 ^ W then Ok r else if trap then Panic P_add_overflow else Ok (r mod 2 ^ W).

(** ** Cursor reads: [Cursor::read_uN] at [pos]: bounds check [pos + k > length] then big-endian. *)
Definition read_be (bs : list N) (pos : N) (k : nat) : res N :=
  if lenN bs <? pos + N.of_nat k then Err E_Read else Ok (be_val (sub bs pos (N.of_nat k))).

Definition num (z : Z) : lz := LNum (of_int z).

(** [LazyValueRef::new_string]: the string extent is checked against the input (by subtraction in
    the Rust code, so the check itself cannot overflow) -- repair of finding F2. NaN floats are a
    ReadError ([new_number]) -- repair of finding F1. *)
Definition str_at (bs : list N) (ptr len : N) : res (lz * option N) :=
  if lenN bs <? ptr + len then Err E_Read
  else
  match add_w ptr len with
  | Ok e => Ok (LStr ptr len, Some e)
  | Err c => Err c | Panic s => Panic s | OutOfFuel => OutOfFuel
  end.

(** ** [LazyValueRef::new(bytes, position, bump)] *)
Definition lz_new (bs : list N) (pos : N) : res (lz * option N) :=
  match nthN bs pos with
  | None => Err E_Read                                      (* read_marker: position >= length *)
  | Some m =>
    let p := pos + 1 in
    if m <? 0x80 then Ok (num (Z.of_N m), Some p)                              (* FixPos *)
    else if m <? 0x90 then Ok (LObj (m - 0x80) [] p, None)                     (* FixMap *)
    else if m <? 0xa0 then Ok (LArr (m - 0x90) [] p, None)                     (* FixArray *)
    else if m <? 0xc0 then str_at bs p (m - 0xa0)                                 (* FixStr *)
    else if m =? 0xc0 then Ok (LNull, Some p)
    else if m =? 0xc2 then Ok (LBool false, Some p)
    else if m =? 0xc3 then Ok (LBool true, Some p)
    else if m =? 0xca then                                                     (* F32 *)
      match read_be bs p 4 with Ok v => if is_nan (of_f32 v) then Err E_Read else Ok (LNum (of_f32 v), Some (p + 4)) | Err c => Err c | Panic s => Panic s | OutOfFuel => OutOfFuel end
    else if m =? 0xcb then                                                     (* F64 *)
      match read_be bs p 8 with Ok v => if is_nan v then Err E_Read else Ok (LNum v, Some (p + 8)) | Err c => Err c | Panic s => Panic s | OutOfFuel => OutOfFuel end
    else if m =? 0xcc then
      match read_be bs p 1 with Ok v => Ok (num (Z.of_N v), Some (p + 1)) | Err c => Err c | Panic s => Panic s | OutOfFuel => OutOfFuel end
    else if m =? 0xcd then
      match read_be bs p 2 with Ok v => Ok (num (Z.of_N v), Some (p + 2)) | Err c => Err c | Panic s => Panic s | OutOfFuel => OutOfFuel end
    else if m =? 0xce then
      match read_be bs p 4 with Ok v => Ok (num (Z.of_N v), Some (p + 4)) | Err c => Err c | Panic s => Panic s | OutOfFuel => OutOfFuel end
    else if m =? 0xcf then
      match read_be bs p 8 with Ok v => Ok (num (Z.of_N v), Some (p + 8)) | Err c => Err c | Panic s => Panic s | OutOfFuel => OutOfFuel end
    else if m =? 0xd0 then
      match read_be bs p 1 with Ok v => Ok (num (to_signed 1 v), Some (p + 1)) | Err c => Err c | Panic s => Panic s | OutOfFuel => OutOfFuel end
    else if m =? 0xd1 then
      match read_be bs p 2 with Ok v => Ok (num (to_signed 2 v), Some (p + 2)) | Err c => Err c | Panic s => Panic s | OutOfFuel => OutOfFuel end
    else if m =? 0xd2 then
      match read_be bs p 4 with Ok v => Ok (num (to_signed 4 v), Some (p + 4)) | Err c => Err c | Panic s => Panic s | OutOfFuel => OutOfFuel end
    else if m =? 0xd3 then
      match read_be bs p 8 with Ok v => Ok (num (to_signed 8 v), Some (p + 8)) | Err c => Err c | Panic s => Panic s | OutOfFuel => OutOfFuel end
    else if m =? 0xd9 then                                                     (* Str8 *)
      match read_be bs p 1 with Ok l => str_at bs (p + 1) l | Err c => Err c | Panic s => Panic s | OutOfFuel => OutOfFuel end
    else if m =? 0xda then
      match read_be bs p 2 with Ok l => str_at bs (p + 2) l | Err c => Err c | Panic s => Panic s | OutOfFuel => OutOfFuel end
    else if m =? 0xdb then
      match read_be bs p 4 with Ok l => str_at bs (p + 4) l | Err c => Err c | Panic s => Panic s | OutOfFuel => OutOfFuel end
    else if m =? 0xdc then                                                     (* Array16 *)
      match read_be bs p 2 with Ok l => Ok (LArr l [] (p + 2), None) | Err c => Err c | Panic s => Panic s | OutOfFuel => OutOfFuel end
    else if m =? 0xdd then
      match read_be bs p 4 with Ok l => Ok (LArr l [] (p + 4), None) | Err c => Err c | Panic s => Panic s | OutOfFuel => OutOfFuel end
    else if m =? 0xde then                                                     (* Map16 *)
      match read_be bs p 2 with Ok l => Ok (LObj l [] (p + 2), None) | Err c => Err c | Panic s => Panic s | OutOfFuel => OutOfFuel end
    else if m =? 0xdf then
      match read_be bs p 4 with Ok l => Ok (LObj l [] (p + 4), None) | Err c => Err c | Panic s => Panic s | OutOfFuel => OutOfFuel end
    else if 0xe0 <=? m then Ok (num (Z.of_N m - 256), Some p)                  (* FixNeg *)
    else Err E_Read                                                            (* 0xc1, bin, ext, fixext *)
  end.

(** ** Helpers on the processed prefix *)
Definition last_opt {A} (l : list A) : option A :=
  match rev l with [] => None | x :: _ => Some x end.
Definition upd_last {A} (l : list A) (x : A) : list A := removelast l ++ [x].

Definition is_str (n : lz) : bool := match n with LStr _ _ => true | _ => false end.

(** [if let Some(last) = processed.last_mut() { if let Some(e) = last.finish_processing()? { endp = e } }]
    The child is mutated in place even when it fails. *)
Definition finish_last_arr (fin : lz -> lz * res (option N)) (elems : list lz) (endp : N)
  : list lz * N * res unit :=
  match last_opt elems with
  | None => (elems, endp, Ok tt)
  | Some x =>
      let '(x', r) := fin x in
      let elems' := upd_last elems x' in
      match r with
      | Ok (Some e) => (elems', e, Ok tt)
      | Ok None => (elems', endp, Ok tt)
      | Err c => (elems', endp, Err c)
      | Panic s => (elems', endp, Panic s)
      | OutOfFuel => (elems', endp, OutOfFuel)
      end
  end.

Definition finish_last_obj (fin : lz -> lz * res (option N)) (elems : list (lz * lz)) (endp : N)
  : list (lz * lz) * N * res unit :=
  match last_opt elems with
  | None => (elems, endp, Ok tt)
  | Some (k, x) =>
      let '(x', r) := fin x in
      let elems' := upd_last elems (k, x') in
      match r with
      | Ok (Some e) => (elems', e, Ok tt)
      | Ok None => (elems', endp, Ok tt)
      | Err c => (elems', endp, Err c)
      | Panic s => (elems', endp, Panic s)
      | OutOfFuel => (elems', endp, OutOfFuel)
      end
  end.

(** Parse a key at [endp]: [let (key, Some(key_end)) = new(bytes, endp)? else { return Err(ReadError) }]
    then [if !matches!(key, String(_)) { return Err(ReadError) }]. *)
Definition new_key (bs : list N) (endp : N) : res (lz * N) :=
  match lz_new bs endp with
  | Ok (k, Some ke) => if is_str k then Ok (k, ke) else Err E_Read
  | Ok (_, None) => Err E_Read
  | Err c => Err c | Panic s => Panic s | OutOfFuel => OutOfFuel
  end.

(** ** [finish_processing] (mutually recursive through the loops; fuel decreases at every call) *)
Fixpoint finish (fuel : nat) (bs : list N) (n : lz) {struct fuel} : lz * res (option N) :=
  match fuel with
  | O => (n, OutOfFuel)
  | S f =>
    match n with
    | LArr len elems endp =>
        let '(elems1, endp1, r) := finish_last_arr (finish f bs) elems endp in
        match r with
        | Ok _ => if len <? lenN elems1 then (LArr len elems1 endp1, Panic P_sub_overflow)
                  else fin_arr f bs len elems1 endp1
        | Err c => (LArr len elems1 endp1, Err c)
        | Panic s => (LArr len elems1 endp1, Panic s)
        | OutOfFuel => (LArr len elems1 endp1, OutOfFuel)
        end
    | LObj len elems endp =>
        let '(elems1, endp1, r) := finish_last_obj (finish f bs) elems endp in
        match r with
        | Ok _ => if len <? lenN elems1 then (LObj len elems1 endp1, Panic P_sub_overflow)
                  else fin_obj f bs len elems1 endp1
        | Err c => (LObj len elems1 endp1, Err c)
        | Panic s => (LObj len elems1 endp1, Panic s)
        | OutOfFuel => (LObj len elems1 endp1, OutOfFuel)
        end
    | _ => (n, Ok None)
    end
  end
with fin_arr (fuel : nat) (bs : list N) (len : N) (elems : list lz) (endp : N) {struct fuel} : lz * res (option N) :=
  match fuel with
  | O => (LArr len elems endp, OutOfFuel)
  | S f =>
    if len <=? lenN elems then (LArr len elems endp, Ok (Some endp))
    else
      match lz_new bs endp with
      | Ok (v, e0) =>
          let '(v', r) := finish f bs v in
          match r with
          | Ok e1 =>
              match (match e1 with Some e => Some e | None => e0 end) with
              | Some e => fin_arr f bs len (elems ++ [v']) e
              | None => (LArr len elems endp, Panic P_expect_end)
              end
          | Err c => (LArr len elems endp, Err c)
          | Panic s => (LArr len elems endp, Panic s)
          | OutOfFuel => (LArr len elems endp, OutOfFuel)
          end
      | Err c => (LArr len elems endp, Err c)
      | Panic s => (LArr len elems endp, Panic s)
      | OutOfFuel => (LArr len elems endp, OutOfFuel)
      end
  end
with fin_obj (fuel : nat) (bs : list N) (len : N) (elems : list (lz * lz)) (endp : N) {struct fuel} : lz * res (option N) :=
  match fuel with
  | O => (LObj len elems endp, OutOfFuel)
  | S f =>
    if len <=? lenN elems then (LObj len elems endp, Ok (Some endp))
    else
      match new_key bs endp with
      | Ok (k, ke) =>
          match lz_new bs ke with
          | Ok (v, e0) =>
              let '(v', r) := finish f bs v in
              match r with
              | Ok e1 =>
                  match (match e1 with Some e => Some e | None => e0 end) with
                  | Some e => fin_obj f bs len (elems ++ [(k, v')]) e
                  | None => (LObj len elems endp, Panic P_expect_end)
                  end
              | Err c => (LObj len elems endp, Err c)
              | Panic s => (LObj len elems endp, Panic s)
              | OutOfFuel => (LObj len elems endp, OutOfFuel)
              end
          | Err c => (LObj len elems endp, Err c)
          | Panic s => (LObj len elems endp, Panic s)
          | OutOfFuel => (LObj len elems endp, OutOfFuel)
          end
      | Err c => (LObj len elems endp, Err c)
      | Panic s => (LObj len elems endp, Panic s)
      | OutOfFuel => (LObj len elems endp, OutOfFuel)
      end
  end.

(** ** [ArrayRef::get_at_index]: process until [idx < |elems|]; returns the new node state. *)
Fixpoint arr_get_loop (fuel : nat) (bs : list N) (elems : list lz) (endp : N) (idx : N) {struct fuel}
  : list lz * N * res unit :=
  match fuel with
  | O => (elems, endp, OutOfFuel)
  | S f =>
    if idx <? lenN elems then (elems, endp, Ok tt)
    else
      let '(elems1, endp1, r) := finish_last_arr (finish f bs) elems endp in
      match r with
      | Ok _ =>
          match lz_new bs endp1 with
          | Ok (v, e0) =>
              let endp2 := match e0 with Some e => e | None => endp1 end in
              arr_get_loop f bs (elems1 ++ [v]) endp2 idx
          | Err c => (elems1, endp1, Err c)
          | Panic s => (elems1, endp1, Panic s)
          | OutOfFuel => (elems1, endp1, OutOfFuel)
          end
      | r' => (elems1, endp1, r')
      end
  end.

Definition arr_get (fuel : nat) (bs : list N) (len : N) (elems : list lz) (endp : N) (idx : N)
  : lz * res unit :=
  if len <=? idx then (LArr len elems endp, Err E_IndexOOB)
  else let '(e', p', r) := arr_get_loop fuel bs elems endp idx in (LArr len e' p', r).

(** ** [ObjectRef::get_at_index] *)
Fixpoint obj_get_loop (fuel : nat) (bs : list N) (elems : list (lz * lz)) (endp : N) (idx : N) {struct fuel}
  : list (lz * lz) * N * res unit :=
  match fuel with
  | O => (elems, endp, OutOfFuel)
  | S f =>
    if idx <? lenN elems then (elems, endp, Ok tt)
    else
      let '(elems1, endp1, r) := finish_last_obj (finish f bs) elems endp in
      match r with
      | Ok _ =>
          match new_key bs endp1 with
          | Ok (k, ke) =>
              match lz_new bs ke with
              | Ok (v, e0) =>
                  let endp2 := match e0 with Some e => e | None => ke end in
                  obj_get_loop f bs (elems1 ++ [(k, v)]) endp2 idx
              | Err c => (elems1, endp1, Err c)
              | Panic s => (elems1, endp1, Panic s)
              | OutOfFuel => (elems1, endp1, OutOfFuel)
              end
          | Err c => (elems1, endp1, Err c)
          | Panic s => (elems1, endp1, Panic s)
          | OutOfFuel => (elems1, endp1, OutOfFuel)
          end
      | r' => (elems1, endp1, r')
      end
  end.

Definition obj_get (fuel : nat) (bs : list N) (len : N) (elems : list (lz * lz)) (endp : N) (idx : N)
  : lz * res unit :=
  if len <=? idx then (LObj len elems endp, Err E_IndexOOB)
  else let '(e', p', r) := obj_get_loop fuel bs elems endp idx in (LObj len e' p', r).

(** ** [ObjectRef::get_property] *)
Definition bytes_eqb (a b : list N) : bool :=
  (lenN a =? lenN b) && forallb (fun '(x, y) => x =? y) (combine a b).

(** [&bytes[ptr..ptr+len] == key]: panics when the slice is out of bounds. *)
Definition key_matches (bs : list N) (ptr len : N) (key : list N) : res bool :=
  if lenN bs <? ptr + len then Panic P_key_slice else Ok (bytes_eqb (sub bs ptr len) key).

(** position of the first processed pair whose key matches (panic propagates in iteration order) *)
Fixpoint find_processed (bs : list N) (key : list N) (elems : list (lz * lz)) (i : N) : res (option N) :=
  match elems with
  | [] => Ok None
  | (LStr ptr len, _) :: t =>
      match key_matches bs ptr len key with
      | Ok true => Ok (Some i)
      | Ok false => find_processed bs key t (i + 1)
      | Err c => Err c | Panic s => Panic s | OutOfFuel => OutOfFuel
      end
  | _ :: t => find_processed bs key t (i + 1)
  end.

Fixpoint prop_scan (fuel : nat) (bs : list N) (key : list N) (len : N) (elems : list (lz * lz)) (endp : N) {struct fuel}
  : list (lz * lz) * N * res (option N) :=
  match fuel with
  | O => (elems, endp, OutOfFuel)
  | S f =>
    if len <=? lenN elems then (elems, endp, Ok None)
    else
      let '(elems1, endp1, r) := finish_last_obj (finish f bs) elems endp in
      match r with
      | Ok _ =>
          match new_key bs endp1 with
          | Ok (LStr kp kl as k, ke) =>
              match key_matches bs kp kl key with
              | Ok matched =>
                  match lz_new bs ke with
                  | Ok (v, e0) =>
                      let endp2 := match e0 with Some e => e | None => ke end in
                      let elems2 := elems1 ++ [(k, v)] in
                      if matched then (elems2, endp2, Ok (Some (lenN elems2 - 1)))
                      else prop_scan f bs key len elems2 endp2
                  | Err c => (elems1, endp1, Err c)
                  | Panic s => (elems1, endp1, Panic s)
                  | OutOfFuel => (elems1, endp1, OutOfFuel)
                  end
              | Err c => (elems1, endp1, Err c)
              | Panic s => (elems1, endp1, Panic s)
              | OutOfFuel => (elems1, endp1, OutOfFuel)
              end
          | Ok (_, _) => (elems1, endp1, Err E_Read)
          | Err c => (elems1, endp1, Err c)
          | Panic s => (elems1, endp1, Panic s)
          | OutOfFuel => (elems1, endp1, OutOfFuel)
          end
      | Err c => (elems1, endp1, Err c)
      | Panic s => (elems1, endp1, Panic s)
      | OutOfFuel => (elems1, endp1, OutOfFuel)
      end
  end.

Definition obj_prop (fuel : nat) (bs : list N) (key : list N) (len : N) (elems : list (lz * lz)) (endp : N)
  : lz * res (option N) :=
  match find_processed bs key elems 0 with
  | Ok (Some i) => (LObj len elems endp, Ok (Some i))
  | Ok None =>
      if len <? lenN elems then (LObj len elems endp, Panic P_sub_overflow)
      else let '(e', p', r) := prop_scan fuel bs key len elems endp in (LObj len e' p', r)
  | Err c => (LObj len elems endp, Err c)
  | Panic s => (LObj len elems endp, Panic s)
  | OutOfFuel => (LObj len elems endp, OutOfFuel)
  end.

(** * Handles as paths, answers, the exported functions *)
Inductive pstep := SIdx (i : N) | SKey (i : N) | SVal (i : N).
Definition handle : Type := (N * list pstep)%type.      (* root number, path from the root *)

Inductive answer :=
| ANull | ABool (b : bool) | ANum (bits : N)
| AStr (h : handle) (len : N) | AArr (h : handle) (len : N) | AObj (h : handle) (len : N)
| AErr (code : N).

Fixpoint get_node (n : lz) (p : list pstep) : option lz :=
  match p with
  | [] => Some n
  | s :: p' =>
      match s, n with
      | SIdx i, LArr _ elems _ => match nthN elems i with Some c => get_node c p' | None => None end
      | SKey i, LObj _ elems _ => match nthN elems i with Some (k, _) => get_node k p' | None => None end
      | SVal i, LObj _ elems _ => match nthN elems i with Some (_, v) => get_node v p' | None => None end
      | _, _ => None
      end
  end.

Fixpoint set_nth {A} (l : list A) (i : N) (x : A) : list A :=
  match l with
  | [] => []
  | y :: t => if i =? 0 then x :: t else y :: set_nth t (i - 1) x
  end.

Fixpoint set_node (n : lz) (p : list pstep) (x : lz) : lz :=
  match p with
  | [] => x
  | s :: p' =>
      match s, n with
      | SIdx i, LArr len elems e =>
          match nthN elems i with Some c => LArr len (set_nth elems i (set_node c p' x)) e | None => n end
      | SKey i, LObj len elems e =>
          match nthN elems i with Some (k, v) => LObj len (set_nth elems i (set_node k p' x, v)) e | None => n end
      | SVal i, LObj len elems e =>
          match nthN elems i with Some (k, v) => LObj len (set_nth elems i (k, set_node v p' x)) e | None => n end
      | _, _ => n
      end
  end.

(** [LazyValueRef::encode]: the answer for node [n] reached through handle [h]. *)
Definition encode_node (h : handle) (n : lz) : res answer :=
  match n with
  | LNull => Ok ANull
  | LBool b => Ok (ABool b)
  | LNum bits => if is_nan bits then Panic P_nan_number else Ok (ANum bits)
  | LStr _ len => Ok (AStr h len)
  | LArr len _ _ => Ok (AArr h len)
  | LObj len _ _ => Ok (AObj h len)
  end.

(** What a call returns to the caller. *)
Inductive out :=
| OVal (a : answer)
| OLen (n : option N)                 (* None = usize::MAX *)
| OBytes (s : option (list N))        (* None = address 0 (not a string) *)
| OStray                              (* a string extent not inside the input *)
| OPanic (site : N)
| OFuel.

Definition out_of_res (r : res answer) : out :=
  match r with Ok a => OVal a | Err c => OVal (AErr c) | Panic s => OPanic s | OutOfFuel => OFuel end.

(** The scope argument of a call: an earlier answer, or a Val that does not decode (unknown tag). *)
Inductive scope := SAns (a : answer) | SGarbage.

Definition roots_t := list lz.

Definition root_of (roots : roots_t) (h : handle) : option lz := nthN roots (fst h).
Definition node_of (roots : roots_t) (h : handle) : option lz :=
  match root_of roots h with Some r => get_node r (snd h) | None => None end.
Definition put_node (roots : roots_t) (h : handle) (x : lz) : roots_t :=
  match root_of roots h with Some r => set_nth roots (fst h) (set_node r (snd h) x) | None => roots end.

(** shopify_function_input_get *)
Definition input_get (bs : list N) (roots : roots_t) : roots_t * out :=
  match lz_new bs 0 with
  | Ok (v, _) => (roots ++ [v], out_of_res (encode_node (lenN roots, []) v))
  | Err c => (roots, OVal (AErr c))
  | Panic s => (roots, OPanic s)
  | OutOfFuel => (roots, OFuel)
  end.

Definition child (h : handle) (s : pstep) : handle := (fst h, snd h ++ [s]).

(** shopify_function_input_get_obj_prop / get_interned_obj_prop (the name already resolved) *)
Definition get_obj_prop (fuel : nat) (bs : list N) (roots : roots_t) (sc : scope) (name : list N) : roots_t * out :=
  match sc with
  | SAns (AObj h _) =>
      match node_of roots h with
      | Some (LObj len elems endp) =>
          let '(n', r) := obj_prop fuel bs name len elems endp in
          let roots' := put_node roots h n' in
          match r with
          | Ok (Some i) =>
              match node_of roots' (child h (SVal i)) with
              | Some v => (roots', out_of_res (encode_node (child h (SVal i)) v))
              | None => (roots', OPanic 0)
              end
          | Ok None => (roots', OVal ANull)
          | Err c => (roots', OVal (AErr c))
          | Panic s => (roots', OPanic s)
          | OutOfFuel => (roots', OFuel)
          end
      | _ => (roots, OVal (AErr E_NotAnObject))
      end
  | SAns _ => (roots, OVal (AErr E_NotAnObject))
  | SGarbage => (roots, OVal (AErr E_Decode))
  end.

(** shopify_function_input_get_at_index *)
Definition get_at_index (fuel : nat) (bs : list N) (roots : roots_t) (sc : scope) (idx : N) : roots_t * out :=
  match sc with
  | SAns (AArr h _) | SAns (AObj h _) =>
      match node_of roots h with
      | Some (LArr len elems endp) =>
          let '(n', r) := arr_get fuel bs len elems endp idx in
          let roots' := put_node roots h n' in
          match r with
          | Ok _ =>
              match node_of roots' (child h (SIdx idx)) with
              | Some v => (roots', out_of_res (encode_node (child h (SIdx idx)) v))
              | None => (roots', OPanic 0)
              end
          | Err c => (roots', OVal (AErr c))
          | Panic s => (roots', OPanic s)
          | OutOfFuel => (roots', OFuel)
          end
      | Some (LObj len elems endp) =>
          let '(n', r) := obj_get fuel bs len elems endp idx in
          let roots' := put_node roots h n' in
          match r with
          | Ok _ =>
              match node_of roots' (child h (SVal idx)) with
              | Some v => (roots', out_of_res (encode_node (child h (SVal idx)) v))
              | None => (roots', OPanic 0)
              end
          | Err c => (roots', OVal (AErr c))
          | Panic s => (roots', OPanic s)
          | OutOfFuel => (roots', OFuel)
          end
      | _ => (roots, OVal (AErr E_NotIndexable))
      end
  | SAns _ => (roots, OVal (AErr E_NotIndexable))
  | SGarbage => (roots, OVal (AErr E_Read))
  end.

(** shopify_function_input_get_obj_key_at_index *)
Definition get_obj_key_at_index (fuel : nat) (bs : list N) (roots : roots_t) (sc : scope) (idx : N) : roots_t * out :=
  match sc with
  | SAns (AObj h _) =>
      match node_of roots h with
      | Some (LObj len elems endp) =>
          let '(n', r) := obj_get fuel bs len elems endp idx in
          let roots' := put_node roots h n' in
          match r with
          | Ok _ =>
              match node_of roots' (child h (SKey idx)) with
              | Some v => (roots', out_of_res (encode_node (child h (SKey idx)) v))
              | None => (roots', OPanic 0)
              end
          | Err c => (roots', OVal (AErr c))
          | Panic s => (roots', OPanic s)
          | OutOfFuel => (roots', OFuel)
          end
      | _ => (roots, OVal (AErr E_NotAnObject))
      end
  | SAns _ => (roots, OVal (AErr E_NotAnObject))
  | SGarbage => (roots, OVal (AErr E_Read))
  end.

(** shopify_function_input_get_val_len *)
Definition get_val_len (roots : roots_t) (sc : scope) : out :=
  match sc with
  | SAns (AStr h _) | SAns (AArr h _) | SAns (AObj h _) =>
      match node_of roots h with
      | Some (LStr _ len) | Some (LArr len _ _) | Some (LObj len _ _) => OLen (Some len)
      | Some _ => OLen (Some 0)
      | None => OLen None
      end
  | _ => OLen None
  end.

(** shopify_function_input_get_utf8_str_addr(ptr) followed by reading [len] bytes from the address
    (what read_utf8_str / the glue / Value::as_string do). *)
Definition read_str (bs : list N) (roots : roots_t) (sc : scope) (len : N) : out :=
  match sc with
  | SAns (AStr h _) =>
      match node_of roots h with
      | Some (LStr ptr _) =>
          if lenN bs <? ptr then OPanic P_str_addr_slice
          else if lenN bs <? ptr + len then OStray
          else OBytes (Some (sub bs ptr len))
      | _ => OBytes None
      end
  | _ => OBytes None
  end.

End W.
