(** The exported read functions at the level of the ABI -- NaN-boxed scope in, NaN-boxed answer out -- with BOTH translations
    plugged together: the dispatch of provider/src/read.rs (Gen/ReadAbiGen.v) with its oracles instantiated by the translated
    node operations (Gen/LazyLoopsGen.v) on the trees of Read/GenRun.v.  What remains abstract is the address of a node: a map
    [addr] from handles (paths) to addresses with left inverse [inv] -- any such map, the theorems do not care which (they ask the
    address of the scope's own handle to be a non-null [usize]; no map can send ALL paths into a bounded range).
    Definitions only. *)
From Coq Require Import NArith List Bool.
From SFV Require Import Base.Bytes Base.RsPrelude Gen.NanBoxGen NanBox.NanBox Read.Lazy Read.LazyTypes Gen.LazyNewGen
  Gen.LazyLoopsGen Read.LazyNewGenEq Read.ReadRun Read.ReadSafe Read.GenRun Read.NodeRefTy Gen.InternGen Gen.ReadAbiGen.
Import ListNotations.
Open Scope N_scope.

Section Abi.
Variable W : N.
Variable trap : bool.
Variable addr : handle -> N.
Variable inv : N -> option handle.

(** the NaN box of an answer, as [LazyValueRef::encode] / [NanBox::error] / [NanBox::null] produce it: the pointer field is the
    node's address, the length field saturates (inside [nb_string] / [nb_array] / [nb_obj]), a number is [NanBox::number] of its bits *)
Definition bits_of_answer (a : answer) : N :=
  match a with
  | ANull => nb_null W
  | ABool b => nb_bool W b
  | ANum bits => match nb_number W bits with Some v => v | None => 0 end   (* [NanBox::number]: the double in the high half of the Val at W = 64 *)
  | AStr h len => nb_string W (addr h) len
  | AArr h len => nb_array W (addr h) len
  | AObj h len => nb_obj W (addr h) len
  | AErr c => nb_error W c
  end.

(** [LazyValueRef::mut_from_raw]: only the null check *)
Definition o_node_at (p : N) : rres NodeRef := if p =? 0 then RErr (EC_ReadError W) else ROk p.

(** the node behind an address in the current forest *)
Definition o_node (roots : groots_t) (p : NodeRef) : option (handle * LazyValueRef) :=
  match inv p with
  | Some h => match g_node_of roots h with Some v => Some (h, v) | None => None end
  | None => None
  end.

(** the node operations as the dispatch sees them: the translated method on the node behind the address; the reference it
    returns is the address of the child the model's handle arithmetic designates; a forged address (undefined behaviour in Rust)
    and a panic are given an arbitrary error code -- the theorems are about addresses of live handles and show no panic occurs *)
Definition o_get_at_index (bs : list N) (roots : groots_t) (_ : N) (p : NodeRef) (idx : N) (bytes : list N) (_ : unit) : rres NodeRef :=
  match o_node roots p with
  | Some (h, v) =>
      match LazyValueRef_get_at_index W trap (gfuel bs) v idx bytes with
      | GOk (v', ROk _) => ROk (addr (child h (g_idx_step v' idx)))
      | GOk (_, RErr c) => RErr c
      | GPanic _ => RErr 0
      end
  | None => RErr (EC_ReadError W)
  end.
Definition o_get_key_at_index (bs : list N) (roots : groots_t) (_ : N) (p : NodeRef) (idx : N) (bytes : list N) (_ : unit) : rres NodeRef :=
  match o_node roots p with
  | Some (h, v) =>
      match LazyValueRef_get_key_at_index W trap (gfuel bs) v idx bytes with
      | GOk (_, ROk _) => ROk (addr (child h (SKey idx)))
      | GOk (_, RErr c) => RErr c
      | GPanic _ => RErr 0
      end
  | None => RErr (EC_ReadError W)
  end.
Definition o_get_prop (bs : list N) (roots : groots_t) (_ : N) (p : NodeRef) (name : list N) (bytes : list N) (_ : unit) : rres (option NodeRef) :=
  match o_node roots p with
  | Some (h, v) =>
      match LazyValueRef_get_object_property W trap (gfuel bs) v name bytes with
      | GOk (v', ROk (Some _)) =>
          match g_prop_index bs name v' with
          | Some i => ROk (Some (addr (child h (SVal i))))
          | None => RErr 0
          end
      | GOk (_, ROk None) => ROk None
      | GOk (_, RErr c) => RErr c
      | GPanic _ => RErr 0
      end
  | None => RErr (EC_ReadError W)
  end.
(** [LazyValueRef::encode] of the node behind an address, in the forest AFTER the call *)
Definition o_encode (roots' : groots_t) (_ : N) (p : NodeRef) : N :=
  match o_node roots' p with
  | Some (h, v) => match encode_node h (conv v) with Ok a => bits_of_answer a | _ => 0 end
  | None => 0
  end.
Definition o_value_length (roots : groots_t) (_ : N) (p : NodeRef) : N :=
  match o_node roots p with
  | Some (_, v) => match LazyValueRef_get_value_length W trap 1 v with GOk n => n | GPanic _ => 0 end
  | None => 0
  end.
Definition o_str_addr (roots : groots_t) (_ : N) (p : NodeRef) (bytes : list N) : N :=
  match o_node roots p with
  | Some (_, v) => match LazyValueRef_get_utf8_str_addr W trap 1 v bytes with GOk n => n | GPanic _ => 0 end
  | None => 0
  end.

Definition abi_ctx (bs : list N) (si : StringInterner) : ReadAbiGen.Context := mkContext bs tt si.

(** the four scope-taking exported functions with everything plugged in: [roots] before the call, [roots'] after it (the forest
    [g_get_at_index] etc. of Read/GenRun.v return), [name] the bytes the guest passed for a by-name read *)
Definition abi_get_at_index (bs : list N) (si : StringInterner) (roots roots' : groots_t) (scope idx : N) : gres N :=
  Context_shopify_function_input_get_at_index W trap o_node_at (fun _ _ => []) (o_get_prop bs roots) (o_get_at_index bs roots)
    (o_get_key_at_index bs roots) (o_encode roots') (o_value_length roots) (o_str_addr roots) (abi_ctx bs si) scope idx.
Definition abi_get_obj_key_at_index (bs : list N) (si : StringInterner) (roots roots' : groots_t) (scope idx : N) : gres N :=
  Context_shopify_function_input_get_obj_key_at_index W trap o_node_at (fun _ _ => []) (o_get_prop bs roots) (o_get_at_index bs roots)
    (o_get_key_at_index bs roots) (o_encode roots') (o_value_length roots) (o_str_addr roots) (abi_ctx bs si) scope idx.
Definition abi_get_obj_prop (bs : list N) (si : StringInterner) (roots roots' : groots_t) (scope : N) (name : list N) (ptr len : N) : gres N :=
  Context_shopify_function_input_get_obj_prop W trap o_node_at (fun _ _ => name) (o_get_prop bs roots) (o_get_at_index bs roots)
    (o_get_key_at_index bs roots) (o_encode roots') (o_value_length roots) (o_str_addr roots) (abi_ctx bs si) scope ptr len.
Definition abi_get_val_len (bs : list N) (roots : groots_t) (scope : N) : gres N :=
  Context_shopify_function_input_get_val_len W trap o_node_at (fun _ _ => []) (o_get_prop bs roots) (o_get_at_index bs roots)
    (o_get_key_at_index bs roots) (o_encode roots) (o_value_length roots) (o_str_addr roots) scope.

(** the answer of a call of Read/GenRun.v as the ABI returns it *)
Definition bits_of_out (o : out) : option N :=
  match o with
  | OVal a => Some (bits_of_answer a)
  | _ => None
  end.
Definition len_of_out (o : out) : option N :=
  match o with
  | OLen (Some n) => Some n
  | OLen None => Some (2 ^ W - 1)
  | _ => None
  end.

End Abi.
