(** C08 on ARBITRARY input bytes: the lazy reader never runs out of fuel, never panics and never
    reports a string outside the input.  The first part gives the statements conditional on every
    [lz_new] result being "sane" ([new_sane]); the last part PROVES [new_sane] for every position of
    every input of bytes that fits the pointer width (this needs the two repairs of findings F1/F2:
    string extent check, NaN -> ReadError) and derives the unconditional [C08_nopanic], [C08_strings]. *)
From Coq Require Import NArith ZArith Lia List Bool Arith ZifyNat ZifyN ZifyBool.
From SFV Require Import Base.Bytes Base.F64 Base.BytesProofs Base.F64IntNoNan Read.Lazy Read.ReadRun Read.ReadSafe.
Import ListNotations.
Open Scope N_scope.

Definition is_comp (n : lz) : bool := match n with LArr _ _ _ | LObj _ _ _ => true | _ => false end.

(** * Sanity of a lazy node relative to an input of length [L]; [p] = a position the node starts at or after *)
Inductive sane (L : N) : N -> lz -> Prop :=
| sn_null p : sane L p LNull
| sn_bool p b : sane L p (LBool b)
| sn_num p b : is_nan b = false -> sane L p (LNum b)
| sn_str p ptr len : ptr + len <= L -> sane L p (LStr ptr len)
| sn_arr p len elems endp :
    lenN elems <= len -> p < endp -> endp <= L -> Forall (sane L (p + 1)) elems ->
    sane L p (LArr len elems endp)
| sn_obj p len elems endp :
    lenN elems <= len -> p < endp -> endp <= L ->
    Forall (fun kv => sane L (p + 1) (fst kv) /\ sane L (p + 1) (snd kv)) elems ->
    sane L p (LObj len elems endp).

Section LzInd.
  Variable P : lz -> Prop.
  Hypothesis Hsc : forall n, is_comp n = false -> P n.
  Hypothesis Harr : forall len l e, Forall P l -> P (LArr len l e).
  Hypothesis Hobj : forall len l e, Forall (fun kv => P (fst kv) /\ P (snd kv)) l -> P (LObj len l e).
  Fixpoint lz_ind' (n : lz) : P n :=
    match n with
    | LArr len l e =>
        Harr len l e ((fix go (l : list lz) : Forall P l :=
                     match l with [] => Forall_nil _ | x :: r => Forall_cons _ (lz_ind' x) (go r) end) l)
    | LObj len l e =>
        Hobj len l e ((fix go (l : list (lz * lz)) : Forall (fun kv => P (fst kv) /\ P (snd kv)) l :=
                     match l with
                     | [] => Forall_nil _
                     | kv :: r => Forall_cons _ (conj (lz_ind' (fst kv)) (lz_ind' (snd kv))) (go r)
                     end) l)
    | LNull => Hsc LNull eq_refl
    | LBool b => Hsc (LBool b) eq_refl
    | LNum b => Hsc (LNum b) eq_refl
    | LStr a b => Hsc (LStr a b) eq_refl
    end.
End LzInd.

Lemma sane_arr_inv L p len elems endp : sane L p (LArr len elems endp) ->
  lenN elems <= len /\ p < endp /\ endp <= L /\ Forall (sane L (p + 1)) elems.
Proof. inversion 1; subst; auto. Qed.
Lemma sane_obj_inv L p len elems endp : sane L p (LObj len elems endp) ->
  lenN elems <= len /\ p < endp /\ endp <= L /\
  Forall (fun kv => sane L (p + 1) (fst kv) /\ sane L (p + 1) (snd kv)) elems.
Proof. inversion 1; subst; auto. Qed.

Lemma sane_mono L : forall n p p', sane L p n -> p' <= p -> sane L p' n.
Proof.
  induction n as [n Hn|len l e IH|len l e IH] using lz_ind'; intros p p' Hs Hle.
  - destruct n; try discriminate; inversion Hs; subst; constructor; assumption.
  - inversion Hs as [| | | |p0 len0 elems endp H1 H2 H3 H4|]; subst. constructor; try lia.
    clear - IH H4 Hle. induction H4 as [|x l Hx Hl IHl]; constructor.
    + inversion IH; subst. eapply H1; [exact Hx|lia].
    + inversion IH; subst. apply IHl. assumption.
  - inversion Hs as [| | | | |p0 len0 elems endp H1 H2 H3 H4]; subst. constructor; try lia.
    clear - IH H4 Hle. induction H4 as [|x l Hx Hl IHl]; constructor.
    + inversion IH as [|x' l' [Hk Hv] Hr]; subst. destruct Hx as [Hx1 Hx2].
      split; [eapply Hk; [exact Hx1|lia]|eapply Hv; [exact Hx2|lia]].
    + inversion IH; subst. apply IHl. assumption.
Qed.

(** * String nodes are kept (handles to strings stay valid and unchanged) *)
Definition keeps (l l' : lz) : Prop :=
  forall pth p n, get_node l pth = Some (LStr p n) -> get_node l' pth = Some (LStr p n).
Definition kexts (es es' : list lz) : Prop :=
  forall i x, nthN es i = Some x -> exists x', nthN es' i = Some x' /\ keeps x x'.
Definition pkexts (es es' : list (lz * lz)) : Prop :=
  forall i x, nthN es i = Some x ->
    exists x', nthN es' i = Some x' /\ keeps (fst x) (fst x') /\ keeps (snd x) (snd x').

Lemma keeps_refl l : keeps l l.
Proof. intros pth p n H. exact H. Qed.
Lemma keeps_trans a b c : keeps a b -> keeps b c -> keeps a c.
Proof. intros H1 H2 pth p n H. auto. Qed.
Lemma kexts_refl es : kexts es es.
Proof. intros i x H. exists x. split; [exact H|apply keeps_refl]. Qed.
Lemma kexts_trans a b c : kexts a b -> kexts b c -> kexts a c.
Proof.
  intros H1 H2 i x H. destruct (H1 _ _ H) as (y & Hy & E1). destruct (H2 _ _ Hy) as (z & Hz & E2).
  exists z. split; [exact Hz|eapply keeps_trans; eauto].
Qed.
Lemma kexts_app es more : kexts es (es ++ more).
Proof.
  intros i x H. exists x. split; [|apply keeps_refl].
  rewrite nthN_app_l; [exact H|]. eapply nthN_Some_lt; eauto.
Qed.
Lemma kexts_snoc es x x' : keeps x x' -> kexts (es ++ [x]) (es ++ [x']).
Proof.
  intros E i y H. pose proof (nthN_Some_lt _ _ _ H) as Hlt. rewrite lenN_app, lenN_one in Hlt.
  destruct (N.lt_ge_cases i (lenN es)) as [Hi|Hi].
  - rewrite nthN_app_l in H by exact Hi. exists y. rewrite nthN_app_l by exact Hi. split; [exact H|apply keeps_refl].
  - assert (i = lenN es) by lia. subst i. rewrite nthN_snoc in H. inversion H; subst.
    exists x'. rewrite nthN_snoc. auto.
Qed.
Lemma keeps_arr n es e n' es' e' : kexts es es' -> keeps (LArr n es e) (LArr n' es' e').
Proof.
  intros H pth. destruct pth as [|[i|i|i] pth]; cbn [get_node]; try congruence.
  destruct (nthN es i) as [c|] eqn:E; [|congruence].
  destruct (H _ _ E) as (c' & -> & Hc). apply Hc.
Qed.
Lemma pkexts_refl es : pkexts es es.
Proof. intros i x H. exists x. repeat split; [exact H|apply keeps_refl|apply keeps_refl]. Qed.
Lemma pkexts_trans a b c : pkexts a b -> pkexts b c -> pkexts a c.
Proof.
  intros H1 H2 i x H. destruct (H1 _ _ H) as (y & Hy & E1 & E1'). destruct (H2 _ _ Hy) as (z & Hz & E2 & E2').
  exists z. repeat split; [exact Hz|eapply keeps_trans; eauto|eapply keeps_trans; eauto].
Qed.
Lemma pkexts_app es more : pkexts es (es ++ more).
Proof.
  intros i x H. exists x. repeat split; try apply keeps_refl.
  rewrite nthN_app_l; [exact H|]. eapply nthN_Some_lt; eauto.
Qed.
Lemma pkexts_snoc es k x x' : keeps x x' -> pkexts (es ++ [(k, x)]) (es ++ [(k, x')]).
Proof.
  intros E i y H. pose proof (nthN_Some_lt _ _ _ H) as Hlt. rewrite lenN_app, lenN_one in Hlt.
  destruct (N.lt_ge_cases i (lenN es)) as [Hi|Hi].
  - rewrite nthN_app_l in H by exact Hi. exists y. rewrite nthN_app_l by exact Hi.
    repeat split; [exact H|apply keeps_refl|apply keeps_refl].
  - assert (i = lenN es) by lia. subst i. rewrite nthN_snoc in H. inversion H; subst.
    exists (k, x'). rewrite nthN_snoc. cbn [fst snd]. repeat split; [apply keeps_refl|exact E].
Qed.
Lemma keeps_obj n es e n' es' e' : pkexts es es' -> keeps (LObj n es e) (LObj n' es' e').
Proof.
  intros H pth. destruct pth as [|[i|i|i] pth]; cbn [get_node]; try congruence.
  - destruct (nthN es i) as [[k v]|] eqn:E; [|congruence].
    destruct (H _ _ E) as ([k' v'] & -> & Hk & Hv). apply Hk.
  - destruct (nthN es i) as [[k v]|] eqn:E; [|congruence].
    destruct (H _ _ E) as ([k' v'] & -> & Hk & Hv). apply Hv.
Qed.

(* local copies of three small list facts (kept here so that this file does not depend on ReadInv) *)
Lemma r_last_opt_nil {A} : last_opt (@nil A) = None. Proof. reflexivity. Qed.
Lemma r_last_opt_snoc {A} (l : list A) x : last_opt (l ++ [x]) = Some x.
Proof. unfold last_opt. rewrite rev_app_distr. reflexivity. Qed.
Lemma r_upd_last_snoc {A} (l : list A) x y : upd_last (l ++ [x]) y = l ++ [y].
Proof. unfold upd_last. rewrite removelast_last. reflexivity. Qed.
Lemma r_snoc_cases {A} (l : list A) : l = [] \/ exists l0 x, l = l0 ++ [x].
Proof. destruct (rev l) eqn:E.
  - left. rewrite <- (rev_involutive l), E. reflexivity.
  - right. exists (rev l0), a. rewrite <- (rev_involutive l), E. reflexivity.
Qed.

Section Robust.
Variable W : N.
Variable trap : bool.
Variable bs : list N.
Let L := lenN bs.

(** What a sane [lz_new] result looks like at position [pos]. *)
Definition new_sane (pos : N) (r : res (lz * option N)) : Prop :=
  match r with
  | Ok (v, e) =>
      sane L pos v /\
      (if is_comp v then e = None else exists e', e = Some e' /\ pos < e' /\ e' <= L)
  | Err _ => True
  | Panic _ | OutOfFuel => False
  end.

Hypothesis Hnew : forall pos, new_sane pos (lz_new W trap bs pos).

Definition fb (p : N) : nat := (3 * N.to_nat (L - p) + 2)%nat.
Definition la (e : N) : nat := (3 * N.to_nat (L - e) + 3)%nat.

Definition fin_res_ok (p : N) (n : lz) (r : res (option N)) : Prop :=
  match r with
  | Ok None => is_comp n = false
  | Ok (Some e) => is_comp n = true /\ p < e /\ e <= L
  | Err _ => True
  | Panic _ | OutOfFuel => False
  end.

Definition finish_P (fuel : nat) : Prop := forall n p n' r,
  sane L p n -> (fb p <= fuel)%nat -> finish W trap fuel bs n = (n', r) ->
  sane L p n' /\ keeps n n' /\ fin_res_ok p n r.
Definition fin_arr_P (fuel : nat) : Prop := forall len elems endp p n' r,
  sane L p (LArr len elems endp) -> (la endp <= fuel)%nat ->
  fin_arr W trap fuel bs len elems endp = (n', r) ->
  sane L p n' /\ keeps (LArr len elems endp) n' /\ fin_res_ok p (LArr len elems endp) r.
Definition fin_obj_P (fuel : nat) : Prop := forall len elems endp p n' r,
  sane L p (LObj len elems endp) -> (la endp <= fuel)%nat ->
  fin_obj W trap fuel bs len elems endp = (n', r) ->
  sane L p n' /\ keeps (LObj len elems endp) n' /\ fin_res_ok p (LObj len elems endp) r.

(** unfolding equations *)
Lemma r_finish_S f n : finish W trap (S f) bs n =
  match n with
  | LArr len elems endp =>
      let '(elems1, endp1, r) := finish_last_arr (finish W trap f bs) elems endp in
      match r with
      | Ok _ => if len <? lenN elems1 then (LArr len elems1 endp1, Panic P_sub_overflow)
                else fin_arr W trap f bs len elems1 endp1
      | Err c => (LArr len elems1 endp1, Err c)
      | Panic s => (LArr len elems1 endp1, Panic s)
      | OutOfFuel => (LArr len elems1 endp1, OutOfFuel)
      end
  | LObj len elems endp =>
      let '(elems1, endp1, r) := finish_last_obj (finish W trap f bs) elems endp in
      match r with
      | Ok _ => if len <? lenN elems1 then (LObj len elems1 endp1, Panic P_sub_overflow)
                else fin_obj W trap f bs len elems1 endp1
      | Err c => (LObj len elems1 endp1, Err c)
      | Panic s => (LObj len elems1 endp1, Panic s)
      | OutOfFuel => (LObj len elems1 endp1, OutOfFuel)
      end
  | _ => (n, Ok None)
  end.
Proof. reflexivity. Qed.

Lemma r_fin_arr_S f len elems endp : fin_arr W trap (S f) bs len elems endp =
    if len <=? lenN elems then (LArr len elems endp, Ok (Some endp))
    else
      match lz_new W trap bs endp with
      | Ok (v, e0) =>
          let '(v', r) := finish W trap f bs v in
          match r with
          | Ok e1 =>
              match (match e1 with Some e => Some e | None => e0 end) with
              | Some e => fin_arr W trap f bs len (elems ++ [v']) e
              | None => (LArr len elems endp, Panic P_expect_end)
              end
          | Err c => (LArr len elems endp, Err c)
          | Panic s => (LArr len elems endp, Panic s)
          | OutOfFuel => (LArr len elems endp, OutOfFuel)
          end
      | Err c => (LArr len elems endp, Err c)
      | Panic s => (LArr len elems endp, Panic s)
      | OutOfFuel => (LArr len elems endp, OutOfFuel)
      end.
Proof. reflexivity. Qed.

Lemma r_fin_obj_S f len elems endp : fin_obj W trap (S f) bs len elems endp =
    if len <=? lenN elems then (LObj len elems endp, Ok (Some endp))
    else
      match new_key W trap bs endp with
      | Ok (k, ke) =>
          match lz_new W trap bs ke with
          | Ok (v, e0) =>
              let '(v', r) := finish W trap f bs v in
              match r with
              | Ok e1 =>
                  match (match e1 with Some e => Some e | None => e0 end) with
                  | Some e => fin_obj W trap f bs len (elems ++ [(k, v')]) e
                  | None => (LObj len elems endp, Panic P_expect_end)
                  end
              | Err c => (LObj len elems endp, Err c)
              | Panic s => (LObj len elems endp, Panic s)
              | OutOfFuel => (LObj len elems endp, OutOfFuel)
              end
          | Err c => (LObj len elems endp, Err c)
          | Panic s => (LObj len elems endp, Panic s)
          | OutOfFuel => (LObj len elems endp, OutOfFuel)
          end
      | Err c => (LObj len elems endp, Err c)
      | Panic s => (LObj len elems endp, Panic s)
      | OutOfFuel => (LObj len elems endp, OutOfFuel)
      end.
Proof. reflexivity. Qed.

Lemma new_key_safe endp : match new_key W trap bs endp with
  | Ok (k, ke) => is_str k = true /\ sane L endp k /\ endp < ke /\ ke <= L
  | Err _ => True
  | Panic _ | OutOfFuel => False
  end.
Proof.
  unfold new_key. pose proof (Hnew endp) as H. destruct (lz_new W trap bs endp) as [[k [ke|]]| | |]; cbn in H |- *; auto.
  - destruct (is_str k) eqn:Es; [|exact I]. destruct H as [Hs He]. destruct k; try discriminate.
    cbn [is_comp] in He. destruct He as (e' & E & H1 & H2). inversion E; subst. auto.
Qed.

(** "after finishing the last processed child the position is beyond [q]" *)
Definition ready (q : N) (elems : list lz) (endp : N) : Prop :=
  match last_opt elems with
  | Some x => if is_comp x then sane L q x else q < endp
  | None => q < endp
  end.
Definition pready (q : N) (elems : list (lz * lz)) (endp : N) : Prop :=
  match last_opt elems with
  | Some kv => if is_comp (snd kv) then sane L q (snd kv) else q < endp
  | None => q < endp
  end.

Definition res_fine {A} (r : res A) : Prop := match r with Panic _ | OutOfFuel => False | _ => True end.

Lemma finish_last_arr_safe f p elems endp elems1 endp1 r1 :
  finish_P f -> (fb (p + 1) <= f)%nat -> Forall (sane L (p + 1)) elems -> p < endp -> endp <= L ->
  finish_last_arr (finish W trap f bs) elems endp = (elems1, endp1, r1) ->
  Forall (sane L (p + 1)) elems1 /\ lenN elems1 = lenN elems /\ kexts elems elems1 /\
  p < endp1 /\ endp1 <= L /\ res_fine r1 /\
  (forall q, ready q elems endp -> (fb q <= f)%nat -> r1 = Ok tt -> q < endp1).
Proof.
  intros IH Hfu Hall Hp HL Heq. unfold finish_last_arr in Heq.
  destruct (r_snoc_cases elems) as [->|(es0 & x & ->)].
  - rewrite r_last_opt_nil in Heq. inversion Heq; subst.
    repeat split; auto; try apply kexts_refl; try (intros q Hq _ _; exact Hq).
  - rewrite r_last_opt_snoc in Heq. destruct (finish W trap f bs x) as [x' r] eqn:Ef.
    rewrite r_upd_last_snoc in Heq.
    apply Forall_app in Hall. destruct Hall as [Hall0 Hx]. inversion Hx as [|? ? Hx1 _]; subst.
    destruct (IH _ _ _ _ Hx1 Hfu Ef) as (Hs' & Hk & Hr).
    assert (Hall' : Forall (sane L (p + 1)) (es0 ++ [x'])).
    { apply Forall_app. split; [exact Hall0|constructor; [exact Hs'|constructor]]. }
    assert (Hlen : lenN (es0 ++ [x']) = lenN (es0 ++ [x])) by (rewrite !lenN_app; reflexivity).
    pose proof (kexts_snoc es0 x x' Hk) as Hke.
    destruct r as [[e|]|c|s|]; cbn [fin_res_ok] in Hr; try contradiction; inversion Heq; subst.
    + destruct Hr as (Hc & H1 & H2). repeat split; auto; try lia.
      intros q Hq Hfq _. unfold ready in Hq. rewrite r_last_opt_snoc, Hc in Hq.
      destruct (finish W trap f bs x) as [x2 r2] eqn:Ef2. inversion Ef; subst.
      destruct (IH _ _ _ _ Hq Hfq Ef2) as (_ & _ & Hr2). cbn in Hr2. lia.
    + repeat split; auto. intros q Hq _ _. unfold ready in Hq. rewrite r_last_opt_snoc, Hr in Hq. exact Hq.
    + repeat split; auto. intros q _ _ E. discriminate.
Qed.

Lemma finish_last_obj_safe f p elems endp elems1 endp1 r1 :
  finish_P f -> (fb (p + 1) <= f)%nat ->
  Forall (fun kv => sane L (p + 1) (fst kv) /\ sane L (p + 1) (snd kv)) elems -> p < endp -> endp <= L ->
  finish_last_obj (finish W trap f bs) elems endp = (elems1, endp1, r1) ->
  Forall (fun kv => sane L (p + 1) (fst kv) /\ sane L (p + 1) (snd kv)) elems1 /\ lenN elems1 = lenN elems /\
  pkexts elems elems1 /\ p < endp1 /\ endp1 <= L /\ res_fine r1 /\
  (forall q, pready q elems endp -> (fb q <= f)%nat -> r1 = Ok tt -> q < endp1).
Proof.
  intros IH Hfu Hall Hp HL Heq. unfold finish_last_obj in Heq.
  destruct (r_snoc_cases elems) as [->|(es0 & [k x] & ->)].
  - rewrite r_last_opt_nil in Heq. inversion Heq; subst.
    repeat split; auto; try apply pkexts_refl; try (intros q Hq _ _; exact Hq).
  - rewrite r_last_opt_snoc in Heq. destruct (finish W trap f bs x) as [x' r] eqn:Ef.
    rewrite r_upd_last_snoc in Heq.
    apply Forall_app in Hall. destruct Hall as [Hall0 Hx]. inversion Hx as [|? ? [Hk1 Hx1] _]; subst.
    cbn [fst snd] in Hk1, Hx1.
    destruct (IH _ _ _ _ Hx1 Hfu Ef) as (Hs' & Hk & Hr).
    assert (Hall' : Forall (fun kv => sane L (p + 1) (fst kv) /\ sane L (p + 1) (snd kv)) (es0 ++ [(k, x')])).
    { apply Forall_app. split; [exact Hall0|constructor; [split; assumption|constructor]]. }
    assert (Hlen : lenN (es0 ++ [(k, x')]) = lenN (es0 ++ [(k, x)])) by (rewrite !lenN_app; reflexivity).
    pose proof (pkexts_snoc es0 k x x' Hk) as Hke.
    destruct r as [[e|]|c|s|]; cbn [fin_res_ok] in Hr; try contradiction; inversion Heq; subst.
    + destruct Hr as (Hc & H1 & H2). repeat split; auto; try lia.
      intros q Hq Hfq _. unfold pready in Hq. rewrite r_last_opt_snoc in Hq. cbn [snd] in Hq. rewrite Hc in Hq.
      destruct (finish W trap f bs x) as [x2 r2] eqn:Ef2. inversion Ef; subst.
      destruct (IH _ _ _ _ Hq Hfq Ef2) as (_ & _ & Hr2). cbn in Hr2. lia.
    + repeat split; auto. intros q Hq _ _. unfold pready in Hq. rewrite r_last_opt_snoc in Hq. cbn [snd] in Hq.
      rewrite Hr in Hq. exact Hq.
    + repeat split; auto. intros q _ _ E. discriminate.
Qed.

Lemma to_nat_sub_lt a b : a < b -> b <= L -> (N.to_nat (L - b) + 1 <= N.to_nat (L - a))%nat.
Proof. lia. Qed.

Lemma finish_safe_all : forall fuel, finish_P fuel /\ fin_arr_P fuel /\ fin_obj_P fuel.
Proof.
  induction fuel as [|f (IHf & IHa & IHo)].
  - unfold finish_P, fin_arr_P, fin_obj_P. split; [|split]; intros; unfold fb, la in *; lia.
  - split; [|split].
    + (* finish *)
      intros n p n' r Hs Hfu Heq. rewrite r_finish_S in Heq.
      destruct n as [| | | |len elems endp|len elems endp];
        try (inversion Heq; subst; split; [exact Hs|split; [apply keeps_refl|reflexivity]]).
      * destruct (sane_arr_inv _ _ _ _ _ Hs) as (H1 & H2 & H3 & H4).
        destruct (finish_last_arr (finish W trap f bs) elems endp) as [[elems1 endp1] r1] eqn:Efl.
        assert (Hf1 : (fb (p + 1) <= f)%nat) by (unfold fb in *; lia).
        destruct (finish_last_arr_safe f p _ _ _ _ _ IHf Hf1 H4 H2 H3 Efl) as (A1 & A2 & A3 & A4 & A5 & A6 & _).
        assert (Hs1 : sane L p (LArr len elems1 endp1)) by (constructor; auto; lia).
        assert (Hk1 : keeps (LArr len elems endp) (LArr len elems1 endp1)) by (apply keeps_arr; exact A3).
        destruct r1 as [[]|c|s|]; cbn [res_fine] in A6; try contradiction.
        -- destruct (N.ltb_spec len (lenN elems1)); [lia|].
           assert (Hla : (la endp1 <= f)%nat) by (unfold fb, la in *; pose proof (to_nat_sub_lt p endp1 A4 A5); lia).
           destruct (IHa _ _ _ _ _ _ Hs1 Hla Heq) as (B1 & B2 & B3).
           repeat split; [exact B1|eapply keeps_trans; eauto|exact B3].
        -- inversion Heq; subst. repeat split; auto.
      * destruct (sane_obj_inv _ _ _ _ _ Hs) as (H1 & H2 & H3 & H4).
        destruct (finish_last_obj (finish W trap f bs) elems endp) as [[elems1 endp1] r1] eqn:Efl.
        assert (Hf1 : (fb (p + 1) <= f)%nat) by (unfold fb in *; lia).
        destruct (finish_last_obj_safe f p _ _ _ _ _ IHf Hf1 H4 H2 H3 Efl) as (A1 & A2 & A3 & A4 & A5 & A6 & _).
        assert (Hs1 : sane L p (LObj len elems1 endp1)) by (constructor; auto; lia).
        assert (Hk1 : keeps (LObj len elems endp) (LObj len elems1 endp1)) by (apply keeps_obj; exact A3).
        destruct r1 as [[]|c|s|]; cbn [res_fine] in A6; try contradiction.
        -- destruct (N.ltb_spec len (lenN elems1)); [lia|].
           assert (Hla : (la endp1 <= f)%nat) by (unfold fb, la in *; pose proof (to_nat_sub_lt p endp1 A4 A5); lia).
           destruct (IHo _ _ _ _ _ _ Hs1 Hla Heq) as (B1 & B2 & B3).
           repeat split; [exact B1|eapply keeps_trans; eauto|exact B3].
        -- inversion Heq; subst. repeat split; auto.
    + (* fin_arr *)
      intros len elems endp p n' r Hs Hfu Heq. rewrite r_fin_arr_S in Heq.
      destruct (sane_arr_inv _ _ _ _ _ Hs) as (H1 & H2 & H3 & H4).
      destruct (N.leb_spec len (lenN elems)) as [Hle|Hgt].
      { inversion Heq; subst. split; [exact Hs|split; [apply keeps_refl|cbn [fin_res_ok is_comp]; auto]]. }
      pose proof (Hnew endp) as Hn.
      destruct (lz_new W trap bs endp) as [[v e0]|c|s|]; cbn [new_sane] in Hn; try contradiction.
      2:{ inversion Heq; subst. split; [exact Hs|split; [apply keeps_refl|exact I]]. }
      destruct Hn as [Hsv He0].
      destruct (finish W trap f bs v) as [v' rv] eqn:Ef.
      assert (Hfv : (fb endp <= f)%nat) by (unfold fb, la in *; lia).
      destruct (IHf _ _ _ _ Hsv Hfv Ef) as (C1 & C2 & C3).
      assert (Hnext : forall e, endp < e -> e <= L ->
                fin_arr W trap f bs len (elems ++ [v']) e = (n', r) ->
                sane L p n' /\ keeps (LArr len elems endp) n' /\ fin_res_ok p (LArr len elems endp) r).
      { intros e E1 E2 Hrec.
        assert (Hs2 : sane L p (LArr len (elems ++ [v']) e)).
        { constructor; try lia.
          - rewrite lenN_app, lenN_one. lia.
          - apply Forall_app. split; [exact H4|]. constructor; [|constructor].
            eapply sane_mono; [exact C1|lia]. }
        assert (Hla : (la e <= f)%nat) by (unfold la in *; pose proof (to_nat_sub_lt endp e E1 E2); lia).
        destruct (IHa _ _ _ _ _ _ Hs2 Hla Hrec) as (B1 & B2 & B3).
        repeat split; [exact B1| |exact B3].
        eapply keeps_trans; [|exact B2]. apply keeps_arr. apply kexts_app. }
      destruct rv as [[e|]|c|s|]; cbn [fin_res_ok] in C3; try contradiction.
      * destruct C3 as (_ & E1 & E2). apply (Hnext e E1 E2 Heq).
      * rewrite C3 in He0. destruct He0 as (e' & -> & E1 & E2). apply (Hnext e' E1 E2 Heq).
      * inversion Heq; subst. split; [exact Hs|split; [apply keeps_refl|exact I]].
    + (* fin_obj *)
      intros len elems endp p n' r Hs Hfu Heq. rewrite r_fin_obj_S in Heq.
      destruct (sane_obj_inv _ _ _ _ _ Hs) as (H1 & H2 & H3 & H4).
      destruct (N.leb_spec len (lenN elems)) as [Hle|Hgt].
      { inversion Heq; subst. split; [exact Hs|split; [apply keeps_refl|cbn [fin_res_ok is_comp]; auto]]. }
      pose proof (new_key_safe endp) as Hk.
      destruct (new_key W trap bs endp) as [[k ke]|c|s|]; try contradiction.
      2:{ inversion Heq; subst. split; [exact Hs|split; [apply keeps_refl|exact I]]. }
      destruct Hk as (Hks & Hsk & K1 & K2).
      pose proof (Hnew ke) as Hn.
      destruct (lz_new W trap bs ke) as [[v e0]|c|s|]; cbn [new_sane] in Hn; try contradiction.
      2:{ inversion Heq; subst. split; [exact Hs|split; [apply keeps_refl|exact I]]. }
      destruct Hn as [Hsv He0].
      destruct (finish W trap f bs v) as [v' rv] eqn:Ef.
      assert (Hfv : (fb ke <= f)%nat) by (unfold fb, la in *; pose proof (to_nat_sub_lt endp ke K1 K2); lia).
      destruct (IHf _ _ _ _ Hsv Hfv Ef) as (C1 & C2 & C3).
      assert (Hnext : forall e, ke < e -> e <= L ->
                fin_obj W trap f bs len (elems ++ [(k, v')]) e = (n', r) ->
                sane L p n' /\ keeps (LObj len elems endp) n' /\ fin_res_ok p (LObj len elems endp) r).
      { intros e E1 E2 Hrec.
        assert (Hs2 : sane L p (LObj len (elems ++ [(k, v')]) e)).
        { constructor; try lia.
          - rewrite lenN_app, lenN_one. lia.
          - apply Forall_app. split; [exact H4|]. constructor; [|constructor]. cbn [fst snd].
            split; [eapply sane_mono; [exact Hsk|lia]|eapply sane_mono; [exact C1|lia]]. }
        assert (Hla : (la e <= f)%nat).
        { unfold la in *. pose proof (to_nat_sub_lt endp e ltac:(lia) E2). lia. }
        destruct (IHo _ _ _ _ _ _ Hs2 Hla Hrec) as (B1 & B2 & B3).
        repeat split; [exact B1| |exact B3].
        eapply keeps_trans; [|exact B2]. apply keeps_obj. apply pkexts_app. }
      destruct rv as [[e|]|c|s|]; cbn [fin_res_ok] in C3; try contradiction.
      * destruct C3 as (_ & E1 & E2). apply (Hnext e E1 E2 Heq).
      * rewrite C3 in He0. destruct He0 as (e' & -> & E1 & E2). apply (Hnext e' E1 E2 Heq).
      * inversion Heq; subst. split; [exact Hs|split; [apply keeps_refl|exact I]].
Qed.

Lemma finish_safe fuel : finish_P fuel.
Proof. apply finish_safe_all. Qed.

(** ** the indexing loops *)
Definition ga (q : N) : nat := (fb 0 + N.to_nat (L - q) + 1)%nat.

Lemma fb_le_0 p : (fb p <= fb 0)%nat.
Proof. unfold fb. lia. Qed.

Lemma r_arr_get_loop_S f elems endp idx : arr_get_loop W trap (S f) bs elems endp idx =
    if idx <? lenN elems then (elems, endp, Ok tt)
    else
      let '(elems1, endp1, r) := finish_last_arr (finish W trap f bs) elems endp in
      match r with
      | Ok _ =>
          match lz_new W trap bs endp1 with
          | Ok (v, e0) =>
              let endp2 := match e0 with Some e => e | None => endp1 end in
              arr_get_loop W trap f bs (elems1 ++ [v]) endp2 idx
          | Err c => (elems1, endp1, Err c)
          | Panic s => (elems1, endp1, Panic s)
          | OutOfFuel => (elems1, endp1, OutOfFuel)
          end
      | r' => (elems1, endp1, r')
      end.
Proof. reflexivity. Qed.

Lemma r_obj_get_loop_S f elems endp idx : obj_get_loop W trap (S f) bs elems endp idx =
    if idx <? lenN elems then (elems, endp, Ok tt)
    else
      let '(elems1, endp1, r) := finish_last_obj (finish W trap f bs) elems endp in
      match r with
      | Ok _ =>
          match new_key W trap bs endp1 with
          | Ok (k, ke) =>
              match lz_new W trap bs ke with
              | Ok (v, e0) =>
                  let endp2 := match e0 with Some e => e | None => ke end in
                  obj_get_loop W trap f bs (elems1 ++ [(k, v)]) endp2 idx
              | Err c => (elems1, endp1, Err c)
              | Panic s => (elems1, endp1, Panic s)
              | OutOfFuel => (elems1, endp1, OutOfFuel)
              end
          | Err c => (elems1, endp1, Err c)
          | Panic s => (elems1, endp1, Panic s)
          | OutOfFuel => (elems1, endp1, OutOfFuel)
          end
      | r' => (elems1, endp1, r')
      end.
Proof. reflexivity. Qed.

Lemma r_prop_scan_S f key len elems endp : prop_scan W trap (S f) bs key len elems endp =
    if len <=? lenN elems then (elems, endp, Ok None)
    else
      let '(elems1, endp1, r) := finish_last_obj (finish W trap f bs) elems endp in
      match r with
      | Ok _ =>
          match new_key W trap bs endp1 with
          | Ok (LStr kp kl as k, ke) =>
              match key_matches bs kp kl key with
              | Ok matched =>
                  match lz_new W trap bs ke with
                  | Ok (v, e0) =>
                      let endp2 := match e0 with Some e => e | None => ke end in
                      let elems2 := elems1 ++ [(k, v)] in
                      if matched then (elems2, endp2, Ok (Some (lenN elems2 - 1)))
                      else prop_scan W trap f bs key len elems2 endp2
                  | Err c => (elems1, endp1, Err c)
                  | Panic s => (elems1, endp1, Panic s)
                  | OutOfFuel => (elems1, endp1, OutOfFuel)
                  end
              | Err c => (elems1, endp1, Err c)
              | Panic s => (elems1, endp1, Panic s)
              | OutOfFuel => (elems1, endp1, OutOfFuel)
              end
          | Ok (_, _) => (elems1, endp1, Err E_Read)
          | Err c => (elems1, endp1, Err c)
          | Panic s => (elems1, endp1, Panic s)
          | OutOfFuel => (elems1, endp1, OutOfFuel)
          end
      | Err c => (elems1, endp1, Err c)
      | Panic s => (elems1, endp1, Panic s)
      | OutOfFuel => (elems1, endp1, OutOfFuel)
      end.
Proof. reflexivity. Qed.

Lemma arr_get_loop_safe : forall fuel p q len elems endp idx elems' endp' r,
  sane L p (LArr len elems endp) -> idx < len -> ready q elems endp -> p <= q ->
  (ga q <= fuel)%nat -> arr_get_loop W trap fuel bs elems endp idx = (elems', endp', r) ->
  sane L p (LArr len elems' endp') /\ kexts elems elems' /\ res_fine r /\ (r = Ok tt -> idx < lenN elems').
Proof.
  induction fuel as [|f IH]; intros p q len elems endp idx elems' endp' r Hs Hidx Hrd Hpq Hfu Heq.
  - unfold ga, fb in Hfu. lia.
  - rewrite r_arr_get_loop_S in Heq.
    destruct (N.ltb_spec idx (lenN elems)) as [Hlt|Hge].
    { inversion Heq; subst. repeat split; auto. apply kexts_refl. }
    destruct (sane_arr_inv _ _ _ _ _ Hs) as (H1 & H2 & H3 & H4).
    destruct (finish_last_arr (finish W trap f bs) elems endp) as [[elems1 endp1] r1] eqn:Efl.
    assert (Hf1 : (fb (p + 1) <= f)%nat) by (pose proof (fb_le_0 (p + 1)); unfold ga in Hfu; lia).
    assert (Hfq : (fb q <= f)%nat) by (pose proof (fb_le_0 q); unfold ga in Hfu; lia).
    destruct (finish_last_arr_safe f p _ _ _ _ _ (finish_safe f) Hf1 H4 H2 H3 Efl) as (A1 & A2 & A3 & A4 & A5 & A6 & A7).
    assert (Hs1 : sane L p (LArr len elems1 endp1)) by (constructor; auto; lia).
    destruct r1 as [[]|c|s|]; cbn [res_fine] in A6; try contradiction.
    2:{ inversion Heq; subst. repeat split; auto. discriminate. }
    specialize (A7 q Hrd Hfq eq_refl).
    pose proof (Hnew endp1) as Hn.
    destruct (lz_new W trap bs endp1) as [[v e0]|c|s|]; cbn [new_sane] in Hn; try contradiction.
    2:{ inversion Heq; subst. repeat split; auto. discriminate. }
    destruct Hn as [Hsv He0]. cbv zeta in Heq.
    set (endp2 := match e0 with Some e => e | None => endp1 end) in *.
    assert (He2 : endp1 <= endp2 /\ endp2 <= L /\ (is_comp v = false -> endp1 < endp2)).
    { unfold endp2. destruct (is_comp v).
      - subst e0. repeat split; try lia; try discriminate.
      - destruct He0 as (e' & -> & E1 & E2). repeat split; lia. }
    destruct He2 as (E1 & E2 & E3).
    destruct (IH p endp1 len (elems1 ++ [v]) endp2 idx elems' endp' r) as (B1 & B2 & B3 & B4); try assumption.
    + constructor; try lia.
      * rewrite lenN_app, lenN_one. lia.
      * apply Forall_app. split; [exact A1|]. constructor; [|constructor]. eapply sane_mono; [exact Hsv|lia].
    + unfold ready. rewrite r_last_opt_snoc. destruct (is_comp v); [exact Hsv|auto].
    + lia.
    + unfold ga in *. pose proof (to_nat_sub_lt q endp1 A7 A5). lia.
    + repeat split; auto. eapply kexts_trans; [exact A3|]. eapply kexts_trans; [apply kexts_app|exact B2].
Qed.

Definition psane (p : N) (kv : lz * lz) : Prop := sane L (p + 1) (fst kv) /\ sane L (p + 1) (snd kv).

Lemma obj_get_loop_safe : forall fuel p q len elems endp idx elems' endp' r,
  sane L p (LObj len elems endp) -> idx < len -> pready q elems endp -> p <= q ->
  (ga q <= fuel)%nat -> obj_get_loop W trap fuel bs elems endp idx = (elems', endp', r) ->
  sane L p (LObj len elems' endp') /\ pkexts elems elems' /\ res_fine r /\ (r = Ok tt -> idx < lenN elems').
Proof.
  induction fuel as [|f IH]; intros p q len elems endp idx elems' endp' r Hs Hidx Hrd Hpq Hfu Heq.
  - unfold ga, fb in Hfu. lia.
  - rewrite r_obj_get_loop_S in Heq.
    destruct (N.ltb_spec idx (lenN elems)) as [Hlt|Hge].
    { inversion Heq; subst. repeat split; auto. apply pkexts_refl. }
    destruct (sane_obj_inv _ _ _ _ _ Hs) as (H1 & H2 & H3 & H4).
    destruct (finish_last_obj (finish W trap f bs) elems endp) as [[elems1 endp1] r1] eqn:Efl.
    assert (Hf1 : (fb (p + 1) <= f)%nat) by (pose proof (fb_le_0 (p + 1)); unfold ga in Hfu; lia).
    assert (Hfq : (fb q <= f)%nat) by (pose proof (fb_le_0 q); unfold ga in Hfu; lia).
    destruct (finish_last_obj_safe f p _ _ _ _ _ (finish_safe f) Hf1 H4 H2 H3 Efl) as (A1 & A2 & A3 & A4 & A5 & A6 & A7).
    assert (Hs1 : sane L p (LObj len elems1 endp1)) by (constructor; auto; lia).
    destruct r1 as [[]|c|s|]; cbn [res_fine] in A6; try contradiction.
    2:{ inversion Heq; subst. repeat split; auto. discriminate. }
    specialize (A7 q Hrd Hfq eq_refl).
    pose proof (new_key_safe endp1) as Hk.
    destruct (new_key W trap bs endp1) as [[k ke]|c|s|]; try contradiction.
    2:{ inversion Heq; subst. repeat split; auto. discriminate. }
    destruct Hk as (Hks & Hsk & K1 & K2).
    pose proof (Hnew ke) as Hn.
    destruct (lz_new W trap bs ke) as [[v e0]|c|s|]; cbn [new_sane] in Hn; try contradiction.
    2:{ inversion Heq; subst. repeat split; auto. discriminate. }
    destruct Hn as [Hsv He0]. cbv zeta in Heq.
    set (endp2 := match e0 with Some e => e | None => ke end) in *.
    assert (He2 : ke <= endp2 /\ endp2 <= L /\ (is_comp v = false -> ke < endp2)).
    { unfold endp2. destruct (is_comp v).
      - subst e0. repeat split; try lia; try discriminate.
      - destruct He0 as (e' & -> & E1 & E2). repeat split; lia. }
    destruct He2 as (E1 & E2 & E3).
    destruct (IH p ke len (elems1 ++ [(k, v)]) endp2 idx elems' endp' r) as (B1 & B2 & B3 & B4); try assumption.
    + constructor; try lia.
      * rewrite lenN_app, lenN_one. lia.
      * apply Forall_app. split; [exact A1|]. constructor; [|constructor]. cbn [fst snd].
        split; [eapply sane_mono; [exact Hsk|lia]|eapply sane_mono; [exact Hsv|lia]].
    + unfold pready. rewrite r_last_opt_snoc. cbn [snd]. destruct (is_comp v); [exact Hsv|auto].
    + lia.
    + unfold ga in *. pose proof (to_nat_sub_lt q ke ltac:(lia) K2). lia.
    + repeat split; auto. eapply pkexts_trans; [exact A3|]. eapply pkexts_trans; [apply pkexts_app|exact B2].
Qed.

Lemma key_matches_safe ptr len key : ptr + len <= L -> exists b, key_matches bs ptr len key = Ok b.
Proof. intros H. unfold key_matches. fold L. destruct (N.ltb_spec L (ptr + len)); [lia|eauto]. Qed.

Lemma prop_scan_safe key : forall fuel p q len elems endp elems' endp' r,
  sane L p (LObj len elems endp) -> pready q elems endp -> p <= q ->
  (ga q <= fuel)%nat -> prop_scan W trap fuel bs key len elems endp = (elems', endp', r) ->
  sane L p (LObj len elems' endp') /\ pkexts elems elems' /\ res_fine r /\
  (forall i, r = Ok (Some i) -> i < lenN elems').
Proof.
  induction fuel as [|f IH]; intros p q len elems endp elems' endp' r Hs Hrd Hpq Hfu Heq.
  - unfold ga, fb in Hfu. lia.
  - rewrite r_prop_scan_S in Heq.
    destruct (N.leb_spec len (lenN elems)) as [Hle|Hgt].
    { inversion Heq; subst. repeat split; auto. apply pkexts_refl. discriminate. }
    destruct (sane_obj_inv _ _ _ _ _ Hs) as (H1 & H2 & H3 & H4).
    destruct (finish_last_obj (finish W trap f bs) elems endp) as [[elems1 endp1] r1] eqn:Efl.
    assert (Hf1 : (fb (p + 1) <= f)%nat) by (pose proof (fb_le_0 (p + 1)); unfold ga in Hfu; lia).
    assert (Hfq : (fb q <= f)%nat) by (pose proof (fb_le_0 q); unfold ga in Hfu; lia).
    destruct (finish_last_obj_safe f p _ _ _ _ _ (finish_safe f) Hf1 H4 H2 H3 Efl) as (A1 & A2 & A3 & A4 & A5 & A6 & A7).
    assert (Hs1 : sane L p (LObj len elems1 endp1)) by (constructor; auto; lia).
    destruct r1 as [[]|c|s|]; cbn [res_fine] in A6; try contradiction.
    2:{ inversion Heq; subst. repeat split; auto. discriminate. }
    specialize (A7 q Hrd Hfq eq_refl).
    pose proof (new_key_safe endp1) as Hk.
    destruct (new_key W trap bs endp1) as [[k ke]|c|s|]; try contradiction.
    2:{ inversion Heq; subst. repeat split; auto. discriminate. }
    destruct Hk as (Hks & Hsk & K1 & K2).
    destruct k as [| | |kp kl| |]; try discriminate.
    inversion Hsk as [| | |? ? ? Hkb| |]; subst.
    destruct (key_matches_safe kp kl key Hkb) as [matched Hm]. rewrite Hm in Heq.
    pose proof (Hnew ke) as Hn.
    destruct (lz_new W trap bs ke) as [[v e0]|c|s|]; cbn [new_sane] in Hn; try contradiction.
    2:{ inversion Heq; subst. repeat split; auto. discriminate. }
    destruct Hn as [Hsv He0]. cbv zeta in Heq.
    set (endp2 := match e0 with Some e => e | None => ke end) in *.
    assert (He2 : ke <= endp2 /\ endp2 <= L /\ (is_comp v = false -> ke < endp2)).
    { unfold endp2. destruct (is_comp v).
      - subst e0. repeat split; try lia; try discriminate.
      - destruct He0 as (e' & -> & E1 & E2). repeat split; lia. }
    destruct He2 as (E1 & E2 & E3).
    assert (Hs2 : sane L p (LObj len (elems1 ++ [(LStr kp kl, v)]) endp2)).
    { constructor; try lia.
      * rewrite lenN_app, lenN_one. lia.
      * apply Forall_app. split; [exact A1|]. constructor; [|constructor]. cbn [fst snd].
        split; [constructor; exact Hkb|eapply sane_mono; [exact Hsv|lia]]. }
    destruct matched.
    + inversion Heq; subst. repeat split; auto.
      * eapply pkexts_trans; [exact A3|apply pkexts_app].
      * intros i Hi. inversion Hi; subst. rewrite lenN_app, lenN_one. lia.
    + destruct (IH p ke len (elems1 ++ [(LStr kp kl, v)]) endp2 elems' endp' r) as (B1 & B2 & B3 & B4); try assumption.
      * unfold pready. rewrite r_last_opt_snoc. cbn [snd]. destruct (is_comp v); [exact Hsv|auto].
      * lia.
      * unfold ga in *. pose proof (to_nat_sub_lt q ke ltac:(lia) K2). lia.
      * repeat split; auto. eapply pkexts_trans; [exact A3|]. eapply pkexts_trans; [apply pkexts_app|exact B2].
Qed.

Lemma find_processed_safe key : forall elems p i, Forall (psane p) elems ->
  exists r, find_processed bs key elems i = Ok r /\ (forall j, r = Some j -> j < i + lenN elems).
Proof.
  induction elems as [|[k v] elems IH]; intros p i Hall.
  - exists None. split; [reflexivity|discriminate].
  - inversion Hall as [|? ? [Hk Hv] Hr]; subst. cbn [fst snd] in Hk, Hv.
    destruct (IH p (i + 1) Hr) as (r & Hf & Hj). rewrite lenN_cons.
    destruct k as [| | |kp kl| |]; cbn [find_processed];
      try (exists r; split; [exact Hf|intros j E; specialize (Hj j E); lia]).
    inversion Hk as [| | |? ? ? Hkb| |]; subst.
    destruct (key_matches_safe kp kl key Hkb) as [[] ->].
    + exists (Some i). split; [reflexivity|]. intros j E. inversion E; subst. lia.
    + exists r. split; [exact Hf|intros j E; specialize (Hj j E); lia].
Qed.

(** * Node-level statements *)
Lemma ready_init p len elems endp : sane L p (LArr len elems endp) -> ready p elems endp.
Proof.
  intros Hs. destruct (sane_arr_inv _ _ _ _ _ Hs) as (H1 & H2 & H3 & H4). unfold ready.
  destruct (r_snoc_cases elems) as [->|(es0 & x & ->)].
  - rewrite r_last_opt_nil. exact H2.
  - rewrite r_last_opt_snoc. apply Forall_app in H4. destruct H4 as [_ Hx]. inversion Hx; subst.
    destruct (is_comp x); [eapply sane_mono; [eassumption|lia]|exact H2].
Qed.
Lemma pready_init p len elems endp : sane L p (LObj len elems endp) -> pready p elems endp.
Proof.
  intros Hs. destruct (sane_obj_inv _ _ _ _ _ Hs) as (H1 & H2 & H3 & H4). unfold pready.
  destruct (r_snoc_cases elems) as [->|(es0 & [k x] & ->)].
  - rewrite r_last_opt_nil. exact H2.
  - rewrite r_last_opt_snoc. apply Forall_app in H4. destruct H4 as [_ Hx]. inversion Hx as [|? ? [Hk Hv] _]; subst.
    cbn [snd] in *. destruct (is_comp x); [eapply sane_mono; [eassumption|lia]|exact H2].
Qed.

Lemma ga_le_0 q : (ga q <= ga 0)%nat.
Proof. unfold ga. lia. Qed.

Lemma arr_get_safe fuel p len elems endp idx n' r : sane L p (LArr len elems endp) -> (ga 0 <= fuel)%nat ->
  arr_get W trap fuel bs len elems endp idx = (n', r) ->
  sane L p n' /\ keeps (LArr len elems endp) n' /\ res_fine r /\ (r = Ok tt -> get_node n' [SIdx idx] <> None).
Proof.
  intros Hs Hfu Heq. unfold arr_get in Heq. destruct (N.leb_spec len idx) as [|Hidx].
  { inversion Heq; subst. repeat split; auto. apply keeps_refl. discriminate. }
  destruct (arr_get_loop W trap fuel bs elems endp idx) as [[e' p'] r'] eqn:El. inversion Heq; subst.
  destruct (arr_get_loop_safe fuel p p len elems endp idx e' p' r Hs Hidx (ready_init _ _ _ _ Hs) (N.le_refl _)) as (B1 & B2 & B3 & B4);
    [pose proof (ga_le_0 p); lia|exact El|].
  repeat split; auto.
  - apply keeps_arr. exact B2.
  - intros E. specialize (B4 E). cbn [get_node]. destruct (nthN_lt_Some e' idx B4) as [x ->]. discriminate.
Qed.

Lemma obj_get_safe fuel p len elems endp idx n' r : sane L p (LObj len elems endp) -> (ga 0 <= fuel)%nat ->
  obj_get W trap fuel bs len elems endp idx = (n', r) ->
  sane L p n' /\ keeps (LObj len elems endp) n' /\ res_fine r /\
  (r = Ok tt -> get_node n' [SKey idx] <> None /\ get_node n' [SVal idx] <> None).
Proof.
  intros Hs Hfu Heq. unfold obj_get in Heq. destruct (N.leb_spec len idx) as [|Hidx].
  { inversion Heq; subst. repeat split; auto; try apply keeps_refl; discriminate. }
  destruct (obj_get_loop W trap fuel bs elems endp idx) as [[e' p'] r'] eqn:El. inversion Heq; subst.
  destruct (obj_get_loop_safe fuel p p len elems endp idx e' p' r Hs Hidx (pready_init _ _ _ _ Hs) (N.le_refl _)) as (B1 & B2 & B3 & B4);
    [pose proof (ga_le_0 p); lia|exact El|].
  split; [exact B1|]. split; [apply keeps_obj; exact B2|]. split; [exact B3|].
  intros E. specialize (B4 E). cbn [get_node]. destruct (nthN_lt_Some e' idx B4) as [[xk xv] ->]. split; discriminate.
Qed.

Lemma obj_prop_safe fuel key p len elems endp n' r : sane L p (LObj len elems endp) -> (ga 0 <= fuel)%nat ->
  obj_prop W trap fuel bs key len elems endp = (n', r) ->
  sane L p n' /\ keeps (LObj len elems endp) n' /\ res_fine r /\
  (forall i, r = Ok (Some i) -> get_node n' [SVal i] <> None).
Proof.
  intros Hs Hfu Heq. unfold obj_prop in Heq.
  destruct (sane_obj_inv _ _ _ _ _ Hs) as (H1 & H2 & H3 & H4).
  destruct (find_processed_safe key elems p 0 H4) as (r0 & Hf & Hj). rewrite Hf in Heq.
  destruct r0 as [i|].
  - inversion Heq; subst. split; [exact Hs|]. split; [apply keeps_refl|]. split; [exact I|].
    intros j E. inversion E; subst j. specialize (Hj i eq_refl).
    destruct (nthN_lt_Some elems i ltac:(lia)) as [[xk xv] Hx]. cbn [get_node]. rewrite Hx. discriminate.
  - destruct (N.ltb_spec len (lenN elems)); [lia|].
    destruct (prop_scan W trap fuel bs key len elems endp) as [[e' p'] r'] eqn:El. inversion Heq; subst.
    destruct (prop_scan_safe key fuel p p len elems endp e' p' r Hs (pready_init _ _ _ _ Hs) (N.le_refl _)) as (B1 & B2 & B3 & B4);
      [pose proof (ga_le_0 p); lia|exact El|].
    split; [exact B1|]. split; [apply keeps_obj; exact B2|]. split; [exact B3|].
    intros i E. specialize (B4 i E). destruct (nthN_lt_Some e' i B4) as [[xk xv] Hx].
    cbn [get_node]. rewrite Hx. discriminate.
Qed.

(** * Forest level *)
Lemma r_nthN_set_nth_eq {A} (l : list A) : forall i x y, nthN l i = Some y -> nthN (set_nth l i x) i = Some x.
Proof.
  induction l as [|z l IH]; intros i x y H; [discriminate|].
  cbn [nthN set_nth] in *. destruct (N.eqb_spec i 0) as [->|Hi].
  - reflexivity.
  - cbn [nthN]. destruct (N.eqb_spec i 0); [lia|]. eapply IH; eauto.
Qed.
Lemma r_nthN_set_nth_neq {A} (l : list A) : forall i j x, i <> j -> nthN (set_nth l i x) j = nthN l j.
Proof.
  induction l as [|z l IH]; intros i j x H; [reflexivity|].
  cbn [set_nth]. destruct (N.eqb_spec i 0) as [->|Hi].
  - cbn [nthN]. destruct (N.eqb_spec j 0); [lia|reflexivity].
  - cbn [nthN]. destruct (N.eqb_spec j 0); [reflexivity|]. apply IH. lia.
Qed.
Lemma r_lenN_set_nth {A} (l : list A) : forall i x, lenN (set_nth l i x) = lenN l.
Proof.
  induction l as [|z l IH]; intros i x; [reflexivity|].
  cbn [set_nth]. destruct (i =? 0); [reflexivity|]. rewrite !lenN_cons, IH. reflexivity.
Qed.
Lemma r_nthN_In {A} (l : list A) : forall i x, nthN l i = Some x -> In x l.
Proof.
  induction l as [|y l IH]; intros i x H; [discriminate|].
  cbn [nthN] in H. destruct (i =? 0); [inversion H; left; reflexivity|right; eapply IH; eauto].
Qed.
Lemma r_Forall_set_nth {A} (P : A -> Prop) (l : list A) : forall i x, Forall P l -> P x -> Forall P (set_nth l i x).
Proof.
  induction l as [|y l IH]; intros i x Hl Hx; [constructor|].
  inversion Hl; subst. cbn [set_nth]. destruct (i =? 0); constructor; auto.
Qed.

Lemma r_get_set_app r : forall q l x p, get_node r q = Some l -> get_node (set_node r q x) (q ++ p) = get_node x p.
Proof.
  intros q. revert r. induction q as [|st q IH]; intros r l x p Hg.
  - reflexivity.
  - destruct st as [i|i|i], r as [| | | |n es e|n es e]; cbn [get_node] in Hg; try discriminate;
      cbn [set_node app].
    + destruct (nthN es i) as [c|] eqn:E; [|discriminate]. cbn [get_node].
      erewrite r_nthN_set_nth_eq by eauto. eapply IH; eauto.
    + destruct (nthN es i) as [[k v]|] eqn:E; [|discriminate]. cbn [get_node].
      erewrite r_nthN_set_nth_eq by eauto. eapply IH; eauto.
    + destruct (nthN es i) as [[k v]|] eqn:E; [|discriminate]. cbn [get_node].
      erewrite r_nthN_set_nth_eq by eauto. eapply IH; eauto.
Qed.

Lemma sane_get : forall pth r p l, sane L p r -> get_node r pth = Some l -> exists p', sane L p' l.
Proof.
  induction pth as [|st pth IH]; intros r p l Hs Hg.
  - cbn in Hg. inversion Hg; subst. eauto.
  - destruct st as [i|i|i], r as [| | | |n es e|n es e]; cbn [get_node] in Hg; try discriminate.
    + destruct (nthN es i) as [c|] eqn:E; [|discriminate].
      destruct (sane_arr_inv _ _ _ _ _ Hs) as (_ & _ & _ & H4).
      pose proof (proj1 (Forall_forall _ _) H4 c (r_nthN_In _ _ _ E)) as Hc. eapply IH; [exact Hc|exact Hg].
    + destruct (nthN es i) as [[k v]|] eqn:E; [|discriminate].
      destruct (sane_obj_inv _ _ _ _ _ Hs) as (_ & _ & _ & H4).
      pose proof (proj1 (Forall_forall _ _) H4 _ (r_nthN_In _ _ _ E)) as [Hk Hv]. cbn [fst snd] in Hk, Hv. eapply IH; [exact Hk|exact Hg].
    + destruct (nthN es i) as [[k v]|] eqn:E; [|discriminate].
      destruct (sane_obj_inv _ _ _ _ _ Hs) as (_ & _ & _ & H4).
      pose proof (proj1 (Forall_forall _ _) H4 _ (r_nthN_In _ _ _ E)) as [Hk Hv]. cbn [fst snd] in Hk, Hv. eapply IH; [exact Hv|exact Hg].
Qed.

Lemma sane_set : forall pth r p l l', sane L p r -> get_node r pth = Some l ->
  (forall p', sane L p' l -> sane L p' l') -> sane L p (set_node r pth l').
Proof.
  induction pth as [|st pth IH]; intros r p l l' Hs Hg Ht.
  - cbn in Hg. inversion Hg; subst. cbn. auto.
  - destruct st as [i|i|i], r as [| | | |n es e|n es e]; cbn [get_node] in Hg; try discriminate; cbn [set_node].
    + destruct (nthN es i) as [c|] eqn:E; [|discriminate].
      destruct (sane_arr_inv _ _ _ _ _ Hs) as (H1 & H2 & H3 & H4).
      pose proof (proj1 (Forall_forall _ _) H4 c (r_nthN_In _ _ _ E)) as Hc.
      constructor; auto; [rewrite r_lenN_set_nth; exact H1|].
      apply r_Forall_set_nth; [exact H4|]. eapply IH; eauto.
    + destruct (nthN es i) as [[k v]|] eqn:E; [|discriminate].
      destruct (sane_obj_inv _ _ _ _ _ Hs) as (H1 & H2 & H3 & H4).
      pose proof (proj1 (Forall_forall _ _) H4 _ (r_nthN_In _ _ _ E)) as [Hk Hv]. cbn [fst snd] in Hk, Hv.
      constructor; auto; [rewrite r_lenN_set_nth; exact H1|].
      apply r_Forall_set_nth; [exact H4|]. cbn [fst snd]. split; [eapply IH; eauto|exact Hv].
    + destruct (nthN es i) as [[k v]|] eqn:E; [|discriminate].
      destruct (sane_obj_inv _ _ _ _ _ Hs) as (H1 & H2 & H3 & H4).
      pose proof (proj1 (Forall_forall _ _) H4 _ (r_nthN_In _ _ _ E)) as [Hk Hv]. cbn [fst snd] in Hk, Hv.
      constructor; auto; [rewrite r_lenN_set_nth; exact H1|].
      apply r_Forall_set_nth; [exact H4|]. cbn [fst snd]. split; [exact Hk|eapply IH; eauto].
Qed.

Lemma keeps_set r : forall q l l', get_node r q = Some l -> keeps l l' -> keeps r (set_node r q l').
Proof.
  intros q. revert r. induction q as [|st q IH]; intros r l l' Hg He.
  - cbn in Hg. inversion Hg; subst. exact He.
  - destruct st as [i|i|i], r as [| | | |n es e|n es e]; cbn [get_node] in Hg; try discriminate; cbn [set_node].
    + destruct (nthN es i) as [c|] eqn:E; [|discriminate].
      apply keeps_arr. intros j x Hj. destruct (N.eq_dec i j) as [<-|Hne].
      * rewrite Hj in E. inversion E; subst. erewrite r_nthN_set_nth_eq by eauto.
        eexists; split; [reflexivity|]. eapply IH; eauto.
      * rewrite r_nthN_set_nth_neq by exact Hne. exists x. split; [exact Hj|apply keeps_refl].
    + destruct (nthN es i) as [[k v]|] eqn:E; [|discriminate].
      apply keeps_obj. intros j x Hj. destruct (N.eq_dec i j) as [<-|Hne].
      * rewrite Hj in E. inversion E; subst. erewrite r_nthN_set_nth_eq by eauto.
        eexists; split; [reflexivity|]. cbn [fst snd]. split; [eapply IH; eauto|apply keeps_refl].
      * rewrite r_nthN_set_nth_neq by exact Hne. exists x. repeat split; [exact Hj|apply keeps_refl|apply keeps_refl].
    + destruct (nthN es i) as [[k v]|] eqn:E; [|discriminate].
      apply keeps_obj. intros j x Hj. destruct (N.eq_dec i j) as [<-|Hne].
      * rewrite Hj in E. inversion E; subst. erewrite r_nthN_set_nth_eq by eauto.
        eexists; split; [reflexivity|]. cbn [fst snd]. split; [apply keeps_refl|eapply IH; eauto].
      * rewrite r_nthN_set_nth_neq by exact Hne. exists x. repeat split; [exact Hj|apply keeps_refl|apply keeps_refl].
Qed.

Definition str_ok (rs : roots_t) (o : out) : Prop :=
  match o with OVal (AStr h n) => exists ptr, node_of rs h = Some (LStr ptr n) | _ => True end.
Definition RInv (rs : roots_t) (os : list out) : Prop := Forall (sane L 0) rs /\ Forall (str_ok rs) os.
Definition rkeeps (rs rs' : roots_t) : Prop :=
  forall h ptr n, node_of rs h = Some (LStr ptr n) -> node_of rs' h = Some (LStr ptr n).
Definition o_fine (o : out) : Prop := match o with OPanic _ | OStray | OFuel => False | _ => True end.

Lemma str_ok_rkeeps rs rs' os : rkeeps rs rs' -> Forall (str_ok rs) os -> Forall (str_ok rs') os.
Proof.
  intros Hk H. eapply Forall_impl; [|exact H]. intros o Ho. destruct o as [a| | | | |]; cbn [str_ok] in *; auto.
  destruct a; auto. destruct Ho as [ptr Hp]. exists ptr. apply Hk. exact Hp.
Qed.

Lemma node_sane rs h l : Forall (sane L 0) rs -> node_of rs h = Some l -> exists p, sane L p l.
Proof.
  intros Hrs Hn. unfold node_of, root_of in Hn. destruct (nthN rs (fst h)) as [r|] eqn:Er; [|discriminate].
  pose proof (proj1 (Forall_forall _ _) Hrs r (r_nthN_In _ _ _ Er)) as Hr. eapply sane_get; eauto.
Qed.

Lemma rput rs h l l' : Forall (sane L 0) rs -> node_of rs h = Some l ->
  (forall p', sane L p' l -> sane L p' l') -> keeps l l' ->
  Forall (sane L 0) (put_node rs h l') /\ rkeeps rs (put_node rs h l') /\
  (forall pth, node_of (put_node rs h l') (fst h, snd h ++ pth) = get_node l' pth).
Proof.
  intros Hrs Hn Ht Hk. unfold node_of, root_of in Hn. unfold put_node, root_of.
  destruct (nthN rs (fst h)) as [r|] eqn:Er; [|discriminate].
  pose proof (proj1 (Forall_forall _ _) Hrs r (r_nthN_In _ _ _ Er)) as Hr.
  split; [|split].
  - apply r_Forall_set_nth; [exact Hrs|]. eapply sane_set; eauto.
  - intros h' ptr n Hh'. unfold node_of, root_of in *.
    destruct (N.eq_dec (fst h) (fst h')) as [E|E].
    + rewrite <- E in *. rewrite Er in Hh'. erewrite r_nthN_set_nth_eq by eauto.
      eapply keeps_set; eauto.
    + rewrite r_nthN_set_nth_neq by exact E. exact Hh'.
  - intros pth. unfold node_of, root_of. cbn [fst snd]. erewrite r_nthN_set_nth_eq by eauto.
    eapply r_get_set_app; eauto.
Qed.

Lemma encode_sane h v p : sane L p v ->
  exists a, encode_node h v = Ok a /\ (forall h' n, a = AStr h' n -> h' = h /\ exists ptr, v = LStr ptr n).
Proof.
  intros Hs. destruct v; cbn [encode_node].
  - eexists; split; [reflexivity|discriminate].
  - eexists; split; [reflexivity|discriminate].
  - inversion Hs; subst. rewrite H1. eexists; split; [reflexivity|discriminate].
  - eexists; split; [reflexivity|]. intros h' n E. inversion E; subst. eauto.
  - eexists; split; [reflexivity|discriminate].
  - eexists; split; [reflexivity|discriminate].
Qed.

Lemma RInv_plain rs os o : RInv rs os -> str_ok rs o -> RInv rs (os ++ [o]).
Proof. intros [H1 H2] Ho. split; [exact H1|]. apply Forall_app. split; [exact H2|constructor; [exact Ho|constructor]]. Qed.

Lemma RInv_put_plain rs os h l l' o : RInv rs os -> node_of rs h = Some l ->
  (forall p', sane L p' l -> sane L p' l') -> keeps l l' -> str_ok (put_node rs h l') o ->
  RInv (put_node rs h l') (os ++ [o]).
Proof.
  intros [H1 H2] Hn Ht Hk Ho. destruct (rput rs h l l' H1 Hn Ht Hk) as (P1 & P2 & P3).
  apply RInv_plain; [|exact Ho]. split; [exact P1|]. eapply str_ok_rkeeps; eauto.
Qed.

(** the common tail of get_at_index / get_obj_key_at_index *)
Lemma after_idx rs os h l n' (r : res unit) st : RInv rs os -> node_of rs h = Some l ->
  (forall p', sane L p' l -> sane L p' n') -> keeps l n' -> res_fine r ->
  (r = Ok tt -> get_node n' [st] <> None) ->
  forall rs' o,
  (let roots' := put_node rs h n' in
   match r with
   | Ok _ =>
       match node_of roots' (child h st) with
       | Some v => (roots', out_of_res (encode_node (child h st) v))
       | None => (roots', OPanic 0)
       end
   | Err c => (roots', OVal (AErr c))
   | Panic s => (roots', OPanic s)
   | OutOfFuel => (roots', OFuel)
   end) = (rs', o) ->
  RInv rs' (os ++ [o]) /\ o_fine o.
Proof.
  intros HI Hn Ht Hk Hr Hc rs' o Heq. cbv zeta in Heq.
  destruct r as [[]|c|s|]; cbn [res_fine] in Hr; try contradiction.
  - destruct HI as [H1 H2]. destruct (rput rs h l n' H1 Hn Ht Hk) as (P1 & P2 & P3).
    unfold child in Heq. rewrite P3 in Heq. specialize (Hc eq_refl).
    destruct (get_node n' [st]) as [v|] eqn:Ev; [|congruence].
    destruct (node_sane _ _ _ H1 Hn) as [p Hl]. apply Ht in Hl.
    destruct (sane_get _ _ _ _ Hl Ev) as [p' Hv].
    destruct (encode_sane (fst h, snd h ++ [st]) v p' Hv) as (a & Ha & Hstr). rewrite Ha in Heq.
    inversion Heq; subst. cbn [out_of_res]. split; [|exact I].
    apply RInv_plain; [split; [exact P1|eapply str_ok_rkeeps; eauto]|].
    cbn [str_ok]. destruct a; auto. destruct (Hstr _ _ eq_refl) as [-> [ptr ->]].
    exists ptr. rewrite P3. exact Ev.
  - inversion Heq; subst. split; [|exact I]. eapply RInv_put_plain; eauto; exact I.
Qed.

Variable fuel : nat.
Hypothesis Hfuel : (ga 0 <= fuel)%nat.

Ltac plain := match goal with H : (_, _) = (_, _) |- _ => inversion H; subst; split; [apply RInv_plain; [assumption|exact I]|exact I] end.

Lemma get_at_index_safe rs os sc i rs' o : RInv rs os ->
  get_at_index W trap fuel bs rs sc i = (rs', o) -> RInv rs' (os ++ [o]) /\ o_fine o.
Proof.
  intros HI Heq. unfold get_at_index in Heq.
  destruct sc as [a|]; [|plain].
  destruct a as [| | |h n|h n|h n|e]; try plain.
  - destruct (node_of rs h) as [l|] eqn:En; [|plain].
    destruct l as [| | | |len elems endp|len elems endp]; try plain.
    + destruct (arr_get W trap fuel bs len elems endp i) as [n' r] eqn:Ea.
      destruct (node_sane _ _ _ (proj1 HI) En) as [p0 Hp0].
      pose proof (arr_get_safe fuel p0 len elems endp i n' r Hp0 Hfuel Ea) as (_ & B2 & B3 & B4).
      eapply after_idx with (st := SIdx i); try eassumption.
      intros p' Hp'. exact (proj1 (arr_get_safe fuel p' len elems endp i n' r Hp' Hfuel Ea)).
    + destruct (obj_get W trap fuel bs len elems endp i) as [n' r] eqn:Ea.
      destruct (node_sane _ _ _ (proj1 HI) En) as [p0 Hp0].
      pose proof (obj_get_safe fuel p0 len elems endp i n' r Hp0 Hfuel Ea) as (_ & B2 & B3 & B4).
      eapply after_idx with (st := SVal i); try eassumption.
      * intros p' Hp'. exact (proj1 (obj_get_safe fuel p' len elems endp i n' r Hp' Hfuel Ea)).
      * intros E. exact (proj2 (B4 E)).
  - destruct (node_of rs h) as [l|] eqn:En; [|plain].
    destruct l as [| | | |len elems endp|len elems endp]; try plain.
    + destruct (arr_get W trap fuel bs len elems endp i) as [n' r] eqn:Ea.
      destruct (node_sane _ _ _ (proj1 HI) En) as [p0 Hp0].
      pose proof (arr_get_safe fuel p0 len elems endp i n' r Hp0 Hfuel Ea) as (_ & B2 & B3 & B4).
      eapply after_idx with (st := SIdx i); try eassumption.
      intros p' Hp'. exact (proj1 (arr_get_safe fuel p' len elems endp i n' r Hp' Hfuel Ea)).
    + destruct (obj_get W trap fuel bs len elems endp i) as [n' r] eqn:Ea.
      destruct (node_sane _ _ _ (proj1 HI) En) as [p0 Hp0].
      pose proof (obj_get_safe fuel p0 len elems endp i n' r Hp0 Hfuel Ea) as (_ & B2 & B3 & B4).
      eapply after_idx with (st := SVal i); try eassumption.
      * intros p' Hp'. exact (proj1 (obj_get_safe fuel p' len elems endp i n' r Hp' Hfuel Ea)).
      * intros E. exact (proj2 (B4 E)).
Qed.

Lemma get_obj_key_at_index_safe rs os sc i rs' o : RInv rs os ->
  get_obj_key_at_index W trap fuel bs rs sc i = (rs', o) -> RInv rs' (os ++ [o]) /\ o_fine o.
Proof.
  intros HI Heq. unfold get_obj_key_at_index in Heq.
  destruct sc as [a|]; [|plain].
  destruct a as [| | |h n|h n|h n|e]; try plain.
  destruct (node_of rs h) as [l|] eqn:En; [|plain].
  destruct l as [| | | |len elems endp|len elems endp]; try plain.
  destruct (obj_get W trap fuel bs len elems endp i) as [n' r] eqn:Ea.
  destruct (node_sane _ _ _ (proj1 HI) En) as [p0 Hp0].
  pose proof (obj_get_safe fuel p0 len elems endp i n' r Hp0 Hfuel Ea) as (_ & B2 & B3 & B4).
  eapply after_idx with (st := SKey i); try eassumption.
  - intros p' Hp'. exact (proj1 (obj_get_safe fuel p' len elems endp i n' r Hp' Hfuel Ea)).
  - intros E. exact (proj1 (B4 E)).
Qed.

Lemma get_obj_prop_safe rs os sc name rs' o : RInv rs os ->
  get_obj_prop W trap fuel bs rs sc name = (rs', o) -> RInv rs' (os ++ [o]) /\ o_fine o.
Proof.
  intros HI Heq. unfold get_obj_prop in Heq.
  destruct sc as [a|]; [|plain].
  destruct a as [| | |h n|h n|h n|e]; try plain.
  destruct (node_of rs h) as [l|] eqn:En; [|plain].
  destruct l as [| | | |len elems endp|len elems endp]; try plain.
  destruct (obj_prop W trap fuel bs name len elems endp) as [n' r] eqn:Ea.
  destruct (node_sane _ _ _ (proj1 HI) En) as [p0 Hp0].
  pose proof (obj_prop_safe fuel name p0 len elems endp n' r Hp0 Hfuel Ea) as (_ & B2 & B3 & B4).
  assert (Ht : forall p', sane L p' (LObj len elems endp) -> sane L p' n').
  { intros p' Hp'. exact (proj1 (obj_prop_safe fuel name p' len elems endp n' r Hp' Hfuel Ea)). }
  cbv zeta in Heq.
  destruct r as [[i|]|c|s|]; cbn [res_fine] in B3; try contradiction.
  - eapply (after_idx rs os h _ n' (Ok tt) (SVal i)); try eassumption; try exact I. intros _; apply B4; reflexivity.
  - inversion Heq; subst. split; [|exact I]. eapply RInv_put_plain; eauto; exact I.
  - inversion Heq; subst. split; [|exact I]. eapply RInv_put_plain; eauto; exact I.
Qed.

Lemma input_get_safe rs os rs' o : RInv rs os -> input_get W trap bs rs = (rs', o) ->
  RInv rs' (os ++ [o]) /\ o_fine o.
Proof.
  intros [H1 H2] Heq. unfold input_get in Heq. pose proof (Hnew 0) as Hn.
  destruct (lz_new W trap bs 0) as [[v e0]|c|s|]; cbn [new_sane] in Hn; try contradiction.
  2:{ inversion Heq; subst. split; [|exact I]. apply RInv_plain; [split; assumption|exact I]. }
  destruct Hn as [Hsv _].
  destruct (encode_sane (lenN rs, []) v 0 Hsv) as (a & Ha & Hstr). rewrite Ha in Heq. inversion Heq; subst.
  cbn [out_of_res]. split; [|exact I].
  assert (Hr : rkeeps rs (rs ++ [v])).
  { intros h ptr n Hh. unfold node_of, root_of in *. destruct (nthN rs (fst h)) eqn:E; [|discriminate].
    rewrite nthN_app_l by (eapply nthN_Some_lt; eauto). rewrite E. exact Hh. }
  split.
  - apply Forall_app. split; [exact H1|constructor; [exact Hsv|constructor]].
  - apply Forall_app. split; [eapply str_ok_rkeeps; eauto|]. constructor; [|constructor].
    cbn [str_ok]. destruct a; auto. destruct (Hstr _ _ eq_refl) as [-> [ptr ->]].
    exists ptr. unfold node_of, root_of. cbn [fst snd]. rewrite nthN_snoc. reflexivity.
Qed.

Lemma read_str_safe rs os k : RInv rs os ->
  let sc := match nthN os k with Some (OVal a) => SAns a | _ => SGarbage end in
  o_fine (read_str bs rs sc (answer_len sc)).
Proof.
  intros [H1 H2]. cbv zeta. destruct (nthN os k) as [[a| | | | |]|] eqn:E; try exact I.
  destruct a as [| | |h n|h n|h n|e]; try exact I.
  pose proof (proj1 (Forall_forall _ _) H2 _ (r_nthN_In _ _ _ E)) as Hs. cbn [str_ok] in Hs.
  destruct Hs as [ptr Hp]. cbn [read_str answer_len]. rewrite Hp.
  destruct (node_sane _ _ _ H1 Hp) as [p Hsn]. inversion Hsn; subst. fold L.
  destruct (N.ltb_spec L ptr); [lia|]. destruct (N.ltb_spec L (ptr + n)); [lia|]. exact I.
Qed.

Lemma exec_safe st op : RInv (roots st) (outs st) ->
  let st' := exec W trap fuel bs st op in
  RInv (roots st') (outs st') /\ exists o, outs st' = outs st ++ [o] /\ o_fine o.
Proof.
  intros HI. unfold exec. destruct op as [|sc name|sc i|sc i|sc|sc].
  - destruct (input_get W trap bs (roots st)) as [r' o] eqn:E.
    destruct (input_get_safe _ _ _ _ HI E). cbn [roots outs]. eauto.
  - destruct (get_obj_prop W trap fuel bs (roots st) (scope_of st sc) name) as [r' o] eqn:E.
    destruct (get_obj_prop_safe _ _ _ _ _ _ HI E). cbn [roots outs]. eauto.
  - destruct (get_at_index W trap fuel bs (roots st) (scope_of st sc) i) as [r' o] eqn:E.
    destruct (get_at_index_safe _ _ _ _ _ _ HI E). cbn [roots outs]. eauto.
  - destruct (get_obj_key_at_index W trap fuel bs (roots st) (scope_of st sc) i) as [r' o] eqn:E.
    destruct (get_obj_key_at_index_safe _ _ _ _ _ _ HI E). cbn [roots outs]. eauto.
  - cbn [roots outs]. split; [apply RInv_plain; [exact HI|]|eexists; split; [reflexivity|]].
    + unfold get_val_len. destruct (scope_of st sc) as [[| | |h n|h n|h n|e]|]; try exact I;
        destruct (node_of (roots st) h) as [[| | | | |]|]; exact I.
    + unfold get_val_len. destruct (scope_of st sc) as [[| | |h n|h n|h n|e]|]; try exact I;
        destruct (node_of (roots st) h) as [[| | | | |]|]; exact I.
  - cbn [roots outs].
    assert (Hf : o_fine (read_str bs (roots st) (scope_of st sc) (answer_len (scope_of st sc)))).
    { unfold scope_of. destruct sc as [k|]; [apply read_str_safe; exact HI|exact I]. }
    split; [apply RInv_plain; [exact HI|]|eexists; split; [reflexivity|exact Hf]].
    clear Hf. unfold read_str. destruct (scope_of st sc) as [[| | |h n|h n|h n|e]|]; try exact I.
    destruct (node_of (roots st) h) as [[| | |ptr len| |]|]; try exact I.
    destruct (lenN bs <? ptr); [exact I|]. destruct (lenN bs <? ptr + answer_len (SAns (AStr h n))); exact I.
Qed.

Lemma run_safe : forall ops st, RInv (roots st) (outs st) -> Forall o_fine (outs st) ->
  let st' := fold_left (exec W trap fuel bs) ops st in
  RInv (roots st') (outs st') /\ Forall o_fine (outs st').
Proof.
  induction ops as [|op ops IH]; intros st HI Hf; [split; assumption|].
  cbn [fold_left]. destruct (exec_safe st op HI) as (HI' & o & Ho & Hfo).
  apply IH; [exact HI'|]. rewrite Ho. apply Forall_app. split; [exact Hf|constructor; [exact Hfo|constructor]].
Qed.

Lemma strings_in_bounds st : RInv (roots st) (outs st) ->
  forall h n, In (OVal (AStr h n)) (outs st) ->
  exists ptr, node_of (roots st) h = Some (LStr ptr n) /\ ptr + n <= L.
Proof.
  intros [H1 H2] h n Hin. pose proof (proj1 (Forall_forall _ _) H2 _ Hin) as Hs. cbn [str_ok] in Hs.
  destruct Hs as [ptr Hp]. exists ptr. split; [exact Hp|].
  destruct (node_sane _ _ _ H1 Hp) as [p Hsn]. inversion Hsn; subst. assumption.
Qed.

End Robust.

(** * Statements on whole runs *)
Lemma o_fine_no_bad os : Forall o_fine os -> forallb no_bad os = true.
Proof. intros H. apply forallb_forall. intros o Hin. pose proof (proj1 (Forall_forall _ _) H o Hin). destruct o; try contradiction; reflexivity. Qed.

Lemma run_RInv W trap bs ops : (forall pos, new_sane bs pos (lz_new W trap bs pos)) ->
  RInv bs (roots (run W trap (fuel_bs bs) bs ops)) (outs (run W trap (fuel_bs bs) bs ops)) /\
  Forall o_fine (outs (run W trap (fuel_bs bs) bs ops)).
Proof.
  intros Hnew. unfold run. apply run_safe; [exact Hnew| |split; constructor|constructor].
  unfold ga, fb, fuel_bs, lenN. lia.
Qed.

(** Under the sanity condition no call panics, runs out of fuel or yields a stray string. *)
Theorem C08_nopanic_cond : forall W trap bs ops,
  (forall pos, new_sane bs pos (lz_new W trap bs pos)) ->
  forallb no_bad (outs (run W trap (fuel_bs bs) bs ops)) = true.
Proof. intros W trap bs ops Hnew. apply o_fine_no_bad. apply run_RInv. exact Hnew. Qed.

(** ... and every string answer lies inside the input. *)
Theorem C08_strings_cond : forall W trap bs ops,
  (forall pos, new_sane bs pos (lz_new W trap bs pos)) ->
  let st := run W trap (fuel_bs bs) bs ops in
  forall h n, In (OVal (AStr h n)) (outs st) ->
  exists ptr, node_of (roots st) h = Some (LStr ptr n) /\ ptr + n <= lenN bs.
Proof. intros W trap bs ops Hnew st h n Hin. eapply strings_in_bounds; [|exact Hin]. apply run_RInv. exact Hnew. Qed.

(** ** The condition as a decidable check on the input *)
Lemma new_sane_b_ok bs pos r : new_sane_b (lenN bs) pos r = true -> new_sane bs pos r.
Proof.
  destruct r as [[v e]|c|s|]; cbn [new_sane_b new_sane]; try discriminate; auto.
  destruct v as [| | | |len [|x l] endp|len [|x l] endp], e as [e|]; try discriminate; cbn [is_comp]; intros H.
  - split; [constructor|]. exists e. repeat split; lia.
  - split; [constructor|]. exists e. repeat split; lia.
  - split; [constructor|exists e; repeat split; lia]. apply andb_true_iff in H. destruct H as [H _].
    apply andb_true_iff in H. destruct H as [H _]. apply negb_true_iff in H. exact H.
  - split; [constructor; lia|]. exists e. repeat split; lia.
  - split; [|reflexivity]. constructor; [rewrite lenN_nil; lia|lia|lia|constructor].
  - split; [|reflexivity]. constructor; [rewrite lenN_nil; lia|lia|lia|constructor].
Qed.

Lemma lz_new_oob W trap bs pos : lenN bs <= pos -> lz_new W trap bs pos = Err E_Read.
Proof. intros H. unfold lz_new. rewrite nthN_ge_None by exact H. reflexivity. Qed.

Lemma safe_bytes_ok W trap bs : safe_bytes W trap bs = true -> forall pos, new_sane bs pos (lz_new W trap bs pos).
Proof.
  intros H pos. destruct (N.lt_ge_cases pos (lenN bs)) as [Hlt|Hge].
  - unfold safe_bytes in H. rewrite forallb_forall in H.
    specialize (H (N.to_nat pos)). rewrite N2Nat.id in H. apply new_sane_b_ok. apply H.
    apply in_seq. unfold lenN in Hlt. lia.
  - rewrite lz_new_oob by exact Hge. exact I.
Qed.

Theorem C08_nopanic_partial : forall W trap bs ops, safe_bytes W trap bs = true ->
  forallb no_bad (outs (run W trap (fuel_bs bs) bs ops)) = true.
Proof. intros W trap bs ops H. apply C08_nopanic_cond. apply safe_bytes_ok. exact H. Qed.

Theorem C08_strings_partial : forall W trap bs ops, safe_bytes W trap bs = true ->
  let st := run W trap (fuel_bs bs) bs ops in
  forall h n, In (OVal (AStr h n)) (outs st) ->
  exists ptr, node_of (roots st) h = Some (LStr ptr n) /\ ptr + n <= lenN bs.
Proof. intros W trap bs ops H. apply C08_strings_cond. apply safe_bytes_ok. exact H. Qed.

(** The read calls are functions of (input, call sequence): repeating a history repeats the answers. *)
Theorem C08_deterministic : forall W trap fuel bs ops1 ops2, ops1 = ops2 ->
  outs (run W trap fuel bs ops1) = outs (run W trap fuel bs ops2).
Proof. intros; subst; reflexivity. Qed.

(** * [lz_new] of the repaired model is sane at every position of every input *)
Lemma Forall_dropN {A} (P : A -> Prop) (l : list A) : forall n, Forall P l -> Forall P (dropN l n).
Proof.
  induction l as [|x l IH]; intros n H; [constructor|].
  cbn [dropN]. destruct (n =? 0); [exact H|]. inversion H; subst. apply IH. assumption.
Qed.
Lemma Forall_takeN {A} (P : A -> Prop) (l : list A) : forall n, Forall P l -> Forall P (takeN l n).
Proof.
  induction l as [|x l IH]; intros n H; [constructor|].
  cbn [takeN]. destruct (n =? 0); [constructor|]. inversion H; subst. constructor; [assumption|]. apply IH. assumption.
Qed.
Lemma lenN_takeN {A} (l : list A) : forall n, lenN (takeN l n) <= n.
Proof.
  induction l as [|x l IH]; intros n; [cbn [takeN]; unfold lenN; cbn [length]; lia|].
  cbn [takeN]. destruct (N.eqb_spec n 0); [unfold lenN; cbn [length]; lia|]. rewrite lenN_cons. specialize (IH (n - 1)). lia.
Qed.

Lemma be_fold_lt l : Forall (fun b => b < 256) l -> forall acc,
  fold_left (fun a b => a * 256 + b) l acc < (acc + 1) * 256 ^ lenN l.
Proof.
  induction 1 as [|b l Hb Hl IH]; intros acc.
  - cbn [fold_left]. rewrite lenN_nil, N.pow_0_r. lia.
  - cbn [fold_left]. rewrite lenN_cons. specialize (IH (acc * 256 + b)).
    replace (1 + lenN l) with (N.succ (lenN l)) by lia. rewrite N.pow_succ_r'.
    assert (H1 : (acc * 256 + b + 1) * 256 ^ lenN l <= (acc + 1) * 256 * 256 ^ lenN l).
    { apply N.mul_le_mono_r. lia. }
    lia.
Qed.
Lemma be_val_lt l : Forall (fun b => b < 256) l -> be_val l < 256 ^ lenN l.
Proof. intros H. unfold be_val. pose proof (be_fold_lt l H 0). lia. Qed.

Section FixedSane.
Variable W : N.
Variable trap : bool.
Variable bs : list N.
Hypothesis HW : lenN bs < 2 ^ W.
Hypothesis Hbytes : Forall (fun b => b < 256) bs.
Let L := lenN bs.

Lemma read_be_cases p k : read_be bs p k = Err E_Read \/
  exists v, read_be bs p k = Ok v /\ p + N.of_nat k <= L /\ v < 256 ^ N.of_nat k.
Proof.
  unfold read_be. fold L. destruct (N.ltb_spec L (p + N.of_nat k)); [left; reflexivity|right].
  eexists; split; [reflexivity|]. split; [lia|].
  unfold sub. set (l := takeN (dropN bs p) (N.of_nat k)).
  assert (Hl : Forall (fun b => b < 256) l) by (apply Forall_takeN, Forall_dropN; exact Hbytes).
  pose proof (be_val_lt l Hl) as H1. pose proof (lenN_takeN (dropN bs p) (N.of_nat k)) as H2. fold l in H2.
  eapply N.lt_le_trans; [exact H1|]. apply N.pow_le_mono_r; lia.
Qed.

Variable pos : N.
Hypothesis Hpos : pos < L.

Lemma via_be k (F : N -> res (lz * option N)) :
  (forall v, pos + 1 + N.of_nat k <= L -> v < 256 ^ N.of_nat k -> new_sane bs pos (F v)) ->
  new_sane bs pos (match read_be bs (pos + 1) k with
                   | Ok v => F v | Err c => Err c | Panic s => Panic s | OutOfFuel => OutOfFuel end).
Proof.
  intros H. destruct (read_be_cases (pos + 1) k) as [->|(v & -> & H1 & H2)]; [exact I|]. apply H; assumption.
Qed.

Lemma leaf_num z e : (- 2 ^ 64 <= z <= 2 ^ 64)%Z -> pos < e -> e <= L -> new_sane bs pos (Ok (num z, Some e)).
Proof.
  intros Hz H1 H2. cbn [new_sane num is_comp]. split; [constructor; apply of_int_not_nan; exact Hz|].
  exists e. auto.
Qed.
Lemma leaf_arr n e : pos < e -> e <= L -> new_sane bs pos (Ok (LArr n [] e, None)).
Proof. intros H1 H2. cbn [new_sane is_comp]. split; [|reflexivity]. constructor; [rewrite lenN_nil; lia|exact H1|exact H2|constructor]. Qed.
Lemma leaf_obj n e : pos < e -> e <= L -> new_sane bs pos (Ok (LObj n [] e, None)).
Proof. intros H1 H2. cbn [new_sane is_comp]. split; [|reflexivity]. constructor; [rewrite lenN_nil; lia|exact H1|exact H2|constructor]. Qed.
Lemma leaf_str ptr len : pos < ptr -> new_sane bs pos (str_at W trap bs ptr len).
Proof.
  intros H. unfold str_at, add_w. fold L. destruct (N.ltb_spec L (ptr + len)); [exact I|].
  destruct (N.ltb_spec (ptr + len) (2 ^ W)); [|unfold L in *; lia].
  cbn [new_sane is_comp]. split; [constructor; assumption|]. exists (ptr + len). repeat split; lia.
Qed.

Lemma to_signed_range k v : (k = 1 \/ k = 2 \/ k = 4 \/ k = 8)%nat -> v < 256 ^ N.of_nat k ->
  (- 2 ^ 64 <= to_signed k v <= 2 ^ 64)%Z.
Proof.
  intros Hk Hv. unfold to_signed.
  destruct Hk as [-> | [-> | [-> | ->]]]; cbn [N.of_nat Pos.of_succ_nat Pos.succ] in *.
  - change (256 ^ 1) with 256 in Hv. change (8 * 1 - 1) with 7. change (8 * Z.of_nat 1)%Z with 8%Z.
    destruct (v <? 2 ^ 7); lia.
  - change (256 ^ 2) with 65536 in Hv. change (8 * 2 - 1) with 15. change (8 * Z.of_nat 2)%Z with 16%Z.
    destruct (v <? 2 ^ 15); lia.
  - change (256 ^ 4) with 4294967296 in Hv. change (8 * 4 - 1) with 31. change (8 * Z.of_nat 4)%Z with 32%Z.
    destruct (v <? 2 ^ 31); lia.
  - change (256 ^ 8) with 18446744073709551616 in Hv. change (8 * 8 - 1) with 63. change (8 * Z.of_nat 8)%Z with 64%Z.
    destruct (v <? 2 ^ 63); lia.
Qed.

Lemma pow256_le k : (k = 1 \/ k = 2 \/ k = 4 \/ k = 8)%nat -> 256 ^ N.of_nat k <= 2 ^ 64.
Proof. intros [-> | [-> | [-> | ->]]]; vm_compute; discriminate. Qed.

Ltac ifs3 := repeat match goal with
  | |- context [if N.ltb ?a ?b then _ else _] => destruct (N.ltb_spec a b)
  | |- context [if N.eqb ?a ?b then _ else _] => destruct (N.eqb_spec a b)
  | |- context [if N.leb ?a ?b then _ else _] => destruct (N.leb_spec a b)
  end.

Lemma lz_new_sane_at : new_sane bs pos (lz_new W trap bs pos).
Proof.
  unfold lz_new. destruct (nthN bs pos) as [m|] eqn:Em; [|exact I].
  assert (Hm : m < 256).
  { pose proof (proj1 (Forall_forall _ _) Hbytes m (r_nthN_In _ _ _ Em)). assumption. }
  ifs3.
  all: try (apply leaf_num; lia).
  all: try (apply leaf_arr; lia).
  all: try (apply leaf_obj; lia).
  all: try (apply leaf_str; lia).
  all: try exact I.
  all: try (cbn [new_sane is_comp]; split; [constructor|exists (pos + 1); repeat split; lia]).
  all: apply via_be; intros v Hb Hv.
  all: try (apply leaf_num; [|lia|cbn [N.of_nat Pos.of_succ_nat Pos.succ] in Hb; lia]).
  all: try (apply leaf_arr; cbn [N.of_nat Pos.of_succ_nat Pos.succ] in Hb; lia).
  all: try (apply leaf_obj; cbn [N.of_nat Pos.of_succ_nat Pos.succ] in Hb; lia).
  all: try (apply leaf_str; lia).
  all: try (apply to_signed_range; [auto|exact Hv]).
  all: try (match goal with H : ?v < 256 ^ N.of_nat ?k |- _ =>
              pose proof (pow256_le k ltac:(auto)); lia end).
  - (* f32 *) destruct (is_nan (of_f32 v)) eqn:En; [exact I|].
    cbn [new_sane is_comp]. split; [constructor; exact En|].
    exists (pos + 1 + 4). cbn [N.of_nat Pos.of_succ_nat Pos.succ] in Hb. repeat split; lia.
  - (* f64 *) destruct (is_nan v) eqn:En; [exact I|].
    cbn [new_sane is_comp]. split; [constructor; exact En|].
    exists (pos + 1 + 8). cbn [N.of_nat Pos.of_succ_nat Pos.succ] in Hb. repeat split; lia.
Qed.

End FixedSane.

Theorem lz_new_sane W trap bs : lenN bs < 2 ^ W -> Forall (fun b => b < 256) bs ->
  forall pos, new_sane bs pos (lz_new W trap bs pos).
Proof.
  intros HW Hb pos. destruct (N.lt_ge_cases pos (lenN bs)) as [Hlt|Hge].
  - apply lz_new_sane_at; assumption.
  - rewrite lz_new_oob by exact Hge. exact I.
Qed.

(** * The unconditional statements for the repaired reader *)
Theorem C08_nopanic : forall W trap bs ops, lenN bs < 2 ^ W -> Forall (fun b => b < 256) bs ->
  forallb no_bad (outs (run W trap (fuel_bs bs) bs ops)) = true.
Proof. intros W trap bs ops HW Hb. apply C08_nopanic_cond. apply lz_new_sane; assumption. Qed.

Theorem C08_strings : forall W trap bs ops, lenN bs < 2 ^ W -> Forall (fun b => b < 256) bs ->
  let st := run W trap (fuel_bs bs) bs ops in
  forall h n, In (OVal (AStr h n)) (outs st) ->
  exists ptr, node_of (roots st) h = Some (LStr ptr n) /\ ptr + n <= lenN bs.
Proof. intros W trap bs ops HW Hb. apply C08_strings_cond. apply lz_new_sane; assumption. Qed.

(** the former refutation witnesses are now plain errors *)
Example fixed_nan :
  outs (run 32 true (fuel_bs [0xcb;0x7f;0xf8;0;0;0;0;0;0]) [0xcb;0x7f;0xf8;0;0;0;0;0;0] [RRoot]) = [OVal (AErr E_Read)].
Proof. vm_compute. reflexivity. Qed.
Example fixed_stray :
  outs (run 32 true (fuel_bs [0xd9;0xc8;0x61;0x62]) [0xd9;0xc8;0x61;0x62] [RRoot; RStr (Some 0)])
  = [OVal (AErr E_Read); OBytes None].
Proof. vm_compute. reflexivity. Qed.
Example fixed_key_slice :
  outs (run 32 true (fuel_bs [0x81;0xd9;0x64;0x6b]) [0x81;0xd9;0x64;0x6b] [RRoot; RProp (Some 0) [0x6b]])
  = [OVal (AObj (0, []) 1); OVal (AErr E_Read)].
Proof. vm_compute. reflexivity. Qed.
Example fixed_wrap :
  outs (run 32 false (fuel_bs [0xdd;0xff;0xff;0xff;0xff;0xdb;0xff;0xff;0xff;0xfb])
        [0xdd;0xff;0xff;0xff;0xff;0xdb;0xff;0xff;0xff;0xfb] [RRoot; RIdx (Some 0) 1000])
  = [OVal (AArr (0, []) 4294967295); OVal (AErr E_Read)].
Proof. vm_compute. reflexivity. Qed.
