(** [lz_new] on the encoding of a well-formed wire value yields the fresh lazy node for it. *)
From Coq Require Import NArith ZArith Lia List Bool Arith ZifyNat ZifyN ZifyBool.
From SFV Require Import Base.Bytes Base.F64 Base.BytesProofs Msgpack.Wire Read.Lazy Read.ReadRun Read.ReadSpec Read.ReadInv.
Import ListNotations.
Open Scope N_scope.

Definition fresh (w : wire) (s : N) : lz :=
  match w with
  | WNil => LNull
  | WBool b => LBool b
  | WInt _ z => LNum (of_int z)
  | WF32 b => LNum (of_f32 b)
  | WF64 b => LNum b
  | WStr f bytes => LStr (s + str_hlen f) (lenN bytes)
  | WArr f l => LArr (lenN l) [] (s + len_hlen f)
  | WMap f l => LObj (lenN l) [] (s + len_hlen f)
  end.

Lemma fresh_agree w s : agree w s (fresh w s).
Proof.
  destruct w; cbn [fresh]; try constructor.
  - apply ag_arr with (pre := []) (rest := l); [reflexivity|constructor|reflexivity].
  - apply ag_map with (pre := []) (rest := l); [reflexivity|constructor|reflexivity].
Qed.

Ltac ifs := repeat match goal with
  | |- context [if N.ltb ?a ?b then _ else _] => destruct (N.ltb_spec a b); try lia
  | |- context [if N.eqb ?a ?b then _ else _] => destruct (N.eqb_spec a b); try lia
  | |- context [if N.leb ?a ?b then _ else _] => destruct (N.leb_spec a b); try lia
  end.

Lemma read_be_ok bs p k v : at_pos bs p (be k v) -> v < 2 ^ (8 * N.of_nat k) -> read_be bs p k = Ok v.
Proof.
  intros Hp Hv. unfold read_be. pose proof (at_pos_bound _ _ _ Hp) as Hb. rewrite be_lenN in Hb.
  destruct (N.ltb_spec (lenN bs) (p + N.of_nat k)); [lia|].
  apply at_pos_sub in Hp. rewrite be_lenN in Hp. rewrite Hp, be_val_be by exact Hv. reflexivity.
Qed.

Lemma at_hdr bs s m k v rest : at_pos bs s ((m :: be k v) ++ rest) ->
  nthN bs s = Some m /\ at_pos bs (s + 1) (be k v) /\ at_pos bs (s + 1 + N.of_nat k) rest.
Proof.
  intros H. cbn [app] in H. apply at_pos_cons in H. destruct H as [Hm H].
  apply at_pos_app in H. rewrite be_lenN in H. tauto.
Qed.
Lemma at_hdr0 bs s m k v : at_pos bs s (m :: be k v) ->
  nthN bs s = Some m /\ at_pos bs (s + 1) (be k v).
Proof. intros H. rewrite <- (app_nil_r (m :: be k v)) in H. apply at_hdr in H. tauto. Qed.

Lemma ok_eq {A} (a : A) (b b' : N) : b = b' -> @Ok (A * option N) (a, Some b) = Ok (a, Some b').
Proof. intros ->. reflexivity. Qed.

Section New.
Variable W : N.
Variable trap : bool.
Variable bs : list N.
Hypothesis HW : lenN bs < 2 ^ W.

(* works for [str_at] with or without the extent check of the repaired model *)
Ltac str_tac Hb :=
  let Hbd := fresh "Hbd" in
  pose proof (at_pos_bound _ _ _ Hb) as Hbd; unfold str_at, add_w;
  repeat match goal with
  | |- context [if N.ltb ?a ?b then _ else _] => destruct (N.ltb_spec a b); try lia
  end; try reflexivity.

Lemma size_int f z : size (WInt f z) = match f with PFix | NFix => 1 | U8 | I8 => 2 | U16 | I16 => 3 | U32 | I32 => 5 | U64 | I64 => 9 end.
Proof. destruct f; reflexivity. Qed.

Lemma new_int s f z : wf_int f z = true -> at_pos bs s (enc_int f z) ->
  lz_new W trap bs s = Ok (LNum (of_int z), Some (s + size (WInt f z))).
Proof.
  intros Hwf Hp. rewrite size_int. unfold num.
  destruct f; cbn [wf_int enc_int] in *.
  - apply at_pos_cons in Hp. destruct Hp as [Hm _]. unfold lz_new. rewrite Hm. ifs.
    unfold num. rewrite Z2N.id by lia. reflexivity.
  - apply at_pos_cons in Hp. destruct Hp as [Hm _]. unfold lz_new. rewrite Hm. ifs.
    unfold num. replace (Z.of_N (Z.to_N (z + 256)) - 256)%Z with z by lia. reflexivity.
  - apply at_hdr0 in Hp. destruct Hp as [Hm Hb]. unfold lz_new. rewrite Hm. ifs.
    rewrite (read_be_ok _ _ _ _ Hb) by (change (2 ^ (8 * N.of_nat 1)) with 256; lia).
    unfold num. rewrite Z2N.id by lia. apply ok_eq. lia.
  - apply at_hdr0 in Hp. destruct Hp as [Hm Hb]. unfold lz_new. rewrite Hm. ifs.
    rewrite (read_be_ok _ _ _ _ Hb) by (change (2 ^ (8 * N.of_nat 2)) with 65536; lia).
    unfold num. rewrite Z2N.id by lia. apply ok_eq. lia.
  - apply at_hdr0 in Hp. destruct Hp as [Hm Hb]. unfold lz_new. rewrite Hm. ifs.
    rewrite (read_be_ok _ _ _ _ Hb) by (change (2 ^ (8 * N.of_nat 4)) with 4294967296; lia).
    unfold num. rewrite Z2N.id by lia. apply ok_eq. lia.
  - apply at_hdr0 in Hp. destruct Hp as [Hm Hb]. unfold lz_new. rewrite Hm. ifs.
    rewrite (read_be_ok _ _ _ _ Hb) by (change (2 ^ (8 * N.of_nat 8)) with 18446744073709551616; lia).
    unfold num. rewrite Z2N.id by lia. apply ok_eq. lia.
  - apply at_hdr0 in Hp. destruct Hp as [Hm Hb]. unfold lz_new. rewrite Hm. ifs.
    rewrite (read_be_ok _ _ _ _ Hb) by (apply of_signed_lt_1; lia).
    unfold num. rewrite to_of_signed_1 by lia. apply ok_eq. lia.
  - apply at_hdr0 in Hp. destruct Hp as [Hm Hb]. unfold lz_new. rewrite Hm. ifs.
    rewrite (read_be_ok _ _ _ _ Hb) by (apply of_signed_lt_2; lia).
    unfold num. rewrite to_of_signed_2 by lia. apply ok_eq. lia.
  - apply at_hdr0 in Hp. destruct Hp as [Hm Hb]. unfold lz_new. rewrite Hm. ifs.
    rewrite (read_be_ok _ _ _ _ Hb) by (apply of_signed_lt_4; lia).
    unfold num. rewrite to_of_signed_4 by lia. apply ok_eq. lia.
  - apply at_hdr0 in Hp. destruct Hp as [Hm Hb]. unfold lz_new. rewrite Hm. ifs.
    rewrite (read_be_ok _ _ _ _ Hb) by (apply of_signed_lt_8; lia).
    unfold num. rewrite to_of_signed_8 by lia. apply ok_eq. lia.
Qed.

Lemma size_str f s0 : size (WStr f s0) = str_hlen f + lenN s0.
Proof. unfold size. cbn [enc]. rewrite lenN_app, str_hdr_len. reflexivity. Qed.

Lemma new_str s f s0 : lenN s0 < str_max f -> at_pos bs s (str_hdr f (lenN s0) ++ s0) ->
  lz_new W trap bs s = Ok (LStr (s + str_hlen f) (lenN s0), Some (s + size (WStr f s0))).
Proof.
  intros Hl Hp. rewrite size_str, N.add_assoc.
  destruct f; cbn [str_max str_hdr str_hlen] in *.
  - cbn [app] in Hp. apply at_pos_cons in Hp. destruct Hp as [Hm Hb]. unfold lz_new. rewrite Hm. ifs.
    replace (160 + lenN s0 - 160) with (lenN s0) by lia. str_tac Hb.
  - apply at_hdr in Hp. destruct Hp as (Hm & Hb & Hr). unfold lz_new. rewrite Hm. ifs.
    rewrite (read_be_ok _ _ _ _ Hb) by (change (2 ^ (8 * N.of_nat 1)) with 256; lia).
    change (N.of_nat 1) with 1 in Hr. replace (s + 2) with (s + 1 + 1) by lia. str_tac Hr.
  - apply at_hdr in Hp. destruct Hp as (Hm & Hb & Hr). unfold lz_new. rewrite Hm. ifs.
    rewrite (read_be_ok _ _ _ _ Hb) by (change (2 ^ (8 * N.of_nat 2)) with 65536; lia).
    change (N.of_nat 2) with 2 in Hr. replace (s + 3) with (s + 1 + 2) by lia. str_tac Hr.
  - apply at_hdr in Hp. destruct Hp as (Hm & Hb & Hr). unfold lz_new. rewrite Hm. ifs.
    rewrite (read_be_ok _ _ _ _ Hb) by (change (2 ^ (8 * N.of_nat 4)) with 4294967296; lia).
    change (N.of_nat 4) with 4 in Hr. replace (s + 5) with (s + 1 + 4) by lia. str_tac Hr.
Qed.

Lemma new_arr s f n rest : n < len_max f -> at_pos bs s (arr_hdr f n ++ rest) ->
  lz_new W trap bs s = Ok (LArr n [] (s + len_hlen f), None).
Proof.
  intros Hl Hp. destruct f; cbn [len_max arr_hdr len_hlen] in *.
  - cbn [app] in Hp. apply at_pos_cons in Hp. destruct Hp as [Hm Hb]. unfold lz_new. rewrite Hm. ifs.
    replace (144 + n - 144) with n by lia. reflexivity.
  - apply at_hdr in Hp. destruct Hp as (Hm & Hb & Hr). unfold lz_new. rewrite Hm. ifs.
    rewrite (read_be_ok _ _ _ _ Hb) by (change (2 ^ (8 * N.of_nat 2)) with 65536; lia).
    replace (s + 1 + 2) with (s + 3) by lia. reflexivity.
  - apply at_hdr in Hp. destruct Hp as (Hm & Hb & Hr). unfold lz_new. rewrite Hm. ifs.
    rewrite (read_be_ok _ _ _ _ Hb) by (change (2 ^ (8 * N.of_nat 4)) with 4294967296; lia).
    replace (s + 1 + 4) with (s + 5) by lia. reflexivity.
Qed.

Lemma new_map s f n rest : n < len_max f -> at_pos bs s (map_hdr f n ++ rest) ->
  lz_new W trap bs s = Ok (LObj n [] (s + len_hlen f), None).
Proof.
  intros Hl Hp. destruct f; cbn [len_max map_hdr len_hlen] in *.
  - cbn [app] in Hp. apply at_pos_cons in Hp. destruct Hp as [Hm Hb]. unfold lz_new. rewrite Hm. ifs.
    replace (128 + n - 128) with n by lia. reflexivity.
  - apply at_hdr in Hp. destruct Hp as (Hm & Hb & Hr). unfold lz_new. rewrite Hm. ifs.
    rewrite (read_be_ok _ _ _ _ Hb) by (change (2 ^ (8 * N.of_nat 2)) with 65536; lia).
    replace (s + 1 + 2) with (s + 3) by lia. reflexivity.
  - apply at_hdr in Hp. destruct Hp as (Hm & Hb & Hr). unfold lz_new. rewrite Hm. ifs.
    rewrite (read_be_ok _ _ _ _ Hb) by (change (2 ^ (8 * N.of_nat 4)) with 4294967296; lia).
    replace (s + 1 + 4) with (s + 5) by lia. reflexivity.
Qed.

(* [no_nan] is only needed for the repaired model (NaN floats -> ReadError) *)
Lemma new_ok s w : wf w = true -> no_nan w = true -> at_pos bs s (enc w) ->
  lz_new W trap bs s = Ok (fresh w s, if composite w then None else Some (s + size w)).
Proof.
  intros Hwf Hnn Hp. destruct w; cbn [wf enc fresh composite] in *.
  - apply at_pos_cons in Hp. destruct Hp as [Hm _]. unfold lz_new. rewrite Hm. reflexivity.
  - apply at_pos_cons in Hp. destruct Hp as [Hm _]. unfold lz_new. rewrite Hm. destruct b; reflexivity.
  - apply new_int; assumption.
  - apply at_hdr0 in Hp. destruct Hp as [Hm Hb]. unfold lz_new. rewrite Hm. ifs.
    rewrite (read_be_ok _ _ _ _ Hb) by (change (2 ^ (8 * N.of_nat 4)) with 4294967296; lia).
    cbn [no_nan] in Hnn. apply negb_true_iff in Hnn. try rewrite Hnn.
    apply ok_eq. change (size (WF32 bits)) with 5. lia.
  - apply at_hdr0 in Hp. destruct Hp as [Hm Hb]. unfold lz_new. rewrite Hm. ifs.
    rewrite (read_be_ok _ _ _ _ Hb) by (change (2 ^ (8 * N.of_nat 8)) with 18446744073709551616; lia).
    cbn [no_nan] in Hnn. apply negb_true_iff in Hnn. try rewrite Hnn.
    apply ok_eq. change (size (WF64 bits)) with 9. lia.
  - apply andb_true_iff in Hwf. destruct Hwf as [Hl _]. apply new_str; [lia|exact Hp].
  - apply andb_true_iff in Hwf. destruct Hwf as [Hl _]. eapply new_arr; [|exact Hp]. lia.
  - apply andb_true_iff in Hwf. destruct Hwf as [Hl _]. eapply new_map; [|exact Hp]. lia.
Qed.

End New.
