(** LOCAL COPY of Read/ReadRun.v over Read/LazyFixed.v.
    Sequences of read calls over the lazy-reader model: each call's scope is an EARLIER output
    (by index), so stale, revisited, sibling and error/scalar scopes are all expressible. *)
From Coq Require Import NArith List Bool.
From SFV Require Import Base.Bytes Read.LazyFixed.
Import ListNotations.
Open Scope N_scope.

Inductive rop :=
| RRoot                                         (* shopify_function_input_get *)
| RProp (sc : option N) (name : list N)         (* get_obj_prop / get_interned_obj_prop (name resolved) *)
| RIdx (sc : option N) (i : N)                  (* get_at_index *)
| RKey (sc : option N) (i : N)                  (* get_obj_key_at_index *)
| RLen (sc : option N)                          (* get_val_len *)
| RStr (sc : option N).                         (* get_utf8_str_addr + read of the string's true length *)

Record rstate := { roots : roots_t; outs : list out }.
Definition rinit : rstate := {| roots := []; outs := [] |}.

(** [Some k] = the k-th output so far (must be a value); [None] = a Val with an unknown tag. *)
Definition scope_of (st : rstate) (sc : option N) : scope :=
  match sc with
  | None => SGarbage
  | Some k => match nthN (outs st) k with Some (OVal a) => SAns a | _ => SGarbage end
  end.

Definition answer_len (s : scope) : N :=
  match s with SAns (AStr _ l) => l | _ => 0 end.

Section W.
Variable W : N.
Variable trap : bool.

Definition exec (fuel : nat) (bs : list N) (st : rstate) (op : rop) : rstate :=
  let '(r', o) :=
    match op with
    | RRoot => input_get W trap bs (roots st)
    | RProp sc name => get_obj_prop W trap fuel bs (roots st) (scope_of st sc) name
    | RIdx sc i => get_at_index W trap fuel bs (roots st) (scope_of st sc) i
    | RKey sc i => get_obj_key_at_index W trap fuel bs (roots st) (scope_of st sc) i
    | RLen sc => (roots st, get_val_len (roots st) (scope_of st sc))
    | RStr sc => (roots st, read_str bs (roots st) (scope_of st sc) (answer_len (scope_of st sc)))
    end in
  {| roots := r'; outs := outs st ++ [o] |}.

Definition run (fuel : nat) (bs : list N) (ops : list rop) : rstate :=
  fold_left (exec fuel bs) ops rinit.

End W.
