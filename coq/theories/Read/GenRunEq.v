(** Whole call sequences on the REGENERATED reader code ([g_run] of Read/GenRun.v: every node operation is the translated Rust
    function of Gen/LazyNewGen.v / Gen/LazyLoopsGen.v) equal the hand-written reader model ([run] of Read/ReadRun.v): the same
    outputs, and the same forest up to [conv].  The simulation invariant: related states ([gouts = outs],
    [map conv groots = roots]) whose model side satisfies the invariant of Read/ReadRobust.v ([RInv]: sane roots) and
    [small] of Read/GenRunSmall.v (every declared container length is below 2^32, hence below 2^W). *)
From Coq Require Import NArith ZArith Lia List Bool Arith ZifyNat ZifyN ZifyBool.
From SFV Require Import Base.Bytes Base.BytesProofs Base.RsPrelude Read.Lazy Read.LazyTypes Gen.LazyNewGen Gen.LazyLoopsGen
  Read.LazyNewGenEq Read.ReadRun Read.ReadSafe Read.ReadRobust Read.LazyLoopsStmt Read.LoopsEq Read.GenRun Read.GenRunSmall.
Import ListNotations.
Open Scope N_scope.

(** * Lists *)
Lemma ge_nthN_map {A B} (f : A -> B) l : forall i, nthN (map f l) i = option_map f (nthN l i).
Proof.
  induction l as [|x l IH]; intros i; [reflexivity|].
  cbn [map nthN]. destruct (i =? 0); [reflexivity|apply IH].
Qed.
Lemma ge_set_nth_map {A B} (f : A -> B) l : forall i x y, y = f x -> set_nth (map f l) i y = map f (set_nth l i x).
Proof.
  induction l as [|z l IH]; intros i x y ->; [reflexivity|].
  cbn [map set_nth]. destruct (i =? 0); [reflexivity|]. cbn [map]. f_equal. apply IH. reflexivity.
Qed.
Lemma ge_set_nth_same {A} (l : list A) : forall i x, nthN l i = Some x -> set_nth l i x = l.
Proof.
  induction l as [|z l IH]; intros i x H; [reflexivity|].
  cbn [nthN] in H. cbn [set_nth]. destruct (i =? 0); [injection H as ->; reflexivity|]. f_equal. apply IH. exact H.
Qed.
Lemma ge_lenN_map {A B} (f : A -> B) l : lenN (map f l) = lenN l.
Proof. unfold lenN. rewrite map_length. reflexivity. Qed.

(** * [conv] commutes with the path functions *)
Lemma conv_get : forall p v, get_node (conv v) p = option_map conv (g_get_node v p).
Proof.
  induction p as [|s p IH]; intros v; [reflexivity|].
  destruct s as [i|i|i], v as [| | |[sp sl]|[len es e]|[len es e]]; cbn [conv get_node g_get_node]; try reflexivity.
  - rewrite ge_nthN_map. destruct (nthN es i) as [c|]; cbn [option_map]; [apply IH|reflexivity].
  - rewrite ge_nthN_map. destruct (nthN es i) as [[k x]|]; cbn [option_map fst snd]; [apply IH|reflexivity].
  - rewrite ge_nthN_map. destruct (nthN es i) as [[k x]|]; cbn [option_map fst snd]; [apply IH|reflexivity].
Qed.

Lemma conv_get_some p v x : g_get_node v p = Some x -> get_node (conv v) p = Some (conv x).
Proof. intros H. rewrite conv_get, H. reflexivity. Qed.
Lemma conv_get_inv p v n : get_node (conv v) p = Some n -> exists x, g_get_node v p = Some x /\ conv x = n.
Proof. rewrite conv_get. destruct (g_get_node v p) as [x|]; cbn [option_map]; [|discriminate]. intros H. injection H as <-. eauto. Qed.

Lemma conv_set : forall p v x, conv (g_set_node v p x) = set_node (conv v) p (conv x).
Proof.
  induction p as [|s p IH]; intros v x; [reflexivity|].
  destruct s as [i|i|i], v as [| | |[sp sl]|[len es e]|[len es e]]; cbn [conv set_node g_set_node]; try reflexivity.
  - rewrite ge_nthN_map. destruct (nthN es i) as [c|]; cbn [option_map conv]; [|reflexivity].
    f_equal. symmetry. apply ge_set_nth_map. symmetry. apply IH.
  - rewrite ge_nthN_map. destruct (nthN es i) as [[k y]|]; cbn [option_map conv fst snd]; [|reflexivity].
    f_equal. symmetry. apply ge_set_nth_map. cbn [fst snd]. rewrite IH. reflexivity.
  - rewrite ge_nthN_map. destruct (nthN es i) as [[k y]|]; cbn [option_map conv fst snd]; [|reflexivity].
    f_equal. symmetry. apply ge_set_nth_map. cbn [fst snd]. rewrite IH. reflexivity.
Qed.

Lemma conv_node_of rs h : node_of (map conv rs) h = option_map conv (g_node_of rs h).
Proof.
  unfold node_of, root_of, g_node_of. rewrite ge_nthN_map.
  destruct (nthN rs (fst h)) as [r|]; cbn [option_map]; [apply conv_get|reflexivity].
Qed.

Lemma conv_put rs h x : map conv (g_put_node rs h x) = put_node (map conv rs) h (conv x).
Proof.
  unfold put_node, root_of, g_put_node. rewrite ge_nthN_map.
  destruct (nthN rs (fst h)) as [r|]; cbn [option_map]; [|reflexivity].
  symmetry. apply ge_set_nth_map. symmetry. apply conv_set.
Qed.

(** writing back the node that is there changes nothing *)
Lemma set_node_same : forall p r x, get_node r p = Some x -> set_node r p x = r.
Proof.
  induction p as [|s p IH]; intros r x H; [cbn in H; injection H as ->; reflexivity|].
  destruct s as [i|i|i], r as [| | | |n es e|n es e]; cbn [get_node] in H; try discriminate; cbn [set_node].
  - destruct (nthN es i) as [c|] eqn:E; [|discriminate]. rewrite (IH _ _ H), (ge_set_nth_same _ _ _ E). reflexivity.
  - destruct (nthN es i) as [[k v]|] eqn:E; [|discriminate]. rewrite (IH _ _ H), (ge_set_nth_same _ _ _ E). reflexivity.
  - destruct (nthN es i) as [[k v]|] eqn:E; [|discriminate]. rewrite (IH _ _ H), (ge_set_nth_same _ _ _ E). reflexivity.
Qed.
Lemma put_node_same rs h x : node_of rs h = Some x -> put_node rs h x = rs.
Proof.
  unfold node_of, put_node, root_of. destruct (nthN rs (fst h)) as [r|] eqn:E; [|discriminate].
  intros H. rewrite (set_node_same _ _ _ H). apply ge_set_nth_same. exact E.
Qed.
Lemma g_set_node_same : forall p r x, g_get_node r p = Some x -> g_set_node r p x = r.
Proof.
  induction p as [|s p IH]; intros r x H; [cbn in H; injection H as ->; reflexivity|].
  destruct s as [i|i|i], r as [| | |[sp sl]|[n es e]|[n es e]]; cbn [g_get_node] in H; try discriminate; cbn [g_set_node].
  - destruct (nthN es i) as [c|] eqn:E; [|discriminate]. rewrite (IH _ _ H), (ge_set_nth_same _ _ _ E). reflexivity.
  - destruct (nthN es i) as [[k v]|] eqn:E; [|discriminate]. rewrite (IH _ _ H), (ge_set_nth_same _ _ _ E). reflexivity.
  - destruct (nthN es i) as [[k v]|] eqn:E; [|discriminate]. rewrite (IH _ _ H), (ge_set_nth_same _ _ _ E). reflexivity.
Qed.
Lemma g_put_node_same rs h x : g_node_of rs h = Some x -> g_put_node rs h x = rs.
Proof.
  unfold g_node_of, g_put_node. destruct (nthN rs (fst h)) as [r|] eqn:E; [|discriminate].
  intros H. rewrite (g_set_node_same _ _ _ H). apply ge_set_nth_same. exact E.
Qed.

Lemma ge_nthN_set_nth_eq {A} (l : list A) : forall i x y, nthN l i = Some y -> nthN (set_nth l i x) i = Some x.
Proof.
  induction l as [|z l IH]; intros i x y H; [discriminate|].
  cbn [nthN set_nth] in *. destruct (N.eqb_spec i 0) as [->|Hi].
  - reflexivity.
  - cbn [nthN]. destruct (N.eqb_spec i 0); [lia|]. eapply IH; exact H.
Qed.
Lemma ge_get_set_app r : forall q l x p, get_node r q = Some l -> get_node (set_node r q x) (q ++ p) = get_node x p.
Proof.
  intros q. revert r. induction q as [|st q IH]; intros r l x p Hg.
  - reflexivity.
  - destruct st as [i|i|i], r as [| | | |n es e|n es e]; cbn [get_node] in Hg; try discriminate;
      cbn [set_node app].
    + destruct (nthN es i) as [c|] eqn:E; [|discriminate]. cbn [get_node].
      rewrite (ge_nthN_set_nth_eq _ _ _ _ E). eapply IH; exact Hg.
    + destruct (nthN es i) as [[k v]|] eqn:E; [|discriminate]. cbn [get_node].
      rewrite (ge_nthN_set_nth_eq _ _ _ _ E). eapply IH; exact Hg.
    + destruct (nthN es i) as [[k v]|] eqn:E; [|discriminate]. cbn [get_node].
      rewrite (ge_nthN_set_nth_eq _ _ _ _ E). eapply IH; exact Hg.
Qed.

Lemma node_of_put_child rs h l x st : node_of rs h = Some l ->
  node_of (put_node rs h x) (child h st) = get_node x [st].
Proof.
  unfold node_of, put_node, root_of, child. cbn [fst snd].
  destruct (nthN rs (fst h)) as [r|] eqn:E; [|discriminate]. intros H.
  rewrite (ge_nthN_set_nth_eq _ _ _ _ E). eapply ge_get_set_app. exact H.
Qed.

(** * The model's calls, written through the node-level functions of Read/LazyLoopsStmt.v *)
Definition after (rs : roots_t) (h : handle) (n' : lz) (r : res unit) (st : pstep) : roots_t * out :=
  let roots' := put_node rs h n' in
  match r with
  | Ok _ =>
      match node_of roots' (child h st) with
      | Some v => (roots', out_of_res (encode_node (child h st) v))
      | None => (roots', OPanic 0)
      end
  | Err c => (roots', OVal (AErr c))
  | Panic s => (roots', OPanic s)
  | OutOfFuel => (roots', OFuel)
  end.

Definition afterp (rs : roots_t) (h : handle) (n' : lz) (r : res (option N)) : roots_t * out :=
  let roots' := put_node rs h n' in
  match r with
  | Ok (Some i) =>
      match node_of roots' (child h (SVal i)) with
      | Some v => (roots', out_of_res (encode_node (child h (SVal i)) v))
      | None => (roots', OPanic 0)
      end
  | Ok None => (roots', OVal ANull)
  | Err c => (roots', OVal (AErr c))
  | Panic s => (roots', OPanic s)
  | OutOfFuel => (roots', OFuel)
  end.

Lemma after_fst rs h n' r st : fst (after rs h n' r st) = put_node rs h n'.
Proof. unfold after. destruct r as [[]|c|s|]; try reflexivity. destruct (node_of _ _); reflexivity. Qed.
Lemma afterp_fst rs h n' r : fst (afterp rs h n' r) = put_node rs h n'.
Proof. unfold afterp. destruct r as [[i|]|c|s|]; try reflexivity. destruct (node_of _ _); reflexivity. Qed.
Lemma after_fine rs h n' r st : o_fine (snd (after rs h n' r st)) -> res_fine r.
Proof. unfold after. destruct r as [[]|c|s|]; cbn [snd o_fine res_fine]; auto. Qed.
Lemma afterp_fine rs h n' r : o_fine (snd (afterp rs h n' r)) -> res_fine r.
Proof. unfold afterp. destruct r as [[i|]|c|s|]; cbn [snd o_fine res_fine]; auto. Qed.
Lemma after_ok rs h n n' st x : node_of rs h = Some n -> get_node n' [st] = Some x ->
  after rs h n' (Ok tt) st = (put_node rs h n', out_of_res (encode_node (child h st) x)).
Proof. intros Hn Hg. unfold after. rewrite (node_of_put_child _ _ _ _ _ Hn), Hg. reflexivity. Qed.
Lemma afterp_ok rs h n n' i x : node_of rs h = Some n -> get_node n' [SVal i] = Some x ->
  afterp rs h n' (Ok (Some i)) = (put_node rs h n', out_of_res (encode_node (child h (SVal i)) x)).
Proof. intros Hn Hg. unfold afterp. rewrite (node_of_put_child _ _ _ _ _ Hn), Hg. reflexivity. Qed.

Definition idx_handle (a : answer) : option handle := match a with AArr h _ | AObj h _ => Some h | _ => None end.
Definition obj_handle (a : answer) : option handle := match a with AObj h _ => Some h | _ => None end.

Section Calls.
Variable W : N.
Variable trap : bool.
Variable bs : list N.

Lemma idx_step_kept f n idx : idx_step (fst (node_get_at_index W trap bs f n idx)) idx = idx_step n idx.
Proof.
  destruct n as [| | | |len es e|len es e]; cbn [node_get_at_index fst]; try reflexivity.
  - unfold arr_get. destruct (len <=? idx); [reflexivity|].
    destruct (arr_get_loop W trap f bs es e idx) as [[e' p'] r]. reflexivity.
  - unfold obj_get. destruct (len <=? idx); [reflexivity|].
    destruct (obj_get_loop W trap f bs es e idx) as [[e' p'] r]. reflexivity.
Qed.

Lemma get_at_index_node f rs a idx :
  get_at_index W trap f bs rs (SAns a) idx =
  match idx_handle a with
  | Some h =>
      match node_of rs h with
      | Some n => let X := node_get_at_index W trap bs f n idx in after rs h (fst X) (snd X) (idx_step n idx)
      | None => (rs, OVal (AErr E_NotIndexable))
      end
  | None => (rs, OVal (AErr E_NotIndexable))
  end.
Proof.
  unfold get_at_index.
  destruct a as [| | |h l|h l|h l|c]; cbn [idx_handle]; try reflexivity.
  - destruct (node_of rs h) as [n|] eqn:En; [|reflexivity].
    destruct n as [| | | |len es e|len es e]; cbn [node_get_at_index idx_step];
      try (unfold after; cbn [fst snd]; rewrite (put_node_same _ _ _ En); reflexivity).
    + destruct (arr_get W trap f bs len es e idx) as [n' r]. reflexivity.
    + destruct (obj_get W trap f bs len es e idx) as [n' r]. reflexivity.
  - destruct (node_of rs h) as [n|] eqn:En; [|reflexivity].
    destruct n as [| | | |len es e|len es e]; cbn [node_get_at_index idx_step];
      try (unfold after; cbn [fst snd]; rewrite (put_node_same _ _ _ En); reflexivity).
    + destruct (arr_get W trap f bs len es e idx) as [n' r]. reflexivity.
    + destruct (obj_get W trap f bs len es e idx) as [n' r]. reflexivity.
Qed.

Lemma get_key_at_index_node f rs a idx :
  get_obj_key_at_index W trap f bs rs (SAns a) idx =
  match obj_handle a with
  | Some h =>
      match node_of rs h with
      | Some n => let X := node_get_key_at_index W trap bs f n idx in after rs h (fst X) (snd X) (SKey idx)
      | None => (rs, OVal (AErr E_NotAnObject))
      end
  | None => (rs, OVal (AErr E_NotAnObject))
  end.
Proof.
  unfold get_obj_key_at_index.
  destruct a as [| | |h l|h l|h l|c]; cbn [obj_handle]; try reflexivity.
  destruct (node_of rs h) as [n|] eqn:En; [|reflexivity].
  destruct n as [| | | |len es e|len es e]; cbn [node_get_key_at_index];
    try (unfold after; cbn [fst snd]; rewrite (put_node_same _ _ _ En); reflexivity).
  destruct (obj_get W trap f bs len es e idx) as [n' r]. reflexivity.
Qed.

Lemma get_obj_prop_node f rs a name :
  get_obj_prop W trap f bs rs (SAns a) name =
  match obj_handle a with
  | Some h =>
      match node_of rs h with
      | Some n => let X := node_get_prop W trap bs f n name in afterp rs h (fst X) (snd X)
      | None => (rs, OVal (AErr E_NotAnObject))
      end
  | None => (rs, OVal (AErr E_NotAnObject))
  end.
Proof.
  unfold get_obj_prop.
  destruct a as [| | |h l|h l|h l|c]; cbn [obj_handle]; try reflexivity.
  destruct (node_of rs h) as [n|] eqn:En; [|reflexivity].
  destruct n as [| | | |len es e|len es e]; cbn [node_get_prop];
    try (unfold afterp; cbn [fst snd]; rewrite (put_node_same _ _ _ En); reflexivity).
  destruct (obj_prop W trap f bs name len es e) as [n' r]. reflexivity.
Qed.

(** the generated side, in the same shape *)
Lemma g_get_at_index_node grs a idx :
  g_get_at_index W trap bs grs (SAns a) idx =
  match idx_handle a with
  | Some h =>
      match g_node_of grs h with
      | Some v =>
          match LazyValueRef_get_at_index W trap (gfuel bs) v idx bs with
          | GOk (v', ROk x) => (g_put_node grs h v', g_encode (child h (g_idx_step v' idx)) x)
          | GOk (v', RErr c) => (g_put_node grs h v', OVal (AErr c))
          | GPanic s => (g_put_node grs h v, OPanic s)
          end
      | None => (grs, OVal (AErr E_NotIndexable))
      end
  | None => (grs, OVal (AErr E_NotIndexable))
  end.
Proof. destruct a; reflexivity. Qed.

Lemma g_get_key_at_index_node grs a idx :
  g_get_obj_key_at_index W trap bs grs (SAns a) idx =
  match obj_handle a with
  | Some h =>
      match g_node_of grs h with
      | Some v =>
          match LazyValueRef_get_key_at_index W trap (gfuel bs) v idx bs with
          | GOk (v', ROk x) => (g_put_node grs h v', g_encode (child h (SKey idx)) x)
          | GOk (v', RErr c) => (g_put_node grs h v', OVal (AErr c))
          | GPanic s => (g_put_node grs h v, OPanic s)
          end
      | None => (grs, OVal (AErr E_NotAnObject))
      end
  | None => (grs, OVal (AErr E_NotAnObject))
  end.
Proof. destruct a; reflexivity. Qed.

Lemma g_get_obj_prop_node grs a name :
  g_get_obj_prop W trap bs grs (SAns a) name =
  match obj_handle a with
  | Some h =>
      match g_node_of grs h with
      | Some v =>
          match LazyValueRef_get_object_property W trap (gfuel bs) v name bs with
          | GOk (v', ROk (Some x)) =>
              match g_prop_index bs name v' with
              | Some i => (g_put_node grs h v', g_encode (child h (SVal i)) x)
              | None => (g_put_node grs h v', OPanic 0)
              end
          | GOk (v', ROk None) => (g_put_node grs h v', OVal ANull)
          | GOk (v', RErr c) => (g_put_node grs h v', OVal (AErr c))
          | GPanic s => (g_put_node grs h v, OPanic s)
          end
      | None => (grs, OVal (AErr E_NotAnObject))
      end
  | None => (grs, OVal (AErr E_NotAnObject))
  end.
Proof. destruct a; reflexivity. Qed.

Lemma g_idx_step_conv v idx : g_idx_step v idx = idx_step (conv v) idx.
Proof. destruct v as [| | |[p l]|[len es e]|[len es e]]; reflexivity. Qed.

(** * One call *)
Hypothesis Hin : input_ok W bs.

Lemma in_bytes : Forall (fun b => b < 256) bs. Proof. exact (proj1 Hin). Qed.
Lemma in_small : lenN bs < 2 ^ W. Proof. destruct Hin as (_ & H & _). lia. Qed.
Lemma in_new : forall pos, new_sane bs pos (lz_new W trap bs pos).
Proof. apply lz_new_sane; [exact in_small|exact in_bytes]. Qed.
Lemma in_fuel : (ga bs 0 <= fuel_bs bs)%nat.
Proof. unfold ga, fb, fuel_bs, lenN. lia. Qed.
Lemma in_B32 : B32 <= 2 ^ W.
Proof. destruct Hin as (_ & _ & H). rewrite B32_pow. apply N.pow_le_mono_r; [discriminate|exact H]. Qed.
Lemma in_enough : (2 * fuel_bs bs + 2 <= gfuel bs)%nat.
Proof. unfold gfuel. lia. Qed.

Lemma small_node_len n : small n -> node_len n < 2 ^ W.
Proof. intros H. pose proof (small_len n H) as H1. pose proof in_B32. change (node_len' n) with (node_len n) in H1. lia. Qed.

Lemma res_fine_not_fuel {A} (r : res A) : res_fine r -> r <> OutOfFuel.
Proof. destruct r; cbn [res_fine]; intros H; try contradiction; discriminate. Qed.

(** what a call returns on the two sides: the same forest (up to [conv]), the same output; [small] is kept *)
Definition rel_call (gr : groots_t * out) (hr : roots_t * out) : Prop :=
  map conv (fst gr) = fst hr /\ snd gr = snd hr /\ Forall small (fst hr).

Lemma node_get_at_index_small f n idx : small n -> small (fst (node_get_at_index W trap bs f n idx)).
Proof.
  intros H. destruct n as [| | | |len es e|len es e]; cbn [node_get_at_index fst]; try exact H.
  - apply arr_get_small; [exact in_small|exact in_bytes|exact H].
  - apply obj_get_small; [exact in_small|exact in_bytes|exact H].
Qed.
Lemma node_get_key_at_index_small f n idx : small n -> small (fst (node_get_key_at_index W trap bs f n idx)).
Proof.
  intros H. destruct n as [| | | |len es e|len es e]; cbn [node_get_key_at_index fst]; try exact H.
  apply obj_get_small; [exact in_small|exact in_bytes|exact H].
Qed.
Lemma node_get_prop_small f n key : small n -> small (fst (node_get_prop W trap bs f n key)).
Proof.
  intros H. destruct n as [| | | |len es e|len es e]; cbn [node_get_prop fst]; try exact H.
  apply obj_prop_small; [exact in_small|exact in_bytes|exact H].
Qed.

Lemma call_get_at_index grs sc idx :
  Forall (sane (lenN bs) 0) (map conv grs) -> Forall small (map conv grs) ->
  o_fine (snd (get_at_index W trap (fuel_bs bs) bs (map conv grs) sc idx)) ->
  rel_call (g_get_at_index W trap bs grs sc idx) (get_at_index W trap (fuel_bs bs) bs (map conv grs) sc idx).
Proof.
  intros Hsane Hsm. destruct sc as [a|]; [|intros _; repeat split; exact Hsm].
  rewrite get_at_index_node, g_get_at_index_node.
  destruct (idx_handle a) as [h|]; [|intros _; repeat split; exact Hsm].
  rewrite conv_node_of. destruct (g_node_of grs h) as [v|] eqn:Eg; cbn [option_map]; [|intros _; repeat split; exact Hsm].
  assert (En : node_of (map conv grs) h = Some (conv v)) by (rewrite conv_node_of, Eg; reflexivity).
  destruct (node_sane bs _ _ _ Hsane En) as [p Hp]. pose proof (small_node_of _ _ _ Hsm En) as Hv.
  pose proof (idx_step_kept (fuel_bs bs) (conv v) idx) as Hk.
  pose proof (node_get_at_index_small (fuel_bs bs) (conv v) idx Hv) as Hs'.
  pose proof (loops_get_at_index W trap bs Hin) as HL. unfold get_at_index_eq_stmt, get_at_index_eq_stmt_k in HL.
  specialize (HL (fuel_bs bs) v idx p Hp (small_node_len _ Hv)).
  cbv zeta. destruct (node_get_at_index W trap bs (fuel_bs bs) (conv v) idx) as [n' r]. cbn [fst snd] in *.
  intros Hfine. pose proof (after_fine _ _ _ _ _ Hfine) as Hr.
  specialize (HL (res_fine_not_fuel _ Hr) (gfuel bs) in_enough).
  unfold rel_call. rewrite after_fst.
  assert (Hput : Forall small (put_node (map conv grs) h n')) by (apply small_put; assumption).
  destruct (LazyValueRef_get_at_index W trap (gfuel bs) v idx bs) as [[v' [x|c]]|s]; cbn [sim rel_res fst snd] in HL.
  - destruct HL as [Hc HR]. destruct r as [[]|c|s|]; try contradiction. subst n'.
    rewrite Hk in HR. rewrite (after_ok _ _ _ _ _ _ En HR). cbn [fst snd].
    split; [apply conv_put|]. split; [|exact Hput].
    rewrite g_idx_step_conv, Hk. reflexivity.
  - destruct HL as [Hc HR]. destruct r as [[]|c'|s|]; try contradiction. subst n' c'.
    unfold after. cbn [fst snd]. split; [apply conv_put|]. split; [reflexivity|exact Hput].
  - destruct HL as [_ HP]. destruct r as [[]|c'|s'|]; cbn [is_panic res_fine] in *; contradiction.
Qed.

Lemma call_get_key_at_index grs sc idx :
  Forall (sane (lenN bs) 0) (map conv grs) -> Forall small (map conv grs) ->
  o_fine (snd (get_obj_key_at_index W trap (fuel_bs bs) bs (map conv grs) sc idx)) ->
  rel_call (g_get_obj_key_at_index W trap bs grs sc idx) (get_obj_key_at_index W trap (fuel_bs bs) bs (map conv grs) sc idx).
Proof.
  intros Hsane Hsm. destruct sc as [a|]; [|intros _; repeat split; exact Hsm].
  rewrite get_key_at_index_node, g_get_key_at_index_node.
  destruct (obj_handle a) as [h|]; [|intros _; repeat split; exact Hsm].
  rewrite conv_node_of. destruct (g_node_of grs h) as [v|] eqn:Eg; cbn [option_map]; [|intros _; repeat split; exact Hsm].
  assert (En : node_of (map conv grs) h = Some (conv v)) by (rewrite conv_node_of, Eg; reflexivity).
  destruct (node_sane bs _ _ _ Hsane En) as [p Hp]. pose proof (small_node_of _ _ _ Hsm En) as Hv.
  pose proof (node_get_key_at_index_small (fuel_bs bs) (conv v) idx Hv) as Hs'.
  pose proof (loops_get_key_at_index W trap bs Hin) as HL. unfold get_key_at_index_eq_stmt, get_key_at_index_eq_stmt_k in HL.
  specialize (HL (fuel_bs bs) v idx p Hp (small_node_len _ Hv)).
  cbv zeta. destruct (node_get_key_at_index W trap bs (fuel_bs bs) (conv v) idx) as [n' r]. cbn [fst snd] in *.
  intros Hfine. pose proof (after_fine _ _ _ _ _ Hfine) as Hr.
  specialize (HL (res_fine_not_fuel _ Hr) (gfuel bs) in_enough).
  unfold rel_call. rewrite after_fst.
  assert (Hput : Forall small (put_node (map conv grs) h n')) by (apply small_put; assumption).
  destruct (LazyValueRef_get_key_at_index W trap (gfuel bs) v idx bs) as [[v' [x|c]]|s]; cbn [sim rel_res fst snd] in HL.
  - destruct HL as [Hc HR]. destruct r as [[]|c|s|]; try contradiction. subst n'.
    rewrite (after_ok _ _ _ _ _ _ En HR). cbn [fst snd].
    split; [apply conv_put|]. split; [reflexivity|exact Hput].
  - destruct HL as [Hc HR]. destruct r as [[]|c'|s|]; try contradiction. subst n' c'.
    unfold after. cbn [fst snd]. split; [apply conv_put|]. split; [reflexivity|exact Hput].
  - destruct HL as [_ HP]. destruct r as [[]|c'|s'|]; cbn [is_panic res_fine] in *; contradiction.
Qed.

Lemma call_get_obj_prop grs sc name :
  Forall (sane (lenN bs) 0) (map conv grs) -> Forall small (map conv grs) ->
  o_fine (snd (get_obj_prop W trap (fuel_bs bs) bs (map conv grs) sc name)) ->
  rel_call (g_get_obj_prop W trap bs grs sc name) (get_obj_prop W trap (fuel_bs bs) bs (map conv grs) sc name).
Proof.
  intros Hsane Hsm. destruct sc as [a|]; [|intros _; repeat split; exact Hsm].
  rewrite get_obj_prop_node, g_get_obj_prop_node.
  destruct (obj_handle a) as [h|]; [|intros _; repeat split; exact Hsm].
  rewrite conv_node_of. destruct (g_node_of grs h) as [v|] eqn:Eg; cbn [option_map]; [|intros _; repeat split; exact Hsm].
  assert (En : node_of (map conv grs) h = Some (conv v)) by (rewrite conv_node_of, Eg; reflexivity).
  destruct (node_sane bs _ _ _ Hsane En) as [p Hp]. pose proof (small_node_of _ _ _ Hsm En) as Hv.
  pose proof (node_get_prop_small (fuel_bs bs) (conv v) name Hv) as Hs'.
  pose proof (loops_get_object_property W trap bs Hin) as HL.
  unfold get_object_property_eq_stmt, get_object_property_eq_stmt_k in HL.
  specialize (HL (fuel_bs bs) v name p Hp (small_node_len _ Hv)).
  cbv zeta. destruct (node_get_prop W trap bs (fuel_bs bs) (conv v) name) as [n' r] eqn:EX. cbn [fst snd] in *.
  intros Hfine. pose proof (afterp_fine _ _ _ _ Hfine) as Hr.
  specialize (HL (res_fine_not_fuel _ Hr) (gfuel bs) in_enough).
  unfold rel_call. rewrite afterp_fst.
  assert (Hput : Forall small (put_node (map conv grs) h n')) by (apply small_put; assumption).
  destruct (LazyValueRef_get_object_property W trap (gfuel bs) v name bs) as [[v' [[x|]|c]]|s]; cbn [sim rel_res fst snd] in HL.
  - destruct HL as [Hc HR]. destruct r as [[i|]|c|s|]; try contradiction. subst n'.
    assert (Hi : g_prop_index bs name v' = Some i).
    { unfold g_prop_index. destruct (conv v) as [| | | | |len es e]; cbn [node_get_prop] in EX; try discriminate.
      destruct (obj_prop_index W trap bs _ _ _ _ _ _ _ EX) as (es' & e' & -> & Hf). rewrite Hf. reflexivity. }
    rewrite Hi. rewrite (afterp_ok _ _ _ _ _ _ En HR). cbn [fst snd].
    split; [apply conv_put|]. split; [reflexivity|exact Hput].
  - destruct HL as [Hc HR]. destruct r as [[i|]|c|s|]; try contradiction. subst n'.
    unfold afterp. cbn [fst snd]. split; [apply conv_put|]. split; [reflexivity|exact Hput].
  - destruct HL as [Hc HR]. destruct r as [[i|]|c'|s|]; try contradiction. subst n' c'.
    unfold afterp. cbn [fst snd]. split; [apply conv_put|]. split; [reflexivity|exact Hput].
  - destruct HL as [_ HP]. destruct r as [[i|]|c'|s'|]; cbn [is_panic res_fine] in *; contradiction.
Qed.

Lemma call_input_get grs : Forall small (map conv grs) ->
  rel_call (g_input_get W trap bs grs) (input_get W trap bs (map conv grs)).
Proof.
  intros Hsm. unfold g_input_get, input_get, rel_call.
  destruct Hin as (Hb & HW & H32). pose proof (lazy_new_eq W trap bs 0 Hb HW H32) as HE.
  pose proof (lz_new_small W trap bs in_small in_bytes 0) as HS.
  destruct (LazyValueRef_new W trap bs 0) as [[[v e]|c]|s]; destruct (lz_new W trap bs 0) as [[l e']|c'|s'|];
    cbn [same_res] in HE; try contradiction.
  - destruct HE as [<- <-]. cbn [fst snd new_small] in *. rewrite map_app. cbn [map].
    split; [reflexivity|]. split; [unfold g_encode; rewrite ge_lenN_map; reflexivity|].
    apply Forall_app. split; [exact Hsm|constructor; [exact HS|constructor]].
  - subst c'. cbn [fst snd]. repeat split; exact Hsm.
Qed.

Lemma call_get_val_len grs sc : g_get_val_len W trap grs sc = get_val_len (map conv grs) sc.
Proof.
  unfold g_get_val_len, get_val_len. destruct sc as [[| | |h n|h n|h n|c]|]; try reflexivity;
    rewrite conv_node_of; destruct (g_node_of grs h) as [v|]; cbn [option_map]; try reflexivity;
    pose proof (loops_get_value_length W trap 0%nat v) as E; rewrite E;
    destruct v as [| | |[p l]|[len es e]|[len es e]]; reflexivity.
Qed.

Lemma call_read_str grs sc len : o_fine (read_str bs (map conv grs) sc len) ->
  g_read_str W trap bs grs sc len = read_str bs (map conv grs) sc len.
Proof.
  unfold g_read_str, read_str. destruct sc as [[| | |h n|h n|h n|c]|]; try reflexivity.
  rewrite conv_node_of. destruct (g_node_of grs h) as [v|]; cbn [option_map]; [|reflexivity].
  destruct v as [| | |[p l]|[len' es e]|[len' es e]]; cbn [conv]; try reflexivity.
  rewrite (loops_str_addr W trap 0%nat (LazyValueRef_String (mkStringRef p l)) bs). cbn [conv].
  destruct (lenN bs <? p); [intros []|reflexivity].
Qed.

(** * One step of the two runs *)
Definition rel_state (g : gstate) (h : rstate) : Prop := gouts g = outs h /\ map conv (groots g) = roots h.

Lemma scope_rel g h sc : gouts g = outs h -> g_scope_of g sc = scope_of h sc.
Proof. intros E. unfold g_scope_of, scope_of. rewrite E. reflexivity. Qed.

Lemma exec_rel g h op : rel_state g h -> RInv bs (roots h) (outs h) -> Forall small (roots h) ->
  rel_state (g_exec W trap bs g op) (exec W trap (fuel_bs bs) bs h op) /\
  Forall small (roots (exec W trap (fuel_bs bs) bs h op)).
Proof.
  intros [Eo Er] HI Hsm. pose proof (proj1 HI) as Hsane.
  destruct g as [grs gos], h as [rs os]. cbn [gouts groots roots outs] in *. subst gos rs.
  unfold g_exec, exec. cbn [gouts groots roots outs].
  destruct op as [|sc name|sc i|sc i|sc|sc].
  - destruct (call_input_get grs Hsm) as (A & B & C).
    destruct (g_input_get W trap bs grs) as [gr go], (input_get W trap bs (map conv grs)) as [hr ho].
    cbn [fst snd] in *. unfold rel_state. cbn [gouts groots roots outs]. subst. auto.
  - rewrite (scope_rel {| groots := grs; gouts := os |} {| roots := map conv grs; outs := os |} sc eq_refl).
    set (s := scope_of _ sc).
    assert (Hf : o_fine (snd (get_obj_prop W trap (fuel_bs bs) bs (map conv grs) s name))).
    { destruct (get_obj_prop W trap (fuel_bs bs) bs (map conv grs) s name) as [rs' o] eqn:E.
      exact (proj2 (get_obj_prop_safe W trap bs in_new _ in_fuel _ _ _ _ _ _ HI E)). }
    destruct (call_get_obj_prop grs s name Hsane Hsm Hf) as (A & B & C).
    destruct (g_get_obj_prop W trap bs grs s name) as [gr go], (get_obj_prop W trap (fuel_bs bs) bs (map conv grs) s name) as [hr ho].
    cbn [fst snd] in *. unfold rel_state. cbn [gouts groots roots outs]. subst. auto.
  - rewrite (scope_rel {| groots := grs; gouts := os |} {| roots := map conv grs; outs := os |} sc eq_refl).
    set (s := scope_of _ sc).
    assert (Hf : o_fine (snd (get_at_index W trap (fuel_bs bs) bs (map conv grs) s i))).
    { destruct (get_at_index W trap (fuel_bs bs) bs (map conv grs) s i) as [rs' o] eqn:E.
      exact (proj2 (get_at_index_safe W trap bs in_new _ in_fuel _ _ _ _ _ _ HI E)). }
    destruct (call_get_at_index grs s i Hsane Hsm Hf) as (A & B & C).
    destruct (g_get_at_index W trap bs grs s i) as [gr go], (get_at_index W trap (fuel_bs bs) bs (map conv grs) s i) as [hr ho].
    cbn [fst snd] in *. unfold rel_state. cbn [gouts groots roots outs]. subst. auto.
  - rewrite (scope_rel {| groots := grs; gouts := os |} {| roots := map conv grs; outs := os |} sc eq_refl).
    set (s := scope_of _ sc).
    assert (Hf : o_fine (snd (get_obj_key_at_index W trap (fuel_bs bs) bs (map conv grs) s i))).
    { destruct (get_obj_key_at_index W trap (fuel_bs bs) bs (map conv grs) s i) as [rs' o] eqn:E.
      exact (proj2 (get_obj_key_at_index_safe W trap bs in_new _ in_fuel _ _ _ _ _ _ HI E)). }
    destruct (call_get_key_at_index grs s i Hsane Hsm Hf) as (A & B & C).
    destruct (g_get_obj_key_at_index W trap bs grs s i) as [gr go],
             (get_obj_key_at_index W trap (fuel_bs bs) bs (map conv grs) s i) as [hr ho].
    cbn [fst snd] in *. unfold rel_state. cbn [gouts groots roots outs]. subst. auto.
  - rewrite (scope_rel {| groots := grs; gouts := os |} {| roots := map conv grs; outs := os |} sc eq_refl).
    rewrite call_get_val_len. unfold rel_state. cbn [gouts groots roots outs]. auto.
  - rewrite (scope_rel {| groots := grs; gouts := os |} {| roots := map conv grs; outs := os |} sc eq_refl).
    set (s := scope_of _ sc).
    assert (Hf : o_fine (read_str bs (map conv grs) s (answer_len s))).
    { subst s. unfold scope_of. cbn [outs]. destruct sc as [k|]; [|exact I].
      exact (read_str_safe W trap bs in_new _ in_fuel _ _ k HI). }
    rewrite (call_read_str grs s _ Hf). unfold rel_state. cbn [gouts groots roots outs]. auto.
Qed.

Lemma run_rel : forall ops g h, rel_state g h -> RInv bs (roots h) (outs h) -> Forall small (roots h) ->
  rel_state (fold_left (g_exec W trap bs) ops g) (fold_left (exec W trap (fuel_bs bs) bs) ops h).
Proof.
  induction ops as [|op ops IH]; intros g h HR HI Hsm; [exact HR|].
  cbn [fold_left]. destruct (exec_rel g h op HR HI Hsm) as [HR' Hsm'].
  apply IH; [exact HR'| |exact Hsm'].
  exact (proj1 (exec_safe W trap bs in_new _ in_fuel h op HI)).
Qed.

End Calls.

(** * The theorem *)
Theorem gen_run_eq : forall W trap bs ops,
  Forall (fun b => b < 256) bs -> lenN bs + 9 < 2 ^ W -> 32 <= W ->
  gouts (g_run W trap bs ops) = outs (run W trap (fuel_bs bs) bs ops) /\
  map conv (groots (g_run W trap bs ops)) = roots (run W trap (fuel_bs bs) bs ops).
Proof.
  intros W trap bs ops Hb HW H32. unfold g_run, run.
  apply (run_rel W trap bs (conj Hb (conj HW H32)) ops ginit rinit).
  - split; reflexivity.
  - split; constructor.
  - constructor.
Qed.

(** the generated reader never panics on a whole call sequence, and never reports a string outside the input *)
Corollary gen_run_fine : forall W trap bs ops,
  Forall (fun b => b < 256) bs -> lenN bs + 9 < 2 ^ W -> 32 <= W ->
  Forall o_fine (gouts (g_run W trap bs ops)).
Proof.
  intros W trap bs ops Hb HW H32. rewrite (proj1 (gen_run_eq W trap bs ops Hb HW H32)).
  apply run_RInv. apply lz_new_sane; [lia|exact Hb].
Qed.

(** * Non-vacuity: a document and a call list, run on the generated code *)
(** { "a": [5, "b"], "b": true } *)
Definition rdoc : list N := [0x82; 0xa1; 0x61; 0x92; 0x05; 0xa1; 0x62; 0xa1; 0x62; 0xc3].
Definition rops : list rop :=
  [RRoot; RProp (Some 0) [0x62]; RProp (Some 0) [0x61]; RIdx (Some 2) 1; RLen (Some 3); RStr (Some 3);
   RKey (Some 0) 1; RStr (Some 6); RIdx (Some 0) 0; RIdx (Some 2) 7; RProp (Some 1) [0x61]; RIdx None 0; RLen (Some 0)].

Lemma rdoc_ok : Forall (fun b => b < 256) rdoc /\ lenN rdoc + 9 < 2 ^ 32 /\ 32 <= 32.
Proof. split; [unfold rdoc; repeat (constructor; [reflexivity|]); constructor|]. split; [vm_compute; reflexivity|discriminate]. Qed.

Example gen_run_rdoc :
  gouts (g_run 32 true rdoc rops) =
  [OVal (AObj (0, []) 2); OVal (ABool true); OVal (AArr (0, [SVal 0]) 2); OVal (AStr (0, [SVal 0; SIdx 1]) 1);
   OLen (Some 1); OBytes (Some [0x62]); OVal (AStr (0, [SKey 1]) 1); OBytes (Some [0x62]);
   OVal (AArr (0, [SVal 0]) 2); OVal (AErr E_IndexOOB); OVal (AErr E_NotAnObject); OVal (AErr E_Read); OLen (Some 2)].
Proof. vm_compute. reflexivity. Qed.

Example gen_run_eq_rdoc :
  gouts (g_run 32 true rdoc rops) = outs (run 32 true (fuel_bs rdoc) rdoc rops) /\
  map conv (groots (g_run 32 true rdoc rops)) = roots (run 32 true (fuel_bs rdoc) rdoc rops).
Proof. destruct rdoc_ok as (A & B & C). exact (gen_run_eq 32 true rdoc rops A B C). Qed.

Print Assumptions gen_run_eq.
Print Assumptions gen_run_fine.
Print Assumptions gen_run_rdoc.
