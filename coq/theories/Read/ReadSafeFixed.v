(** LOCAL COPY of Read/ReadSafe.v over Read/LazyFixed.v.
    Executable helpers for running and checking the lazy-reader model: the fuel that suffices,
    the "no panic / stray / out-of-fuel" test on outputs, and the decidable input condition
    [safe_bytes] under which the UNREPAIRED reader is robust (C08_nopanic_partial). *)
From Coq Require Import NArith List Bool.
From SFV Require Import Base.Bytes Base.F64 Read.LazyFixed Read.ReadRunFixed.
Import ListNotations.
Open Scope N_scope.

Definition fuel_bs (bs : list N) : nat := (4 * length bs + 4)%nat.
Definition no_bad (o : out) : bool := match o with OPanic _ | OStray | OFuel => false | _ => true end.


Definition new_sane_b (L pos : N) (r : res (lz * option N)) : bool :=
  match r with
  | Ok (LArr _ [] endp, None) | Ok (LObj _ [] endp, None) => (pos <? endp) && (endp <=? L)
  | Ok (LStr ptr len, Some e) => (ptr + len <=? L) && (pos <? e) && (e <=? L)
  | Ok (LNum b, Some e) => negb (is_nan b) && (pos <? e) && (e <=? L)
  | Ok (LNull, Some e) | Ok (LBool _, Some e) => (pos <? e) && (e <=? L)
  | Err _ => true
  | _ => false
  end.

(** every position of the input that parses as a value header parses to a sane one:
    in particular every string header has its extent inside the input and no float is a NaN *)
Definition safe_bytes (W : N) (trap : bool) (bs : list N) : bool :=
  forallb (fun i => new_sane_b (lenN bs) (N.of_nat i) (lz_new W trap bs (N.of_nat i))) (seq 0 (length bs)).

