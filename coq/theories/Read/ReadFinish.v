(** [finish_processing] on a node that agrees with a well-formed wire value: it succeeds, returns the
    end offset for composites, leaves an agreeing (fully processed) node that extends the old one. *)
From Coq Require Import NArith ZArith Lia List Bool Arith ZifyNat ZifyN ZifyBool.
From SFV Require Import Base.Bytes Base.F64 Base.BytesProofs Msgpack.Wire Read.Lazy Read.ReadRun Read.ReadSpec Read.ReadInv Read.ReadNew.
Import ListNotations.
Open Scope N_scope.

Lemma size_arr f ch : size (WArr f ch) = len_hlen f + sizes ch.
Proof. unfold size, sizes. cbn [enc]. rewrite lenN_app, arr_hdr_len. reflexivity. Qed.
Lemma size_map f ch : size (WMap f ch) = len_hlen f + psizes ch.
Proof. unfold size, psizes. rewrite enc_map_eq, lenN_app, map_hdr_len. reflexivity. Qed.

Lemma endp_ok_full p pre : endp_ok p pre (p + sizes pre).
Proof.
  destruct (snoc_cases pre) as [->|(pre0 & c & ->)].
  - apply endp_ok_nil. rewrite sizes_nil. lia.
  - apply endp_ok_snoc. left. reflexivity.
Qed.
Lemma pendp_ok_full p pre : pendp_ok p pre (p + psizes pre).
Proof.
  destruct (snoc_cases pre) as [->|(pre0 & [k v] & ->)].
  - apply pendp_ok_nil. rewrite psizes_nil. lia.
  - apply pendp_ok_snoc. left. reflexivity.
Qed.

Lemma agree_list_nil_l p es : agree_list p [] es -> es = [].
Proof. inversion 1; reflexivity. Qed.
Lemma agree_pairs_nil_l p es : agree_pairs p [] es -> es = [].
Proof. inversion 1; reflexivity. Qed.

Lemma agree_list_snoc_l p pre0 c elems : agree_list p (pre0 ++ [c]) elems ->
  exists es0 x, elems = es0 ++ [x] /\ agree_list p pre0 es0 /\ agree c (p + sizes pre0) x.
Proof.
  intros H. destruct (snoc_cases elems) as [->|(es0 & x & ->)].
  - apply agree_list_length in H. rewrite lenN_app, lenN_one, lenN_nil in H. lia.
  - destruct (agree_list_snoc_inv _ _ _ _ H) as (pre0' & c' & E & Hl & Hc).
    apply app_inj_tail in E. destruct E as [<- <-]. eauto.
Qed.
Lemma agree_pairs_snoc_l p pre0 k v elems : agree_pairs p (pre0 ++ [(k, v)]) elems ->
  exists es0 xk xv, elems = es0 ++ [(xk, xv)] /\ agree_pairs p pre0 es0 /\
    agree k (p + psizes pre0) xk /\ agree v (p + psizes pre0 + size k) xv.
Proof.
  intros H. destruct (snoc_cases elems) as [->|(es0 & [xk xv] & ->)].
  - apply agree_pairs_length in H. rewrite lenN_app, lenN_one, lenN_nil in H. lia.
  - destruct (agree_pairs_snoc_inv _ _ _ _ _ H) as (pre0' & k' & v' & E & Hl & Hk & Hv).
    apply app_inj_tail in E. destruct E as [<- E]. inversion E; subst. eauto 8.
Qed.

Lemma fsz_in c ch : In c ch -> (fsz c <= list_sum (map fsz ch))%nat.
Proof.
  intros H. apply in_split in H. destruct H as (a & b & ->). rewrite map_app. cbn [map].
  rewrite list_sum_mid. lia.
Qed.
Lemma fsz_in_pair k v ch : In (k, v) ch -> (fsz v <= list_sum (map (fun kv : wire * wire => fsz (snd kv)) ch))%nat.
Proof.
  intros H. apply in_split in H. destruct H as (a & b & ->). rewrite map_app. cbn [map snd].
  rewrite list_sum_mid. lia.
Qed.

Section Fin.
Variable W : N.
Variable trap : bool.
Variable bs : list N.
Hypothesis HW : lenN bs < 2 ^ W.

Definition fin_spec (w : wire) : Prop :=
  forall s fuel l, good bs s w -> (fsz w <= fuel)%nat -> agree w s l ->
  exists l', finish W trap fuel bs l = (l', Ok (if composite w then Some (s + size w) else None)) /\
             agree w s l' /\ ext l l'.

(** unfolding equations *)
Lemma finish_S f n : finish W trap (S f) bs n =
  match n with
  | LArr len elems endp =>
      let '(elems1, endp1, r) := finish_last_arr (finish W trap f bs) elems endp in
      match r with
      | Ok _ => if len <? lenN elems1 then (LArr len elems1 endp1, Panic P_sub_overflow)
                else fin_arr W trap f bs len elems1 endp1
      | Err c => (LArr len elems1 endp1, Err c)
      | Panic s => (LArr len elems1 endp1, Panic s)
      | OutOfFuel => (LArr len elems1 endp1, OutOfFuel)
      end
  | LObj len elems endp =>
      let '(elems1, endp1, r) := finish_last_obj (finish W trap f bs) elems endp in
      match r with
      | Ok _ => if len <? lenN elems1 then (LObj len elems1 endp1, Panic P_sub_overflow)
                else fin_obj W trap f bs len elems1 endp1
      | Err c => (LObj len elems1 endp1, Err c)
      | Panic s => (LObj len elems1 endp1, Panic s)
      | OutOfFuel => (LObj len elems1 endp1, OutOfFuel)
      end
  | _ => (n, Ok None)
  end.
Proof. reflexivity. Qed.

Lemma fin_arr_S f len elems endp : fin_arr W trap (S f) bs len elems endp =
    if len <=? lenN elems then (LArr len elems endp, Ok (Some endp))
    else
      match lz_new W trap bs endp with
      | Ok (v, e0) =>
          let '(v', r) := finish W trap f bs v in
          match r with
          | Ok e1 =>
              match (match e1 with Some e => Some e | None => e0 end) with
              | Some e => fin_arr W trap f bs len (elems ++ [v']) e
              | None => (LArr len elems endp, Panic P_expect_end)
              end
          | Err c => (LArr len elems endp, Err c)
          | Panic s => (LArr len elems endp, Panic s)
          | OutOfFuel => (LArr len elems endp, OutOfFuel)
          end
      | Err c => (LArr len elems endp, Err c)
      | Panic s => (LArr len elems endp, Panic s)
      | OutOfFuel => (LArr len elems endp, OutOfFuel)
      end.
Proof. reflexivity. Qed.

Lemma fin_obj_S f len elems endp : fin_obj W trap (S f) bs len elems endp =
    if len <=? lenN elems then (LObj len elems endp, Ok (Some endp))
    else
      match new_key W trap bs endp with
      | Ok (k, ke) =>
          match lz_new W trap bs ke with
          | Ok (v, e0) =>
              let '(v', r) := finish W trap f bs v in
              match r with
              | Ok e1 =>
                  match (match e1 with Some e => Some e | None => e0 end) with
                  | Some e => fin_obj W trap f bs len (elems ++ [(k, v')]) e
                  | None => (LObj len elems endp, Panic P_expect_end)
                  end
              | Err c => (LObj len elems endp, Err c)
              | Panic s => (LObj len elems endp, Panic s)
              | OutOfFuel => (LObj len elems endp, OutOfFuel)
              end
          | Err c => (LObj len elems endp, Err c)
          | Panic s => (LObj len elems endp, Panic s)
          | OutOfFuel => (LObj len elems endp, OutOfFuel)
          end
      | Err c => (LObj len elems endp, Err c)
      | Panic s => (LObj len elems endp, Panic s)
      | OutOfFuel => (LObj len elems endp, OutOfFuel)
      end.
Proof. reflexivity. Qed.

Lemma new_key_ok q k : good bs q k -> is_wstr k = true ->
  new_key W trap bs q = Ok (fresh k q, q + size k).
Proof.
  intros (Hw & Hn & Hp) Hs. unfold new_key. rewrite (new_ok W trap bs HW q k Hw Hn Hp).
  destruct k; try discriminate. reflexivity.
Qed.

(** ** finishing the last processed child *)
Lemma finish_last_arr_ok s f pre rest fu elems endp :
  good bs s (WArr f (pre ++ rest)) -> Forall fin_spec (pre ++ rest) ->
  (forall c, In c (pre ++ rest) -> (fsz c <= fu)%nat) ->
  agree_list (s + len_hlen f) pre elems -> endp_ok (s + len_hlen f) pre endp ->
  exists elems', finish_last_arr (finish W trap fu bs) elems endp = (elems', s + len_hlen f + sizes pre, Ok tt) /\
                 agree_list (s + len_hlen f) pre elems' /\ exts elems elems'.
Proof.
  intros Hg IH Hfu Hl He. set (p0 := s + len_hlen f) in *.
  destruct (snoc_cases pre) as [->|(pre0 & c & ->)].
  - apply agree_list_nil_l in Hl. subst elems. apply endp_ok_nil in He. rewrite He.
    exists []. unfold finish_last_arr. rewrite last_opt_nil, sizes_nil, N.add_0_r.
    repeat split; [constructor|apply exts_refl].
  - destruct (agree_list_snoc_l _ _ _ _ Hl) as (es0 & x & -> & Hl0 & Hx).
    rewrite <- app_assoc in Hg, IH, Hfu. cbn [app] in Hg, IH, Hfu.
    assert (Hin : In c (pre0 ++ c :: rest)) by (apply in_or_app; right; left; reflexivity).
    pose proof (proj1 (Forall_forall _ _) IH c Hin) as IHc.
    pose proof (good_arr_child _ _ _ _ _ _ Hg) as Hgc. fold p0 in Hgc.
    destruct (IHc _ fu x Hgc (Hfu _ Hin) Hx) as (x' & Hfin & Hx' & Hext).
    unfold finish_last_arr. rewrite last_opt_snoc, Hfin, upd_last_snoc.
    apply endp_ok_snoc in He. rewrite sizes_snoc in *.
    destruct (composite c) eqn:Ec.
    + exists (es0 ++ [x']). rewrite N.add_assoc.
      repeat split; [apply agree_list_snoc; assumption|apply exts_snoc; exact Hext].
    + destruct He as [->|[? _]]; [|discriminate].
      exists (es0 ++ [x']). repeat split; [apply agree_list_snoc; assumption|apply exts_snoc; exact Hext].
Qed.

Lemma finish_last_obj_ok s f pre rest fu elems endp :
  good bs s (WMap f (pre ++ rest)) -> Forall (fun kv => fin_spec (fst kv) /\ fin_spec (snd kv)) (pre ++ rest) ->
  (forall k v, In (k, v) (pre ++ rest) -> (fsz v <= fu)%nat) ->
  agree_pairs (s + len_hlen f) pre elems -> pendp_ok (s + len_hlen f) pre endp ->
  exists elems', finish_last_obj (finish W trap fu bs) elems endp = (elems', s + len_hlen f + psizes pre, Ok tt) /\
                 agree_pairs (s + len_hlen f) pre elems' /\ pexts elems elems'.
Proof.
  intros Hg IH Hfu Hl He. set (p0 := s + len_hlen f) in *.
  destruct (snoc_cases pre) as [->|(pre0 & [k c] & ->)].
  - apply agree_pairs_nil_l in Hl. subst elems. apply pendp_ok_nil in He. rewrite He.
    exists []. unfold finish_last_obj. rewrite last_opt_nil, psizes_nil, N.add_0_r.
    repeat split; [constructor|apply pexts_refl].
  - destruct (agree_pairs_snoc_l _ _ _ _ _ Hl) as (es0 & xk & x & -> & Hl0 & Hxk & Hx).
    rewrite <- app_assoc in Hg, IH, Hfu. cbn [app] in Hg, IH, Hfu.
    assert (Hin : In (k, c) (pre0 ++ (k, c) :: rest)) by (apply in_or_app; right; left; reflexivity).
    pose proof (proj1 (Forall_forall _ _) IH _ Hin) as [_ IHc]. cbn [snd] in IHc.
    destruct (good_map_child _ _ _ _ _ _ _ Hg) as (Hks & Hgk & Hgc). fold p0 in Hgk, Hgc.
    destruct (IHc _ fu x Hgc (Hfu _ _ Hin) Hx) as (x' & Hfin & Hx' & Hext).
    unfold finish_last_obj. rewrite last_opt_snoc, Hfin, upd_last_snoc.
    apply pendp_ok_snoc in He. rewrite psizes_snoc in *.
    destruct (composite c) eqn:Ec.
    + exists (es0 ++ [(xk, x')]). rewrite !N.add_assoc.
      repeat split; [apply agree_pairs_snoc; assumption|apply pexts_snoc; exact Hext].
    + destruct He as [->|[? _]]; [|discriminate].
      exists (es0 ++ [(xk, x')]). rewrite !N.add_assoc.
      repeat split; [apply agree_pairs_snoc; assumption|apply pexts_snoc; exact Hext].
Qed.

(** ** the finishing loops *)
Lemma fin_arr_ok s f ch : good bs s (WArr f ch) -> Forall fin_spec ch ->
  forall rest pre, ch = pre ++ rest -> forall fuel elems,
  (1 + list_sum (map fsz rest) <= fuel)%nat -> agree_list (s + len_hlen f) pre elems ->
  exists elems', fin_arr W trap fuel bs (lenN ch) elems (s + len_hlen f + sizes pre) =
                   (LArr (lenN ch) elems' (s + len_hlen f + sizes ch), Ok (Some (s + len_hlen f + sizes ch))) /\
                 agree_list (s + len_hlen f) ch elems' /\ exts elems elems'.
Proof.
  intros Hg IH. set (p0 := s + len_hlen f) in *.
  induction rest as [|c rest IHr]; intros pre Hch fuel elems Hfu Hl.
  - rewrite app_nil_r in Hch. subst pre. destruct fuel as [|fu]; [cbn in Hfu; lia|].
    rewrite fin_arr_S. pose proof (agree_list_length _ _ _ Hl) as Hlen.
    destruct (N.leb_spec (lenN ch) (lenN elems)); [|lia].
    exists elems. repeat split; [exact Hl|apply exts_refl].
  - destruct fuel as [|fu]; [cbn in Hfu; lia|]. cbn [map] in Hfu. rewrite list_sum_cons in Hfu.
    rewrite fin_arr_S. pose proof (agree_list_length _ _ _ Hl) as Hlen.
    destruct (N.leb_spec (lenN ch) (lenN elems)) as [Hle|_].
    { rewrite Hch, lenN_app, lenN_cons in Hle. lia. }
    subst ch. pose proof (good_arr_child _ _ _ _ _ _ Hg) as Hgc. fold p0 in Hgc.
    destruct Hgc as (Hwc & Hnc & Hpc).
    rewrite (new_ok W trap bs HW _ c Hwc Hnc Hpc).
    assert (Hin : In c (pre ++ c :: rest)) by (apply in_or_app; right; left; reflexivity).
    pose proof (proj1 (Forall_forall _ _) IH c Hin) as IHc.
    destruct (IHc (p0 + sizes pre) fu (fresh c (p0 + sizes pre))) as (v' & Hfin & Hv' & _);
      [repeat split; assumption|lia|apply fresh_agree|].
    rewrite Hfin.
    assert (Ee : match (if composite c then Some (p0 + sizes pre + size c) else None) with
                 | Some e => Some e
                 | None => if composite c then None else Some (p0 + sizes pre + size c)
                 end = Some (p0 + sizes (pre ++ [c]))).
    { rewrite sizes_snoc, N.add_assoc. destruct (composite c); reflexivity. }
    cbv beta iota. rewrite Ee.
    destruct (IHr (pre ++ [c])) with (fuel := fu) (elems := elems ++ [v']) as (elems' & Hr & Hl' & Hx).
    + rewrite <- app_assoc. reflexivity.
    + pose proof (fsz_pos c). lia.
    + apply agree_list_snoc; assumption.
    + exists elems'. repeat split; [exact Hr|exact Hl'|].
      eapply exts_trans; [apply exts_app|exact Hx].
Qed.

Lemma fin_obj_ok s f ch : good bs s (WMap f ch) -> Forall (fun kv => fin_spec (fst kv) /\ fin_spec (snd kv)) ch ->
  forall rest pre, ch = pre ++ rest -> forall fuel elems,
  (1 + list_sum (map (fun kv => fsz (snd kv)) rest) <= fuel)%nat -> agree_pairs (s + len_hlen f) pre elems ->
  exists elems', fin_obj W trap fuel bs (lenN ch) elems (s + len_hlen f + psizes pre) =
                   (LObj (lenN ch) elems' (s + len_hlen f + psizes ch), Ok (Some (s + len_hlen f + psizes ch))) /\
                 agree_pairs (s + len_hlen f) ch elems' /\ pexts elems elems'.
Proof.
  intros Hg IH. set (p0 := s + len_hlen f) in *.
  induction rest as [|[k c] rest IHr]; intros pre Hch fuel elems Hfu Hl.
  - rewrite app_nil_r in Hch. subst pre. destruct fuel as [|fu]; [cbn in Hfu; lia|].
    rewrite fin_obj_S. pose proof (agree_pairs_length _ _ _ Hl) as Hlen.
    destruct (N.leb_spec (lenN ch) (lenN elems)); [|lia].
    exists elems. repeat split; [exact Hl|apply pexts_refl].
  - destruct fuel as [|fu]; [cbn in Hfu; lia|]. cbn [map snd] in Hfu. rewrite list_sum_cons in Hfu.
    rewrite fin_obj_S. pose proof (agree_pairs_length _ _ _ Hl) as Hlen.
    destruct (N.leb_spec (lenN ch) (lenN elems)) as [Hle|_].
    { rewrite Hch, lenN_app, lenN_cons in Hle. lia. }
    subst ch. destruct (good_map_child _ _ _ _ _ _ _ Hg) as (Hks & Hgk & Hgc). fold p0 in Hgk, Hgc.
    rewrite (new_key_ok _ _ Hgk Hks).
    destruct Hgc as (Hwc & Hnc & Hpc).
    rewrite (new_ok W trap bs HW _ c Hwc Hnc Hpc).
    assert (Hin : In (k, c) (pre ++ (k, c) :: rest)) by (apply in_or_app; right; left; reflexivity).
    pose proof (proj1 (Forall_forall _ _) IH _ Hin) as [_ IHc]. cbn [snd] in IHc.
    set (q := p0 + psizes pre + size k) in *.
    destruct (IHc q fu (fresh c q)) as (v' & Hfin & Hv' & _);
      [repeat split; assumption|lia|apply fresh_agree|].
    rewrite Hfin.
    assert (Ee : match (if composite c then Some (q + size c) else None) with
                 | Some e => Some e
                 | None => if composite c then None else Some (q + size c)
                 end = Some (p0 + psizes (pre ++ [(k, c)]))).
    { rewrite psizes_snoc. unfold q. rewrite !N.add_assoc. destruct (composite c); reflexivity. }
    cbv beta iota. rewrite Ee.
    destruct (IHr (pre ++ [(k, c)])) with (fuel := fu) (elems := elems ++ [(fresh k (p0 + psizes pre), v')]) as (elems' & Hr & Hl' & Hx).
    + rewrite <- app_assoc. reflexivity.
    + pose proof (fsz_pos c). lia.
    + apply agree_pairs_snoc; [assumption|apply fresh_agree|assumption].
    + exists elems'. repeat split; [exact Hr|exact Hl'|].
      eapply pexts_trans; [apply pexts_app|exact Hx].
Qed.

(** ** [finish_processing] *)
Theorem finish_ok : forall w, fin_spec w.
Proof.
  induction w as [w Hsc|f ch IH|f ch IH] using wire_ind'; intros s fuel l Hg Hfu Ha.
  - destruct fuel as [|fu]; [pose proof (fsz_pos w); lia|]. rewrite Hsc.
    destruct w; try discriminate; inversion Ha; subst; rewrite finish_S;
      (eexists; repeat split; [eassumption|apply ext_refl]).
  - destruct fuel as [|fu]; [cbn [fsz] in Hfu; lia|]. cbn [fsz] in Hfu. cbn [composite].
    inversion Ha as [| | | | | |s' f' ch' pre rest elems endp Hch Hl He|]; subst.
    rewrite finish_S.
    destruct (finish_last_arr_ok s f pre rest fu elems endp Hg IH) as (elems1 & Hfl & Hl1 & Hx1); try assumption.
    { intros c Hin. apply fsz_in in Hin. lia. }
    rewrite Hfl. cbv beta iota.
    pose proof (agree_list_length _ _ _ Hl1) as Hlen.
    destruct (N.ltb_spec (lenN (pre ++ rest)) (lenN elems1)) as [Hlt|_].
    { rewrite lenN_app in Hlt. lia. }
    destruct (fin_arr_ok s f (pre ++ rest) Hg IH rest pre eq_refl fu elems1) as (elems' & Hfa & Hl' & Hx'); [|exact Hl1|].
    { rewrite map_app, list_sum_app in Hfu. lia. }
    rewrite Hfa. rewrite size_arr, N.add_assoc.
    eexists; repeat split.
    + apply ag_arr with (pre := pre ++ rest) (rest := []); [rewrite app_nil_r; reflexivity|exact Hl'|apply endp_ok_full].
    + apply ext_arr_intro. eapply exts_trans; eassumption.
  - destruct fuel as [|fu]; [cbn [fsz] in Hfu; lia|]. cbn [fsz] in Hfu. cbn [composite].
    inversion Ha as [| | | | | | |s' f' ch' pre rest elems endp Hch Hl He]; subst.
    rewrite finish_S.
    destruct (finish_last_obj_ok s f pre rest fu elems endp Hg IH) as (elems1 & Hfl & Hl1 & Hx1); try assumption.
    { intros k v Hin. apply fsz_in_pair in Hin. lia. }
    rewrite Hfl. cbv beta iota.
    pose proof (agree_pairs_length _ _ _ Hl1) as Hlen.
    destruct (N.ltb_spec (lenN (pre ++ rest)) (lenN elems1)) as [Hlt|_].
    { rewrite lenN_app in Hlt. lia. }
    destruct (fin_obj_ok s f (pre ++ rest) Hg IH rest pre eq_refl fu elems1) as (elems' & Hfa & Hl' & Hx'); [|exact Hl1|].
    { rewrite map_app, list_sum_app in Hfu. lia. }
    rewrite Hfa. rewrite size_map, N.add_assoc.
    eexists; repeat split.
    + apply ag_map with (pre := pre ++ rest) (rest := []); [rewrite app_nil_r; reflexivity|exact Hl'|apply pendp_ok_full].
    + apply ext_obj_intro. eapply pexts_trans; eassumption.
Qed.

End Fin.
