(** Facts about the sequential decoder [SeqSpec]: shape of headers, positions advance, the fuel
    [seq_fuel] suffices (fuel-free unfolding equations). *)
From Coq Require Import NArith ZArith Lia List Bool Arith ZifyNat ZifyN ZifyBool.
From SFV Require Import Base.Bytes Base.F64 Base.BytesProofs Read.Lazy Read.ReadRun Read.ReadSpec Read.ReadSafe
  Read.ReadRobust Read.SeqSpec.
Import ListNotations.
Open Scope N_scope.

(** ** [lz_new] returns containers with no processed child *)
Lemma lz_new_shape W trap bs pos v e : lz_new W trap bs pos = Ok (v, e) ->
  match v with LArr _ es _ | LObj _ es _ => es = [] | _ => True end.
Proof.
  unfold lz_new. destruct (nthN bs pos) as [m|]; [|discriminate].
  repeat match goal with |- context [if ?c then _ else _] => destruct c end;
    unfold str_at, add_w, num;
    repeat match goal with
    | |- context [match read_be ?a ?b ?c with _ => _ end] => destruct (read_be a b c)
    | |- context [if ?c then _ else _] => destruct c
    end;
    intros H; try discriminate H; inversion H; subst; try exact I; reflexivity.
Qed.

Definition res_fine' {A} (r : res A) : Prop := match r with Panic _ | OutOfFuel => False | _ => True end.

Section Facts.
Variable W : N.
Variable trap : bool.
Variable bs : list N.
Hypothesis Hnew : forall pos, new_sane bs pos (lz_new W trap bs pos).

Notation L := (lenN bs).
Notation hdr := (SeqSpec.hdr W trap bs).
Notation key_at := (SeqSpec.key_at W trap bs).
Notation skip := (SeqSpec.skip W trap bs).
Notation skip_elems := (SeqSpec.skip_elems W trap bs).
Notation skip_pairs := (SeqSpec.skip_pairs W trap bs).
Notation fb := (ReadRobust.fb bs).
Notation la := (ReadRobust.la bs).

(** * Headers *)
Lemma hdr_cases pos v e : hdr pos = Ok (v, e) ->
  sane L pos v /\
  match v with
  | LArr len es p | LObj len es p => es = [] /\ e = None /\ pos < p /\ p <= L
  | _ => exists e', e = Some e' /\ pos < e' /\ e' <= L
  end.
Proof.
  intros H. unfold SeqSpec.hdr in H. pose proof (Hnew pos) as Hn. rewrite H in Hn. cbn [new_sane] in Hn.
  destruct Hn as [Hs He]. pose proof (lz_new_shape _ _ _ _ _ _ H) as Hsh. split; [exact Hs|].
  destruct v; cbn [is_comp] in He; try exact He.
  - subst. destruct (sane_arr_inv _ _ _ _ _ Hs) as (_ & ? & ? & _). auto.
  - subst. destruct (sane_obj_inv _ _ _ _ _ Hs) as (_ & ? & ? & _). auto.
Qed.

Lemma hdr_fine pos : res_fine' (hdr pos).
Proof.
  unfold SeqSpec.hdr. pose proof (Hnew pos) as Hn. destruct (lz_new W trap bs pos) as [[v e]|c|s|]; cbn in *; auto.
Qed.

Lemma hdr_scalar pos v e : hdr pos = Ok (v, Some e) -> is_comp v = false /\ pos < e /\ e <= L /\ sane L pos v.
Proof.
  intros H. destruct (hdr_cases _ _ _ H) as [Hs Hc]. destruct v; cbn [is_comp];
    try (destruct Hc as (e' & E & ? & ?); inversion E; subst; auto);
    destruct Hc as (_ & E & _); discriminate.
Qed.

Lemma hdr_arr pos len es p e : hdr pos = Ok (LArr len es p, e) -> es = [] /\ e = None /\ pos < p /\ p <= L.
Proof. intros H. exact (proj2 (hdr_cases _ _ _ H)). Qed.
Lemma hdr_obj pos len es p e : hdr pos = Ok (LObj len es p, e) -> es = [] /\ e = None /\ pos < p /\ p <= L.
Proof. intros H. exact (proj2 (hdr_cases _ _ _ H)). Qed.

Lemma hdr_oob pos : L <= pos -> hdr pos = Err E_Read.
Proof. intros H. apply lz_new_oob. exact H. Qed.

(** * Keys *)
Lemma key_at_inv pos k ke : key_at pos = Ok (k, ke) ->
  hdr pos = Ok (k, Some ke) /\ is_str k = true /\ pos < ke /\ ke <= L.
Proof.
  unfold SeqSpec.key_at, new_key. fold (hdr pos). destruct (hdr pos) as [[k' [ke'|]]|c|s|] eqn:E; try discriminate.
  destruct (is_str k') eqn:Es; [|discriminate]. intros H. inversion H; subst.
  destruct (hdr_scalar _ _ _ E) as (_ & ? & ? & _). auto.
Qed.
Lemma key_at_intro pos k ke : hdr pos = Ok (k, Some ke) -> is_str k = true -> key_at pos = Ok (k, ke).
Proof. intros H Hs. unfold SeqSpec.key_at, new_key. fold (hdr pos). rewrite H, Hs. reflexivity. Qed.
Lemma key_at_fine pos : res_fine' (key_at pos).
Proof.
  unfold SeqSpec.key_at, new_key. fold (hdr pos). pose proof (hdr_fine pos) as Hf.
  destruct (hdr pos) as [[k [ke|]]|c|s|]; cbn in *; auto. destruct (is_str k); exact I.
Qed.
Lemma key_at_str pos k ke : key_at pos = Ok (k, ke) -> exists kp kl, k = LStr kp kl /\ kp + kl <= L.
Proof.
  intros H. destruct (key_at_inv _ _ _ H) as (Hh & Hs & _). destruct (hdr_scalar _ _ _ Hh) as (_ & _ & _ & Hsn).
  destruct k; try discriminate. inversion Hsn; subst. eauto.
Qed.

(** * Unfolding equations (with fuel) *)
Lemma skip_S0 f pos : skip (S f) pos =
      match hdr pos with
      | Ok (LArr len _ first, _) => skip_elems f len first
      | Ok (LObj len _ first, _) => skip_pairs f len first
      | Ok (_, Some e) => Ok e
      | Ok (_, None) => Err E_Read
      | Err c => Err c | Panic s => Panic s | OutOfFuel => OutOfFuel
      end.
Proof. reflexivity. Qed.

Lemma skip_S f pos : skip (S f) pos =
  match hdr pos with
  | Ok (v, e0) =>
      match v with
      | LArr len _ first => skip_elems f len first
      | LObj len _ first => skip_pairs f len first
      | _ => match e0 with Some e => Ok e | None => Err E_Read end
      end
  | Err c => Err c | Panic s => Panic s | OutOfFuel => OutOfFuel
  end.
Proof. rewrite skip_S0. destruct (hdr pos) as [[[] []]| | |]; reflexivity. Qed.

Lemma skip_elems_S f n pos : skip_elems (S f) n pos =
      if n =? 0 then Ok pos
      else match skip f pos with
           | Ok e => skip_elems f (n - 1) e
           | Err c => Err c | Panic s => Panic s | OutOfFuel => OutOfFuel
           end.
Proof. reflexivity. Qed.

Lemma skip_pairs_S f n pos : skip_pairs (S f) n pos =
      if n =? 0 then Ok pos
      else match key_at pos with
           | Ok (_, ke) =>
               match skip f ke with
               | Ok e => skip_pairs f (n - 1) e
               | Err c => Err c | Panic s => Panic s | OutOfFuel => OutOfFuel
               end
           | Err c => Err c | Panic s => Panic s | OutOfFuel => OutOfFuel
           end.
Proof. reflexivity. Qed.

(** * Positions advance and stay inside the input *)
Lemma skip_bounds_all f :
  (forall pos e, skip f pos = Ok e -> pos < e /\ e <= L) /\
  (forall n pos e, pos <= L -> skip_elems f n pos = Ok e -> pos <= e /\ e <= L) /\
  (forall n pos e, pos <= L -> skip_pairs f n pos = Ok e -> pos <= e /\ e <= L).
Proof.
  induction f as [|f (IHs & IHe & IHp)].
  - repeat split; intros; discriminate.
  - split; [|split].
    + intros pos e H. rewrite skip_S in H. destruct (hdr pos) as [[v e0]|c|s|] eqn:Eh; try discriminate.
      destruct (hdr_cases _ _ _ Eh) as [_ Hc].
      destruct v as [| | | |len es p|len es p].
      5:{ destruct Hc as (_ & _ & H1 & H2). destruct (IHe _ _ _ H2 H). lia. }
      5:{ destruct Hc as (_ & _ & H1 & H2). destruct (IHp _ _ _ H2 H). lia. }
      all: destruct Hc as (e' & -> & ? & ?); inversion H; subst; auto.
    + intros n pos e HL H. rewrite skip_elems_S in H. destruct (n =? 0); [inversion H; subst; lia|].
      destruct (skip f pos) as [e1|c|s|] eqn:Es; try discriminate.
      destruct (IHs _ _ Es) as [B1 B2]. destruct (IHe _ _ _ B2 H). lia.
    + intros n pos e HL H. rewrite skip_pairs_S in H. destruct (n =? 0); [inversion H; subst; lia|].
      destruct (key_at pos) as [[k ke]|c|s|] eqn:Ek; try discriminate.
      destruct (key_at_inv _ _ _ Ek) as (_ & _ & ? & ?).
      destruct (skip f ke) as [e1|c|s|] eqn:Es; try discriminate.
      destruct (IHs _ _ Es) as [B1 B2]. destruct (IHp _ _ _ B2 H). lia.
Qed.

Lemma skip_bounds f pos e : skip f pos = Ok e -> pos < e /\ e <= L.
Proof. apply skip_bounds_all. Qed.

(** * Enough fuel: the result does not depend on the fuel *)
Lemma fuel_arith a b : a < b -> b <= L -> (la b <= fb a - 1)%nat /\ (fb b <= fb a)%nat.
Proof. intros. unfold ReadRobust.la, ReadRobust.fb. lia. Qed.

Lemma skip_stable_all f :
  (forall f' pos, (fb pos <= f)%nat -> (fb pos <= f')%nat -> skip f pos = skip f' pos) /\
  (forall f' n pos, (la pos <= f)%nat -> (la pos <= f')%nat -> skip_elems f n pos = skip_elems f' n pos) /\
  (forall f' n pos, (la pos <= f)%nat -> (la pos <= f')%nat -> skip_pairs f n pos = skip_pairs f' n pos).
Proof.
  induction f as [|f (IHs & IHe & IHp)].
  - repeat split; intros; unfold ReadRobust.fb, ReadRobust.la in *; lia.
  - split; [|split].
    + intros [|f'] pos H1 H2; [unfold ReadRobust.fb in *; lia|]. rewrite !skip_S.
      destruct (hdr pos) as [[v e0]|c|s|] eqn:Eh; try reflexivity.
      destruct (hdr_cases _ _ _ Eh) as [_ Hc]. destruct v as [| | | |len es p|len es p]; try reflexivity.
      * destruct Hc as (_ & _ & A & B). apply IHe; unfold ReadRobust.la, ReadRobust.fb in *; lia.
      * destruct Hc as (_ & _ & A & B). apply IHp; unfold ReadRobust.la, ReadRobust.fb in *; lia.
    + intros [|f'] n pos H1 H2; [unfold ReadRobust.la in *; lia|]. rewrite !skip_elems_S.
      destruct (n =? 0); [reflexivity|].
      rewrite <- (IHs f' pos) by (unfold ReadRobust.la, ReadRobust.fb in *; lia).
      destruct (skip f pos) as [e|c|s|] eqn:Es; try reflexivity.
      destruct (skip_bounds _ _ _ Es). apply IHe; unfold ReadRobust.la in *; lia.
    + intros [|f'] n pos H1 H2; [unfold ReadRobust.la in *; lia|]. rewrite !skip_pairs_S.
      destruct (n =? 0); [reflexivity|].
      destruct (key_at pos) as [[k ke]|c|s|] eqn:Ek; try reflexivity.
      destruct (key_at_inv _ _ _ Ek) as (_ & _ & ? & ?).
      rewrite <- (IHs f' ke) by (unfold ReadRobust.la, ReadRobust.fb in *; lia).
      destruct (skip f ke) as [e|c|s|] eqn:Es; try reflexivity.
      destruct (skip_bounds _ _ _ Es). apply IHp; unfold ReadRobust.la in *; lia.
Qed.

End Facts.

(** * With the spec's fuel: fuel-free equations *)
Section Fixed.
Variable W : N.
Variable trap : bool.
Variable bs : list N.
Hypothesis Hnew : forall pos, new_sane bs pos (lz_new W trap bs pos).
Lemma fb_le pos : (ReadRobust.fb bs pos <= 3 * length bs + 2)%nat.
Proof. unfold ReadRobust.fb, lenN. lia. Qed.
Lemma la_le pos : (ReadRobust.la bs pos <= 3 * length bs + 3)%nat.
Proof. unfold ReadRobust.la, lenN. lia. Qed.

Variable F : nat.
Hypothesis HF : (3 * length bs + 4 <= F)%nat.

Lemma F_succ : exists f, F = S f /\ (3 * length bs + 3 <= f)%nat.
Proof. destruct F as [|f]; [lia|]. exists f. split; [reflexivity|lia]. Qed.

Notation L := (lenN bs).
Notation hdr := (SeqSpec.hdr W trap bs).
Notation key_at := (SeqSpec.key_at W trap bs).
Notation skip := (SeqSpec.skip W trap bs).
Notation skip_elems := (SeqSpec.skip_elems W trap bs).
Notation skip_pairs := (SeqSpec.skip_pairs W trap bs).
Notation fb := (ReadRobust.fb bs).
Notation la := (ReadRobust.la bs).

Lemma skip_eq pos : skip F pos =
  match hdr pos with
  | Ok (v, e0) =>
      match v with
      | LArr len _ first => skip_elems F len first
      | LObj len _ first => skip_pairs F len first
      | _ => match e0 with Some e => Ok e | None => Err E_Read end
      end
  | Err c => Err c | Panic s => Panic s | OutOfFuel => OutOfFuel
  end.
Proof.
  destruct F_succ as (f & EF & Hf). rewrite EF. rewrite skip_S.
  destruct (hdr pos) as [[v e0]|c|s|]; try reflexivity. destruct v as [| | | |len es p|len es p]; try reflexivity.
  - apply (skip_stable_all W trap bs Hnew f); pose proof (la_le p); lia.
  - apply (skip_stable_all W trap bs Hnew f); pose proof (la_le p); lia.
Qed.

Lemma skip_elems_eq n pos : skip_elems F n pos =
  if n =? 0 then Ok pos
  else match skip F pos with
       | Ok e => skip_elems F (n - 1) e
       | Err c => Err c | Panic s => Panic s | OutOfFuel => OutOfFuel
       end.
Proof.
  destruct F_succ as (f & EF & Hf). rewrite EF. rewrite skip_elems_S. destruct (n =? 0); [reflexivity|].
  rewrite (proj1 (skip_stable_all W trap bs Hnew f) (S f) pos) by (pose proof (fb_le pos); lia).
  destruct (skip (S f) pos) as [e|c|s|]; try reflexivity.
  apply (skip_stable_all W trap bs Hnew f); pose proof (la_le e); lia.
Qed.

Lemma skip_pairs_eq n pos : skip_pairs F n pos =
  if n =? 0 then Ok pos
  else match key_at pos with
       | Ok (_, ke) =>
           match skip F ke with
           | Ok e => skip_pairs F (n - 1) e
           | Err c => Err c | Panic s => Panic s | OutOfFuel => OutOfFuel
           end
       | Err c => Err c | Panic s => Panic s | OutOfFuel => OutOfFuel
       end.
Proof.
  destruct F_succ as (f & EF & Hf). rewrite EF. rewrite skip_pairs_S. destruct (n =? 0); [reflexivity|].
  destruct (key_at pos) as [[k ke]|c|s|]; try reflexivity.
  rewrite (proj1 (skip_stable_all W trap bs Hnew f) (S f) ke) by (pose proof (fb_le ke); lia).
  destruct (skip (S f) ke) as [e|c|s|]; try reflexivity.
  apply (skip_stable_all W trap bs Hnew f); pose proof (la_le e); lia.
Qed.

Lemma skip_elems_0 pos : skip_elems F 0 pos = Ok pos.
Proof. rewrite skip_elems_eq. reflexivity. Qed.
Lemma skip_pairs_0 pos : skip_pairs F 0 pos = Ok pos.
Proof. rewrite skip_pairs_eq. reflexivity. Qed.

Lemma skipF_bounds pos e : skip F pos = Ok e -> pos < e /\ e <= L.
Proof. apply (skip_bounds W trap bs Hnew). Qed.

(** ** the by-name lookup *)
Variable strict : bool.
Notation pair_at := (SeqSpec.pair_at W trap bs strict).
Notation seq_find := (SeqSpec.seq_find W trap bs strict).

Lemma pair_at_inv pos k ke : pair_at pos = Ok (k, ke) ->
  key_at pos = Ok (k, ke) /\ (strict = true -> exists v e, hdr ke = Ok (v, e)).
Proof.
  unfold SeqSpec.pair_at. destruct (key_at pos) as [[k' ke']|c|s|]; try discriminate.
  destruct strict.
  - destruct (hdr ke') as [[v e]|c|s|] eqn:Eh; try discriminate. intros H; inversion H; subst. split; [reflexivity|eauto].
  - intros H; inversion H; subst. split; [reflexivity|discriminate].
Qed.
Lemma pair_at_intro pos k ke v e : key_at pos = Ok (k, ke) -> hdr ke = Ok (v, e) -> pair_at pos = Ok (k, ke).
Proof. intros H1 H2. unfold SeqSpec.pair_at. rewrite H1, H2. destruct strict; reflexivity. Qed.

Lemma seq_find_S f name n i pos : seq_find (S f) name n i pos =
      if n =? 0 then Ok None
      else match pair_at pos with
           | Ok (LStr kp kl, ke) =>
               if beq (sub bs kp kl) name then Ok (Some i)
               else if n =? 1 then Ok None
               else match skip f ke with
                    | Ok e => seq_find f name (n - 1) (i + 1) e
                    | Err c => Err c | Panic s => Panic s | OutOfFuel => OutOfFuel
                    end
           | Ok (_, _) => Err E_Read
           | Err c => Err c | Panic s => Panic s | OutOfFuel => OutOfFuel
           end.
Proof. reflexivity. Qed.

Lemma seq_find_stable name : forall f f' n i pos, (la pos <= f)%nat -> (la pos <= f')%nat ->
  seq_find f name n i pos = seq_find f' name n i pos.
Proof.
  induction f as [|f IH]; intros [|f'] n i pos H1 H2; try (unfold ReadRobust.la in *; lia).
  rewrite !seq_find_S. destruct (n =? 0); [reflexivity|].
  destruct (pair_at pos) as [[k ke]|c|s|] eqn:Ep; try reflexivity.
  destruct (pair_at_inv _ _ _ Ep) as [Ek _]. destruct (key_at_inv W trap bs Hnew _ _ _ Ek) as (_ & _ & ? & ?).
  destruct k; try reflexivity. destruct (beq (sub bs ptr len) name); [reflexivity|]. destruct (n =? 1); [reflexivity|].
  rewrite <- (proj1 (skip_stable_all W trap bs Hnew f) f' ke) by (unfold ReadRobust.la, ReadRobust.fb in *; lia).
  destruct (skip f ke) as [e|c|s|] eqn:Es; try reflexivity.
  destruct (skip_bounds W trap bs Hnew _ _ _ Es). apply IH; unfold ReadRobust.la in *; lia.
Qed.

Lemma seq_find_eq name n i pos : seq_find F name n i pos =
      if n =? 0 then Ok None
      else match pair_at pos with
           | Ok (LStr kp kl, ke) =>
               if beq (sub bs kp kl) name then Ok (Some i)
               else if n =? 1 then Ok None
               else match skip F ke with
                    | Ok e => seq_find F name (n - 1) (i + 1) e
                    | Err c => Err c | Panic s => Panic s | OutOfFuel => OutOfFuel
                    end
           | Ok (_, _) => Err E_Read
           | Err c => Err c | Panic s => Panic s | OutOfFuel => OutOfFuel
           end.
Proof.
  destruct F_succ as (f & EF & Hf). rewrite EF. rewrite seq_find_S. destruct (n =? 0); [reflexivity|].
  destruct (pair_at pos) as [[k ke]|c|s|]; try reflexivity. destruct k; try reflexivity.
  destruct (beq (sub bs ptr len) name); [reflexivity|]. destruct (n =? 1); [reflexivity|].
  rewrite (proj1 (skip_stable_all W trap bs Hnew f) (S f) ke) by (pose proof (fb_le ke); lia).
  destruct (skip (S f) ke) as [e|c|s|]; try reflexivity.
  apply seq_find_stable; pose proof (la_le e); lia.
Qed.

End Fixed.
