(** The REGENERATED exported read functions of provider/src/read.rs (Gen/ReadAbiGen.v, translator T8) in closed form:
    for every instance of the eight oracles (the raw-address dereference [node_at], the guest memory read, the five node
    operations and [encode]), every context and every [scope] value in the range of [Val], each function is a dispatch on
    the hand model's [try_decode W scope] (NanBox/NanBox.v) -- which kinds are accepted, which error code every other kind
    and an undecodable value get -- followed by the oracle calls and the hand model's [nb_null] / [nb_error] boxes.  Never a
    panic (except [StringInterner::get] in the interned variant, kept as it is).

    Then the same dispatch and the same error codes for the hand model of the exported functions (Read/Lazy.v), per scope
    class, and the equality of the error-code constants used on the two sides. *)
From Coq Require Import NArith Bool List Lia.
From SFV Require Import Base.Bytes Base.RsPrelude Gen.NanBoxGen NanBox.NanBox NanBox.NanBoxExt NanBox.NanBoxProofs
  Gen.NanBoxFnGen NanBox.NanBoxGenEq Gen.InternGen Read.NodeRefTy Gen.ReadAbiGen Read.Lazy.
Import ListNotations.
Open Scope N_scope.

Lemma ec_small W : W = 32 \/ W = 64 ->
  EC_NotAnObject W < 2 ^ W /\ EC_DecodeError W < 2 ^ W /\ EC_ReadError W < 2 ^ W /\ EC_NotIndexable W < 2 ^ W.
Proof. intros [-> | ->]; repeat split. Qed.

Section Abi.
Variable trap : bool.
Variable W : N.
Hypothesis HW : W = 32 \/ W = 64.

Variable node_at : N -> rres NodeRef.
Variable guest_bytes : N -> N -> list N.
Variable node_get_prop : N -> NodeRef -> list N -> list N -> unit -> rres (option NodeRef).
Variable node_get_at_index : N -> NodeRef -> N -> list N -> unit -> rres NodeRef.
Variable node_get_key_at_index : N -> NodeRef -> N -> list N -> unit -> rres NodeRef.
Variable node_encode : N -> NodeRef -> N.
Variable node_value_length : N -> NodeRef -> N.
Variable node_str_addr : N -> NodeRef -> list N -> N.

(** the error codes the oracles return are [usize] values ([ErrorCode as usize]) *)
Hypothesis node_at_code : forall p e, node_at p = RErr e -> e < 2 ^ W.
Hypothesis node_get_prop_code : forall v q bs al e, node_get_prop W v q bs al = RErr e -> e < 2 ^ W.
Hypothesis node_get_at_index_code : forall v i bs al e, node_get_at_index W v i bs al = RErr e -> e < 2 ^ W.
Hypothesis node_get_key_at_index_code : forall v i bs al e, node_get_key_at_index W v i bs al = RErr e -> e < 2 ^ W.

Lemma nb_error_gen code : code < 2 ^ W -> NanBox_error W trap code = GOk (nb_error W code).
Proof. exact (proj2 (proj2 (scalar_ctor_eq_w trap W HW)) code). Qed.

Lemma nb_null_gen : NanBox_null W trap = GOk (nb_null W).
Proof. exact (proj1 (proj2 (scalar_ctor_eq_w trap W HW))). Qed.

(** the answer of a property lookup, boxed *)
Definition prop_answer (ctx : Context) (p : N) (query : list N) : N :=
  match node_at p with
  | ROk v => match node_get_prop W v query (Context_input_bytes ctx) (Context_bump_allocator ctx) with
             | ROk (Some x) => node_encode W x
             | ROk None => nb_null W
             | RErr e => nb_error W e
             end
  | RErr e => nb_error W e
  end.

Lemma prop_arm_eq ctx p query :
  match node_at p with
  | ROk value =>
      match node_get_prop W value query (Context_input_bytes ctx) (Context_bump_allocator ctx) with
      | ROk (Some value0) => GOk (node_encode W value0)
      | ROk None => gbind (NanBox_null W trap) (fun r => GOk r)
      | RErr e => gbind (NanBox_error W trap e) (fun r => GOk r)
      end
  | RErr e => gbind (NanBox_error W trap e) (fun r => GOk r)
  end = GOk (prop_answer ctx p query).
Proof.
  unfold prop_answer.
  destruct (node_at p) as [v|e] eqn:En.
  - destruct (node_get_prop W v query (Context_input_bytes ctx) (Context_bump_allocator ctx)) as [[x|]|e] eqn:Ep.
    + reflexivity.
    + rewrite nb_null_gen. reflexivity.
    + rewrite (nb_error_gen e) by (eapply node_get_prop_code; exact Ep). reflexivity.
  - rewrite (nb_error_gen e) by (eapply node_at_code; exact En). reflexivity.
Qed.

Ltac start f Hs :=
  unfold f, NanBox_from_bits; cbn [gbind]; cbv zeta;
  rewrite (try_decode_eq_w trap W HW _ Hs);
  let Ht := fresh "Ht" in pose proof (try_decode_total W HW) as Ht;
  match goal with |- context [try_decode W ?b] => specialize (Ht b); destruct (try_decode W b) as [[| | | | | |]| |] end;
  cbn [conv_dec conv_val gbind]; try contradiction.

Ltac err_arm :=
  match goal with
  | |- context [NanBox_error W trap (?c W)] =>
      rewrite (nb_error_gen (c W)) by (apply (ec_small W HW)); reflexivity
  end.

Theorem abi_get_obj_prop_eq : forall ctx scope ptr len, scope < 2 ^ (2 * W) ->
  Context_shopify_function_input_get_obj_prop W trap node_at guest_bytes node_get_prop node_get_at_index
    node_get_key_at_index node_encode node_value_length node_str_addr ctx scope ptr len =
  GOk (match try_decode W scope with
       | DOk (VObject p _) =>
           match node_at p with
           | ROk v => match node_get_prop W v (guest_bytes (u_cast W ptr) len) (Context_input_bytes ctx) (Context_bump_allocator ctx) with
                      | ROk (Some x) => node_encode W x
                      | ROk None => nb_null W
                      | RErr e => nb_error W e
                      end
           | RErr e => nb_error W e
           end
       | DOk _ => nb_error W (EC_NotAnObject W)
       | _ => nb_error W (EC_DecodeError W)
       end).
Proof.
  intros ctx scope ptr len Hs.
  start Context_shopify_function_input_get_obj_prop Hs; try err_arm.
  exact (prop_arm_eq ctx ptr0 (guest_bytes (u_cast W ptr) len)).
Qed.

Theorem abi_get_interned_obj_prop_eq : forall ctx scope id, scope < 2 ^ (2 * W) ->
  Context_shopify_function_input_get_interned_obj_prop W trap node_at guest_bytes node_get_prop node_get_at_index
    node_get_key_at_index node_encode node_value_length node_str_addr ctx scope id =
  match try_decode W scope with
  | DOk (VObject p _) =>
      gbind (StringInterner_get W trap (Context_string_interner ctx) id) (fun query =>
        GOk (match node_at p with
             | ROk v => match node_get_prop W v query (Context_input_bytes ctx) (Context_bump_allocator ctx) with
                        | ROk (Some x) => node_encode W x
                        | ROk None => nb_null W
                        | RErr e => nb_error W e
                        end
             | RErr e => nb_error W e
             end))
  | DOk _ => GOk (nb_error W (EC_NotAnObject W))
  | _ => GOk (nb_error W (EC_DecodeError W))
  end.
Proof.
  intros ctx scope id Hs.
  start Context_shopify_function_input_get_interned_obj_prop Hs; try err_arm.
  destruct (StringInterner_get W trap (Context_string_interner ctx) id) as [query|s]; cbn [gbind]; [|reflexivity].
  exact (prop_arm_eq ctx ptr query).
Qed.

(** the interned variant is the by-name variant on the interned bytes, whenever the id is valid *)
Corollary abi_get_interned_obj_prop_as_by_name : forall ctx scope id name ptr len, scope < 2 ^ (2 * W) ->
  StringInterner_get W trap (Context_string_interner ctx) id = GOk name ->
  guest_bytes (u_cast W ptr) len = name ->
  Context_shopify_function_input_get_interned_obj_prop W trap node_at guest_bytes node_get_prop node_get_at_index
    node_get_key_at_index node_encode node_value_length node_str_addr ctx scope id =
  Context_shopify_function_input_get_obj_prop W trap node_at guest_bytes node_get_prop node_get_at_index
    node_get_key_at_index node_encode node_value_length node_str_addr ctx scope ptr len.
Proof.
  intros ctx scope id name ptr len Hs Hi Hg.
  rewrite abi_get_interned_obj_prop_eq, abi_get_obj_prop_eq by exact Hs.
  rewrite Hi, Hg. cbn [gbind].
  destruct (try_decode W scope) as [[| | | | | |]| |]; reflexivity.
Qed.

Theorem abi_get_at_index_eq : forall ctx scope index, scope < 2 ^ (2 * W) ->
  Context_shopify_function_input_get_at_index W trap node_at guest_bytes node_get_prop node_get_at_index
    node_get_key_at_index node_encode node_value_length node_str_addr ctx scope index =
  GOk (match try_decode W scope with
       | DOk (VArray p _) | DOk (VObject p _) =>
           match node_at p with
           | ROk v => match node_get_at_index W v index (Context_input_bytes ctx) (Context_bump_allocator ctx) with
                      | ROk x => node_encode W x
                      | RErr e => nb_error W e
                      end
           | RErr e => nb_error W e
           end
       | DOk _ => nb_error W (EC_NotIndexable W)
       | _ => nb_error W (EC_ReadError W)
       end).
Proof.
  intros ctx scope index Hs.
  start Context_shopify_function_input_get_at_index Hs; try err_arm.
  - destruct (node_at ptr) as [v|e] eqn:En.
    + destruct (node_get_at_index W v index (Context_input_bytes ctx) (Context_bump_allocator ctx)) as [x|e] eqn:Eg;
        [reflexivity|].
      rewrite (nb_error_gen e) by (eapply node_get_at_index_code; exact Eg). reflexivity.
    + rewrite (nb_error_gen e) by (eapply node_at_code; exact En). reflexivity.
  - destruct (node_at ptr) as [v|e] eqn:En.
    + destruct (node_get_at_index W v index (Context_input_bytes ctx) (Context_bump_allocator ctx)) as [x|e] eqn:Eg;
        [reflexivity|].
      rewrite (nb_error_gen e) by (eapply node_get_at_index_code; exact Eg). reflexivity.
    + rewrite (nb_error_gen e) by (eapply node_at_code; exact En). reflexivity.
Qed.

Theorem abi_get_obj_key_at_index_eq : forall ctx scope index, scope < 2 ^ (2 * W) ->
  Context_shopify_function_input_get_obj_key_at_index W trap node_at guest_bytes node_get_prop node_get_at_index
    node_get_key_at_index node_encode node_value_length node_str_addr ctx scope index =
  GOk (match try_decode W scope with
       | DOk (VObject p _) =>
           match node_at p with
           | ROk v => match node_get_key_at_index W v index (Context_input_bytes ctx) (Context_bump_allocator ctx) with
                      | ROk x => node_encode W x
                      | RErr e => nb_error W e
                      end
           | RErr e => nb_error W e
           end
       | DOk _ => nb_error W (EC_NotAnObject W)
       | _ => nb_error W (EC_ReadError W)
       end).
Proof.
  intros ctx scope index Hs.
  start Context_shopify_function_input_get_obj_key_at_index Hs; try err_arm.
  destruct (node_at ptr) as [v|e] eqn:En.
  - destruct (node_get_key_at_index W v index (Context_input_bytes ctx) (Context_bump_allocator ctx)) as [x|e] eqn:Eg;
      [reflexivity|].
    rewrite (nb_error_gen e) by (eapply node_get_key_at_index_code; exact Eg). reflexivity.
  - rewrite (nb_error_gen e) by (eapply node_at_code; exact En). reflexivity.
Qed.

Theorem abi_get_val_len_eq : forall scope, scope < 2 ^ (2 * W) ->
  Context_shopify_function_input_get_val_len W trap node_at guest_bytes node_get_prop node_get_at_index
    node_get_key_at_index node_encode node_value_length node_str_addr scope =
  GOk (match try_decode W scope with
       | DOk (VString p _) | DOk (VArray p _) | DOk (VObject p _) =>
           match node_at p with
           | ROk v => node_value_length W v
           | RErr _ => 2 ^ W - 1
           end
       | _ => 2 ^ W - 1
       end).
Proof.
  intros scope Hs.
  start Context_shopify_function_input_get_val_len Hs; try reflexivity;
    destruct (node_at ptr); reflexivity.
Qed.

Theorem abi_get_utf8_str_addr_eq : forall ctx ptr,
  Context_shopify_function_input_get_utf8_str_addr W trap node_at guest_bytes node_get_prop node_get_at_index
    node_get_key_at_index node_encode node_value_length node_str_addr ctx ptr =
  GOk (match node_at ptr with
       | ROk v => node_str_addr W v (Context_input_bytes ctx)
       | RErr _ => 0
       end).
Proof.
  intros ctx ptr. unfold Context_shopify_function_input_get_utf8_str_addr.
  destruct (node_at ptr); reflexivity.
Qed.

End Abi.

(** * The hand model of the exported functions (Read/Lazy.v): same dispatch, same codes *)
Theorem model_scope_dispatch : forall W trap fuel bs roots,
  (forall name, get_obj_prop W trap fuel bs roots SGarbage name = (roots, OVal (AErr E_Decode))) /\
  (forall a name, (forall h l, a <> AObj h l) -> get_obj_prop W trap fuel bs roots (SAns a) name = (roots, OVal (AErr E_NotAnObject))) /\
  (forall i, get_at_index W trap fuel bs roots SGarbage i = (roots, OVal (AErr E_Read))) /\
  (forall a i, (forall h l, a <> AObj h l) -> (forall h l, a <> AArr h l) -> get_at_index W trap fuel bs roots (SAns a) i = (roots, OVal (AErr E_NotIndexable))) /\
  (forall i, get_obj_key_at_index W trap fuel bs roots SGarbage i = (roots, OVal (AErr E_Read))) /\
  (forall a i, (forall h l, a <> AObj h l) -> get_obj_key_at_index W trap fuel bs roots (SAns a) i = (roots, OVal (AErr E_NotAnObject))).
Proof.
  intros W trap fuel bs roots. repeat split.
  - intros a name Ho. destruct a; try reflexivity. exfalso. exact (Ho h len eq_refl).
  - intros a i Ho Ha. destruct a; try reflexivity; exfalso; [exact (Ha h len eq_refl)|exact (Ho h len eq_refl)].
  - intros a i Ho. destruct a; try reflexivity. exfalso. exact (Ho h len eq_refl).
Qed.

(** [get_val_len] of the hand model: only String/Array/Object scopes have a length *)
Theorem model_val_len_dispatch : forall roots,
  get_val_len roots SGarbage = OLen None /\
  (forall a, (forall h l, a <> AStr h l) -> (forall h l, a <> AArr h l) -> (forall h l, a <> AObj h l) ->
     get_val_len roots (SAns a) = OLen None).
Proof.
  intros roots. split; [reflexivity|].
  intros a Hs Ha Ho. destruct a; try reflexivity; exfalso;
    [exact (Hs h len eq_refl)|exact (Ha h len eq_refl)|exact (Ho h len eq_refl)].
Qed.

Theorem abi_codes_agree : forall W,
  EC_NotAnObject W = E_NotAnObject /\ EC_DecodeError W = E_Decode /\ EC_ReadError W = E_Read /\ EC_NotIndexable W = E_NotIndexable.
Proof. intros W. repeat split. Qed.

(** * Non-vacuity: toy oracles at W = 32 *)
Module Toy.
  (* nodes are numbered by their address; address 16 is an object, 24 an array, anything else is not a node *)
  Definition node_at (p : N) : rres NodeRef := if (p =? 16) || (p =? 24) then ROk p else RErr (EC_ReadError 32).
  Definition guest_bytes (p l : N) : list N := if l =? 0 then [] else [p mod 256].
  Definition node_get_prop (W : N) (v : NodeRef) (q bs : list N) (_ : unit) : rres (option NodeRef) :=
    match q with
    | [] => ROk None
    | c :: _ => if c =? 7 then ROk (Some (v + 100)) else if c =? 9 then RErr (EC_ReadError W) else ROk None
    end.
  Definition node_get_at_index (W : N) (v : NodeRef) (i : N) (bs : list N) (_ : unit) : rres NodeRef :=
    if i <? 3 then ROk (v + i) else RErr (EC_IndexOutOfBounds W).
  Definition node_get_key_at_index (W : N) (v : NodeRef) (i : N) (bs : list N) (_ : unit) : rres NodeRef :=
    if i <? 3 then ROk (v + 50 + i) else RErr (EC_IndexOutOfBounds W).
  Definition node_encode (W : N) (v : NodeRef) : N := nb_string W v 5.
  Definition node_value_length (W : N) (v : NodeRef) : N := 3.
  Definition node_str_addr (W : N) (v : NodeRef) (bs : list N) : N := 4096 + v.
  Definition ctx : Context := mkContext [1; 2; 3] tt (mkStringInterner [7; 8] [(0, 1); (1, 1)]).

  Lemma node_at_code : forall p e, node_at p = RErr e -> e < 2 ^ 32.
  Proof. intros p e. unfold node_at. destruct ((p =? 16) || (p =? 24)); [discriminate|]. intros H. injection H as <-. reflexivity. Qed.
  Lemma node_get_prop_code : forall v q bs al e, node_get_prop 32 v q bs al = RErr e -> e < 2 ^ 32.
  Proof.
    intros v q bs al e. unfold node_get_prop. destruct q as [|c q]; [discriminate|].
    destruct (c =? 7); [discriminate|]. destruct (c =? 9); [|discriminate]. intros H. injection H as <-. reflexivity.
  Qed.
  Lemma node_get_at_index_code : forall v i bs al e, node_get_at_index 32 v i bs al = RErr e -> e < 2 ^ 32.
  Proof. intros v i bs al e. unfold node_get_at_index. destruct (i <? 3); [discriminate|]. intros H. injection H as <-. reflexivity. Qed.
  Lemma node_get_key_at_index_code : forall v i bs al e, node_get_key_at_index 32 v i bs al = RErr e -> e < 2 ^ 32.
  Proof. intros v i bs al e. unfold node_get_key_at_index. destruct (i <? 3); [discriminate|]. intros H. injection H as <-. reflexivity. Qed.
End Toy.

(** the hypotheses of the section are satisfiable, and the theorem instantiates *)
Example abi_get_obj_prop_eq_toy : forall scope ptr len, scope < 2 ^ (2 * 32) ->
  Context_shopify_function_input_get_obj_prop 32 true Toy.node_at Toy.guest_bytes Toy.node_get_prop Toy.node_get_at_index
    Toy.node_get_key_at_index Toy.node_encode Toy.node_value_length Toy.node_str_addr Toy.ctx scope ptr len =
  GOk (match try_decode 32 scope with
       | DOk (VObject p _) =>
           match Toy.node_at p with
           | ROk v => match Toy.node_get_prop 32 v (Toy.guest_bytes (u_cast 32 ptr) len) [1; 2; 3] tt with
                      | ROk (Some x) => Toy.node_encode 32 x
                      | ROk None => nb_null 32
                      | RErr e => nb_error 32 e
                      end
           | RErr e => nb_error 32 e
           end
       | DOk _ => nb_error 32 (EC_NotAnObject 32)
       | _ => nb_error 32 (EC_DecodeError 32)
       end).
Proof.
  exact (abi_get_obj_prop_eq true 32 (or_introl eq_refl) Toy.node_at Toy.guest_bytes Toy.node_get_prop Toy.node_get_at_index
           Toy.node_get_key_at_index Toy.node_encode Toy.node_value_length Toy.node_str_addr
           Toy.node_at_code Toy.node_get_prop_code Toy.ctx).
Qed.

Definition toy_obj_prop := Context_shopify_function_input_get_obj_prop 32 true Toy.node_at Toy.guest_bytes Toy.node_get_prop
  Toy.node_get_at_index Toy.node_get_key_at_index Toy.node_encode Toy.node_value_length Toy.node_str_addr Toy.ctx.
Definition toy_interned := Context_shopify_function_input_get_interned_obj_prop 32 true Toy.node_at Toy.guest_bytes Toy.node_get_prop
  Toy.node_get_at_index Toy.node_get_key_at_index Toy.node_encode Toy.node_value_length Toy.node_str_addr Toy.ctx.
Definition toy_at_index := Context_shopify_function_input_get_at_index 32 true Toy.node_at Toy.guest_bytes Toy.node_get_prop
  Toy.node_get_at_index Toy.node_get_key_at_index Toy.node_encode Toy.node_value_length Toy.node_str_addr Toy.ctx.
Definition toy_key_at_index := Context_shopify_function_input_get_obj_key_at_index 32 true Toy.node_at Toy.guest_bytes Toy.node_get_prop
  Toy.node_get_at_index Toy.node_get_key_at_index Toy.node_encode Toy.node_value_length Toy.node_str_addr Toy.ctx.
Definition toy_val_len := Context_shopify_function_input_get_val_len 32 true Toy.node_at Toy.guest_bytes Toy.node_get_prop
  Toy.node_get_at_index Toy.node_get_key_at_index Toy.node_encode Toy.node_value_length Toy.node_str_addr.
Definition toy_str_addr := Context_shopify_function_input_get_utf8_str_addr 32 true Toy.node_at Toy.guest_bytes Toy.node_get_prop
  Toy.node_get_at_index Toy.node_get_key_at_index Toy.node_encode Toy.node_value_length Toy.node_str_addr Toy.ctx.

(** a plain double (1.0) as the scope: 0x3FF0000000000000 *)
Definition one_f64 : N := 0x3FF0000000000000.
(** an undecodable value: boxed, tag Number (2) *)
Definition garbage32 : N := 0x7FFC000000000000 + 2 * 2 ^ 46.

Example abi_toy_examples :
  (* object scope, property found / absent / lookup error / dangling address *)
  toy_obj_prop (nb_obj 32 16 2) 7 1 = GOk (nb_string 32 116 5) /\
  toy_obj_prop (nb_obj 32 16 2) 8 1 = GOk (nb_null 32) /\
  toy_obj_prop (nb_obj 32 16 2) 9 1 = GOk (nb_error 32 (EC_ReadError 32)) /\
  toy_obj_prop (nb_obj 32 40 2) 7 1 = GOk (nb_error 32 (EC_ReadError 32)) /\
  (* other kinds, a plain double, an undecodable value *)
  toy_obj_prop (nb_bool 32 true) 7 1 = GOk (nb_error 32 (EC_NotAnObject 32)) /\
  toy_obj_prop (nb_array 32 24 2) 7 1 = GOk (nb_error 32 (EC_NotAnObject 32)) /\
  toy_obj_prop one_f64 7 1 = GOk (nb_error 32 (EC_NotAnObject 32)) /\
  toy_obj_prop garbage32 7 1 = GOk (nb_error 32 (EC_DecodeError 32)) /\
  (* interned name: id 0 is the byte 7, id 2 does not exist (panic of the slice index) *)
  toy_interned (nb_obj 32 16 2) 0 = GOk (nb_string 32 116 5) /\
  toy_interned (nb_obj 32 16 2) 1 = GOk (nb_null 32) /\
  (exists s, toy_interned (nb_obj 32 16 2) 2 = GPanic s) /\
  toy_interned (nb_bool 32 true) 2 = GOk (nb_error 32 (EC_NotAnObject 32)) /\
  toy_interned garbage32 2 = GOk (nb_error 32 (EC_DecodeError 32)) /\
  (* index *)
  toy_at_index (nb_array 32 24 2) 1 = GOk (nb_string 32 25 5) /\
  toy_at_index (nb_obj 32 16 2) 2 = GOk (nb_string 32 18 5) /\
  toy_at_index (nb_array 32 24 2) 3 = GOk (nb_error 32 (EC_IndexOutOfBounds 32)) /\
  toy_at_index (nb_string 32 16 2) 1 = GOk (nb_error 32 (EC_NotIndexable 32)) /\
  toy_at_index one_f64 1 = GOk (nb_error 32 (EC_NotIndexable 32)) /\
  toy_at_index garbage32 1 = GOk (nb_error 32 (EC_ReadError 32)) /\
  (* key at index *)
  toy_key_at_index (nb_obj 32 16 2) 1 = GOk (nb_string 32 67 5) /\
  toy_key_at_index (nb_array 32 24 2) 1 = GOk (nb_error 32 (EC_NotAnObject 32)) /\
  toy_key_at_index garbage32 1 = GOk (nb_error 32 (EC_ReadError 32)) /\
  (* length *)
  toy_val_len (nb_string 32 16 2) = GOk 3 /\
  toy_val_len (nb_obj 32 40 2) = GOk (2 ^ 32 - 1) /\
  toy_val_len (nb_bool 32 false) = GOk (2 ^ 32 - 1) /\
  toy_val_len garbage32 = GOk (2 ^ 32 - 1) /\
  (* string address *)
  toy_str_addr 16 = GOk 4112 /\ toy_str_addr 17 = GOk 0.
Proof. repeat split; try (vm_compute; reflexivity). eexists. vm_compute. reflexivity. Qed.

(** the hand model on the matching scope classes (non-vacuity of [model_scope_dispatch]) *)
Example model_scope_dispatch_example :
  get_obj_prop 32 true 5 [0x80] [LObj 0 [] 1] (SAns (ABool true)) [7] = ([LObj 0 [] 1], OVal (AErr 1)) /\
  get_obj_prop 32 true 5 [0x80] [LObj 0 [] 1] SGarbage [7] = ([LObj 0 [] 1], OVal (AErr 0)) /\
  get_at_index 32 true 5 [0x80] [LObj 0 [] 1] (SAns (ANum one_f64)) 0 = ([LObj 0 [] 1], OVal (AErr 6)) /\
  get_at_index 32 true 5 [0x80] [LObj 0 [] 1] SGarbage 0 = ([LObj 0 [] 1], OVal (AErr 3)) /\
  get_obj_key_at_index 32 true 5 [0x80] [LObj 0 [] 1] (SAns (AArr (0, []) 0)) 0 = ([LObj 0 [] 1], OVal (AErr 1)) /\
  get_obj_key_at_index 32 true 5 [0x80] [LObj 0 [] 1] SGarbage 0 = ([LObj 0 [] 1], OVal (AErr 3)).
Proof. repeat split. Qed.

Print Assumptions abi_get_obj_prop_eq.
Print Assumptions abi_get_interned_obj_prop_eq.
Print Assumptions abi_get_interned_obj_prop_as_by_name.
Print Assumptions abi_get_at_index_eq.
Print Assumptions abi_get_obj_key_at_index_eq.
Print Assumptions abi_get_val_len_eq.
Print Assumptions abi_get_utf8_str_addr_eq.
Print Assumptions model_scope_dispatch.
Print Assumptions model_val_len_dispatch.
Print Assumptions abi_codes_agree.
Print Assumptions abi_get_obj_prop_eq_toy.
Print Assumptions abi_toy_examples.
Print Assumptions model_scope_dispatch_example.
