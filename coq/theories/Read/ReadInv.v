(** The invariant relating the lazy reader's state to the wire tree it was parsed from:
    [agree w s l] = lazy node [l] is a partially processed view of wire value [w] whose encoding
    starts at byte offset [s]; [ext l l'] = [l'] has processed at least what [l] has (handles stay
    valid); [locate] = wire value and byte offset at a path.  Definitions and structural lemmas. *)
From Coq Require Import NArith ZArith Lia List Bool Arith ZifyNat ZifyN ZifyBool.
From SFV Require Import Base.Bytes Base.F64 Base.BytesProofs Msgpack.Wire Read.Lazy Read.ReadRun Read.ReadSpec.
Import ListNotations.
Open Scope N_scope.

(** * Sizes *)
Definition size (w : wire) : N := lenN (enc w).
Definition enc_pair (kv : wire * wire) : list N := enc (fst kv) ++ enc (snd kv).
Definition sizes (l : list wire) : N := lenN (flat_map enc l).
Definition psizes (l : list (wire * wire)) : N := lenN (flat_map enc_pair l).

Definition str_hlen (f : strfmt) : N := match f with FixStr => 1 | Str8 => 2 | Str16 => 3 | Str32 => 5 end.
Definition len_hlen (f : lenfmt) : N := match f with LFix => 1 | L16 => 3 | L32 => 5 end.
Definition composite (w : wire) : bool := match w with WArr _ _ | WMap _ _ => true | _ => false end.

Lemma str_hdr_len f n : lenN (str_hdr f n) = str_hlen f.
Proof. destruct f; reflexivity. Qed.
Lemma arr_hdr_len f n : lenN (arr_hdr f n) = len_hlen f.
Proof. destruct f; reflexivity. Qed.
Lemma map_hdr_len f n : lenN (map_hdr f n) = len_hlen f.
Proof. destruct f; reflexivity. Qed.

Lemma sizes_nil : sizes [] = 0. Proof. reflexivity. Qed.
Lemma sizes_cons c l : sizes (c :: l) = size c + sizes l.
Proof. unfold sizes, size. cbn [flat_map]. apply lenN_app. Qed.
Lemma sizes_app a b : sizes (a ++ b) = sizes a + sizes b.
Proof. unfold sizes. rewrite flat_map_app. apply lenN_app. Qed.
Lemma sizes_snoc a c : sizes (a ++ [c]) = sizes a + size c.
Proof. rewrite sizes_app, sizes_cons, sizes_nil. lia. Qed.
Lemma psizes_nil : psizes [] = 0. Proof. reflexivity. Qed.
Lemma psizes_cons k v l : psizes ((k, v) :: l) = size k + size v + psizes l.
Proof. unfold psizes, size, enc_pair. cbn [flat_map fst snd]. rewrite !lenN_app. lia. Qed.
Lemma psizes_app a b : psizes (a ++ b) = psizes a + psizes b.
Proof. unfold psizes. rewrite flat_map_app. apply lenN_app. Qed.
Lemma psizes_snoc a k v : psizes (a ++ [(k, v)]) = psizes a + size k + size v.
Proof. rewrite psizes_app, psizes_cons, psizes_nil. lia. Qed.

Lemma enc_map_eq f l : enc (WMap f l) = map_hdr f (lenN l) ++ flat_map enc_pair l.
Proof. reflexivity. Qed.

(** * Agreement *)
Definition endp_ok (p : N) (pre : list wire) (endp : N) : Prop :=
  match rev pre with
  | [] => endp = p
  | c :: r => endp = p + sizes pre \/ (composite c = true /\ endp = p + sizes (rev r))
  end.

Definition pendp_ok (p : N) (pre : list (wire * wire)) (endp : N) : Prop :=
  match rev pre with
  | [] => endp = p
  | kv :: r => endp = p + psizes pre \/
               (composite (snd kv) = true /\ endp = p + psizes (rev r) + size (fst kv))
  end.

Inductive agree : wire -> N -> lz -> Prop :=
| ag_nil s : agree WNil s LNull
| ag_bool s b : agree (WBool b) s (LBool b)
| ag_int s f z : agree (WInt f z) s (LNum (of_int z))
| ag_f32 s b : agree (WF32 b) s (LNum (of_f32 b))
| ag_f64 s b : agree (WF64 b) s (LNum b)
| ag_str s f bytes : agree (WStr f bytes) s (LStr (s + str_hlen f) (lenN bytes))
| ag_arr s f ch pre rest elems endp :
    ch = pre ++ rest ->
    agree_list (s + len_hlen f) pre elems ->
    endp_ok (s + len_hlen f) pre endp ->
    agree (WArr f ch) s (LArr (lenN ch) elems endp)
| ag_map s f ch pre rest elems endp :
    ch = pre ++ rest ->
    agree_pairs (s + len_hlen f) pre elems ->
    pendp_ok (s + len_hlen f) pre endp ->
    agree (WMap f ch) s (LObj (lenN ch) elems endp)
with agree_list : N -> list wire -> list lz -> Prop :=
| al_nil p : agree_list p [] []
| al_cons p c pre x es :
    agree c p x -> agree_list (p + size c) pre es -> agree_list p (c :: pre) (x :: es)
with agree_pairs : N -> list (wire * wire) -> list (lz * lz) -> Prop :=
| ap_nil p : agree_pairs p [] []
| ap_cons p k v pre xk xv es :
    agree k p xk -> agree v (p + size k) xv -> agree_pairs (p + size k + size v) pre es ->
    agree_pairs p ((k, v) :: pre) ((xk, xv) :: es).

(** * Extension (monotone growth of the processed part): every path valid in [l] stays valid *)
Definition ext (l l' : lz) : Prop := forall p, get_node l p <> None -> get_node l' p <> None.
Definition exts (es es' : list lz) : Prop :=
  forall i x, nthN es i = Some x -> exists x', nthN es' i = Some x' /\ ext x x'.
Definition pexts (es es' : list (lz * lz)) : Prop :=
  forall i x, nthN es i = Some x ->
    exists x', nthN es' i = Some x' /\ ext (fst x) (fst x') /\ ext (snd x) (snd x').

(** * Position of the value at a path *)
Fixpoint locate (w : wire) (s : N) (p : list pstep) : option (wire * N) :=
  match p with
  | [] => Some (w, s)
  | st :: p' =>
      match st, w with
      | SIdx i, WArr f l =>
          match nthN l i with
          | Some c => locate c (s + len_hlen f + sizes (takeN l i)) p'
          | None => None
          end
      | SKey i, WMap f l =>
          match nthN l i with
          | Some kv => locate (fst kv) (s + len_hlen f + psizes (takeN l i)) p'
          | None => None
          end
      | SVal i, WMap f l =>
          match nthN l i with
          | Some kv => locate (snd kv) (s + len_hlen f + psizes (takeN l i) + size (fst kv)) p'
          | None => None
          end
      | _, _ => None
      end
  end.

(** * Fuel measure *)
Fixpoint fsz (w : wire) : nat :=
  match w with
  | WArr _ l => 2 + list_sum (map fsz l)
  | WMap _ l => 2 + list_sum (map (fun kv => fsz (snd kv)) l)
  | _ => 1
  end.

(** * Nested induction principle on wire trees *)
Section WireInd.
  Variable P : wire -> Prop.
  Hypothesis Hsc : forall w, composite w = false -> P w.
  Hypothesis Harr : forall f l, Forall P l -> P (WArr f l).
  Hypothesis Hmap : forall f l, Forall (fun kv => P (fst kv) /\ P (snd kv)) l -> P (WMap f l).
  Fixpoint wire_ind' (w : wire) : P w :=
    match w with
    | WArr f l =>
        Harr f l ((fix go (l : list wire) : Forall P l :=
                     match l with [] => Forall_nil _ | x :: r => Forall_cons _ (wire_ind' x) (go r) end) l)
    | WMap f l =>
        Hmap f l ((fix go (l : list (wire * wire)) : Forall (fun kv => P (fst kv) /\ P (snd kv)) l :=
                     match l with
                     | [] => Forall_nil _
                     | kv :: r => Forall_cons _ (conj (wire_ind' (fst kv)) (wire_ind' (snd kv))) (go r)
                     end) l)
    | WNil => Hsc WNil eq_refl
    | WBool b => Hsc (WBool b) eq_refl
    | WInt f z => Hsc (WInt f z) eq_refl
    | WF32 b => Hsc (WF32 b) eq_refl
    | WF64 b => Hsc (WF64 b) eq_refl
    | WStr f s => Hsc (WStr f s) eq_refl
    end.
End WireInd.

(** * List helpers *)
Lemma snoc_cases {A} (l : list A) : l = [] \/ exists l0 x, l = l0 ++ [x].
Proof. destruct (rev l) eqn:E.
  - left. rewrite <- (rev_involutive l), E. reflexivity.
  - right. exists (rev l0), a. rewrite <- (rev_involutive l), E. reflexivity.
Qed.

Lemma last_opt_nil {A} : last_opt (@nil A) = None. Proof. reflexivity. Qed.
Lemma last_opt_snoc {A} (l : list A) x : last_opt (l ++ [x]) = Some x.
Proof. unfold last_opt. rewrite rev_app_distr. reflexivity. Qed.
Lemma upd_last_snoc {A} (l : list A) x y : upd_last (l ++ [x]) y = l ++ [y].
Proof. unfold upd_last. rewrite removelast_last. reflexivity. Qed.

Lemma endp_ok_nil p e : endp_ok p [] e <-> e = p.
Proof. reflexivity. Qed.
Lemma endp_ok_snoc p pre c e :
  endp_ok p (pre ++ [c]) e <-> (e = p + sizes (pre ++ [c]) \/ (composite c = true /\ e = p + sizes pre)).
Proof. unfold endp_ok. rewrite rev_app_distr. cbn [rev app]. rewrite rev_involutive. reflexivity. Qed.
Lemma pendp_ok_nil p e : pendp_ok p [] e <-> e = p.
Proof. reflexivity. Qed.
Lemma pendp_ok_snoc p pre k v e :
  pendp_ok p (pre ++ [(k, v)]) e <->
  (e = p + psizes (pre ++ [(k, v)]) \/ (composite v = true /\ e = p + psizes pre + size k)).
Proof. unfold pendp_ok. rewrite rev_app_distr. cbn [rev app fst snd]. rewrite rev_involutive. reflexivity. Qed.

Lemma takeN_all {A} (l : list A) : takeN l (lenN l) = l.
Proof. rewrite <- (app_nil_r l) at 1. apply takeN_app. Qed.
Lemma takeN_app_l {A} (a b : list A) : forall n, n <= lenN a -> takeN (a ++ b) n = takeN a n.
Proof.
  induction a as [|x a IH]; intros n H.
  - rewrite lenN_nil in H. assert (n = 0) by lia. subst. destruct b; reflexivity.
  - rewrite lenN_cons in H. cbn [app takeN]. destruct (N.eqb_spec n 0); [reflexivity|].
    rewrite IH by lia. reflexivity.
Qed.
Lemma takeN_snoc {A} (a : list A) x b : takeN (a ++ x :: b) (lenN a) = a.
Proof. apply takeN_app. Qed.

Lemma nthN_split {A} (l : list A) : forall i x, nthN l i = Some x ->
  exists a b, l = a ++ x :: b /\ lenN a = i.
Proof.
  induction l as [|y l IH]; intros i x H; [discriminate|].
  cbn [nthN] in H. destruct (N.eqb_spec i 0).
  - inversion H; subst. exists [], l. auto.
  - destruct (IH _ _ H) as (a & b & -> & Ha). exists (y :: a), b. rewrite lenN_cons. split; [reflexivity|lia].
Qed.
Lemma nthN_mid {A} (a : list A) x b : nthN (a ++ x :: b) (lenN a) = Some x.
Proof. replace (lenN a) with (lenN a + 0) by lia. rewrite nthN_app_r. reflexivity. Qed.

Lemma set_nth_mid {A} (a : list A) x b y : set_nth (a ++ x :: b) (lenN a) y = a ++ y :: b.
Proof.
  induction a as [|z a IH]; [reflexivity|].
  rewrite lenN_cons. cbn [app set_nth]. destruct (N.eqb_spec (1 + lenN a) 0); [lia|].
  replace (1 + lenN a - 1) with (lenN a) by lia. rewrite IH. reflexivity.
Qed.

Lemma nthN_set_nth_eq {A} (l : list A) : forall i x y, nthN l i = Some y -> nthN (set_nth l i x) i = Some x.
Proof.
  induction l as [|z l IH]; intros i x y H; [discriminate|].
  cbn [nthN set_nth] in *. destruct (N.eqb_spec i 0) as [->|Hi].
  - reflexivity.
  - cbn [nthN]. destruct (N.eqb_spec i 0); [lia|]. eapply IH; eauto.
Qed.
Lemma nthN_set_nth_neq {A} (l : list A) : forall i j x, i <> j -> nthN (set_nth l i x) j = nthN l j.
Proof.
  induction l as [|z l IH]; intros i j x H; [reflexivity|].
  cbn [set_nth]. destruct (N.eqb_spec i 0) as [->|Hi].
  - cbn [nthN]. destruct (N.eqb_spec j 0); [lia|reflexivity].
  - cbn [nthN]. destruct (N.eqb_spec j 0); [reflexivity|]. apply IH. lia.
Qed.
Lemma lenN_set_nth {A} (l : list A) : forall i x, lenN (set_nth l i x) = lenN l.
Proof.
  induction l as [|z l IH]; intros i x; [reflexivity|].
  cbn [set_nth]. destruct (i =? 0); [reflexivity|]. rewrite !lenN_cons, IH. reflexivity.
Qed.

(** ** [ext] *)
Lemma ext_refl l : ext l l.
Proof. intros p H. exact H. Qed.
Lemma ext_trans a b c : ext a b -> ext b c -> ext a c.
Proof. intros H1 H2 p H. auto. Qed.
Lemma exts_refl es : exts es es.
Proof. intros i x H. exists x. split; [exact H|apply ext_refl]. Qed.
Lemma exts_trans a b c : exts a b -> exts b c -> exts a c.
Proof.
  intros H1 H2 i x H. destruct (H1 _ _ H) as (y & Hy & E1). destruct (H2 _ _ Hy) as (z & Hz & E2).
  exists z. split; [exact Hz|eapply ext_trans; eauto].
Qed.
Lemma exts_app es more : exts es (es ++ more).
Proof.
  intros i x H. exists x. split; [|apply ext_refl].
  rewrite nthN_app_l; [exact H|]. eapply nthN_Some_lt; eauto.
Qed.
Lemma exts_snoc es x x' : ext x x' -> exts (es ++ [x]) (es ++ [x']).
Proof.
  intros E i y H. pose proof (nthN_Some_lt _ _ _ H) as Hlt. rewrite lenN_app, lenN_one in Hlt.
  destruct (N.lt_ge_cases i (lenN es)) as [Hi|Hi].
  - rewrite nthN_app_l in H by exact Hi. exists y. rewrite nthN_app_l by exact Hi. split; [exact H|apply ext_refl].
  - assert (i = lenN es) by lia. subst i. rewrite nthN_snoc in H. inversion H; subst.
    exists x'. rewrite nthN_snoc. auto.
Qed.
Lemma ext_arr_intro n es e n' es' e' : exts es es' -> ext (LArr n es e) (LArr n' es' e').
Proof.
  intros H p. destruct p as [|[i|i|i] p]; cbn [get_node]; try congruence.
  destruct (nthN es i) as [c|] eqn:E; [|congruence].
  destruct (H _ _ E) as (c' & -> & Hc). apply Hc.
Qed.

Lemma pexts_refl es : pexts es es.
Proof. intros i x H. exists x. repeat split; [exact H|apply ext_refl|apply ext_refl]. Qed.
Lemma pexts_trans a b c : pexts a b -> pexts b c -> pexts a c.
Proof.
  intros H1 H2 i x H. destruct (H1 _ _ H) as (y & Hy & E1 & E1'). destruct (H2 _ _ Hy) as (z & Hz & E2 & E2').
  exists z. repeat split; [exact Hz|eapply ext_trans; eauto|eapply ext_trans; eauto].
Qed.
Lemma pexts_app es more : pexts es (es ++ more).
Proof.
  intros i x H. exists x. repeat split; try apply ext_refl.
  rewrite nthN_app_l; [exact H|]. eapply nthN_Some_lt; eauto.
Qed.
Lemma pexts_snoc es k x x' : ext x x' -> pexts (es ++ [(k, x)]) (es ++ [(k, x')]).
Proof.
  intros E i y H. pose proof (nthN_Some_lt _ _ _ H) as Hlt. rewrite lenN_app, lenN_one in Hlt.
  destruct (N.lt_ge_cases i (lenN es)) as [Hi|Hi].
  - rewrite nthN_app_l in H by exact Hi. exists y. rewrite nthN_app_l by exact Hi.
    repeat split; [exact H|apply ext_refl|apply ext_refl].
  - assert (i = lenN es) by lia. subst i. rewrite nthN_snoc in H. inversion H; subst.
    exists (k, x'). rewrite nthN_snoc. cbn [fst snd]. repeat split; [apply ext_refl|exact E].
Qed.
Lemma ext_obj_intro n es e n' es' e' : pexts es es' -> ext (LObj n es e) (LObj n' es' e').
Proof.
  intros H p. destruct p as [|[i|i|i] p]; cbn [get_node]; try congruence.
  - destruct (nthN es i) as [[k v]|] eqn:E; [|congruence].
    destruct (H _ _ E) as ([k' v'] & -> & Hk & Hv). apply Hk.
  - destruct (nthN es i) as [[k v]|] eqn:E; [|congruence].
    destruct (H _ _ E) as ([k' v'] & -> & Hk & Hv). apply Hv.
Qed.

Lemma ext_set r : forall q l l', get_node r q = Some l -> ext l l' -> ext r (set_node r q l').
Proof.
  intros q. revert r. induction q as [|st q IH]; intros r l l' Hg He.
  - cbn in Hg. inversion Hg; subst. exact He.
  - destruct st as [i|i|i], r as [| | | |n es e|n es e]; cbn [get_node] in Hg; try discriminate; cbn [set_node].
    + destruct (nthN es i) as [c|] eqn:E; [|discriminate].
      apply ext_arr_intro. intros j x Hj. destruct (N.eq_dec i j) as [<-|Hne].
      * rewrite Hj in E. inversion E; subst. erewrite nthN_set_nth_eq by eauto.
        eexists; split; [reflexivity|]. eapply IH; eauto.
      * rewrite nthN_set_nth_neq by exact Hne. exists x. split; [exact Hj|apply ext_refl].
    + destruct (nthN es i) as [[k v]|] eqn:E; [|discriminate].
      apply ext_obj_intro. intros j x Hj. destruct (N.eq_dec i j) as [<-|Hne].
      * rewrite Hj in E. inversion E; subst. erewrite nthN_set_nth_eq by eauto.
        eexists; split; [reflexivity|]. cbn [fst snd]. split; [eapply IH; eauto|apply ext_refl].
      * rewrite nthN_set_nth_neq by exact Hne. exists x. repeat split; [exact Hj|apply ext_refl|apply ext_refl].
    + destruct (nthN es i) as [[k v]|] eqn:E; [|discriminate].
      apply ext_obj_intro. intros j x Hj. destruct (N.eq_dec i j) as [<-|Hne].
      * rewrite Hj in E. inversion E; subst. erewrite nthN_set_nth_eq by eauto.
        eexists; split; [reflexivity|]. cbn [fst snd]. split; [apply ext_refl|eapply IH; eauto].
      * rewrite nthN_set_nth_neq by exact Hne. exists x. repeat split; [exact Hj|apply ext_refl|apply ext_refl].
Qed.

Lemma get_set_app r : forall q l x p, get_node r q = Some l -> get_node (set_node r q x) (q ++ p) = get_node x p.
Proof.
  intros q. revert r. induction q as [|st q IH]; intros r l x p Hg.
  - reflexivity.
  - destruct st as [i|i|i], r as [| | | |n es e|n es e]; cbn [get_node] in Hg; try discriminate;
      cbn [set_node app].
    + destruct (nthN es i) as [c|] eqn:E; [|discriminate]. cbn [get_node].
      erewrite nthN_set_nth_eq by eauto. eapply IH; eauto.
    + destruct (nthN es i) as [[k v]|] eqn:E; [|discriminate]. cbn [get_node].
      erewrite nthN_set_nth_eq by eauto. eapply IH; eauto.
    + destruct (nthN es i) as [[k v]|] eqn:E; [|discriminate]. cbn [get_node].
      erewrite nthN_set_nth_eq by eauto. eapply IH; eauto.
Qed.

(** ** [agree_list] / [agree_pairs] *)
Lemma agree_list_length p pre es : agree_list p pre es -> lenN pre = lenN es.
Proof. induction 1; [reflexivity|]. rewrite !lenN_cons. congruence. Qed.
Lemma agree_pairs_length p pre es : agree_pairs p pre es -> lenN pre = lenN es.
Proof. induction 1; [reflexivity|]. rewrite !lenN_cons. congruence. Qed.

Lemma agree_list_app p pre es : agree_list p pre es -> forall pre2 es2,
  agree_list (p + sizes pre) pre2 es2 -> agree_list p (pre ++ pre2) (es ++ es2).
Proof.
  induction 1 as [p|p c pre x es Hc Hl IH]; intros pre2 es2 H2.
  - rewrite sizes_nil, N.add_0_r in H2. exact H2.
  - cbn [app]. constructor; [exact Hc|]. apply IH. rewrite sizes_cons, N.add_assoc in H2. exact H2.
Qed.
Lemma agree_list_snoc p pre es c x :
  agree_list p pre es -> agree c (p + sizes pre) x -> agree_list p (pre ++ [c]) (es ++ [x]).
Proof. intros H Hc. apply agree_list_app; [exact H|]. constructor; [exact Hc|constructor]. Qed.

Lemma agree_pairs_app p pre es : agree_pairs p pre es -> forall pre2 es2,
  agree_pairs (p + psizes pre) pre2 es2 -> agree_pairs p (pre ++ pre2) (es ++ es2).
Proof.
  induction 1 as [p|p k v pre xk xv es Hk Hv Hl IH]; intros pre2 es2 H2.
  - rewrite psizes_nil, N.add_0_r in H2. exact H2.
  - cbn [app]. constructor; [exact Hk|exact Hv|]. apply IH.
    rewrite psizes_cons in H2. replace (p + size k + size v + psizes pre) with (p + (size k + size v + psizes pre)) by lia.
    exact H2.
Qed.
Lemma agree_pairs_snoc p pre es k v xk xv :
  agree_pairs p pre es -> agree k (p + psizes pre) xk -> agree v (p + psizes pre + size k) xv ->
  agree_pairs p (pre ++ [(k, v)]) (es ++ [(xk, xv)]).
Proof. intros H Hk Hv. apply agree_pairs_app; [exact H|]. constructor; [exact Hk|exact Hv|constructor]. Qed.

Lemma agree_list_snoc_inv es : forall p pre x, agree_list p pre (es ++ [x]) ->
  exists pre0 c, pre = pre0 ++ [c] /\ agree_list p pre0 es /\ agree c (p + sizes pre0) x.
Proof.
  induction es as [|y es IH]; intros p pre x H.
  - cbn [app] in H. inversion H as [|p' c pre' x' es' Hc Hl]; subst. inversion Hl; subst.
    exists [], c. rewrite sizes_nil, N.add_0_r. repeat split; [constructor|exact Hc].
  - cbn [app] in H. inversion H as [|p' c pre' x' es' Hc Hl]; subst.
    destruct (IH _ _ _ Hl) as (pre0 & c0 & -> & Hl0 & Hc0).
    exists (c :: pre0), c0. repeat split; [constructor; assumption|].
    rewrite sizes_cons, N.add_assoc. exact Hc0.
Qed.
Lemma agree_pairs_snoc_inv es : forall p pre xk xv, agree_pairs p pre (es ++ [(xk, xv)]) ->
  exists pre0 k v, pre = pre0 ++ [(k, v)] /\ agree_pairs p pre0 es /\
    agree k (p + psizes pre0) xk /\ agree v (p + psizes pre0 + size k) xv.
Proof.
  induction es as [|y es IH]; intros p pre xk xv H.
  - cbn [app] in H. inversion H as [|p' k v pre' xk' xv' es' Hk Hv Hl]; subst. inversion Hl; subst.
    exists [], k, v. rewrite psizes_nil, N.add_0_r. repeat split; [constructor|exact Hk|exact Hv].
  - cbn [app] in H. inversion H as [|p' k v pre' xk' xv' es' Hk Hv Hl]; subst.
    destruct (IH _ _ _ _ Hl) as (pre0 & k0 & v0 & -> & Hl0 & Hk0 & Hv0).
    exists ((k, v) :: pre0), k0, v0. rewrite psizes_cons.
    replace (p + (size k + size v + psizes pre0)) with (p + size k + size v + psizes pre0) by lia.
    repeat split; [constructor; assumption|exact Hk0|exact Hv0].
Qed.
Lemma agree_list_nil_inv p pre : agree_list p pre [] -> pre = [].
Proof. inversion 1; reflexivity. Qed.
Lemma agree_pairs_nil_inv p pre : agree_pairs p pre [] -> pre = [].
Proof. inversion 1; reflexivity. Qed.

Lemma takeN_cons_S {A} (x : A) l i : i <> 0 -> takeN (x :: l) i = x :: takeN l (i - 1).
Proof. intros H. cbn [takeN]. destruct (N.eqb_spec i 0); [lia|reflexivity]. Qed.
Lemma takeN_0 {A} (l : list A) : takeN l 0 = [].
Proof. destruct l; reflexivity. Qed.

Lemma agree_list_nth p pre es : agree_list p pre es -> forall i x, nthN es i = Some x ->
  exists c, nthN pre i = Some c /\ agree c (p + sizes (takeN pre i)) x.
Proof.
  induction 1 as [p|p c pre x es Hc Hl IH]; intros i y Hn; [discriminate|].
  cbn [nthN] in *. destruct (N.eqb_spec i 0) as [->|Hi].
  - inversion Hn; subst. exists c. rewrite takeN_0, sizes_nil, N.add_0_r. auto.
  - destruct (IH _ _ Hn) as (c' & Hc' & Ha). exists c'. split; [exact Hc'|].
    rewrite takeN_cons_S by exact Hi. rewrite sizes_cons, N.add_assoc. exact Ha.
Qed.
Lemma agree_list_set p pre es : agree_list p pre es -> forall i c x', nthN pre i = Some c ->
  agree c (p + sizes (takeN pre i)) x' -> agree_list p pre (set_nth es i x').
Proof.
  induction 1 as [p|p c pre x es Hc Hl IH]; intros i c0 x' Hn Ha; [discriminate|].
  cbn [nthN set_nth] in *. destruct (N.eqb_spec i 0) as [->|Hi].
  - inversion Hn; subst. rewrite takeN_0, sizes_nil, N.add_0_r in Ha. constructor; assumption.
  - constructor; [exact Hc|]. eapply IH; [exact Hn|].
    rewrite takeN_cons_S in Ha by exact Hi. rewrite sizes_cons, N.add_assoc in Ha. exact Ha.
Qed.

Lemma agree_pairs_nth p pre es : agree_pairs p pre es -> forall i xk xv, nthN es i = Some (xk, xv) ->
  exists k v, nthN pre i = Some (k, v) /\ agree k (p + psizes (takeN pre i)) xk /\
              agree v (p + psizes (takeN pre i) + size k) xv.
Proof.
  induction 1 as [p|p k v pre xk xv es Hk Hv Hl IH]; intros i yk yv Hn; [discriminate|].
  cbn [nthN] in *. destruct (N.eqb_spec i 0) as [->|Hi].
  - inversion Hn; subst. exists k, v. rewrite takeN_0, psizes_nil, N.add_0_r. auto.
  - destruct (IH _ _ _ Hn) as (k' & v' & Hc' & Hak & Hav). exists k', v'. split; [exact Hc'|].
    rewrite takeN_cons_S by exact Hi. rewrite psizes_cons.
    replace (p + (size k + size v + psizes (takeN pre (i - 1)))) with (p + size k + size v + psizes (takeN pre (i - 1))) by lia.
    auto.
Qed.
Lemma agree_pairs_set p pre es : agree_pairs p pre es -> forall i k v xk' xv', nthN pre i = Some (k, v) ->
  agree k (p + psizes (takeN pre i)) xk' -> agree v (p + psizes (takeN pre i) + size k) xv' ->
  agree_pairs p pre (set_nth es i (xk', xv')).
Proof.
  induction 1 as [p|p k v pre xk xv es Hk Hv Hl IH]; intros i k0 v0 xk' xv' Hn Hak Hav; [discriminate|].
  cbn [nthN set_nth] in *. destruct (N.eqb_spec i 0) as [->|Hi].
  - inversion Hn; subst. rewrite takeN_0, psizes_nil, N.add_0_r in Hak, Hav. constructor; assumption.
  - constructor; [exact Hk|exact Hv|]. eapply IH; [exact Hn| |].
    + rewrite takeN_cons_S in Hak by exact Hi. rewrite psizes_cons in Hak.
      replace (p + (size k + size v + psizes (takeN pre (i - 1)))) with (p + size k + size v + psizes (takeN pre (i - 1))) in Hak by lia.
      exact Hak.
    + rewrite takeN_cons_S in Hav by exact Hi. rewrite psizes_cons in Hav.
      replace (p + (size k + size v + psizes (takeN pre (i - 1)))) with (p + size k + size v + psizes (takeN pre (i - 1))) in Hav by lia.
      exact Hav.
Qed.

(** ** Focus: reading and replacing the node at a path *)
Lemma agree_get : forall p w s r l, agree w s r -> get_node r p = Some l ->
  exists c q, locate w s p = Some (c, q) /\ agree c q l.
Proof.
  induction p as [|st p IH]; intros w s r l Ha Hg.
  - cbn in Hg. inversion Hg; subst. exists w, s. auto.
  - destruct st as [i|i|i], r as [| | | |n es e|n es e]; cbn [get_node] in Hg; try discriminate.
    + destruct (nthN es i) as [x|] eqn:E; [|discriminate].
      inversion Ha as [| | | | | |s' f ch pre rest elems endp Hch Hl He|]; subst.
      destruct (agree_list_nth _ _ _ Hl _ _ E) as (c & Hc & Hac).
      pose proof (nthN_Some_lt _ _ _ Hc) as Hlt.
      cbn [locate]. rewrite nthN_app_l by exact Hlt. rewrite Hc. rewrite takeN_app_l by lia.
      eapply IH; eauto.
    + destruct (nthN es i) as [[xk xv]|] eqn:E; [|discriminate].
      inversion Ha as [| | | | | | |s' f ch pre rest elems endp Hch Hl He]; subst.
      destruct (agree_pairs_nth _ _ _ Hl _ _ _ E) as (k & v & Hc & Hak & Hav).
      pose proof (nthN_Some_lt _ _ _ Hc) as Hlt.
      cbn [locate]. rewrite nthN_app_l by exact Hlt. rewrite Hc. rewrite takeN_app_l by lia. cbn [fst].
      eapply IH; eauto.
    + destruct (nthN es i) as [[xk xv]|] eqn:E; [|discriminate].
      inversion Ha as [| | | | | | |s' f ch pre rest elems endp Hch Hl He]; subst.
      destruct (agree_pairs_nth _ _ _ Hl _ _ _ E) as (k & v & Hc & Hak & Hav).
      pose proof (nthN_Some_lt _ _ _ Hc) as Hlt.
      cbn [locate]. rewrite nthN_app_l by exact Hlt. rewrite Hc. rewrite takeN_app_l by lia. cbn [fst snd].
      eapply IH; eauto.
Qed.

Lemma agree_set : forall p w s r l c q l', agree w s r -> get_node r p = Some l ->
  locate w s p = Some (c, q) -> agree c q l' -> agree w s (set_node r p l').
Proof.
  induction p as [|st p IH]; intros w s r l c q l' Ha Hg Hloc Hc'.
  - cbn in Hloc. inversion Hloc; subst. exact Hc'.
  - destruct st as [i|i|i], r as [| | | |n es e|n es e]; cbn [get_node] in Hg; try discriminate; cbn [set_node].
    + destruct (nthN es i) as [x|] eqn:E; [|discriminate].
      inversion Ha as [| | | | | |s' f ch pre rest elems endp Hch Hl He|]; subst.
      destruct (agree_list_nth _ _ _ Hl _ _ E) as (c0 & Hc0 & Hac).
      pose proof (nthN_Some_lt _ _ _ Hc0) as Hlt.
      cbn [locate] in Hloc. rewrite nthN_app_l in Hloc by exact Hlt. rewrite Hc0 in Hloc.
      rewrite takeN_app_l in Hloc by lia.
      econstructor; [reflexivity| |exact He].
      eapply agree_list_set; [exact Hl|exact Hc0|]. eapply IH; eauto.
    + destruct (nthN es i) as [[xk xv]|] eqn:E; [|discriminate].
      inversion Ha as [| | | | | | |s' f ch pre rest elems endp Hch Hl He]; subst.
      destruct (agree_pairs_nth _ _ _ Hl _ _ _ E) as (k & v & Hc0 & Hak & Hav).
      pose proof (nthN_Some_lt _ _ _ Hc0) as Hlt.
      cbn [locate] in Hloc. rewrite nthN_app_l in Hloc by exact Hlt. rewrite Hc0 in Hloc.
      rewrite takeN_app_l in Hloc by lia. cbn [fst] in Hloc.
      econstructor; [reflexivity| |exact He].
      eapply agree_pairs_set; [exact Hl|exact Hc0| |exact Hav]. eapply IH; eauto.
    + destruct (nthN es i) as [[xk xv]|] eqn:E; [|discriminate].
      inversion Ha as [| | | | | | |s' f ch pre rest elems endp Hch Hl He]; subst.
      destruct (agree_pairs_nth _ _ _ Hl _ _ _ E) as (k & v & Hc0 & Hak & Hav).
      pose proof (nthN_Some_lt _ _ _ Hc0) as Hlt.
      cbn [locate] in Hloc. rewrite nthN_app_l in Hloc by exact Hlt. rewrite Hc0 in Hloc.
      rewrite takeN_app_l in Hloc by lia. cbn [fst snd] in Hloc.
      econstructor; [reflexivity| |exact He].
      eapply agree_pairs_set; [exact Hl|exact Hc0|exact Hak|]. eapply IH; eauto.
Qed.

(** ** [locate] and [sel] *)
Lemma locate_sel : forall p w s c q, locate w s p = Some (c, q) -> sel w p = Some c.
Proof.
  induction p as [|st p IH]; intros w s c q H.
  - cbn in *. inversion H; reflexivity.
  - destruct st as [i|i|i], w as [| | | | | |f l|f l]; cbn [locate] in H; try discriminate; cbn [sel].
    + destruct (nthN l i); [|discriminate]. eapply IH; eauto.
    + destruct (nthN l i); [|discriminate]. eapply IH; eauto.
    + destruct (nthN l i); [|discriminate]. eapply IH; eauto.
Qed.
Lemma sel_locate : forall p w s c, sel w p = Some c -> exists q, locate w s p = Some (c, q).
Proof.
  induction p as [|st p IH]; intros w s c H.
  - cbn in *. inversion H; subst. eauto.
  - destruct st as [i|i|i], w as [| | | | | |f l|f l]; cbn [sel] in H; try discriminate; cbn [locate].
    + destruct (nthN l i); [|discriminate]. eapply IH; eauto.
    + destruct (nthN l i); [|discriminate]. eapply IH; eauto.
    + destruct (nthN l i); [|discriminate]. eapply IH; eauto.
Qed.
Lemma locate_app : forall p w s p', locate w s (p ++ p') =
  match locate w s p with Some (c, q) => locate c q p' | None => None end.
Proof.
  induction p as [|st p IH]; intros w s p'; [reflexivity|].
  destruct st as [i|i|i], w as [| | | | | |f l|f l]; cbn [locate app]; try reflexivity.
  - destruct (nthN l i); [apply IH|reflexivity].
  - destruct (nthN l i); [apply IH|reflexivity].
  - destruct (nthN l i); [apply IH|reflexivity].
Qed.
Lemma sel_app : forall p w p', sel w (p ++ p') = match sel w p with Some c => sel c p' | None => None end.
Proof.
  induction p as [|st p IH]; intros w p'; [reflexivity|].
  destruct st as [i|i|i], w as [| | | | | |f l|f l]; cbn [sel app]; try reflexivity.
  - destruct (nthN l i); [apply IH|reflexivity].
  - destruct (nthN l i); [apply IH|reflexivity].
  - destruct (nthN l i); [apply IH|reflexivity].
Qed.

(** * Well-formed, NaN-free, placed *)
Definition good (bs : list N) (s : N) (w : wire) : Prop :=
  wf w = true /\ no_nan w = true /\ at_pos bs s (enc w).

Lemma forallb_mid {A} (f : A -> bool) a x b : forallb f (a ++ x :: b) = true -> f x = true.
Proof. intros H. rewrite forallb_app in H. apply andb_true_iff in H. destruct H as [_ H]. cbn in H.
  apply andb_true_iff in H. tauto. Qed.

Lemma good_arr_child bs s f a c b : good bs s (WArr f (a ++ c :: b)) -> good bs (s + len_hlen f + sizes a) c.
Proof.
  intros (Hw & Hn & Hp). cbn [wf no_nan enc] in *. apply andb_true_iff in Hw. destruct Hw as [_ Hw].
  repeat split.
  - eapply forallb_mid; eauto.
  - eapply forallb_mid; eauto.
  - apply at_pos_app in Hp. destruct Hp as [_ Hp]. rewrite arr_hdr_len in Hp.
    rewrite flat_map_app in Hp. apply at_pos_app in Hp. destruct Hp as [_ Hp].
    cbn [flat_map] in Hp. apply at_pos_app in Hp. destruct Hp as [Hp _]. exact Hp.
Qed.
Lemma good_map_child bs s f a k v b : good bs s (WMap f (a ++ (k, v) :: b)) ->
  is_wstr k = true /\ good bs (s + len_hlen f + psizes a) k /\ good bs (s + len_hlen f + psizes a + size k) v.
Proof.
  intros (Hw & Hn & Hp). rewrite enc_map_eq in Hp. cbn [wf no_nan] in *. apply andb_true_iff in Hw. destruct Hw as [_ Hw].
  apply forallb_mid in Hw. apply forallb_mid in Hn. cbn [fst snd] in *.
  apply andb_true_iff in Hw. destruct Hw as [Hw Hwv]. apply andb_true_iff in Hw. destruct Hw as [Hs Hwk].
  apply andb_true_iff in Hn. destruct Hn as [Hnk Hnv].
  apply at_pos_app in Hp. destruct Hp as [_ Hp]. rewrite map_hdr_len in Hp.
  rewrite flat_map_app in Hp. apply at_pos_app in Hp. destruct Hp as [_ Hp].
  cbn [flat_map] in Hp. apply at_pos_app in Hp. destruct Hp as [Hp _].
  unfold enc_pair in Hp. cbn [fst snd] in Hp. apply at_pos_app in Hp. destruct Hp as [Hpk Hpv].
  split; [exact Hs|]. split; repeat split; assumption.
Qed.

Lemma locate_good bs : forall p w s c q, good bs s w -> locate w s p = Some (c, q) -> good bs q c.
Proof.
  induction p as [|st p IH]; intros w s c q Hg H.
  - cbn in H. inversion H; subst. exact Hg.
  - destruct st as [i|i|i], w as [| | | | | |f l|f l]; cbn [locate] in H; try discriminate.
    + destruct (nthN l i) as [x|] eqn:E; [|discriminate].
      destruct (nthN_split _ _ _ E) as (a & b & -> & <-). rewrite takeN_snoc in H.
      eapply IH; [|exact H]. apply good_arr_child with (b := b). exact Hg.
    + destruct (nthN l i) as [[k v]|] eqn:E; [|discriminate].
      destruct (nthN_split _ _ _ E) as (a & b & -> & <-). rewrite takeN_snoc in H. cbn [fst] in H.
      eapply IH; [|exact H]. eapply good_map_child with (b := b). exact Hg.
    + destruct (nthN l i) as [[k v]|] eqn:E; [|discriminate].
      destruct (nthN_split _ _ _ E) as (a & b & -> & <-). rewrite takeN_snoc in H. cbn [fst snd] in H.
      eapply IH; [|exact H]. eapply good_map_child with (b := b). exact Hg.
Qed.

(** ** Fuel measure facts *)
Lemma fsz_pos w : (1 <= fsz w)%nat.
Proof. destruct w; cbn [fsz]; lia. Qed.

Lemma list_sum_cons (x : nat) l : list_sum (x :: l) = (x + list_sum l)%nat.
Proof. reflexivity. Qed.
Lemma list_sum_mid (a : list nat) x b : list_sum (a ++ x :: b) = (list_sum a + x + list_sum b)%nat.
Proof. rewrite list_sum_app. change (list_sum (x :: b)) with (x + list_sum b)%nat. lia. Qed.

Lemma list_sum_ge_len {A} (f : A -> nat) l : (forall x, 1 <= f x)%nat -> (length l <= list_sum (map f l))%nat.
Proof. intros H. induction l as [|x l IH]; cbn [map length]; [cbn; lia|].
  change (list_sum (f x :: map f l)) with (f x + list_sum (map f l))%nat. specialize (H x). lia. Qed.

Lemma fsz_locate bs : forall p w s c q, good bs s w -> locate w s p = Some (c, q) -> (fsz c <= fsz w)%nat.
Proof.
  induction p as [|st p IH]; intros w s c q Hg H.
  - cbn in H. inversion H; subst. lia.
  - destruct st as [i|i|i], w as [| | | | | |f l|f l]; cbn [locate] in H; try discriminate.
    + destruct (nthN l i) as [x|] eqn:E; [|discriminate].
      destruct (nthN_split _ _ _ E) as (a & b & -> & <-). rewrite takeN_snoc in H.
      apply IH in H; [|eapply good_arr_child; eauto].
      cbn [fsz]. rewrite map_app. cbn [map]. rewrite list_sum_mid. lia.
    + destruct (nthN l i) as [[k v]|] eqn:E; [|discriminate].
      destruct (nthN_split _ _ _ E) as (a & b & -> & <-). rewrite takeN_snoc in H. cbn [fst] in H.
      destruct (good_map_child _ _ _ _ _ _ _ Hg) as (Hs & Hgk & Hgv).
      apply IH in H; [|exact Hgk]. destruct k; try discriminate. cbn [fsz] in *. lia.
    + destruct (nthN l i) as [[k v]|] eqn:E; [|discriminate].
      destruct (nthN_split _ _ _ E) as (a & b & -> & <-). rewrite takeN_snoc in H. cbn [fst snd] in H.
      destruct (good_map_child _ _ _ _ _ _ _ Hg) as (Hs & Hgk & Hgv).
      apply IH in H; [|exact Hgv].
      cbn [fsz]. rewrite map_app. cbn [map snd]. rewrite list_sum_mid. lia.
Qed.

Lemma fsz_le_enc : forall w, (fsz w <= 2 * length (enc w))%nat.
Proof.
  induction w as [w Hw|f l IH|f l IH] using wire_ind'.
  - destruct w; try discriminate; cbn [fsz enc].
    + cbn [length]. lia.
    + cbn [length]. lia.
    + destruct f; cbn [enc_int length]; lia.
    + cbn [length]. lia.
    + cbn [length]. lia.
    + rewrite app_length. destruct f; cbn [str_hdr length]; lia.
  - cbn [fsz enc]. rewrite app_length.
    assert (H1 : (1 <= length (arr_hdr f (lenN l)))%nat) by (destruct f; cbn [arr_hdr length]; lia).
    assert (H2 : (list_sum (map fsz l) <= 2 * length (flat_map enc l))%nat).
    { clear H1. induction l as [|x l IHl]; cbn [map flat_map]; [cbn; lia|].
      inversion IH; subst. rewrite list_sum_cons, app_length. specialize (IHl H2). lia. }
    lia.
  - cbn [fsz enc]. rewrite app_length.
    assert (H1 : (1 <= length (map_hdr f (lenN l)))%nat) by (destruct f; cbn [map_hdr length]; lia).
    assert (H2 : (list_sum (map (fun kv => fsz (snd kv)) l) <=
                  2 * length (flat_map (fun kv => enc (fst kv) ++ enc (snd kv)) l))%nat).
    { clear H1. induction l as [|x l IHl]; cbn [map flat_map]; [cbn; lia|].
      inversion IH as [|x' l' [Hk Hv] Hr]; subst. rewrite list_sum_cons, !app_length. specialize (IHl Hr). lia. }
    lia.
Qed.
