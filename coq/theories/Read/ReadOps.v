(** The indexing / lookup loops of the lazy reader on a node that agrees with a well-formed value. *)
From Coq Require Import NArith ZArith Lia List Bool Arith ZifyNat ZifyN ZifyBool.
From SFV Require Import Base.Bytes Base.F64 Base.BytesProofs Base.F64IntNoNan Msgpack.Wire Read.Lazy Read.ReadRun Read.ReadSpec
  Read.ReadInv Read.ReadNew Read.ReadFinish.
Import ListNotations.
Open Scope N_scope.

Lemma bytes_eqb_beq : forall a b, bytes_eqb a b = beq a b.
Proof.
  unfold bytes_eqb. induction a as [|x a IH]; intros [|y b]; try reflexivity.
  cbn [combine forallb beq]. rewrite <- IH. rewrite !lenN_cons.
  replace (1 + lenN a =? 1 + lenN b) with (lenN a =? lenN b).
  2:{ destruct (N.eqb_spec (lenN a) (lenN b)), (N.eqb_spec (1 + lenN a) (1 + lenN b)); try reflexivity; lia. }
  destruct (lenN a =? lenN b), (x =? y); reflexivity.
Qed.

Lemma key_matches_ok bs ptr sk key : at_pos bs ptr sk -> key_matches bs ptr (lenN sk) key = Ok (beq sk key).
Proof.
  intros H. unfold key_matches. pose proof (at_pos_bound _ _ _ H).
  destruct (N.ltb_spec (lenN bs) (ptr + lenN sk)); [lia|].
  rewrite (at_pos_sub _ _ _ H), bytes_eqb_beq. reflexivity.
Qed.

Lemma find_key_app key : forall pre rest i, find_key key (pre ++ rest) i =
  match find_key key pre i with Some j => Some j | None => find_key key rest (i + lenN pre) end.
Proof.
  induction pre as [|kv pre IH]; intros rest i.
  - cbn [app find_key]. rewrite lenN_nil, N.add_0_r. reflexivity.
  - cbn [app find_key]. destruct (beq (key_bytes (fst kv)) key); [reflexivity|].
    rewrite IH, lenN_cons. replace (i + 1 + lenN pre) with (i + (1 + lenN pre)) by lia. reflexivity.
Qed.
Lemma find_key_range key : forall l i j, find_key key l i = Some j -> i <= j < i + lenN l.
Proof.
  induction l as [|kv l IH]; intros i j H; [discriminate|].
  cbn [find_key] in H. rewrite lenN_cons. destruct (beq (key_bytes (fst kv)) key).
  - inversion H; subst. lia.
  - apply IH in H. lia.
Qed.

(** ** the answer for a node that agrees *)
Lemma wf_int_range f z : wf_int f z = true -> (- 2 ^ 64 <= z <= 2 ^ 64)%Z.
Proof. destruct f; cbn [wf_int]; lia. Qed.

Lemma encode_agree h c q x : agree c q x -> wf c = true -> no_nan c = true ->
  encode_node h x = Ok (ans_of h c).
Proof.
  intros Ha Hw Hn. inversion Ha; subst; cbn [encode_node ans_of num_of]; try reflexivity.
  - cbn [wf] in Hw. rewrite (of_int_not_nan z (wf_int_range _ _ Hw)). reflexivity.
  - cbn [no_nan] in Hn. apply negb_true_iff in Hn. rewrite Hn. reflexivity.
  - cbn [no_nan] in Hn. apply negb_true_iff in Hn. rewrite Hn. reflexivity.
Qed.


Section Ops.
Variable W : N.
Variable trap : bool.
Variable bs : list N.
Hypothesis HW : lenN bs < 2 ^ W.

Lemma arr_get_loop_S f elems endp idx : arr_get_loop W trap (S f) bs elems endp idx =
    if idx <? lenN elems then (elems, endp, Ok tt)
    else
      let '(elems1, endp1, r) := finish_last_arr (finish W trap f bs) elems endp in
      match r with
      | Ok _ =>
          match lz_new W trap bs endp1 with
          | Ok (v, e0) =>
              let endp2 := match e0 with Some e => e | None => endp1 end in
              arr_get_loop W trap f bs (elems1 ++ [v]) endp2 idx
          | Err c => (elems1, endp1, Err c)
          | Panic s => (elems1, endp1, Panic s)
          | OutOfFuel => (elems1, endp1, OutOfFuel)
          end
      | r' => (elems1, endp1, r')
      end.
Proof. reflexivity. Qed.

Lemma obj_get_loop_S f elems endp idx : obj_get_loop W trap (S f) bs elems endp idx =
    if idx <? lenN elems then (elems, endp, Ok tt)
    else
      let '(elems1, endp1, r) := finish_last_obj (finish W trap f bs) elems endp in
      match r with
      | Ok _ =>
          match new_key W trap bs endp1 with
          | Ok (k, ke) =>
              match lz_new W trap bs ke with
              | Ok (v, e0) =>
                  let endp2 := match e0 with Some e => e | None => ke end in
                  obj_get_loop W trap f bs (elems1 ++ [(k, v)]) endp2 idx
              | Err c => (elems1, endp1, Err c)
              | Panic s => (elems1, endp1, Panic s)
              | OutOfFuel => (elems1, endp1, OutOfFuel)
              end
          | Err c => (elems1, endp1, Err c)
          | Panic s => (elems1, endp1, Panic s)
          | OutOfFuel => (elems1, endp1, OutOfFuel)
          end
      | r' => (elems1, endp1, r')
      end.
Proof. reflexivity. Qed.

Lemma prop_scan_S f key len elems endp : prop_scan W trap (S f) bs key len elems endp =
    if len <=? lenN elems then (elems, endp, Ok None)
    else
      let '(elems1, endp1, r) := finish_last_obj (finish W trap f bs) elems endp in
      match r with
      | Ok _ =>
          match new_key W trap bs endp1 with
          | Ok (LStr kp kl as k, ke) =>
              match key_matches bs kp kl key with
              | Ok matched =>
                  match lz_new W trap bs ke with
                  | Ok (v, e0) =>
                      let endp2 := match e0 with Some e => e | None => ke end in
                      let elems2 := elems1 ++ [(k, v)] in
                      if matched then (elems2, endp2, Ok (Some (lenN elems2 - 1)))
                      else prop_scan W trap f bs key len elems2 endp2
                  | Err c => (elems1, endp1, Err c)
                  | Panic s => (elems1, endp1, Panic s)
                  | OutOfFuel => (elems1, endp1, OutOfFuel)
                  end
              | Err c => (elems1, endp1, Err c)
              | Panic s => (elems1, endp1, Panic s)
              | OutOfFuel => (elems1, endp1, OutOfFuel)
              end
          | Ok (_, _) => (elems1, endp1, Err E_Read)
          | Err c => (elems1, endp1, Err c)
          | Panic s => (elems1, endp1, Panic s)
          | OutOfFuel => (elems1, endp1, OutOfFuel)
          end
      | Err c => (elems1, endp1, Err c)
      | Panic s => (elems1, endp1, Panic s)
      | OutOfFuel => (elems1, endp1, OutOfFuel)
      end.
Proof. reflexivity. Qed.

Lemma all_fin_spec ch : Forall (fin_spec W trap bs) ch.
Proof. apply Forall_forall. intros c _. apply finish_ok. exact HW. Qed.
Lemma all_fin_spec_pairs (ch : list (wire * wire)) :
  Forall (fun kv => fin_spec W trap bs (fst kv) /\ fin_spec W trap bs (snd kv)) ch.
Proof. apply Forall_forall. intros c _. split; apply finish_ok; exact HW. Qed.

(** ** array indexing loop *)
Lemma arr_get_loop_ok s f ch idx (M : nat) : good bs s (WArr f ch) ->
  (forall c, In c ch -> (fsz c <= M)%nat) -> idx < lenN ch ->
  forall rest pre, ch = pre ++ rest -> forall fuel elems endp,
  (M + length rest + 1 <= fuel)%nat ->
  agree_list (s + len_hlen f) pre elems -> endp_ok (s + len_hlen f) pre endp ->
  exists elems' endp' pre' rest',
    arr_get_loop W trap fuel bs elems endp idx = (elems', endp', Ok tt) /\ ch = pre' ++ rest' /\
    agree_list (s + len_hlen f) pre' elems' /\ endp_ok (s + len_hlen f) pre' endp' /\
    idx < lenN elems' /\ exts elems elems'.
Proof.
  intros Hg HM Hidx. set (p0 := s + len_hlen f) in *.
  induction rest as [|c rest IHr]; intros pre Hch fuel elems endp Hfu Hl He;
    (destruct fuel as [|fu]; [lia|]); rewrite arr_get_loop_S;
    pose proof (agree_list_length _ _ _ Hl) as Hlen;
    (destruct (N.ltb_spec idx (lenN elems)) as [Hlt|Hge];
      [exists elems, endp, pre; eexists; repeat split; [exact Hch|exact Hl|exact He|exact Hlt|apply exts_refl]|]).
  - rewrite app_nil_r in Hch. subst pre. lia.
  - subst ch.
    destruct (finish_last_arr_ok W trap bs s f pre (c :: rest) fu elems endp Hg (all_fin_spec _))
      as (elems1 & Hfl & Hl1 & Hx1); [intros c' Hc'; specialize (HM _ Hc'); lia|exact Hl|exact He|].
    fold p0 in Hfl, Hl1. rewrite Hfl. cbv beta iota.
    pose proof (good_arr_child _ _ _ _ _ _ Hg) as Hgc. fold p0 in Hgc. destruct Hgc as (Hwc & Hnc & Hpc).
    rewrite (new_ok W trap bs HW _ c Hwc Hnc Hpc). cbv beta iota zeta.
    destruct (IHr (pre ++ [c])) with (fuel := fu) (elems := elems1 ++ [fresh c (p0 + sizes pre)])
      (endp := match (if composite c then None else Some (p0 + sizes pre + size c)) with
               | Some e => e | None => p0 + sizes pre end)
      as (elems' & endp' & pre' & rest' & Hr & Hch' & Hl' & He' & Hi' & Hx').
    + rewrite <- app_assoc. reflexivity.
    + cbn [length] in Hfu. lia.
    + apply agree_list_snoc; [exact Hl1|apply fresh_agree].
    + apply endp_ok_snoc. rewrite sizes_snoc, N.add_assoc. destruct (composite c); auto.
    + exists elems', endp', pre', rest'. repeat split; try assumption.
      eapply exts_trans; [exact Hx1|]. eapply exts_trans; [apply exts_app|exact Hx'].
Qed.

(** ** object indexing loop *)
Lemma obj_get_loop_ok s f ch idx (M : nat) : good bs s (WMap f ch) ->
  (forall k v, In (k, v) ch -> (fsz v <= M)%nat) -> idx < lenN ch ->
  forall rest pre, ch = pre ++ rest -> forall fuel elems endp,
  (M + length rest + 1 <= fuel)%nat ->
  agree_pairs (s + len_hlen f) pre elems -> pendp_ok (s + len_hlen f) pre endp ->
  exists elems' endp' pre' rest',
    obj_get_loop W trap fuel bs elems endp idx = (elems', endp', Ok tt) /\ ch = pre' ++ rest' /\
    agree_pairs (s + len_hlen f) pre' elems' /\ pendp_ok (s + len_hlen f) pre' endp' /\
    idx < lenN elems' /\ pexts elems elems'.
Proof.
  intros Hg HM Hidx. set (p0 := s + len_hlen f) in *.
  induction rest as [|[k c] rest IHr]; intros pre Hch fuel elems endp Hfu Hl He;
    (destruct fuel as [|fu]; [lia|]); rewrite obj_get_loop_S;
    pose proof (agree_pairs_length _ _ _ Hl) as Hlen;
    (destruct (N.ltb_spec idx (lenN elems)) as [Hlt|Hge];
      [exists elems, endp, pre; eexists; repeat split; [exact Hch|exact Hl|exact He|exact Hlt|apply pexts_refl]|]).
  - rewrite app_nil_r in Hch. subst pre. lia.
  - subst ch.
    destruct (finish_last_obj_ok W trap bs s f pre ((k, c) :: rest) fu elems endp Hg (all_fin_spec_pairs _))
      as (elems1 & Hfl & Hl1 & Hx1); [intros k' c' Hc'; specialize (HM _ _ Hc'); lia|exact Hl|exact He|].
    fold p0 in Hfl, Hl1. rewrite Hfl. cbv beta iota.
    destruct (good_map_child _ _ _ _ _ _ _ Hg) as (Hks & Hgk & Hgc). fold p0 in Hgk, Hgc.
    rewrite (new_key_ok W trap bs HW _ _ Hgk Hks).
    destruct Hgc as (Hwc & Hnc & Hpc).
    rewrite (new_ok W trap bs HW _ c Hwc Hnc Hpc). cbv beta iota zeta.
    set (q := p0 + psizes pre + size k) in *.
    destruct (IHr (pre ++ [(k, c)])) with (fuel := fu) (elems := elems1 ++ [(fresh k (p0 + psizes pre), fresh c q)])
      (endp := match (if composite c then None else Some (q + size c)) with
               | Some e => e | None => q end)
      as (elems' & endp' & pre' & rest' & Hr & Hch' & Hl' & He' & Hi' & Hx').
    + rewrite <- app_assoc. reflexivity.
    + cbn [length] in Hfu. lia.
    + apply agree_pairs_snoc; [exact Hl1|apply fresh_agree|apply fresh_agree].
    + apply pendp_ok_snoc. rewrite psizes_snoc. unfold q. rewrite !N.add_assoc. destruct (composite c); auto.
    + exists elems', endp', pre', rest'. repeat split; try assumption.
      eapply pexts_trans; [exact Hx1|]. eapply pexts_trans; [apply pexts_app|exact Hx'].
Qed.

(** ** property lookup: forward scan *)
Lemma prop_scan_ok s f ch key (M : nat) : good bs s (WMap f ch) ->
  (forall k v, In (k, v) ch -> (fsz v <= M)%nat) ->
  forall rest pre, ch = pre ++ rest -> forall fuel elems endp,
  (M + length rest + 1 <= fuel)%nat ->
  agree_pairs (s + len_hlen f) pre elems -> pendp_ok (s + len_hlen f) pre endp ->
  exists elems' endp' pre' rest',
    prop_scan W trap fuel bs key (lenN ch) elems endp = (elems', endp', Ok (find_key key rest (lenN pre))) /\
    ch = pre' ++ rest' /\
    agree_pairs (s + len_hlen f) pre' elems' /\ pendp_ok (s + len_hlen f) pre' endp' /\
    (forall i, find_key key rest (lenN pre) = Some i -> i < lenN elems') /\ pexts elems elems'.
Proof.
  intros Hg HM. set (p0 := s + len_hlen f) in *.
  induction rest as [|[k c] rest IHr]; intros pre Hch fuel elems endp Hfu Hl He;
    (destruct fuel as [|fu]; [lia|]); rewrite prop_scan_S;
    pose proof (agree_pairs_length _ _ _ Hl) as Hlen.
  - rewrite app_nil_r in Hch. subst pre.
    destruct (N.leb_spec (lenN ch) (lenN elems)); [|lia].
    exists elems, endp, ch, []. cbn [find_key].
    repeat split; [rewrite app_nil_r; reflexivity|exact Hl|exact He|discriminate|apply pexts_refl].
  - destruct (N.leb_spec (lenN ch) (lenN elems)) as [Hle|_].
    { rewrite Hch, lenN_app, lenN_cons in Hle. lia. }
    subst ch.
    destruct (finish_last_obj_ok W trap bs s f pre ((k, c) :: rest) fu elems endp Hg (all_fin_spec_pairs _))
      as (elems1 & Hfl & Hl1 & Hx1); [intros k' c' Hc'; specialize (HM _ _ Hc'); lia|exact Hl|exact He|].
    fold p0 in Hfl, Hl1. rewrite Hfl. cbv beta iota.
    destruct (good_map_child _ _ _ _ _ _ _ Hg) as (Hks & Hgk & Hgc). fold p0 in Hgk, Hgc.
    rewrite (new_key_ok W trap bs HW _ _ Hgk Hks).
    destruct k as [| | | | |fk sk| |]; try discriminate. cbn [fresh]. cbv beta iota.
    assert (Hsk : at_pos bs (p0 + psizes pre + str_hlen fk) sk).
    { destruct Hgk as (_ & _ & Hpk). cbn [enc] in Hpk. apply at_pos_app in Hpk. rewrite str_hdr_len in Hpk. tauto. }
    rewrite (key_matches_ok _ _ _ key Hsk).
    destruct Hgc as (Hwc & Hnc & Hpc).
    rewrite (new_ok W trap bs HW _ c Hwc Hnc Hpc). cbv beta iota zeta.
    set (q := p0 + psizes pre + size (WStr fk sk)) in *.
    pose proof (agree_pairs_length _ _ _ Hl1) as Hlen1.
    cbn [find_key fst key_bytes].
    set (elems2 := elems1 ++ [(LStr (p0 + psizes pre + str_hlen fk) (lenN sk), fresh c q)]).
    set (endp2 := match (if composite c then None else Some (q + size c)) with Some e => e | None => q end).
    assert (Hl2 : agree_pairs p0 (pre ++ [(WStr fk sk, c)]) elems2).
    { apply agree_pairs_snoc; [exact Hl1|apply (fresh_agree (WStr fk sk))|apply fresh_agree]. }
    assert (He2 : pendp_ok p0 (pre ++ [(WStr fk sk, c)]) endp2).
    { apply pendp_ok_snoc. rewrite psizes_snoc. unfold endp2, q. rewrite !N.add_assoc. destruct (composite c); auto. }
    assert (Hx2 : pexts elems elems2).
    { eapply pexts_trans; [exact Hx1|apply pexts_app]. }
    destruct (beq sk key) eqn:Eb.
    + exists elems2, endp2, (pre ++ [(WStr fk sk, c)]), rest.
      assert (El : lenN elems2 = lenN pre + 1) by (unfold elems2; rewrite lenN_app, lenN_one; lia).
      repeat split; try assumption.
      * do 3 f_equal. lia.
      * rewrite <- app_assoc. reflexivity.
      * intros i Hi. inversion Hi; subst. lia.
    + destruct (IHr (pre ++ [(WStr fk sk, c)])) with (fuel := fu) (elems := elems2) (endp := endp2)
        as (elems' & endp' & pre' & rest' & Hr & Hch' & Hl' & He' & Hi' & Hx'); try assumption.
      * rewrite <- app_assoc. reflexivity.
      * cbn [length] in Hfu. lia.
      * assert (E : lenN (pre ++ [(WStr fk sk, c)]) = lenN pre + 1) by (rewrite lenN_app; reflexivity).
        rewrite E in Hr, Hi'.
        exists elems', endp', pre', rest'. repeat split; try assumption.
        eapply pexts_trans; eassumption.
Qed.

(** ** property lookup: the already processed prefix *)
Lemma find_processed_ok key : forall p pre elems, agree_pairs p pre elems -> forall i,
  at_pos bs p (flat_map enc_pair pre) -> Forall (fun kv => is_wstr (fst kv) = true) pre ->
  find_processed bs key elems i = Ok (find_key key pre i).
Proof.
  induction 1 as [p|p k v pre xk xv es Hk Hv Hl IH]; intros i Hp Hs; [reflexivity|].
  inversion Hs as [|kv l Hks Hs']; subst. cbn [fst] in Hks.
  destruct k as [| | | | |fk sk| |]; try discriminate.
  inversion Hk; subst. cbn [find_processed find_key fst key_bytes].
  cbn [flat_map] in Hp. apply at_pos_app in Hp. destruct Hp as [Hp1 Hp2].
  unfold enc_pair in Hp1, Hp2. cbn [fst snd] in Hp1, Hp2.
  rewrite lenN_app in Hp2.
  apply at_pos_app in Hp1. destruct Hp1 as [Hpk _]. cbn [enc] in Hpk.
  apply at_pos_app in Hpk. rewrite str_hdr_len in Hpk. destruct Hpk as [_ Hsk].
  rewrite (key_matches_ok _ _ _ key Hsk).
  destruct (beq sk key); [reflexivity|].
  apply IH; [|exact Hs']. unfold size. rewrite <- N.add_assoc. exact Hp2.
Qed.

(** * Node-level statements *)
Definition fuel_ok (w : wire) (fuel : nat) : Prop := (2 * fsz w + 1 <= fuel)%nat.

Lemma arr_get_ok s f ch fuel elems endp idx :
  good bs s (WArr f ch) -> fuel_ok (WArr f ch) fuel -> agree (WArr f ch) s (LArr (lenN ch) elems endp) ->
  if lenN ch <=? idx then arr_get W trap fuel bs (lenN ch) elems endp idx = (LArr (lenN ch) elems endp, Err E_IndexOOB)
  else exists n', arr_get W trap fuel bs (lenN ch) elems endp idx = (n', Ok tt) /\
                  agree (WArr f ch) s n' /\ ext (LArr (lenN ch) elems endp) n' /\
                  get_node n' [SIdx idx] <> None.
Proof.
  intros Hg Hfu Ha. unfold arr_get. destruct (N.leb_spec (lenN ch) idx) as [|Hidx]; [reflexivity|].
  inversion Ha as [| | | | | |s' f' ch' pre rest elems0 endp0 Hch Hl He|]; subst.
  unfold fuel_ok in Hfu. cbn [fsz] in Hfu.
  destruct (arr_get_loop_ok s f (pre ++ rest) idx (list_sum (map fsz (pre ++ rest))) Hg) with
    (rest := rest) (pre := pre) (fuel := fuel) (elems := elems) (endp := endp)
    as (elems' & endp' & pre' & rest' & Hr & Hch' & Hl' & He' & Hi' & Hx'); try assumption; try reflexivity.
  - intros c Hin. apply fsz_in. exact Hin.
  - pose proof (list_sum_ge_len fsz (pre ++ rest) fsz_pos) as H1.
    rewrite app_length in H1. lia.
  - rewrite Hr. eexists; repeat split.
    + apply ag_arr with (pre := pre') (rest := rest'); [exact Hch'|exact Hl'|exact He'].
    + apply ext_arr_intro. exact Hx'.
    + cbn [get_node]. destruct (nthN_lt_Some elems' idx Hi') as [x ->]. discriminate.
Qed.

Lemma obj_get_ok s f ch fuel elems endp idx :
  good bs s (WMap f ch) -> fuel_ok (WMap f ch) fuel -> agree (WMap f ch) s (LObj (lenN ch) elems endp) ->
  if lenN ch <=? idx then obj_get W trap fuel bs (lenN ch) elems endp idx = (LObj (lenN ch) elems endp, Err E_IndexOOB)
  else exists n', obj_get W trap fuel bs (lenN ch) elems endp idx = (n', Ok tt) /\
                  agree (WMap f ch) s n' /\ ext (LObj (lenN ch) elems endp) n' /\
                  get_node n' [SKey idx] <> None /\ get_node n' [SVal idx] <> None.
Proof.
  intros Hg Hfu Ha. unfold obj_get. destruct (N.leb_spec (lenN ch) idx) as [|Hidx]; [reflexivity|].
  inversion Ha as [| | | | | | |s' f' ch' pre rest elems0 endp0 Hch Hl He]; subst.
  unfold fuel_ok in Hfu. cbn [fsz] in Hfu.
  destruct (obj_get_loop_ok s f (pre ++ rest) idx (list_sum (map (fun kv : wire * wire => fsz (snd kv)) (pre ++ rest))) Hg) with
    (rest := rest) (pre := pre) (fuel := fuel) (elems := elems) (endp := endp)
    as (elems' & endp' & pre' & rest' & Hr & Hch' & Hl' & He' & Hi' & Hx'); try assumption; try reflexivity.
  - intros k v Hin. eapply fsz_in_pair. exact Hin.
  - pose proof (list_sum_ge_len (fun kv : wire * wire => fsz (snd kv)) (pre ++ rest) (fun kv => fsz_pos (snd kv))) as H1.
    rewrite app_length in H1. lia.
  - rewrite Hr. destruct (nthN_lt_Some elems' idx Hi') as [[xk xv] Hx].
    eexists; repeat split.
    + apply ag_map with (pre := pre') (rest := rest'); [exact Hch'|exact Hl'|exact He'].
    + apply ext_obj_intro. exact Hx'.
    + cbn [get_node]. rewrite Hx. discriminate.
    + cbn [get_node]. rewrite Hx. discriminate.
Qed.

Lemma good_map_keys s f pre rest : good bs s (WMap f (pre ++ rest)) ->
  at_pos bs (s + len_hlen f) (flat_map enc_pair pre) /\ Forall (fun kv => is_wstr (fst kv) = true) pre.
Proof.
  intros (Hw & _ & Hp). split.
  - rewrite enc_map_eq in Hp. apply at_pos_app in Hp. destruct Hp as [_ Hp]. rewrite map_hdr_len in Hp.
    rewrite flat_map_app in Hp. apply at_pos_app in Hp. tauto.
  - cbn [wf] in Hw. apply andb_true_iff in Hw. destruct Hw as [_ Hw]. rewrite forallb_app in Hw.
    apply andb_true_iff in Hw. destruct Hw as [Hw _]. rewrite forallb_forall in Hw.
    apply Forall_forall. intros kv Hin. apply Hw in Hin.
    apply andb_true_iff in Hin. destruct Hin as [Hin _]. apply andb_true_iff in Hin. tauto.
Qed.

Lemma obj_prop_ok s f ch fuel elems endp key :
  good bs s (WMap f ch) -> fuel_ok (WMap f ch) fuel -> agree (WMap f ch) s (LObj (lenN ch) elems endp) ->
  exists n', obj_prop W trap fuel bs key (lenN ch) elems endp = (n', Ok (find_key key ch 0)) /\
             agree (WMap f ch) s n' /\ ext (LObj (lenN ch) elems endp) n' /\
             (forall i, find_key key ch 0 = Some i -> get_node n' [SVal i] <> None).
Proof.
  intros Hg Hfu Ha.
  inversion Ha as [| | | | | | |s' f' ch' pre rest elems0 endp0 Hch Hl He]; subst.
  destruct (good_map_keys _ _ _ _ Hg) as [Hkp Hks].
  unfold obj_prop. rewrite (find_processed_ok key _ _ _ Hl 0 Hkp Hks).
  rewrite find_key_app. pose proof (agree_pairs_length _ _ _ Hl) as Hlen.
  destruct (find_key key pre 0) as [i|] eqn:Ef.
  - eexists; repeat split; [exact Ha|apply ext_refl|].
    intros j Hj. inversion Hj; subst j. apply find_key_range in Ef.
    destruct (nthN_lt_Some elems i ltac:(lia)) as [[xk xv] Hx]. cbn [get_node]. rewrite Hx. discriminate.
  - destruct (N.ltb_spec (lenN (pre ++ rest)) (lenN elems)) as [Hlt|_].
    { rewrite lenN_app in Hlt. lia. }
    unfold fuel_ok in Hfu. cbn [fsz] in Hfu.
    destruct (prop_scan_ok s f (pre ++ rest) key (list_sum (map (fun kv : wire * wire => fsz (snd kv)) (pre ++ rest))) Hg) with
      (rest := rest) (pre := pre) (fuel := fuel) (elems := elems) (endp := endp)
      as (elems' & endp' & pre' & rest' & Hr & Hch' & Hl' & He' & Hi' & Hx'); try assumption; try reflexivity.
    + intros k v Hin. eapply fsz_in_pair. exact Hin.
    + pose proof (list_sum_ge_len (fun kv : wire * wire => fsz (snd kv)) (pre ++ rest) (fun kv => fsz_pos (snd kv))) as H1.
      rewrite app_length in H1. lia.
    + rewrite Hr. rewrite N.add_0_l. eexists; repeat split.
      * apply ag_map with (pre := pre') (rest := rest'); [exact Hch'|exact Hl'|exact He'].
      * apply ext_obj_intro. exact Hx'.
      * intros i Hi. apply Hi' in Hi. destruct (nthN_lt_Some elems' i Hi) as [[xk xv] Hx].
        cbn [get_node]. rewrite Hx. discriminate.
Qed.

End Ops.
