(** [finish_processing] on a node that agrees with the bytes ([Inv]), for ANY fuel and ANY bytes:
    the node still agrees afterwards (also when the call fails half-way), every handle stays valid,
    and the result is exactly what the sequential [skip] says: the end position, or the same error. *)
From Coq Require Import NArith ZArith Lia List Bool Arith ZifyNat ZifyN ZifyBool.
From SFV Require Import Base.Bytes Base.F64 Base.BytesProofs Read.Lazy Read.ReadRun Read.ReadSpec Read.ReadSafe
  Read.ReadInv Read.ReadRobust Read.SeqSpec Read.SeqFacts Read.SeqInv.
Import ListNotations.
Open Scope N_scope.

Section Fin.
Set Default Proof Using "All".
Variable W : N.
Variable trap : bool.
Variable bs : list N.
Hypothesis Hnew : forall pos, new_sane bs pos (lz_new W trap bs pos).
Variable F : nat.
Hypothesis HF : (3 * length bs + 4 <= F)%nat.

Notation L := (lenN bs).
Notation hdr := (SeqSpec.hdr W trap bs).
Notation key_at := (SeqSpec.key_at W trap bs).
Notation skip := (SeqSpec.skip W trap bs).
Notation skip_elems := (SeqSpec.skip_elems W trap bs).
Notation skip_pairs := (SeqSpec.skip_pairs W trap bs).
Notation Inv := (SeqInv.Inv W trap bs F).
Notation Chain := (SeqInv.Chain W trap bs F).
Notation ChainP := (SeqInv.ChainP W trap bs F).
Notation InvL := (SeqInv.InvL W trap bs F).
Notation InvP := (SeqInv.InvP W trap bs F).

Definition fin_ok (pos : N) (n : lz) (r : res (option N)) : Prop :=
  match r with
  | Ok None => is_comp n = false
  | Ok (Some e) => is_comp n = true /\ skip F pos = Ok e
  | Err c => skip F pos = Err c
  | Panic _ | OutOfFuel => True
  end.

Definition rest_ok (rest : res N) (r : res (option N)) : Prop :=
  match r with
  | Ok None => False
  | Ok (Some e) => rest = Ok e
  | Err c => rest = Err c
  | Panic _ | OutOfFuel => True
  end.

Definition finish_Q (f : nat) : Prop := forall n pos n' r,
  Inv pos n -> finish W trap f bs n = (n', r) -> Inv pos n' /\ ext n n' /\ fin_ok pos n r.
Definition fin_arr_Q (f : nat) : Prop := forall len elems endp pos p0 n' r,
  hdr pos = Ok (LArr len [] p0, None) -> lenN elems <= len -> Chain p0 elems endp ->
  fin_arr W trap f bs len elems endp = (n', r) ->
  Inv pos n' /\ ext (LArr len elems endp) n' /\ rest_ok (skip_elems F (len - lenN elems) endp) r.
Definition fin_obj_Q (f : nat) : Prop := forall len elems endp pos p0 n' r,
  hdr pos = Ok (LObj len [] p0, None) -> lenN elems <= len -> ChainP p0 elems endp ->
  fin_obj W trap f bs len elems endp = (n', r) ->
  Inv pos n' /\ ext (LObj len elems endp) n' /\ rest_ok (skip_pairs F (len - lenN elems) endp) r.

(** an error while skipping child [q] is the error of every longer skip *)
Lemma Chain_err p0 es0 q c n : Chain p0 es0 q -> skip F q = Err c -> lenN es0 < n -> skip_elems F n p0 = Err c.
Proof.
  intros Hc Hs Hn. rewrite (Chain_skip W trap bs Hnew F HF _ _ _ Hc) by lia.
  rewrite (skip_elems_eq W trap bs Hnew F HF). destruct (N.eqb_spec (n - lenN es0) 0); [lia|]. rewrite Hs. reflexivity.
Qed.
Lemma ChainP_err p0 es0 q k ke c n : ChainP p0 es0 q -> key_at q = Ok (k, ke) -> skip F ke = Err c -> lenN es0 < n ->
  skip_pairs F n p0 = Err c.
Proof.
  intros Hc Hk Hs Hn. rewrite (ChainP_skip W trap bs Hnew F HF _ _ _ Hc) by lia.
  rewrite (skip_pairs_eq W trap bs Hnew F HF). destruct (N.eqb_spec (n - lenN es0) 0); [lia|]. rewrite Hk, Hs. reflexivity.
Qed.

(** ** finishing the last processed child *)
Lemma finish_last_arr_inv f p0 elems endp elems1 endp1 r1 : finish_Q f -> InvL p0 elems endp ->
  finish_last_arr (finish W trap f bs) elems endp = (elems1, endp1, r1) ->
  lenN elems1 = lenN elems /\ exts elems elems1 /\
  match r1 with
  | Ok _ => Chain p0 elems1 endp1
  | Err c => InvL p0 elems1 endp1 /\
             exists es0 x q, elems = es0 ++ [x] /\ Chain p0 es0 q /\ skip F q = Err c
  | _ => InvL p0 elems1 endp1
  end.
Proof.
  intros IH HI Heq. unfold finish_last_arr in Heq.
  destruct (snoc_cases elems) as [->|(es0 & x & ->)].
  - rewrite last_opt_nil in Heq. inversion Heq; subst. split; [reflexivity|]. split; [apply exts_refl|].
    destruct HI as [Hc|(es0 & x & q & E & _)]; [exact Hc|]. destruct es0; discriminate.
  - rewrite last_opt_snoc in Heq. destruct (finish W trap f bs x) as [x' r] eqn:Ef. rewrite upd_last_snoc in Heq.
    assert (Hlen : lenN (es0 ++ [x']) = lenN (es0 ++ [x])) by (rewrite !lenN_app; reflexivity).
    destruct HI as [Hc|(es0' & x0 & q & E & Hc & Hx & Hcomp & Eendp)]; [|subst endp].
    + destruct (Chain_snoc_inv W trap bs Hnew F HF _ _ _ _ Hc) as (q & Hc0 & Hx & Hs).
      destruct (IH _ _ _ _ Hx Ef) as (Hx' & Hext & Hr).
      pose proof (exts_snoc es0 x x' Hext) as Hexts.
      destruct r as [[e|]|c|s|]; cbn [fin_ok] in Hr; inversion Heq; subst; (split; [exact Hlen|]); (split; [exact Hexts|]).
      * destruct Hr as [_ Hr]. rewrite Hs in Hr. inversion Hr; subst.
        eapply (Chain_snoc W trap bs Hnew F HF); [exact Hc0|exact Hx'|exact Hs].
      * eapply (Chain_snoc W trap bs Hnew F HF); [exact Hc0|exact Hx'|exact Hs].
      * rewrite Hs in Hr. discriminate.
      * left. eapply (Chain_snoc W trap bs Hnew F HF); [exact Hc0|exact Hx'|exact Hs].
      * left. eapply (Chain_snoc W trap bs Hnew F HF); [exact Hc0|exact Hx'|exact Hs].
    + apply app_inj_tail in E. destruct E as [<- <-].
      destruct (IH _ _ _ _ Hx Ef) as (Hx' & Hext & Hr).
      pose proof (exts_snoc es0 x x' Hext) as Hexts.
      assert (Hopen : InvL p0 (es0 ++ [x']) q).
      { right. exists es0, x', q. split; [reflexivity|]. split; [exact Hc|]. split; [exact Hx'|]. split; [|reflexivity].
        rewrite (Inv_comp W trap bs Hnew F HF _ _ _ Hx' Hx). exact Hcomp. }
      destruct r as [[e|]|c|s|]; cbn [fin_ok] in Hr; inversion Heq; subst; (split; [exact Hlen|]); (split; [exact Hexts|]).
      * destruct Hr as [_ Hr]. eapply (Chain_snoc W trap bs Hnew F HF); [exact Hc|exact Hx'|exact Hr].
      * rewrite Hcomp in Hr. discriminate.
      * split; [exact Hopen|]. exists es0, x. eexists. split; [reflexivity|]. split; [exact Hc|exact Hr].
      * exact Hopen.
      * exact Hopen.
Qed.

Lemma finish_last_obj_inv f p0 elems endp elems1 endp1 r1 : finish_Q f -> InvP p0 elems endp ->
  finish_last_obj (finish W trap f bs) elems endp = (elems1, endp1, r1) ->
  lenN elems1 = lenN elems /\ pexts elems elems1 /\
  match r1 with
  | Ok _ => ChainP p0 elems1 endp1
  | Err c => InvP p0 elems1 endp1 /\
             exists es0 k x q ke, elems = es0 ++ [(k, x)] /\ ChainP p0 es0 q /\ key_at q = Ok (k, ke) /\
                                  Inv ke x /\ is_comp x = true /\ endp = ke /\ skip F ke = Err c
  | _ => InvP p0 elems1 endp1
  end.
Proof.
  intros IH HI Heq. unfold finish_last_obj in Heq.
  destruct (snoc_cases elems) as [->|(es0 & [k x] & ->)].
  - rewrite last_opt_nil in Heq. inversion Heq; subst. split; [reflexivity|]. split; [apply pexts_refl|].
    destruct HI as [Hc|(es0 & k & x & q & ke & E & _)]; [exact Hc|]. destruct es0; discriminate.
  - rewrite last_opt_snoc in Heq. destruct (finish W trap f bs x) as [x' r] eqn:Ef. rewrite upd_last_snoc in Heq.
    assert (Hlen : lenN (es0 ++ [(k, x')]) = lenN (es0 ++ [(k, x)])) by (rewrite !lenN_app; reflexivity).
    destruct HI as [Hc|(es0' & k0 & x0 & q & ke & E & Hc & Hk & Hx & Hcomp & Eendp)]; [|subst endp].
    + destruct (ChainP_snoc_inv W trap bs Hnew F HF _ _ _ _ _ Hc) as (q & ke & Hc0 & Hk & Hx & Hs).
      destruct (IH _ _ _ _ Hx Ef) as (Hx' & Hext & Hr).
      pose proof (pexts_snoc es0 k x x' Hext) as Hexts.
      destruct r as [[e|]|c|s|]; cbn [fin_ok] in Hr; inversion Heq; subst; (split; [exact Hlen|]); (split; [exact Hexts|]).
      * destruct Hr as [_ Hr]. rewrite Hs in Hr. inversion Hr; subst.
        eapply (ChainP_snoc W trap bs Hnew F HF); [exact Hc0|exact Hk|exact Hx'|exact Hs].
      * eapply (ChainP_snoc W trap bs Hnew F HF); [exact Hc0|exact Hk|exact Hx'|exact Hs].
      * rewrite Hs in Hr. discriminate.
      * left. eapply (ChainP_snoc W trap bs Hnew F HF); [exact Hc0|exact Hk|exact Hx'|exact Hs].
      * left. eapply (ChainP_snoc W trap bs Hnew F HF); [exact Hc0|exact Hk|exact Hx'|exact Hs].
    + apply app_inj_tail in E. destruct E as [<- E]. inversion E; subst k0 x0.
      destruct (IH _ _ _ _ Hx Ef) as (Hx' & Hext & Hr).
      pose proof (pexts_snoc es0 k x x' Hext) as Hexts.
      assert (Hopen : InvP p0 (es0 ++ [(k, x')]) ke).
      { right. exists es0, k, x', q, ke. split; [reflexivity|]. split; [exact Hc|]. split; [exact Hk|]. split; [exact Hx'|].
        split; [|reflexivity]. rewrite (Inv_comp W trap bs Hnew F HF _ _ _ Hx' Hx). exact Hcomp. }
      destruct r as [[e|]|c|s|]; cbn [fin_ok] in Hr; inversion Heq; subst; (split; [exact Hlen|]); (split; [exact Hexts|]).
      * destruct Hr as [_ Hr]. eapply (ChainP_snoc W trap bs Hnew F HF); [exact Hc|exact Hk|exact Hx'|exact Hr].
      * rewrite Hcomp in Hr. discriminate.
      * split; [exact Hopen|]. exists es0, k, x. do 2 eexists. split; [reflexivity|]. split; [exact Hc|]. split; [exact Hk|].
        split; [exact Hx|]. split; [exact Hcomp|]. split; [reflexivity|exact Hr].
      * exact Hopen.
      * exact Hopen.
Qed.


(** ** [finish], [fin_arr], [fin_obj] *)
Lemma skip_arr_chain pos len p0 es q : hdr pos = Ok (LArr len [] p0, None) -> Chain p0 es q -> lenN es <= len ->
  skip F pos = skip_elems F (len - lenN es) q.
Proof.
  intros Hh Hc Hl. rewrite (skip_eq W trap bs Hnew F HF), Hh. apply (Chain_skip W trap bs Hnew F HF _ _ _ Hc). exact Hl.
Qed.
Lemma skip_obj_chain pos len p0 es q : hdr pos = Ok (LObj len [] p0, None) -> ChainP p0 es q -> lenN es <= len ->
  skip F pos = skip_pairs F (len - lenN es) q.
Proof.
  intros Hh Hc Hl. rewrite (skip_eq W trap bs Hnew F HF), Hh. apply (ChainP_skip W trap bs Hnew F HF _ _ _ Hc). exact Hl.
Qed.

Lemma skip_elems_step n pos : n <> 0 -> skip_elems F n pos =
  match skip F pos with Ok e => skip_elems F (n - 1) e | Err c => Err c | Panic s => Panic s | OutOfFuel => OutOfFuel end.
Proof. intros H. rewrite (skip_elems_eq W trap bs Hnew F HF). destruct (N.eqb_spec n 0); [contradiction|reflexivity]. Qed.
Lemma skip_pairs_step n pos : n <> 0 -> skip_pairs F n pos =
  match key_at pos with
  | Ok (_, ke) => match skip F ke with Ok e => skip_pairs F (n - 1) e | Err c => Err c | Panic s => Panic s | OutOfFuel => OutOfFuel end
  | Err c => Err c | Panic s => Panic s | OutOfFuel => OutOfFuel
  end.
Proof. intros H. rewrite (skip_pairs_eq W trap bs Hnew F HF). destruct (N.eqb_spec n 0); [contradiction|reflexivity]. Qed.

Lemma skip_hdr_err pos c : hdr pos = Err c -> skip F pos = Err c.
Proof. intros H. rewrite (skip_eq W trap bs Hnew F HF), H. reflexivity. Qed.

Lemma Inv_arr_closed pos len p0 elems endp : hdr pos = Ok (LArr len [] p0, None) -> lenN elems <= len ->
  Chain p0 elems endp -> Inv pos (LArr len elems endp).
Proof. intros Hh Hl Hc. eapply Inv_arr; [exact Hh|exact Hl|left; exact Hc]. Qed.
Lemma Inv_obj_closed pos len p0 elems endp : hdr pos = Ok (LObj len [] p0, None) -> lenN elems <= len ->
  ChainP p0 elems endp -> Inv pos (LObj len elems endp).
Proof. intros Hh Hl Hc. eapply Inv_obj; [exact Hh|exact Hl|left; exact Hc]. Qed.

(** the end position of a freshly decoded value that finished with [e1] *)
Lemma fresh_end pos v e0 e1 : hdr pos = Ok (v, e0) -> fin_ok pos v (Ok e1) ->
  match (match e1 with Some e => Some e | None => e0 end) with
  | Some e => skip F pos = Ok e
  | None => False
  end.
Proof.
  intros Hh Hr. destruct e1 as [e|]; cbn [fin_ok] in Hr.
  - exact (proj2 Hr).
  - destruct (hdr_cases W trap bs Hnew _ _ _ Hh) as [_ Hc].
    destruct v; try discriminate; destruct Hc as (e' & -> & _); eapply (skip_scalar W trap bs Hnew F HF); eassumption.
Qed.

Lemma finish_all : forall f, finish_Q f /\ fin_arr_Q f /\ fin_obj_Q f.
Proof.
  induction f as [|f (IHf & IHa & IHo)].
  - split; [|split].
    + intros n pos n' r Hn Heq. cbn [finish] in Heq. inversion Heq; subst. split; [exact Hn|]. split; [apply ext_refl|exact I].
    + intros len elems endp pos p0 n' r Hh Hl Hc Heq. cbn [fin_arr] in Heq. inversion Heq; subst.
      split; [eapply Inv_arr_closed; eassumption|]. split; [apply ext_refl|exact I].
    + intros len elems endp pos p0 n' r Hh Hl Hc Heq. cbn [fin_obj] in Heq. inversion Heq; subst.
      split; [eapply Inv_obj_closed; eassumption|]. split; [apply ext_refl|exact I].
  - split; [|split].
    + (* finish *)
      intros n pos n' r Hn Heq. rewrite r_finish_S in Heq.
      destruct n as [| | | |len elems endp|len elems endp];
        try (inversion Heq; subst; split; [exact Hn|split; [apply ext_refl|reflexivity]]).
      * destruct (Inv_arr_inv W trap bs Hnew F HF _ _ _ _ Hn) as (p0 & Hh & Hl & HI).
        destruct (finish_last_arr (finish W trap f bs) elems endp) as [[elems1 endp1] r1] eqn:Efl.
        destruct (finish_last_arr_inv f _ _ _ _ _ _ IHf HI Efl) as (A1 & A2 & A3).
        assert (Hl1 : lenN elems1 <= len) by lia.
        pose proof (ext_arr_intro len elems endp len elems1 endp1 A2) as Hx1.
        destruct r1 as [u|c|s|].
        -- destruct (N.ltb_spec len (lenN elems1)); [lia|].
           destruct (IHa _ _ _ _ _ _ _ Hh Hl1 A3 Heq) as (B1 & B2 & B3).
           split; [exact B1|]. split; [eapply ext_trans; eassumption|].
           rewrite <- (skip_arr_chain _ _ _ _ _ Hh A3 Hl1) in B3.
           destruct r as [[e|]|c|s|]; cbn [rest_ok fin_ok is_comp] in *; [split; [reflexivity|exact B3]|contradiction|exact B3|exact I|exact I].
        -- inversion Heq; subst. destruct A3 as [A3 (es0 & x & q & -> & Hc0 & Hs)].
           split; [eapply Inv_arr; [exact Hh|exact Hl1|exact A3]|]. split; [exact Hx1|]. cbn [fin_ok].
           rewrite (skip_eq W trap bs Hnew F HF), Hh. eapply Chain_err; [exact Hc0|exact Hs|].
           rewrite lenN_app, lenN_one in Hl. lia.
        -- inversion Heq; subst. split; [eapply Inv_arr; [exact Hh|exact Hl1|exact A3]|]. split; [exact Hx1|exact I].
        -- inversion Heq; subst. split; [eapply Inv_arr; [exact Hh|exact Hl1|exact A3]|]. split; [exact Hx1|exact I].
      * destruct (Inv_obj_inv W trap bs Hnew F HF _ _ _ _ Hn) as (p0 & Hh & Hl & HI).
        destruct (finish_last_obj (finish W trap f bs) elems endp) as [[elems1 endp1] r1] eqn:Efl.
        destruct (finish_last_obj_inv f _ _ _ _ _ _ IHf HI Efl) as (A1 & A2 & A3).
        assert (Hl1 : lenN elems1 <= len) by lia.
        pose proof (ext_obj_intro len elems endp len elems1 endp1 A2) as Hx1.
        destruct r1 as [u|c|s|].
        -- destruct (N.ltb_spec len (lenN elems1)); [lia|].
           destruct (IHo _ _ _ _ _ _ _ Hh Hl1 A3 Heq) as (B1 & B2 & B3).
           split; [exact B1|]. split; [eapply ext_trans; eassumption|].
           rewrite <- (skip_obj_chain _ _ _ _ _ Hh A3 Hl1) in B3.
           destruct r as [[e|]|c|s|]; cbn [rest_ok fin_ok is_comp] in *; [split; [reflexivity|exact B3]|contradiction|exact B3|exact I|exact I].
        -- inversion Heq; subst. destruct A3 as [A3 (es0 & k & x & q & ke & -> & Hc0 & Hk & _ & _ & _ & Hs)].
           split; [eapply Inv_obj; [exact Hh|exact Hl1|exact A3]|]. split; [exact Hx1|]. cbn [fin_ok].
           rewrite (skip_eq W trap bs Hnew F HF), Hh. eapply ChainP_err; [exact Hc0|exact Hk|exact Hs|].
           rewrite lenN_app, lenN_one in Hl. lia.
        -- inversion Heq; subst. split; [eapply Inv_obj; [exact Hh|exact Hl1|exact A3]|]. split; [exact Hx1|exact I].
        -- inversion Heq; subst. split; [eapply Inv_obj; [exact Hh|exact Hl1|exact A3]|]. split; [exact Hx1|exact I].
    + (* fin_arr *)
      intros len elems endp pos p0 n' r Hh Hl Hc Heq. rewrite r_fin_arr_S in Heq.
      pose proof (Inv_arr_closed _ _ _ _ _ Hh Hl Hc) as Hsame.
      destruct (N.leb_spec len (lenN elems)) as [Hle|Hgt].
      { inversion Heq; subst. split; [exact Hsame|]. split; [apply ext_refl|]. cbn [rest_ok].
        replace (len - lenN elems) with 0 by lia. apply (skip_elems_0 W trap bs Hnew F HF). }
      rewrite (skip_elems_step (len - lenN elems) endp) by lia.
      change (lz_new W trap bs endp) with (hdr endp) in Heq.
      destruct (hdr endp) as [[v e0]|c|s|] eqn:Eh.
      2:{ inversion Heq; subst. split; [exact Hsame|]. split; [apply ext_refl|]. cbn [rest_ok].
          rewrite (skip_hdr_err _ _ Eh). reflexivity. }
      2,3: inversion Heq; subst; (split; [exact Hsame|]); (split; [apply ext_refl|exact I]).
      pose proof (Inv_fresh W trap bs Hnew F HF _ _ _ Eh) as Hv.
      destruct (finish W trap f bs v) as [v' rv] eqn:Ef.
      destruct (IHf _ _ _ _ Hv Ef) as (Hv' & _ & Hrv).
      destruct rv as [e1|c|s|].
      2:{ inversion Heq; subst. split; [exact Hsame|]. split; [apply ext_refl|]. cbn [rest_ok fin_ok] in *.
          rewrite Hrv. reflexivity. }
      2,3: inversion Heq; subst; (split; [exact Hsame|]); (split; [apply ext_refl|exact I]).
      pose proof (fresh_end _ _ _ _ Eh Hrv) as He.
      destruct (match e1 with Some e => Some e | None => e0 end) as [e|]; [|contradiction].
      assert (Hc' : Chain p0 (elems ++ [v']) e) by (eapply (Chain_snoc W trap bs Hnew F HF); [exact Hc|exact Hv'|exact He]).
      assert (Hl' : lenN (elems ++ [v']) <= len) by (rewrite lenN_app, lenN_one; lia).
      destruct (IHa _ _ _ _ _ _ _ Hh Hl' Hc' Heq) as (B1 & B2 & B3).
      split; [exact B1|]. split.
      { eapply ext_trans; [|exact B2]. apply ext_arr_intro. apply exts_app. }
      rewrite He. rewrite lenN_app, lenN_one in B3.
      replace (len - lenN elems - 1) with (len - (lenN elems + 1)) by lia. exact B3.
    + (* fin_obj *)
      intros len elems endp pos p0 n' r Hh Hl Hc Heq. rewrite r_fin_obj_S in Heq.
      pose proof (Inv_obj_closed _ _ _ _ _ Hh Hl Hc) as Hsame.
      destruct (N.leb_spec len (lenN elems)) as [Hle|Hgt].
      { inversion Heq; subst. split; [exact Hsame|]. split; [apply ext_refl|]. cbn [rest_ok].
        replace (len - lenN elems) with 0 by lia. apply (skip_pairs_0 W trap bs Hnew F HF). }
      rewrite (skip_pairs_step (len - lenN elems) endp) by lia.
      change (new_key W trap bs endp) with (key_at endp) in Heq.
      destruct (key_at endp) as [[k ke]|c|s|] eqn:Ek.
      2:{ inversion Heq; subst. split; [exact Hsame|]. split; [apply ext_refl|reflexivity]. }
      2,3: inversion Heq; subst; (split; [exact Hsame|]); (split; [apply ext_refl|exact I]).
      change (lz_new W trap bs ke) with (hdr ke) in Heq.
      destruct (hdr ke) as [[v e0]|c|s|] eqn:Eh.
      2:{ inversion Heq; subst. split; [exact Hsame|]. split; [apply ext_refl|]. cbn [rest_ok].
          rewrite (skip_hdr_err _ _ Eh). reflexivity. }
      2,3: inversion Heq; subst; (split; [exact Hsame|]); (split; [apply ext_refl|exact I]).
      pose proof (Inv_fresh W trap bs Hnew F HF _ _ _ Eh) as Hv.
      destruct (finish W trap f bs v) as [v' rv] eqn:Ef.
      destruct (IHf _ _ _ _ Hv Ef) as (Hv' & _ & Hrv).
      destruct rv as [e1|c|s|].
      2:{ inversion Heq; subst. split; [exact Hsame|]. split; [apply ext_refl|]. cbn [rest_ok fin_ok] in *.
          rewrite Hrv. reflexivity. }
      2,3: inversion Heq; subst; (split; [exact Hsame|]); (split; [apply ext_refl|exact I]).
      pose proof (fresh_end _ _ _ _ Eh Hrv) as He.
      destruct (match e1 with Some e => Some e | None => e0 end) as [e|]; [|contradiction].
      assert (Hc' : ChainP p0 (elems ++ [(k, v')]) e) by (eapply (ChainP_snoc W trap bs Hnew F HF); [exact Hc|exact Ek|exact Hv'|exact He]).
      assert (Hl' : lenN (elems ++ [(k, v')]) <= len) by (rewrite lenN_app, lenN_one; lia).
      destruct (IHo _ _ _ _ _ _ _ Hh Hl' Hc' Heq) as (B1 & B2 & B3).
      split; [exact B1|]. split.
      { eapply ext_trans; [|exact B2]. apply ext_obj_intro. apply pexts_app. }
      rewrite He. rewrite lenN_app, lenN_one in B3.
      replace (len - lenN elems - 1) with (len - (lenN elems + 1)) by lia. exact B3.
Qed.

Lemma finish_inv f : finish_Q f.
Proof. apply finish_all. Qed.

End Fin.
