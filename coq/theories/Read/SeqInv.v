(** The invariant relating the lazy reader's state to the INPUT BYTES (no well-formedness):
    [Inv pos n] = lazy node [n] is a partially processed view of the value whose header decodes at
    [pos]: the processed children sit at the positions the sequential decoder [skip]s to; every
    processed child but possibly the last has a complete [skip]; the cursor [endp] is the end of the
    last processed child, or its start when it is a container not yet finished. *)
From Coq Require Import NArith ZArith Lia List Bool Arith ZifyNat ZifyN ZifyBool.
From SFV Require Import Base.Bytes Base.F64 Base.BytesProofs Read.Lazy Read.ReadRun Read.ReadSpec Read.ReadSafe
  Read.ReadInv Read.ReadRobust Read.SeqSpec Read.SeqFacts.
Import ListNotations.
Open Scope N_scope.

Lemma set_nth_app_l {A} (a b : list A) : forall i y, i < lenN a -> set_nth (a ++ b) i y = set_nth a i y ++ b.
Proof.
  induction a as [|x a IH]; intros i y H; [rewrite lenN_nil in H; lia|].
  rewrite lenN_cons in H. cbn [app set_nth]. destruct (N.eqb_spec i 0); [reflexivity|].
  rewrite IH by lia. reflexivity.
Qed.
Lemma set_nth_snoc {A} (a : list A) x y : set_nth (a ++ [x]) (lenN a) y = a ++ [y].
Proof. apply set_nth_mid. Qed.

Section Inv.
Set Default Proof Using "All".
Variable W : N.
Variable trap : bool.
Variable bs : list N.
Hypothesis Hnew : forall pos, new_sane bs pos (lz_new W trap bs pos).
Variable F : nat.
Hypothesis HF : (3 * length bs + 4 <= F)%nat.

Notation L := (lenN bs).
Notation hdr := (SeqSpec.hdr W trap bs).
Notation key_at := (SeqSpec.key_at W trap bs).
Notation skip := (SeqSpec.skip W trap bs).
Notation skip_elems := (SeqSpec.skip_elems W trap bs).
Notation skip_pairs := (SeqSpec.skip_pairs W trap bs).

Inductive Inv : N -> lz -> Prop :=
| Inv_sc pos v e : hdr pos = Ok (v, Some e) -> Inv pos v
| Inv_arr pos len p0 elems endp :
    hdr pos = Ok (LArr len [] p0, None) -> lenN elems <= len ->
    (Chain p0 elems endp \/
     exists es0 x q, elems = es0 ++ [x] /\ Chain p0 es0 q /\ Inv q x /\ is_comp x = true /\ endp = q) ->
    Inv pos (LArr len elems endp)
| Inv_obj pos len p0 elems endp :
    hdr pos = Ok (LObj len [] p0, None) -> lenN elems <= len ->
    (ChainP p0 elems endp \/
     exists es0 k x q ke, elems = es0 ++ [(k, x)] /\ ChainP p0 es0 q /\ key_at q = Ok (k, ke) /\
                          Inv ke x /\ is_comp x = true /\ endp = ke) ->
    Inv pos (LObj len elems endp)
with Chain : N -> list lz -> N -> Prop :=
| Ch_nil p : Chain p [] p
| Ch_cons p x e es q : Inv p x -> skip F p = Ok e -> Chain e es q -> Chain p (x :: es) q
with ChainP : N -> list (lz * lz) -> N -> Prop :=
| ChP_nil p : ChainP p [] p
| ChP_cons p k ke x e es q :
    key_at p = Ok (k, ke) -> Inv ke x -> skip F ke = Ok e -> ChainP e es q -> ChainP p ((k, x) :: es) q.

(** the processed prefix of an array / a map *)
Definition InvL (p0 : N) (elems : list lz) (endp : N) : Prop :=
  Chain p0 elems endp \/
  exists es0 x q, elems = es0 ++ [x] /\ Chain p0 es0 q /\ Inv q x /\ is_comp x = true /\ endp = q.
Definition InvP (p0 : N) (elems : list (lz * lz)) (endp : N) : Prop :=
  ChainP p0 elems endp \/
  exists es0 k x q ke, elems = es0 ++ [(k, x)] /\ ChainP p0 es0 q /\ key_at q = Ok (k, ke) /\
                       Inv ke x /\ is_comp x = true /\ endp = ke.

Lemma Inv_arr_inv pos len elems endp : Inv pos (LArr len elems endp) ->
  exists p0, hdr pos = Ok (LArr len [] p0, None) /\ lenN elems <= len /\ InvL p0 elems endp.
Proof.
  inversion 1 as [? ? e Hh|? ? p0 ? ? Hh Hl Hi|]; subst.
  - destruct (hdr_arr W trap bs Hnew _ _ _ _ _ Hh) as (_ & E & _). discriminate.
  - exists p0. auto.
Qed.
Lemma Inv_obj_inv pos len elems endp : Inv pos (LObj len elems endp) ->
  exists p0, hdr pos = Ok (LObj len [] p0, None) /\ lenN elems <= len /\ InvP p0 elems endp.
Proof.
  inversion 1 as [? ? e Hh| |? ? p0 ? ? Hh Hl Hi]; subst.
  - destruct (hdr_obj W trap bs Hnew _ _ _ _ _ Hh) as (_ & E & _). discriminate.
  - exists p0. auto.
Qed.
Lemma Inv_sc_inv pos n : Inv pos n -> is_comp n = false -> exists e, hdr pos = Ok (n, Some e).
Proof. inversion 1; subst; try discriminate. eauto. Qed.

(** a freshly decoded header agrees *)
Lemma Inv_fresh pos v e : hdr pos = Ok (v, e) -> Inv pos v.
Proof.
  intros H. destruct (hdr_cases W trap bs Hnew _ _ _ H) as [_ Hc].
  destruct v as [| | | |len es p|len es p].
  5:{ destruct Hc as (-> & -> & _). eapply Inv_arr; [exact H|rewrite lenN_nil; lia|left; constructor]. }
  5:{ destruct Hc as (-> & -> & _). eapply Inv_obj; [exact H|rewrite lenN_nil; lia|left; constructor]. }
  all: destruct Hc as (e' & -> & _); eapply Inv_sc; exact H.
Qed.

(** the header behind a node *)
Definition same_head (n v : lz) : Prop :=
  match n with
  | LArr len _ _ => exists p0, v = LArr len [] p0
  | LObj len _ _ => exists p0, v = LObj len [] p0
  | _ => v = n
  end.

Lemma Inv_head pos n : Inv pos n -> exists v e, hdr pos = Ok (v, e) /\ same_head n v /\ sane L pos v.
Proof.
  intros H. inversion H as [? ? e Hh|? ? p0 ? ? Hh Hl Hi|? ? p0 ? ? Hh Hl Hi]; subst.
  - destruct (hdr_scalar W trap bs Hnew _ _ _ Hh) as (Hc & _ & _ & Hs).
    exists n, (Some e). split; [exact Hh|]. split; [|exact Hs]. destruct n; try discriminate; reflexivity.
  - exists (LArr len [] p0), None. split; [exact Hh|]. split; [cbn; eauto|]. exact (proj1 (hdr_cases W trap bs Hnew _ _ _ Hh)).
  - exists (LObj len [] p0), None. split; [exact Hh|]. split; [cbn; eauto|]. exact (proj1 (hdr_cases W trap bs Hnew _ _ _ Hh)).
Qed.

Lemma same_head_comp n v : same_head n v -> is_comp v = is_comp n.
Proof. destruct n; cbn [same_head]; intros H; try (subst; reflexivity); destruct H as [p0 ->]; reflexivity. Qed.

Lemma Inv_comp pos a b : Inv pos a -> Inv pos b -> is_comp a = is_comp b.
Proof.
  intros Ha Hb. destruct (Inv_head _ _ Ha) as (v & e & Hh & Hs & _). destruct (Inv_head _ _ Hb) as (v' & e' & Hh' & Hs' & _).
  rewrite Hh in Hh'. inversion Hh'; subst. rewrite <- (same_head_comp _ _ Hs), <- (same_head_comp _ _ Hs'). reflexivity.
Qed.

Lemma same_head_encode h n v pos : same_head n v -> sane L pos v -> encode_node h n = Ok (hans h v).
Proof.
  destruct n; cbn [same_head]; intros H Hs; try (subst; reflexivity).
  - subst. inversion Hs; subst. cbn [encode_node hans]. rewrite H1. reflexivity.
  - destruct H as [p0 ->]. reflexivity.
  - destruct H as [p0 ->]. reflexivity.
Qed.

(** a scalar node skips to its end *)
Lemma skip_scalar pos v e : hdr pos = Ok (v, Some e) -> skip F pos = Ok e.
Proof.
  intros H. rewrite (skip_eq W trap bs Hnew F HF), H. destruct (hdr_scalar W trap bs Hnew _ _ _ H) as (Hc & _).
  destruct v; try discriminate; reflexivity.
Qed.

(** * Chains *)
Lemma Chain_app p a q : Chain p a q -> forall b r, Chain q b r -> Chain p (a ++ b) r.
Proof. induction 1 as [p|p x e es q Hx Hs Hc IH]; intros b r Hb; [exact Hb|]. cbn [app]. eapply Ch_cons; [exact Hx|exact Hs|apply IH; exact Hb]. Qed.
Lemma Chain_snoc p a q x e : Chain p a q -> Inv q x -> skip F q = Ok e -> Chain p (a ++ [x]) e.
Proof. intros H Hx Hs. eapply Chain_app; [exact H|]. econstructor; [exact Hx|exact Hs|constructor]. Qed.
Lemma Chain_snoc_inv a : forall p x e, Chain p (a ++ [x]) e -> exists q, Chain p a q /\ Inv q x /\ skip F q = Ok e.
Proof.
  induction a as [|y a IH]; intros p x e H; cbn [app] in H.
  - inversion H as [|? ? e1 ? ? Hx Hs Hc]; subst. inversion Hc; subst. exists p. split; [constructor|]. split; [exact Hx|exact Hs].
  - inversion H as [|? ? e1 ? ? Hy Hs Hc]; subst. destruct (IH _ _ _ Hc) as (q & Hq & Hx & Hsx).
    exists q. split; [eapply Ch_cons; [exact Hy|exact Hs|exact Hq]|]. split; [exact Hx|exact Hsx].
Qed.

Lemma Chain_skip p es q : Chain p es q -> forall n, lenN es <= n ->
  skip_elems F n p = skip_elems F (n - lenN es) q.
Proof.
  induction 1 as [p|p x e es q Hx Hs Hc IH]; intros n Hn.
  - rewrite lenN_nil, N.sub_0_r. reflexivity.
  - rewrite lenN_cons in Hn. rewrite (skip_elems_eq W trap bs Hnew F HF n p).
    destruct (N.eqb_spec n 0); [lia|]. rewrite Hs, IH by lia. f_equal. rewrite lenN_cons. lia.
Qed.
Lemma Chain_end p es q : Chain p es q -> skip_elems F (lenN es) p = Ok q.
Proof.
  intros H. rewrite (Chain_skip _ _ _ H) by lia. rewrite N.sub_diag. apply (skip_elems_0 W trap bs Hnew F HF).
Qed.

Lemma Chain_nth p es q : Chain p es q -> forall i x, nthN es i = Some x ->
  exists qi, skip_elems F i p = Ok qi /\ Inv qi x.
Proof.
  induction 1 as [p|p y e es q Hy Hs Hc IH]; intros i x Hn; [discriminate|].
  cbn [nthN] in Hn. destruct (N.eqb_spec i 0) as [->|Hi].
  - inversion Hn; subst. exists p. split; [apply (skip_elems_0 W trap bs Hnew F HF)|exact Hy].
  - destruct (IH _ _ Hn) as (qi & Hq & Hx). exists qi. split; [|exact Hx].
    rewrite (skip_elems_eq W trap bs Hnew F HF i p). destruct (N.eqb_spec i 0); [lia|]. rewrite Hs. exact Hq.
Qed.

Lemma Chain_set p es q : Chain p es q -> forall i qi x', i < lenN es ->
  skip_elems F i p = Ok qi -> Inv qi x' -> Chain p (set_nth es i x') q.
Proof.
  induction 1 as [p|p y e es q Hy Hs Hc IH]; intros i qi x' Hi Hq Hx'; [rewrite lenN_nil in Hi; lia|].
  cbn [set_nth]. destruct (N.eqb_spec i 0) as [->|Hi0].
  - rewrite (skip_elems_0 W trap bs Hnew F HF) in Hq. inversion Hq; subst. eapply Ch_cons; [exact Hx'|exact Hs|exact Hc].
  - rewrite (skip_elems_eq W trap bs Hnew F HF i p) in Hq. destruct (N.eqb_spec i 0); [lia|]. rewrite Hs in Hq.
    rewrite lenN_cons in Hi. eapply Ch_cons; [exact Hy|exact Hs|]. eapply IH; [lia|exact Hq|exact Hx'].
Qed.

(** pairs *)
Lemma ChainP_app p a q : ChainP p a q -> forall b r, ChainP q b r -> ChainP p (a ++ b) r.
Proof. induction 1 as [p|p k ke x e es q Hk Hx Hs Hc IH]; intros b r Hb; [exact Hb|]. cbn [app]. eapply ChP_cons; [exact Hk|exact Hx|exact Hs|apply IH; exact Hb]. Qed.
Lemma ChainP_snoc p a q k ke x e : ChainP p a q -> key_at q = Ok (k, ke) -> Inv ke x -> skip F ke = Ok e ->
  ChainP p (a ++ [(k, x)]) e.
Proof. intros H Hk Hx Hs. eapply ChainP_app; [exact H|]. econstructor; [exact Hk|exact Hx|exact Hs|constructor]. Qed.
Lemma ChainP_snoc_inv a : forall p k x e, ChainP p (a ++ [(k, x)]) e ->
  exists q ke, ChainP p a q /\ key_at q = Ok (k, ke) /\ Inv ke x /\ skip F ke = Ok e.
Proof.
  induction a as [|y a IH]; intros p k x e H; cbn [app] in H.
  - inversion H as [|? ? ke ? e1 ? ? Hk Hx Hs Hc]; subst. inversion Hc; subst.
    exists p, ke. split; [constructor|]. split; [exact Hk|]. split; [exact Hx|exact Hs].
  - inversion H as [|? ? ke ? e1 ? ? Hk Hy Hs Hc]; subst. destruct (IH _ _ _ _ Hc) as (q & ke' & Hq & Hk' & Hx & Hsx).
    exists q, ke'. split; [eapply ChP_cons; [exact Hk|exact Hy|exact Hs|exact Hq]|]. split; [exact Hk'|]. split; [exact Hx|exact Hsx].
Qed.

Lemma ChainP_skip p es q : ChainP p es q -> forall n, lenN es <= n ->
  skip_pairs F n p = skip_pairs F (n - lenN es) q.
Proof.
  induction 1 as [p|p k ke x e es q Hk Hx Hs Hc IH]; intros n Hn.
  - rewrite lenN_nil, N.sub_0_r. reflexivity.
  - rewrite lenN_cons in Hn. rewrite (skip_pairs_eq W trap bs Hnew F HF n p).
    destruct (N.eqb_spec n 0); [lia|]. rewrite Hk, Hs, IH by lia. f_equal. rewrite lenN_cons. lia.
Qed.
Lemma ChainP_end p es q : ChainP p es q -> skip_pairs F (lenN es) p = Ok q.
Proof.
  intros H. rewrite (ChainP_skip _ _ _ H) by lia. rewrite N.sub_diag. apply (skip_pairs_0 W trap bs Hnew F HF).
Qed.

Lemma ChainP_nth p es q : ChainP p es q -> forall i k x, nthN es i = Some (k, x) ->
  exists qi ke, skip_pairs F i p = Ok qi /\ key_at qi = Ok (k, ke) /\ Inv ke x.
Proof.
  induction 1 as [p|p k0 ke0 y e es q Hk Hy Hs Hc IH]; intros i k x Hn; [discriminate|].
  cbn [nthN] in Hn. destruct (N.eqb_spec i 0) as [->|Hi].
  - inversion Hn; subst. exists p, ke0. split; [apply (skip_pairs_0 W trap bs Hnew F HF)|auto].
  - destruct (IH _ _ _ Hn) as (qi & ke & Hq & Hk' & Hx). exists qi, ke. split; [|auto].
    rewrite (skip_pairs_eq W trap bs Hnew F HF i p). destruct (N.eqb_spec i 0); [lia|]. rewrite Hk, Hs. exact Hq.
Qed.

Lemma ChainP_set p es q : ChainP p es q -> forall i qi k ke x', i < lenN es ->
  skip_pairs F i p = Ok qi -> key_at qi = Ok (k, ke) -> Inv ke x' -> ChainP p (set_nth es i (k, x')) q.
Proof.
  induction 1 as [p|p k0 ke0 y e es q Hk Hy Hs Hc IH]; intros i qi k ke x' Hi Hq Hk' Hx'; [rewrite lenN_nil in Hi; lia|].
  cbn [set_nth]. destruct (N.eqb_spec i 0) as [->|Hi0].
  - rewrite (skip_pairs_0 W trap bs Hnew F HF) in Hq. inversion Hq; subst. rewrite Hk in Hk'. inversion Hk'; subst.
    eapply ChP_cons; [exact Hk|exact Hx'|exact Hs|exact Hc].
  - rewrite (skip_pairs_eq W trap bs Hnew F HF i p) in Hq. destruct (N.eqb_spec i 0); [lia|]. rewrite Hk, Hs in Hq.
    rewrite lenN_cons in Hi. eapply ChP_cons; [exact Hk|exact Hy|exact Hs|]. eapply IH; [lia|exact Hq|exact Hk'|exact Hx'].
Qed.


(** * The processed prefix: reading and replacing a child *)
Lemma InvL_nth p0 elems endp : InvL p0 elems endp -> forall i x, nthN elems i = Some x ->
  exists qi, skip_elems F i p0 = Ok qi /\ Inv qi x.
Proof.
  intros [Hc|(es0 & x0 & q & -> & Hc & Hx0 & Hcomp & ->)] i x Hn.
  - eapply Chain_nth; [exact Hc|exact Hn].
  - pose proof (nthN_Some_lt _ _ _ Hn) as Hlt. rewrite lenN_app, lenN_one in Hlt.
    destruct (N.lt_ge_cases i (lenN es0)) as [Hi|Hi].
    + rewrite nthN_app_l in Hn by exact Hi. eapply Chain_nth; [exact Hc|exact Hn].
    + assert (i = lenN es0) by lia. subst i. rewrite nthN_snoc in Hn. inversion Hn; subst.
      exists q. split; [apply Chain_end; exact Hc|exact Hx0].
Qed.

Lemma InvL_set p0 elems endp : InvL p0 elems endp -> forall i x qi x', nthN elems i = Some x ->
  skip_elems F i p0 = Ok qi -> Inv qi x' -> InvL p0 (set_nth elems i x') endp.
Proof.
  intros [Hc|(es0 & x0 & q & -> & Hc & Hx0 & Hcomp & ->)] i x qi x' Hn Hq Hx'.
  - left. eapply Chain_set; [exact Hc|eapply nthN_Some_lt; exact Hn|exact Hq|exact Hx'].
  - pose proof (nthN_Some_lt _ _ _ Hn) as Hlt. rewrite lenN_app, lenN_one in Hlt.
    destruct (N.lt_ge_cases i (lenN es0)) as [Hi|Hi].
    + right. rewrite set_nth_app_l by exact Hi. exists (set_nth es0 i x'), x0, q.
      split; [reflexivity|]. split; [eapply Chain_set; [exact Hc|exact Hi|exact Hq|exact Hx']|]. auto.
    + assert (i = lenN es0) by lia. subst i. rewrite set_nth_snoc.
      rewrite (Chain_end _ _ _ Hc) in Hq. inversion Hq; subst qi.
      right. exists es0, x', q. split; [reflexivity|]. split; [exact Hc|]. split; [exact Hx'|].
      split; [|reflexivity]. rewrite (Inv_comp _ _ _ Hx' Hx0). exact Hcomp.
Qed.

Lemma InvP_nth p0 elems endp : InvP p0 elems endp -> forall i k x, nthN elems i = Some (k, x) ->
  exists qi ke, skip_pairs F i p0 = Ok qi /\ key_at qi = Ok (k, ke) /\ Inv ke x.
Proof.
  intros [Hc|(es0 & k0 & x0 & q & ke0 & -> & Hc & Hk0 & Hx0 & Hcomp & ->)] i k x Hn.
  - eapply ChainP_nth; [exact Hc|exact Hn].
  - pose proof (nthN_Some_lt _ _ _ Hn) as Hlt. rewrite lenN_app, lenN_one in Hlt.
    destruct (N.lt_ge_cases i (lenN es0)) as [Hi|Hi].
    + rewrite nthN_app_l in Hn by exact Hi. eapply ChainP_nth; [exact Hc|exact Hn].
    + assert (i = lenN es0) by lia. subst i. rewrite nthN_snoc in Hn. inversion Hn; subst.
      exists q, ke0. split; [apply ChainP_end; exact Hc|]. split; [exact Hk0|exact Hx0].
Qed.

Lemma InvP_set p0 elems endp : InvP p0 elems endp -> forall i k x qi ke x', nthN elems i = Some (k, x) ->
  skip_pairs F i p0 = Ok qi -> key_at qi = Ok (k, ke) -> Inv ke x' -> InvP p0 (set_nth elems i (k, x')) endp.
Proof.
  intros [Hc|(es0 & k0 & x0 & q & ke0 & -> & Hc & Hk0 & Hx0 & Hcomp & ->)] i k x qi ke x' Hn Hq Hk Hx'.
  - left. eapply ChainP_set; [exact Hc|eapply nthN_Some_lt; exact Hn|exact Hq|exact Hk|exact Hx'].
  - pose proof (nthN_Some_lt _ _ _ Hn) as Hlt. rewrite lenN_app, lenN_one in Hlt.
    destruct (N.lt_ge_cases i (lenN es0)) as [Hi|Hi].
    + right. rewrite set_nth_app_l by exact Hi. exists (set_nth es0 i (k, x')), k0, x0, q, ke0.
      split; [reflexivity|]. split; [eapply ChainP_set; [exact Hc|exact Hi|exact Hq|exact Hk|exact Hx']|]. auto.
    + assert (i = lenN es0) by lia. subst i. rewrite set_nth_snoc.
      rewrite nthN_snoc in Hn. inversion Hn; subst k0 x0.
      rewrite (ChainP_end _ _ _ Hc) in Hq. inversion Hq; subst qi.
      rewrite Hk0 in Hk. inversion Hk; subst ke0.
      right. exists es0, k, x', q, ke. split; [reflexivity|]. split; [exact Hc|]. split; [exact Hk0|]. split; [exact Hx'|].
      split; [|reflexivity]. rewrite (Inv_comp _ _ _ Hx' Hx0). exact Hcomp.
Qed.

(** * Focus: the node at a path sits at the position the sequential decoder walks to *)
Notation step_pos := (SeqSpec.step_pos W trap bs true F).
Notation seq_pos := (SeqSpec.seq_pos W trap bs true F).
Notation pair_at := (SeqSpec.pair_at W trap bs true).

Lemma step_idx pos len p0 es e i : hdr pos = Ok (LArr len es p0, e) -> i < len -> step_pos pos (SIdx i) = skip_elems F i p0.
Proof. intros Hh Hi. unfold SeqSpec.step_pos. rewrite Hh. destruct (N.leb_spec len i); [lia|reflexivity]. Qed.

Lemma pair_strict q k ke x : key_at q = Ok (k, ke) -> Inv ke x -> pair_at q = Ok (k, ke).
Proof.
  intros Hk Hx. destruct (Inv_head _ _ Hx) as (v & e & Hh & _).
  eapply (pair_at_intro W trap bs true); [exact Hk|exact Hh].
Qed.

Lemma step_key pos len p0 es e i q k ke x : hdr pos = Ok (LObj len es p0, e) -> i < len ->
  skip_pairs F i p0 = Ok q -> key_at q = Ok (k, ke) -> Inv ke x -> step_pos pos (SKey i) = Ok q.
Proof.
  intros Hh Hi Hq Hk Hx. unfold SeqSpec.step_pos. rewrite Hh. destruct (N.leb_spec len i); [lia|].
  rewrite Hq, (pair_strict _ _ _ _ Hk Hx). reflexivity.
Qed.
Lemma step_val pos len p0 es e i q k ke x : hdr pos = Ok (LObj len es p0, e) -> i < len ->
  skip_pairs F i p0 = Ok q -> key_at q = Ok (k, ke) -> Inv ke x -> step_pos pos (SVal i) = Ok ke.
Proof.
  intros Hh Hi Hq Hk Hx. unfold SeqSpec.step_pos. rewrite Hh. destruct (N.leb_spec len i); [lia|].
  rewrite Hq, (pair_strict _ _ _ _ Hk Hx). reflexivity.
Qed.

Lemma seq_pos_cons pos s p : seq_pos pos (s :: p) =
  match step_pos pos s with Ok q => seq_pos q p | Err c => Err c | Panic s => Panic s | OutOfFuel => OutOfFuel end.
Proof. reflexivity. Qed.

Lemma Inv_key q k ke : key_at q = Ok (k, ke) -> Inv q k.
Proof. intros Hk. destruct (key_at_inv W trap bs Hnew _ _ _ Hk) as (Hh & _). eapply Inv_sc. exact Hh. Qed.

Lemma Inv_get : forall p pos r m, Inv pos r -> get_node r p = Some m ->
  exists q, seq_pos pos p = Ok q /\ Inv q m.
Proof.
  induction p as [|st p IH]; intros pos r m Hr Hg.
  - cbn in Hg. inversion Hg; subst. exists pos. split; [reflexivity|exact Hr].
  - destruct st as [i|i|i], r as [| | | |len es e|len es e]; cbn [get_node] in Hg; try discriminate.
    + destruct (nthN es i) as [c|] eqn:E; [|discriminate].
      destruct (Inv_arr_inv _ _ _ _ Hr) as (p0 & Hh & Hl & HI).
      destruct (InvL_nth _ _ _ HI _ _ E) as (qi & Hq & Hc).
      pose proof (nthN_Some_lt _ _ _ E) as Hlt.
      rewrite seq_pos_cons, (step_idx _ _ _ _ _ _ Hh) by lia. rewrite Hq. eapply IH; [exact Hc|exact Hg].
    + destruct (nthN es i) as [[k v]|] eqn:E; [|discriminate].
      destruct (Inv_obj_inv _ _ _ _ Hr) as (p0 & Hh & Hl & HI).
      destruct (InvP_nth _ _ _ HI _ _ _ E) as (qi & ke & Hq & Hk & Hv).
      pose proof (nthN_Some_lt _ _ _ E) as Hlt. assert (Hil : i < len) by lia.
      rewrite seq_pos_cons, (step_key _ _ _ _ _ _ _ _ _ _ Hh Hil Hq Hk Hv).
      eapply IH; [eapply Inv_key; exact Hk|exact Hg].
    + destruct (nthN es i) as [[k v]|] eqn:E; [|discriminate].
      destruct (Inv_obj_inv _ _ _ _ Hr) as (p0 & Hh & Hl & HI).
      destruct (InvP_nth _ _ _ HI _ _ _ E) as (qi & ke & Hq & Hk & Hv).
      pose proof (nthN_Some_lt _ _ _ E) as Hlt. assert (Hil : i < len) by lia.
      rewrite seq_pos_cons, (step_val _ _ _ _ _ _ _ _ _ _ Hh Hil Hq Hk Hv).
      eapply IH; [exact Hv|exact Hg].
Qed.

Lemma Inv_set : forall p pos r m q m', Inv pos r -> get_node r p = Some m -> is_comp m = true ->
  seq_pos pos p = Ok q -> Inv q m' -> Inv pos (set_node r p m').
Proof.
  induction p as [|st p IH]; intros pos r m q m' Hr Hg Hcm Hq Hm'.
  - cbn in Hq. inversion Hq; subst. exact Hm'.
  - destruct st as [i|i|i], r as [| | | |len es e|len es e]; cbn [get_node] in Hg; try discriminate; cbn [set_node].
    + destruct (nthN es i) as [c|] eqn:E; [|discriminate].
      destruct (Inv_arr_inv _ _ _ _ Hr) as (p0 & Hh & Hl & HI).
      destruct (InvL_nth _ _ _ HI _ _ E) as (qi & Hqi & Hc).
      pose proof (nthN_Some_lt _ _ _ E) as Hlt.
      rewrite seq_pos_cons, (step_idx _ _ _ _ _ _ Hh) in Hq by lia. rewrite Hqi in Hq.
      eapply Inv_arr; [exact Hh|rewrite lenN_set_nth; exact Hl|].
      eapply InvL_set; [exact HI|exact E|exact Hqi|]. eapply IH; [exact Hc|exact Hg|exact Hcm|exact Hq|exact Hm'].
    + destruct (nthN es i) as [[k v]|] eqn:E; [|discriminate].
      destruct (Inv_obj_inv _ _ _ _ Hr) as (p0 & Hh & Hl & HI).
      destruct (InvP_nth _ _ _ HI _ _ _ E) as (qi & ke & Hqi & Hk & Hv).
      destruct (key_at_str W trap bs Hnew _ _ _ Hk) as (kp & kl & -> & _).
      destruct p as [|s p]; cbn [get_node] in Hg.
      * inversion Hg; subst. discriminate.
      * destruct s; discriminate.
    + destruct (nthN es i) as [[k v]|] eqn:E; [|discriminate].
      destruct (Inv_obj_inv _ _ _ _ Hr) as (p0 & Hh & Hl & HI).
      destruct (InvP_nth _ _ _ HI _ _ _ E) as (qi & ke & Hqi & Hk & Hv).
      pose proof (nthN_Some_lt _ _ _ E) as Hlt. assert (Hil : i < len) by lia.
      rewrite seq_pos_cons, (step_val _ _ _ _ _ _ _ _ _ _ Hh Hil Hqi Hk Hv) in Hq.
      eapply Inv_obj; [exact Hh|rewrite lenN_set_nth; exact Hl|].
      eapply InvP_set; [exact HI|exact E|exact Hqi|exact Hk|]. eapply IH; [exact Hv|exact Hg|exact Hcm|exact Hq|exact Hm'].
Qed.

End Inv.
