(** Sequences of read calls executed on the REGENERATED reader code (Gen/LazyNewGen.v, Gen/LazyLoopsGen.v): the same
    forest-of-nodes-and-paths bookkeeping as Read/Lazy.v + Read/ReadRun.v (handles are paths; that part models the raw
    addresses of the Rust arena and stays hand-written), but every node operation -- decode a header, get an element / a key /
    a property, finish a child, the length, the string address -- is the TRANSLATED Rust function.  Definitions only. *)
From Coq Require Import NArith List Bool.
From SFV Require Import Base.Bytes Base.RsPrelude Read.Lazy Read.LazyTypes Gen.LazyNewGen Gen.LazyLoopsGen
  Read.LazyNewGenEq Read.ReadRun Read.ReadSafe.
Import ListNotations.
Open Scope N_scope.

Fixpoint g_get_node (n : LazyValueRef) (p : list pstep) : option LazyValueRef :=
  match p with
  | [] => Some n
  | s :: p' =>
      match s, n with
      | SIdx i, LazyValueRef_Array (mkArrayRef _ es _) => match nthN es i with Some c => g_get_node c p' | None => None end
      | SKey i, LazyValueRef_Object (mkObjectRef _ es _) => match nthN es i with Some (k, _) => g_get_node k p' | None => None end
      | SVal i, LazyValueRef_Object (mkObjectRef _ es _) => match nthN es i with Some (_, v) => g_get_node v p' | None => None end
      | _, _ => None
      end
  end.

Fixpoint g_set_node (n : LazyValueRef) (p : list pstep) (x : LazyValueRef) : LazyValueRef :=
  match p with
  | [] => x
  | s :: p' =>
      match s, n with
      | SIdx i, LazyValueRef_Array (mkArrayRef len es e) =>
          match nthN es i with Some c => LazyValueRef_Array (mkArrayRef len (set_nth es i (g_set_node c p' x)) e) | None => n end
      | SKey i, LazyValueRef_Object (mkObjectRef len es e) =>
          match nthN es i with Some (k, v) => LazyValueRef_Object (mkObjectRef len (set_nth es i (g_set_node k p' x, v)) e) | None => n end
      | SVal i, LazyValueRef_Object (mkObjectRef len es e) =>
          match nthN es i with Some (k, v) => LazyValueRef_Object (mkObjectRef len (set_nth es i (k, g_set_node v p' x)) e) | None => n end
      | _, _ => n
      end
  end.

Definition groots_t := list LazyValueRef.
Definition g_node_of (roots : groots_t) (h : handle) : option LazyValueRef :=
  match nthN roots (fst h) with Some r => g_get_node r (snd h) | None => None end.
Definition g_put_node (roots : groots_t) (h : handle) (x : LazyValueRef) : groots_t :=
  match nthN roots (fst h) with Some r => set_nth roots (fst h) (g_set_node r (snd h) x) | None => roots end.

(** [LazyValueRef::encode] on a translated node: the answer (hand-written: the pointer field is the handle) *)
Definition g_encode (h : handle) (v : LazyValueRef) : out := out_of_res (encode_node h (conv v)).

Section W.
Variable W : N.
Variable trap : bool.

(** the fuel handed to the translated functions: twice the model's, plus the two layers above the loops *)
Definition gfuel (bs : list N) : nat := (2 * fuel_bs bs + 2)%nat.

Definition g_input_get (bs : list N) (roots : groots_t) : groots_t * out :=
  match LazyValueRef_new W trap bs 0 with
  | GOk (ROk (v, _)) => (roots ++ [v], g_encode (lenN roots, []) v)
  | GOk (RErr c) => (roots, OVal (AErr c))
  | GPanic s => (roots, OPanic s)
  end.

(** [ObjectRef::get_property] returns a REFERENCE to the value of the pair it found; the translation returns the value. The handle
    of the answer is the address of that reference, i.e. the pair's position: it is the first processed pair whose key equals the
    name (the Rust function searches the processed pairs in order, then decodes further pairs until one matches).  Hand-written. *)
Definition g_prop_index (bs : list N) (name : list N) (v' : LazyValueRef) : option N :=
  match conv v' with
  | LObj _ elems _ => match find_processed bs name elems 0 with Ok (Some i) => Some i | _ => None end
  | _ => None
  end.

Definition g_get_obj_prop (bs : list N) (roots : groots_t) (sc : scope) (name : list N) : groots_t * out :=
  match sc with
  | SAns (AObj h _) =>
      match g_node_of roots h with
      | Some v =>
          match LazyValueRef_get_object_property W trap (gfuel bs) v name bs with
          | GOk (v', ROk (Some x)) =>
              match g_prop_index bs name v' with
              | Some i => (g_put_node roots h v', g_encode (child h (SVal i)) x)
              | None => (g_put_node roots h v', OPanic 0)
              end
          | GOk (v', ROk None) => (g_put_node roots h v', OVal ANull)
          | GOk (v', RErr c) => (g_put_node roots h v', OVal (AErr c))
          | GPanic s => (g_put_node roots h v, OPanic s)
          end
      | None => (roots, OVal (AErr E_NotAnObject))
      end
  | SAns _ => (roots, OVal (AErr E_NotAnObject))
  | SGarbage => (roots, OVal (AErr E_Decode))
  end.

Definition g_idx_step (v' : LazyValueRef) (idx : N) : pstep :=
  match v' with LazyValueRef_Array _ => SIdx idx | _ => SVal idx end.

Definition g_get_at_index (bs : list N) (roots : groots_t) (sc : scope) (idx : N) : groots_t * out :=
  match sc with
  | SAns (AArr h _) | SAns (AObj h _) =>
      match g_node_of roots h with
      | Some v =>
          match LazyValueRef_get_at_index W trap (gfuel bs) v idx bs with
          | GOk (v', ROk x) => (g_put_node roots h v', g_encode (child h (g_idx_step v' idx)) x)
          | GOk (v', RErr c) => (g_put_node roots h v', OVal (AErr c))
          | GPanic s => (g_put_node roots h v, OPanic s)
          end
      | None => (roots, OVal (AErr E_NotIndexable))
      end
  | SAns _ => (roots, OVal (AErr E_NotIndexable))
  | SGarbage => (roots, OVal (AErr E_Read))
  end.

Definition g_get_obj_key_at_index (bs : list N) (roots : groots_t) (sc : scope) (idx : N) : groots_t * out :=
  match sc with
  | SAns (AObj h _) =>
      match g_node_of roots h with
      | Some v =>
          match LazyValueRef_get_key_at_index W trap (gfuel bs) v idx bs with
          | GOk (v', ROk x) => (g_put_node roots h v', g_encode (child h (SKey idx)) x)
          | GOk (v', RErr c) => (g_put_node roots h v', OVal (AErr c))
          | GPanic s => (g_put_node roots h v, OPanic s)
          end
      | None => (roots, OVal (AErr E_NotAnObject))
      end
  | SAns _ => (roots, OVal (AErr E_NotAnObject))
  | SGarbage => (roots, OVal (AErr E_Read))
  end.

Definition g_get_val_len (roots : groots_t) (sc : scope) : out :=
  match sc with
  | SAns (AStr h _) | SAns (AArr h _) | SAns (AObj h _) =>
      match g_node_of roots h with
      | Some v => match LazyValueRef_get_value_length W trap 1 v with GOk n => OLen (Some n) | GPanic s => OPanic s end
      | None => OLen None
      end
  | _ => OLen None
  end.

(** the address query followed by the read of [len] bytes from it (the address of a string is the input's base plus the offset
    the translated function returns; a node that is not a string answers the null address) *)
Definition g_read_str (bs : list N) (roots : groots_t) (sc : scope) (len : N) : out :=
  match sc with
  | SAns (AStr h _) =>
      match g_node_of roots h with
      | Some (LazyValueRef_String _ as v) =>
          match LazyValueRef_get_utf8_str_addr W trap 1 v bs with
          | GOk ptr => if lenN bs <? ptr + len then OStray else OBytes (Some (sub bs ptr len))
          | GPanic s => OPanic s
          end
      | _ => OBytes None
      end
  | _ => OBytes None
  end.

Record gstate := { groots : groots_t; gouts : list out }.
Definition ginit : gstate := {| groots := []; gouts := [] |}.
Definition g_scope_of (st : gstate) (sc : option N) : scope :=
  match sc with
  | None => SGarbage
  | Some k => match nthN (gouts st) k with Some (OVal a) => SAns a | _ => SGarbage end
  end.

Definition g_exec (bs : list N) (st : gstate) (op : rop) : gstate :=
  let '(r', o) :=
    match op with
    | RRoot => g_input_get bs (groots st)
    | RProp sc name => g_get_obj_prop bs (groots st) (g_scope_of st sc) name
    | RIdx sc i => g_get_at_index bs (groots st) (g_scope_of st sc) i
    | RKey sc i => g_get_obj_key_at_index bs (groots st) (g_scope_of st sc) i
    | RLen sc => (groots st, g_get_val_len (groots st) (g_scope_of st sc))
    | RStr sc => (groots st, g_read_str bs (groots st) (g_scope_of st sc) (answer_len (g_scope_of st sc)))
    end in
  {| groots := r'; gouts := gouts st ++ [o] |}.

Definition g_run (bs : list N) (ops : list rop) : gstate := fold_left (g_exec bs) ops ginit.

(** panics are compared up to the site (the two sides name their panic sites differently) *)
Definition out_sim (g h : out) : Prop :=
  match g, h with
  | OPanic _, OPanic _ => True
  | _, _ => g = h
  end.

End W.
