(** Hand-written support for the T8 translation of provider/src/read/lazy_value_ref.rs (Gen/LazyNewGen.v):
    - the data types of the lazy reader as the Rust source declares them ([LazyValueRef], [StringRef],
      [ArrayRef], [ObjectRef]; recursive through [Vec], which translators/rs2v does not emit itself);
    - a model of [rmp::Marker] and [Marker::from_u8] (rmp 0.8.15, an external crate: modelled, like the
      encoders of Msgpack/Rmp.v).  The variants the reader does not distinguish (Reserved, the Bin, Ext and FixExt families)
      are one constructor [Marker_Other]; [FixMap(n & 0x0f)], [FixArray(n & 0x0f)], [FixStr(n & 0x1f)] are
      written with the equivalent subtraction; [FixNeg(n as i8)] is [n - 256]. *)
From Coq Require Import NArith ZArith List Bool.
From SFV Require Import Base.Bytes.
Import ListNotations.
Open Scope N_scope.

Inductive Marker :=
| Marker_Null | Marker_True | Marker_False
| Marker_FixPos (n : N) | Marker_FixNeg (n : Z)
| Marker_U8 | Marker_U16 | Marker_U32 | Marker_U64
| Marker_I8 | Marker_I16 | Marker_I32 | Marker_I64
| Marker_F32 | Marker_F64
| Marker_FixStr (n : N) | Marker_Str8 | Marker_Str16 | Marker_Str32
| Marker_FixArray (n : N) | Marker_Array16 | Marker_Array32
| Marker_FixMap (n : N) | Marker_Map16 | Marker_Map32
| Marker_Other.

(** [Marker::from_u8] *)
Definition marker_of_u8 (m : N) : Marker :=
  if m <? 0x80 then Marker_FixPos m
  else if m <? 0x90 then Marker_FixMap (m - 0x80)
  else if m <? 0xa0 then Marker_FixArray (m - 0x90)
  else if m <? 0xc0 then Marker_FixStr (m - 0xa0)
  else if m =? 0xc0 then Marker_Null
  else if m =? 0xc2 then Marker_False
  else if m =? 0xc3 then Marker_True
  else if m =? 0xca then Marker_F32
  else if m =? 0xcb then Marker_F64
  else if m =? 0xcc then Marker_U8
  else if m =? 0xcd then Marker_U16
  else if m =? 0xce then Marker_U32
  else if m =? 0xcf then Marker_U64
  else if m =? 0xd0 then Marker_I8
  else if m =? 0xd1 then Marker_I16
  else if m =? 0xd2 then Marker_I32
  else if m =? 0xd3 then Marker_I64
  else if m =? 0xd9 then Marker_Str8
  else if m =? 0xda then Marker_Str16
  else if m =? 0xdb then Marker_Str32
  else if m =? 0xdc then Marker_Array16
  else if m =? 0xdd then Marker_Array32
  else if m =? 0xde then Marker_Map16
  else if m =? 0xdf then Marker_Map32
  else if 0xe0 <=? m then Marker_FixNeg (Z.of_N m - 256)
  else Marker_Other.

Inductive StringRef := mkStringRef (ptr len : N).

Inductive LazyValueRef :=
| LazyValueRef_Null
| LazyValueRef_Bool (b : bool)
| LazyValueRef_Number (bits : N)
| LazyValueRef_String (s : StringRef)
| LazyValueRef_Array (a : ArrayRef)
| LazyValueRef_Object (o : ObjectRef)
with ArrayRef := mkArrayRef (len : N) (processed_elements : list LazyValueRef) (end_position_of_last_processed_element : N)
with ObjectRef := mkObjectRef (len : N) (processed_elements : list (LazyValueRef * LazyValueRef)) (end_position_of_last_processed_element : N).

(** field accessors and functional updates, named as translators/rs2v names those of the records it emits itself *)
Definition StringRef_ptr (s : StringRef) : N := match s with mkStringRef p _ => p end.
Definition StringRef_len (s : StringRef) : N := match s with mkStringRef _ l => l end.
Definition ArrayRef_len (a : ArrayRef) : N := match a with mkArrayRef l _ _ => l end.
Definition ArrayRef_processed_elements (a : ArrayRef) : list LazyValueRef := match a with mkArrayRef _ es _ => es end.
Definition ArrayRef_end_position_of_last_processed_element (a : ArrayRef) : N := match a with mkArrayRef _ _ e => e end.
Definition ArrayRef_set_processed_elements (a : ArrayRef) (v : list LazyValueRef) : ArrayRef :=
  mkArrayRef (ArrayRef_len a) v (ArrayRef_end_position_of_last_processed_element a).
Definition ArrayRef_set_end_position_of_last_processed_element (a : ArrayRef) (v : N) : ArrayRef :=
  mkArrayRef (ArrayRef_len a) (ArrayRef_processed_elements a) v.
Definition ObjectRef_len (o : ObjectRef) : N := match o with mkObjectRef l _ _ => l end.
Definition ObjectRef_processed_elements (o : ObjectRef) : list (LazyValueRef * LazyValueRef) := match o with mkObjectRef _ es _ => es end.
Definition ObjectRef_end_position_of_last_processed_element (o : ObjectRef) : N := match o with mkObjectRef _ _ e => e end.
Definition ObjectRef_set_processed_elements (o : ObjectRef) (v : list (LazyValueRef * LazyValueRef)) : ObjectRef :=
  mkObjectRef (ObjectRef_len o) v (ObjectRef_end_position_of_last_processed_element o).
Definition ObjectRef_set_end_position_of_last_processed_element (o : ObjectRef) (v : N) : ObjectRef :=
  mkObjectRef (ObjectRef_len o) (ObjectRef_processed_elements o) v.
