(** The strict sequential decoder (which the reader equals) refines the NATURAL one: whenever the
    strict answer carries information (is not an error value) the natural decoder gives the same
    answer.  Pure facts about [SeqSpec]; no hypothesis on the bytes. *)
From Coq Require Import NArith ZArith Lia List Bool.
From SFV Require Import Base.Bytes Base.F64 Read.Lazy Read.ReadRun Read.ReadSpec Read.ReadSafe Read.SeqSpec.
Import ListNotations.
Open Scope N_scope.

Section Nat.
Variable W : N.
Variable trap : bool.
Variable bs : list N.

Notation hdr := (SeqSpec.hdr W trap bs).
Notation key_at := (SeqSpec.key_at W trap bs).
Notation skip := (SeqSpec.skip W trap bs).
Notation pair_at := (SeqSpec.pair_at W trap bs).
Notation step_pos := (SeqSpec.step_pos W trap bs).
Notation seq_pos := (SeqSpec.seq_pos W trap bs).
Notation seq_at := (SeqSpec.seq_at W trap bs).
Notation seq_find := (SeqSpec.seq_find W trap bs).
Notation child_ans := (SeqSpec.child_ans W trap bs).
Notation seq_exec := (SeqSpec.seq_exec W trap bs).

Lemma pair_at_nat q x : pair_at true q = Ok x -> pair_at false q = Ok x.
Proof.
  unfold SeqSpec.pair_at. destruct (key_at q) as [[k ke]|c|s|]; try discriminate.
  destruct (hdr ke) as [[v e]|c|s|]; try discriminate. auto.
Qed.

Lemma step_pos_nat f pos s q : step_pos true f pos s = Ok q -> step_pos false f pos s = Ok q.
Proof.
  unfold SeqSpec.step_pos. destruct (hdr pos) as [[v e]|c|s0|]; try discriminate.
  destruct s as [i|i|i], v as [| | | |len es p|len es p]; try discriminate; auto.
  - destruct (len <=? i); [discriminate|]. destruct (SeqSpec.skip_pairs W trap bs f i p) as [q0|c|s0|]; try discriminate.
    destruct (pair_at true q0) as [x|c|s0|] eqn:E; try discriminate. rewrite (pair_at_nat _ _ E). auto.
  - destruct (len <=? i); [discriminate|]. destruct (SeqSpec.skip_pairs W trap bs f i p) as [q0|c|s0|]; try discriminate.
    destruct (pair_at true q0) as [x|c|s0|] eqn:E; try discriminate. rewrite (pair_at_nat _ _ E). auto.
Qed.

Lemma seq_pos_nat f : forall p pos q, seq_pos true f pos p = Ok q -> seq_pos false f pos p = Ok q.
Proof.
  induction p as [|s p IH]; intros pos q H; [exact H|].
  cbn [SeqSpec.seq_pos] in *. destruct (step_pos true f pos s) as [q0|c|s0|] eqn:E; try discriminate.
  rewrite (step_pos_nat _ _ _ _ E). apply IH. exact H.
Qed.

Lemma seq_at_nat f pos p v : seq_at true f pos p = Ok v -> seq_at false f pos p = Ok v.
Proof.
  unfold SeqSpec.seq_at. destruct (seq_pos true f pos p) as [q|c|s|] eqn:E; try discriminate.
  rewrite (seq_pos_nat _ _ _ _ E). auto.
Qed.

Lemma child_ans_nat f h q s a : child_ans true f h q s = Ok a -> child_ans false f h q s = Ok a.
Proof.
  unfold SeqSpec.child_ans. destruct (step_pos true f q s) as [q0|c|s0|] eqn:E; try discriminate.
  rewrite (step_pos_nat _ _ _ _ E). auto.
Qed.

Lemma seq_find_nat name : forall f n i pos x,
  seq_find true f name n i pos = Ok x -> seq_find false f name n i pos = Ok x.
Proof.
  induction f as [|f IH]; intros n i pos x H; [discriminate|].
  cbn [SeqSpec.seq_find] in *. destruct (n =? 0); [exact H|].
  destruct (pair_at true pos) as [[k ke]|c|s|] eqn:E; try discriminate. rewrite (pair_at_nat _ _ E).
  destruct k; try discriminate. destruct (beq (sub bs ptr len) name); [exact H|]. destruct (n =? 1); [exact H|].
  destruct (skip f ke) as [e|c|s|]; try discriminate. apply IH. exact H.
Qed.

Lemma out_of_res_informative (r : res answer) : informative (out_of_res r) = true -> exists a, r = Ok a.
Proof. destruct r as [a|c|s|]; cbn; try discriminate. eauto. Qed.

(** one call: an informative strict answer is the natural decoder's answer *)
Theorem seq_exec_nat f prev k op :
  informative (seq_exec true f prev k op) = true ->
  seq_exec false f prev k op = seq_exec true f prev k op.
Proof.
  destruct op as [|sc name|sc i|sc i|sc|sc]; cbn [SeqSpec.seq_exec].
  - reflexivity.
  - destruct (sscope prev sc) as [[| | |h n|h n|h n|e]|]; try reflexivity.
    destruct (seq_pos true f 0 (snd h)) as [q|c|s|] eqn:Eq; try discriminate.
    rewrite (seq_pos_nat _ _ _ _ Eq).
    destruct (hdr q) as [[[| | | |len es p|len es p] e]|c|s|]; try reflexivity.
    destruct (seq_find true f name len 0 p) as [x|c|s|] eqn:Ef; try discriminate.
    rewrite (seq_find_nat _ _ _ _ _ _ Ef). destruct x as [i|]; [|reflexivity].
    intros H. destruct (out_of_res_informative _ H) as [a Ha]. rewrite Ha, (child_ans_nat _ _ _ _ _ Ha). reflexivity.
  - destruct (sscope prev sc) as [[| | |h n|h n|h n|e]|]; try reflexivity;
      (destruct (seq_pos true f 0 (snd h)) as [q|c|s|] eqn:Eq; try discriminate);
      rewrite (seq_pos_nat _ _ _ _ Eq);
      (destruct (hdr q) as [[[| | | |len es p|len es p] e]|c|s|]; try reflexivity);
      intros H; destruct (out_of_res_informative _ H) as [a Ha]; rewrite Ha, (child_ans_nat _ _ _ _ _ Ha); reflexivity.
  - destruct (sscope prev sc) as [[| | |h n|h n|h n|e]|]; try reflexivity.
    destruct (seq_pos true f 0 (snd h)) as [q|c|s|] eqn:Eq; try discriminate.
    rewrite (seq_pos_nat _ _ _ _ Eq).
    destruct (hdr q) as [[[| | | |len es p|len es p] e]|c|s|]; try reflexivity.
    intros H. destruct (out_of_res_informative _ H) as [a Ha]. rewrite Ha, (child_ans_nat _ _ _ _ _ Ha). reflexivity.
  - destruct (sscope prev sc) as [[| | |h n|h n|h n|e]|]; try reflexivity;
      (destruct (seq_at true f 0 (snd h)) as [v|c|s|] eqn:Ea; try discriminate);
      rewrite (seq_at_nat _ _ _ _ Ea); reflexivity.
  - destruct (sscope prev sc) as [[| | |h n|h n|h n|e]|]; try reflexivity.
    destruct (seq_at true f 0 (snd h)) as [v|c|s|] eqn:Ea; try discriminate.
    rewrite (seq_at_nat _ _ _ _ Ea). reflexivity.
Qed.

(** one call depends on the history only through the VALUE of its scope (and, for a root fetch,
    the number of roots fetched so far, which only numbers the new handle) *)
Lemma seq_exec_scope strict f prev1 prev2 k1 k2 op :
  sscope prev1 (op_scope op) = sscope prev2 (op_scope op) -> (is_root op = true -> k1 = k2) ->
  seq_exec strict f prev1 k1 op = seq_exec strict f prev2 k2 op.
Proof.
  destruct op as [|sc name|sc i|sc i|sc|sc]; cbn [SeqSpec.seq_exec op_scope is_root]; intros H Hk;
    try (rewrite H; reflexivity). rewrite (Hk eq_refl). reflexivity.
Qed.

End Nat.
