(** The GENERATED translations of [ArrayRef::get_at_index] and [ObjectRef::get_at_index] (Gen/LazyLoopsGen.v, from
    provider/src/read/lazy_value_ref.rs) against the hand-written model [arr_get] / [obj_get] of Read/Lazy.v.

    The statements are those of Read/LazyLoopsStmt.v, parametrised by the constant [k] of the fuel bound
    [2 * f + k <= g] (hand fuel [f], generated fuel [g]); [k = 2] is [enough] of LazyLoopsStmt.v.  The premise is the
    corresponding statement for [LazyValueRef::finish_processing] (proved elsewhere) at the same [k]; [1 <= k] is
    what the two functions of this file need (each generated layer eats one unit the hand model does not:
    [get_at_index g] runs its loop with [g - 1], the loop at [S g'] calls [finish_processing] with [g'] where the
    hand loop at [S f'] calls [finish f']). *)
From Coq Require Import NArith ZArith Lia List Bool Arith ZifyNat ZifyN ZifyBool.
From SFV Require Import Base.Bytes Base.RsPrelude Base.BytesProofs Gen.NanBoxGen Read.Lazy Read.LazyTypes Gen.LazyNewGen Gen.LazyLoopsGen
  Read.LazyNewGenEq Read.ReadRobust Read.LazyLoopsStmt.
Import ListNotations.
Open Scope N_scope.

(** * The statements with the constant of the fuel bound as a parameter *)
(** at [k = 2] they are the statements of LazyLoopsStmt.v *)
Lemma finish_eq_stmt_k_2 W trap bs : finish_eq_stmt_k 2 W trap bs = finish_eq_stmt W trap bs.
Proof. reflexivity. Qed.
Lemma arr_get_eq_stmt_k_2 W trap bs : arr_get_eq_stmt_k 2 W trap bs = arr_get_eq_stmt W trap bs.
Proof. reflexivity. Qed.
Lemma obj_get_eq_stmt_k_2 W trap bs : obj_get_eq_stmt_k 2 W trap bs = obj_get_eq_stmt W trap bs.
Proof. reflexivity. Qed.

(** * Lists *)
Lemma lenN_map {A B} (f : A -> B) l : lenN (map f l) = lenN l.
Proof. unfold lenN. rewrite map_length. reflexivity. Qed.
Lemma map_snoc {A B} (f : A -> B) l x : map f (l ++ [x]) = map f l ++ [f x].
Proof. rewrite map_app. reflexivity. Qed.
Lemma vec_last_nil {A} : vec_last (@nil A) = None.
Proof. reflexivity. Qed.
Lemma vec_last_snoc {A} (l : list A) x : vec_last (l ++ [x]) = Some x.
Proof. exact (r_last_opt_snoc l x). Qed.
Lemma vec_upd_last_snoc {A} (l : list A) x y : vec_upd_last (l ++ [x]) y = l ++ [y].
Proof. exact (r_upd_last_snoc l x y). Qed.
Lemma vec_last_In {A} (l : list A) x : vec_last l = Some x -> In x l.
Proof.
  destruct (r_snoc_cases l) as [->|(l0 & y & ->)]; [discriminate|].
  rewrite vec_last_snoc. intros E. injection E as <-. apply in_or_app. right. left. reflexivity.
Qed.
(** a vector of [n + 1] elements: its last element is the one at index [n] *)
Lemma vec_last_nth {A} (l : list A) n : lenN l = n + 1 -> exists x, vec_last l = Some x /\ nthN l n = Some x.
Proof.
  destruct (r_snoc_cases l) as [->|(l0 & y & ->)]; intros H.
  - rewrite lenN_nil in H. lia.
  - rewrite lenN_app, lenN_one in H. exists y. split; [apply vec_last_snoc|].
    replace n with (lenN l0) by lia. apply nthN_snoc.
Qed.

Lemma fla_nil fin e : finish_last_arr fin [] e = ([], e, Ok tt).
Proof. reflexivity. Qed.
Lemma fla_snoc fin es0 x e : finish_last_arr fin (es0 ++ [x]) e =
  let '(x', r) := fin x in
  match r with
  | Ok (Some e') => (es0 ++ [x'], e', Ok tt)
  | Ok None => (es0 ++ [x'], e, Ok tt)
  | Err c => (es0 ++ [x'], e, Err c)
  | Panic s => (es0 ++ [x'], e, Panic s)
  | OutOfFuel => (es0 ++ [x'], e, OutOfFuel)
  end.
Proof.
  unfold finish_last_arr. rewrite r_last_opt_snoc. destruct (fin x) as [x' r]. rewrite r_upd_last_snoc. reflexivity.
Qed.
Lemma flo_nil fin e : finish_last_obj fin [] e = ([], e, Ok tt).
Proof. reflexivity. Qed.
Lemma flo_snoc fin es0 k x e : finish_last_obj fin (es0 ++ [(k, x)]) e =
  let '(x', r) := fin x in
  match r with
  | Ok (Some e') => (es0 ++ [(k, x')], e', Ok tt)
  | Ok None => (es0 ++ [(k, x')], e, Ok tt)
  | Err c => (es0 ++ [(k, x')], e, Err c)
  | Panic s => (es0 ++ [(k, x')], e, Panic s)
  | OutOfFuel => (es0 ++ [(k, x')], e, OutOfFuel)
  end.
Proof.
  unfold finish_last_obj. rewrite r_last_opt_snoc. destruct (fin x) as [x' r]. rewrite r_upd_last_snoc. reflexivity.
Qed.

Lemma is_str_conv v : is_str (conv v) = match v with LazyValueRef_String _ => true | _ => false end.
Proof. destruct v as [| | |[? ?]|[? ? ?]|[? ? ?]]; reflexivity. Qed.

Ltac arr_norm :=
  unfold ArrayRef_set_end_position_of_last_processed_element, ArrayRef_set_processed_elements;
  cbn [ArrayRef_len ArrayRef_processed_elements ArrayRef_end_position_of_last_processed_element].
Ltac obj_norm :=
  unfold ObjectRef_set_end_position_of_last_processed_element, ObjectRef_set_processed_elements;
  cbn [ObjectRef_len ObjectRef_processed_elements ObjectRef_end_position_of_last_processed_element].

Section Get.
Variable W : N.
Variable trap : bool.
Variable bs : list N.
Variable k : nat.
Notation L := (lenN bs).
Hypothesis Hk : (1 <= k)%nat.
Hypothesis Hin : input_ok W bs.
Hypothesis Hfin : finish_eq_stmt_k k W trap bs.

Lemma new_eq pos : same_res (LazyValueRef_new W trap bs pos) (lz_new W trap bs pos).
Proof. destruct Hin as (Hb & HW & H32). apply lazy_new_eq; assumption. Qed.

Lemma new_sane_in pos v e : lz_new W trap bs pos = Ok (v, e) -> sane L pos v.
Proof.
  intros E. destruct Hin as (Hb & HW & H32).
  assert (HL : L < 2 ^ W) by lia.
  pose proof (lz_new_sane W trap bs HL Hb pos) as H. rewrite E in H. exact (proj1 H).
Qed.

(** ** [ArrayRef::get_at_index] *)

(** the three copies of the tail of the generated loop body ([LazyValueRef::new] at the end position, push, next iteration) *)
Definition arr_tail (g : nat) (cnt : N) (self : ArrayRef) : gres (lctl (ArrayRef * rres LazyValueRef) ArrayRef) :=
  gbind (LazyValueRef_new W trap bs (ArrayRef_end_position_of_last_processed_element self)) (fun r =>
    match r with RErr ec => GOk (LRet (self, RErr ec)) | ROk q =>
      let '(lazy_value, end_position) := q in
      match end_position with
      | Some end_position =>
         let self := ArrayRef_set_end_position_of_last_processed_element self end_position in
         let self := ArrayRef_set_processed_elements self (ArrayRef_processed_elements self ++ [lazy_value]) in
         ArrayRef_get_at_index_loop1 W trap g (cnt - 1) bs self
      | None =>
         let self := ArrayRef_set_processed_elements self (ArrayRef_processed_elements self ++ [lazy_value]) in
         ArrayRef_get_at_index_loop1 W trap g (cnt - 1) bs self
      end end).

Lemma arr_loop_S g cnt self : ArrayRef_get_at_index_loop1 W trap (S g) cnt bs self =
  if cnt =? 0 then GOk (LNext self) else
  match vec_last (ArrayRef_processed_elements self) with
  | Some last =>
     gbind (LazyValueRef_finish_processing W trap g last bs) (fun '(o, r) =>
       let self1 := ArrayRef_set_processed_elements self (vec_upd_last (ArrayRef_processed_elements self) o) in
       match r with RErr ec => GOk (LRet (self1, RErr ec)) | ROk q =>
         match q with
         | Some e => arr_tail g cnt (ArrayRef_set_end_position_of_last_processed_element self1 e)
         | None => arr_tail g cnt self1
         end end)
  | None => arr_tail g cnt self
  end.
Proof. reflexivity. Qed.

Lemma arr_get_S g self index : ArrayRef_get_at_index W trap (S g) self index bs =
  if ArrayRef_len self <=? index then GOk (self, RErr (EC_IndexOutOfBounds W)) else
  if index <? lenN (ArrayRef_processed_elements self) then
    gbind (vec_index (ArrayRef_processed_elements self) index) (fun el => GOk (self, ROk el))
  else
    gbind (u_add W trap index 1) (fun a2 =>
      gbind (u_sub W trap a2 (lenN (ArrayRef_processed_elements self))) (fun count =>
        match ArrayRef_get_at_index_loop1 W trap g count bs self with
        | GPanic s => GPanic s
        | GOk (LRet r) => GOk r
        | GOk (LNext self) =>
            gbind (opt_unwrap (vec_last (ArrayRef_processed_elements self))) (fun uw => GOk (self, ROk uw))
        end)).
Proof. reflexivity. Qed.

(** the tail of the hand loop body *)
Definition arr_htail (f : nat) (elems1 : list lz) (endp1 idx : N) : list lz * N * res unit :=
  match lz_new W trap bs endp1 with
  | Ok (v, e0) =>
      let endp2 := match e0 with Some e => e | None => endp1 end in
      arr_get_loop W trap f bs (elems1 ++ [v]) endp2 idx
  | Err c => (elems1, endp1, Err c)
  | Panic s => (elems1, endp1, Panic s)
  | OutOfFuel => (elems1, endp1, OutOfFuel)
  end.

Lemma h_arr_loop_S f elems endp idx : arr_get_loop W trap (S f) bs elems endp idx =
  if idx <? lenN elems then (elems, endp, Ok tt) else
  let '(elems1, endp1, r) := finish_last_arr (finish W trap f bs) elems endp in
  match r with
  | Ok _ => arr_htail f elems1 endp1 idx
  | r' => (elems1, endp1, r')
  end.
Proof. reflexivity. Qed.

(** the generated loop against the hand loop *)
Definition arr_loop_rel (len idx : N) (g : gres (lctl (ArrayRef * rres LazyValueRef) ArrayRef))
  (h : list lz * N * res unit) : Prop :=
  let '(es', e', r) := h in
  match g with
  | GPanic site => site <> P_fuel /\ is_panic r
  | GOk (LRet (s', RErr c)) => conv_arr s' = LArr len es' e' /\ r = Err c
  | GOk (LRet (s', ROk _)) => False
  | GOk (LNext s') => conv_arr s' = LArr len es' e' /\ r = Ok tt /\ lenN (ArrayRef_processed_elements s') = idx + 1
  end.

Definition last_sane (es : list LazyValueRef) : Prop :=
  forall x, vec_last es = Some x -> exists p, sane L p (conv x).

Definition arr_loop_P (f : nat) : Prop := forall len es e idx cnt g,
  lenN es + cnt = idx + 1 -> last_sane es ->
  snd (arr_get_loop W trap f bs (map conv es) e idx) <> OutOfFuel ->
  (2 * f + k <= S g)%nat ->
  arr_loop_rel len idx (ArrayRef_get_at_index_loop1 W trap g cnt bs (mkArrayRef len es e))
    (arr_get_loop W trap f bs (map conv es) e idx).

Lemma conv_arr_mk len es e : conv_arr (mkArrayRef len es e) = LArr len (map conv es) e.
Proof. reflexivity. Qed.

Lemma arr_tail_eq f : arr_loop_P f -> forall len es1 e1 idx cnt g,
  cnt <> 0 -> lenN es1 + cnt = idx + 1 ->
  snd (arr_htail f (map conv es1) e1 idx) <> OutOfFuel ->
  (2 * f + k <= S g)%nat ->
  arr_loop_rel len idx (arr_tail g cnt (mkArrayRef len es1 e1)) (arr_htail f (map conv es1) e1 idx).
Proof.
  intros IH len es1 e1 idx cnt g Hc Hcnt Hnf Hg. revert Hnf.
  unfold arr_tail, arr_htail. cbn [ArrayRef_end_position_of_last_processed_element].
  pose proof (new_eq e1) as Hn.
  destruct (lz_new W trap bs e1) as [[v e0]|c'|s'|] eqn:El;
    destruct (LazyValueRef_new W trap bs e1) as [[[lv ep]|c]|s]; cbn [same_res] in Hn; try contradiction.
  - destruct Hn as [Hv He]. subst v ep. cbv zeta. cbn [gbind]. rewrite <- map_snoc.
    assert (Hls : last_sane (es1 ++ [lv])).
    { intros x Hx. rewrite vec_last_snoc in Hx. injection Hx as <-. exists e1. eapply new_sane_in. exact El. }
    assert (Hc' : lenN (es1 ++ [lv]) + (cnt - 1) = idx + 1) by (rewrite lenN_app, lenN_one; lia).
    destruct e0 as [e0|]; intros Hnf;
      arr_norm;
      apply IH; assumption.
  - subst c'. intros _. cbn [gbind arr_loop_rel]. split; reflexivity.
Qed.

Lemma arr_loop_eq : forall f, arr_loop_P f.
Proof.
  induction f as [|f IH]; intros len es e idx cnt g Hcnt Hls Hnf Hg.
  - exfalso. apply Hnf. reflexivity.
  - destruct g as [|g]; [lia|]. assert (Hg' : (2 * f + k <= g)%nat) by lia.
    assert (Hg'' : (2 * f + k <= S g)%nat) by lia.
    revert Hnf. rewrite arr_loop_S, h_arr_loop_S. cbn [ArrayRef_processed_elements]. rewrite lenN_map.
    destruct (N.eqb_spec cnt 0) as [Hc|Hc].
    { replace (idx <? lenN es) with true by (symmetry; apply N.ltb_lt; lia).
      intros _. cbn [arr_loop_rel ArrayRef_processed_elements]. repeat split. lia. }
    replace (idx <? lenN es) with false by (symmetry; apply N.ltb_ge; lia).
    destruct (r_snoc_cases es) as [->|(es0 & x & ->)].
    + rewrite vec_last_nil. cbn [map]. rewrite fla_nil. intros Hnf.
      apply (arr_tail_eq f IH len [] e idx cnt g); assumption.
    + rewrite vec_last_snoc, map_snoc, fla_snoc.
      destruct (Hls x (vec_last_snoc es0 x)) as [p Hsx].
      pose proof (Hfin f x p Hsx) as Hs.
      destruct (finish W trap f bs (conv x)) as [x' r] eqn:Ef. cbn [snd] in Hs.
      destruct r as [q'|c'|s'|].
      4:{ intros Hnf. exfalso. apply Hnf. reflexivity. }
      all: specialize (Hs ltac:(discriminate) g Hg');
        destruct (LazyValueRef_finish_processing W trap g x bs) as [[o [q|c]]|site];
        cbn [sim fst snd rel_res is_panic] in Hs; try (destruct Hs as [Ho Hr]); try contradiction;
        cbn [gbind]; cbv zeta;
        arr_norm;
        rewrite ?vec_upd_last_snoc.
      * (* both finished *)
        subst q' x'. rewrite <- map_snoc.
        assert (Hc' : lenN (es0 ++ [o]) + cnt = idx + 1) by (rewrite lenN_app, lenN_one in *; lia).
        destruct q as [e'|]; intros Hnf; apply (arr_tail_eq f IH); assumption.
      * (* error in finish_processing *)
        subst c' x'. intros _. cbn [arr_loop_rel]. rewrite conv_arr_mk, map_snoc. split; reflexivity.
      * (* panic *)
        intros _. cbn [arr_loop_rel is_panic]. split; [exact Ho|exact I].
Qed.

Theorem arr_get_eq_k_sec : arr_get_eq_stmt_k k W trap bs.
Proof.
  intros f len es e idx p Hs Hlen Hnf g Hg.
  destruct g as [|g]; [lia|]. revert Hnf.
  rewrite arr_get_S. unfold arr_get. cbn [ArrayRef_len ArrayRef_processed_elements].
  destruct (N.leb_spec len idx) as [Hle|Hlt].
  { intros _. cbn [sim fst snd rel_res]. split; reflexivity. }
  destruct (N.ltb_spec idx (lenN es)) as [Hi|Hi].
  { destruct f as [|f]; [intros Hnf; exfalso; apply Hnf; reflexivity|].
    rewrite h_arr_loop_S, lenN_map. replace (idx <? lenN es) with true by (symmetry; apply N.ltb_lt; lia).
    intros _. destruct (nthN_lt_Some es idx Hi) as [x Hx]. unfold vec_index. rewrite Hx.
    cbn [gbind sim fst snd rel_res ArrayRef_processed_elements]. split; [reflexivity|exact Hx]. }
  unfold u_add. cbv zeta. replace (idx + 1 <? 2 ^ W) with true by (symmetry; apply N.ltb_lt; lia).
  cbn [gbind]. unfold u_sub. replace (lenN es <=? idx + 1) with true by (symmetry; apply N.leb_le; lia).
  cbn [gbind]. intros Hnf.
  assert (Hls : last_sane es).
  { intros x Hx. exists (p + 1). destruct (sane_arr_inv _ _ _ _ _ Hs) as (_ & _ & _ & Hall).
    rewrite Forall_forall in Hall. apply Hall. apply in_map. apply vec_last_In. exact Hx. }
  assert (Hnf' : snd (arr_get_loop W trap f bs (map conv es) e idx) <> OutOfFuel).
  { destruct (arr_get_loop W trap f bs (map conv es) e idx) as [[? ?] ?]. exact Hnf. }
  pose proof (arr_loop_eq f len es e idx (idx + 1 - lenN es) g ltac:(lia) Hls Hnf' ltac:(lia)) as Hrel.
  destruct (arr_get_loop W trap f bs (map conv es) e idx) as [[es' e'] r].
  destruct (ArrayRef_get_at_index_loop1 W trap g (idx + 1 - lenN es) bs (mkArrayRef len es e))
    as [[[s' [x|c]]|s']|site]; cbn [arr_loop_rel] in Hrel.
  - contradiction.
  - destruct Hrel as [Hc Hr]. subst r. cbn [sim fst snd rel_res]. split; [exact Hc|reflexivity].
  - destruct Hrel as (Hc & Hr & Hl). subst r.
    destruct (vec_last_nth _ _ Hl) as (x & Hx1 & Hx2). rewrite Hx1.
    cbn [opt_unwrap gbind sim fst snd rel_res]. split; [exact Hc|exact Hx2].
  - cbn [sim snd]. exact Hrel.
Qed.

(** ** [ObjectRef::get_at_index] *)
Definition obj_tail (g : nat) (cnt : N) (self : ObjectRef)
  : gres (lctl (ObjectRef * rres (LazyValueRef * LazyValueRef)) ObjectRef) :=
  gbind (LazyValueRef_new W trap bs (ObjectRef_end_position_of_last_processed_element self)) (fun r_21 =>
    match r_21 with RErr ec_23 => GOk (LRet (self, RErr ec_23)) | ROk q_22 =>
    match q_22 with
    | (key_string_ref, Some key_end_position) =>
        if negb (match key_string_ref with LazyValueRef_String _ => true | _ => false end) then
          GOk (LRet (self, RErr (EC_ReadError W)))
        else
          gbind (LazyValueRef_new W trap bs key_end_position) (fun r_24 =>
            match r_24 with RErr ec_26 => GOk (LRet (self, RErr ec_26)) | ROk q_25 =>
            let '(lazy_value, end_position) := q_25 in
            let self := ObjectRef_set_end_position_of_last_processed_element self
                          (match end_position with Some v_ => v_ | None => key_end_position end) in
            let self := ObjectRef_set_processed_elements self
                          (ObjectRef_processed_elements self ++ [(key_string_ref, lazy_value)]) in
            ObjectRef_get_at_index_loop1 W trap g (cnt - 1) bs self end)
    | _ => GOk (LRet (self, RErr (EC_ReadError W)))
    end end).

Lemma obj_loop_S g cnt self : ObjectRef_get_at_index_loop1 W trap (S g) cnt bs self =
  if cnt =? 0 then GOk (LNext self) else
  match vec_last (ObjectRef_processed_elements self) with
  | Some (lm, last) =>
     gbind (LazyValueRef_finish_processing W trap g last bs) (fun '(o, r) =>
       let self1 := ObjectRef_set_processed_elements self (vec_upd_last (ObjectRef_processed_elements self) (lm, o)) in
       match r with RErr ec => GOk (LRet (self1, RErr ec)) | ROk q =>
         match q with
         | Some e => obj_tail g cnt (ObjectRef_set_end_position_of_last_processed_element self1 e)
         | None => obj_tail g cnt self1
         end end)
  | None => obj_tail g cnt self
  end.
Proof. reflexivity. Qed.

Lemma obj_get_S g self index : ObjectRef_get_at_index W trap (S g) self index bs =
  if ObjectRef_len self <=? index then GOk (self, RErr (EC_IndexOutOfBounds W)) else
  if index <? lenN (ObjectRef_processed_elements self) then
    gbind (vec_index (ObjectRef_processed_elements self) index) (fun el => GOk (self, ROk el))
  else
    gbind (u_add W trap index 1) (fun a2 =>
      gbind (u_sub W trap a2 (lenN (ObjectRef_processed_elements self))) (fun count =>
        match ObjectRef_get_at_index_loop1 W trap g count bs self with
        | GPanic s => GPanic s
        | GOk (LRet r) => GOk r
        | GOk (LNext self) =>
            gbind (opt_unwrap (vec_last (ObjectRef_processed_elements self))) (fun uw => GOk (self, ROk uw))
        end)).
Proof. reflexivity. Qed.

Definition obj_htail (f : nat) (elems1 : list (lz * lz)) (endp1 idx : N) : list (lz * lz) * N * res unit :=
  match new_key W trap bs endp1 with
  | Ok (k, ke) =>
      match lz_new W trap bs ke with
      | Ok (v, e0) =>
          let endp2 := match e0 with Some e => e | None => ke end in
          obj_get_loop W trap f bs (elems1 ++ [(k, v)]) endp2 idx
      | Err c => (elems1, endp1, Err c)
      | Panic s => (elems1, endp1, Panic s)
      | OutOfFuel => (elems1, endp1, OutOfFuel)
      end
  | Err c => (elems1, endp1, Err c)
  | Panic s => (elems1, endp1, Panic s)
  | OutOfFuel => (elems1, endp1, OutOfFuel)
  end.

Lemma h_obj_loop_S f elems endp idx : obj_get_loop W trap (S f) bs elems endp idx =
  if idx <? lenN elems then (elems, endp, Ok tt) else
  let '(elems1, endp1, r) := finish_last_obj (finish W trap f bs) elems endp in
  match r with
  | Ok _ => obj_htail f elems1 endp1 idx
  | r' => (elems1, endp1, r')
  end.
Proof. reflexivity. Qed.

Definition obj_loop_rel (len idx : N) (g : gres (lctl (ObjectRef * rres (LazyValueRef * LazyValueRef)) ObjectRef))
  (h : list (lz * lz) * N * res unit) : Prop :=
  let '(es', e', r) := h in
  match g with
  | GPanic site => site <> P_fuel /\ is_panic r
  | GOk (LRet (s', RErr c)) => conv_obj s' = LObj len es' e' /\ r = Err c
  | GOk (LRet (s', ROk _)) => False
  | GOk (LNext s') => conv_obj s' = LObj len es' e' /\ r = Ok tt /\ lenN (ObjectRef_processed_elements s') = idx + 1
  end.

Definition plast_sane (es : list (LazyValueRef * LazyValueRef)) : Prop :=
  forall kv, vec_last es = Some kv -> exists p, sane L p (conv (snd kv)).

Definition obj_loop_P (f : nat) : Prop := forall len es e idx cnt g,
  lenN es + cnt = idx + 1 -> plast_sane es ->
  snd (obj_get_loop W trap f bs (map convp es) e idx) <> OutOfFuel ->
  (2 * f + k <= S g)%nat ->
  obj_loop_rel len idx (ObjectRef_get_at_index_loop1 W trap g cnt bs (mkObjectRef len es e))
    (obj_get_loop W trap f bs (map convp es) e idx).

Lemma conv_obj_mk len es e : conv_obj (mkObjectRef len es e) = LObj len (map convp es) e.
Proof. reflexivity. Qed.

Lemma obj_tail_eq f : obj_loop_P f -> forall len es1 e1 idx cnt g,
  cnt <> 0 -> lenN es1 + cnt = idx + 1 ->
  snd (obj_htail f (map convp es1) e1 idx) <> OutOfFuel ->
  (2 * f + k <= S g)%nat ->
  obj_loop_rel len idx (obj_tail g cnt (mkObjectRef len es1 e1)) (obj_htail f (map convp es1) e1 idx).
Proof.
  intros IH len es1 e1 idx cnt g Hc Hcnt Hnf Hg. revert Hnf.
  unfold obj_tail, obj_htail, new_key. cbn [ObjectRef_end_position_of_last_processed_element].
  pose proof (new_eq e1) as Hn.
  destruct (lz_new W trap bs e1) as [[kk ke0]|c'|s'|];
    destruct (LazyValueRef_new W trap bs e1) as [[[key kep]|c]|s]; cbn [same_res] in Hn; try contradiction.
  2:{ subst c'. intros _. cbn [gbind obj_loop_rel]. split; reflexivity. }
  destruct Hn as [Hv He]. subst kk kep. cbn [gbind].
  destruct ke0 as [ke|].
  2:{ intros _. cbn [obj_loop_rel]. split; reflexivity. }
  rewrite is_str_conv.
  destruct (match key with LazyValueRef_String _ => true | _ => false end) eqn:Ekey; cbn [negb].
  2:{ intros _. cbn [obj_loop_rel]. split; reflexivity. }
  pose proof (new_eq ke) as Hn.
  destruct (lz_new W trap bs ke) as [[v e0]|c'|s'|] eqn:El;
    destruct (LazyValueRef_new W trap bs ke) as [[[lv ep]|c]|s]; cbn [same_res] in Hn; try contradiction.
  2:{ subst c'. intros _. cbn [gbind obj_loop_rel]. split; reflexivity. }
  destruct Hn as [Hv He]. subst v ep. cbv zeta. cbn [gbind].
  change (conv key, conv lv) with (convp (key, lv)). rewrite <- map_snoc.
  assert (Hls : plast_sane (es1 ++ [(key, lv)])).
  { intros x Hx. rewrite vec_last_snoc in Hx. injection Hx as <-. exists ke. cbn [snd]. eapply new_sane_in. exact El. }
  assert (Hc' : lenN (es1 ++ [(key, lv)]) + (cnt - 1) = idx + 1) by (rewrite lenN_app, lenN_one; lia).
  intros Hnf.
  obj_norm.
  apply IH; assumption.
Qed.

Lemma obj_loop_eq : forall f, obj_loop_P f.
Proof.
  induction f as [|f IH]; intros len es e idx cnt g Hcnt Hls Hnf Hg.
  - exfalso. apply Hnf. reflexivity.
  - destruct g as [|g]; [lia|]. assert (Hg' : (2 * f + k <= g)%nat) by lia.
    assert (Hg'' : (2 * f + k <= S g)%nat) by lia.
    revert Hnf. rewrite obj_loop_S, h_obj_loop_S. cbn [ObjectRef_processed_elements]. rewrite lenN_map.
    destruct (N.eqb_spec cnt 0) as [Hc|Hc].
    { replace (idx <? lenN es) with true by (symmetry; apply N.ltb_lt; lia).
      intros _. cbn [obj_loop_rel ObjectRef_processed_elements]. repeat split. lia. }
    replace (idx <? lenN es) with false by (symmetry; apply N.ltb_ge; lia).
    destruct (r_snoc_cases es) as [->|(es0 & [lm x] & ->)].
    + rewrite vec_last_nil. cbn [map]. rewrite flo_nil. intros Hnf.
      apply (obj_tail_eq f IH len [] e idx cnt g); assumption.
    + rewrite vec_last_snoc, map_snoc. change (convp (lm, x)) with (conv lm, conv x). rewrite flo_snoc.
      destruct (Hls (lm, x) (vec_last_snoc es0 (lm, x))) as [p Hsx]. cbn [snd] in Hsx.
      pose proof (Hfin f x p Hsx) as Hs.
      destruct (finish W trap f bs (conv x)) as [x' r] eqn:Ef. cbn [snd] in Hs.
      destruct r as [q'|c'|s'|].
      4:{ intros Hnf. exfalso. apply Hnf. reflexivity. }
      all: specialize (Hs ltac:(discriminate) g Hg');
        destruct (LazyValueRef_finish_processing W trap g x bs) as [[o [q|c]]|site];
        cbn [sim fst snd rel_res is_panic] in Hs; try (destruct Hs as [Ho Hr]); try contradiction;
        cbn [gbind]; cbv zeta;
        obj_norm;
        rewrite ?vec_upd_last_snoc.
      * subst q' x'. change (conv lm, conv o) with (convp (lm, o)). rewrite <- map_snoc.
        assert (Hc' : lenN (es0 ++ [(lm, o)]) + cnt = idx + 1) by (rewrite lenN_app, lenN_one in *; lia).
        destruct q as [e'|]; intros Hnf; apply (obj_tail_eq f IH); assumption.
      * subst c' x'. intros _. cbn [obj_loop_rel]. rewrite conv_obj_mk, map_snoc. split; reflexivity.
      * intros _. cbn [obj_loop_rel is_panic]. split; [exact Ho|exact I].
Qed.

Theorem obj_get_eq_k_sec : obj_get_eq_stmt_k k W trap bs.
Proof.
  intros f len es e idx p Hs Hlen Hnf g Hg.
  destruct g as [|g]; [lia|]. revert Hnf.
  rewrite obj_get_S. unfold obj_get. cbn [ObjectRef_len ObjectRef_processed_elements].
  destruct (N.leb_spec len idx) as [Hle|Hlt].
  { intros _. cbn [sim fst snd rel_res]. split; reflexivity. }
  destruct (N.ltb_spec idx (lenN es)) as [Hi|Hi].
  { destruct f as [|f]; [intros Hnf; exfalso; apply Hnf; reflexivity|].
    rewrite h_obj_loop_S, lenN_map. replace (idx <? lenN es) with true by (symmetry; apply N.ltb_lt; lia).
    intros _. destruct (nthN_lt_Some es idx Hi) as [x Hx]. unfold vec_index. rewrite Hx.
    cbn [gbind sim fst snd rel_res ObjectRef_processed_elements]. split; [reflexivity|exact Hx]. }
  unfold u_add. cbv zeta. replace (idx + 1 <? 2 ^ W) with true by (symmetry; apply N.ltb_lt; lia).
  cbn [gbind]. unfold u_sub. replace (lenN es <=? idx + 1) with true by (symmetry; apply N.leb_le; lia).
  cbn [gbind]. intros Hnf.
  assert (Hls : plast_sane es).
  { intros x Hx. exists (p + 1). destruct (sane_obj_inv _ _ _ _ _ Hs) as (_ & _ & _ & Hall).
    rewrite Forall_forall in Hall. apply (Hall (convp x)). apply in_map. apply vec_last_In. exact Hx. }
  assert (Hnf' : snd (obj_get_loop W trap f bs (map convp es) e idx) <> OutOfFuel).
  { destruct (obj_get_loop W trap f bs (map convp es) e idx) as [[? ?] ?]. exact Hnf. }
  pose proof (obj_loop_eq f len es e idx (idx + 1 - lenN es) g ltac:(lia) Hls Hnf' ltac:(lia)) as Hrel.
  destruct (obj_get_loop W trap f bs (map convp es) e idx) as [[es' e'] r].
  destruct (ObjectRef_get_at_index_loop1 W trap g (idx + 1 - lenN es) bs (mkObjectRef len es e))
    as [[[s' [x|c]]|s']|site]; cbn [obj_loop_rel] in Hrel.
  - contradiction.
  - destruct Hrel as [Hc Hr]. subst r. cbn [sim fst snd rel_res]. split; [exact Hc|reflexivity].
  - destruct Hrel as (Hc & Hr & Hl). subst r.
    destruct (vec_last_nth _ _ Hl) as (x & Hx1 & Hx2). rewrite Hx1.
    cbn [opt_unwrap gbind sim fst snd rel_res]. split; [exact Hc|exact Hx2].
  - cbn [sim snd]. exact Hrel.
Qed.

End Get.

(** * The theorems *)
Theorem arr_get_eq_k : forall k W trap bs, (1 <= k)%nat -> input_ok W bs ->
  finish_eq_stmt_k k W trap bs -> arr_get_eq_stmt_k k W trap bs.
Proof. intros k W trap bs Hk Hin Hfin. exact (arr_get_eq_k_sec W trap bs k Hk Hin Hfin). Qed.

Theorem obj_get_eq_k : forall k W trap bs, (1 <= k)%nat -> input_ok W bs ->
  finish_eq_stmt_k k W trap bs -> obj_get_eq_stmt_k k W trap bs.
Proof. intros k W trap bs Hk Hin Hfin. exact (obj_get_eq_k_sec W trap bs k Hk Hin Hfin). Qed.

(** the statements of LazyLoopsStmt.v ([enough f g], i.e. [k = 2]) *)
Theorem arr_get_eq : forall W trap bs, input_ok W bs -> finish_eq_stmt W trap bs -> arr_get_eq_stmt W trap bs.
Proof. intros W trap bs Hin Hfin. exact (arr_get_eq_k 2 W trap bs ltac:(lia) Hin Hfin). Qed.

Theorem obj_get_eq : forall W trap bs, input_ok W bs -> finish_eq_stmt W trap bs -> obj_get_eq_stmt W trap bs.
Proof. intros W trap bs Hin Hfin. exact (obj_get_eq_k 2 W trap bs ltac:(lia) Hin Hfin). Qed.

(** * Examples (non-vacuity) *)
(** [ 1, [2, 3], "a" ]; the array node after the calls for indices 0 and 1 (its second element, the inner array,
    is still unprocessed): index 2 makes the loop finish the inner array and then read the string *)
Definition gdoc : list N := [0x93; 0x01; 0x92; 0x02; 0x03; 0xa1; 0x61].
Definition gdoc_es : list LazyValueRef :=
  [LazyValueRef_Number 4607182418800017408; LazyValueRef_Array (mkArrayRef 2 [] 3)].
(** { "a": [5], "b": true }, fresh object node *)
Definition odoc : list N := [0x82; 0xa1; 0x61; 0x91; 0x05; 0xa1; 0x62; 0xc3].

Lemma gdoc_ok : input_ok 32 gdoc.
Proof.
  split; [|split]; [|vm_compute; reflexivity|discriminate].
  unfold gdoc. repeat (constructor; [reflexivity|]). constructor.
Qed.
Lemma odoc_ok : input_ok 32 odoc.
Proof.
  split; [|split]; [|vm_compute; reflexivity|discriminate].
  unfold odoc. repeat (constructor; [reflexivity|]). constructor.
Qed.
Lemma gdoc_sane : sane (lenN gdoc) 0 (LArr 3 (map conv gdoc_es) 3).
Proof.
  constructor; [vm_compute; discriminate|reflexivity|vm_compute; discriminate|].
  repeat constructor; vm_compute; discriminate.
Qed.
Lemma odoc_sane : sane (lenN odoc) 0 (LObj 2 (map convp []) 1).
Proof. constructor; [vm_compute; discriminate|reflexivity|vm_compute; discriminate|constructor]. Qed.

(** the hypotheses of the theorems hold on the two documents (hand fuel 6), so that the theorems give: *)
Example arr_get_eq_gdoc : forall trap, finish_eq_stmt_k 1 32 trap gdoc ->
  forall g, (13 <= g)%nat ->
  sim conv_arr (fun a' x (_ : unit) => nthN (ArrayRef_processed_elements a') 2 = Some x)
      (ArrayRef_get_at_index 32 trap g (mkArrayRef 3 gdoc_es 3) 2 gdoc)
      (arr_get 32 trap 6 gdoc 3 (map conv gdoc_es) 3 2).
Proof.
  intros trap Hfin g Hg.
  apply (arr_get_eq_k 1 32 trap gdoc (le_n 1) gdoc_ok Hfin 6%nat 3 gdoc_es 3 2 0 gdoc_sane);
    [reflexivity|destruct trap; vm_compute; discriminate|exact Hg].
Qed.
Example obj_get_eq_odoc : forall trap, finish_eq_stmt_k 1 32 trap odoc ->
  forall g, (13 <= g)%nat ->
  sim conv_obj (fun o' x (_ : unit) => nthN (ObjectRef_processed_elements o') 1 = Some x)
      (ObjectRef_get_at_index 32 trap g (mkObjectRef 2 [] 1) 1 odoc)
      (obj_get 32 trap 6 odoc 2 (map convp []) 1 1).
Proof.
  intros trap Hfin g Hg.
  apply (obj_get_eq_k 1 32 trap odoc (le_n 1) odoc_ok Hfin 6%nat 2 [] 1 1 0 odoc_sane);
    [reflexivity|destruct trap; vm_compute; discriminate|exact Hg].
Qed.

(** and the conclusions, computed (generated fuel 13 = 2 * 6 + 1, the bound at [k = 1]): both sides finish the inner
    array, push the string / the second pair, and the reference returned is the element at the index *)
Example arr_get_run_gdoc :
  ArrayRef_get_at_index 32 true 13 (mkArrayRef 3 gdoc_es 3) 2 gdoc =
    GOk (mkArrayRef 3 [LazyValueRef_Number 4607182418800017408;
                       LazyValueRef_Array (mkArrayRef 2 [LazyValueRef_Number 4611686018427387904;
                                                         LazyValueRef_Number 4613937818241073152] 5);
                       LazyValueRef_String (mkStringRef 6 1)] 7,
         ROk (LazyValueRef_String (mkStringRef 6 1))) /\
  arr_get 32 true 6 gdoc 3 (map conv gdoc_es) 3 2 =
    (LArr 3 [LNum 4607182418800017408; LArr 2 [LNum 4611686018427387904; LNum 4613937818241073152] 5; LStr 6 1] 7,
     Ok tt) /\
  sim conv_arr (fun a' x (_ : unit) => nthN (ArrayRef_processed_elements a') 2 = Some x)
      (ArrayRef_get_at_index 32 true 13 (mkArrayRef 3 gdoc_es 3) 2 gdoc)
      (arr_get 32 true 6 gdoc 3 (map conv gdoc_es) 3 2).
Proof. vm_compute. repeat split; reflexivity. Qed.

Example obj_get_run_odoc :
  ObjectRef_get_at_index 32 true 13 (mkObjectRef 2 [] 1) 1 odoc =
    GOk (mkObjectRef 2 [(LazyValueRef_String (mkStringRef 2 1),
                         LazyValueRef_Array (mkArrayRef 1 [LazyValueRef_Number 4617315517961601024] 5));
                        (LazyValueRef_String (mkStringRef 6 1), LazyValueRef_Bool true)] 8,
         ROk (LazyValueRef_String (mkStringRef 6 1), LazyValueRef_Bool true)) /\
  obj_get 32 true 6 odoc 2 (map convp []) 1 1 =
    (LObj 2 [(LStr 2 1, LArr 1 [LNum 4617315517961601024] 5); (LStr 6 1, LBool true)] 8, Ok tt) /\
  sim conv_obj (fun o' x (_ : unit) => nthN (ObjectRef_processed_elements o') 1 = Some x)
      (ObjectRef_get_at_index 32 true 13 (mkObjectRef 2 [] 1) 1 odoc)
      (obj_get 32 true 6 odoc 2 (map convp []) 1 1).
Proof. vm_compute. repeat split; reflexivity. Qed.

(** the error paths agree as well: a truncated document (the string of [gdoc] cut off) is ReadError on both sides, with
    the same partially processed node; an index beyond the length is IndexOutOfBounds *)
Example arr_get_run_trunc :
  sim conv_arr (fun a' x (_ : unit) => nthN (ArrayRef_processed_elements a') 2 = Some x)
      (ArrayRef_get_at_index 32 true 13 (mkArrayRef 3 gdoc_es 3) 2 [0x93; 0x01; 0x92; 0x02; 0x03; 0xa1])
      (arr_get 32 true 6 [0x93; 0x01; 0x92; 0x02; 0x03; 0xa1] 3 (map conv gdoc_es) 3 2) /\
  snd (arr_get 32 true 6 [0x93; 0x01; 0x92; 0x02; 0x03; 0xa1] 3 (map conv gdoc_es) 3 2) = Err E_Read /\
  snd (arr_get 32 true 6 gdoc 3 (map conv gdoc_es) 3 3) = Err E_IndexOOB /\
  ArrayRef_get_at_index 32 true 1 (mkArrayRef 3 gdoc_es 3) 3 gdoc = GOk (mkArrayRef 3 gdoc_es 3, RErr E_IndexOOB).
Proof. vm_compute. repeat split; reflexivity. Qed.

(** [1 <= k] is needed: with [k = 0] the generated function has no fuel at all for [f = 0] while the hand model answers
    (IndexOutOfBounds needs no loop) *)
Example k0_refuted : ~ arr_get_eq_stmt_k 0 32 true gdoc.
Proof.
  intros H. specialize (H 0%nat 3 gdoc_es 3 3 0 gdoc_sane eq_refl ltac:(vm_compute; discriminate) 0%nat (le_n 0)).
  vm_compute in H. destruct H as [H _]. apply H. reflexivity.
Qed.

Print Assumptions arr_get_eq_k.
Print Assumptions obj_get_eq_k.
Print Assumptions arr_get_eq.
Print Assumptions obj_get_eq.
Print Assumptions arr_get_eq_gdoc.
Print Assumptions obj_get_eq_odoc.
Print Assumptions k0_refuted.
