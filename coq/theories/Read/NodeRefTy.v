(** Support for the T8 translation of the exported read functions (provider/src/read.rs, Gen/ReadAbiGen.v): a reference to a
    lazy node obtained from a raw address ([LazyValueRef::mut_from_raw]) is an abstract token; the operations on it
    ([get_object_property], [get_at_index], [get_key_at_index], [encode], [get_value_length], [get_utf8_str_addr]) are oracle
    parameters of the translated functions (what they DO is the subject of Gen/LazyLoopsGen.v and Read/GenRun.v). *)
From Coq Require Import NArith.
Definition NodeRef : Type := N.
