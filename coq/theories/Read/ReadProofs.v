(** C01: on a well-formed document every sequence of read calls returns what the eager spec says. *)
From Coq Require Import NArith ZArith Lia List Bool Arith ZifyNat ZifyN ZifyBool.
From SFV Require Import Base.Bytes Base.F64 Base.BytesProofs Base.F64IntNoNan Msgpack.Wire Read.Lazy Read.ReadRun Read.ReadSpec
  Read.ReadFuel Read.ReadInv Read.ReadNew Read.ReadFinish Read.ReadOps.
Import ListNotations.
Open Scope N_scope.

Lemma nthN_In {A} (l : list A) : forall i x, nthN l i = Some x -> In x l.
Proof.
  induction l as [|y l IH]; intros i x H; [discriminate|].
  cbn [nthN] in H. destruct (i =? 0); [inversion H; left; reflexivity|right; eapply IH; eauto].
Qed.

Lemma Forall_set_nth {A} (P : A -> Prop) (l : list A) : forall i x, Forall P l -> P x -> Forall P (set_nth l i x).
Proof.
  induction l as [|y l IH]; intros i x Hl Hx; [constructor|].
  inversion Hl; subst. cbn [set_nth]. destruct (i =? 0); constructor; auto.
Qed.

Definition handle_of (a : answer) : option handle :=
  match a with AStr h _ | AArr h _ | AObj h _ => Some h | _ => None end.

Lemma handle_of_ans h c h' : handle_of (ans_of h c) = Some h' -> h' = h.
Proof. destruct c; cbn; congruence. Qed.

Section Top.
Variable W : N.
Variable trap : bool.
Variable w0 : wire.
Hypothesis Hwf : wf w0 = true.
Hypothesis Hnn : no_nan w0 = true.
Hypothesis HW : lenN (enc w0) < 2 ^ W.
Variable fuel : nat.
Hypothesis Hfuel : (4 * length (enc w0) + 4 <= fuel)%nat.

Let bs := enc w0.

Lemma good0 : good bs 0 w0.
Proof. repeat split; [exact Hwf|exact Hnn|apply at_pos_whole]. Qed.

Definition hval (rs : roots_t) (a : answer) : Prop :=
  match handle_of a with
  | Some h => exists c, sel w0 (snd h) = Some c /\ a = ans_of h c /\ node_of rs h <> None
  | None => True
  end.
Definition oval (rs : roots_t) (o : out) : Prop := match o with OVal a => hval rs a | _ => True end.
Definition Inv (rs : roots_t) (os : list out) : Prop := Forall (agree w0 0) rs /\ Forall (oval rs) os.
Definition rext (rs rs' : roots_t) : Prop := forall h, node_of rs h <> None -> node_of rs' h <> None.

Lemma oval_rext rs rs' os : rext rs rs' -> Forall (oval rs) os -> Forall (oval rs') os.
Proof.
  intros Hr H. eapply Forall_impl; [|exact H]. intros o Ho. destruct o; cbn [oval] in *; auto.
  unfold hval in *. destruct (handle_of a); auto. destruct Ho as (c & H1 & H2 & H3). exists c. auto.
Qed.

Lemma fuel_ok_sub c q : good bs q c -> forall p, locate w0 0 p = Some (c, q) -> fuel_ok c fuel.
Proof.
  intros _ p Hl. unfold fuel_ok. pose proof (fsz_locate bs _ _ _ _ _ good0 Hl) as H1.
  pose proof (fsz_le_enc w0) as H2. lia.
Qed.

Lemma focus rs h l : Forall (agree w0 0) rs -> node_of rs h = Some l ->
  exists c q, locate w0 0 (snd h) = Some (c, q) /\ sel w0 (snd h) = Some c /\ agree c q l /\
              good bs q c /\ fuel_ok c fuel.
Proof.
  intros Hrs Hn. unfold node_of, root_of in Hn. destruct (nthN rs (fst h)) as [r|] eqn:Er; [|discriminate].
  pose proof (proj1 (Forall_forall _ _) Hrs r (nthN_In _ _ _ Er)) as Hr.
  destruct (agree_get _ _ _ _ _ Hr Hn) as (c & q & Hl & Ha).
  exists c, q. repeat split; try assumption.
  - eapply locate_sel; eauto.
  - eapply locate_good; [apply good0|exact Hl].
  - eapply locate_good; [apply good0|exact Hl].
  - eapply locate_good; [apply good0|exact Hl].
  - eapply fuel_ok_sub; [eapply locate_good; [apply good0|exact Hl]|exact Hl].
Qed.

Lemma put_ok rs h l c q l' : Forall (agree w0 0) rs -> node_of rs h = Some l ->
  locate w0 0 (snd h) = Some (c, q) -> agree c q l' -> ext l l' ->
  Forall (agree w0 0) (put_node rs h l') /\ rext rs (put_node rs h l') /\
  (forall pth, node_of (put_node rs h l') (fst h, snd h ++ pth) = get_node l' pth) /\
  lenN (put_node rs h l') = lenN rs.
Proof.
  intros Hrs Hn Hl Ha He. unfold node_of, root_of in Hn. unfold put_node, root_of.
  destruct (nthN rs (fst h)) as [r|] eqn:Er; [|discriminate].
  pose proof (proj1 (Forall_forall _ _) Hrs r (nthN_In _ _ _ Er)) as Hr.
  repeat split.
  - apply Forall_set_nth; [exact Hrs|]. eapply agree_set; eauto.
  - intros h' Hh'. unfold node_of, root_of in *.
    destruct (N.eq_dec (fst h) (fst h')) as [E|E].
    + rewrite <- E in *. rewrite Er in Hh'. erewrite nthN_set_nth_eq by eauto.
      eapply ext_set; eauto.
    + rewrite nthN_set_nth_neq by exact E. exact Hh'.
  - intros pth. unfold node_of, root_of. cbn [fst snd]. erewrite nthN_set_nth_eq by eauto.
    eapply get_set_app; eauto.
  - apply lenN_set_nth.
Qed.

Lemma scope_hval rs os k a : Forall (oval rs) os -> nthN os k = Some (OVal a) -> hval rs a.
Proof. intros H Hn. apply nthN_In in Hn. exact (proj1 (Forall_forall _ _) H _ Hn). Qed.

Lemma Inv_snoc_plain rs os o : Inv rs os -> oval rs o -> Inv rs (os ++ [o]).
Proof. intros [H1 H2] Ho. split; [exact H1|]. apply Forall_app. split; [exact H2|constructor; [exact Ho|constructor]]. Qed.

(** a step at handle [h] that leaves an agreeing, extended node and whose output carries no handle *)
Lemma put_plain rs os h l c q l' o : Inv rs os -> node_of rs h = Some l ->
  locate w0 0 (snd h) = Some (c, q) -> agree c q l' -> ext l l' -> oval (put_node rs h l') o ->
  Inv (put_node rs h l') (os ++ [o]) /\ lenN (put_node rs h l') = lenN rs.
Proof.
  intros [H1 H2] Hn Hl Ha He Ho.
  destruct (put_ok rs h l c q l' H1 Hn Hl Ha He) as (P1 & P2 & P3 & P4).
  split; [|exact P4]. apply Inv_snoc_plain; [|exact Ho]. split; [exact P1|]. eapply oval_rext; eauto.
Qed.

(** a step at handle [h] that returns the child at step [st] *)
Lemma put_child rs os h l c q l' st : Inv rs os -> node_of rs h = Some l ->
  locate w0 0 (snd h) = Some (c, q) -> sel w0 (snd h) = Some c -> good bs q c ->
  agree c q l' -> ext l l' -> get_node l' [st] <> None ->
  exists v, node_of (put_node rs h l') (child h st) = Some v /\
            encode_node (child h st) v = Ok (at_child w0 h st) /\
            Inv (put_node rs h l') (os ++ [OVal (at_child w0 h st)]) /\
            lenN (put_node rs h l') = lenN rs.
Proof.
  intros [H1 H2] Hn Hl Hs Hg Ha He Hc.
  destruct (put_ok rs h l c q l' H1 Hn Hl Ha He) as (P1 & P2 & P3 & P4).
  destruct (get_node l' [st]) as [v|] eqn:Ev; [|congruence]. exists v.
  assert (Hnode : node_of (put_node rs h l') (child h st) = Some v).
  { unfold child. rewrite P3. exact Ev. }
  destruct (agree_get _ _ _ _ _ Ha Ev) as (ci & qi & Hli & Hai).
  pose proof (locate_good _ _ _ _ _ _ Hg Hli) as (Hwi & Hni & _).
  pose proof (locate_sel _ _ _ _ _ Hli) as Hsi.
  assert (Hat : at_child w0 h st = ans_of (child h st) ci).
  { unfold at_child. rewrite sel_app, Hs, Hsi. reflexivity. }
  repeat split; try assumption.
  - rewrite Hat. eapply encode_agree; eauto.
  - apply Forall_app. split; [eapply oval_rext; eauto|]. constructor; [|constructor].
    cbn [oval]. unfold hval. rewrite Hat. destruct (handle_of (ans_of (child h st) ci)) as [h'|] eqn:Eh; [|exact I].
    apply handle_of_ans in Eh. subst h'. exists ci. repeat split.
    + unfold child. cbn [snd]. rewrite sel_app, Hs. exact Hsi.
    + rewrite Hnode. discriminate.
Qed.

Lemma sscope_ans os sc a : sscope os sc = SAns a -> exists k, nthN os k = Some (OVal a).
Proof.
  unfold sscope. destruct sc as [k|]; [|discriminate]. destruct (nthN os k) as [[a'| | | | |]|] eqn:E; try discriminate.
  intros H. inversion H; subst. eauto.
Qed.

Lemma scope_arr rs os k h n : Inv rs os -> nthN os k = Some (OVal (AArr h n)) ->
  exists f ch q elems endp, sel w0 (snd h) = Some (WArr f ch) /\ n = lenN ch /\
    locate w0 0 (snd h) = Some (WArr f ch, q) /\ node_of rs h = Some (LArr (lenN ch) elems endp) /\
    agree (WArr f ch) q (LArr (lenN ch) elems endp) /\ good bs q (WArr f ch) /\ fuel_ok (WArr f ch) fuel.
Proof.
  intros [H1 H2] Hk. pose proof (scope_hval _ _ _ _ H2 Hk) as Hv. unfold hval in Hv. cbn [handle_of] in Hv.
  destruct Hv as (c & Hs & Ha & Hn). destruct c; try discriminate. cbn [ans_of] in Ha. inversion Ha; subst n.
  destruct (node_of rs h) as [x|] eqn:En; [|congruence].
  destruct (focus _ _ _ H1 En) as (c' & q & Hl & Hs' & Hag & Hg & Hf).
  rewrite Hs in Hs'. inversion Hs'; subst c'.
  inversion Hag; subst. do 5 eexists. repeat split; eauto; destruct Hg as (?&?&?); assumption.
Qed.

Lemma scope_obj rs os k h n : Inv rs os -> nthN os k = Some (OVal (AObj h n)) ->
  exists f ch q elems endp, sel w0 (snd h) = Some (WMap f ch) /\ n = lenN ch /\
    locate w0 0 (snd h) = Some (WMap f ch, q) /\ node_of rs h = Some (LObj (lenN ch) elems endp) /\
    agree (WMap f ch) q (LObj (lenN ch) elems endp) /\ good bs q (WMap f ch) /\ fuel_ok (WMap f ch) fuel.
Proof.
  intros [H1 H2] Hk. pose proof (scope_hval _ _ _ _ H2 Hk) as Hv. unfold hval in Hv. cbn [handle_of] in Hv.
  destruct Hv as (c & Hs & Ha & Hn). destruct c; try discriminate. cbn [ans_of] in Ha. inversion Ha; subst n.
  destruct (node_of rs h) as [x|] eqn:En; [|congruence].
  destruct (focus _ _ _ H1 En) as (c' & q & Hl & Hs' & Hag & Hg & Hf).
  rewrite Hs in Hs'. inversion Hs'; subst c'.
  inversion Hag; subst. do 5 eexists. repeat split; eauto; destruct Hg as (?&?&?); assumption.
Qed.

Lemma scope_str rs os k h n : Inv rs os -> nthN os k = Some (OVal (AStr h n)) ->
  exists f sb q, sel w0 (snd h) = Some (WStr f sb) /\ n = lenN sb /\
    node_of rs h = Some (LStr (q + str_hlen f) (lenN sb)) /\ good bs q (WStr f sb).
Proof.
  intros [H1 H2] Hk. pose proof (scope_hval _ _ _ _ H2 Hk) as Hv. unfold hval in Hv. cbn [handle_of] in Hv.
  destruct Hv as (c & Hs & Ha & Hn). destruct c; try discriminate. cbn [ans_of] in Ha. inversion Ha; subst n.
  destruct (node_of rs h) as [x|] eqn:En; [|congruence].
  destruct (focus _ _ _ H1 En) as (c' & q & Hl & Hs' & Hag & Hg & Hf).
  rewrite Hs in Hs'. inversion Hs'; subst c'.
  inversion Hag; subst. do 3 eexists. repeat split; eauto; destruct Hg as (?&?&?); assumption.
Qed.

Ltac plain_case rs :=
  exists rs; split; [reflexivity|]; split; [apply Inv_snoc_plain; [assumption|exact I]|reflexivity].

(** ** shopify_function_input_get_obj_prop *)
Lemma get_obj_prop_ok rs os sc name k : Inv rs os ->
  exists rs', get_obj_prop W trap fuel bs rs (sscope os sc) name = (rs', spec_exec w0 os k (RProp sc name)) /\
              Inv rs' (os ++ [spec_exec w0 os k (RProp sc name)]) /\ lenN rs' = lenN rs.
Proof.
  intros HI. cbn [spec_exec]. destruct (sscope os sc) as [a|] eqn:Esc; [|plain_case rs].
  destruct a as [| | |h n|h n|h n|e]; try (plain_case rs).
  destruct (sscope_ans _ _ _ Esc) as [k0 Hk0].
  destruct (scope_obj _ _ _ _ _ HI Hk0) as (f & ch & q & elems & endp & Hs & -> & Hl & Hn & Ha & Hg & Hf).
  unfold get_obj_prop. rewrite Hn, Hs.
  destruct (obj_prop_ok W trap bs HW q f ch fuel elems endp name Hg Hf Ha) as (n' & Hop & Ha' & He' & Hc').
  rewrite Hop. cbv beta iota zeta.
  destruct (find_key name ch 0) as [i|] eqn:Ef.
  - destruct (put_child rs os h _ _ q n' (SVal i) HI Hn Hl Hs Hg Ha' He' (Hc' _ eq_refl))
      as (v & Hv & Henc & HI' & Hlen).
    rewrite Hv, Henc. cbn [out_of_res]. eexists; split; [reflexivity|split; [exact HI'|exact Hlen]].
  - destruct (put_plain rs os h _ _ q n' (OVal ANull) HI Hn Hl Ha' He' I) as [HI' Hlen].
    eexists; split; [reflexivity|split; [exact HI'|exact Hlen]].
Qed.

Lemma at_child_oob_arr h f ch i : sel w0 (snd h) = Some (WArr f ch) -> lenN ch <= i ->
  at_child w0 h (SIdx i) = AErr E_IndexOOB.
Proof. intros Hs Hi. unfold at_child. rewrite sel_app, Hs. cbn [sel]. rewrite nthN_ge_None by exact Hi. reflexivity. Qed.
Lemma at_child_oob_val h f ch i : sel w0 (snd h) = Some (WMap f ch) -> lenN ch <= i ->
  at_child w0 h (SVal i) = AErr E_IndexOOB.
Proof. intros Hs Hi. unfold at_child. rewrite sel_app, Hs. cbn [sel]. rewrite nthN_ge_None by exact Hi. reflexivity. Qed.
Lemma at_child_oob_key h f ch i : sel w0 (snd h) = Some (WMap f ch) -> lenN ch <= i ->
  at_child w0 h (SKey i) = AErr E_IndexOOB.
Proof. intros Hs Hi. unfold at_child. rewrite sel_app, Hs. cbn [sel]. rewrite nthN_ge_None by exact Hi. reflexivity. Qed.

(** ** shopify_function_input_get_at_index *)
Lemma get_at_index_ok rs os sc i k : Inv rs os ->
  exists rs', get_at_index W trap fuel bs rs (sscope os sc) i = (rs', spec_exec w0 os k (RIdx sc i)) /\
              Inv rs' (os ++ [spec_exec w0 os k (RIdx sc i)]) /\ lenN rs' = lenN rs.
Proof.
  intros HI. cbn [spec_exec]. destruct (sscope os sc) as [a|] eqn:Esc; [|plain_case rs].
  destruct a as [| | |h n|h n|h n|e]; try (plain_case rs).
  - destruct (sscope_ans _ _ _ Esc) as [k0 Hk0].
    destruct (scope_arr _ _ _ _ _ HI Hk0) as (f & ch & q & elems & endp & Hs & -> & Hl & Hn & Ha & Hg & Hf).
    unfold get_at_index. rewrite Hn.
    pose proof (arr_get_ok W trap bs HW q f ch fuel elems endp i Hg Hf Ha) as Hag.
    destruct (N.leb_spec (lenN ch) i) as [Hoob|Hin].
    + rewrite Hag. cbv beta iota zeta. rewrite (at_child_oob_arr _ _ _ _ Hs Hoob).
      destruct (put_plain rs os h _ _ q (LArr (lenN ch) elems endp) (OVal (AErr E_IndexOOB)) HI Hn Hl Ha (ext_refl _) I) as [HI' Hlen].
      eexists; split; [reflexivity|split; [exact HI'|exact Hlen]].
    + destruct Hag as (n' & Hop & Ha' & He' & Hc'). rewrite Hop. cbv beta iota zeta.
      destruct (put_child rs os h _ _ q n' (SIdx i) HI Hn Hl Hs Hg Ha' He' Hc') as (v & Hv & Henc & HI' & Hlen).
      rewrite Hv, Henc. cbn [out_of_res]. eexists; split; [reflexivity|split; [exact HI'|exact Hlen]].
  - destruct (sscope_ans _ _ _ Esc) as [k0 Hk0].
    destruct (scope_obj _ _ _ _ _ HI Hk0) as (f & ch & q & elems & endp & Hs & -> & Hl & Hn & Ha & Hg & Hf).
    unfold get_at_index. rewrite Hn.
    pose proof (obj_get_ok W trap bs HW q f ch fuel elems endp i Hg Hf Ha) as Hag.
    destruct (N.leb_spec (lenN ch) i) as [Hoob|Hin].
    + rewrite Hag. cbv beta iota zeta. rewrite (at_child_oob_val _ _ _ _ Hs Hoob).
      destruct (put_plain rs os h _ _ q (LObj (lenN ch) elems endp) (OVal (AErr E_IndexOOB)) HI Hn Hl Ha (ext_refl _) I) as [HI' Hlen].
      eexists; split; [reflexivity|split; [exact HI'|exact Hlen]].
    + destruct Hag as (n' & Hop & Ha' & He' & Hck & Hcv). rewrite Hop. cbv beta iota zeta.
      destruct (put_child rs os h _ _ q n' (SVal i) HI Hn Hl Hs Hg Ha' He' Hcv) as (v & Hv & Henc & HI' & Hlen).
      rewrite Hv, Henc. cbn [out_of_res]. eexists; split; [reflexivity|split; [exact HI'|exact Hlen]].
Qed.

(** ** shopify_function_input_get_obj_key_at_index *)
Lemma get_obj_key_at_index_ok rs os sc i k : Inv rs os ->
  exists rs', get_obj_key_at_index W trap fuel bs rs (sscope os sc) i = (rs', spec_exec w0 os k (RKey sc i)) /\
              Inv rs' (os ++ [spec_exec w0 os k (RKey sc i)]) /\ lenN rs' = lenN rs.
Proof.
  intros HI. cbn [spec_exec]. destruct (sscope os sc) as [a|] eqn:Esc; [|plain_case rs].
  destruct a as [| | |h n|h n|h n|e]; try (plain_case rs).
  destruct (sscope_ans _ _ _ Esc) as [k0 Hk0].
  destruct (scope_obj _ _ _ _ _ HI Hk0) as (f & ch & q & elems & endp & Hs & -> & Hl & Hn & Ha & Hg & Hf).
  unfold get_obj_key_at_index. rewrite Hn.
  pose proof (obj_get_ok W trap bs HW q f ch fuel elems endp i Hg Hf Ha) as Hag.
  destruct (N.leb_spec (lenN ch) i) as [Hoob|Hin].
  + rewrite Hag. cbv beta iota zeta. rewrite (at_child_oob_key _ _ _ _ Hs Hoob).
    destruct (put_plain rs os h _ _ q (LObj (lenN ch) elems endp) (OVal (AErr E_IndexOOB)) HI Hn Hl Ha (ext_refl _) I) as [HI' Hlen].
    eexists; split; [reflexivity|split; [exact HI'|exact Hlen]].
  + destruct Hag as (n' & Hop & Ha' & He' & Hck & Hcv). rewrite Hop. cbv beta iota zeta.
    destruct (put_child rs os h _ _ q n' (SKey i) HI Hn Hl Hs Hg Ha' He' Hck) as (v & Hv & Henc & HI' & Hlen).
    rewrite Hv, Henc. cbn [out_of_res]. eexists; split; [reflexivity|split; [exact HI'|exact Hlen]].
Qed.

(** ** shopify_function_input_get_val_len *)
Lemma get_val_len_ok rs os sc k : Inv rs os ->
  get_val_len rs (sscope os sc) = spec_exec w0 os k (RLen sc).
Proof.
  intros HI. cbn [spec_exec]. destruct (sscope os sc) as [a|] eqn:Esc; [|reflexivity].
  destruct a as [| | |h n|h n|h n|e]; try reflexivity; destruct (sscope_ans _ _ _ Esc) as [k0 Hk0].
  - destruct (scope_str _ _ _ _ _ HI Hk0) as (f & sb & q & Hs & -> & Hn & Hg).
    cbn [get_val_len]. rewrite Hn, Hs. reflexivity.
  - destruct (scope_arr _ _ _ _ _ HI Hk0) as (f & ch & q & elems & endp & Hs & -> & Hl & Hn & Ha & Hg & Hf).
    cbn [get_val_len]. rewrite Hn, Hs. reflexivity.
  - destruct (scope_obj _ _ _ _ _ HI Hk0) as (f & ch & q & elems & endp & Hs & -> & Hl & Hn & Ha & Hg & Hf).
    cbn [get_val_len]. rewrite Hn, Hs. reflexivity.
Qed.

(** ** get_utf8_str_addr + reading the bytes *)
Lemma read_str_ok rs os sc k : Inv rs os ->
  read_str bs rs (sscope os sc) (answer_len (sscope os sc)) = spec_exec w0 os k (RStr sc).
Proof.
  intros HI. cbn [spec_exec]. destruct (sscope os sc) as [a|] eqn:Esc; [|reflexivity].
  destruct a as [| | |h n|h n|h n|e]; try reflexivity; destruct (sscope_ans _ _ _ Esc) as [k0 Hk0].
  destruct (scope_str _ _ _ _ _ HI Hk0) as (f & sb & q & Hs & -> & Hn & Hg).
  cbn [read_str answer_len]. rewrite Hn, Hs.
  destruct Hg as (_ & _ & Hp). cbn [enc] in Hp. apply at_pos_app in Hp. rewrite str_hdr_len in Hp.
  destruct Hp as [_ Hp]. pose proof (at_pos_bound _ _ _ Hp) as Hb.
  destruct (N.ltb_spec (lenN bs) (q + str_hlen f)); [lia|].
  destruct (N.ltb_spec (lenN bs) (q + str_hlen f + lenN sb)); [lia|].
  rewrite (at_pos_sub _ _ _ Hp). reflexivity.
Qed.

(** ** shopify_function_input_get *)
Lemma input_get_ok rs os : Inv rs os ->
  exists rs', input_get W trap bs rs = (rs', spec_exec w0 os (lenN rs) RRoot) /\
              Inv rs' (os ++ [spec_exec w0 os (lenN rs) RRoot]) /\ lenN rs' = lenN rs + 1.
Proof.
  intros [H1 H2]. cbn [spec_exec]. unfold input_get.
  destruct good0 as (Hw & Hn & Hp).
  rewrite (new_ok W trap bs HW 0 w0 Hw Hn Hp).
  rewrite (encode_agree (lenN rs, []) w0 0 _ (fresh_agree w0 0) Hw Hn). cbn [out_of_res].
  eexists; repeat split.
  - apply Forall_app. split; [exact H1|]. constructor; [apply fresh_agree|constructor].
  - assert (Hr : rext rs (rs ++ [fresh w0 0])).
    { intros h Hh. unfold node_of, root_of in *. destruct (nthN rs (fst h)) eqn:E; [|congruence].
      rewrite nthN_app_l by (eapply nthN_Some_lt; eauto). rewrite E. exact Hh. }
    apply Forall_app. split; [eapply oval_rext; eauto|]. constructor; [|constructor].
    cbn [oval]. unfold hval. destruct (handle_of (ans_of (lenN rs, []) w0)) as [h'|] eqn:Eh; [|exact I].
    apply handle_of_ans in Eh. subst h'. exists w0. repeat split.
    unfold node_of, root_of. cbn [fst snd]. rewrite nthN_snoc. cbn [get_node]. discriminate.
  - rewrite lenN_app, lenN_one. reflexivity.
Qed.

(** * Sequences *)
Lemma scope_of_sscope st sc : scope_of st sc = sscope (outs st) sc.
Proof. reflexivity. Qed.

Lemma exec_ok st op : Inv (roots st) (outs st) ->
  let st' := exec W trap fuel bs st op in
  Inv (roots st') (outs st') /\
  outs st' = outs st ++ [spec_exec w0 (outs st) (lenN (roots st)) op] /\
  lenN (roots st') = if is_root op then lenN (roots st) + 1 else lenN (roots st).
Proof.
  intros HI. unfold exec. destruct op as [|sc name|sc i|sc i|sc|sc]; rewrite ?scope_of_sscope.
  - destruct (input_get_ok _ _ HI) as (rs' & -> & HI' & Hlen). cbn [roots outs is_root]. auto.
  - destruct (get_obj_prop_ok _ _ sc name (lenN (roots st)) HI) as (rs' & -> & HI' & Hlen). cbn [roots outs is_root]. auto.
  - destruct (get_at_index_ok _ _ sc i (lenN (roots st)) HI) as (rs' & -> & HI' & Hlen). cbn [roots outs is_root]. auto.
  - destruct (get_obj_key_at_index_ok _ _ sc i (lenN (roots st)) HI) as (rs' & -> & HI' & Hlen). cbn [roots outs is_root]. auto.
  - rewrite (get_val_len_ok _ _ sc (lenN (roots st)) HI). cbn [roots outs is_root].
    split; [|split; reflexivity]. apply Inv_snoc_plain; [exact HI|]. cbn [spec_exec].
    destruct (sscope (outs st) sc) as [[| | |h n|h n|h n|e]|]; try exact I;
      destruct (sel w0 (snd h)) as [[| | | | | | |]|]; exact I.
  - rewrite (read_str_ok _ _ sc (lenN (roots st)) HI). cbn [roots outs is_root].
    split; [|split; reflexivity]. apply Inv_snoc_plain; [exact HI|]. cbn [spec_exec].
    destruct (sscope (outs st) sc) as [[| | |h n|h n|h n|e]|]; try exact I;
      destruct (sel w0 (snd h)) as [[| | | | | | |]|]; exact I.
Qed.

Lemma run_ok : forall ops st, Inv (roots st) (outs st) ->
  outs (fold_left (exec W trap fuel bs) ops st) =
  fst (fold_left (spec_step w0) ops (outs st, lenN (roots st))).
Proof.
  induction ops as [|op ops IH]; intros st HI; [reflexivity|].
  cbn [fold_left]. destruct (exec_ok st op HI) as (HI' & Ho & Hl).
  rewrite IH by exact HI'. unfold spec_step at 2. cbn [fst snd]. rewrite Ho, Hl. reflexivity.
Qed.

Theorem run_spec ops : outs (run W trap fuel bs ops) = spec_run w0 ops.
Proof.
  unfold run, spec_run. rewrite run_ok; [reflexivity|]. split; constructor.
Qed.

End Top.

(** * C01 *)
Theorem C01_strong : forall (W : N) (trap : bool) (w : wire),
  wf w = true -> no_nan w = true -> lenN (enc w) < 2 ^ W ->
  forall ops : list rop, outs (run W trap (fuel_for w ops) (enc w) ops) = spec_run w ops.
Proof.
  intros W trap w Hwf Hnn HW ops. apply run_spec; try assumption. unfold fuel_for. lia.
Qed.

Theorem C01 : forall (W : N) (trap : bool) (w : wire),
  wf w = true -> no_nan w = true -> lenN (enc w) < 2 ^ W ->
  forall ops : list rop, refs_ok ops = true ->
  outs (run W trap (fuel_for w ops) (enc w) ops) = spec_run w ops.
Proof. intros W trap w Hwf Hnn HW ops _. apply C01_strong; assumption. Qed.
