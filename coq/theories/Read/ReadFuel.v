(** The fuel given to the lazy-reader model on a well-formed document (an explicit function of the
    input; C01 proves it suffices for every call sequence). *)
From Coq Require Import NArith List.
From SFV Require Import Base.Bytes Msgpack.Wire Read.ReadRun.

Definition fuel_for (w : wire) (ops : list rop) : nat := (4 * length (enc w) + 4)%nat.
