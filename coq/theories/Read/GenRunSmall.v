(** Two facts about the hand-written reader model (Read/Lazy.v) that the comparison of whole call sequences on the
    regenerated reader code (Read/GenRunEq.v) needs in addition to the invariant of Read/ReadRobust.v:
    - [small]: every array / object node of a reachable forest has a declared length below 2^32 (a header length is
      read from at most four bytes, or is a fix-length below 16; no operation changes the [len] field of a node);
    - the index [obj_prop] answers is the first processed pair of the NEW node whose key matches. *)
From Coq Require Import NArith ZArith Lia List Bool Arith ZifyNat ZifyN ZifyBool.
From SFV Require Import Base.Bytes Base.BytesProofs Base.F64 Read.Lazy Read.ReadRun Read.ReadSafe Read.ReadRobust.
Import ListNotations.
Open Scope N_scope.

Definition B32 : N := 4294967296.
Lemma B32_pow : B32 = 2 ^ 32.
Proof. reflexivity. Qed.

Inductive small : lz -> Prop :=
| sm_leaf n : is_comp n = false -> small n
| sm_arr len es e : len < B32 -> Forall small es -> small (LArr len es e)
| sm_obj len es e : len < B32 -> Forall (fun kv => small (fst kv) /\ small (snd kv)) es -> small (LObj len es e).

Lemma small_arr_inv len es e : small (LArr len es e) -> len < B32 /\ Forall small es.
Proof. inversion 1; subst; [discriminate|auto]. Qed.
Lemma small_obj_inv len es e : small (LObj len es e) ->
  len < B32 /\ Forall (fun kv => small (fst kv) /\ small (snd kv)) es.
Proof. inversion 1; subst; [discriminate|auto]. Qed.

Definition node_len' (n : lz) : N := match n with LArr len _ _ | LObj len _ _ => len | _ => 0 end.
Lemma small_len n : small n -> node_len' n < B32.
Proof. inversion 1; subst; cbn [node_len']; try assumption. destruct n; try discriminate; cbn [node_len']; reflexivity. Qed.

(** * [lz_new] makes small nodes *)
Definition new_small (r : res (lz * option N)) : Prop := match r with Ok (v, _) => small v | _ => True end.

Lemma pow256_le32 k : (k = 1 \/ k = 2 \/ k = 4)%nat -> 256 ^ N.of_nat k <= B32.
Proof. intros [-> | [-> | ->]]; vm_compute; discriminate. Qed.

Ltac ifs4 := repeat match goal with
  | |- context [if N.ltb ?a ?b then _ else _] => destruct (N.ltb_spec a b)
  | |- context [if N.eqb ?a ?b then _ else _] => destruct (N.eqb_spec a b)
  | |- context [if N.leb ?a ?b then _ else _] => destruct (N.leb_spec a b)
  end.

Section Small.
Variable W : N.
Variable trap : bool.
Variable bs : list N.
Hypothesis HW : lenN bs < 2 ^ W.
Hypothesis Hbytes : Forall (fun b => b < 256) bs.

Lemma str_at_small p l : new_small (str_at W trap bs p l).
Proof.
  unfold str_at, add_w. destruct (lenN bs <? p + l); [exact I|].
  destruct (p + l <? 2 ^ W); [apply sm_leaf; reflexivity|].
  destruct trap; [exact I|apply sm_leaf; reflexivity].
Qed.

Lemma via_be_small p k (F : N -> res (lz * option N)) :
  (forall v, v < 256 ^ N.of_nat k -> new_small (F v)) ->
  new_small (match read_be bs p k with
             | Ok v => F v | Err c => Err c | Panic s => Panic s | OutOfFuel => OutOfFuel end).
Proof.
  intros H. destruct (read_be_cases W bs HW Hbytes p k) as [->|(v & -> & H1 & H2)]; [exact I|]. apply H; assumption.
Qed.

Lemma leaf_small v e : is_comp v = false -> new_small (Ok (v, e)).
Proof. intros H. apply sm_leaf. exact H. Qed.

Lemma lz_new_small pos : new_small (lz_new W trap bs pos).
Proof.
  unfold lz_new. destruct (nthN bs pos) as [m|] eqn:Em; [|exact I].
  assert (Hm : m < 256).
  { pose proof (proj1 (Forall_forall _ _) Hbytes m (r_nthN_In _ _ _ Em)). assumption. }
  ifs4.
  all: try (apply leaf_small; reflexivity).
  all: try (apply str_at_small).
  all: try exact I.
  all: try (cbn [new_small]; apply sm_obj; [unfold B32; lia|constructor]).
  all: try (cbn [new_small]; apply sm_arr; [unfold B32; lia|constructor]).
  all: apply via_be_small; intros v Hv.
  all: try (apply leaf_small; reflexivity).
  all: try (apply str_at_small).
  all: try (cbn [new_small]; apply sm_obj; [pose proof (pow256_le32 _ ltac:(auto)); lia|constructor]).
  all: try (cbn [new_small]; apply sm_arr; [pose proof (pow256_le32 _ ltac:(auto)); lia|constructor]).
  - destruct (is_nan (of_f32 v)); [exact I|apply leaf_small; reflexivity].
  - destruct (is_nan v); [exact I|apply leaf_small; reflexivity].
Qed.

Lemma new_key_small endp : match new_key W trap bs endp with Ok (k, _) => small k | _ => True end.
Proof.
  unfold new_key. pose proof (lz_new_small endp) as H.
  destruct (lz_new W trap bs endp) as [[k [ke|]]| | |]; auto.
  destruct (is_str k); auto.
Qed.

(** * [small] is preserved by the model, with any fuel *)
Lemma fla_small fin elems endp : (forall x, small x -> small (fst (fin x))) -> Forall small elems ->
  Forall small (fst (fst (finish_last_arr fin elems endp))).
Proof.
  intros Hf Hall. unfold finish_last_arr. destruct (r_snoc_cases elems) as [->|(es0 & x & ->)].
  - rewrite r_last_opt_nil. cbn [fst]. auto.
  - rewrite r_last_opt_snoc. apply Forall_app in Hall. destruct Hall as [H0 Hx].
    inversion Hx as [|? ? Hx1 _]; subst. specialize (Hf x Hx1).
    destruct (fin x) as [x' r]. cbn [fst] in Hf. rewrite r_upd_last_snoc.
    assert (A : Forall small (es0 ++ [x'])) by (apply Forall_app; split; [exact H0|constructor; [exact Hf|constructor]]).
    destruct r as [[e|]|c|s|]; cbn [fst]; auto.
Qed.

Definition psmall (kv : lz * lz) : Prop := small (fst kv) /\ small (snd kv).

Lemma flo_small fin (elems : list (lz * lz)) endp : (forall x, small x -> small (fst (fin x))) ->
  Forall psmall elems -> Forall psmall (fst (fst (finish_last_obj fin elems endp))).
Proof.
  intros Hf Hall. unfold finish_last_obj. destruct (r_snoc_cases elems) as [->|(es0 & [k x] & ->)].
  - rewrite r_last_opt_nil. cbn [fst]. auto.
  - rewrite r_last_opt_snoc. apply Forall_app in Hall. destruct Hall as [H0 Hx].
    inversion Hx as [|? ? [Hk Hx1] _]; subst. cbn [fst snd] in Hk, Hx1. specialize (Hf x Hx1).
    destruct (fin x) as [x' r]. cbn [fst] in Hf. rewrite r_upd_last_snoc.
    assert (A : Forall psmall (es0 ++ [(k, x')])).
    { apply Forall_app; split; [exact H0|constructor; [split; [exact Hk|exact Hf]|constructor]]. }
    destruct r as [[e|]|c|s|]; cbn [fst]; auto.
Qed.

Lemma small_all : forall f,
  (forall n, small n -> small (fst (finish W trap f bs n))) /\
  (forall len es e, small (LArr len es e) -> small (fst (fin_arr W trap f bs len es e))) /\
  (forall len es e, small (LObj len es e) -> small (fst (fin_obj W trap f bs len es e))).
Proof.
  induction f as [|f (IHf & IHa & IHo)].
  - split; [|split]; intros; cbn [finish fin_arr fin_obj fst]; assumption.
  - split; [|split].
    + intros n Hn. rewrite r_finish_S.
      destruct n as [| | | |len elems endp|len elems endp]; cbn [fst]; try assumption.
      * destruct (small_arr_inv _ _ _ Hn) as [H1 H2].
        pose proof (fla_small (finish W trap f bs) elems endp IHf H2) as A.
        destruct (finish_last_arr (finish W trap f bs) elems endp) as [[es1 e1] r]. cbn [fst] in A.
        assert (Hl : small (LArr len es1 e1)) by (apply sm_arr; [exact H1|exact A]).
        destruct r as [[]|c|s|]; cbn [fst]; auto.
        destruct (len <? lenN es1); cbn [fst]; auto.
      * destruct (small_obj_inv _ _ _ Hn) as [H1 H2].
        pose proof (flo_small (finish W trap f bs) elems endp IHf H2) as A.
        destruct (finish_last_obj (finish W trap f bs) elems endp) as [[es1 e1] r]. cbn [fst] in A.
        assert (Hl : small (LObj len es1 e1)) by (apply sm_obj; [exact H1|exact A]).
        destruct r as [[]|c|s|]; cbn [fst]; auto.
        destruct (len <? lenN es1); cbn [fst]; auto.
    + intros len es e Hn. rewrite r_fin_arr_S.
      destruct (small_arr_inv _ _ _ Hn) as [H1 H2].
      destruct (len <=? lenN es); cbn [fst]; auto.
      pose proof (lz_new_small e) as Hv.
      destruct (lz_new W trap bs e) as [[v e0]|c|s|]; cbn [fst]; auto. cbn [new_small] in Hv.
      specialize (IHf v Hv). destruct (finish W trap f bs v) as [v' r]. cbn [fst] in IHf.
      assert (Hnext : forall e', small (fst (fin_arr W trap f bs len (es ++ [v']) e'))).
      { intros e'. apply IHa. apply sm_arr; [exact H1|].
        apply Forall_app; split; [exact H2|constructor; [exact IHf|constructor]]. }
      destruct r as [[e1|]|c|s|]; cbn [fst]; auto.
      destruct e0 as [e0|]; cbn [fst]; auto.
    + intros len es e Hn. rewrite r_fin_obj_S.
      destruct (small_obj_inv _ _ _ Hn) as [H1 H2].
      destruct (len <=? lenN es); cbn [fst]; auto.
      pose proof (new_key_small e) as Hk.
      destruct (new_key W trap bs e) as [[k ke]|c|s|]; cbn [fst]; auto.
      pose proof (lz_new_small ke) as Hv.
      destruct (lz_new W trap bs ke) as [[v e0]|c|s|]; cbn [fst]; auto. cbn [new_small] in Hv.
      specialize (IHf v Hv). destruct (finish W trap f bs v) as [v' r]. cbn [fst] in IHf.
      assert (Hnext : forall e', small (fst (fin_obj W trap f bs len (es ++ [(k, v')]) e'))).
      { intros e'. apply IHo. apply sm_obj; [exact H1|].
        apply Forall_app; split; [exact H2|constructor; [split; [exact Hk|exact IHf]|constructor]]. }
      destruct r as [[e1|]|c|s|]; cbn [fst]; auto.
      destruct e0 as [e0|]; cbn [fst]; auto.
Qed.

Lemma finish_small f n : small n -> small (fst (finish W trap f bs n)).
Proof. apply small_all. Qed.

Lemma arr_get_loop_small : forall f es e idx, Forall small es ->
  Forall small (fst (fst (arr_get_loop W trap f bs es e idx))).
Proof.
  induction f as [|f IH]; intros es e idx H; [exact H|].
  rewrite r_arr_get_loop_S. destruct (idx <? lenN es); [exact H|].
  pose proof (fla_small (finish W trap f bs) es e (finish_small f) H) as A.
  destruct (finish_last_arr (finish W trap f bs) es e) as [[es1 e1] r]. cbn [fst] in A.
  destruct r as [[]|c|s|]; cbn [fst]; auto.
  pose proof (lz_new_small e1) as Hv.
  destruct (lz_new W trap bs e1) as [[v e0]|c|s|]; cbn [fst]; auto. cbn [new_small] in Hv.
  apply IH. apply Forall_app; split; [exact A|constructor; [exact Hv|constructor]].
Qed.

Lemma obj_get_loop_small : forall f es e idx, Forall psmall es ->
  Forall psmall (fst (fst (obj_get_loop W trap f bs es e idx))).
Proof.
  induction f as [|f IH]; intros es e idx H; [exact H|].
  rewrite r_obj_get_loop_S. destruct (idx <? lenN es); [exact H|].
  pose proof (flo_small (finish W trap f bs) es e (finish_small f) H) as A.
  destruct (finish_last_obj (finish W trap f bs) es e) as [[es1 e1] r]. cbn [fst] in A.
  destruct r as [[]|c|s|]; cbn [fst]; auto.
  pose proof (new_key_small e1) as Hk.
  destruct (new_key W trap bs e1) as [[k ke]|c|s|]; cbn [fst]; auto.
  pose proof (lz_new_small ke) as Hv.
  destruct (lz_new W trap bs ke) as [[v e0]|c|s|]; cbn [fst]; auto. cbn [new_small] in Hv.
  apply IH. apply Forall_app; split; [exact A|constructor; [split; [exact Hk|exact Hv]|constructor]].
Qed.

Lemma prop_scan_small key len : forall f es e, Forall psmall es ->
  Forall psmall (fst (fst (prop_scan W trap f bs key len es e))).
Proof.
  induction f as [|f IH]; intros es e H; [exact H|].
  rewrite r_prop_scan_S. destruct (len <=? lenN es); [exact H|].
  pose proof (flo_small (finish W trap f bs) es e (finish_small f) H) as A.
  destruct (finish_last_obj (finish W trap f bs) es e) as [[es1 e1] r]. cbn [fst] in A.
  destruct r as [[]|c|s|]; cbn [fst]; auto.
  pose proof (new_key_small e1) as Hk.
  destruct (new_key W trap bs e1) as [[k ke]|c|s|]; cbn [fst]; auto.
  destruct k as [| | |kp kl| |]; cbn [fst]; auto.
  destruct (key_matches bs kp kl key) as [matched|c|s|]; cbn [fst]; auto.
  pose proof (lz_new_small ke) as Hv.
  destruct (lz_new W trap bs ke) as [[v e0]|c|s|]; cbn [fst]; auto. cbn [new_small] in Hv.
  assert (B : Forall psmall (es1 ++ [(LStr kp kl, v)])).
  { apply Forall_app; split; [exact A|constructor; [split; [exact Hk|exact Hv]|constructor]]. }
  destruct matched; cbn [fst]; [exact B|]. apply IH. exact B.
Qed.

Lemma arr_get_small f len es e idx : small (LArr len es e) -> small (fst (arr_get W trap f bs len es e idx)).
Proof.
  intros H. unfold arr_get. destruct (len <=? idx); [exact H|].
  destruct (small_arr_inv _ _ _ H) as [H1 H2].
  pose proof (arr_get_loop_small f es e idx H2) as A.
  destruct (arr_get_loop W trap f bs es e idx) as [[e' p'] r]. cbn [fst] in *. apply sm_arr; assumption.
Qed.

Lemma obj_get_small f len es e idx : small (LObj len es e) -> small (fst (obj_get W trap f bs len es e idx)).
Proof.
  intros H. unfold obj_get. destruct (len <=? idx); [exact H|].
  destruct (small_obj_inv _ _ _ H) as [H1 H2].
  pose proof (obj_get_loop_small f es e idx H2) as A.
  destruct (obj_get_loop W trap f bs es e idx) as [[e' p'] r]. cbn [fst] in *. apply sm_obj; assumption.
Qed.

Lemma obj_prop_small f key len es e : small (LObj len es e) -> small (fst (obj_prop W trap f bs key len es e)).
Proof.
  intros H. unfold obj_prop. destruct (find_processed bs key es 0) as [[i|]|c|s|]; try exact H.
  destruct (len <? lenN es); [exact H|].
  destruct (small_obj_inv _ _ _ H) as [H1 H2].
  pose proof (prop_scan_small key len f es e H2) as A.
  destruct (prop_scan W trap f bs key len es e) as [[e' p'] r]. cbn [fst] in *. apply sm_obj; assumption.
Qed.

End Small.

(** * The index [obj_prop] answers is what [find_processed] finds in the new node *)
Section Index.
Variable W : N.
Variable trap : bool.
Variable bs : list N.

Lemma find_processed_app key : forall a b i,
  find_processed bs key (a ++ b) i =
  match find_processed bs key a i with Ok None => find_processed bs key b (i + lenN a) | r => r end.
Proof.
  induction a as [|[k v] a IH]; intros b i.
  - cbn [app find_processed]. rewrite lenN_nil, N.add_0_r. reflexivity.
  - cbn [app]. rewrite lenN_cons.
    replace (i + (1 + lenN a)) with (i + 1 + lenN a) by lia.
    destruct k as [| | |ptr len| |]; cbn [find_processed]; try apply IH.
    destruct (key_matches bs ptr len key) as [[|]|c|s|]; try reflexivity. apply IH.
Qed.

Lemma find_processed_keys key : forall a b i, map fst a = map fst b ->
  find_processed bs key a i = find_processed bs key b i.
Proof.
  induction a as [|[k v] a IH]; intros [|[k' v'] b] i H; try discriminate; [reflexivity|].
  cbn [map fst] in H. injection H as -> H.
  destruct k' as [| | |ptr len| |]; cbn [find_processed]; try (apply IH; exact H).
  destruct (key_matches bs ptr len key) as [[|]|c|s|]; try reflexivity. apply IH; exact H.
Qed.

Lemma flo_keys fin (elems : list (lz * lz)) endp :
  map fst (fst (fst (finish_last_obj fin elems endp))) = map fst elems.
Proof.
  unfold finish_last_obj. destruct (r_snoc_cases elems) as [->|(es0 & [k x] & ->)].
  - rewrite r_last_opt_nil. reflexivity.
  - rewrite r_last_opt_snoc. destruct (fin x) as [x' r]. rewrite r_upd_last_snoc.
    assert (A : map fst (es0 ++ [(k, x')]) = map fst (es0 ++ [(k, x)])) by (rewrite !map_app; reflexivity).
    destruct r as [[e|]|c|s|]; cbn [fst]; exact A.
Qed.

Lemma prop_scan_index key len : forall f es e es' e' i,
  find_processed bs key es 0 = Ok None ->
  prop_scan W trap f bs key len es e = (es', e', Ok (Some i)) ->
  find_processed bs key es' 0 = Ok (Some i).
Proof.
  induction f as [|f IH]; intros es e es' e' i Hn Heq; [discriminate|].
  rewrite r_prop_scan_S in Heq. destruct (len <=? lenN es); [discriminate|].
  pose proof (flo_keys (finish W trap f bs) es e) as K.
  destruct (finish_last_obj (finish W trap f bs) es e) as [[es1 e1] r]. cbn [fst] in K.
  assert (Hn1 : find_processed bs key es1 0 = Ok None).
  { rewrite (find_processed_keys key es1 es 0 K). exact Hn. }
  destruct r as [[]|c|s|]; try discriminate.
  destruct (new_key W trap bs e1) as [[k ke]|c|s|]; try discriminate.
  destruct k as [| | |kp kl| |]; try discriminate.
  destruct (key_matches bs kp kl key) as [matched|c|s|] eqn:Ek; try discriminate.
  destruct (lz_new W trap bs ke) as [[v e0]|c|s|]; try discriminate.
  assert (Hf : find_processed bs key (es1 ++ [(LStr kp kl, v)]) 0 =
               if matched then Ok (Some (lenN es1)) else Ok None).
  { rewrite find_processed_app, Hn1. cbn [find_processed]. rewrite Ek, N.add_0_l. destruct matched; reflexivity. }
  destruct matched.
  - injection Heq as <- <- <-. rewrite Hf. rewrite lenN_app, lenN_one. f_equal. f_equal. lia.
  - eapply IH; [exact Hf|exact Heq].
Qed.

Lemma obj_prop_index f key len es e n' i :
  obj_prop W trap f bs key len es e = (n', Ok (Some i)) ->
  exists es' e', n' = LObj len es' e' /\ find_processed bs key es' 0 = Ok (Some i).
Proof.
  unfold obj_prop. intros Heq. destruct (find_processed bs key es 0) as [[j|]|c|s|] eqn:Ef; try discriminate.
  - injection Heq as <- <-. eauto.
  - destruct (len <? lenN es); [discriminate|].
    destruct (prop_scan W trap f bs key len es e) as [[es' e'] r] eqn:Es. injection Heq as <- ->.
    exists es', e'. split; [reflexivity|]. eapply prop_scan_index; eauto.
Qed.

End Index.

(** * Paths *)
Lemma small_get : forall pth r l, small r -> get_node r pth = Some l -> small l.
Proof.
  induction pth as [|st pth IH]; intros r l Hs Hg.
  - cbn in Hg. inversion Hg; subst. exact Hs.
  - destruct st as [i|i|i], r as [| | | |n es e|n es e]; cbn [get_node] in Hg; try discriminate.
    + destruct (nthN es i) as [c|] eqn:E; [|discriminate].
      destruct (small_arr_inv _ _ _ Hs) as (_ & H4).
      pose proof (proj1 (Forall_forall _ _) H4 c (r_nthN_In _ _ _ E)) as Hc. eapply IH; [exact Hc|exact Hg].
    + destruct (nthN es i) as [[k v]|] eqn:E; [|discriminate].
      destruct (small_obj_inv _ _ _ Hs) as (_ & H4).
      pose proof (proj1 (Forall_forall _ _) H4 _ (r_nthN_In _ _ _ E)) as [Hk Hv]. cbn [fst snd] in Hk, Hv. eapply IH; [exact Hk|exact Hg].
    + destruct (nthN es i) as [[k v]|] eqn:E; [|discriminate].
      destruct (small_obj_inv _ _ _ Hs) as (_ & H4).
      pose proof (proj1 (Forall_forall _ _) H4 _ (r_nthN_In _ _ _ E)) as [Hk Hv]. cbn [fst snd] in Hk, Hv. eapply IH; [exact Hv|exact Hg].
Qed.

Lemma small_set : forall pth r l', small r -> small l' -> small (set_node r pth l').
Proof.
  induction pth as [|st pth IH]; intros r l' Hs Hl; [exact Hl|].
  destruct st as [i|i|i], r as [| | | |n es e|n es e]; cbn [set_node]; try exact Hs.
  - destruct (nthN es i) as [c|] eqn:E; [|exact Hs].
    destruct (small_arr_inv _ _ _ Hs) as (H1 & H4).
    pose proof (proj1 (Forall_forall _ _) H4 c (r_nthN_In _ _ _ E)) as Hc.
    apply sm_arr; [exact H1|]. apply r_Forall_set_nth; [exact H4|]. apply IH; assumption.
  - destruct (nthN es i) as [[k v]|] eqn:E; [|exact Hs].
    destruct (small_obj_inv _ _ _ Hs) as (H1 & H4).
    pose proof (proj1 (Forall_forall _ _) H4 _ (r_nthN_In _ _ _ E)) as [Hk Hv]. cbn [fst snd] in Hk, Hv.
    apply sm_obj; [exact H1|]. apply r_Forall_set_nth; [exact H4|]. cbn [fst snd]. split; [apply IH; assumption|exact Hv].
  - destruct (nthN es i) as [[k v]|] eqn:E; [|exact Hs].
    destruct (small_obj_inv _ _ _ Hs) as (H1 & H4).
    pose proof (proj1 (Forall_forall _ _) H4 _ (r_nthN_In _ _ _ E)) as [Hk Hv]. cbn [fst snd] in Hk, Hv.
    apply sm_obj; [exact H1|]. apply r_Forall_set_nth; [exact H4|]. cbn [fst snd]. split; [exact Hk|apply IH; assumption].
Qed.

Lemma small_node_of rs h l : Forall small rs -> node_of rs h = Some l -> small l.
Proof.
  intros Hrs Hn. unfold node_of, root_of in Hn. destruct (nthN rs (fst h)) as [r|] eqn:Er; [|discriminate].
  pose proof (proj1 (Forall_forall _ _) Hrs r (r_nthN_In _ _ _ Er)) as Hr. eapply small_get; eauto.
Qed.

Lemma small_put rs h l' : Forall small rs -> small l' -> Forall small (put_node rs h l').
Proof.
  intros Hrs Hl. unfold put_node, root_of. destruct (nthN rs (fst h)) as [r|] eqn:Er; [|exact Hrs].
  pose proof (proj1 (Forall_forall _ _) Hrs r (r_nthN_In _ _ _ Er)) as Hr.
  apply r_Forall_set_nth; [exact Hrs|]. apply small_set; assumption.
Qed.
