(** C06: NaN-boxed values are lossless, unambiguous, total and laid out as documented
    (core/src/read.rs, struct NanBox), for both pointer widths W = 32 (Wasm) and W = 64.
    Final statements only; the proofs are in SFV.NanBox.NanBoxProofs (and NanBoxSweep). *)
From Coq Require Import NArith List Bool.
From SFV Require Import Gen.NanBoxGen Base.F64 NanBox.NanBox NanBox.NanBoxProofs NanBox.NanBoxSweep
  Base.RsPrelude NanBox.NanBoxExt Gen.NanBoxFnGen NanBox.NanBoxGenEq Gen.ApiLenGen Api.ApiLenGenEq.
Import ListNotations.
Open Scope N_scope.

(* ------------------------------------------------------------------ *)
(** * T1: layout *)

(** W = 32: payload (pointer) bits 0-31, length 32-45, tag 46-49, quiet-NaN prefix 50-62, sign 0. *)
Theorem C06_layout_32 : forall p l t, p < 2^32 -> t < 16 ->
  encode 32 p l t = 0x7FFC000000000000 + t * 2^46 + N.min l 16383 * 2^32 + p.
Proof. exact encode_layout_32. Qed.

Theorem C06_sign_bit_32 : forall p l t, t < 16 -> encode 32 p l t < 2^63.
Proof. exact encode_sign_32. Qed.

(** W = 64: pointer bits 0-63, length 64-109, tag 110-113, prefix 114-126, sign (bit 127) 0. *)
Theorem C06_layout_64 : forall p l t, p < 2^64 -> t < 16 ->
  encode 64 p l t = 8191 * 2^114 + t * 2^110 + N.min l (2^46 - 1) * 2^64 + p.
Proof. exact encode_layout_64. Qed.

Theorem C06_sign_bit_64 : forall p l t, t < 16 -> encode 64 p l t < 2^127.
Proof. exact encode_sign_64. Qed.

Theorem C06_max_value_length_32 : MAX_VALUE_LENGTH 32 = 2^14 - 1.
Proof. exact max_value_length_32. Qed.

Theorem C06_max_value_length_64 : MAX_VALUE_LENGTH 64 = 2^46 - 1.
Proof. exact max_value_length_64. Qed.

(** The fields read back from an encoded value (bit positions given by the generated sizes). *)
Theorem C06_fields_32 : forall p l t, p < 2^32 -> t < 16 ->
  f_pre 32 (encode 32 p l t) = 8191 /\ f_tag 32 (encode 32 p l t) = t /\
  f_len 32 (encode 32 p l t) = N.min l (MAX_VALUE_LENGTH 32) /\ f_ptr 32 (encode 32 p l t) = p.
Proof. exact fields_encode_32. Qed.

Theorem C06_fields_64 : forall p l t, p < 2^64 -> t < 16 ->
  f_pre 64 (encode 64 p l t) = 8191 /\ f_tag 64 (encode 64 p l t) = t /\
  f_len 64 (encode 64 p l t) = N.min l (MAX_VALUE_LENGTH 64) /\ f_ptr 64 (encode 64 p l t) = p.
Proof. exact fields_encode_64. Qed.

(* ------------------------------------------------------------------ *)
(** * T2: (pointer, length) round trips; lengths saturate at MAX_VALUE_LENGTH *)

Theorem C06_string_roundtrip : forall W, W = 32 \/ W = 64 -> forall p l, p < 2^W -> l < 2^W ->
  try_decode W (nb_string W p l) = DOk (VString p (N.min l (MAX_VALUE_LENGTH W))).
Proof. intros W HW p l Hp _. exact (decode_string W HW p l Hp). Qed.

Theorem C06_object_roundtrip : forall W, W = 32 \/ W = 64 -> forall p l, p < 2^W -> l < 2^W ->
  try_decode W (nb_obj W p l) = DOk (VObject p (N.min l (MAX_VALUE_LENGTH W))).
Proof. intros W HW p l Hp _. exact (decode_obj W HW p l Hp). Qed.

Theorem C06_array_roundtrip : forall W, W = 32 \/ W = 64 -> forall p l, p < 2^W -> l < 2^W ->
  try_decode W (nb_array W p l) = DOk (VArray p (N.min l (MAX_VALUE_LENGTH W))).
Proof. intros W HW p l Hp _. exact (decode_array W HW p l Hp). Qed.

(** Lengths up to 2^14 - 1 come back exactly, on both widths. *)
Theorem C06_string_exact : forall W, W = 32 \/ W = 64 -> forall p l, p < 2^W -> l <= 2^14 - 1 ->
  try_decode W (nb_string W p l) = DOk (VString p l).
Proof. exact decode_string_exact. Qed.

Theorem C06_object_exact : forall W, W = 32 \/ W = 64 -> forall p l, p < 2^W -> l <= 2^14 - 1 ->
  try_decode W (nb_obj W p l) = DOk (VObject p l).
Proof. exact decode_obj_exact. Qed.

Theorem C06_array_exact : forall W, W = 32 \/ W = 64 -> forall p l, p < 2^W -> l <= 2^14 - 1 ->
  try_decode W (nb_array W p l) = DOk (VArray p l).
Proof. exact decode_array_exact. Qed.

(** Larger lengths saturate to exactly MAX_VALUE_LENGTH (2^14 - 1 on Wasm). *)
Theorem C06_string_saturates : forall W, W = 32 \/ W = 64 -> forall p l,
  p < 2^W -> MAX_VALUE_LENGTH W < l ->
  try_decode W (nb_string W p l) = DOk (VString p (MAX_VALUE_LENGTH W)).
Proof. exact decode_string_saturates. Qed.

Theorem C06_object_saturates : forall W, W = 32 \/ W = 64 -> forall p l,
  p < 2^W -> MAX_VALUE_LENGTH W < l ->
  try_decode W (nb_obj W p l) = DOk (VObject p (MAX_VALUE_LENGTH W)).
Proof. exact decode_obj_saturates. Qed.

Theorem C06_array_saturates : forall W, W = 32 \/ W = 64 -> forall p l,
  p < 2^W -> MAX_VALUE_LENGTH W < l ->
  try_decode W (nb_array W p l) = DOk (VArray p (MAX_VALUE_LENGTH W)).
Proof. exact decode_array_saturates. Qed.

(* ------------------------------------------------------------------ *)
(** * T3: scalars *)

Theorem C06_bool_roundtrip : forall W, W = 32 \/ W = 64 -> forall b,
  try_decode W (nb_bool W b) = DOk (VBool b).
Proof. exact decode_bool. Qed.

Theorem C06_null_roundtrip : forall W, W = 32 \/ W = 64 ->
  try_decode W (nb_null W) = DOk VNull.
Proof. exact decode_null. Qed.

Theorem C06_error_roundtrip : forall W, W = 32 \/ W = 64 -> forall c,
  In c (map snd (ErrorCode_variants W)) ->
  try_decode W (nb_error W c) = DOk (VError c).
Proof. exact decode_error_known. Qed.

Theorem C06_error_unknown : forall W, W = 32 \/ W = 64 -> forall c,
  c < 2^W -> ~ In c (map snd (ErrorCode_variants W)) ->
  try_decode W (nb_error W c) = DOk (VError (EC_Unknown W)).
Proof. exact decode_error_other. Qed.

(* ------------------------------------------------------------------ *)
(** * T4: numbers *)

Theorem C06_number_roundtrip : forall W, W = 32 \/ W = 64 -> forall bits,
  bits < 2^64 -> is_nan bits = false ->
  exists v, nb_number W bits = Some v /\ v < 2^(2*W) /\ is_boxed W v = false /\
            try_decode W v = DOk (VNumber bits).
Proof. exact number_roundtrip. Qed.

(** [None] is the [assert!(!val.is_nan())] panic of [NanBox::number]. *)
Theorem C06_number_nan_rejected : forall W bits, is_nan bits = true -> nb_number W bits = None.
Proof. exact number_nan_panics. Qed.

(* ------------------------------------------------------------------ *)
(** * T5: numbers and boxed values are disjoint *)

Theorem C06_encode_is_boxed : forall W, W = 32 \/ W = 64 -> forall p l t, t < 16 ->
  is_boxed W (encode W p l t) = true.
Proof. exact encode_is_boxed. Qed.

Theorem C06_boxed_is_nan_as_f64 : forall W, W = 32 \/ W = 64 -> forall p l t, t < 16 ->
  is_nan (N.shiftr (encode W p l t) (F64_OFFSET W) mod 2^64) = true.
Proof. exact encode_f64_view_nan. Qed.

Theorem C06_not_boxed_is_number : forall W, W = 32 \/ W = 64 -> forall v, v < 2^(2*W) ->
  is_boxed W v = false -> exists bits, try_decode W v = DOk (VNumber bits).
Proof. intros W _ v _. exact (not_boxed_is_number W v). Qed.

(* ------------------------------------------------------------------ *)
(** * T6: totality *)

(** Decoding any bit pattern yields a value or a decode error, never a crash. *)
Theorem try_decode_total : forall W, W = 32 \/ W = 64 -> forall v, v < 2^(2*W) ->
  try_decode W v <> DPanic.
Proof. intros W HW v _. exact (NanBoxProofs.try_decode_total W HW v). Qed.

Theorem C06_try_decode_outcomes : forall W, W = 32 \/ W = 64 -> forall v, v < 2^(2*W) ->
  (exists x, try_decode W v = DOk x) \/ try_decode W v = DErr.
Proof. intros W HW v _. exact (try_decode_outcomes W HW v). Qed.

(** The decode error arises exactly for a NaN-prefixed value whose tag is not a known tag, or is
    the Number tag (numbers are never boxed). *)
Theorem C06_try_decode_err_iff : forall W, W = 32 \/ W = 64 -> forall v, v < 2^(2*W) ->
  (try_decode W v = DErr <->
   is_boxed W v = true /\ (tag_of W v = None \/ tag_of W v = Some (TAG_Number W))).
Proof. intros W HW v _. exact (try_decode_err_iff W HW v). Qed.

Theorem C06_try_decode_err_iff_bits : forall W, W = 32 \/ W = 64 -> forall v, v < 2^(2*W) ->
  (try_decode W v = DErr <-> is_boxed W v = true /\ ~ In (f_tag W v) [0; 1; 3; 4; 5; 15]).
Proof. intros W HW v _. exact (try_decode_err_iff_bits W HW v). Qed.

(** Historical (before commit 529b7f9): the old function crashed exactly on NaN-prefixed values
    carrying the Number tag, e.g. the f64 NaN 0x7FFC800000000000 on Wasm; otherwise the repaired
    function agrees with it. *)
Theorem C06_old_panic_iff : forall W, W = 32 \/ W = 64 -> forall v,
  try_decode_old W v = DPanic <-> is_boxed W v = true /\ tag_of W v = Some (TAG_Number W).
Proof. exact try_decode_old_panic_iff. Qed.

Theorem C06_old_panic_witness : try_decode_old 32 0x7FFC800000000000 = DPanic.
Proof. exact try_decode_old_panic_witness_32. Qed.

Theorem C06_repair_conservative : forall W, W = 32 \/ W = 64 -> forall v,
  try_decode_old W v <> DPanic -> try_decode W v = try_decode_old W v.
Proof. exact try_decode_old_agrees. Qed.

(* ------------------------------------------------------------------ *)
(** * T7: the decision depends only on the 13-bit prefix and the 4-bit tag *)

(** [classify prefix13 tag4 sign]: Number unless prefix = 8191; then Null / Bool / decode error /
    String / Object / Array for tags 0..5, Error for 15, decode error for 6..14. *)
Theorem C06_classify_32 : forall sign pre tag pay, pre < 2^13 -> tag < 16 -> pay < 2^46 ->
  is_boxed 32 (mk_val32 sign pre tag pay) = (pre =? 8191) /\
  kind_of (try_decode 32 (mk_val32 sign pre tag pay)) = classify pre tag sign.
Proof. exact classify_correct_32. Qed.

Theorem C06_classify_64 : forall sign pre tag pay, pre < 2^13 -> tag < 16 -> pay < 2^110 ->
  is_boxed 64 (mk_val64 sign pre tag pay) = (pre =? 8191) /\
  kind_of (try_decode 64 (mk_val64 sign pre tag pay)) = classify pre tag sign.
Proof. exact classify_correct_64. Qed.

(** ... and every [Val] is of that form. *)
Theorem C06_classify_covers_32 : forall v, v < 2^64 ->
  exists sign pre tag pay, pre < 2^13 /\ tag < 16 /\ pay < 2^46 /\ v = mk_val32 sign pre tag pay.
Proof. exact mk_val32_surj. Qed.

Theorem C06_classify_covers_64 : forall v, v < 2^128 ->
  exists sign pre tag pay, pre < 2^13 /\ tag < 16 /\ pay < 2^110 /\ v = mk_val64 sign pre tag pay.
Proof. exact mk_val64_surj. Qed.

(** The same table obtained by running the model on all 2^13 x 2^4 (prefix, tag) pairs. *)
Theorem C06_classify_sweep_32 : forall pre tag, pre < 2^13 -> tag < 16 ->
  is_boxed 32 (mk_val32 false pre tag 0) = (pre =? 8191) /\
  kind_of (try_decode 32 (mk_val32 false pre tag 0)) = classify pre tag false.
Proof. exact sweep32_lifted. Qed.

(* ------------------------------------------------------------------ *)
(** * Examples (non-vacuity) *)

(** the documented table *)
Example ex_classify_table :
  map (fun t => classify 8191 t false) [0; 1; 2; 3; 4; 5; 6; 14; 15] =
  [KNull; KBool; KDecodeErr; KString; KObject; KArray; KDecodeErr; KDecodeErr; KError]
  /\ classify 8190 3 true = KNumber.
Proof. vm_compute. split; reflexivity. Qed.

(** a string of length 70000 at W = 32 decodes to length 16383, pointer intact *)
Example ex_string_saturates_32 :
  try_decode 32 (nb_string 32 0x12345678 70000) = DOk (VString 0x12345678 16383).
Proof. vm_compute. reflexivity. Qed.

Example ex_string_exact_32 :
  nb_string 32 0xFFFFFFFF 16383 = 0x7FFCFFFFFFFFFFFF /\
  try_decode 32 (nb_string 32 0xFFFFFFFF 16383) = DOk (VString 0xFFFFFFFF 16383).
Proof. vm_compute. split; reflexivity. Qed.

Example ex_array_64 :
  try_decode 64 (nb_array 64 (2^64 - 1) (2^46)) = DOk (VArray (2^64 - 1) (2^46 - 1)) /\
  try_decode 64 (nb_obj 64 4096 16383) = DOk (VObject 4096 16383).
Proof. vm_compute. split; reflexivity. Qed.

(** 1.0, -0.0, +inf, -inf and f64::MAX are numbers on both widths; they are not boxed *)
Example ex_numbers :
  forallb (fun bits =>
    negb (is_nan bits) &&
    match nb_number 32 bits, nb_number 64 bits with
    | Some v32, Some v64 => negb (is_boxed 32 v32) && negb (is_boxed 64 v64) &&
                            (v32 =? bits) && (v64 =? bits * 2^64)
    | _, _ => false
    end)
    [0x3FF0000000000000; 0x8000000000000000; 0x7FF0000000000000; 0xFFF0000000000000;
     0x7FEFFFFFFFFFFFFF; 0x7FF0000000000000 + 0] = true.
Proof. vm_compute. reflexivity. Qed.

Example ex_number_decode :
  try_decode 32 0x3FF0000000000000 = DOk (VNumber 0x3FF0000000000000) /\
  try_decode 64 (0xFFF0000000000000 * 2^64) = DOk (VNumber 0xFFF0000000000000).
Proof. vm_compute. split; reflexivity. Qed.

(** the canonical NaN is rejected by [number] (assert!), yet its bits decode as a Number
    (prefix 8190), not as a boxed value *)
Example ex_nan :
  is_nan 0x7FF8000000000000 = true /\ nb_number 32 0x7FF8000000000000 = None /\
  try_decode 32 0x7FF8000000000000 = DOk (VNumber 0x7FF8000000000000).
Proof. vm_compute. repeat split; reflexivity. Qed.

(** scalars and error codes *)
Example ex_scalars :
  nb_null 32 = 0x7FFC000000000000 /\ nb_bool 32 true = 0x7FFC400000000001 /\
  nb_error 32 5 = 0x7FFFC00000000005 /\
  try_decode 32 (nb_error 32 5) = DOk (VError 5) /\
  try_decode 32 (nb_error 32 9) = DOk (VError 7) /\
  try_decode 64 (nb_error 64 (2^64 - 1)) = DOk (VError 7).
Proof. vm_compute. repeat split; reflexivity. Qed.

(** decode errors: unknown tag 6, and the Number tag under a NaN prefix (formerly a crash) *)
Example ex_decode_errors :
  try_decode 32 (0x7FFC000000000000 + 6 * 2^46) = DErr /\
  try_decode 32 0x7FFC800000000000 = DErr /\
  try_decode_old 32 0x7FFC800000000000 = DPanic /\
  try_decode 64 (0x7FFC800000000000 * 2^64 + 12345) = DErr.
Proof. vm_compute. repeat split; reflexivity. Qed.

(** the sign bit is ignored: a negative quiet NaN with tag 3 decodes as a string *)
Example ex_sign_ignored :
  try_decode 32 (2^63 + nb_string 32 16 3) = DOk (VString 16 3).
Proof. vm_compute. reflexivity. Qed.

(* ------------------------------------------------------------------ *)
(** * The model IS the code, at both pointer widths (tie by translation, T8)

    [Gen/NanBoxFnGen.v] is regenerated on every run from core/src/read.rs by translators/rs2v: [encode],
    the seven constructors and [try_decode], mechanically translated with the arithmetic of the Rust types
    ([Val] = 2W bits, [usize] = W bits, checked shifts, truncating casts, the cfg'd lets selected by W).
    For W = 32 (the Wasm layout, which the 64-bit host cannot execute) and W = 64, every argument in the
    range of its type and both overflow modes, the functions all theorems above are about compute exactly
    what the translated Rust computes. *)
Theorem C06_code_encode : forall trap W, W = 32 \/ W = 64 -> forall ptr len tag, ptr < 2 ^ W ->
  NanBox_encode W trap ptr len tag = GOk (encode W ptr len tag).
Proof. exact encode_eq_w. Qed.

Theorem C06_code_try_decode : forall trap W, W = 32 \/ W = 64 -> forall v, v < 2 ^ (2 * W) ->
  NanBox_try_decode W trap v = conv_dec (try_decode W v).
Proof. exact try_decode_eq_w. Qed.

Theorem C06_code_number : forall trap W, W = 32 \/ W = 64 -> forall bits, bits < 2 ^ 64 ->
  agree_opt (NanBox_number W trap bits) (nb_number W bits).
Proof. exact number_eq_w. Qed.

Theorem C06_code_pointer_constructors : forall trap W, W = 32 \/ W = 64 -> forall ptr len, ptr < 2 ^ W ->
  NanBox_string W trap ptr len = GOk (nb_string W ptr len) /\
  NanBox_obj W trap ptr len = GOk (nb_obj W ptr len) /\
  NanBox_array W trap ptr len = GOk (nb_array W ptr len).
Proof. exact ctor_eq_w. Qed.

Theorem C06_code_scalar_constructors : forall trap W, W = 32 \/ W = 64 ->
  (forall b, NanBox_bool W trap b = GOk (nb_bool W b)) /\
  NanBox_null W trap = GOk (nb_null W) /\
  (forall code, code < 2 ^ W -> NanBox_error W trap code = GOk (nb_error W code)).
Proof. exact scalar_ctor_eq_w. Qed.

(** what the conversions say, spelled out *)
Theorem C06_code_conv_meaning : forall d,
  conv_dec d = match d with
               | DOk VNull => GOk (Some ValueRef_Null) | DOk (VBool b) => GOk (Some (ValueRef_Bool b))
               | DOk (VNumber x) => GOk (Some (ValueRef_Number x)) | DOk (VString p l) => GOk (Some (ValueRef_String p l))
               | DOk (VObject p l) => GOk (Some (ValueRef_Object p l)) | DOk (VArray p l) => GOk (Some (ValueRef_Array p l))
               | DOk (VError c) => GOk (Some (ValueRef_Error c)) | DErr => GOk None | DPanic => GPanic 0
               end.
Proof. intros [[]| |]; reflexivity. Qed.

(** * The consumer side: the accessors of [api::Value] that only look at the handle ARE the code (T8)

    [Value::as_bool], [is_null], [as_number], [is_obj], [is_array], [as_error] of api/src/lib.rs, regenerated into
    Gen/ApiLenGen.v: each is the regenerated [NanBox::try_decode] followed by a projection, for EVERY bit pattern at both
    pointer widths (the oracle [q] is the foreign length query, which these accessors never call) -- so what a guest sees
    through the API for a handle is what the theorems above say [try_decode] returns for it, never a crash. *)
Theorem C06_code_value_as_bool : forall trap W, W = 32 \/ W = 64 -> forall (q : N -> N) bits, bits < 2 ^ (2 * W) ->
  Value_as_bool W trap q (mkValue bits) = GOk (match try_decode W bits with DOk (VBool b) => Some b | _ => None end).
Proof. exact gen_as_bool_eq. Qed.
Theorem C06_code_value_is_null : forall trap W, W = 32 \/ W = 64 -> forall (q : N -> N) bits, bits < 2 ^ (2 * W) ->
  Value_is_null W trap q (mkValue bits) = GOk (match try_decode W bits with DOk VNull => true | _ => false end).
Proof. exact gen_is_null_eq. Qed.
Theorem C06_code_value_as_number : forall trap W, W = 32 \/ W = 64 -> forall (q : N -> N) bits, bits < 2 ^ (2 * W) ->
  Value_as_number W trap q (mkValue bits) = GOk (match try_decode W bits with DOk (VNumber n) => Some n | _ => None end).
Proof. exact gen_as_number_eq. Qed.
Theorem C06_code_value_is_obj : forall trap W, W = 32 \/ W = 64 -> forall (q : N -> N) bits, bits < 2 ^ (2 * W) ->
  Value_is_obj W trap q (mkValue bits) = GOk (match try_decode W bits with DOk (VObject _ _) => true | _ => false end).
Proof. exact gen_is_obj_eq. Qed.
Theorem C06_code_value_is_array : forall trap W, W = 32 \/ W = 64 -> forall (q : N -> N) bits, bits < 2 ^ (2 * W) ->
  Value_is_array W trap q (mkValue bits) = GOk (match try_decode W bits with DOk (VArray _ _) => true | _ => false end).
Proof. exact gen_is_array_eq. Qed.
Theorem C06_code_value_as_error : forall trap W, W = 32 \/ W = 64 -> forall (q : N -> N) bits, bits < 2 ^ (2 * W) ->
  Value_as_error W trap q (mkValue bits) = GOk (match try_decode W bits with DOk (VError c) => Some c | _ => None end).
Proof. exact gen_as_error_eq. Qed.
