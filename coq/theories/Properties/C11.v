(** C11 - true lengths are always recoverable below, at and above the inline limit.
    Corollaries of C01 (the lazy reader answers as the eager tree, with TRUE lengths in its
    answers), C06 (the inline field is min(n, MAX_VALUE_LENGTH W), exactly 2^14-1 at W = 32) and the
    transcribed selection logic of the API accessors (Api/ApiLen.v). *)
From Coq Require Import NArith List Bool Lia.
From SFV Require Import Base.Bytes Gen.NanBoxGen NanBox.NanBox Msgpack.Wire Read.Lazy Read.ReadRun Read.ReadSpec
  Read.ReadFuel Api.ApiLen Properties.C01 Properties.C06 Base.RsPrelude Gen.ApiLenGen Api.ApiLenGenEq Read.GenRun.
Import ListNotations.
Open Scope N_scope.

(** The inline limit on the Wasm width is the documented one. *)
Theorem C11_limit_32 : MAX_VALUE_LENGTH 32 = 2 ^ 14 - 1.
Proof. exact C06_max_value_length_32. Qed.

(** The inline field of a handle for a value of true length [n] is min(n, limit): below the limit the
    length travels inline, at and above it the field reads exactly the limit. *)
Theorem C11_inline : forall W, W = 32 \/ W = 64 -> forall p n, p < 2 ^ W -> n < 2 ^ W ->
  try_decode W (nb_string W p n) = DOk (VString p (N.min n (MAX_VALUE_LENGTH W))) /\
  try_decode W (nb_array W p n) = DOk (VArray p (N.min n (MAX_VALUE_LENGTH W))) /\
  try_decode W (nb_obj W p n) = DOk (VObject p (N.min n (MAX_VALUE_LENGTH W))).
Proof.
  intros W HW p n Hp Hn. repeat split.
  - exact (C06_string_roundtrip W HW p n Hp Hn).
  - exact (C06_array_roundtrip W HW p n Hp Hn).
  - exact (C06_object_roundtrip W HW p n Hp Hn).
Qed.

(** The API accessors return the true length whenever the length query does: for every true length
    n below usize::MAX, whether n is below, at or above the inline limit. *)
Theorem C11_api_len : forall W n, n < 2 ^ W - 1 ->
  api_len W (N.min n (MAX_VALUE_LENGTH W)) (Some n) = Some n /\
  api_str_len W (N.min n (MAX_VALUE_LENGTH W)) (Some n) = n.
Proof.
  intros W n Hn. unfold api_len, api_str_len.
  destruct (N.eqb_spec (N.min n (MAX_VALUE_LENGTH W)) (MAX_VALUE_LENGTH W)) as [E|E].
  - destruct (N.eqb_spec n (2 ^ W - 1)); [lia|]. split; reflexivity.
  - assert (Hm : N.min n (MAX_VALUE_LENGTH W) = n) by lia. rewrite Hm.
    destruct (N.eqb_spec n (2 ^ W - 1)); [lia|]. split; reflexivity.
Qed.

(** The answers of the eager spec carry TRUE lengths, the length query returns the true length and
    the string read returns exactly the string's bytes; values without a length answer "no length"
    (usize::MAX = -1). *)
Theorem C11_answer_true_length : forall h w',
  match ans_of h w' with
  | AStr _ n => exists f s, w' = WStr f s /\ n = lenN s
  | AArr _ n => exists f l, w' = WArr f l /\ n = lenN l
  | AObj _ n => exists f l, w' = WMap f l /\ n = lenN l
  | _ => True
  end.
Proof. intros h w'; destruct w'; cbn; eauto. Qed.

Theorem C11_len_query : forall w prev k sc,
  match spec_exec w prev k (RLen sc) with
  | OLen (Some n) =>
      exists h, (exists m, sscope prev sc = SAns (AStr h m) \/ sscope prev sc = SAns (AArr h m) \/ sscope prev sc = SAns (AObj h m)) /\
      match sel w (snd h) with
      | Some (WStr _ s) => n = lenN s | Some (WArr _ l) => n = lenN l | Some (WMap _ l) => n = lenN l | _ => False
      end
  | OLen None => True
  | _ => False
  end.
Proof.
  intros w prev k sc. cbn [spec_exec].
  destruct (sscope prev sc) as [a|]; [|exact I].
  destruct a as [| | |h m|h m|h m|]; try exact I;
    (destruct (sel w (snd h)) as [w'|] eqn:E; [destruct w'|]; try exact I;
     exists h; (split; [exists m; auto|rewrite E; reflexivity])).
Qed.

Theorem C11_no_length : forall w prev k sc,
  (forall h m, sscope prev sc <> SAns (AStr h m) /\ sscope prev sc <> SAns (AArr h m) /\ sscope prev sc <> SAns (AObj h m)) ->
  spec_exec w prev k (RLen sc) = OLen None.
Proof.
  intros w prev k sc H. cbn [spec_exec].
  destruct (sscope prev sc) as [a|]; [|reflexivity].
  destruct a as [| | |h m|h m|h m|]; try reflexivity; exfalso; destruct (H h m) as (H1 & H2 & H3); congruence.
Qed.

(** ... and by C01 these are the answers of the lazy reader, for every document, path and history. *)
Theorem C11_reader : forall (W : N) (trap : bool) (w : wire),
  wf w = true -> no_nan w = true -> lenN (enc w) < 2 ^ W ->
  forall ops : list rop, refs_ok ops = true ->
  outs (run W trap (fuel_for w ops) (enc w) ops) = spec_run w ops.
Proof. exact C01. Qed.

(** ... and of the TRANSLATED reader (Read/GenRun.v, every node operation the regenerated Rust function; C01_code_reads):
    lengths above the inline limit included -- the length query's answer on the translated code is the true length. *)
Theorem C11_code_reader : forall (W : N) (trap : bool) (w : wire),
  wf w = true -> no_nan w = true -> lenN (enc w) + 9 < 2 ^ W -> 32 <= W ->
  forall ops : list rop, SFV.Read.GenRun.gouts (SFV.Read.GenRun.g_run W trap (enc w) ops) = spec_run w ops.
Proof. exact SFV.Properties.C01.C01_code_reads. Qed.

(** Non-vacuity: a 70000-byte string at W = 32: inline field 16383, accessor length 70000. *)
Example C11_example :
  N.min 70000 (MAX_VALUE_LENGTH 32) = 16383 /\ api_len 32 16383 (Some 70000) = Some 70000 /\ api_len 32 5 (Some 5) = Some 5 /\
  api_len 32 (MAX_VALUE_LENGTH 32) None = None.
Proof. vm_compute. repeat split. Qed.

(** * The accessor logic IS the code (tie by translation, T8)

    [Gen/ApiLenGen.v] is regenerated on every run from api/src/lib.rs: [Value::array_len] and [Value::obj_len] (decode the
    handle with the regenerated [NanBox::try_decode]; when the inline length equals [NanBox::MAX_VALUE_LENGTH] ask the
    length query, here the oracle [q]; [usize::MAX] is "no length").  At both pointer widths, for every handle and every
    oracle, they compute [api_len] of the decoded inline length and the query's answer ([vq]: [usize::MAX] as [None]). *)
Theorem C11_code_array_len : forall trap W, W = 32 \/ W = 64 -> forall (q : N -> N) bits, bits < 2 ^ (2 * W) ->
  Value_array_len W trap q (mkValue bits) =
  GOk (match try_decode W bits with DOk (VArray _ l) => api_len W l (vq W (q bits)) | _ => None end).
Proof. exact gen_array_len_eq. Qed.

Theorem C11_code_obj_len : forall trap W, W = 32 \/ W = 64 -> forall (q : N -> N) bits, bits < 2 ^ (2 * W) ->
  Value_obj_len W trap q (mkValue bits) =
  GOk (match try_decode W bits with DOk (VObject _ l) => api_len W l (vq W (q bits)) | _ => None end).
Proof. exact gen_obj_len_eq. Qed.
