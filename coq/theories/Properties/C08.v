(** Property C08 (robustness of the input reader on ARBITRARY bytes): final statements.

    For the Rust code AS IT IS the unrestricted claim is FALSE (refutation witnesses below: F1 NaN
    float panics; F2 string extents are never checked against the input: stray strings, out-of-bounds
    slice panic, and with 32-bit wrap-around a 10-byte input that loops as long as the announced
    element count).  What holds is the claim restricted to inputs in which every position that parses
    as a value header parses to a sane one ([safe_bytes], decidable): C08_nopanic_partial,
    C08_strings_partial.

    For the REPAIRED reader (LazyFixed.v: string extent check in str_at, NaN -> ReadError) the claim
    holds for every input made of bytes that fits the pointer width, every pointer width, both
    overflow modes and every sequence of calls with ANY scope arguments: C08_nopanic, C08_strings. *)
From Coq Require Import NArith List Bool.
From SFV Require Import Base.Bytes Read.Lazy Read.ReadRun Read.ReadSafe Read.ReadRobust.
From SFV Require Read.LazyFixed Read.ReadRunFixed Read.ReadSafeFixed Read.ReadRobustFixed.
Import ListNotations.
Open Scope N_scope.

(** * The code as it is *)
Theorem C08_nopanic_partial : forall W trap bs ops, safe_bytes W trap bs = true ->
  forallb no_bad (outs (run W trap (fuel_bs bs) bs ops)) = true.
Proof. exact ReadRobust.C08_nopanic_partial. Qed.

Theorem C08_strings_partial : forall W trap bs ops, safe_bytes W trap bs = true ->
  let st := run W trap (fuel_bs bs) bs ops in
  forall h n, In (OVal (AStr h n)) (outs st) ->
  exists ptr, node_of (roots st) h = Some (LStr ptr n) /\ ptr + n <= lenN bs.
Proof. exact ReadRobust.C08_strings_partial. Qed.

(** in particular the fuel [fuel_bs bs = 4 * |bs| + 4] always suffices on such inputs *)
Theorem C08_no_fuel_partial : forall W trap bs ops, safe_bytes W trap bs = true ->
  ~ In OFuel (outs (run W trap (fuel_bs bs) bs ops)).
Proof.
  intros W trap bs ops H Hin. pose proof (ReadRobust.C08_nopanic_partial W trap bs ops H) as Hf.
  rewrite forallb_forall in Hf. specialize (Hf _ Hin). discriminate.
Qed.

Theorem C08_deterministic : forall W trap fuel bs ops1 ops2, ops1 = ops2 ->
  outs (run W trap fuel bs ops1) = outs (run W trap fuel bs ops2).
Proof. exact ReadRobust.C08_deterministic. Qed.

Theorem C08_nopanic_refuted : exists W trap bs ops,
  lenN bs < 2 ^ W /\ Forall (fun b => b < 256) bs /\ forallb no_bad (outs (run W trap (fuel_bs bs) bs ops)) = false.
Proof. exact ReadRobust.C08_nopanic_refuted. Qed.

Example C08_witness_nan :
  outs (run 32 true (fuel_bs [0xcb;0x7f;0xf8;0;0;0;0;0;0]) [0xcb;0x7f;0xf8;0;0;0;0;0;0] [RRoot]) = [OPanic P_nan_number].
Proof. exact ReadRobust.C08_refuted_nan. Qed.
Example C08_witness_stray :
  outs (run 32 true (fuel_bs [0xd9;0xc8;0x61;0x62]) [0xd9;0xc8;0x61;0x62] [RRoot; RStr (Some 0)])
  = [OVal (AStr (0, []) 200); OStray].
Proof. exact ReadRobust.C08_refuted_stray. Qed.
Example C08_witness_key_slice :
  outs (run 32 true (fuel_bs [0x81;0xd9;0x64;0x6b]) [0x81;0xd9;0x64;0x6b] [RRoot; RProp (Some 0) [0x6b]])
  = [OVal (AObj (0, []) 1); OPanic P_key_slice].
Proof. exact ReadRobust.C08_refuted_key_slice. Qed.
Example C08_witness_wrap_loop :
  outs (run 32 false (fuel_bs wrap_input) wrap_input [RRoot; RIdx (Some 0) 1000])
  = [OVal (AArr (0, []) 4294967295); OFuel].
Proof. exact ReadRobust.C08_refuted_fuel. Qed.
Example C08_witness_wrap_overflow :
  outs (run 32 true (fuel_bs wrap_input) wrap_input [RRoot; RIdx (Some 0) 1000])
  = [OVal (AArr (0, []) 4294967295); OPanic P_add_overflow].
Proof. exact ReadRobust.C08_refuted_overflow. Qed.

Example C08_partial_hyp_satisfiable :
  safe_bytes 32 true [0x82;0xa1;0x61;0x93;0x01;0xc0;0xa2;0x68;0x69;0xa1;0x62;0xcb;0x3f;0xf0;0;0;0;0;0;0] = true.
Proof. exact ReadRobust.C08_partial_nonvacuous. Qed.

(** * The repaired reader *)
Module Fixed.
  Import Read.LazyFixed Read.ReadRunFixed Read.ReadSafeFixed Read.ReadRobustFixed.

  Theorem C08_nopanic : forall W trap bs ops, lenN bs < 2 ^ W -> Forall (fun b => b < 256) bs ->
    forallb ReadSafeFixed.no_bad (outs (run W trap (ReadSafeFixed.fuel_bs bs) bs ops)) = true.
  Proof. exact ReadRobustFixed.C08_nopanic. Qed.

  Theorem C08_strings : forall W trap bs ops, lenN bs < 2 ^ W -> Forall (fun b => b < 256) bs ->
    let st := run W trap (ReadSafeFixed.fuel_bs bs) bs ops in
    forall h n, In (OVal (AStr h n)) (outs st) ->
    exists ptr, node_of (roots st) h = Some (LStr ptr n) /\ ptr + n <= lenN bs.
  Proof. exact ReadRobustFixed.C08_strings. Qed.

  Theorem C08_no_fuel : forall W trap bs ops, lenN bs < 2 ^ W -> Forall (fun b => b < 256) bs ->
    ~ In OFuel (outs (run W trap (ReadSafeFixed.fuel_bs bs) bs ops)).
  Proof.
    intros W trap bs ops HW Hb Hin. pose proof (ReadRobustFixed.C08_nopanic W trap bs ops HW Hb) as Hf.
    rewrite forallb_forall in Hf. specialize (Hf _ Hin). discriminate.
  Qed.

  (** hypotheses satisfiable on garbage input; the former witnesses are plain errors now *)
  Example C08_fixed_example :
    let bs := [0x81;0xd9;0x64;0x6b] in
    lenN bs < 2 ^ 32 /\ Forall (fun b => b < 256) bs /\
    outs (run 32 true (ReadSafeFixed.fuel_bs bs) bs [RRoot; RProp (Some 0) [0x6b]])
    = [OVal (AObj (0, []) 1); OVal (AErr E_Read)].
  Proof. cbv zeta. split; [vm_compute; reflexivity|]. split; [repeat constructor|vm_compute; reflexivity]. Qed.
End Fixed.
