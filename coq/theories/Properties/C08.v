(** Property C08 (robustness of the input reader on ARBITRARY bytes): final statements.

    For every input made of bytes that fits the pointer width, every pointer width, both overflow
    modes and every sequence of read calls with ANY scope arguments (earlier answers of any kind,
    dangling indices, undecodable values): no call panics, none reports a string outside the
    input, none needs more than the stated fuel; the model is a function, so repeating a call on
    the same state gives the same answer (and theorem C01 shows answers do not depend on the state).

    History: before the repairs of findings F1 (NaN float -> panic) and F2 (string extents never
    checked against the input) these statements were false of the code; the former witnesses are
    kept below as Examples showing that they are plain read errors now. *)
From Coq Require Import NArith List Bool.
From SFV Require Import Base.Bytes Read.Lazy Read.ReadRun Read.ReadSafe Read.ReadRobust.
Import ListNotations.
Open Scope N_scope.

Theorem C08_nopanic : forall W trap bs ops, lenN bs < 2 ^ W -> Forall (fun b => b < 256) bs ->
  forallb no_bad (outs (run W trap (fuel_bs bs) bs ops)) = true.
Proof. exact ReadRobust.C08_nopanic. Qed.

Theorem C08_strings : forall W trap bs ops, lenN bs < 2 ^ W -> Forall (fun b => b < 256) bs ->
  let st := run W trap (fuel_bs bs) bs ops in
  forall h n, In (OVal (AStr h n)) (outs st) ->
  exists ptr, node_of (roots st) h = Some (LStr ptr n) /\ ptr + n <= lenN bs.
Proof. exact ReadRobust.C08_strings. Qed.

Theorem C08_no_fuel : forall W trap bs ops, lenN bs < 2 ^ W -> Forall (fun b => b < 256) bs ->
  ~ In OFuel (outs (run W trap (fuel_bs bs) bs ops)).
Proof.
  intros W trap bs ops HW Hb Hin. pose proof (ReadRobust.C08_nopanic W trap bs ops HW Hb) as Hf.
  rewrite forallb_forall in Hf. specialize (Hf _ Hin). discriminate.
Qed.

(** [no_bad] is exactly "not a panic, not a stray string, not out of fuel". *)
Theorem C08_no_bad_spec : forall o, no_bad o = true <->
  (forall s, o <> OPanic s) /\ o <> OStray /\ o <> OFuel.
Proof.
  intros o; split.
  - intros H; destruct o; try discriminate H; repeat split; congruence.
  - intros (H1 & H2 & H3); destruct o; try reflexivity.
    + exfalso; apply H2; reflexivity.
    + exfalso; apply (H1 site); reflexivity.
    + exfalso; apply H3; reflexivity.
Qed.

Theorem C08_deterministic : forall W trap fuel bs ops1 ops2, ops1 = ops2 ->
  outs (run W trap fuel bs ops1) = outs (run W trap fuel bs ops2).
Proof. exact ReadRobust.C08_deterministic. Qed.

(** Non-vacuity and history: the former crash witnesses are read errors now. *)
Example C08_example_truncated_key :
  let bs := [0x81;0xd9;0x64;0x6b] in
  lenN bs < 2 ^ 32 /\ Forall (fun b => b < 256) bs /\
  outs (run 32 true (fuel_bs bs) bs [RRoot; RProp (Some 0) [0x6b]])
  = [OVal (AObj (0, []) 1); OVal (AErr E_Read)].
Proof. cbv zeta. split; [vm_compute; reflexivity|]. split; [repeat constructor|vm_compute; reflexivity]. Qed.

Example C08_example_nan :
  outs (run 32 true (fuel_bs [0xcb;0x7f;0xf8;0;0;0;0;0;0]) [0xcb;0x7f;0xf8;0;0;0;0;0;0] [RRoot]) = [OVal (AErr E_Read)].
Proof. vm_compute. reflexivity. Qed.

Example C08_example_stray :
  outs (run 32 true (fuel_bs [0xd9;0xc8;0x61;0x62]) [0xd9;0xc8;0x61;0x62] [RRoot; RStr (Some 0)])
  = [OVal (AErr E_Read); OBytes None].
Proof. vm_compute. reflexivity. Qed.
